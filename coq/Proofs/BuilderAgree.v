(* Proofs/BuilderAgree.v — property C20, "the same construction sequence gives the same outcome
   on every attempt", for a Workflow: two complete executions of one call sequence, whose
   Compiles visit the nodes in whatever orders Go's map iteration takes, agree call by call on
   ok / error / compiled.

   The states of the two executions differ after the first Compile (edge lists in another
   order; after a failed attempt: other nodes consumed, another deferred error met), so the
   proof is a simulation:
     * [weq]    both workflows can still be built: equal node tables and branches, graphs equal
                up to the order of their lists ([geq]; inferred types are equal because type
                inference is a closure of the set of declared edges, Proofs/BuilderInfer.v);
     * [ceq]    both are compiled: graphs [geq], the node tables agree on what is still waiting;
     * both are [doomed] (Proofs/BuilderSticky.v): every later Compile fails in both.
   Every call keeps the disjunction and gives outcomes of the same kind. *)
From Eino Require Import Base.Util Model.Builder Proofs.Builder Proofs.BuilderReject Proofs.BuilderDag
  Proofs.BuilderSound Proofs.BuilderReject2 Proofs.BuilderInfer Proofs.BuilderWfOrder Proofs.BuilderReject3
  Proofs.BuilderSticky.
From Coq Require Import Permutation.
Local Open Scope string_scope.
Local Open Scope list_scope.

(* ================================================================== 1. graphs equal up to list order *)
Record geq (g g' : gstate) : Prop := {
  q_cmp : g_cmp g' = g_cmp g;
  q_state : g_state g' = g_state g;
  q_nodes : g_nodes g' = g_nodes g;
  q_ctrl : Permutation (g_ctrl g) (g_ctrl g');
  q_data : Permutation (g_data g) (g_data g');
  q_branches : g_branches g' = g_branches g;
  q_starts : Permutation (g_starts g) (g_starts g');
  q_ends : Permutation (g_ends g) (g_ends g');
  q_pending : Permutation (g_pending g) (g_pending g');
  q_fm : forall e, Permutation (fmget g e) (fmget g' e);
  q_err : g_err g' = g_err g;
  q_compiled : g_compiled g' = g_compiled g
}.

Lemma geq_refl : forall g, geq g g.
Proof. intros g. split; try reflexivity; try apply Permutation_refl. Qed.

Lemma geq_sym : forall a b, geq a b -> geq b a.
Proof.
  intros a b [A1 A2 A3 A4 A5 A6 A7 A8 A9 A10 A11 A12].
  split; try (symmetry; assumption); try (apply Permutation_sym; assumption).
  intros e. apply Permutation_sym. apply A10.
Qed.

Lemma geq_trans : forall a b c, geq a b -> geq b c -> geq a c.
Proof.
  intros a b c [A1 A2 A3 A4 A5 A6 A7 A8 A9 A10 A11 A12] [B1 B2 B3 B4 B5 B6 B7 B8 B9 B10 B11 B12].
  split; try congruence; try (eapply Permutation_trans; eassumption).
  intros e. eapply Permutation_trans; [apply A10|apply B10].
Qed.

Lemma pmem_perm : forall a b l l', Permutation l l' -> pmem a b l = pmem a b l'.
Proof.
  intros a b l l' P. apply bool_eq_iff. rewrite !pmem_In. split; apply Permutation_in; [|apply Permutation_sym]; assumption.
Qed.

Lemma geq_has_node : forall g g' x, geq g g' -> has_node g' x = has_node g x.
Proof. intros g g' x Q. apply has_node_nodes. apply (q_nodes _ _ Q). Qed.

Lemma geq_keys : forall g g', geq g g' -> keys g' = keys g.
Proof. intros g g' Q. unfold keys. rewrite (q_nodes _ _ Q). reflexivity. Qed.

Lemma geq_agree : forall k g g', geq g g' -> agree_on k g g'.
Proof.
  intros k g g' Q. repeat split.
  - apply (q_err _ _ Q).
  - apply (q_compiled _ _ Q).
  - intros x. apply geq_has_node. exact Q.
  - intros s. symmetry. apply pmem_perm. apply (q_ctrl _ _ Q).
  - intros s. symmetry. apply pmem_perm. apply (q_data _ _ Q).
Qed.

Lemma geq_same_to_compile : forall g g', geq g g' -> same_to_compile g g'.
Proof.
  intros g g' Q. split.
  - apply (q_err _ _ Q).
  - apply (q_cmp _ _ Q).
  - apply (q_starts _ _ Q).
  - apply (q_ends _ _ Q).
  - apply (q_ctrl _ _ Q).
  - apply (q_branches _ _ Q).
  - apply (q_pending _ _ Q).
  - intros k. rewrite (in_typed_nodes _ _ k (q_nodes _ _ Q)), (out_typed_nodes _ _ k (q_nodes _ _ Q)). auto.
  - apply (q_fm _ _ Q).
  - apply geq_keys. exact Q.
  - unfold kinds. rewrite (q_nodes _ _ Q). reflexivity.
Qed.

(* ---- a node table is determined by its keys, kinds, state flags and type flags *)
Lemma nodes_determined : forall l1 l2 : list (string * node),
  map fst l1 = map fst l2 ->
  map (fun kn => n_kind (snd kn)) l1 = map (fun kn => n_kind (snd kn)) l2 ->
  map (fun kn => n_state (snd kn)) l1 = map (fun kn => n_state (snd kn)) l2 ->
  NoDup (map fst l1) ->
  (forall k, In k (map fst l1) ->
     option_map n_in (alist_get k l1) = option_map n_in (alist_get k l2) /\
     option_map n_out (alist_get k l1) = option_map n_out (alist_get k l2)) ->
  l1 = l2.
Proof.
  induction l1 as [|[k1 n1] l1 IH]; intros [|[k2 n2] l2] K Kd St N F; simpl in *; try discriminate; [reflexivity|].
  inversion K; subst k2. inversion Kd. inversion St. inversion N as [|? ? N1 N2]; subst.
  destruct (F k1 (or_introl eq_refl)) as [F1 F2]. rewrite String.eqb_refl in F1, F2. simpl in F1, F2.
  assert (E : n1 = n2).
  { destruct n1, n2; simpl in *. inversion F1. inversion F2. congruence. }
  subst n2. f_equal. apply IH; try assumption.
  intros k I. assert (X : String.eqb k k1 = false).
  { apply String.eqb_neq. intros C; subst. contradiction. }
  specialize (F k (or_intror I)). rewrite X in F. exact F.
Qed.

Lemma flags_alist : forall g k, is_se k = false ->
  in_typed g k = match option_map n_in (alist_get k (g_nodes g)) with Some b => b | None => false end /\
  out_typed g k = match option_map n_out (alist_get k (g_nodes g)) with Some b => b | None => false end.
Proof. intros g k S. unfold in_typed, out_typed. rewrite S. destruct (alist_get k (g_nodes g)); simpl; auto. Qed.

Lemma nodes_of_flags : forall g1 g2,
  keys g1 = keys g2 -> kinds g1 = kinds g2 -> nstates g1 = nstates g2 ->
  NoDup (keys g1) -> (forall k, In k (keys g1) -> is_se k = false) ->
  (forall k, in_typed g1 k = in_typed g2 k /\ out_typed g1 k = out_typed g2 k) ->
  g_nodes g1 = g_nodes g2.
Proof.
  intros g1 g2 K Kd St N U F. apply nodes_determined; try assumption.
  - unfold nstates in St. apply (f_equal (map snd)) in St. rewrite !map_map in St. exact St.
  - intros k I. specialize (U k I).
    destruct (flags_alist g1 k U) as [A1 B1]. destruct (flags_alist g2 k U) as [A2 B2]. destruct (F k) as [FI FO].
    assert (H1 : exists n, alist_get k (g_nodes g1) = Some n).
    { apply has_node_keys in I. unfold has_node in I. destruct (alist_get k (g_nodes g1)); [eauto|discriminate]. }
    assert (H2 : exists n, alist_get k (g_nodes g2) = Some n).
    { assert (I2 : In k (keys g2)) by (rewrite <- K; exact I). apply has_node_keys in I2. unfold has_node in I2.
      destruct (alist_get k (g_nodes g2)); [eauto|discriminate]. }
    destruct H1 as [n1 H1]. destruct H2 as [n2 H2]. rewrite H1, H2 in *. simpl in *. split; congruence.
Qed.

(* ---- type inference on two graphs that differ by the order of their lists *)
Theorem infer_perm_independent' : forall A B g1 g2,
  g_nodes B = g_nodes A -> (forall e, Permutation (fmget A e) (fmget B e)) -> Permutation (g_pending A) (g_pending B) ->
  io_ok A -> ends_ok A ->
  ireach A g1 -> istable g1 -> ireach B g2 -> istable g2 ->
  (forall k, in_typed g1 k = in_typed g2 k /\ out_typed g1 k = out_typed g2 k) /\
  Permutation (g_pending g1) (g_pending g2) /\
  (forall e, Permutation (fmget g1 e) (fmget g2 e)) /\
  keys g1 = keys g2 /\ kinds g1 = kinds g2.
Proof.
  intros A B g1 g2 N FM P IO EN R1 S1 R2 S2.
  assert (IOB : io_ok B).
  { intros k. rewrite (in_typed_nodes _ _ k N), (out_typed_nodes _ _ k N). apply IO. }
  assert (ENB : ends_ok B).
  { intros s e fs H. rewrite !(has_node_nodes _ _ _ N). apply (EN s e fs).
    apply (Permutation_in _ (Permutation_sym P)). assumption. }
  destruct (infer_any_order A IO EN g1 R1 S1) as [A1 [B1 C1]].
  destruct (infer_any_order B IOB ENB g2 R2 S2) as [A2 [B2 C2]].
  assert (TT : forall k, Tn A k <-> Tn B k).
  { intros k. split; apply Tn_incl; auto; intros p H.
    - apply (Permutation_in _ P). assumption.
    - apply (Permutation_in _ (Permutation_sym P)). assumption. }
  assert (F : forall k, in_typed g1 k = in_typed g2 k /\ out_typed g1 k = out_typed g2 k).
  { intros k. split; apply bool_eq_iff.
    - rewrite A1, A2. apply TT.
    - rewrite B1, B2, TT, (out_typed_nodes _ _ k N). reflexivity. }
  assert (PP : Permutation (g_pending g1) (g_pending g2)).
  { eapply Permutation_trans; [exact C1|]. eapply Permutation_trans; [|apply Permutation_sym; exact C2].
    replace (filter (fun p => negb (resolvable g1 p)) (g_pending A))
       with (filter (fun p => negb (resolvable g2 p)) (g_pending A)).
    - apply Permutation_filter'. assumption.
    - apply filter_ext. intros [[s e] fs]. simpl. destruct (F s) as [_ Fs], (F e) as [Fe _]. rewrite Fs, Fe. reflexivity. }
  split; [exact F|]. split; [exact PP|].
  destruct (ireach_fm _ _ R1) as [d1 [P1 F1]]. destruct (ireach_fm _ _ R2) as [d2 [P2 F2]].
  assert (DD : Permutation d1 d2).
  { apply (Permutation_app_inv_l (g_pending g1)).
    eapply Permutation_trans; [apply Permutation_sym; exact P1|].
    eapply Permutation_trans; [exact P|]. eapply Permutation_trans; [exact P2|].
    apply Permutation_app_tail. apply Permutation_sym. assumption. }
  split.
  - intros e. rewrite F1, F2. apply Permutation_app; [apply FM|]. apply Permutation_flat_map. assumption.
  - destruct (ireach_keys_kinds _ _ R1) as [K1 K2]. destruct (ireach_keys_kinds _ _ R2) as [K3 K4].
    unfold keys, kinds in *. rewrite K1, K2, K3, K4, N. auto.
Qed.

(* the part of [geq] that type inference reads and writes *)
Record teq (g g' : gstate) : Prop := {
  t_nodes : g_nodes g' = g_nodes g;
  t_pending : Permutation (g_pending g) (g_pending g');
  t_fm : forall e, Permutation (fmget g e) (fmget g' e)
}.

Lemma geq_teq : forall g g', geq g g' -> teq g g'.
Proof. intros g g' Q. split; [apply (q_nodes _ _ Q)|apply (q_pending _ _ Q)|apply (q_fm _ _ Q)]. Qed.

Lemma ireach_nstates : forall g g', ireach g g' -> nstates g' = nstates g.
Proof.
  intros g g' H. induction H as [g|g l1 p l2 g' E R _ IH]; [reflexivity|].
  rewrite IH. change (nstates (resolve1 g p) = nstates g).
  pose proof (ss_resolve_pass [p] g) as S. rewrite resolve_pass_cons in S. rewrite R in S. simpl in S.
  apply (ss_nstates _ _ S).
Qed.

(* two stable runs from [teq] graphs end in [teq] graphs *)
Lemma teq_runs : forall A B g1 g2,
  teq A B -> io_ok A -> ends_ok A -> NoDup (keys A) -> (forall k, In k (keys A) -> is_se k = false) ->
  ireach A g1 -> istable g1 -> ireach B g2 -> istable g2 -> teq g1 g2.
Proof.
  intros A B g1 g2 [T1 T2 T3] IO EN ND UR R1 S1 R2 S2.
  destruct (infer_perm_independent' A B g1 g2 T1 T3 T2 IO EN R1 S1 R2 S2) as [F [PP [FM [K Kd]]]].
  destruct (ireach_keys_kinds _ _ R1) as [K1 _].
  split; [|exact PP|exact FM].
  symmetry. apply nodes_of_flags; try assumption.
  - rewrite (ireach_nstates _ _ R1), (ireach_nstates _ _ R2). unfold nstates. rewrite T1. reflexivity.
  - rewrite K1. exact ND.
  - rewrite K1. exact UR.
Qed.

(* ================================================================== 2. the primitives respect [geq] *)
Lemma geq_set_err : forall g g' e, geq g g' -> geq (set_err e g) (set_err e g').
Proof.
  intros g g' e [A1 A2 A3 A4 A5 A6 A7 A8 A9 A10 A11 A12]. split; simpl; try assumption; try reflexivity; try (intros x; exact (A10 x)).
Qed.

Lemma geq_set_compiled : forall g g' c, geq g g' -> geq (set_compiled c g) (set_compiled c g').
Proof.
  intros g g' c [A1 A2 A3 A4 A5 A6 A7 A8 A9 A10 A11 A12]. split; simpl; try assumption; try reflexivity; try (intros x; exact (A10 x)).
Qed.

Lemma geq_add_node : forall g g' k nk a b c, geq g g' ->
  geq (fst (g_add_node g k nk a b c)) (fst (g_add_node g' k nk a b c)) /\
  snd (g_add_node g' k nk a b c) = snd (g_add_node g k nk a b c).
Proof.
  intros g g' k nk a b c Q. unfold g_add_node, fail.
  rewrite (q_err _ _ Q), (q_compiled _ _ Q), (geq_has_node _ _ k Q), (q_state _ _ Q), (q_cmp _ _ Q), (q_nodes _ _ Q).
  destruct (g_err g); [split; [exact Q|reflexivity]|].
  destruct (g_compiled g); [split; [exact Q|reflexivity]|].
  repeat (dif; [split; [apply geq_set_err; exact Q|reflexivity]|]).
  split; [|reflexivity]. simpl.
  destruct Q as [A1 A2 A3 A4 A5 A6 A7 A8 A9 A10 A11 A12]. split; simpl; try assumption; try reflexivity; try (intros x; exact (A10 x)).
Qed.

Lemma geq_update_pending : forall A B, geq A B -> pinv A -> ginv A -> geq (update_pending A) (update_pending B).
Proof.
  intros A B Q [IO EN] I.
  destruct (update_pending_is_a_run A) as [R1 S1]. destruct (update_pending_is_a_run B) as [R2 S2].
  pose proof (teq_runs A B _ _ (geq_teq _ _ Q) IO EN (gi_nodup _ I) (gi_unreserved _ I) R1 S1 R2 S2) as [T1 T2 T3].
  pose proof (ss_update_pending A) as SA. pose proof (ss_update_pending B) as SB.
  destruct (update_pending_flags A) as [EA CA]. destruct (update_pending_flags B) as [EB CB].
  destruct Q as [A1 A2 A3 A4 A5 A6 A7 A8 A9 A10 A11 A12].
  split.
  - rewrite (ss_cmp _ _ SA), (ss_cmp _ _ SB). assumption.
  - rewrite (ss_state _ _ SA), (ss_state _ _ SB). assumption.
  - exact T1.
  - rewrite (ss_ctrl _ _ SA), (ss_ctrl _ _ SB). assumption.
  - rewrite (ss_data _ _ SA), (ss_data _ _ SB). assumption.
  - rewrite (ss_branches _ _ SA), (ss_branches _ _ SB). assumption.
  - rewrite (ss_starts _ _ SA), (ss_starts _ _ SB). assumption.
  - rewrite (ss_ends _ _ SA), (ss_ends _ _ SB). assumption.
  - exact T2.
  - exact T3.
  - congruence.
  - congruence.
Qed.

Lemma geq_set_typed : forall g g' s, geq g g' -> geq (set_typed s g) (set_typed s g').
Proof.
  intros g g' s [A1 A2 A3 A4 A5 A6 A7 A8 A9 A10 A11 A12]. split; simpl; try assumption; try reflexivity;
    try (intros x; exact (A10 x)).
  rewrite A3. reflexivity.
Qed.

Lemma geq_add_branch_skip : forall g g' s ends, geq g g' -> pinv g -> ginv g ->
  geq (fst (g_add_branch g s ends true)) (fst (g_add_branch g' s ends true)).
Proof.
  intros g g' s ends Q P I. unfold g_add_branch, fail.
  rewrite (q_err _ _ Q), (q_compiled _ _ Q), (geq_has_node _ _ s Q), (q_nodes _ _ Q).
  destruct (g_err g); [exact Q|]. destruct (g_compiled g); [exact Q|].
  repeat (dif; [apply geq_set_err; exact Q|]).
  set (g1 := match alist_get s (g_nodes g) with
             | Some n => if nkind_eqb (n_kind n) NPass && negb (n_out n) then update_pending (set_typed s g) else g
             | None => g end).
  set (g1' := match alist_get s (g_nodes g) with
              | Some n => if nkind_eqb (n_kind n) NPass && negb (n_out n) then update_pending (set_typed s g') else g'
              | None => g' end).
  assert (Q1 : geq g1 g1').
  { unfold g1, g1'. destruct (alist_get s (g_nodes g)) as [n|]; [|exact Q]. dif; [|exact Q].
    apply geq_update_pending; [apply geq_set_typed; exact Q|apply pinv_set_typed; exact P|].
    eapply ginv_skel; [apply ss_set_typed|exact I]. }
  simpl. destruct Q1 as [A1 A2 A3 A4 A5 A6 A7 A8 A9 A10 A11 A12]. split; simpl; try assumption;
    try (intros x; exact (A10 x)).
  rewrite A6. reflexivity.
Qed.

Lemma geq_run_branches : forall bs w1 w2,
  geq (w_g w1) (w_g w2) -> w_nodes w2 = w_nodes w1 -> pinv (w_g w1) -> ginv (w_g w1) ->
  geq (w_g (fst (run_branches fixed w1 bs))) (w_g (fst (run_branches fixed w2 bs))) /\
  snd (run_branches fixed w2 bs) = snd (run_branches fixed w1 bs).
Proof.
  induction bs as [|[from ends] rest IH]; intros w1 w2 Q N P I; simpl; [split; [exact Q|reflexivity]|].
  rewrite N. dif.
  - simpl. split; [apply geq_set_err; exact Q|reflexivity].
  - pose proof (geq_add_branch_skip _ _ from ends Q P I) as Q1.
    pose proof (pinv_add_branch (w_g w1) from ends true P) as P1.
    pose proof (ginv_add_branch (w_g w1) from ends true I) as I1.
    destruct (g_add_branch (w_g w1) from ends true) as [ga oa]. destruct (g_add_branch (w_g w2) from ends true) as [gb ob].
    simpl in *. apply (IH (w_set_g ga w1) (w_set_g gb w2)); simpl; assumption.
Qed.

(* ================================================================== 3. the node phase from [geq] graphs *)
Lemma state_add_edge : forall g s e nc nd fs, g_state (fst (g_add_edge g s e nc nd fs)) = g_state g.
Proof.
  intros. unfold g_add_edge, fail. destruct (g_err g); [reflexivity|].
  repeat (dif; try reflexivity); simpl;
    try (rewrite (ss_state _ _ (ss_update_pending _)); simpl);
    repeat (match goal with |- context[if ?b then _ else _] => destruct b end); reflexivity.
Qed.

Lemma state_run_nodes : forall L w, g_state (w_g (fst (run_nodes w L))) = g_state (w_g w).
Proof.
  intros L w. apply (lwinv_run_nodes (fun g => g_state g = g_state (w_g w))); [|reflexivity].
  intros g s e nc nd fs H. rewrite state_add_edge. exact H.
Qed.

Lemma alist_ext : forall {A} (l l' : list (string * A)),
  map fst l = map fst l' -> NoDup (map fst l) -> (forall k, alist_get k l = alist_get k l') -> l = l'.
Proof.
  induction l as [|[k a] l IH]; intros [|[k' a'] l'] K N F; simpl in *; try discriminate; [reflexivity|].
  injection K as K1 K2. subst k'. inversion N as [|? ? N1 N2]; subst.
  pose proof (F k) as Fk. simpl in Fk. rewrite String.eqb_refl in Fk. inversion Fk; subst a'.
  f_equal. apply IH; try assumption.
  intros x. destruct (String.eqb x k) eqn:X.
  - apply String.eqb_eq in X; subst x.
    assert (Z : forall (m : list (string * A)), ~ In k (map fst m) -> alist_get k m = None).
    { induction m as [|[y b] m IHm]; simpl; [reflexivity|]. intros H. destruct (String.eqb k y) eqn:Y.
      - apply String.eqb_eq in Y; subst. exfalso. apply H. left; reflexivity.
      - apply IHm. intros C. apply H. right; exact C. }
    rewrite (Z l N1). rewrite K2 in N1. rewrite (Z l' N1). reflexivity.
  - specialize (F x). simpl in F. rewrite X in F. exact F.
Qed.

Lemma fmget_addp_tpart : forall g x e, fmget (addp (tpart g) x) e = fmget g e.
Proof. reflexivity. Qed.

(* two successful node phases, in two orders, from [geq] graphs and equal node tables *)
Lemma geq_node_phase : forall w1 w2 L1 L2 w1' w2',
  wf_ok w1 -> geq (w_g w1) (w_g w2) -> w_nodes w2 = w_nodes w1 ->
  (forall k, In k (map fst (w_nodes w1)) -> In k L1) -> (forall k, In k (map fst (w_nodes w1)) -> In k L2) ->
  run_nodes w1 L1 = (w1', None) -> run_nodes w2 L2 = (w2', None) ->
  geq (w_g w1') (w_g w2') /\ w_nodes w2' = w_nodes w1'.
Proof.
  intros w1 w2 L1 L2 w1' w2' [I P F N] Q NE C1 C2 R1 R2.
  pose proof (run_nodes_effect _ _ _ R1) as E1. pose proof (run_nodes_effect _ _ _ R2) as E2. rewrite NE in E2.
  assert (NP : NoDup (map fst (pendmap (w_nodes w1)))).
  { unfold pendmap. rewrite map_map. simpl. exact N. }
  assert (KP : map fst (pendmap (w_nodes w1)) = map fst (w_nodes w1)).
  { unfold pendmap. rewrite map_map. reflexivity. }
  assert (CP : Permutation (collect (pendmap (w_nodes w1)) L1) (collect (pendmap (w_nodes w1)) L2)).
  { apply collect_perm; [exact NP| |]; rewrite KP; assumption. }
  set (D1 := map wdesc (collect (pendmap (w_nodes w1)) L1)) in *.
  set (D2 := map wdesc (collect (pendmap (w_nodes w1)) L2)) in *.
  assert (PD : forall {C} (h : edesc -> list C), Permutation (flat_map h D1) (flat_map h D2)).
  { intros C h. apply perm_flat_map_map. exact CP. }
  set (G0 := w_g w1) in *. set (H0 := w_g w2) in *. set (G1 := w_g w1') in *. set (G2 := w_g w2') in *.
  assert (PX : Permutation (flat_map d_pend D1) (flat_map d_pend D2)) by apply PD.
  (* the typing part *)
  assert (TY : teq G1 G2).
  { destruct (flat_map d_pend D1) as [|x1 X1'] eqn:EX1.
    - assert (EX2 : flat_map d_pend D2 = []) by (apply Permutation_nil; exact PX).
      pose proof (se_same _ _ _ E1 EX1) as T1. pose proof (se_same _ _ _ E2 EX2) as T2.
      destruct (geq_teq _ _ Q) as [Ta Tb Tc].
      split.
      + change (g_nodes (tpart G2) = g_nodes (tpart G1)). rewrite T1, T2. exact Ta.
      + change (Permutation (g_pending (tpart G1)) (g_pending (tpart G2))). rewrite T1, T2. exact Tb.
      + intros e. change (Permutation (fmget (tpart G1) e) (fmget (tpart G2) e)). rewrite T1, T2. exact (Tc e).
    - assert (NE1 : flat_map d_pend D1 <> []) by (rewrite EX1; discriminate).
      assert (NE2 : flat_map d_pend D2 <> []).
      { intros C. rewrite C in PX. apply Permutation_sym, Permutation_nil in PX. discriminate. }
      pose proof (se_built _ _ _ E1 (tpart G0) [] (built_init G0)) as B1.
      pose proof (se_built _ _ _ E2 (tpart H0) [] (built_init H0)) as B2.
      simpl in B1, B2. unfold built in B1, B2. rewrite EX1 in B1.
      pose proof (se_stable _ _ _ E1 NE1) as S1. pose proof (se_stable _ _ _ E2 NE2) as S2.
      destruct P as [IO EN].
      assert (IOA : io_ok (addp (tpart G0) (x1 :: X1'))) by exact IO.
      assert (ENA : ends_ok (addp (tpart G0) (x1 :: X1'))).
      { intros s e fs H. simpl in H. apply in_app_or in H. destruct H as [H|H].
        - exact (EN s e fs H).
        - rewrite <- EX1 in H. exact (se_known _ _ _ E1 s e fs H). }
      destruct (geq_teq _ _ Q) as [Ta Tb Tc].
      assert (TT : teq (tpart G1) (tpart G2)).
      { apply (teq_runs (addp (tpart G0) (x1 :: X1')) (addp (tpart H0) (flat_map d_pend D2))); try assumption.
        - split.
          + exact Ta.
          + simpl. apply Permutation_app; [exact Tb|exact PX].
          + intros e. rewrite !fmget_addp_tpart. exact (Tc e).
        - exact (gi_nodup _ I).
        - exact (gi_unreserved _ I). }
      destruct TT as [Ua Ub Uc]. split; [exact Ua|exact Ub|exact Uc]. }
  destruct TY as [T1 T2 T3].
  assert (GQ : geq G1 G2).
  { destruct Q as [A1 A2 A3 A4 A5 A6 A7 A8 A9 A10 A11 A12]. split.
    - rewrite (se_cmp _ _ _ E2), (se_cmp _ _ _ E1). exact A1.
    - pose proof (state_run_nodes L1 w1) as X1. rewrite R1 in X1. pose proof (state_run_nodes L2 w2) as X2. rewrite R2 in X2.
      simpl in X1, X2. unfold G1, G2. rewrite X1, X2. exact A2.
    - exact T1.
    - rewrite (se_ctrl _ _ _ E1), (se_ctrl _ _ _ E2). apply Permutation_app; [exact A4|apply PD].
    - rewrite (se_data _ _ _ E1), (se_data _ _ _ E2). apply Permutation_app; [exact A5|apply PD].
    - rewrite (se_branches _ _ _ E2), (se_branches _ _ _ E1). exact A6.
    - rewrite (se_starts _ _ _ E1), (se_starts _ _ _ E2). apply Permutation_app; [exact A7|apply PD].
    - rewrite (se_ends _ _ _ E1), (se_ends _ _ _ E2). apply Permutation_app; [exact A8|apply PD].
    - exact T2.
    - exact T3.
    - rewrite (se_err _ _ _ E2), (se_err _ _ _ E1). exact A11.
    - rewrite (se_compiled _ _ _ E2), (se_compiled _ _ _ E1). exact A12. }
  split; [exact GQ|].
  (* the node tables *)
  pose proof (run_nodes_node_keys L1 w1) as K1. rewrite R1 in K1. simpl in K1.
  pose proof (run_nodes_node_keys L2 w2) as K2. rewrite R2 in K2. simpl in K2. rewrite NE in K2.
  apply alist_ext.
  - rewrite K1, K2. reflexivity.
  - rewrite K2. exact N.
  - intros k. destruct (alist_get k (w_nodes w1)) as [n|] eqn:G.
    + assert (IK : In k (map fst (w_nodes w1))) by (eapply alist_get_in_keys; eassumption).
      rewrite (run_nodes_final_node L1 w1 w1' k n R1 G (C1 k IK)).
      assert (G' : alist_get k (w_nodes w2) = Some n) by (rewrite NE; exact G).
      rewrite (run_nodes_final_node L2 w2 w2' k n R2 G' (C2 k IK)).
      assert (OK1 : snd (run_inputs (w_g w1) k (wn_mapped n) (wn_pending n)) = None).
      { assert (Z : snd (run_nodes w1 L1) = None) by (rewrite R1; reflexivity).
        pose proof (proj1 (run_nodes_ok_iff L1 w1) Z k (C1 k IK)) as ND. unfold nd_ok in ND. rewrite G in ND. exact ND. }
      rewrite (mres_agree k (w_g w1) (w_g w2) n (geq_agree k _ _ Q) OK1). reflexivity.
    + assert (Z : forall (m m' : list (string * wnode)), map fst m' = map fst m -> alist_get k m = None -> alist_get k m' = None).
      { intros m m' E H. apply alist_get_none_notin in H.
        destruct (alist_get k m') as [x|] eqn:X; [|reflexivity]. exfalso. apply H. rewrite <- E. eapply alist_get_in_keys; eassumption. }
      rewrite (Z _ _ K1 G). apply (Z (w_nodes w1)); [exact K2|exact G].
Qed.

(* ================================================================== 4. the static values phase and graph.compile *)
Definition snode (n : wnode) : wnode :=
  match wn_static n with
  | [] => n
  | fs => mkWN (wn_pending n) (fst (check_mapped (wn_mapped n) fs)) []
  end.

Lemma run_statics_untouched : forall L w k, ~ In k L ->
  alist_get k (w_nodes (fst (run_statics fixed w L))) = alist_get k (w_nodes w).
Proof.
  induction L as [|h rest IH]; intros w k N; simpl; [reflexivity|].
  assert (NH : k <> h) by (intros C; apply N; left; auto).
  assert (NR : ~ In k rest) by (intros C; apply N; right; assumption).
  destruct (alist_get h (w_nodes w)) as [n|]; [|apply IH; assumption].
  destruct (wn_static n) as [|f fs]; [apply IH; assumption|]. dif; [reflexivity|].
  destruct (check_mapped (wn_mapped n) (f :: fs)) as [m' [e|]]; simpl.
  - apply alist_get_set_other. assumption.
  - rewrite IH by assumption. simpl. apply alist_get_set_other. assumption.
Qed.

Lemma run_statics_final_node : forall L w w' k n,
  g_compiled (w_g w) = false -> run_statics fixed w L = (w', None) -> alist_get k (w_nodes w) = Some n -> In k L ->
  alist_get k (w_nodes w') = Some (snode n).
Proof.
  induction L as [|h rest IH]; intros w w' k n C H G I; [contradiction|]. simpl in H.
  destruct (String.eqb h k) eqn:X.
  - apply String.eqb_eq in X; subst h. rewrite G in H.
    destruct (wn_static n) as [|f fs] eqn:ST.
    + assert (SN : snode n = n) by (unfold snode; rewrite ST; reflexivity). rewrite SN.
      destruct (in_dec string_dec k rest) as [IR|NR].
      * rewrite (IH w w' k n C H G IR). rewrite SN. reflexivity.
      * pose proof (run_statics_untouched rest w k NR) as U. rewrite H in U. simpl in U. rewrite U. exact G.
    + rewrite C in H. simpl in H.
      destruct (check_mapped (wn_mapped n) (f :: fs)) as [m' [e|]] eqn:CM; [discriminate|].
      set (n1 := mkWN (wn_pending n) m' []) in *.
      assert (SN : snode n = n1) by (unfold snode, n1; rewrite ST, CM; reflexivity).
      assert (SN1 : snode n1 = n1) by reflexivity.
      set (w1 := w_set_nodes (alist_set k n1 (w_nodes w)) (w_set_g (set_h_prenode (static_handlers (w_g w) k) (w_g w)) w)) in *.
      assert (G1 : alist_get k (w_nodes w1) = Some n1) by (unfold w1; simpl; apply alist_get_set_same).
      rewrite SN.
      destruct (in_dec string_dec k rest) as [IR|NR].
      * rewrite (IH w1 w' k n1 C H G1 IR). rewrite SN1. reflexivity.
      * pose proof (run_statics_untouched rest w1 k NR) as U. rewrite H in U. simpl in U. rewrite U. exact G1.
  - apply String.eqb_neq in X. destruct I as [I|I]; [congruence|].
    destruct (alist_get h (w_nodes w)) as [nh|] eqn:GH; [|eapply IH; eassumption].
    destruct (wn_static nh) as [|f fs] eqn:ST; [eapply IH; eassumption|].
    rewrite C in H. simpl in H.
    destruct (check_mapped (wn_mapped nh) (f :: fs)) as [m' [e|]] eqn:CM; [discriminate|].
    eapply IH; [|exact H| |exact I]; simpl; [exact C|].
    rewrite alist_get_set_other by congruence. exact G.
Qed.

Lemma geq_set_prenode : forall g g' x y, geq g g' -> geq (set_h_prenode x g) (set_h_prenode y g').
Proof.
  intros g g' x y [A1 A2 A3 A4 A5 A6 A7 A8 A9 A10 A11 A12]. split; simpl; try assumption; try reflexivity;
    try (intros z; exact (A10 z)).
Qed.

Lemma st_ok_same : forall w1 w2 k, w_nodes w2 = w_nodes w1 -> g_compiled (w_g w2) = g_compiled (w_g w1) ->
  (st_ok w1 k <-> st_ok w2 k).
Proof. intros w1 w2 k N C. unfold st_ok. rewrite N, C. tauto. Qed.

Lemma geq_statics_phase : forall w1 w2 M1 M2 w1' w2',
  wn_nodup w1 -> geq (w_g w1) (w_g w2) -> w_nodes w2 = w_nodes w1 -> g_compiled (w_g w1) = false ->
  (forall k, In k (map fst (w_nodes w1)) -> In k M1) -> (forall k, In k (map fst (w_nodes w1)) -> In k M2) ->
  run_statics fixed w1 M1 = (w1', None) -> run_statics fixed w2 M2 = (w2', None) ->
  geq (w_g w1') (w_g w2') /\ w_nodes w2' = w_nodes w1'.
Proof.
  intros w1 w2 M1 M2 w1' w2' N Q NE C C1 C2 R1 R2.
  assert (C' : g_compiled (w_g w2) = false) by (rewrite (q_compiled _ _ Q); exact C).
  destruct (run_statics_graph M1 w1) as [x1 G1]. rewrite R1 in G1. simpl in G1.
  destruct (run_statics_graph M2 w2) as [x2 G2]. rewrite R2 in G2. simpl in G2.
  split; [rewrite G1, G2; apply geq_set_prenode; exact Q|].
  pose proof (run_statics_node_keys M1 w1) as K1. rewrite R1 in K1. simpl in K1.
  pose proof (run_statics_node_keys M2 w2) as K2. rewrite R2 in K2. simpl in K2. rewrite NE in K2.
  apply alist_ext.
  - rewrite K1, K2. reflexivity.
  - rewrite K2. exact N.
  - intros k. destruct (alist_get k (w_nodes w1)) as [n|] eqn:G.
    + assert (IK : In k (map fst (w_nodes w1))) by (eapply alist_get_in_keys; eassumption).
      rewrite (run_statics_final_node M1 w1 w1' k n C R1 G (C1 k IK)).
      assert (G' : alist_get k (w_nodes w2) = Some n) by (rewrite NE; exact G).
      rewrite (run_statics_final_node M2 w2 w2' k n C' R2 G' (C2 k IK)). reflexivity.
    + assert (Z : forall (m m' : list (string * wnode)), map fst m' = map fst m -> alist_get k m = None -> alist_get k m' = None).
      { intros m m' E H. apply alist_get_none_notin in H.
        destruct (alist_get k m') as [x|] eqn:X; [|reflexivity]. exfalso. apply H. rewrite <- E. eapply alist_get_in_keys; eassumption. }
      rewrite (Z _ _ K1 G). apply (Z (w_nodes w1)); [exact K2|exact G].
Qed.

(* graph.compile: an error and an unchanged state, or a runner and the compiled flag *)
Lemma g_compile_shape : forall g o,
  (exists e, g_compile fixed g o = (g, OErr e)) \/ (exists r, g_compile fixed g o = (set_compiled true g, OCompiled r)).
Proof.
  intros g o. unfold g_compile. destruct (g_err g); [left; eexists; reflexivity|]. simpl.
  repeat (dif; [left; eexists; reflexivity|]). right. eexists. reflexivity.
Qed.

Definition okind (o : outcome) : nat :=
  match o with OOk => 0 | OErr _ => 1 | OPanic => 2 | OCompiled _ => 3 end.

Lemma geq_compile : forall g g' o,
  geq g g' -> ginv g -> ginv g' -> fm_nodup g -> fm_nodup g' ->
  okind (snd (g_compile fixed g o)) = okind (snd (g_compile fixed g' o)) /\
  geq (fst (g_compile fixed g o)) (fst (g_compile fixed g' o)).
Proof.
  intros g g' o Q I I' F F'.
  pose proof (compile_ok_eq g g' o I I' F F' (geq_same_to_compile _ _ Q)) as E.
  rewrite <- !g_compile_verdict in E.
  destruct (g_compile_shape g o) as [[e H]|[r H]]; destruct (g_compile_shape g' o) as [[e' H']|[r' H']];
    rewrite H, H' in *; simpl in *; try discriminate.
  - split; [reflexivity|exact Q].
  - split; [reflexivity|apply geq_set_compiled; exact Q].
Qed.

(* ================================================================== 5. two workflows that can still be built *)
Record weq (w w' : wstate) : Prop := {
  e_g : geq (w_g w) (w_g w');
  e_nodes : w_nodes w' = w_nodes w;
  e_branches : w_branches w' = w_branches w
}.

Lemma wf_ok_wstep : forall w c, wf_ok w -> wf_ok (fst (wstep fixed w c)).
Proof.
  intros w c [A B C D]. split.
  - apply winv_wstep. exact A.
  - apply (lwinv_wstep pinv pinv_add_node pinv_add_edge pinv_add_branch pinv_compile pinv_set_err pinv_set_prenode). exact B.
  - apply (lwinv_wstep fm_nodup fm_nodup_add_node fm_nodup_add_edge fm_nodup_add_branch fm_nodup_compile fm_nodup_set_err fm_nodup_set_prenode). exact C.
  - apply wn_nodup_wstep. exact D.
Qed.

Lemma wf_ok_run_nodes : forall L w, wf_ok w -> wf_ok (fst (run_nodes w L)).
Proof.
  intros L w [A B C D]. split.
  - apply winv_run_nodes. exact A.
  - apply (lwinv_run_nodes pinv pinv_add_edge). exact B.
  - apply (lwinv_run_nodes fm_nodup fm_nodup_add_edge). exact C.
  - apply wn_nodup_run_nodes. exact D.
Qed.

Lemma wf_ok_run_statics : forall L w, wf_ok w -> wf_ok (fst (run_statics fixed w L)).
Proof.
  intros L w [A B C D]. split.
  - apply winv_run_statics. exact A.
  - apply (lwinv_run_statics pinv pinv_set_prenode). exact B.
  - apply (lwinv_run_statics fm_nodup fm_nodup_set_prenode). exact C.
  - apply wn_nodup_run_statics. exact D.
Qed.

Lemma nd_ok_same : forall w1 w2 k, weq w1 w2 -> (nd_ok w1 k <-> nd_ok w2 k).
Proof.
  intros w1 w2 k [Q N _]. unfold nd_ok. rewrite N. destruct (alist_get k (w_nodes w1)) as [n|]; [|tauto].
  apply inputs_verdict_agree. apply geq_agree. exact Q.
Qed.

Lemma deferred_some_is_err : forall w ord sord w' out, deferred w ord sord = (w', Some out) -> is_err out.
Proof.
  intros w ord sord w' out H. unfold deferred in H.
  destruct (g_err (w_g w)); [inversion H; eexists; reflexivity|].
  destruct (run_branches fixed w (w_branches w)) as [w1 [o1|]] eqn:B.
  - inversion H; subst. eapply run_branches_stop_is_err; eassumption.
  - destruct (run_nodes w1 (ord ++ map fst (w_nodes w1))) as [w2 [e2|]]; [inversion H; eexists; reflexivity|].
    destruct (run_statics fixed w2 (sord ++ map fst (w_nodes w2))) as [w3 [e3|]]; [inversion H; eexists; reflexivity|discriminate].
Qed.

Lemma run_branches_branches : forall bs w, w_branches (fst (run_branches fixed w bs)) = w_branches w.
Proof.
  induction bs as [|[from ends] rest IH]; intros w; simpl; [reflexivity|].
  dif; [reflexivity|]. destruct (g_add_branch (w_g w) from ends true) as [g' o]. rewrite IH. reflexivity.
Qed.

Lemma run_nodes_branches : forall L w, w_branches (fst (run_nodes w L)) = w_branches w.
Proof.
  induction L as [|h rest IH]; intros w; simpl; [reflexivity|].
  destruct (alist_get h (w_nodes w)) as [n|]; [|apply IH].
  destruct (run_inputs (w_g w) h (wn_mapped n) (wn_pending n)) as [[g' m'] [e|]]; simpl; [reflexivity|].
  rewrite IH. reflexivity.
Qed.

Lemma run_statics_branches : forall L w, w_branches (fst (run_statics fixed w L)) = w_branches w.
Proof.
  induction L as [|h rest IH]; intros w; simpl; [reflexivity|].
  destruct (alist_get h (w_nodes w)) as [n|]; [|apply IH].
  destruct (wn_static n) as [|f fs]; [apply IH|]. dif; [reflexivity|].
  destruct (check_mapped (wn_mapped n) (f :: fs)) as [m' [e|]]; simpl; [reflexivity|]. rewrite IH. reflexivity.
Qed.

(* the deferred phases of two Compiles, in two pairs of orders: both fail, or both succeed with [weq] results *)
Lemma deferred_agree : forall w1 w2 ord1 sord1 ord2 sord2,
  weq w1 w2 -> wf_ok w1 -> g_compiled (w_g w1) = false ->
  match deferred w1 ord1 sord1, deferred w2 ord2 sord2 with
  | (_, Some _), (_, Some _) => True
  | (w1', None), (w2', None) => weq w1' w2' /\ wf_ok w1' /\ g_compiled (w_g w1') = false
  | _, _ => False
  end.
Proof.
  intros w1 w2 ord1 sord1 ord2 sord2 [Q N B] OK C. unfold deferred.
  rewrite (q_err _ _ Q). destruct (g_err (w_g w1)); [exact I|].
  rewrite B.
  destruct (geq_run_branches (w_branches w1) w1 w2 Q N (wo_pinv _ OK) (wo_ginv _ OK)) as [Q1 V1].
  pose proof (wf_ok_run_branches (w_branches w1) w1 OK) as OK1.
  pose proof (run_branches_compiled (w_branches w1) w1) as C1.
  pose proof (run_branches_nodes fixed (w_branches w1) w1) as N1.
  pose proof (run_branches_nodes fixed (w_branches w1) w2) as N2.
  pose proof (run_branches_branches (w_branches w1) w1) as B1.
  pose proof (run_branches_branches (w_branches w1) w2) as B2.
  destruct (run_branches fixed w1 (w_branches w1)) as [w1b [o1|]]; destruct (run_branches fixed w2 (w_branches w1)) as [w2b [o2|]];
    simpl in *; try discriminate; [exact I|].
  assert (NB : w_nodes w2b = w_nodes w1b) by congruence.
  assert (WB : weq w1b w2b) by (split; [exact Q1|exact NB|congruence]).
  set (L1 := ord1 ++ map fst (w_nodes w1b)). set (L2 := ord2 ++ map fst (w_nodes w2b)).
  assert (CV1 : forall k, In k (map fst (w_nodes w1b)) -> In k L1) by (intros k K; apply in_or_app; right; exact K).
  assert (CV2 : forall k, In k (map fst (w_nodes w1b)) -> In k L2) by (intros k K; apply in_or_app; right; rewrite NB; exact K).
  assert (V : snd (run_nodes w1b L1) = None <-> snd (run_nodes w2b L2) = None).
  { rewrite !run_nodes_ok_iff. split; intros H k K.
    - apply (nd_ok_same w1b w2b k WB). destruct (alist_get k (w_nodes w1b)) as [n|] eqn:G.
      + apply H. apply CV1. eapply alist_get_in_keys; eassumption.
      + unfold nd_ok. rewrite G. exact I.
    - apply (nd_ok_same w1b w2b k WB). destruct (alist_get k (w_nodes w2b)) as [n|] eqn:G.
      + apply H. apply CV2. rewrite <- NB. eapply alist_get_in_keys; eassumption.
      + unfold nd_ok. rewrite G. exact I. }
  pose proof (wf_ok_run_nodes L1 w1b OK1) as OK2.
  pose proof (run_nodes_compiled L1 w1b) as C2.
  pose proof (run_nodes_branches L1 w1b) as B3. pose proof (run_nodes_branches L2 w2b) as B4.
  destruct (run_nodes w1b L1) as [w1n [e1|]] eqn:R1; destruct (run_nodes w2b L2) as [w2n [e2|]] eqn:R2; simpl in V, OK2, C2, B3, B4.
  - exact I.
  - destruct V as [_ V]. specialize (V eq_refl). discriminate.
  - destruct V as [V _]. specialize (V eq_refl). discriminate.
  - destruct (geq_node_phase w1b w2b L1 L2 w1n w2n OK1 Q1 NB CV1 CV2 R1 R2) as [Q2 NN].
    assert (Cn : g_compiled (w_g w1n) = false) by congruence.
    set (M1 := sord1 ++ map fst (w_nodes w1n)). set (M2 := sord2 ++ map fst (w_nodes w2n)).
    assert (CW1 : forall k, In k (map fst (w_nodes w1n)) -> In k M1) by (intros k K; apply in_or_app; right; exact K).
    assert (CW2 : forall k, In k (map fst (w_nodes w1n)) -> In k M2) by (intros k K; apply in_or_app; right; rewrite NN; exact K).
    assert (SV : snd (run_statics fixed w1n M1) = None <-> snd (run_statics fixed w2n M2) = None).
    { rewrite !run_statics_ok_iff.
      assert (ST : forall k, st_ok w1n k <-> st_ok w2n k) by (intros k; apply st_ok_same; [exact NN|apply (q_compiled _ _ Q2)]).
      split; intros H k K.
      - apply ST. destruct (alist_get k (w_nodes w1n)) as [n|] eqn:G.
        + apply H. apply CW1. eapply alist_get_in_keys; eassumption.
        + unfold st_ok. rewrite G. exact I.
      - apply ST. destruct (alist_get k (w_nodes w2n)) as [n|] eqn:G.
        + apply H. apply CW2. rewrite <- NN. eapply alist_get_in_keys; eassumption.
        + unfold st_ok. rewrite G. exact I. }
    pose proof (wf_ok_run_statics M1 w1n OK2) as OK3.
    pose proof (run_statics_compiled M1 w1n) as C3.
    pose proof (run_statics_branches M1 w1n) as B5. pose proof (run_statics_branches M2 w2n) as B6.
    destruct (run_statics fixed w1n M1) as [w1s [e1|]] eqn:S1; destruct (run_statics fixed w2n M2) as [w2s [e2|]] eqn:S2;
      simpl in SV, OK3, C3, B5, B6.
    + exact I.
    + destruct SV as [_ SV]. specialize (SV eq_refl). discriminate.
    + destruct SV as [SV _]. specialize (SV eq_refl). discriminate.
    + destruct (geq_statics_phase w1n w2n M1 M2 w1s w2s (wo_nodes _ OK2) Q2 NN Cn CW1 CW2 S1 S2) as [Q3 NS].
      split; [|split; [exact OK3|congruence]].
      split; [exact Q3|exact NS|congruence].
Qed.

Lemma deferred_wf_ok : forall w ord sord, wf_ok w -> wf_ok (fst (deferred w ord sord)).
Proof.
  intros w ord sord OK. unfold deferred. destruct (g_err (w_g w)); [exact OK|].
  pose proof (wf_ok_run_branches (w_branches w) w OK) as OK1.
  destruct (run_branches fixed w (w_branches w)) as [w1 [o1|]]; simpl in *; [exact OK1|].
  pose proof (wf_ok_run_nodes (ord ++ map fst (w_nodes w1)) w1 OK1) as OK2.
  destruct (run_nodes w1 (ord ++ map fst (w_nodes w1))) as [w2 [e2|]]; simpl in *; [exact OK2|].
  pose proof (wf_ok_run_statics (sord ++ map fst (w_nodes w2)) w2 OK2) as OK3.
  destruct (run_statics fixed w2 (sord ++ map fst (w_nodes w2))) as [w3 [e3|]]; simpl in *; exact OK3.
Qed.

Lemma okind_err : forall o, is_err o -> okind o = 1%nat.
Proof. intros o [e H]. subst. reflexivity. Qed.

(* Compile on two workflows that can still be built *)
Lemma open_compile : forall w1 w2 o ord1 sord1 ord2 sord2,
  weq w1 w2 -> wf_ok w1 -> wf_ok w2 -> g_compiled (w_g w1) = false ->
  okind (snd (w_compile fixed w1 o ord1 sord1)) = okind (snd (w_compile fixed w2 o ord2 sord2)) /\
  ((doomed (fst (w_compile fixed w1 o ord1 sord1)) /\ doomed (fst (w_compile fixed w2 o ord2 sord2))) \/
   weq (fst (w_compile fixed w1 o ord1 sord1)) (fst (w_compile fixed w2 o ord2 sord2))).
Proof.
  intros w1 w2 o ord1 sord1 ord2 sord2 W OK1 OK2 C.
  assert (C2 : g_compiled (w_g w2) = false) by (rewrite (q_compiled _ _ (e_g _ _ W)); exact C).
  rewrite !w_compile_deferred.
  pose proof (deferred_agree w1 w2 ord1 sord1 ord2 sord2 W OK1 C) as A.
  pose proof (deferred_wf_ok w2 ord2 sord2 OK2) as OKb.
  destruct (deferred w1 ord1 sord1) as [w1' [out1|]] eqn:D1; destruct (deferred w2 ord2 sord2) as [w2' [out2|]] eqn:D2;
    try contradiction; simpl in OKb.
  - simpl. split.
    + rewrite (okind_err _ (deferred_some_is_err _ _ _ _ _ D1)), (okind_err _ (deferred_some_is_err _ _ _ _ _ D2)). reflexivity.
    + left. split; [exact (deferred_fail_doomed _ _ _ _ _ C D1)|exact (deferred_fail_doomed _ _ _ _ _ C2 D2)].
  - destruct A as [[Q N B] [OKa Ca]].
    destruct (geq_compile (w_g w1') (w_g w2') o Q (wo_ginv _ OKa) (wo_ginv _ OKb) (wo_fm _ OKa) (wo_fm _ OKb)) as [K G].
    destruct (g_compile fixed (w_g w1') o) as [ga oa]. destruct (g_compile fixed (w_g w2') o) as [gb ob]. simpl in *.
    split; [exact K|]. right. split; simpl; assumption.
Qed.

(* the calls that are not Compile *)
Lemma wstep_other_ok : forall w c, w_is_compile c = false -> snd (wstep fixed w c) = OOk.
Proof.
  intros w [] H; simpl in *; try discriminate; unfold w_add_input; try reflexivity.
  - destruct (g_add_node (w_g w) k nk need_state false false). reflexivity.
  - destruct (alist_get _ _); reflexivity.
  - destruct (alist_get _ _); reflexivity.
  - destruct (alist_get _ _); reflexivity.
Qed.

Lemma open_other : forall w1 w2 c, weq w1 w2 -> w_is_compile c = false ->
  weq (fst (wstep fixed w1 c)) (fst (wstep fixed w2 c)).
Proof.
  intros w1 w2 c [Q N B] H. destruct c; simpl in H; try discriminate; simpl; unfold w_add_input.
  - destruct (geq_add_node (w_g w1) (w_g w2) k nk need_state false false Q) as [Q1 _].
    destruct (g_add_node (w_g w1) k nk need_state false false) as [ga oa].
    destruct (g_add_node (w_g w2) k nk need_state false false) as [gb ob]. simpl in *.
    split; simpl; [exact Q1|rewrite N; reflexivity|exact B].
  - rewrite N. destruct (alist_get _ _); split; simpl; try assumption; rewrite ?N; reflexivity.
  - split; simpl; [exact Q|exact N|rewrite B; reflexivity].
  - rewrite N. destruct (alist_get _ _); split; simpl; try assumption; rewrite ?N; reflexivity.
  - rewrite N. destruct (alist_get _ _); split; simpl; try assumption; rewrite ?N; reflexivity.
Qed.

(* ================================================================== 6. two compiled workflows *)
(* what is still waiting on a node: the mapped paths no longer matter (a waiting declaration or
   static value makes every Compile fail, whatever the paths) *)
Definition nrel (a b : option wnode) : Prop :=
  match a, b with
  | Some n, Some n' => wn_pending n' = wn_pending n /\ wn_static n' = wn_static n
  | None, None => True
  | _, _ => False
  end.

Definition trel (l l' : list (string * wnode)) : Prop :=
  map fst l' = map fst l /\ forall k, nrel (alist_get k l) (alist_get k l').

Lemma nrel_refl : forall a, nrel a a.
Proof. intros [n|]; simpl; auto. Qed.
Lemma nrel_trans : forall a b c, nrel a b -> nrel b c -> nrel a c.
Proof. intros [a|] [b|] [c|]; simpl; try tauto. intros [A B] [C D]. split; congruence. Qed.
Lemma nrel_sym : forall a b, nrel a b -> nrel b a.
Proof. intros [a|] [b|]; simpl; try tauto. intros [A B]. split; congruence. Qed.
Lemma trel_refl : forall l, trel l l.
Proof. intros l. split; [reflexivity|intros k; apply nrel_refl]. Qed.
Lemma trel_trans : forall a b c, trel a b -> trel b c -> trel a c.
Proof. intros a b c [A1 A2] [B1 B2]. split; [congruence|]. intros k. eapply nrel_trans; [apply A2|apply B2]. Qed.
Lemma trel_sym : forall a b, trel a b -> trel b a.
Proof. intros a b [A1 A2]. split; [congruence|]. intros k. apply nrel_sym. apply A2. Qed.

Lemma alist_get_set : forall {A} x k (a : A) l,
  alist_get x (alist_set k a l) = if String.eqb x k then Some a else alist_get x l.
Proof.
  intros A x k a l. destruct (String.eqb x k) eqn:E.
  - apply String.eqb_eq in E; subst. apply alist_get_set_same.
  - apply String.eqb_neq in E. apply alist_get_set_other. exact E.
Qed.

Lemma keys_alist_set : forall {A} k (a : A) l,
  map fst (alist_set k a l) = if is_some (alist_get k l) then map fst l else map fst l ++ [k].
Proof.
  intros A k a l. induction l as [|[x y] l IH]; simpl; [reflexivity|].
  destruct (String.eqb k x) eqn:E; simpl.
  - apply String.eqb_eq in E; subst. reflexivity.
  - rewrite IH. destruct (is_some (alist_get k l)); reflexivity.
Qed.

Lemma trel_present : forall l l' k, trel l l' -> is_some (alist_get k l') = is_some (alist_get k l).
Proof. intros l l' k [_ T]. specialize (T k). destruct (alist_get k l), (alist_get k l'); simpl in *; tauto. Qed.

Lemma trel_set : forall l l' k a b, trel l l' -> nrel (Some a) (Some b) -> trel (alist_set k a l) (alist_set k b l').
Proof.
  intros l l' k a b T R. pose proof (trel_present l l' k T) as P. destruct T as [T1 T2]. split.
  - rewrite !keys_alist_set, P, T1. reflexivity.
  - intros x. rewrite !alist_get_set. destruct (String.eqb x k); [exact R|apply T2].
Qed.

Record ceq (w w' : wstate) : Prop := {
  cq_g : geq (w_g w) (w_g w');
  cq_nodes : trel (w_nodes w) (w_nodes w');
  cq_branches : w_branches w' = w_branches w
}.

Lemma weq_ceq : forall w w', weq w w' -> ceq w w'.
Proof. intros w w' [Q N B]. split; [exact Q|rewrite N; apply trel_refl|exact B]. Qed.

(* ---- one compiled workflow *)
Definition pend_empty (l : list (string * wnode)) (k : string) : Prop :=
  match alist_get k l with Some n => wn_pending n = [] | None => True end.
Definition stat_empty (l : list (string * wnode)) (k : string) : Prop :=
  match alist_get k l with Some n => wn_static n = [] | None => True end.

Lemma compiled_inputs_fail : forall g k m i l,
  g_compiled g = true -> g_err g = None -> snd (run_inputs g k m (i :: l)) <> None.
Proof.
  intros g k m i l C E. simpl.
  assert (F : frozen g) by (left; assumption).
  assert (H : snd (run_input g k m i) <> None).
  { unfold run_input. destruct (wi_kind i).
    - destruct (check_mapped m (wi_fields i)) as [m' [er|]]; simpl; [congruence|].
      pose proof (frozen_add_edge_err g (wi_from i) k false false (wi_fields i) F) as E2.
      destruct (g_add_edge g (wi_from i) k false false (wi_fields i)); exact E2.
    - destruct (check_mapped m (wi_fields i)) as [m' [er|]]; simpl; [congruence|].
      pose proof (frozen_add_edge_err g (wi_from i) k true false (wi_fields i) F) as E2.
      destruct (g_add_edge g (wi_from i) k true false (wi_fields i)); exact E2.
    - pose proof (frozen_add_edge_err g (wi_from i) k false true [] F) as E2.
      destruct (g_add_edge g (wi_from i) k false true []); exact E2. }
  destruct (run_input g k m i) as [[g' m'] [er|]]; simpl in *; congruence.
Qed.

Lemma pend_empty_trel : forall l l' k, trel l l' -> (pend_empty l k <-> pend_empty l' k).
Proof.
  intros l l' k [_ T]. specialize (T k). unfold pend_empty.
  destruct (alist_get k l), (alist_get k l'); simpl in T; try tauto. destruct T as [A _]. rewrite A. tauto.
Qed.
Lemma stat_empty_trel : forall l l' k, trel l l' -> (stat_empty l k <-> stat_empty l' k).
Proof.
  intros l l' k [_ T]. specialize (T k). unfold stat_empty.
  destruct (alist_get k l), (alist_get k l'); simpl in T; try tauto. destruct T as [_ A]. rewrite A. tauto.
Qed.

Lemma trel_set_self : forall l k n a, alist_get k l = Some n -> nrel (Some n) (Some a) -> trel l (alist_set k a l).
Proof.
  intros l k n a G R. split.
  - rewrite keys_alist_set, G. reflexivity.
  - intros x. rewrite alist_get_set. destruct (String.eqb x k) eqn:E; [|apply nrel_refl].
    apply String.eqb_eq in E; subst. rewrite G. exact R.
Qed.

(* the node phase of a compiled workflow: the graph is untouched, what is waiting stays, and it
   succeeds exactly when nothing is waiting on the nodes it visits *)
Lemma compiled_run_nodes : forall L w,
  g_compiled (w_g w) = true -> g_err (w_g w) = None ->
  w_g (fst (run_nodes w L)) = w_g w /\ trel (w_nodes w) (w_nodes (fst (run_nodes w L))) /\
  (snd (run_nodes w L) = None <-> forall k, In k L -> pend_empty (w_nodes w) k).
Proof.
  induction L as [|h rest IH]; intros w C E; simpl.
  - split; [reflexivity|]. split; [apply trel_refl|]. split; [intros _ k []|reflexivity].
  - destruct (alist_get h (w_nodes w)) as [n|] eqn:G.
    + destruct (wn_pending n) as [|i l] eqn:P.
      * simpl.
        set (w1 := w_set_nodes (alist_set h (mkWN [] (wn_mapped n) (wn_static n)) (w_nodes w)) (w_set_g (w_g w) w)).
        assert (T1 : trel (w_nodes w) (w_nodes w1)).
        { unfold w1. simpl. eapply trel_set_self; [exact G|]. simpl. rewrite P. auto. }
        destruct (IH w1 C E) as [A [B D]]. split; [rewrite A; reflexivity|].
        split; [eapply trel_trans; [exact T1|exact B]|].
        rewrite D. split; intros H k K.
        -- destruct K as [K|K]; [subst; unfold pend_empty; rewrite G; exact P|].
           apply (pend_empty_trel _ _ k T1). apply H. exact K.
        -- apply (pend_empty_trel _ _ k T1). apply H. right. exact K.
      * pose proof (compiled_inputs_fail (w_g w) h (wn_mapped n) i l C E) as F.
        pose proof (frozen_run_inputs (i :: l) (w_g w) h (wn_mapped n) C E) as FG.
        destruct (run_inputs (w_g w) h (wn_mapped n) (i :: l)) as [[g' m'] [er|]]; simpl in *; [|congruence].
        subst g'. split; [reflexivity|]. split.
        -- eapply trel_set_self; [exact G|]. simpl. rewrite P. auto.
        -- split; [discriminate|]. intros H. specialize (H h (or_introl eq_refl)). unfold pend_empty in H.
           rewrite G, P in H. discriminate.
    + destruct (IH w C E) as [A [B D]]. split; [exact A|]. split; [exact B|].
      rewrite D. split; intros H k K.
      * destruct K as [K|K]; [subst; unfold pend_empty; rewrite G; exact I|apply H; exact K].
      * apply H. right. exact K.
Qed.

Lemma compiled_statics_verdict : forall L w, g_compiled (w_g w) = true ->
  (snd (run_statics fixed w L) = None <-> forall k, In k L -> stat_empty (w_nodes w) k).
Proof.
  induction L as [|h rest IH]; intros w C; simpl; [split; [intros _ k []|reflexivity]|].
  destruct (alist_get h (w_nodes w)) as [n|] eqn:G.
  - destruct (wn_static n) as [|f fs] eqn:S.
    + rewrite (IH w C). split; intros H k K.
      * destruct K as [K|K]; [subst; unfold stat_empty; rewrite G; exact S|apply H; exact K].
      * apply H. right. exact K.
    + rewrite C. simpl. split; [discriminate|]. intros H. specialize (H h (or_introl eq_refl)).
      unfold stat_empty in H. rewrite G, S in H. discriminate.
  - rewrite (IH w C). split; intros H k K.
    + destruct K as [K|K]; [subst; unfold stat_empty; rewrite G; exact I|apply H; exact K].
    + apply H. right. exact K.
Qed.

Definition bmissing (l : list (string * wnode)) (b : string * list string) : bool :=
  existsb (fun e => negb (String.eqb e END_) && negb (is_some (alist_get e l))) (snd b).

Lemma compiled_run_branches : forall bs w, g_compiled (w_g w) = true ->
  run_branches fixed w bs =
  if existsb (bmissing (w_nodes w)) bs
  then (w_set_g (set_err (Some EBranchEndUnknown) (w_g w)) w, Some (OErr EBranchEndUnknown))
  else (w, None).
Proof.
  induction bs as [|[from ends] rest IH]; intros w C; simpl; [reflexivity|].
  unfold bmissing at 1. simpl. dif; [reflexivity|]. simpl.
  pose proof (frozen_add_branch (w_g w) from ends true (or_introl C)) as E1.
  destruct (g_add_branch (w_g w) from ends true) as [g' o]; simpl in E1; subst g'.
  replace (w_set_g (w_g w) w) with w by (destruct w; reflexivity).
  apply IH. exact C.
Qed.

Lemma bmissing_trel : forall l l' b, trel l l' -> bmissing l' b = bmissing l b.
Proof.
  intros l l' [from ends] T. unfold bmissing. simpl. apply existsb_ext'. intros e.
  rewrite (trel_present l l' e T). reflexivity.
Qed.

(* Compile on two compiled workflows *)
Lemma compiled_compile_agree : forall w1 w2 o ord1 sord1 ord2 sord2,
  ceq w1 w2 -> wf_ok w1 -> wf_ok w2 -> g_compiled (w_g w1) = true -> g_err (w_g w1) = None ->
  okind (snd (w_compile fixed w1 o ord1 sord1)) = okind (snd (w_compile fixed w2 o ord2 sord2)) /\
  ceq (fst (w_compile fixed w1 o ord1 sord1)) (fst (w_compile fixed w2 o ord2 sord2)).
Proof.
  intros w1 w2 o ord1 sord1 ord2 sord2 [Q T B] OK1 OK2 C E.
  assert (C2 : g_compiled (w_g w2) = true) by (rewrite (q_compiled _ _ Q); exact C).
  assert (E2 : g_err (w_g w2) = None) by (rewrite (q_err _ _ Q); exact E).
  unfold w_compile. rewrite E, E2.
  rewrite (compiled_run_branches (w_branches w1) w1 C), (compiled_run_branches (w_branches w2) w2 C2), B.
  rewrite (existsb_ext' (bmissing (w_nodes w2)) (bmissing (w_nodes w1)) (w_branches w1)) by (intros b; apply bmissing_trel; exact T).
  destruct (existsb (bmissing (w_nodes w1)) (w_branches w1)).
  { simpl. split; [reflexivity|]. split; simpl; [apply geq_set_err; exact Q|exact T|exact B]. }
  set (L1 := ord1 ++ map fst (w_nodes w1)). set (L2 := ord2 ++ map fst (w_nodes w2)).
  destruct (compiled_run_nodes L1 w1 C E) as [G1 [T1 V1]]. destruct (compiled_run_nodes L2 w2 C2 E2) as [G2 [T2 V2]].
  pose proof (run_nodes_branches L1 w1) as B1. pose proof (run_nodes_branches L2 w2) as B2.
  assert (V : snd (run_nodes w1 L1) = None <-> snd (run_nodes w2 L2) = None).
  { rewrite V1, V2. destruct T as [TK TN]. split; intros H k K.
    - apply (pend_empty_trel _ _ k (conj TK TN)).
      destruct (alist_get k (w_nodes w1)) as [n|] eqn:GK; [|unfold pend_empty; rewrite GK; exact I].
      apply H. apply in_or_app. right. eapply alist_get_in_keys; eassumption.
    - apply (pend_empty_trel _ _ k (conj TK TN)).
      destruct (alist_get k (w_nodes w2)) as [n|] eqn:GK; [|unfold pend_empty; rewrite GK; exact I].
      apply H. apply in_or_app. right. eapply alist_get_in_keys; eassumption. }
  assert (TT : trel (w_nodes (fst (run_nodes w1 L1))) (w_nodes (fst (run_nodes w2 L2)))).
  { eapply trel_trans; [apply trel_sym; exact T1|]. eapply trel_trans; [exact T|exact T2]. }
  destruct (run_nodes w1 L1) as [w1n [e1|]] eqn:R1; destruct (run_nodes w2 L2) as [w2n [e2|]] eqn:R2; simpl in *.
  - split; [reflexivity|]. split; [rewrite G1, G2; exact Q|exact TT|congruence].
  - destruct V as [_ V]. specialize (V eq_refl). discriminate.
  - destruct V as [V _]. specialize (V eq_refl). discriminate.
  - assert (Cn1 : g_compiled (w_g w1n) = true) by (rewrite G1; exact C).
    assert (Cn2 : g_compiled (w_g w2n) = true) by (rewrite G2; exact C2).
    set (M1 := sord1 ++ map fst (w_nodes w1n)). set (M2 := sord2 ++ map fst (w_nodes w2n)).
    pose proof (compiled_run_statics M1 w1n Cn1) as S1. pose proof (compiled_run_statics M2 w2n Cn2) as S2.
    assert (SV : snd (run_statics fixed w1n M1) = None <-> snd (run_statics fixed w2n M2) = None).
    { rewrite (compiled_statics_verdict M1 w1n Cn1), (compiled_statics_verdict M2 w2n Cn2). split; intros H k K.
      - apply (stat_empty_trel _ _ k TT).
        destruct (alist_get k (w_nodes w1n)) as [n|] eqn:GK; [|unfold stat_empty; rewrite GK; exact I].
        apply H. apply in_or_app. right. eapply alist_get_in_keys; eassumption.
      - apply (stat_empty_trel _ _ k TT).
        destruct (alist_get k (w_nodes w2n)) as [n|] eqn:GK; [|unfold stat_empty; rewrite GK; exact I].
        apply H. apply in_or_app. right. eapply alist_get_in_keys; eassumption. }
    destruct (run_statics fixed w1n M1) as [w1s [e1|]]; destruct (run_statics fixed w2n M2) as [w2s [e2|]]; simpl in *; subst w1s w2s.
    + split; [reflexivity|]. split; [rewrite G1, G2; exact Q|exact TT|congruence].
    + destruct SV as [_ SV]. specialize (SV eq_refl). discriminate.
    + destruct SV as [SV _]. specialize (SV eq_refl). discriminate.
    + assert (Qn : geq (w_g w1n) (w_g w2n)) by (rewrite G1, G2; exact Q).
      pose proof (wf_ok_run_nodes L1 w1 OK1) as OKa. rewrite R1 in OKa. simpl in OKa.
      pose proof (wf_ok_run_nodes L2 w2 OK2) as OKb. rewrite R2 in OKb. simpl in OKb.
      destruct (geq_compile (w_g w1n) (w_g w2n) o Qn (wo_ginv _ OKa) (wo_ginv _ OKb) (wo_fm _ OKa) (wo_fm _ OKb)) as [K G].
      destruct (g_compile fixed (w_g w1n) o) as [ga oa]. destruct (g_compile fixed (w_g w2n) o) as [gb ob]. simpl in *.
      split; [exact K|]. split; simpl; [exact G|exact TT|congruence].
Qed.

(* the calls that are not Compile, on two compiled workflows *)
Lemma ceq_other : forall w1 w2 c, ceq w1 w2 -> g_compiled (w_g w1) = true -> w_is_compile c = false ->
  ceq (fst (wstep fixed w1 c)) (fst (wstep fixed w2 c)).
Proof.
  intros w1 w2 c [Q T B] C H.
  assert (C2 : g_compiled (w_g w2) = true) by (rewrite (q_compiled _ _ Q); exact C).
  assert (FRESH : nrel (Some (mkWN [] MNone [])) (Some (mkWN [] MNone []))) by (simpl; auto).
  assert (ADD : forall to from kind fs, ceq (fst (w_add_input w1 to from kind fs)) (fst (w_add_input w2 to from kind fs))).
  { intros to from kind fs. unfold w_add_input. rewrite (trel_present _ _ to T).
    set (n1 := if String.eqb to END_ && negb (is_some (alist_get to (w_nodes w1)))
               then alist_set to (mkWN [] MNone []) (w_nodes w1) else w_nodes w1).
    set (n2 := if String.eqb to END_ && negb (is_some (alist_get to (w_nodes w1)))
               then alist_set to (mkWN [] MNone []) (w_nodes w2) else w_nodes w2).
    assert (T0 : trel n1 n2) by (unfold n1, n2; dif; [apply trel_set; assumption|exact T]).
    pose proof (proj2 T0 to) as G.
    destruct (alist_get to n1) as [a|], (alist_get to n2) as [b|]; simpl in G; try contradiction.
    - destruct G as [G1 G2]. split; simpl; [exact Q| |exact B].
      apply trel_set; [exact T0|]. simpl. rewrite G1, G2. auto.
    - split; assumption. }
  destruct c; simpl in H; try discriminate; simpl.
  - pose proof (frozen_add_node (w_g w1) k nk need_state false false (or_introl C)) as F1.
    pose proof (frozen_add_node (w_g w2) k nk need_state false false (or_introl C2)) as F2.
    destruct (g_add_node (w_g w1) k nk need_state false false) as [ga oa].
    destruct (g_add_node (w_g w2) k nk need_state false false) as [gb ob]. simpl in *. subst ga gb.
    split; simpl; [exact Q|apply trel_set; assumption|exact B].
  - apply ADD.
  - split; simpl; [exact Q|exact T|rewrite B; reflexivity].
  - apply ADD.
  - rewrite (trel_present _ _ k T).
    set (n1 := if String.eqb k END_ && negb (is_some (alist_get k (w_nodes w1)))
               then alist_set k (mkWN [] MNone []) (w_nodes w1) else w_nodes w1).
    set (n2 := if String.eqb k END_ && negb (is_some (alist_get k (w_nodes w1)))
               then alist_set k (mkWN [] MNone []) (w_nodes w2) else w_nodes w2).
    assert (T0 : trel n1 n2) by (unfold n1, n2; dif; [apply trel_set; assumption|exact T]).
    pose proof (proj2 T0 k) as G.
    destruct (alist_get k n1) as [a|], (alist_get k n2) as [b|]; simpl in G; try contradiction.
    + destruct G as [G1 G2]. split; simpl; [exact Q| |exact B].
      apply trel_set; [exact T0|]. simpl. rewrite G1, G2. auto.
    + split; assumption.
Qed.

Lemma other_step_compiled : forall w c, w_is_compile c = false ->
  g_compiled (w_g (fst (wstep fixed w c))) = g_compiled (w_g w).
Proof.
  intros w c H. destruct c; simpl in H; try discriminate; simpl; unfold w_add_input; try reflexivity.
  - assert (X : g_compiled (fst (g_add_node (w_g w) k nk need_state false false)) = g_compiled (w_g w)).
    { unfold g_add_node, fail. destruct (g_err (w_g w)); [reflexivity|].
      destruct (g_compiled (w_g w)) eqn:C; [exact C|]. repeat (dif; [exact C|]). exact C. }
    destruct (g_add_node (w_g w) k nk need_state false false). exact X.
  - destruct (alist_get _ _); reflexivity.
  - destruct (alist_get _ _); reflexivity.
  - destruct (alist_get _ _); reflexivity.
Qed.

(* ================================================================== 7. the two executions *)
(* the same call, up to the orders a Compile takes *)
Definition same_call (c1 c2 : wcall) : Prop :=
  match c1, c2 with
  | WCompile o1 _ _, WCompile o2 _ _ => o1 = o2
  | WCompile _ _ _, _ => False
  | _, WCompile _ _ _ => False
  | _, _ => c1 = c2
  end.

Definition sim (w1 w2 : wstate) : Prop :=
  (doomed w1 /\ doomed w2) \/
  (g_compiled (w_g w1) = false /\ weq w1 w2) \/
  (g_compiled (w_g w1) = true /\ g_err (w_g w1) = None /\ ceq w1 w2).

Lemma sim_of_geq : forall w1 w2,
  geq (w_g w1) (w_g w2) -> (g_compiled (w_g w1) = false -> weq w1 w2) -> ceq w1 w2 -> sim w1 w2.
Proof.
  intros w1 w2 Q W Cq. destruct (g_err (w_g w1)) as [e|] eqn:E.
  - left. split; left; [congruence|rewrite (q_err _ _ Q); congruence].
  - destruct (g_compiled (w_g w1)) eqn:C; [right; right; auto|right; left; auto].
Qed.

Lemma sim_step : forall w1 w2 c1 c2,
  same_call c1 c2 -> wf_ok w1 -> wf_ok w2 -> handles_ok w1 -> handles_ok w2 -> sim w1 w2 ->
  okind (snd (wstep fixed w1 c1)) = okind (snd (wstep fixed w2 c2)) /\
  sim (fst (wstep fixed w1 c1)) (fst (wstep fixed w2 c2)).
Proof.
  intros w1 w2 c1 c2 SC OK1 OK2 H1 H2 S.
  destruct (w_is_compile c1) eqn:IC.
  - (* Compile *)
    destruct c1 as [| | | | |o ord1 sord1]; try discriminate. destruct c2 as [| | | | |o2 ord2 sord2]; simpl in SC; try contradiction.
    subst o2. simpl.
    destruct S as [[D1 D2]|[[C W]|[C [E Cq]]]].
    + destruct (doomed_compile w1 o ord1 sord1 D1) as [A1 B1]. destruct (doomed_compile w2 o ord2 sord2 D2) as [A2 B2].
      split; [rewrite (okind_err _ A1), (okind_err _ A2); reflexivity|left; auto].
    + destruct (open_compile w1 w2 o ord1 sord1 ord2 sord2 W OK1 OK2 C) as [K [D|W']]; split; try exact K.
      * left. exact D.
      * apply sim_of_geq; [apply (e_g _ _ W')|intros _; exact W'|apply weq_ceq; exact W'].
    + destruct (compiled_compile_agree w1 w2 o ord1 sord1 ord2 sord2 Cq OK1 OK2 C E) as [K Cq'].
      split; [exact K|].
      destruct (compiled_wstep w1 (WCompile o ord1 sord1) C) as [_ CC]. simpl in CC.
      apply sim_of_geq; [apply (cq_g _ _ Cq')|intros X; congruence|exact Cq'].
  - (* any other call *)
    assert (EQ : c2 = c1).
    { destruct c1; simpl in IC; try discriminate; destruct c2; simpl in SC; try contradiction; congruence. }
    subst c2. rewrite !(wstep_other_ok _ _ IC). split; [reflexivity|].
    destruct S as [[D1 D2]|[[C W]|[C [E Cq]]]].
    + left. split; apply doomed_other_step; assumption.
    + pose proof (open_other w1 w2 c1 W IC) as W'.
      apply sim_of_geq; [apply (e_g _ _ W')|intros _; exact W'|apply weq_ceq; exact W'].
    + pose proof (ceq_other w1 w2 c1 Cq C IC) as Cq'.
      apply sim_of_geq; [apply (cq_g _ _ Cq')| |exact Cq'].
      intros X. rewrite (other_step_compiled w1 c1 IC) in X. congruence.
Qed.

Lemma sim_run : forall cs1 cs2 w1 w2,
  Forall2 same_call cs1 cs2 -> wf_ok w1 -> wf_ok w2 -> handles_ok w1 -> handles_ok w2 -> sim w1 w2 ->
  Forall2 (fun o1 o2 => okind o1 = okind o2) (snd (run_calls (wstep fixed) w1 cs1)) (snd (run_calls (wstep fixed) w2 cs2)).
Proof.
  induction cs1 as [|c1 cs1 IH]; intros cs2 w1 w2 F OK1 OK2 H1 H2 S; inversion F as [|? c2 ? cs2' SC F']; subst; simpl; [constructor|].
  destruct (sim_step w1 w2 c1 c2 SC OK1 OK2 H1 H2 S) as [K S'].
  pose proof (wf_ok_wstep w1 c1 OK1) as OK1'. pose proof (wf_ok_wstep w2 c2 OK2) as OK2'.
  pose proof (handles_ok_wstep w1 c1 H1) as H1'. pose proof (handles_ok_wstep w2 c2 H2) as H2'.
  destruct (wstep fixed w1 c1) as [w1' o1]. destruct (wstep fixed w2 c2) as [w2' o2]. simpl in *.
  specialize (IH cs2' w1' w2' F' OK1' OK2' H1' H2' S').
  destruct (run_calls (wstep fixed) w1' cs1) as [wa osa]. destruct (run_calls (wstep fixed) w2' cs2') as [wb osb]. simpl in *.
  constructor; assumption.
Qed.

(* two complete executions of one call sequence on a Workflow — every Compile visiting the nodes in
   its own orders — give, call by call, outcomes of the same kind: ok, error, or compiled *)
Theorem workflow_executions_agree : forall st cs1 cs2,
  Forall2 same_call cs1 cs2 ->
  Forall2 (fun o1 o2 => okind o1 = okind o2)
          (snd (run_calls (wstep fixed) (w_init st) cs1)) (snd (run_calls (wstep fixed) (w_init st) cs2)).
Proof.
  intros st cs1 cs2 F. apply sim_run; try exact F.
  - exact (reachable_wf_ok st []).
  - exact (reachable_wf_ok st []).
  - exact (reachable_handles_ok st []).
  - exact (reachable_handles_ok st []).
  - right. left. split; [reflexivity|]. split; [apply geq_refl|reflexivity|reflexivity].
Qed.

(* non-vacuity: the two orders of [two_failing] (Proofs/BuilderWfOrder.v) meet different errors and
   leave different states behind; the executions still agree on every later call *)
Definition two_failing_then : list wcall -> list wcall -> Prop := fun cs1 cs2 =>
  cs1 = two_failing ++ [WCompile opt_default ["a"] []; WAddInput END_ "b" WNormal ["B"]; WCompile opt_default [] []] /\
  cs2 = two_failing ++ [WCompile opt_default ["b"] []; WAddInput END_ "b" WNormal ["B"]; WCompile opt_default [] []].

Lemma two_failing_then_same : forall cs1 cs2, two_failing_then cs1 cs2 -> Forall2 same_call cs1 cs2.
Proof.
  intros cs1 cs2 [A B]. subst. unfold two_failing. simpl.
  repeat (constructor; [simpl; reflexivity|]). constructor.
Qed.

Lemma two_failing_then_outcomes : forall cs1 cs2, two_failing_then cs1 cs2 ->
  map okind (snd (run_calls (wstep fixed) (w_init false) cs1)) = map okind (snd (run_calls (wstep fixed) (w_init false) cs2)) /\
  w_nodes (final (wstep fixed) (w_init false) cs1) <> w_nodes (final (wstep fixed) (w_init false) cs2).
Proof.
  intros cs1 cs2 [A B]. subst. split; [vm_compute; reflexivity|]. vm_compute. discriminate.
Qed.

(* ================================================================== 8. a compiled Workflow and what is declared on it *)
(* a declaration made on a compiled workflow (AddInput / AddDependency / AddEnd on any handle) is
   not applied: every Compile fails while it is waiting, for every pair of orders *)
Theorem declaration_after_compile_refused : forall w o ord sord k n,
  g_compiled (w_g w) = true -> alist_get k (w_nodes w) = Some n -> wn_pending n <> [] ->
  is_err (snd (w_compile fixed w o ord sord)).
Proof.
  intros w o ord sord k n C G P. unfold w_compile.
  destruct (g_err (w_g w)) eqn:E; [eexists; reflexivity|].
  rewrite (compiled_run_branches (w_branches w) w C).
  destruct (existsb (bmissing (w_nodes w)) (w_branches w)); [eexists; reflexivity|].
  destruct (compiled_run_nodes (ord ++ map fst (w_nodes w)) w C E) as [_ [_ V]].
  destruct (run_nodes w (ord ++ map fst (w_nodes w))) as [w2 [e|]]; simpl in *; [eexists; reflexivity|].
  exfalso. pose proof (proj1 V eq_refl k) as X. unfold pend_empty in X. rewrite G in X.
  apply P. apply X. apply in_or_app. right. eapply alist_get_in_keys; eassumption.
Qed.

(* a successful Compile leaves nothing waiting: every deferred declaration and every static value
   has been applied (exactly once: the next Compile finds none) *)
Theorem compile_consumes_everything : forall w o ord sord w1 r,
  w_compile fixed w o ord sord = (w1, OCompiled r) ->
  forall k n, alist_get k (w_nodes w1) = Some n -> wn_pending n = [] /\ wn_static n = [].
Proof.
  intros w o ord sord w1 r H k n G. unfold w_compile in H.
  destruct (g_err (w_g w)) eqn:E; [discriminate|].
  pose proof (run_branches_nodes fixed (w_branches w) w) as NB.
  destruct (run_branches fixed w (w_branches w)) as [wb [ob|]] eqn:B; simpl in NB.
  { inversion H; subst. pose proof (run_branches_stop_is_err _ _ _ _ B) as [e X]. discriminate. }
  set (L := ord ++ map fst (w_nodes wb)) in *.
  pose proof (run_nodes_node_keys L wb) as KN.
  destruct (run_nodes wb L) as [wn [en|]] eqn:R; [discriminate|]. simpl in KN.
  set (M := sord ++ map fst (w_nodes wn)) in *.
  pose proof (run_statics_node_keys M wn) as KS.
  destruct (run_statics fixed wn M) as [ws [es|]] eqn:S; [discriminate|]. simpl in KS.
  destruct (g_compile fixed (w_g ws) o) as [g' out]. inversion H; subst. simpl in G.
  (* k is a key of every table on the way *)
  assert (IKs : In k (map fst (w_nodes ws))) by (eapply alist_get_in_keys; eassumption).
  assert (IKn : In k (map fst (w_nodes wn))) by (rewrite <- KS; exact IKs).
  assert (IKb : In k (map fst (w_nodes wb))) by (rewrite <- KN; exact IKn).
  assert (Gb : exists nb, alist_get k (w_nodes wb) = Some nb).
  { destruct (alist_get k (w_nodes wb)) as [nb|] eqn:X; [eauto|]. apply alist_get_none_notin in X. contradiction. }
  destruct Gb as [nb Gb].
  pose proof (run_nodes_final_node L wb wn k nb R Gb (in_or_app _ _ _ (or_intror IKb))) as Gn.
  destruct (g_compiled (w_g wn)) eqn:C.
  - (* an already compiled workflow: the static values stage changes nothing and passed *)
    pose proof (compiled_run_statics M wn C) as X. rewrite S in X. simpl in X. subst ws.
    rewrite Gn in G. inversion G; subst n. simpl. split; [reflexivity|].
    pose proof (proj1 (compiled_statics_verdict M wn C)) as V. rewrite S in V. specialize (V eq_refl k (in_or_app _ _ _ (or_intror IKn))).
    unfold stat_empty in V. rewrite Gn in V. exact V.
  - pose proof (run_statics_final_node M wn ws k _ C S Gn (in_or_app _ _ _ (or_intror IKn))) as Gs.
    rewrite Gs in G. inversion G; subst n. unfold snode. simpl.
    destruct (wn_static nb); simpl; auto.
Qed.

Definition wf_consumed : list wcall :=
  [ WAddNode "a" NLambda false; WAddInput "a" START WNormal ["A"]; WSetStatic "a" "B"; WAddInput END_ "a" WNormal [] ].

Lemma wf_consumed_run :
  let w1 := fst (w_compile fixed (final (wstep fixed) (w_init false) wf_consumed) opt_default [] []) in
  okind (snd (w_compile fixed (final (wstep fixed) (w_init false) wf_consumed) opt_default [] [])) = 3%nat /\
  okind (snd (w_compile fixed (fst (wstep fixed w1 (WAddInput "a" START WDepOnly []))) opt_default [] [])) = 1%nat.
Proof. vm_compute. split; reflexivity. Qed.
