(* Proofs/EagerSkip.v — property C03: the eager model with branches (Model/EagerSkip.v) against the
   eager model without (Model/Confluence.v).

   [seager_no_branches]: on a graph without branches the branch-aware run loop IS the plain one, for
   every schedule, every graph, every fuel, before and after fix 665541a - so everything proved
   about [eager] (Proofs/Eager.v) holds for what the correspondence evaluates through [seager] on
   branch-free Workflows, and the two evaluators of Corr/C03.v ([eager_model]) agree where both apply.
   [seager_v0_schedule_dependent]: the code before 665541a (fixed = false) - the outcome depends on
   the schedule (finding F-C03d); the repaired rule gives one outcome on the same graph. *)
From Eino Require Import Base.Util Model.Confluence Model.EagerSkip.

Local Open Scope N_scope.

(* the branch-aware channel state that corresponds to a plain one *)
Definition emb (s : cstate) : sstate :=
  mkss (vals s) (map (fun k => (k, CReady)) (deps s)) [] [].

Section NoBranches.
Variable g : graph.
Let G := mksg g [] [] [].

Lemma br_srcs_nil n : br_srcs G n = [].
Proof. reflexivity. Qed.

Lemma cpreds_nil n : cpreds G n = n_preds n.
Proof. unfold cpreds. rewrite br_srcs_nil. simpl. apply app_nil_r. Qed.

Lemma dpreds_nil n : dpreds G n = n_preds n.
Proof. reflexivity. Qed.

Lemma csuccs_nil c : csuccs G c = succs g c.
Proof.
  unfold csuccs, succs. simpl. f_equal. apply filter_ext. intros n. apply orb_false_r.
Qed.

Lemma dsuccs_nil c : dsuccs G c = succs g c.
Proof. reflexivity. Qed.

Lemma unselected_nil fixed c : unselected fixed G c = [].
Proof. reflexivity. Qed.

Lemma sel_of_nil c : sel_of G c = [].
Proof. reflexivity. Qed.

Lemma propagate_nil fuel s : propagate G fuel [] s = s.
Proof. destruct fuel; reflexivity. Qed.

Lemma filter_true {A} (l : list A) : filter (fun _ => true) l = l.
Proof. induction l as [|a l IH]; simpl; [reflexivity|rewrite IH; reflexivity]. Qed.

Lemma sreport_emb fixed s cv : sreport fixed G (emb s) cv = emb (report g s cv).
Proof.
  unfold sreport. rewrite unselected_nil. simpl map at 1. rewrite propagate_nil.
  unfold emb, report; simpl. rewrite sel_of_nil, app_nil_r.
  assert (E : forall l : list nid, filter (fun t : nid => negb (nmem t [])) l = l).
  { intros l. apply filter_true. }
  rewrite !E. rewrite csuccs_nil, dsuccs_nil. f_equal.
  rewrite map_app, !map_map. reflexivity.
Qed.

Lemma cfind_emb k d : (match cfind k (map (fun k => (k, CReady)) d) with Some _ => true | None => false end) = dmem k d.
Proof.
  induction d as [|k' d IH]; simpl; [reflexivity|].
  destruct (k2eqb k k'); simpl; [reflexivity|exact IH].
Qed.

Lemma forallb_andb {A} (f h : A -> bool) l :
  forallb (fun x => f x && h x) l = forallb f l && forallb h l.
Proof.
  induction l as [|a l IH]; simpl; [reflexivity|]. rewrite IH.
  destruct (f a), (h a), (forallb f l), (forallb h l); reflexivity.
Qed.

Lemma forallb_ext' {A} (f h : A -> bool) l : (forall x, f x = h x) -> forallb f l = forallb h l.
Proof. intros E. induction l as [|a l IH]; simpl; [reflexivity|rewrite E, IH; reflexivity]. Qed.

Lemma sready_emb s n : sready G (emb s) n = ready Dag s n.
Proof.
  unfold sready, ready. rewrite cpreds_nil. change (dpreds G n) with (n_preds n). simpl.
  rewrite forallb_andb.
  rewrite (forallb_ext' _ (fun p => dmem (n_id n, p) (deps s))) by (intros x; apply cfind_emb).
  rewrite (forallb_ext' (fun d => match vfind (n_id n, d) (vals s) with Some _ => true | None => dmem (n_id n, d) [] end)
                        (has_val s (n_id n))).
  - destruct (n_preds n); reflexivity.
  - intros x. unfold has_val. destruct (vfind (n_id n, x) (vals s)); reflexivity.
Qed.

Lemma sget_input_emb s n : sget_input G (emb s) n = get_input s n.
Proof. reflexivity. Qed.

Lemma sclear_emb s n : sclear (emb s) n = emb (clear s n).
Proof.
  unfold sclear, clear, emb; simpl. f_equal.
  induction (deps s) as [|k d IH]; simpl; [reflexivity|].
  destruct (negb (fst k =? n)); simpl; rewrite IH; reflexivity.
Qed.

Lemma sclear_all_emb ns : forall s, fold_left sclear ns (emb s) = emb (fold_left clear ns s).
Proof. induction ns as [|n ns IH]; intros s; simpl; [reflexivity|]. rewrite sclear_emb. apply IH. Qed.

(* one resolve: the same next tasks (same nodes, same inputs, same order), the same END value,
   corresponding channel states; the branch-aware loop never reports END skipped *)
Lemma scalc_next_emb fixed s cv :
  scalc_next fixed G (emb s) cv =
  match calc_next Dag g s [cv] with
  | NReturn v => SReturn v
  | NTasks ts s' => STasks ts (emb s')
  end.
Proof.
  unfold scalc_next, calc_next, take_ready. simpl report_all. rewrite sreport_emb.
  simpl ss_skn. simpl nmem. cbv iota. simpl sg_nodes.
  rewrite (filter_ext (sready G (emb (report g s cv))) (ready Dag (report g s cv)))
    by (intros n; apply sready_emb).
  destruct (find is_end _) as [[n v]|]; [reflexivity|].
  rewrite sclear_all_emb. reflexivity.
Qed.

Lemma srun_eager_emb fixed pick : forall fuel s running log,
  srun_eager fixed pick G fuel (emb s) running log = run_eager pick g fuel s running log.
Proof.
  induction fuel as [|f IH]; intros s running log; simpl; [reflexivity|].
  destruct (nth_error running _) as [t|]; [|reflexivity].
  destruct (failed t); [reflexivity|].
  rewrite scalc_next_emb.
  destruct (calc_next Dag g s [run_task t]) as [v|ts s']; [reflexivity|].
  destruct (existsb prefail ts); [reflexivity|]. apply IH.
Qed.

Lemma seager_no_branches fixed pick fuel : seager fixed pick G fuel = eager pick g fuel.
Proof.
  unfold seager, eager, start_next.
  change sinit with (emb cinit). rewrite scalc_next_emb.
  destruct (calc_next Dag g cinit [(START, input_val)]) as [v|ts s']; [reflexivity|].
  destruct (existsb prefail ts); [reflexivity|]. apply srun_eager_emb.
Qed.

End NoBranches.

(* ---- finding F-C03d (fixed, /repo 665541a): 3 -> 5 by edge, branch of 3 over {5, 6} selecting 6,
        branch of 4 over {5, 7} selecting 7; before the fix node 5 ran or was skipped depending on
        which of 3 and 4 was collected first ---- *)
Definition g_fc03d : sgraph :=
  mksg [mkn 3 [0] 0; mkn 4 [0] 0; mkn 5 [3] 0; mkn 6 [3] 0; mkn 7 [4] 0; mkn 1 [5; 6; 7] 0]
       [mkbr 3 [5; 6] [6]; mkbr 4 [5; 7] [7]] [] [].
Definition pick_newest (l : list (node * val)) : nat := (List.length l - 1)%nat.

Lemma seager_v0_schedule_dependent :
  fst (fst (seager false pick_first g_fc03d 20)) <> fst (fst (seager false pick_newest g_fc03d 20)).
Proof. vm_compute. discriminate. Qed.

Lemma seager_fixed_on_witness :
  fst (fst (seager true pick_first g_fc03d 20)) = fst (fst (seager true pick_newest g_fc03d 20)) /\
  exists v, fst (fst (seager true pick_first g_fc03d 20)) = ODone v.
Proof. vm_compute. split; [reflexivity|eexists; reflexivity]. Qed.
