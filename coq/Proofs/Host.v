(* Proofs/Host.v — lemmas about Model/Host.v (host multi-agent, stretch of C18). *)
From Eino Require Import Base.Util Model.Tools Model.React Model.Host Proofs.React Proofs.ReactExt.
Local Open Scope string_scope.

Section HostProofs.
  Variable answer : string -> list msg -> res msg.
  Variable prompt : string.
  Variable specs : list hspec.

  Notation host_spec := (host_spec answer prompt specs).
  Notation host_run := (host_run answer prompt specs).

  (* the graph is the specification whenever the checker is exact on the emitted chunks *)
  Theorem host_refines : forall checker md reply input,
    step_exact checker md reply ->
    host_run checker md reply input = host_spec reply input.
  Proof.
    intros checker md reply input Hs. destruct reply as [|content calls chunks]; [reflexivity|].
    destruct Hs as [Hd Hc]. unfold Host.host_run, Host.host_spec. rewrite Hd, Hc.
    destruct calls; reflexivity.
  Qed.

  Theorem host_generate_refines : forall checker reply input,
    (forall content calls, checker [whole_chunk content calls] = nonempty calls) ->
    host_run checker Generate reply input = host_spec reply input.
  Proof.
    intros checker reply input Hw. apply host_refines. destruct reply; simpl; auto.
  Qed.

  Theorem host_generate_stream_agree : forall checker reply input,
    (forall content calls, checker [whole_chunk content calls] = nonempty calls) ->
    chunking_valid reply -> checker_exact checker reply ->
    host_run checker Stream reply input = host_run checker Generate reply input.
  Proof.
    intros checker reply input Hw Hv He. rewrite host_generate_refines by auto.
    apply host_refines. destruct reply as [|content calls chunks]; simpl in *; auto.
    rewrite Hv. split; auto.
  Qed.

  Theorem host_generate_stream_agree_default : forall reply input,
    chunking_valid reply -> tool_calls_first reply ->
    host_run default_checker Stream reply input = host_run default_checker Generate reply input.
  Proof.
    intros reply input Hv Hf. apply host_generate_stream_agree; auto.
    - apply default_checker_whole.
    - destruct reply as [|content calls chunks]; simpl in *; auto.
      apply (default_checker_exact_iff chunks content calls Hv). exact Hf.
  Qed.

  (* a reply without tool calls is the answer, and nobody is handed anything *)
  Theorem host_answers_directly : forall content chunks input,
    host_spec (SMsg content [] chunks) input
    = mkHTrace (host_input prompt input) None [] (HFinal (assistant content [])).
  Proof. reflexivity. Qed.

  (* a reply with exactly one tool call naming a specialist: that specialist runs, on the original
     messages (behind its own system prompt if it has one) — not on the host's prompt or on the
     tool-call message — and its result is the answer *)
  Theorem host_hands_off : forall content c chunks input s,
    find_spec (c_name c) specs = Some s ->
    let t := host_spec (SMsg content [c] chunks) input in
    ht_handoff t = Some (hs_name s, spec_input s input)
    /\ ht_events t = [(c_name c, c_args c)]
    /\ (forall m, answer (hs_name s) (spec_input s input) = Ok m -> ht_out t = HFinal m)
    /\ exists pre, spec_input s input = (pre ++ input)%list /\ List.length pre <= 1.
  Proof.
    intros content c chunks input s Hf. cbv zeta. unfold Host.host_spec, hand_off. rewrite Hf. simpl.
    repeat split.
    - intros m Hm. rewrite Hm. reflexivity.
    - unfold spec_input. destruct (hs_prompt s) as [p|].
      + destruct (String.eqb p ""); [exists []|eexists [_]]; split; simpl; auto.
      + exists []. split; simpl; auto.
  Qed.

  (* anything else is an error: several tool calls, or a name that is no specialist *)
  Theorem host_rejects : forall content calls chunks input,
    (2 <= List.length calls \/ exists c, calls = [c] /\ find_spec (c_name c) specs = None) ->
    exists e, ht_out (host_spec (SMsg content calls chunks) input) = HFailed e /\ ht_handoff (host_spec (SMsg content calls chunks) input) = None.
  Proof.
    intros content calls chunks input [Hl|[c [Hc Hf]]].
    - destruct calls as [|c1 [|c2 r]]; simpl in Hl; try lia. exists HNotOneCall. split; reflexivity.
    - subst. unfold Host.host_spec, hand_off. rewrite Hf. exists HUnknown. split; reflexivity.
  Qed.
End HostProofs.
