(* Proofs/GenAgreeTypes.v — the Gallina function tools/go2v translated statement by statement
   from compose/utils.go:checkAssignable (Gen/Assignable.v) is extensionally the
   [check_assignable] of Model/Types.v that every C07 theorem is about: for every universe and
   every pair of (possibly nil) types, and whatever an unknown predicate would answer — so the
   generated function may not consult one.  A reordered test, a dropped nil check, a changed
   result constant or a new reflect predicate in the source makes this stop compiling. *)
From Eino Require Import Base.Util Model.Types Model.TypesGenLib.
From Eino Require Gen.Assignable.

Theorem gen_check_assignable_agrees : forall unk u input arg,
  Gen.Assignable.check_assignable unk u input arg = Model.Types.check_assignable u input arg.
Proof.
  intros unk u [i|] [a|]; unfold Gen.Assignable.check_assignable, check_assignable; simpl; try reflexivity.
Qed.

(* non-vacuity: the generated function distinguishes the three answers *)
Example gen_assignable_three_answers :
  let u := {| u_conc := [(1%N, [7%N])]; u_iface := [(1%N, [7%N])] |} in
  let nounk := fun _ _ _ => false in
  Gen.Assignable.check_assignable nounk u (Some (TConc 1)) (Some (TIface 1)) = Must
  /\ Gen.Assignable.check_assignable nounk u (Some (TIface 1)) (Some (TConc 1)) = May
  /\ Gen.Assignable.check_assignable nounk u (Some (TConc 1)) (Some (TConc 2)) = MustNot.
Proof. repeat split; reflexivity. Qed.
