(* Proofs/GenAgreeTypes.v — the Gallina functions tools/go2v translated statement by statement
   from compose/utils.go:checkAssignable (Gen/Assignable.v) are extensionally the
   [check_assignable] of Model/Types.v that every C07 theorem is about: for every universe and
   every pair of (possibly nil) types, and whatever an unknown predicate would answer — so the
   generated function may consult one only where its answer does not matter.

   Two readings of the same source (one translation, two vocabularies):
   * [check_assignable] over Model/TypesGenLib.v (reflect operations totalised);
   * [check_assignable_p] over Model/TypesGenLibP.v (a method called on the nil reflect.Type and
     Implements with a nil or non-interface argument PANIC; && and || evaluate what Go evaluates):
     the translated function returns [Some] of the model's answer — it never panics.

   The proofs do not follow the syntax of the translated function: both sides are reduced to
   their atomic predicates (identity of the two types, kind of each, Implements in each
   direction, the unknown predicates) and every combination of truth values is computed, with
   what the atoms know of each other (identical types have the same kind and implement each
   other; identity is symmetric).  So any restructuring of the decision function that keeps its
   meaning keeps this file compiling (nested tests folded into one condition, reordered
   independent tests, De Morgan, if / else if / switch, early returns, an arm moved into a
   helper), while a changed answer for some combination, a dropped nil test, an Implements call
   moved in front of its guard or a new reflect predicate that matters makes it stop compiling. *)
From Eino Require Import Base.Util Model.Types Model.TypesGenLib Model.TypesGenLibP Proofs.TypesLattice Proofs.TypesLatticeX.
From Eino Require Gen.Assignable.

Lemma implements_refl : forall u t, implements u t t = true.
Proof. intros u t; unfold implements; apply subsetN_spec; auto. Qed.

(* split the innermost scrutinee that is not itself a conditional, until none is left *)
Ltac ga_leaves :=
  repeat match goal with
  | |- context [if ?b then _ else _] =>
      lazymatch b with
      | context [if _ then _ else _] => fail
      | context [match _ with _ => _ end] => fail
      | _ => destruct b eqn:?
      end
  | |- context [match ?b with Some _ => _ | None => _ end] =>
      lazymatch b with
      | context [if _ then _ else _] => fail
      | context [match _ with _ => _ end] => fail
      | _ => destruct b eqn:?
      end
  end.

Ltac ga_decide :=
  cbv [rt_is_nil rt_eq rt_kind_is rt_implements oty_eqb
       pb_const pb_and pb_or pb_not pb_beq pb_if rtp_is_nil rtp_eq rtp_kind_is rtp_implements rtp_unk
       String.eqb Ascii.eqb Bool.eqb String.append andb orb negb];
  try reflexivity;
  match goal with
  | i : ty, a : ty |- _ =>
      rewrite ?(ty_eqb_sym i a);
      destruct (ty_eqb a i) eqn:Eai;
      [ apply ty_eqb_eq in Eai; subst a; rewrite ?implements_refl | ];
      ga_leaves; try reflexivity; try congruence
  | _ => ga_leaves; try reflexivity; try congruence
  end.

Theorem gen_check_assignable_agrees : forall unk u input arg,
  Gen.Assignable.check_assignable unk u input arg = Model.Types.check_assignable u input arg.
Proof.
  intros unk u [i|] [a|]; unfold Gen.Assignable.check_assignable, check_assignable; ga_decide.
Qed.

(* the panic-aware reading: the function returns the model's answer and never panics *)
Theorem gen_check_assignable_no_panic : forall unk u input arg,
  Gen.Assignable.check_assignable_p unk u input arg = Some (Model.Types.check_assignable u input arg).
Proof.
  intros unk u [i|] [a|]; unfold Gen.Assignable.check_assignable_p, check_assignable; ga_decide.
Qed.

(* non-vacuity: the generated function distinguishes the three answers *)
Example gen_assignable_three_answers :
  let u := {| u_conc := [(1%N, [7%N])]; u_iface := [(1%N, [7%N])] |} in
  let nounk := fun _ _ _ => false in
  Gen.Assignable.check_assignable nounk u (Some (TConc 1)) (Some (TIface 1)) = Must
  /\ Gen.Assignable.check_assignable nounk u (Some (TIface 1)) (Some (TConc 1)) = May
  /\ Gen.Assignable.check_assignable nounk u (Some (TConc 1)) (Some (TConc 2)) = MustNot.
Proof. repeat split; reflexivity. Qed.

(* non-vacuity of the vocabulary: the operations the translated function guards do panic *)
Example gen_assignable_vocabulary_panics :
  let u := {| u_conc := [(1%N, [7%N])]; u_iface := [(1%N, [7%N])] |} in
  let nounk := fun _ _ _ => false in
  rtp_kind_is nounk "Interface" None = None
  /\ rtp_implements u (Some (TIface 1)) (Some (TConc 1)) = None
  /\ rtp_implements u (Some (TConc 1)) (Some (TIface 1)) = Some true
  /\ pb_and (Some false) None = Some false /\ pb_and None (Some false) = None.
Proof. repeat split; reflexivity. Qed.
