(* Proofs/GenAgreeC04Copy.v — property C04, translator tie (extractor c04copy, Gen/C04Copy.v):
   compose/graph_run.go copyItem, translated statement by statement, hands every one of the
   n >= 1 successors the item itself (a plain value) resp. its own reader of the copies
   streamReader.copy makes (a stream) — the model's [s_copy] of Model/StreamOps.v, which
   [concat_copy] is about. *)
From Eino Require Import Base.Util Model.Paradigm Model.StreamOps Model.C04GenLib.
From Eino Require Gen.C04Copy.

Lemma mapM_const : forall {A B} (b : B) (l : list A),
  res_mapM (fun _ => Ok b) l = Ok (repeat b (List.length l)).
Proof. induction l as [|a l IH]; simpl; [reflexivity|]. now rewrite IH. Qed.

Lemma mapM_idx : forall {B} (pre l : list B),
  res_mapM (fun i => do x <- go_idx (pre ++ l) i; Ok x) (seq (List.length pre) (List.length l)) = Ok l.
Proof.
  intros B pre l. revert pre. induction l as [|b l IH]; intro pre; simpl; [reflexivity|].
  unfold go_idx at 1. rewrite nth_error_app2 by lia. rewrite Nat.sub_diag. simpl.
  replace (pre ++ b :: l) with ((pre ++ [b]) ++ l) by (rewrite <- app_assoc; reflexivity).
  replace (S (List.length pre)) with (List.length (pre ++ [b])) by (rewrite app_length; simpl; lia).
  now rewrite IH.
Qed.

Theorem gen_copyItem_value : forall rc x n, (1 <= n)%nat ->
  Gen.C04Copy.copyItem rc (GV x) n = Ok (repeat (GV x) n).
Proof.
  intros rc x n Hn. unfold Gen.C04Copy.copyItem.
  destruct (Nat.ltb n 2) eqn:E.
  - apply Nat.ltb_lt in E. assert (n = 1)%nat as -> by lia. reflexivity.
  - simpl. rewrite mapM_const, seq_length. reflexivity.
Qed.

(* [rc n s] = the readers streamReader.copy(n) returns: n of them (property C08) *)
Theorem gen_copyItem_stream : forall rc s n, (2 <= n)%nat ->
  List.length (rc n s) = n ->
  Gen.C04Copy.copyItem rc (GS s) n = Ok (map GS (rc n s)).
Proof.
  intros rc s n Hn Hl. unfold Gen.C04Copy.copyItem.
  destruct (Nat.ltb n 2) eqn:E; [apply Nat.ltb_lt in E; lia|]. simpl.
  pose proof (mapM_idx [] (map GS (rc n s))) as H. simpl in H.
  rewrite map_length, Hl in H. rewrite H. reflexivity.
Qed.

(* with the model's copy (every reader delivers the items of the source) *)
Corollary gen_copyItem_agrees : forall s n, (1 <= n)%nat ->
  Gen.C04Copy.copyItem s_copy (GS s) n = Ok (map GS (s_copy n s)).
Proof.
  intros s n Hn. destruct (Nat.eq_dec n 1) as [->|Hne]; [reflexivity|].
  apply gen_copyItem_stream; [lia|]. unfold s_copy. apply repeat_length.
Qed.

Example gen_copy_three :
  Gen.C04Copy.copyItem s_copy (GS [Val (VS "a"%string)]) 3
  = Ok [GS [Val (VS "a"%string)]; GS [Val (VS "a"%string)]; GS [Val (VS "a"%string)]].
Proof. reflexivity. Qed.
