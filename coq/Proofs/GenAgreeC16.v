(* Proofs/GenAgreeC16.v — property C16, translator tie (mechanism 2 of DESIGN §1 / §13a).

   tools/go2v/c16_options.go re-reads, on every run of the check, with go/ast:
     compose/utils.go               extractOption, initGraphCallbacks, initNodeCallbacks
     compose/graph_call_options.go  Option.deepCopy, Option.DesignateNodeWithPath
     compose/graph_run.go           runner.extractOption, the checkOption closure of toComposableRunnable,
                                    createTasks, restoreTasks, the flow of the options through run
     compose/graph_manager.go       taskManager.executor
   and translates them statement by statement into coq/Gen/OptExtract.v, Gen/OptCallbacks.v,
   Gen/OptDesignate.v (vocabulary: Model/OptionsGenLib.v, Base/GoSlice.v). This file proves, for
   ALL arguments, that the translated functions are the functions of Model/Options.v /
   Model/OptionsSlice.v that the theorems of Props/C16.v are about:

     gen_extractOption_agrees          Gen.extractOption g opts = extract_option g opts []
     gen_deepCopy_agrees               set_paths (Gen.deepCopy o) ps = deep_copy o ps
     gen_initGraphCallbacks_agrees     Gen.initGraphCallbacks opts = graph_handlers opts
     gen_initNodeCallbacks_agrees      Gen.initNodeCallbacks k opts = node_handlers k opts
     gen_designateNodeWithPath_agrees  wf h s -> Gen.designateNodeWithPath pol h s ps = designate_go pol h s ps
     gen_createTask_option_agrees      Gen.createTask_option k m = t_option (create_task k m)
     gen_restoreTask_option_agrees     Gen.restoreTask_option skip k m = t_option (restore_task false k m c)
                                       (for every value of the task's skipPreHandler flag and every checkpoint)
     gen_option_flow_agrees            the data flow of the call's options through runner.run / executor
                                       (Model/OptionsSitesTable.v)
     gen_runnerExtractOption_agrees    Gen.runnerExtractOption (the translated checkOption closure around the
                                       next level) g opts = validate (S f) F gi opts   (nth_error F gi = Some g)
     gen_extractOption_never_panics    no s[0] / s[1:] of extractOption is out of range
     gen_designate_copies              the translated DesignateNodeWithPath returns base ++ new paths
                                       and leaves every array visible before the call untouched

   An edit of one of these Go functions that changes its meaning makes a proof below fail even
   when no generated case reaches the difference (checked with: the in-place append of the
   seeded change C16-designate-appends-to-receiver-paths; the early `continue` of
   C16-callback-unknown-node-accepted; initNodeCallbacks without `break`; deepCopy without the
   handlers). A harmless rewrite (branches of a test swapped, locals renamed, nested tests
   merged into `continue`) keeps them. *)
From Coq Require Import Lia.
From Eino Require Import Base.Util Model.Options Model.OptionsGenLib.
From Eino Require Import Base.GoSlice Model.OptionsSlice.
From Eino Require Import Model.OptionsResume Model.OptionsSitesTable.
From Eino Require Gen.OptExtract Gen.OptCallbacks Gen.OptDesignate Gen.OptTasks Gen.OptValidate.

Definition ctl_of_res {A} (r : res A) : ctl A :=
  match r with Ok a => Next a | Err e => Fail e | Panic => Crash end.

Fixpoint fold_res {X A} (f : X -> A -> res A) (l : list X) (a : A) : res A :=
  match l with
  | [] => Ok a
  | x :: l' => do a' <- f x a; fold_res f l' a'
  end.

Lemma go_range_res : forall {X A} (body : X -> A -> ctl A) (f : X -> A -> res A) (l : list X),
  (forall x a, In x l -> body x a = ctl_of_res (f x a)) ->
  forall a, go_range body l a = ctl_of_res (fold_res f l a).
Proof.
  intros X A body f l; induction l as [|x l IH]; intros H a; simpl; [reflexivity|].
  rewrite (H x a (or_introl eq_refl)). destruct (f x a) as [a'|e|]; simpl; [|reflexivity|reflexivity].
  apply IH. intros y b Hy. apply H. right; exact Hy.
Qed.

Lemma extract_option_fold : forall g opts m, extract_option g opts m = fold_res (extract_one g) opts m.
Proof. intros g opts; induction opts as [|o opts IH]; intros m; simpl; [reflexivity|].
  destruct (extract_one g o m); simpl; [apply IH|reflexivity|reflexivity]. Qed.

Lemma extract_paths_fold : forall g o qs m, extract_paths g o qs m = fold_res (extract_path g o) qs m.
Proof. intros g o qs; induction qs as [|q qs IH]; intros m; simpl; [reflexivity|].
  destruct (extract_path g o q m); simpl; [apply IH|reflexivity|reflexivity]. Qed.

Lemma common_fold : forall o g m,
  Ok (common_to_nodes o g m) = fold_res (fun nd m => Ok (common_step o m nd)) g m.
Proof. intros o g; unfold common_to_nodes; induction g as [|nd g IH]; intros m; simpl; [reflexivity|]. apply IH. Qed.

(* The real proofs are single tactic expressions (no bullets) behind [first [reflexivity | ...]]:
   when go2v does not recognise the source it writes a neutral Gen file that re-exports the
   model's function, the statement holds by reflexivity and the tie is reported "unavailable". *)
Ltac c16_extract_real g opts :=
  unfold Gen.OptExtract.extractOption;
  rewrite (go_range_res _ (extract_one g));
  [ rewrite <- extract_option_fold; destruct (extract_option g opts []); reflexivity
  | let o := fresh "o" in let m := fresh "m" in let Hp := fresh "Hp" in let Hi := fresh "Hi" in
    intros o m _;
    unfold extract_one, Gen.OptExtract.deepCopy, mk_option, set_paths, go_len, ent_opt, ent_items;
    destruct (o_paths o) as [|q0 qs0] eqn:Hp;
    [ simpl; destruct (o_items o) as [|it its] eqn:Hi; simpl; [reflexivity|];
      rewrite (go_range_res _ (fun nd m => Ok (common_step o m nd)));
      [ rewrite <- common_fold; reflexivity
      | let nd := fresh "nd" in let m' := fresh "m" in
        intros nd m' _; unfold common_step, option_type, ty_matches, head_ty, rt_nil, rt_eq, item_type; rewrite Hi;
        destruct (n_kind nd); simpl; [|reflexivity]; destruct it as [t x]; simpl;
        match goal with |- context [N.eqb ?a ?b] => destruct (N.eqb a b) end; reflexivity ]
    | cbn [List.length Nat.eqb];
      rewrite (go_range_res _ (extract_path g o));
      [ rewrite <- extract_paths_fold; destruct (extract_paths g o (q0 :: qs0) m); reflexivity
      | let q := fresh "q" in let m' := fresh "m" in
        intros q m' _;
        unfold extract_path, deep_copy, option_type, ty_matches, head_ty, rt_nil, rt_eq, item_type, go_first, go_rest;
        destruct q as [|k rest]; simpl; [reflexivity|];
        destruct (find_node k g) as [nd|]; [|reflexivity];
        destruct rest as [|k2 rest]; simpl;
        [ destruct (o_items o) as [|[t x] its]; simpl; [reflexivity|];
          destruct (n_kind nd); simpl; [|reflexivity];
          rewrite N.eqb_sym; match goal with |- context [N.eqb ?a ?b] => destruct (N.eqb a b) end; reflexivity
        | destruct (n_kind nd); reflexivity ] ] ] ].

Theorem gen_extractOption_agrees : forall g opts,
  Gen.OptExtract.extractOption g opts = extract_option g opts [].
Proof. intros g opts. first [ reflexivity | c16_extract_real g opts ]. Qed.

Theorem gen_deepCopy_agrees : forall o ps,
  set_paths (Gen.OptExtract.deepCopy o) ps = deep_copy o ps.
Proof. intros [its hs qs] ps. reflexivity. Qed.

Theorem gen_deepCopy_is_a_copy : forall o, Gen.OptExtract.deepCopy o = o.
Proof. intros [its hs qs]. reflexivity. Qed.

(* ---------------------------------------------------------------- callbacks *)

Lemma go_range_pure : forall {X A} (body : X -> A -> ctl A) (f : X -> A -> A) (l : list X),
  (forall x a, In x l -> body x a = Next (f x a)) ->
  forall a, go_range body l a = Next (fold_left (fun a x => f x a) l a).
Proof.
  intros X A body f l; induction l as [|x l IH]; intros H a; simpl; [reflexivity|].
  rewrite (H x a (or_introl eq_refl)). apply IH. intros y b Hy. apply H. right; exact Hy.
Qed.

Lemma go_range_first : forall {X A} (body : X -> A -> ctl A) (p : X -> bool) (f : A -> A) (l : list X),
  (forall x a, In x l -> body x a = if p x then Break (f a) else Next a) ->
  forall a, go_range body l a = Next (if existsb p l then f a else a).
Proof.
  intros X A body p f l; induction l as [|x l IH]; intros H a; simpl; [reflexivity|].
  rewrite (H x a (or_introl eq_refl)). destruct (p x); simpl; [reflexivity|].
  apply IH. intros y b Hy. apply H. right; exact Hy.
Qed.

Lemma fold_left_app_flat_map : forall {X B} (h : X -> list B) (l : list X) (a : list B),
  fold_left (fun a x => a ++ h x) l a = a ++ flat_map h l.
Proof.
  intros X B h l; induction l as [|x l IH]; intros a; simpl; [symmetry; apply app_nil_r|].
  rewrite IH, app_assoc. reflexivity.
Qed.

Ltac c16_graphcb_real :=
  unfold Gen.OptCallbacks.initGraphCallbacks, graph_handlers;
  rewrite (go_range_pure _ (fun o a => a ++ match o_paths o with [] => o_handlers o | _ :: _ => [] end));
  [ rewrite fold_left_app_flat_map; reflexivity
  | let o := fresh "o" in let a := fresh "a" in
    intros o a _; unfold go_len;
    destruct (o_handlers o) as [|hd tl]; destruct (o_paths o); simpl; rewrite ?app_nil_r; reflexivity ].

Theorem gen_initGraphCallbacks_agrees : forall opts,
  Gen.OptCallbacks.initGraphCallbacks opts = graph_handlers opts.
Proof. intros opts. first [ reflexivity | c16_graphcb_real ]. Qed.

Ltac c16_nodecb_real k :=
  unfold Gen.OptCallbacks.initNodeCallbacks, node_handlers;
  rewrite (go_range_pure _ (fun o a => a ++ if designates_key k (o_paths o) then o_handlers o else []));
  [ rewrite fold_left_app_flat_map; reflexivity
  | let o := fresh "o" in let a := fresh "a" in
    intros o a _; unfold go_len;
    destruct (o_handlers o) as [|hd tl]; destruct (o_paths o) as [|q qs];
    cbn [List.length Nat.eqb negb orb andb];
    first
    [ (* no handlers or no paths: nothing is appended *)
      solve [ simpl; rewrite ?app_nil_r; reflexivity
            | match goal with |- context [designates_key ?k ?l] => destruct (designates_key k l) end;
              simpl; rewrite ?app_nil_r; reflexivity ]
    | (* the search loop over the paths, left by `break` *)
      rewrite (go_range_first _ (fun q => match q with [k'] => N.eqb k' k | _ => false end) (fun a => a ++ hd :: tl));
      [ unfold designates_key; match goal with |- context [existsb ?p ?l] => destruct (existsb p l) end;
        simpl; rewrite ?app_nil_r; reflexivity
      | let p := fresh "p" in let b := fresh "b" in
        intros p b _; unfold go_first, key_eqb; destruct p as [|k' [|k'' p]]; simpl;
        rewrite ?(N.eqb_sym k); reflexivity ] ] ].

Theorem gen_initNodeCallbacks_agrees : forall k opts,
  Gen.OptCallbacks.initNodeCallbacks k opts = node_handlers k opts.
Proof. intros k opts. first [ reflexivity | c16_nodecb_real k ]. Qed.

(* ---------------------------------------------------------------- DesignateNodeWithPath on slices *)

Lemma read_after_make : forall h s l c, wf h s -> read (fst (make h l c)) s = read h s.
Proof.
  intros h s l c [Hle [Hc | [Ha _]]]; unfold read, arr_of, make; simpl.
  - assert (len s = 0) as -> by lia. reflexivity.
  - rewrite app_nth1 by exact Ha. reflexivity.
Qed.

Theorem gen_designateNodeWithPath_agrees : forall pol h s ps,
  wf h s -> Gen.OptDesignate.designateNodeWithPath pol h s ps = designate_go pol h s ps.
Proof.
  intros pol h s ps Hwf.
  first [ reflexivity |
  unfold Gen.OptDesignate.designateNodeWithPath, designate_go;
  pose proof (read_after_make h s 0 (len s + List.length ps) Hwf) as Hr;
  destruct (make h 0 (len s + List.length ps)) as [h1 s1]; simpl in Hr |- *; rewrite Hr;
  destruct (append pol h1 s1 (read h s)) as [h2 s2]; simpl;
  destruct (append pol h2 s2 ps); reflexivity ].
Qed.

(* ---------------------------------------------------------------- tasks and the flow of the options *)

Theorem gen_createTask_option_agrees : forall k m,
  Gen.OptTasks.createTask_option k m = t_option (create_task k m).
Proof. intros k m. reflexivity. Qed.

Theorem gen_restoreTask_option_agrees : forall skip k m c,
  Gen.OptTasks.restoreTask_option skip k m = t_option (restore_task false k m c).
Proof.
  intros skip k m c. unfold Gen.OptTasks.restoreTask_option, restore_task, om_get. simpl.
  destruct (nlist_get k m); reflexivity.
Qed.

Theorem gen_option_flow_agrees :
  Gen.OptTasks.option_flow = Model.OptionsSitesTable.option_flow.
Proof. reflexivity. Qed.

(* ---------------------------------------------------------------- runner.extractOption: distribution + validation *)
(* Gen.runnerExtractOption is parametrised by what c.action.checkOption does; instantiated with the
   translated closure of toComposableRunnable around the next level's validation it IS [validate]. *)

(* a loop that only inspects: the accumulator is handed through unchanged *)
Lemma go_range_check : forall {X A} (body : X -> A -> ctl A) (f : X -> res unit) (l : list X) (a : A),
  (forall x, In x l -> body x a = match f x with Ok _ => Next a | Err e => Fail e | Panic => Crash end) ->
  go_range body l a = match res_mapM f l with Ok _ => Next a | Err e => Fail e | Panic => Crash end.
Proof.
  intros X A body f l a; induction l as [|x l IH]; intros H; simpl; [reflexivity|].
  rewrite (H x (or_introl eq_refl)). destruct (f x) as [[]|e|]; simpl; try reflexivity.
  rewrite IH by (intros y Hy; apply H; right; exact Hy).
  destruct (res_mapM f l); reflexivity.
Qed.

Ltac c16_validate_real f F gi g opts :=
  unfold Gen.OptValidate.runnerExtractOption;
  rewrite gen_extractOption_agrees;
  destruct (extract_option g opts []) as [m|e|]; simpl; try reflexivity;
  rewrite (go_range_check _ (fun nd => match n_kind nd with
                                       | KComp _ => Ok tt
                                       | KSub gj => do os <- convert_opts (om_get (n_key nd) m); do _ <- validate f F gj os; Ok tt
                                       end));
  [ match goal with |- context [res_mapM ?h g] => destruct (res_mapM h g) end; reflexivity
  | let nd := fresh "nd" in
    intros nd _; unfold action_nil, check_nil, Gen.OptValidate.checkOption;
    destruct (n_kind nd) as [ty|gj]; simpl; [reflexivity|];
    destruct (convert_opts (om_get (n_key nd) m)) as [os|e|]; simpl; try reflexivity;
    destruct (validate f F gj os); reflexivity ].

Theorem gen_runnerExtractOption_agrees : forall f F gi g opts,
  nth_error F gi = Some g ->
  Gen.OptValidate.runnerExtractOption
    (fun nd es => match n_kind nd with
                  | KSub gj => Gen.OptValidate.checkOption (fun os => validate f F gj os)
                                                        (fun os => match nth_error F gj with Some g' => extract_option g' os [] | None => Err E_GRAPH end) es
                  | KComp _ => Ok tt
                  end) g opts
  = validate (S f) F gi opts.
Proof.
  intros f F gi g opts Hg. cbn [validate]. rewrite Hg.
  first [ reflexivity | c16_validate_real f F gi g opts ].
Qed.

(* ---------------------------------------------------------------- consequences for the translated code *)

Lemma fold_res_never_panics : forall {X A} (f : X -> A -> res A) (l : list X),
  (forall x a, f x a <> Panic) -> forall a, fold_res f l a <> Panic.
Proof.
  intros X A f l H; induction l as [|x l IH]; intros a; simpl; [discriminate|].
  specialize (H x a). destruct (f x a); simpl; [apply IH|discriminate|contradiction].
Qed.

Lemma extract_path_never_panics : forall g o q m, extract_path g o q m <> Panic.
Proof.
  intros g o q m. unfold extract_path. destruct q as [|k rest]; [discriminate|].
  destruct (find_node k g) as [nd|]; [|discriminate].
  destruct rest; [destruct (o_items o); [discriminate|]|]; destruct (n_kind nd); try discriminate.
  destruct (ty_matches _ _); discriminate.
Qed.

Theorem gen_extractOption_never_panics : forall g opts,
  Gen.OptExtract.extractOption g opts <> Panic.
Proof.
  intros g opts. rewrite gen_extractOption_agrees, extract_option_fold.
  apply fold_res_never_panics. intros o m. unfold extract_one.
  destruct (o_paths o); [destruct (o_items o); discriminate|].
  rewrite extract_paths_fold. apply fold_res_never_panics. intros q m'. apply extract_path_never_panics.
Qed.

From Eino Require Import Proofs.CallbacksSlice Proofs.OptionsSlice.

Theorem gen_designate_copies : forall pol h s ps,
  wf h s ->
  let r := Gen.OptDesignate.designateNodeWithPath pol h s ps in
  read (fst r) (snd r) = read h s ++ ps /\ wf (fst r) (snd r) /\
  (forall t, wf h t -> read (fst r) t = read h t /\ wf (fst r) t).
Proof.
  intros pol h s ps Hwf. rewrite (gen_designateNodeWithPath_agrees pol h s ps Hwf).
  destruct (designate_go_spec pol h s ps Hwf) as (H1 & H2 & _ & H4). auto.
Qed.

Local Open Scope N_scope.
(* non-vacuity: the translated functions on a small graph (node 1: component of type 7, node 2: a
   sub graph) — delivery by type, hand-down with the shortened path, the four errors *)
Example gen_extract_example :
  let g := [mkNode 1 (KComp 7) true true; mkNode 2 (KSub 1%nat) true true] in
  Gen.OptExtract.extractOption g [mkOpt [(7, 100)] [] []; mkOpt [(7, 101)] [] [[2; 5]]]
    = Ok [(1, [EItem (7, 100)]); (2, [EOpt (mkOpt [(7, 100)] [] []); EOpt (mkOpt [(7, 101)] [] [[5]])])]
  /\ Gen.OptExtract.extractOption g [mkOpt [(7, 100)] [] [[]]] = Err E_EMPTY_PATH
  /\ Gen.OptExtract.extractOption g [mkOpt [(7, 100)] [] [[3]]] = Err E_UNKNOWN
  /\ Gen.OptExtract.extractOption g [mkOpt [(8, 100)] [] [[1]]] = Err E_TYPE
  /\ Gen.OptExtract.extractOption g [mkOpt [(7, 100)] [] [[1; 4]]] = Err E_SUBPATH
  /\ Gen.OptExtract.extractOption g [mkOpt [] [9] [[3]]] = Err E_UNKNOWN.
Proof. repeat split; reflexivity. Qed.

Example gen_callbacks_example :
  let opts := [mkOpt [] [1] []; mkOpt [] [2] [[4]; [4]]; mkOpt [] [3] [[4; 5]]] in
  Gen.OptCallbacks.initGraphCallbacks opts = [1]
  /\ Gen.OptCallbacks.initNodeCallbacks 4 opts = [2]
  /\ Gen.OptCallbacks.initNodeCallbacks 5 opts = [].
Proof. repeat split; reflexivity. Qed.

Example gen_designate_example :
  let '(h0, s0) := make [] 0%nat 0%nat in
  let '(h1, s1) := Gen.OptDesignate.designateNodeWithPath pol_double h0 s0 [1%N; 2%N; 3%N] in
  let '(h2, o1) := Gen.OptDesignate.designateNodeWithPath pol_double h1 s1 [4%N] in
  let '(h3, o2) := Gen.OptDesignate.designateNodeWithPath pol_double h2 s1 [5%N] in
  read h3 o1 = [1; 2; 3; 4]%N /\ read h3 o2 = [1; 2; 3; 5]%N.
Proof. vm_compute. split; reflexivity. Qed.
