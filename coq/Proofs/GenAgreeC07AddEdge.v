(* Proofs/GenAgreeC07AddEdge.v — property C07, translator tie for compose/graph.go
   addEdgeWithMappings (tools/go2v extractor "c07_addedge", Gen/AddEdgeCode.v: the WHOLE body,
   translated statement by statement): the sticky build error and the compiled flag, the
   deferred function that makes every later error sticky, END as start / START as end node,
   unknown nodes, the duplicate tests on controlEdges / dataEdges, the bookkeeping of
   controlEdges / startNodes / endNodes, the pending entry, updateToValidateMap (parameter
   [upd]) and the final append to dataEdges.  For an ordinary edge (noControl = noData = false,
   no field mappings) it is the model's [add_edge] of Model/TypeBuilder.v: same verdict, same
   builder state, helpers still in step with the types. *)
From Eino Require Import Base.Util Model.Types Model.TypesGenLib Model.TypeBuilder Model.TypeBuilderGenLib.
From Eino Require Import Proofs.TypesBuilder Proofs.GenAgreeC07Validate Proofs.GenAgreeC07Branch.
From Eino Require Gen.AddEdgeCode.
Module E := Gen.AddEdgeCode.
Arguments check_assignable : simpl never.

(* the part behind the control-edge bookkeeping, on any state xs1 whose builder component is st1 *)
Lemma add_edge_tail_agrees : forall u orc0 upd (st0 : gstate) xs1 s e,
  gh_inv xs1 -> upd_ok u orc0 upd ->
  match (if x_has_data xs1 s e then AFailSticky
         else match upd (x_add_tvm xs1 s e) with
              | None => AFailSticky
              | Some xs2 => AOk (x_add_data xs2 s e)
              end) with
  | AOk xs' =>
      (if mem_pair (s, e) (g_data (x_st xs1)) then (set_err st0, false)
       else match update_tvm u orc0 (set_tvm (x_st xs1) (g_tvm (x_st xs1) ++ [(s, e)])) with
            | UOk st2 => (set_data st2 (g_data st2 ++ [(s, e)]), true)
            | _ => (set_err st0, false)
            end) = (x_st xs', true) /\ gh_inv xs'
  | AFailSticky =>
      (if mem_pair (s, e) (g_data (x_st xs1)) then (set_err st0, false)
       else match update_tvm u orc0 (set_tvm (x_st xs1) (g_tvm (x_st xs1) ++ [(s, e)])) with
            | UOk st2 => (set_data st2 (g_data st2 ++ [(s, e)]), true)
            | _ => (set_err st0, false)
            end) = (set_err st0, false)
  | AFailPlain | AOutside => False
  end.
Proof.
  intros u orc0 upd st0 xs1 s e I U. unfold x_has_data.
  destruct (mem_pair (s, e) (g_data (x_st xs1))); [reflexivity|].
  assert (I1 : gh_inv (x_add_tvm xs1 s e)) by (apply (gh_inv_frame xs1); auto).
  specialize (U (x_add_tvm xs1 s e) I1).
  destruct (upd (x_add_tvm xs1 s e)) as [xs2|].
  - destruct U as [U1 I2]. change (x_st (x_add_tvm xs1 s e)) with (set_tvm (x_st xs1) (g_tvm (x_st xs1) ++ [(s, e)])) in U1.
    rewrite U1. split; [reflexivity|]. apply (gh_inv_frame xs2); auto.
  - change (x_st (x_add_tvm xs1 s e)) with (set_tvm (x_st xs1) (g_tvm (x_st xs1) ++ [(s, e)])) in U.
    destruct (update_tvm u orc0 (set_tvm (x_st xs1) (g_tvm (x_st xs1) ++ [(s, e)]))) eqn:K; try reflexivity.
    exfalso. eapply U. reflexivity.
Qed.

Lemma add_edge_tail_wrap : forall u (orc : nat -> nat -> list key) upd xs s e st1,
  gh_inv xs -> upd_ok u (orc 0%nat) upd ->
  forall xs1, x_st xs1 = st1 -> x_gh xs1 = x_gh xs ->
    g_in st1 = g_in (x_st xs) -> g_out st1 = g_out (x_st xs) -> g_nodes st1 = g_nodes (x_st xs) ->
     match (if x_has_data xs1 s e then AFailSticky
            else match upd (x_add_tvm xs1 s e) with None => AFailSticky | Some xs2 => AOk (x_add_data xs2 s e) end) with
     | AOk xs' =>
         (if mem_pair (s, e) (g_data st1) then (set_err (x_st xs), false)
          else match update_tvm u (orc 0%nat) (set_tvm st1 (g_tvm st1 ++ [(s, e)])) with
               | UOk st2 => (set_data st2 (g_data st2 ++ [(s, e)]), true)
               | _ => (set_err (x_st xs), false)
               end) = (x_st xs', true) /\ gh_inv xs'
     | AFailPlain => (if mem_pair (s, e) (g_data st1) then (set_err (x_st xs), false)
          else match update_tvm u (orc 0%nat) (set_tvm st1 (g_tvm st1 ++ [(s, e)])) with
               | UOk st2 => (set_data st2 (g_data st2 ++ [(s, e)]), true)
               | _ => (set_err (x_st xs), false)
               end) = (x_st xs, false)
     | AFailSticky =>
         (if mem_pair (s, e) (g_data st1) then (set_err (x_st xs), false)
          else match update_tvm u (orc 0%nat) (set_tvm st1 (g_tvm st1 ++ [(s, e)])) with
               | UOk st2 => (set_data st2 (g_data st2 ++ [(s, e)]), true)
               | _ => (set_err (x_st xs), false)
               end) = (set_err (x_st xs), false)
     | AOutside => False
     end.
Proof.
  intros u orc upd xs s e st1 I U xs1 E1 G1 A1 A2 A3.
  assert (I1 : gh_inv xs1).
  { apply (gh_inv_frame xs); auto; rewrite E1; assumption. }
  pose proof (add_edge_tail_agrees u (orc 0%nat) upd (x_st xs) xs1 s e I1 U) as A. rewrite E1 in A.
  destruct (if x_has_data xs1 s e then AFailSticky
            else match upd (x_add_tvm xs1 s e) with None => AFailSticky | Some xs2 => AOk (x_add_data xs2 s e) end);
    [exact A | destruct A | exact A | destruct A].
Qed.

Theorem gen_add_edge_agrees : forall u (orc : nat -> nat -> list key) upd xs s e,
  gh_inv xs -> upd_ok u (orc 0%nat) upd ->
  match E.add_edge upd xs s e false false with
  | AOk xs' => add_edge u false orc (x_st xs) s e = (x_st xs', true) /\ gh_inv xs'
  | AFailPlain => add_edge u false orc (x_st xs) s e = (x_st xs, false)
  | AFailSticky => add_edge u false orc (x_st xs) s e = (set_err (x_st xs), false)
  | AOutside => False
  end.
Proof.
  intros u orc upd xs s e I U. unfold E.add_edge, add_edge, update_sel, x_has_node, x_has_ctrl.
  destruct (g_err (x_st xs)); [reflexivity|].
  destruct (g_compiled (x_st xs)); [reflexivity|].
  cbn [andb negb orb].
  destruct (N.eqb s kEND); cbn [andb negb orb]; [reflexivity|].
  destruct (N.eqb e kSTART); cbn [andb negb orb]; [reflexivity|].
  destruct (has_node (x_st xs) s) eqn:Hs; destruct (N.eqb s kSTART) eqn:Es; cbn [andb negb orb]; try reflexivity;
  (destruct (has_node (x_st xs) e) eqn:Hd; destruct (N.eqb e kEND) eqn:Ee; cbn [andb negb orb]; try reflexivity);
  (destruct (mem_pair (s, e) (g_ctrl (x_st xs))); [reflexivity|]);
  (cbv zeta;
   pose proof (marks_are_mark_ends (set_ctrl (x_st xs) (g_ctrl (x_st xs) ++ [(s, e)])) s e) as M; simpl in M;
   rewrite ?Es, ?Ee in M;
   set (st1 := mark_ends (set_ctrl (x_st xs) (g_ctrl (x_st xs) ++ [(s, e)])) s e) in *;
   apply (add_edge_tail_wrap u orc upd xs s e st1 I U); try reflexivity; simpl; exact M).
Qed.

(* non-vacuity on the state of GenAgreeC07Validate: START -> passthrough node 2 is accepted (and types
   the node), a second identical call fails with the sticky error, 3 -> 4 (T1 into T2) fails, an edge
   from END fails, and after a build error the call fails without touching the state *)
Example gen_add_edge_examples :
  let upd := upd_of ex_u (fun _ => []) in
  (exists xs', E.add_edge upd ex_xs 0%N 2%N false false = AOk xs' /\ in_ty (x_st xs') 2%N = Some (TConc 0) /\
               g_data (x_st xs') = [(0, 2)]%N /\ g_has_start (x_st xs') = true /\
               E.add_edge upd xs' 0%N 2%N false false = AFailSticky) /\
  E.add_edge upd ex_xs 3%N 4%N false false = AFailSticky /\
  E.add_edge upd ex_xs 1%N 2%N false false = AFailSticky /\
  E.add_edge upd {| x_st := set_err (x_st ex_xs); x_gh := x_gh ex_xs |} 0%N 2%N false false = AFailPlain.
Proof.
  cbv zeta. split; [eexists; split; [vm_compute; reflexivity|]; vm_compute; repeat split|].
  vm_compute. repeat split.
Qed.
