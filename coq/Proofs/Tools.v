(* Proofs/Tools.v — lemmas about Model/Tools.v (property C17). *)
From Coq Require Import Permutation.
From Eino Require Import Base.Util Model.Tools.
Local Open Scope string_scope.

(* ---- lists --------------------------------------------------------------------------- *)
Lemma set_nth_length : forall A i (a : A) l, List.length (set_nth i a l) = List.length l.
Proof. induction i; destruct l; simpl; auto. Qed.

Lemma nth_error_set_nth : forall A i (a : A) l j,
  nth_error (set_nth i a l) j =
  if Nat.eqb i j && Nat.ltb i (List.length l) then Some a else nth_error l j.
Proof.
  induction i; destruct l; intros j; simpl.
  - rewrite andb_false_r. reflexivity.
  - destruct j; reflexivity.
  - rewrite andb_false_r. reflexivity.
  - destruct j; simpl; [reflexivity|]. rewrite IHi. reflexivity.
Qed.

Lemma nth_error_ext_eq : forall A (l l' : list A),
  (forall j, nth_error l j = nth_error l' j) -> l = l'.
Proof.
  induction l; destruct l'; intros H; auto.
  - specialize (H 0). discriminate.
  - specialize (H 0). discriminate.
  - f_equal. + specialize (H 0). simpl in H. congruence.
    + apply IHl. intros j. apply (H (S j)).
Qed.

Lemma nth_error_combine_seq : forall A (l : list A) s j,
  nth_error (combine (seq s (List.length l)) l) j = option_map (fun a => (s + j, a)) (nth_error l j).
Proof.
  induction l; intros s j; simpl.
  - destruct j; reflexivity.
  - destruct j; simpl.
    + rewrite Nat.add_0_r. reflexivity.
    + rewrite IHl. rewrite Nat.add_succ_r. reflexivity.
Qed.

Lemma Forall2_length : forall A B (P : A -> B -> Prop) l l', Forall2 P l l' -> List.length l = List.length l'.
Proof. induction 1; simpl; auto. Qed.

Lemma append_nil_r_str : forall s : string, (s ++ "")%string = s.
Proof. induction s; simpl; congruence. Qed.

Definition covers (pi : list nat) (n : nat) : Prop := forall i, i < n -> In i pi.

Lemma perm_covers : forall pi n, Permutation pi (seq 0 n) -> covers pi n.
Proof.
  intros pi n P i Hi. apply Permutation_sym in P. eapply Permutation_in; [exact P|].
  apply in_seq. split; [apply Nat.le_0_l|exact Hi].
Qed.

Lemma existsb_eqb_in : forall j pi, existsb (Nat.eqb j) pi = true <-> In j pi.
Proof.
  intros. rewrite existsb_exists. split.
  - intros [x [Hin He]]. apply Nat.eqb_eq in He. subst. auto.
  - intros H. exists j. split; auto. apply Nat.eqb_refl.
Qed.

(* ---- the slots after any completion order --------------------------------------------- *)
Section Slots.
  Variable R : Type.
  Variable exec : nat -> task -> R.
  Variable tasks : list task.

  Let stepf (slots : list (option R)) (i : nat) : list (option R) :=
    match nth_error tasks i with
    | Some t => set_nth i (Some (exec i t)) slots
    | None => slots
    end.

  Lemma fold_slots_length : forall pi slots,
    List.length (fold_left stepf pi slots) = List.length slots.
  Proof.
    induction pi; intros; simpl; auto. rewrite IHpi. unfold stepf.
    destruct (nth_error tasks a); auto. apply set_nth_length.
  Qed.

  Lemma fold_slots_nth : forall pi slots j t,
    List.length slots = List.length tasks ->
    nth_error tasks j = Some t ->
    nth_error (fold_left stepf pi slots) j =
    if existsb (Nat.eqb j) pi then Some (Some (exec j t)) else nth_error slots j.
  Proof.
    induction pi; intros slots j t Hl Hj; simpl; auto.
    rewrite (IHpi _ j t); auto.
    - destruct (existsb (Nat.eqb j) pi) eqn:E.
      + rewrite orb_true_r. reflexivity.
      + rewrite orb_false_r. unfold stepf.
        destruct (Nat.eqb j a) eqn:Eja.
        * apply Nat.eqb_eq in Eja. subst a. rewrite Hj. rewrite nth_error_set_nth.
          rewrite Nat.eqb_refl. simpl.
          assert (j < List.length tasks) by (apply nth_error_Some; congruence).
          replace (Nat.ltb j (List.length slots)) with true; auto.
          symmetry. apply Nat.ltb_lt. rewrite Hl. exact H.
        * destruct (nth_error tasks a); auto. rewrite nth_error_set_nth.
          rewrite Nat.eqb_sym in Eja. rewrite Eja. reflexivity.
    - unfold stepf. destruct (nth_error tasks a); auto. rewrite set_nth_length. auto.
  Qed.

  (* every completion order that contains every task index leaves the same slots *)
  Lemma run_slots_any_order : forall pi,
    covers pi (List.length tasks) ->
    run_slots exec pi tasks =
    map (fun p => Some (exec (fst p) (snd p))) (combine (seq 0 (List.length tasks)) tasks).
  Proof.
    intros pi Hc. apply nth_error_ext_eq. intros j. unfold run_slots.
    change (fold_left _ pi (map (fun _ => None) tasks))
      with (fold_left stepf pi (map (fun _ : task => @None R) tasks)).
    rewrite nth_error_map. rewrite nth_error_combine_seq.
    destruct (nth_error tasks j) as [t|] eqn:Ej; simpl.
    - rewrite (fold_slots_nth pi _ j t); auto.
      + replace (existsb (Nat.eqb j) pi) with true; auto.
        symmetry. apply existsb_eqb_in. apply Hc. apply nth_error_Some. congruence.
      + apply map_length.
    - apply nth_error_None. rewrite fold_slots_length, map_length.
      apply nth_error_None. auto.
  Qed.
End Slots.

(* ---- the node ------------------------------------------------------------------------ *)
Section NodeProofs.
  Variable kind_of : string -> option tkind.
  Variable inv : string -> string -> tres.
  Variable str : string -> string -> sres.
  Variable handler : option (string -> string -> tres).

  Notation gen_task := (gen_task kind_of handler).
  Notation gen_tasks := (gen_tasks kind_of handler).
  Notation exec_invoke := (exec_invoke inv str).
  Notation exec_stream := (exec_stream inv str).
  Notation tools_invoke := (tools_invoke kind_of inv str handler).
  Notation tools_stream_open := (tools_stream_open kind_of inv str handler).

  (* what the tool named by a call answers on the call's arguments (Err = the name does not
     resolve: unknown and no handler) *)
  Definition answer (c : call) : res tres := res_map exec_invoke (gen_task c).
  Definition s_answer (c : call) : res sres := res_map exec_stream (gen_task c).

  Lemma gen_task_call : forall c t, gen_task c = Ok t -> task_call t = c.
  Proof.
    unfold Tools.gen_task. intros c t. destruct (kind_of (c_name c)).
    - intros H; inversion H; reflexivity.
    - destruct handler; intros H; inversion H; reflexivity.
  Qed.

  Lemma mapM_forall2 : forall calls tasks,
    res_mapM gen_task calls = Ok tasks -> Forall2 (fun c t => gen_task c = Ok t) calls tasks.
  Proof.
    induction calls; simpl; intros tasks H.
    - inversion H. constructor.
    - destruct (gen_task a) eqn:Ea; simpl in H; try discriminate.
      destruct (res_mapM gen_task calls) eqn:Er; simpl in H; try discriminate.
      inversion H; subst. constructor; auto.
  Qed.

  Lemma forall2_mapM : forall calls tasks,
    Forall2 (fun c t => gen_task c = Ok t) calls tasks -> res_mapM gen_task calls = Ok tasks.
  Proof.
    induction 1; simpl; auto. rewrite H, IHForall2. reflexivity.
  Qed.

  (* the scan of Invoke over the slots of the sequential order, as a function of the tasks *)
  Fixpoint scan_invoke (i : nat) (tasks : list task) : res (list tmsg) :=
    match tasks with
    | [] => Ok []
    | t :: r =>
        match recover_t i (exec_invoke t) with
        | TOk o => do rest <- scan_invoke (S i) r; Ok ((o, c_id (task_call t)) :: rest)
        | TErr e => Err e
        | TPanic => Panic
        end
    end.

  Lemma assemble_scan : forall tasks i,
    assemble_invoke
      (map (fun p => Some (recover_t (fst p) (exec_invoke (snd p)))) (combine (seq i (List.length tasks)) tasks))
      tasks = scan_invoke i tasks.
  Proof.
    induction tasks; intros i; simpl; auto.
    destruct (recover_t i (exec_invoke a)); auto. rewrite IHtasks. reflexivity.
  Qed.

  (* schedule independence of Invoke *)
  Lemma tools_invoke_any_order : forall pi role_ok calls,
    covers pi (List.length calls) ->
    tools_invoke pi role_ok calls = do tasks <- gen_tasks role_ok calls; scan_invoke 0 tasks.
  Proof.
    intros pi role_ok calls Hc. unfold Tools.tools_invoke.
    destruct (gen_tasks role_ok calls) as [tasks| |] eqn:Eg; simpl; auto.
    assert (Hl : List.length tasks = List.length calls).
    { unfold Tools.gen_tasks in Eg. destruct (negb role_ok); try discriminate.
      destruct calls; try discriminate. apply mapM_forall2 in Eg.
      symmetry. eapply Forall2_length; eauto. }
    rewrite run_slots_any_order by (rewrite Hl; auto).
    apply (assemble_scan tasks 0).
  Qed.

  Lemma scan_all_ok : forall tasks outs i,
    Forall2 (fun t o => exec_invoke t = TOk o) tasks outs ->
    scan_invoke i tasks = Ok (combine outs (map (fun t => c_id (task_call t)) tasks)).
  Proof.
    induction tasks; intros outs i H; inversion H; subst; simpl; auto.
    rewrite H2. destruct i; simpl; rewrite (IHtasks _ _ H4); reflexivity.
  Qed.

  Lemma scan_first_failure : forall pre t post outs i,
    Forall2 (fun t o => exec_invoke t = TOk o) pre outs ->
    scan_invoke i ((pre ++ t :: post)%list) =
    match recover_t (i + List.length pre) (exec_invoke t) with
    | TOk o => do rest <- scan_invoke (S (i + List.length pre)) post;
               Ok ((combine outs (map (fun t => c_id (task_call t)) pre) ++ (o, c_id (task_call t)) :: rest)%list)
    | TErr e => Err e
    | TPanic => Panic
    end.
  Proof.
    induction pre; intros t post outs i H; inversion H; subst; simpl.
    - rewrite Nat.add_0_r. reflexivity.
    - rewrite H2. assert (E : recover_t i (TOk y) = TOk y) by (destruct i; reflexivity).
      rewrite E. rewrite (IHpre t post _ (S i) H4).
      replace (S i + List.length pre) with (i + S (List.length pre)) by (rewrite Nat.add_succ_r; reflexivity).
      destruct (recover_t (i + S (List.length pre)) (exec_invoke t)); auto.
      destruct (scan_invoke (S (i + S (List.length pre))) post); reflexivity.
  Qed.

  Lemma answers_tasks : forall calls outs,
    Forall2 (fun c o => answer c = Ok (TOk o)) calls outs ->
    exists tasks, Forall2 (fun c t => gen_task c = Ok t) calls tasks
                  /\ Forall2 (fun t o => exec_invoke t = TOk o) tasks outs.
  Proof.
    induction 1.
    - exists []. split; constructor.
    - destruct IHForall2 as [ts [A B]]. unfold answer in H.
      destruct (gen_task x) as [t| |] eqn:Et; simpl in H; try discriminate.
      exists (t :: ts). split; constructor; auto. congruence.
  Qed.

  Lemma forall2_ids : forall calls tasks,
    Forall2 (fun c t => gen_task c = Ok t) calls tasks ->
    map (fun t => c_id (task_call t)) tasks = map c_id calls.
  Proof.
    induction 1; simpl; auto. rewrite IHForall2. rewrite (gen_task_call _ _ H). reflexivity.
  Qed.

  Lemma gen_tasks_ok : forall calls tasks,
    calls <> [] -> Forall2 (fun c t => gen_task c = Ok t) calls tasks -> gen_tasks true calls = Ok tasks.
  Proof.
    intros calls tasks Hne H. unfold Tools.gen_tasks. simpl.
    destruct calls; [congruence|]. apply forall2_mapM. auto.
  Qed.

  (* C17, first sentence: N messages, the i-th with the i-th call's id and its tool's output,
     for every completion order *)
  Theorem invoke_spec : forall pi calls outs,
    calls <> [] ->
    Permutation pi (seq 0 (List.length calls)) ->
    Forall2 (fun c o => answer c = Ok (TOk o)) calls outs ->
    tools_invoke pi true calls = Ok (combine outs (map c_id calls)).
  Proof.
    intros pi calls outs Hne P H.
    rewrite tools_invoke_any_order by (apply perm_covers; auto).
    destruct (answers_tasks _ _ H) as [tasks [A B]].
    rewrite (gen_tasks_ok _ _ Hne A). simpl.
    rewrite (scan_all_ok _ _ 0 B). rewrite (forall2_ids _ _ A). reflexivity.
  Qed.

  Lemma invoke_spec_length : forall calls outs,
    Forall2 (fun c o => answer c = Ok (TOk o)) calls outs ->
    List.length (combine outs (map c_id calls)) = List.length calls.
  Proof.
    intros calls outs H. rewrite combine_length, map_length.
    apply Forall2_length in H. rewrite H. apply Nat.min_id.
  Qed.

  Lemma resolves_tasks : forall calls,
    (forall c, In c calls -> exists r, answer c = Ok r) ->
    exists tasks, Forall2 (fun c t => gen_task c = Ok t) calls tasks.
  Proof.
    induction calls; intros H.
    - exists []. constructor.
    - destruct IHcalls as [ts A]. { intros c Hc. apply H. right; auto. }
      destruct (H a (or_introl eq_refl)) as [r Hr]. unfold answer in Hr.
      destruct (gen_task a) as [t| |] eqn:Et; simpl in Hr; try discriminate.
      exists (t :: ts). constructor; auto.
  Qed.

  Lemma forall2_app_inv : forall calls pre c post tasks,
    calls = (pre ++ c :: post)%list ->
    Forall2 (fun c t => gen_task c = Ok t) calls tasks ->
    exists tpre t tpost, tasks = (tpre ++ t :: tpost)%list
      /\ Forall2 (fun c t => gen_task c = Ok t) pre tpre /\ gen_task c = Ok t
      /\ List.length tpre = List.length pre.
  Proof.
    intros calls pre c post tasks E H. subst calls.
    apply Forall2_app_inv_l in H. destruct H as [tpre [rest [A [B C]]]].
    inversion B; subst. exists tpre, y, l'. repeat split; auto.
    symmetry. eapply Forall2_length; eauto.
  Qed.

  Lemma pre_ok_tasks : forall pre tpre outs,
    Forall2 (fun c t => gen_task c = Ok t) pre tpre ->
    Forall2 (fun c o => answer c = Ok (TOk o)) pre outs ->
    Forall2 (fun t o => exec_invoke t = TOk o) tpre outs.
  Proof.
    intros pre tpre outs A. revert outs. induction A; intros outs B; inversion B; subst; constructor.
    - unfold answer in H2. rewrite H in H2. simpl in H2. congruence.
    - apply IHA. auto.
  Qed.

  (* C17, failures: with every name resolving, the whole call fails with the error of the
     lowest failing index, for every completion order; a panic of call 0 (the inline task)
     escapes, a panic of a later call is reported as the panic error *)
  Theorem invoke_first_failure : forall pi calls pre c post outs r,
    Permutation pi (seq 0 (List.length calls)) ->
    calls = (pre ++ c :: post)%list ->
    (forall c', In c' calls -> exists r', answer c' = Ok r') ->
    Forall2 (fun c o => answer c = Ok (TOk o)) pre outs ->
    answer c = Ok r ->
    (forall o, r <> TOk o) ->
    tools_invoke pi true calls =
    match r with
    | TErr e => Err e
    | _ => match pre with [] => Panic | _ => Err E_PANIC end
    end.
  Proof.
    intros pi calls pre c post outs r P E Hres Hpre Hc Hr.
    rewrite tools_invoke_any_order by (apply perm_covers; auto).
    destruct (resolves_tasks _ Hres) as [tasks A].
    assert (Hne : calls <> []) by (subst; destruct pre; discriminate).
    rewrite (gen_tasks_ok _ _ Hne A). simpl.
    destruct (forall2_app_inv _ _ _ _ _ E A) as [tpre [t [tpost [Et [Apre [At Hl]]]]]].
    subst tasks. rewrite (scan_first_failure _ _ _ outs 0 (pre_ok_tasks _ _ _ Apre Hpre)).
    assert (Hex : exec_invoke t = r).
    { unfold answer in Hc. rewrite At in Hc. simpl in Hc. congruence. }
    simpl. rewrite Hl, Hex. destruct r.
    - exfalso. eapply Hr; eauto.
    - destruct (List.length pre); reflexivity.
    - destruct pre; simpl; reflexivity.
  Qed.

  (* unknown tool name *)
  Lemma mapM_unknown : forall calls c,
    In c calls -> gen_task c = Err E_UNKNOWN ->
    (forall c', In c' calls -> gen_task c' <> Panic /\ forall e, gen_task c' = Err e -> e = E_UNKNOWN) ->
    res_mapM gen_task calls = Err E_UNKNOWN.
  Proof.
    induction calls; intros c Hin Hc Hall; [inversion Hin|]. simpl.
    destruct (gen_task a) as [t|e|] eqn:Ea; simpl.
    - destruct Hin as [->|Hin]; [congruence|].
      rewrite (IHcalls c Hin Hc). reflexivity. intros c' H'. apply Hall. right; auto.
    - f_equal. apply (proj2 (Hall a (or_introl eq_refl))). auto.
    - exfalso. apply (proj1 (Hall a (or_introl eq_refl))). auto.
  Qed.

  Lemma gen_task_cases : forall c, gen_task c <> Panic /\ forall e, gen_task c = Err e -> e = E_UNKNOWN.
  Proof.
    intros c. unfold Tools.gen_task. destruct (kind_of (c_name c)); [split; [discriminate|discriminate]|].
    destruct handler; split; try discriminate. intros e H. inversion H. reflexivity.
  Qed.

  Theorem unknown_without_handler : forall pi calls c,
    In c calls -> kind_of (c_name c) = None -> handler = None ->
    tools_invoke pi true calls = Err E_UNKNOWN
    /\ tools_stream_open pi true calls = Err E_UNKNOWN
    /\ tools_executed kind_of handler true calls = [].
  Proof.
    intros pi calls c Hin Hk Hh.
    assert (G : gen_tasks true calls = Err E_UNKNOWN).
    { unfold Tools.gen_tasks. simpl. destruct calls; [inversion Hin|].
      apply (mapM_unknown _ c Hin).
      - unfold Tools.gen_task. rewrite Hk, Hh. reflexivity.
      - intros c' _. apply gen_task_cases. }
    unfold Tools.tools_invoke, Tools.tools_stream_open, tools_executed. rewrite G. auto.
  Qed.

  Theorem unknown_with_handler : forall c h,
    kind_of (c_name c) = None -> handler = Some h ->
    answer c = Ok (h (c_name c) (c_args c)).
  Proof.
    intros c h Hk Hh. unfold answer, Tools.gen_task. rewrite Hk, Hh. reflexivity.
  Qed.

  (* a known tool is answered by that tool on the call's arguments *)
  Theorem answer_known : forall c k,
    kind_of (c_name c) = Some k ->
    answer c = Ok (match k with
                   | KStr => invoke_by_stream (str (c_name c) (c_args c))
                   | _ => inv (c_name c) (c_args c)
                   end).
  Proof.
    intros c k Hk. unfold answer, Tools.gen_task. rewrite Hk. destruct k; reflexivity.
  Qed.

  (* every call is executed exactly once when the message is accepted *)
  Lemma executed_all : forall calls tasks,
    gen_tasks true calls = Ok tasks -> tools_executed kind_of handler true calls = calls.
  Proof. intros calls tasks H. unfold tools_executed. rewrite H. reflexivity. Qed.

  (* ---- the streamed form ---- *)
  Fixpoint scan_stream (i : nat) (tasks : list task) : res (list tstream) :=
    match tasks with
    | [] => Ok []
    | t :: r =>
        match recover_s i (exec_stream t) with
        | SOk cs tl => do rest <- scan_stream (S i) r; Ok ((c_id (task_call t), cs, tl) :: rest)
        | SErr e => Err e
        | SPanic => Panic
        end
    end.

  Lemma assemble_scan_stream : forall tasks i,
    assemble_stream
      (map (fun p => Some (recover_s (fst p) (exec_stream (snd p)))) (combine (seq i (List.length tasks)) tasks))
      tasks = scan_stream i tasks.
  Proof.
    induction tasks; intros i; simpl; auto.
    destruct (recover_s i (exec_stream a)); auto. rewrite IHtasks. reflexivity.
  Qed.

  Lemma tools_stream_any_order : forall pi role_ok calls,
    covers pi (List.length calls) ->
    tools_stream_open pi role_ok calls = do tasks <- gen_tasks role_ok calls; scan_stream 0 tasks.
  Proof.
    intros pi role_ok calls Hc. unfold Tools.tools_stream_open.
    destruct (gen_tasks role_ok calls) as [tasks| |] eqn:Eg; simpl; auto.
    assert (Hl : List.length tasks = List.length calls).
    { unfold Tools.gen_tasks in Eg. destruct (negb role_ok); try discriminate.
      destruct calls; try discriminate. apply mapM_forall2 in Eg.
      symmetry. eapply Forall2_length; eauto. }
    rewrite run_slots_any_order by (rewrite Hl; auto).
    apply (assemble_scan_stream tasks 0).
  Qed.

  Definition mk_streams (ids : list string) (css : list (list string)) : list tstream :=
    map (fun p => (fst p, snd p, @None N)) (combine ids css).

  Lemma scan_stream_all_ok : forall tasks css i,
    Forall2 (fun t cs => exec_stream t = SOk cs None) tasks css ->
    scan_stream i tasks = Ok (mk_streams (map (fun t => c_id (task_call t)) tasks) css).
  Proof.
    induction tasks; intros css i H; inversion H; subst; simpl; auto.
    rewrite H2. assert (E : recover_s i (SOk y None) = SOk y None) by (destruct i; reflexivity).
    rewrite E. rewrite (IHtasks _ _ H4). reflexivity.
  Qed.

  Lemma s_answers_tasks : forall calls css,
    Forall2 (fun c cs => s_answer c = Ok (SOk cs None) /\ cs <> []) calls css ->
    exists tasks, Forall2 (fun c t => gen_task c = Ok t) calls tasks
                  /\ Forall2 (fun t cs => exec_stream t = SOk cs None) tasks css.
  Proof.
    induction 1.
    - exists []. split; constructor.
    - destruct IHForall2 as [ts [A B]]. destruct H as [H _]. unfold s_answer in H.
      destruct (gen_task x) as [t| |] eqn:Et; simpl in H; try discriminate.
      exists (t :: ts). split; constructor; auto. congruence.
  Qed.

  (* completion order does not matter at all *)
  Theorem schedule_independent : forall pi pi' role_ok calls,
    Permutation pi (seq 0 (List.length calls)) -> Permutation pi' (seq 0 (List.length calls)) ->
    tools_invoke pi role_ok calls = tools_invoke pi' role_ok calls
    /\ tools_stream_open pi role_ok calls = tools_stream_open pi' role_ok calls.
  Proof.
    intros pi pi' role_ok calls P P'. split.
    - rewrite !tools_invoke_any_order by (apply perm_covers; auto). reflexivity.
    - rewrite !tools_stream_any_order by (apply perm_covers; auto). reflexivity.
  Qed.

  (* a panicking tool (all earlier calls fine) inside a graph run: the run fails with the panic error *)
  Theorem panic_is_error_in_graph : forall pi calls pre c post outs,
    Permutation pi (seq 0 (List.length calls)) ->
    calls = (pre ++ c :: post)%list ->
    (forall c', In c' calls -> exists r', answer c' = Ok r') ->
    Forall2 (fun c o => answer c = Ok (TOk o)) pre outs ->
    answer c = Ok TPanic ->
    in_graph (tools_invoke pi true calls) = Err E_PANIC.
  Proof.
    intros pi calls pre c post outs P E Hres Hpre Hc.
    rewrite (invoke_first_failure pi calls pre c post outs TPanic P E Hres Hpre Hc) by discriminate.
    destruct pre; reflexivity.
  Qed.

  (* a panicking tool inside a graph run: an error, never a panic *)
  Theorem panic_contained : forall pi role_ok calls,
    in_graph (tools_invoke pi role_ok calls) <> Panic
    /\ in_graph (tools_stream_open pi role_ok calls) <> Panic.
  Proof.
    intros. split.
    - destruct (tools_invoke pi role_ok calls); simpl; discriminate.
    - destruct (tools_stream_open pi role_ok calls); simpl; discriminate.
  Qed.
End NodeProofs.

(* ---- the merged stream: every complete interleaving projects to the sources ------------- *)
Definition chunks_at (j : nat) (srcs : list (list string * option N)) : list string :=
  match nth_error srcs j with Some s => fst s | None => [] end.

Definition tails_none (srcs : list (list string * option N)) : Prop :=
  forall s, In s srcs -> snd s = None.

Lemma in_set_nth : forall A i (a : A) l x, In x (set_nth i a l) -> x = a \/ In x l.
Proof.
  induction i; destruct l; simpl; intros x H; auto.
  - destruct H; auto.
  - destruct H; auto. apply IHi in H. destruct H; auto.
Qed.

Lemma proj_cons : forall i c em j,
  proj j ((i, c) :: em) = if Nat.eqb i j then c :: proj j em else proj j em.
Proof. intros. unfold proj. simpl. destruct (Nat.eqb i j); reflexivity. Qed.

Lemma chunks_at_set_nth : forall i rest tl srcs j s,
  nth_error srcs i = Some s ->
  chunks_at j (set_nth i (rest, tl) srcs) = if Nat.eqb i j then rest else chunks_at j srcs.
Proof.
  intros. unfold chunks_at. rewrite nth_error_set_nth.
  assert (i < List.length srcs) by (apply nth_error_Some; congruence).
  replace (Nat.ltb i (List.length srcs)) with true by (symmetry; apply Nat.ltb_lt; auto).
  rewrite andb_true_r. destruct (Nat.eqb i j); reflexivity.
Qed.

Lemma merge_proj : forall sched srcs,
  tails_none srcs ->
  snd (merge_run sched srcs) = None
  /\ forall j, (proj j (fst (merge_run sched srcs)) ++ chunks_at j (merge_rest sched srcs))%list
               = chunks_at j srcs.
Proof.
  induction sched as [|i sched IH]; intros srcs Ht; simpl.
  - split; auto.
  - destruct (nth_error srcs i) as [[[|c rest] tl]|] eqn:Ei.
    + assert (tl = None). { apply nth_error_In in Ei. apply (Ht _ Ei). }
      subst tl. apply IH. auto.
    + assert (Ht' : tails_none (set_nth i (rest, tl) srcs)).
      { intros s Hs. apply in_set_nth in Hs. destruct Hs as [->|Hs]; auto.
        simpl. apply nth_error_In in Ei. apply (Ht _ Ei). }
      destruct (IH _ Ht') as [F P].
      destruct (merge_run sched (set_nth i (rest, tl) srcs)) as [em fin] eqn:Em. simpl in *.
      split; auto. intros j. rewrite proj_cons. specialize (P j).
      rewrite (chunks_at_set_nth _ _ _ _ _ _ Ei) in P.
      destruct (Nat.eqb i j) eqn:Eij.
      * apply Nat.eqb_eq in Eij. subst j. simpl. rewrite P.
        unfold chunks_at. rewrite Ei. reflexivity.
      * exact P.
    + apply IH. auto.
Qed.

Lemma drained_chunks : forall srcs j, drained srcs = true -> chunks_at j srcs = [].
Proof.
  intros srcs j H. unfold chunks_at. destruct (nth_error srcs j) as [s|] eqn:E; auto.
  unfold drained in H. rewrite forallb_forall in H. apply nth_error_In in E.
  specialize (H _ E). destruct s as [[|] [|]]; try discriminate. reflexivity.
Qed.

(* a complete interleaving delivers, per position, exactly that source's chunks in order *)
Lemma merge_complete : forall sched srcs,
  tails_none srcs -> drained (merge_rest sched srcs) = true ->
  snd (merge_run sched srcs) = None
  /\ forall j, proj j (fst (merge_run sched srcs)) = chunks_at j srcs.
Proof.
  intros sched srcs Ht Hd. destruct (merge_proj sched srcs Ht) as [F P]. split; auto.
  intros j. rewrite <- (P j). rewrite (drained_chunks _ j Hd). rewrite app_nil_r. reflexivity.
Qed.

Lemma concat_pos_map : forall (em : list emitted) (ids : list string) (css : list (list string)) s,
  List.length ids = List.length css ->
  (forall k cs, nth_error css k = Some cs -> proj (s + k) em = cs /\ cs <> []) ->
  map (fun p => match proj (fst p) em with
                | [] => None
                | cs => Some (concat_strings cs, snd p)
                end) (combine (seq s (List.length ids)) ids)
  = map (fun p => Some (concat_strings (snd p), fst p)) (combine ids css).
Proof.
  intros em. induction ids; intros css s Hl H; destruct css; simpl in *; try discriminate; auto.
  destruct (H 0 l eq_refl) as [Hp Hne]. rewrite Nat.add_0_r in Hp. rewrite Hp.
  f_equal.
  - destruct l; [congruence|reflexivity].
  - apply IHids; [injection Hl; auto|]. intros k cs Hk. specialize (H (S k) cs Hk).
    rewrite Nat.add_succ_r in H. exact H.
Qed.

Lemma concat_pos_full : forall (em : list emitted) (ids : list string) (css : list (list string)),
  List.length ids = List.length css -> css <> [] ->
  (forall k cs, nth_error css k = Some cs -> proj k em = cs /\ cs <> []) ->
  concat_pos ids em = Ok (map (fun p => Some (concat_strings (snd p), fst p)) (combine ids css)).
Proof.
  intros em ids css Hl Hne H. unfold concat_pos.
  pose proof (concat_pos_map em ids css 0 Hl H) as M.
  destruct em as [|e em'].
  - exfalso. destruct css as [|cs css']; [congruence|].
    destruct (H 0 cs eq_refl) as [Hp Hn]. unfold proj in Hp. simpl in Hp. congruence.
  - f_equal. exact M.
Qed.

Lemma stream_ids_mk : forall ids css, List.length ids = List.length css -> stream_ids (mk_streams ids css) = ids.
Proof.
  unfold stream_ids, mk_streams. induction ids; destruct css; simpl; intros H; try discriminate; auto.
  f_equal. apply IHids. injection H; auto.
Qed.

Lemma stream_srcs_mk : forall ids css, List.length ids = List.length css ->
  stream_srcs (mk_streams ids css) = map (fun cs => (cs, @None N)) css.
Proof.
  unfold stream_srcs, mk_streams. induction ids; destruct css; simpl; intros H; try discriminate; auto.
  f_equal. apply IHids. injection H; auto.
Qed.

Lemma chunks_at_map : forall css k, chunks_at k (map (fun cs => (cs, @None N)) css) =
  match nth_error css k with Some cs => cs | None => [] end.
Proof. intros. unfold chunks_at. rewrite nth_error_map. destruct (nth_error css k); reflexivity. Qed.

Section StreamConcat.
  Variable kind_of : string -> option tkind.
  Variable inv : string -> string -> tres.
  Variable str : string -> string -> sres.
  Variable handler : option (string -> string -> tres).

  (* C17, streamed form: whatever the completion order of the calls and whatever complete
     interleaving of the tool streams the merge produces, if every call's tool streams a
     non-empty chunk list without error item, the position-wise concatenation of the merged
     stream is the list  [ (concatenation of call i's chunks, id of call i) ]_i *)
  Theorem stream_concat : forall pi calls css,
    calls <> [] ->
    Permutation pi (seq 0 (List.length calls)) ->
    Forall2 (fun c cs => s_answer kind_of inv str handler c = Ok (SOk cs None) /\ cs <> []) calls css ->
    exists ss,
      tools_stream_open kind_of inv str handler pi true calls = Ok ss
      /\ forall sched,
           drained (merge_rest sched (stream_srcs ss)) = true ->
           snd (merge_run sched (stream_srcs ss)) = None
           /\ concat_pos (stream_ids ss) (fst (merge_run sched (stream_srcs ss)))
              = Ok (map (fun p => Some (concat_strings (snd p), fst p)) (combine (map c_id calls) css)).
  Proof.
    intros pi calls css Hne P H.
    destruct (s_answers_tasks _ _ _ _ _ _ H) as [tasks [A B]].
    exists (mk_streams (map c_id calls) css). split.
    - rewrite tools_stream_any_order by (apply perm_covers; auto).
      rewrite (gen_tasks_ok _ _ _ _ Hne A). simpl.
      rewrite (scan_stream_all_ok _ _ _ _ _ B). rewrite (forall2_ids _ _ _ _ A). reflexivity.
    - intros sched Hd.
      assert (Hl : List.length (map c_id calls) = List.length css).
      { rewrite map_length. eapply Forall2_length; eauto. }
      rewrite stream_srcs_mk in * by auto. rewrite stream_ids_mk by auto.
      assert (Ht : tails_none (map (fun cs => (cs, @None N)) css)).
      { intros s Hs. apply in_map_iff in Hs. destruct Hs as [cs [<- _]]. reflexivity. }
      destruct (merge_complete sched _ Ht Hd) as [F Pj]. split; auto.
      apply concat_pos_full; auto.
      + intro E. subst css. inversion H. subst. congruence.
      + intros k cs Hk. split.
        * rewrite Pj. rewrite chunks_at_map. rewrite Hk. reflexivity.
        * clear - H Hk. revert k Hk. induction H; intros k Hk; destruct k; simpl in Hk; try discriminate.
          -- inversion Hk; subst. tauto.
          -- eapply IHForall2; eauto.
  Qed.

  (* ... and that list is the Invoke answer when each tool's streamed chunks concatenate to
     what it returns when invoked (automatic for invokable-only and streamable-only tools) *)
  Theorem stream_concat_eq_invoke : forall pi pi' calls css,
    calls <> [] ->
    Permutation pi (seq 0 (List.length calls)) ->
    Permutation pi' (seq 0 (List.length calls)) ->
    Forall2 (fun c cs => s_answer kind_of inv str handler c = Ok (SOk cs None) /\ cs <> []) calls css ->
    Forall2 (fun c cs => answer kind_of inv str handler c = Ok (TOk (concat_strings cs))) calls css ->
    exists ss msgs,
      tools_stream_open kind_of inv str handler pi true calls = Ok ss
      /\ tools_invoke kind_of inv str handler pi' true calls = Ok msgs
      /\ List.length msgs = List.length calls
      /\ forall sched,
           drained (merge_rest sched (stream_srcs ss)) = true ->
           concat_pos (stream_ids ss) (fst (merge_run sched (stream_srcs ss))) = Ok (map Some msgs).
  Proof.
    intros pi pi' calls css Hne P P' Hs Hi.
    destruct (stream_concat pi calls css Hne P Hs) as [ss [Ho Hc]].
    assert (Hi' : Forall2 (fun c o => answer kind_of inv str handler c = Ok (TOk o)) calls (map concat_strings css)).
    { clear - Hi. induction Hi; simpl; constructor; auto. }
    exists ss, (combine (map concat_strings css) (map c_id calls)). repeat split; auto.
    - apply invoke_spec; auto.
    - apply (invoke_spec_length kind_of inv str handler _ _ Hi').
    - intros sched Hd. destruct (Hc sched Hd) as [_ E]. rewrite E. apply f_equal. clear.
      generalize (map c_id calls) as ids. induction css; intros ids; destruct ids; simpl; auto.
      apply f_equal. apply IHcss.
  Qed.

  (* invokable-only and streamable-only tools, and handler tasks, are consistent by construction *)
  Lemma derived_consistent : forall c cs,
    s_answer kind_of inv str handler c = Ok (SOk cs None) -> cs <> [] ->
    kind_of (c_name c) <> Some KBoth ->
    answer kind_of inv str handler c = Ok (TOk (concat_strings cs)).
  Proof.
    intros c cs Hs Hne Hk. unfold s_answer, answer, gen_task in *.
    destruct (kind_of (c_name c)) as [[| |]|] eqn:Ek; simpl in *.
    - destruct (inv (c_name c) (c_args c)); simpl in Hs; inversion Hs; subst. simpl.
      rewrite append_nil_r_str. reflexivity.
    - inversion Hs as [Hs']. rewrite Hs'. simpl. destruct cs; [congruence|reflexivity].
    - congruence.
    - destruct handler as [h|]; simpl in *; try discriminate.
      destruct (h (c_name c) (c_args c)); simpl in Hs; inversion Hs; subst. simpl.
      rewrite append_nil_r_str. reflexivity.
  Qed.
End StreamConcat.
