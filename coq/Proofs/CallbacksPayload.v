(* Proofs/CallbacksPayload.v — every handler invocation carries the payload of the On call that
   made it; in a graph run (every schedule, every reordering) the start invocations of a unit
   carry what the unit consumes, its end invocations what it produced, its error invocations the
   error it ended with. *)
From Coq Require Import List Arith Lia Bool NArith.
From Eino Require Import Base.Util Base.GoSlice Model.Callbacks Model.CallbacksSched Model.CallbacksEager
  Model.CallbacksPayload.
From Eino Require Import Proofs.CallbacksSlice Proofs.Callbacks Proofs.CallbacksEngine Proofs.CallbacksSched
  Proofs.CallbacksEager.
Import ListNotations.

(* a step only appends to the log, and what it appends are invocations for the unit and with the
   timing of the On it executes *)
Lemma step_log fixed w st o :
  exists d, st_log (step fixed w st o) = st_log st ++ d /\
            forall e, In e d -> exists u t, o = OOn u t /\ ev_unit e = u /\ ev_timing e = t.
Proof.
  destruct o as [new inf o0 hs spare | parent new inf opts | p new inf | v t | src new inf lo hi]; simpl.
  - destruct (alloc_slice (st_heap st) o0 hs spare) as [h1 s]. simpl. exists []. rewrite app_nil_r. split; auto. intros e [].
  - destruct (match parent with None => Some None | Some p => lookup p (st_ctxs st) end) as [c|];
      [|exists []; rewrite app_nil_r; split; auto; intros e []].
    destruct (build_cbs (w_pol w) (st_heap st) opts) as [h1 cbs].
    destruct (append_handlers fixed w h1 c inf cbs) as [h2 c']. simpl.
    exists []. rewrite app_nil_r. split; auto. intros e [].
  - destruct (lookup p (st_ctxs st)); simpl; exists []; rewrite app_nil_r; (split; [auto|intros e []]).
  - destruct (lookup v (st_ctxs st)) as [[m|]|]; simpl.
    + destruct (on_handlers fixed w (st_heap st) m t) as [h1 l]. simpl.
      exists (events_of v t (m_info m) l). split; auto.
      intros e He. exists v, t. split; auto. unfold events_of in He. apply in_map_iff in He.
      destruct He as (x & <- & _). auto.
    + exists []. rewrite app_nil_r. split; auto. intros e [].
    + exists []. rewrite app_nil_r. split; auto. intros e [].
  - assert (B : exists d, st_log (set_bad st) = st_log st ++ d /\
                  forall e, In e d -> exists u t, OAlias src new inf lo hi = OOn u t /\ ev_unit e = u /\ ev_timing e = t).
    { exists []. simpl. rewrite app_nil_r. split; auto. intros e []. }
    destruct (lookup src (st_ctxs st)) as [[m|]|]; auto.
    destruct ((lo <=? hi)%nat && (hi <=? len (m_handlers m))%nat); auto.
Qed.

Lemma skipn_app_length {A} (l d : list A) : skipn (List.length l) (l ++ d) = d.
Proof. induction l; simpl; auto. Qed.

Lemma prun_app fixed w a b ps :
  fold_left (pstep fixed w) (a ++ b) ps = fold_left (pstep fixed w) b (fold_left (pstep fixed w) a ps).
Proof. apply fold_left_app. Qed.

(* forgetting the payloads gives back the run of the operations *)
Lemma prun_from_erase fixed w pops : forall ps,
  p_st (fold_left (pstep fixed w) pops ps) = run_from fixed w (p_st ps) (map fst pops) /\
  (map fst (p_log ps) = st_log (p_st ps) ->
   map fst (p_log (fold_left (pstep fixed w) pops ps)) = st_log (run_from fixed w (p_st ps) (map fst pops))).
Proof.
  induction pops as [|po pops IH]; intros ps; simpl; [split; auto|].
  destruct (IH (pstep fixed w ps po)) as (IH1 & IH2). simpl in IH1, IH2.
  split; [exact IH1|]. intros E. apply IH2.
  destruct (step_log fixed w (p_st ps) (fst po)) as (d & Ed & _).
  rewrite map_app, E, Ed, skipn_app_length, map_map. simpl. now rewrite map_id.
Qed.

Theorem plog_erases fixed w pops :
  map fst (p_log (prun fixed w pops)) = st_log (run_script fixed w (map fst pops)).
Proof. unfold prun, run_script. now apply (prun_from_erase fixed w pops pstate0). Qed.

(* every invocation carries the payload of an On call, for that call's unit and timing *)
Lemma prun_from_delivered fixed w pops : forall done ps,
  (forall e p, In (e, p) (p_log ps) -> exists u t, In (OOn u t, p) done /\ ev_unit e = u /\ ev_timing e = t) ->
  forall e p, In (e, p) (p_log (fold_left (pstep fixed w) pops ps)) ->
    exists u t, In (OOn u t, p) (done ++ pops) /\ ev_unit e = u /\ ev_timing e = t.
Proof.
  induction pops as [|po pops IH]; intros done ps H e p Hin; simpl in *.
  - rewrite app_nil_r. auto.
  - replace (done ++ po :: pops) with ((done ++ [po]) ++ pops) by (rewrite <- app_assoc; reflexivity).
    apply (IH (done ++ [po]) (pstep fixed w ps po)); auto.
    intros e' p' Hin'. simpl in Hin'. apply in_app_or in Hin'. destruct Hin' as [Hin'|Hin'].
    + destruct (H e' p' Hin') as (u & t & I & Hu & Ht). exists u, t. split; auto. apply in_or_app. auto.
    + destruct (step_log fixed w (p_st ps) (fst po)) as (d & Ed & Hd).
      rewrite Ed, skipn_app_length in Hin'. apply in_map_iff in Hin'.
      destruct Hin' as (e0 & E0 & He0). injection E0 as <- <-.
      destruct (Hd e0 He0) as (u & t & Eo & Hu & Ht).
      exists u, t. split; auto. apply in_or_app. right. left.
      destruct po as [o pp]. simpl in *. now subst.
Qed.

Theorem payload_delivered fixed w pops e p :
  In (e, p) (p_log (prun fixed w pops)) ->
  exists u t, In (OOn u t, p) pops /\ ev_unit e = u /\ ev_timing e = t.
Proof.
  intros H. apply (prun_from_delivered fixed w pops [] pstate0); auto.
  intros e' p' [].
Qed.

(* ---------------------------------------------------------------- graph runs *)

Lemma in_map_annot u t p l : In (OOn u t, p) (map annot l) -> p = payload_of u t.
Proof.
  rewrite in_map_iff. intros (o & E & _). destruct o; simpl in E; try discriminate.
  injection E as -> -> <-. reflexivity.
Qed.

(* whatever the order of the operations: every invocation for unit u with timing t carries the
   payload runWithCallbacks / runner.run hands to that On: what u consumes at a start timing,
   what it produced at an end timing, its error at the error timing *)
Theorem annotated_payloads w (t : list op) e p :
  In (e, p) (p_log (prun true w (map annot t))) -> p = payload_of (ev_unit e) (ev_timing e).
Proof.
  intros H. destruct (payload_delivered _ _ _ _ _ H) as (u & tm & I & <- & <-).
  eapply in_map_annot; eauto.
Qed.

Lemma map_fst_annot l : map fst (map annot l) = l.
Proof. induction l as [|o l IH]; simpl; auto. now rewrite IH. Qed.

(* the annotated log is the log, every event with the payload its unit and timing determine *)
Theorem annotated_log w (t : list op) :
  p_log (prun true w (map annot t)) =
    map (fun e => (e, payload_of (ev_unit e) (ev_timing e))) (st_log (run_script true w t)).
Proof.
  pose proof (plog_erases true w (map annot t)) as E. rewrite map_fst_annot in E.
  rewrite <- E. rewrite map_map.
  assert (G : forall l : list (event * payload),
            (forall e p, In (e, p) l -> p = payload_of (ev_unit e) (ev_timing e)) ->
            l = map (fun x => (fst x, payload_of (ev_unit (fst x)) (ev_timing (fst x)))) l).
  { induction l as [|[e p] l IH]; simpl; intros H; auto.
    rewrite <- IH by (intros; apply H; auto). f_equal. f_equal. apply H. auto. }
  apply G. intros e p. apply annotated_payloads.
Qed.

(* per unit: the payload-carrying events of a unit of a graph run, in every schedule of the
   tree and every reordering of it *)
Theorem engine_unit_payloads w is_stream g ginf opts stages t0 t :
  NoDup (g :: stages_uids stages) ->
  traces (graph_prog is_stream g ginf opts stages) t0 -> reorder t0 t ->
  forall e, In e (graph_table is_stream g ginf opts stages) ->
    filter (fun x => of_unit (ue_unit e) (fst x)) (p_log (prun true w (map annot t))) =
    map (fun ev => (ev, payload_of (ue_unit e) (ev_timing ev))) (uexp_events w e).
Proof.
  intros N T Hr e He. rewrite annotated_log.
  rewrite <- (eager_unit_logs w is_stream g ginf opts stages t0 t N T Hr e He).
  induction (st_log (run_script true w t)) as [|ev l IH]; simpl; auto.
  destruct (of_unit (ue_unit e) ev) eqn:E; simpl; rewrite ?IH; auto.
  f_equal. f_equal. f_equal. unfold of_unit in E. now apply N.eqb_eq in E.
Qed.
