(* Proofs/GenAgreeC05Stream.v — property C05, translator tie for the stream <-> value conversion of checkpointed
   data: the five functions tools/go2v (extractor "cpstream") re-reads from compose/stream_concat.go,
   generic_helper.go and checkpoint.go on every run (Gen/CheckpointStream.v) ARE the functions of
   Model/CheckpointStream.v; and about those: a checkpointed value written by a run of one paradigm and read by a
   run of another denotes, up to concatenation, what it denoted when the run was interrupted
   ([paradigm_roundtrip_l]; [paradigm_roundtrip_v0_refuted_l]: not so before fb04a24). *)
From Eino Require Import Base.Util Model.CheckpointStreamLib Model.CheckpointStream.
From Eino Require Gen.CheckpointStream.
Open Scope N_scope.

Section Agree.
  Variable V : Type.
  Variable concat_items : list (option V) -> res (option V).

  Theorem gen_concat_reader_agrees : forall items,
    Gen.CheckpointStream.concat_reader V concat_items items = m_concat_reader V concat_items items.
  Proof.
    intros items. first [ reflexivity | destruct items as [|c [|c' l]]; reflexivity ].
  Qed.

  Theorem gen_concat_stream_agrees : forall items,
    Gen.CheckpointStream.concat_stream V concat_items items = m_concat_stream V concat_items items.
  Proof.
    intros items. first [ reflexivity |
      unfold Gen.CheckpointStream.concat_stream, m_concat_stream; rewrite gen_concat_reader_agrees;
      destruct (m_concat_reader V concat_items items) as [|[x|]|e]; reflexivity ].
  Qed.

  Theorem gen_restore_stream_agrees : forall a,
    Gen.CheckpointStream.restore_stream V a = m_restore_stream V a.
  Proof. intros [| |x|items]; reflexivity. Qed.

  Theorem gen_convert_entry_agrees : forall isStream v,
    Gen.CheckpointStream.convert_entry V concat_items isStream v = m_convert_entry V concat_items isStream v.
  Proof.
    intros isStream v. first [ reflexivity |
      unfold Gen.CheckpointStream.convert_entry, m_convert_entry; destruct isStream; simpl;
      [ destruct v; try reflexivity; apply gen_concat_stream_agrees | destruct v; reflexivity ] ].
  Qed.

  Theorem gen_restore_entry_agrees : forall isStream v,
    Gen.CheckpointStream.restore_entry V isStream v = m_restore_entry V isStream v.
  Proof.
    intros isStream v. first [ reflexivity |
      unfold Gen.CheckpointStream.restore_entry, m_restore_entry; destruct isStream; simpl;
      [ rewrite gen_restore_stream_agrees; reflexivity | destruct v; reflexivity ] ].
  Qed.
End Agree.

(* Every wrapper of the stream converter (convertInputs, restoreInputs, convertOutputs, restoreOutputs) hands every entry -
   pending inputs AND channel values, on the way into the checkpoint and out of it - to convert / restore with the run's
   own paradigm on every path: [convert_entry] / [restore_entry] above are what happens to EVERY checkpointed entry, which is
   how [paradigm_roundtrip] reads them. Not so before 57995e9 (F-C05h): restoreOutputs returned early for a run without
   streams, so the nilChunk markers of channel values were never turned back into nil (the extractor then yields
   (true, true, true, false)). *)
Theorem gen_wrappers_reach_entry : Gen.CheckpointStream.wrappers_reach_entry = (true, true, true, true).
Proof. reflexivity. Qed.
