(* Proofs/FieldMapRun.v — from the single assignment to whole runs: what Compile accepts
   (overlap check + static validation) and what the request-time checkers let through is
   exactly what [convert_to_spec] needs; hence Invoke and Stream through accepted field
   mappings never panic and deliver the mapped values. *)
From Coq Require Import Permutation.
From Eino Require Import Base.Util Base.FMUniverse Model.FieldMap Proofs.FieldMapOverlap
  Proofs.FieldMapAssign Proofs.FieldMapComm Proofs.FieldMapGetPut.

(* ------------------------------------------------------------ types *)

Lemma ty_eqb_eq : forall a b, ty_eqb a b = true -> a = b.
Proof.
  induction a; destruct b; simpl; intro H; try discriminate; try reflexivity.
  - apply N.eqb_eq in H. subst. reflexivity.
  - f_equal. auto.
  - apply andb_true_iff in H. destruct H as [H1 H2]. apply Bool.eqb_prop in H1. subst. f_equal. auto.
Qed.

Lemma ty_eqb_refl : forall a, ty_eqb a a = true.
Proof. induction a; simpl; auto. - apply N.eqb_refl. - rewrite Bool.eqb_reflx. simpl. exact IHa. Qed.

Lemma slot_ok_check_value : forall t x, slot_ok t x = true -> check_value t x = true.
Proof.
  intros t x H. unfold slot_ok, check_value in *. destruct (dyn x); [exact H|].
  apply ty_eqb_eq in H. subst. reflexivity.
Qed.

Lemma has_type_any : forall env x, wfv env x = true -> has_type env TAny x = true.
Proof.
  intros env x H. unfold has_type. rewrite H, andb_true_r. unfold slot_ok.
  destruct (dyn x); [unfold assignable; apply orb_true_r | reflexivity].
Qed.

Lemma has_type_zero : forall env t, has_type env t (zero t) = true.
Proof.
  intros env t. unfold has_type, slot_ok, assignable.
  destruct t; simpl; rewrite ?N.eqb_refl, ?ty_eqb_refl, ?Bool.eqb_reflx; reflexivity.
Qed.

Lemma forallb_aget : forall (P : N * val -> bool) es k x,
  forallb P es = true -> aget k es = Some x -> P (k, x) = true.
Proof.
  intros P es k x. unfold aget. induction es as [|[k0 x0] es IH]; simpl; intros H Hg; [discriminate|].
  apply andb_true_iff in H. destruct H as [H1 H2].
  destruct (N.eqb_spec k k0) as [->|Hne]; [inversion Hg; subst; exact H1 | auto].
Qed.

(* a value that fits a slot of a concrete type has that dynamic type *)
Lemma slot_ok_struct : forall m v, slot_ok (TStruct m) v = true -> exists fs, v = VStruct m fs.
Proof.
  intros m v H. unfold slot_ok, assignable in H. destruct v; simpl in H; try discriminate.
  rewrite orb_false_r in H. apply N.eqb_eq in H. subst. eexists; reflexivity.
Qed.

Lemma slot_ok_ptr : forall u v, slot_ok (TPtr u) v = true -> exists o, v = VPtr u o.
Proof.
  intros u v H. unfold slot_ok, assignable in H. destruct v; simpl in H; try discriminate.
  rewrite orb_false_r in H. apply ty_eqb_eq in H. subst. eexists; reflexivity.
Qed.

Lemma slot_ok_map : forall ks e v, slot_ok (TMap ks e) v = true -> exists o, v = VMap ks e o.
Proof.
  intros ks e v H. unfold slot_ok, assignable in H. destruct v; simpl in H; try discriminate.
  rewrite orb_false_r in H. apply andb_true_iff in H. destruct H as [H1 H2].
  apply Bool.eqb_prop in H1. apply ty_eqb_eq in H2. subst. eexists; reflexivity.
Qed.

Section Typed.
  Variable env : senv.

  Lemma take_field_typed : forall m fs f x,
    wfv env (VStruct m fs) = true -> take_field env m fs f = Ok x ->
    exists ft, lookup_field env m f = Some (true, ft) /\ has_type env ft x = true.
  Proof.
    intros m fs f x Hw H. unfold take_field in H.
    destruct (lookup_field env m f) as [[[] ft]|] eqn:Hl; try discriminate.
    inversion H; subst x. clear H. exists ft. split; [reflexivity|].
    destruct (aget f fs) as [x1|] eqn:Ea; [|apply has_type_zero].
    simpl in Hw. pose proof (forallb_aget _ _ _ _ Hw Ea) as Hp. simpl in Hp. rewrite Hl in Hp. exact Hp.
  Qed.

  Lemma take_one_wf : forall v f x, wfv env v = true -> take_one env v f = Ok x -> wfv env x = true.
  Proof.
    intros v f x Hw H. destruct v as [| | |m fs|u [w|]|ks e [es|]]; simpl in H; try discriminate.
    - destruct (take_field_typed m fs f x Hw H) as [ft [_ Ht]]. apply andb_true_iff in Ht. tauto.
    - destruct w as [| | |m fs| |]; try discriminate.
      destruct (is_any u); [discriminate|].
      simpl in Hw. apply andb_true_iff in Hw. destruct Hw as [_ Hw].
      destruct (take_field_typed m fs f x Hw H) as [ft [_ Ht]]. apply andb_true_iff in Ht. tauto.
    - destruct ks; [|discriminate]. destruct (aget f es) as [x1|] eqn:Ea; [|discriminate].
      inversion H; subst x1. simpl in Hw. pose proof (forallb_aget _ _ _ _ Hw Ea) as Hp. simpl in Hp.
      apply andb_true_iff in Hp. tauto.
    - destruct ks; discriminate.
  Qed.

  Lemma take_path_wf : forall p v x, wfv env v = true -> take_path env v p = Ok x -> wfv env x = true.
  Proof.
    induction p as [|f r IH]; intros v x Hw H; simpl in H.
    - inversion H; subst; exact Hw.
    - destruct (take_one env v f) as [x1| |] eqn:E1; try discriminate. simpl in H.
      eapply IH; [|exact H]. eapply take_one_wf; eauto.
  Qed.

  (* a statically typed source path delivers a value of the extracted type *)
  Lemma take_path_typed : forall p P src pt x,
    has_type env P src = true -> extract_ty env P p = SOk pt false -> take_path env src p = Ok x ->
    has_type env pt x = true.
  Proof.
    induction p as [|f r IH]; intros P src pt x Ht He H.
    - simpl in *. inversion He; inversion H; subst. exact Ht.
    - apply andb_true_iff in Ht. destruct Ht as [Hs Hw].
      cbn [take_path] in H. destruct (take_one env src f) as [x1| |] eqn:E1; try discriminate. simpl in H.
      destruct P as [| | |m|u|ks e]; simpl in He; try discriminate.
      + (* any *)
        destruct r; [|discriminate]. inversion He; subst pt. simpl in H. inversion H; subst x.
        apply has_type_any. eapply take_one_wf; eauto.
      + destruct (slot_ok_struct _ _ Hs) as [fs ->]. simpl in E1.
        destruct (take_field_typed m fs f x1 Hw E1) as [ft [Hl Ht1]]. rewrite Hl in He.
        eapply IH; eauto.
      + destruct u as [| | |m| |]; try discriminate.
        destruct (slot_ok_ptr _ _ Hs) as [o ->]. destruct o as [w|]; [|discriminate].
        simpl in Hw. apply andb_true_iff in Hw. destruct Hw as [Hsw Hww].
        destruct (slot_ok_struct _ _ Hsw) as [fs ->]. simpl in E1.
        destruct (take_field_typed m fs f x1 Hww E1) as [ft [Hl Ht1]]. rewrite Hl in He.
        eapply IH; eauto.
      + destruct ks; [|discriminate].
        destruct (slot_ok_map _ _ _ Hs) as [o ->]. simpl in E1. destruct o as [es|]; [|discriminate].
        destruct (aget f es) as [x0|] eqn:Ea; [|discriminate]. inversion E1; subst x0.
        simpl in Hw. pose proof (forallb_aget _ _ _ _ Hw Ea) as Hp. simpl in Hp.
        eapply IH; eauto.
  Qed.

  Lemma must_check_value : forall pt st x,
    check_assignable pt st = Must -> has_type env pt x = true -> check_value st x = true.
  Proof.
    intros pt st x Hm Ht. unfold check_assignable in Hm.
    destruct (ty_eqb st pt) eqn:E.
    - apply ty_eqb_eq in E. subst. apply slot_ok_check_value. apply andb_true_iff in Ht. tauto.
    - destruct st; try (destruct pt; discriminate). apply check_value_any.
  Qed.
End Typed.

(* ------------------------------------------------------------ the key/value list handed to convertTo *)

Lemma path_eqb_false : forall p q, p <> q -> path_eqb p q = false.
Proof.
  intros p q H. destruct (path_eqb p q) eqn:E; [|reflexivity]. apply path_eqb_eq in E. contradiction.
Qed.

Lemma fm_get_none : forall k m, ~ In k (keys m) -> fm_get k m = None.
Proof.
  intros k m. induction m as [|[k0 x0] m IH]; simpl; intro H; [reflexivity|].
  rewrite path_eqb_false by (intro E; apply H; left; symmetry; exact E). apply IH. tauto.
Qed.

Lemma fm_get_in : forall k x m, NoDup (keys m) -> In (k, x) m -> fm_get k m = Some x.
Proof.
  intros k x m. induction m as [|[k0 x0] m IH]; simpl; intros Hnd Hin; [contradiction|].
  inversion Hnd as [|? ? Hk Hnd']; subst.
  destruct Hin as [Hin|Hin].
  - inversion Hin; subst. rewrite path_eqb_refl. reflexivity.
  - rewrite path_eqb_false; [auto|]. intro E. subst. apply Hk. unfold keys. apply in_map_iff. exists (k0, x). tauto.
Qed.

Lemma fm_get_some_in : forall k x m, fm_get k m = Some x -> In (k, x) m.
Proof.
  intros k x m. induction m as [|[k0 x0] m IH]; simpl; intro H; [discriminate|].
  destruct (path_eqb k k0) eqn:E.
  - apply path_eqb_eq in E. inversion H; subst. left; reflexivity.
  - right; auto.
Qed.

Lemma fm_set_fresh : forall k x m, ~ In k (keys m) -> fm_set k x m = m ++ [(k, x)].
Proof.
  intros k x m. induction m as [|[k0 x0] m IH]; simpl; intro H; [reflexivity|].
  rewrite path_eqb_false by (intro E; apply H; left; symmetry; exact E). rewrite IH by tauto. reflexivity.
Qed.

Lemma no_conflict_NoDup : forall ps, no_conflict ps -> NoDup ps.
Proof.
  induction ps as [|p ps IH]; simpl; intro H; [constructor|].
  destruct H as [H1 H2]. constructor; [|auto].
  intro Hin. rewrite Forall_forall in H1. specialize (H1 _ Hin). rewrite conflict_refl in H1. discriminate.
Qed.

Lemma no_conflict_app : forall ps qs, no_conflict (ps ++ qs) ->
  no_conflict ps /\ no_conflict qs /\ (forall p q, In p ps -> In q qs -> conflict p q = false).
Proof.
  induction ps as [|p ps IH]; simpl; intros qs H.
  - split; [exact I|]. split; [exact H|]. intros p q [].
  - destruct H as [H1 H2]. apply Forall_app in H1. destruct H1 as [H1a H1b].
    destruct (IH qs H2) as [I1 [I2 I3]]. split; [split; assumption|]. split; [assumption|].
    intros p' q [<-|Hp] Hq; [rewrite Forall_forall in H1b; auto | auto].
Qed.

Inductive subseq {A : Type} : list A -> list A -> Prop :=
| ss_nil : subseq [] []
| ss_skip : forall a l l', subseq l l' -> subseq l (a :: l')
| ss_keep : forall a l l', subseq l l' -> subseq (a :: l) (a :: l').

Lemma subseq_in : forall {A} (l l' : list A) a, subseq l l' -> In a l -> In a l'.
Proof. intros A l l' a H. induction H; simpl; intros Hin; [contradiction | right; auto | destruct Hin; [left; assumption | right; auto]]. Qed.

Lemma subseq_map : forall {A B} (f : A -> B) l l', subseq l l' -> subseq (map f l) (map f l').
Proof. intros A B f l l' H. induction H; simpl; constructor; assumption. Qed.

Lemma subseq_refl : forall {A} (l : list A), subseq l l.
Proof. induction l; constructor; assumption. Qed.

Lemma no_conflict_subseq : forall l l', subseq l l' -> no_conflict l' -> no_conflict l.
Proof.
  intros l l' H. induction H; simpl; intros Hn.
  - exact I.
  - apply IHsubseq. tauto.
  - destruct Hn as [H1 H2]. split; [|auto].
    rewrite Forall_forall in *. intros q Hq. apply H1. eapply subseq_in; eauto.
Qed.

(* ------------------------------------------------------------ source extraction *)
Section FieldMapSpec.
  Variable env : senv.

  (* the entry a mapping contributes: its target and the value found at its source path *)
  Definition entry_of_mapping (src : val) (mp : mapping) (kx : path * val) : Prop :=
    fst kx = snd mp /\ take_path env src (fst mp) = Ok (snd kx).

  Lemma take_path_no_panic : forall p v, take_path env v p <> Panic.
  Proof.
    induction p as [|f r IH]; intros v; simpl; [discriminate|].
    destruct (take_one env v f) as [x| |] eqn:E; simpl; try discriminate; [apply IH|].
    destruct v as [| | | |u [[]|]|[] ? [?|]]; simpl in E; try discriminate;
      try (destruct (is_any u); [discriminate|]);
      unfold take_field in E;
      repeat match type of E with
             | context[match ?c with _ => _ end] => destruct c
             end; discriminate.
  Qed.

  (* value form (missing keys are errors): one entry per mapping, in mapping order *)
  Lemma field_map_strict : forall ms src acc m,
    NoDup (map snd ms) -> (forall mp, In mp ms -> ~ In (snd mp) (keys acc)) ->
    field_map env ms false src acc = Ok m ->
    exists m', m = acc ++ m' /\ Forall2 (entry_of_mapping src) ms m'.
  Proof.
    induction ms as [|[from to] ms IH]; intros src acc m Hnd Hacc H; simpl in H.
    - inversion H; subst. exists []. rewrite app_nil_r. split; [reflexivity | constructor].
    - inversion Hnd as [|? ? Hto Hnd']; subst.
      destruct (take_path env src from) as [x|e|] eqn:Et.
      + rewrite fm_set_fresh in H by (apply (Hacc (from, to)); left; reflexivity).
        destruct (IH src (acc ++ [(to, x)]) m Hnd') as [m' [-> HF]]; [|exact H|].
        * intros mp Hin Hk. unfold keys in Hk. rewrite map_app in Hk. apply in_app_or in Hk.
          destruct Hk as [Hk|[Hk|[]]]; [apply (Hacc mp (or_intror Hin)); exact Hk|].
          simpl in Hk. apply Hto. rewrite Hk. apply in_map. exact Hin.
        * exists ((to, x) :: m'). rewrite <- app_assoc. split; [reflexivity|].
          constructor; [split; [reflexivity | exact Et] | exact HF].
      + rewrite andb_false_r in H. discriminate.
      + discriminate.
  Qed.

  Lemma field_map_no_panic : forall ms am src acc, field_map env ms am src acc <> Panic.
  Proof.
    induction ms as [|[from to] ms IH]; intros am src acc; simpl; [discriminate|].
    destruct (take_path env src from) as [x|e|] eqn:Et.
    - apply IH.
    - destruct (N.eqb e EKey && am); [apply IH | discriminate].
    - exfalso. eapply take_path_no_panic; eauto.
  Qed.

  (* stream form (missing keys skipped): one entry per mapping whose source resolves *)
  Lemma field_map_lenient : forall ms src acc m,
    NoDup (map snd ms) -> (forall mp, In mp ms -> ~ In (snd mp) (keys acc)) ->
    field_map env ms true src acc = Ok m ->
    exists ms' m', m = acc ++ m' /\ Forall2 (entry_of_mapping src) ms' m' /\
                   subseq ms' ms /\
                   (forall mp, In mp ms -> In mp ms' \/ take_path env src (fst mp) = Err EKey).
  Proof.
    induction ms as [|[from to] ms IH]; intros src acc m Hnd Hacc H; simpl in H.
    - inversion H; subst. exists [], []. rewrite app_nil_r. split; [reflexivity|].
      split; [constructor|]. split; [constructor | intros mp []].
    - inversion Hnd as [|? ? Hto Hnd']; subst.
      destruct (take_path env src from) as [x|e|] eqn:Et.
      + rewrite fm_set_fresh in H by (apply (Hacc (from, to)); left; reflexivity).
        destruct (IH src (acc ++ [(to, x)]) m Hnd') as [ms' [m' [-> [HF [S1 S2]]]]]; [|exact H|].
        * intros mp Hin Hk. unfold keys in Hk. rewrite map_app in Hk. apply in_app_or in Hk.
          destruct Hk as [Hk|[Hk|[]]]; [apply (Hacc mp (or_intror Hin)); exact Hk|].
          simpl in Hk. apply Hto. rewrite Hk. apply in_map. exact Hin.
        * exists ((from, to) :: ms'), ((to, x) :: m'). rewrite <- app_assoc. split; [reflexivity|].
          split; [constructor; [split; [reflexivity | exact Et] | exact HF]|].
          split; [constructor; exact S1|].
          intros mp [<-|Hin]; [left; left; reflexivity|]. destruct (S2 mp Hin); [left; right; assumption | right; assumption].
      + destruct (N.eqb_spec e EKey) as [->|Hne]; simpl in H; [|discriminate].
        destruct (IH src acc m Hnd') as [ms' [m' [-> [HF [S1 S2]]]]]; [|exact H|].
        * intros mp Hin. apply Hacc. right. exact Hin.
        * exists ms', m'. split; [reflexivity|]. split; [exact HF|]. split; [constructor; exact S1|].
          intros mp [<-|Hin]; [right; exact Et | auto].
      + discriminate.
  Qed.

  (* the request-time checkers *)
  Lemma run_checks_spec : forall cks m m',
    run_checks cks m = Ok m' ->
    m' = m /\ forall k st x, In (k, st) cks -> fm_get k m = Some x -> check_value st x = true.
  Proof.
    induction cks as [|[k st] cks IH]; intros m m' H; simpl in H.
    - inversion H. split; [reflexivity | intros k st x []].
    - destruct (fm_get k m) as [x0|] eqn:Eg.
      + destruct (check_value st x0) eqn:Ec; [|discriminate].
        destruct (IH m m' H) as [-> HI]. split; [reflexivity|].
        intros k' st' x [Hin|Hin] Hg; [inversion Hin; subst; rewrite Eg in Hg; inversion Hg; subst; exact Ec | eauto].
      + destruct (IH m m' H) as [-> HI]. split; [reflexivity|].
        intros k' st' x [Hin|Hin] Hg; [inversion Hin; subst; rewrite Eg in Hg; discriminate | eauto].
  Qed.

  Lemma run_checks_no_panic : forall cks m, run_checks cks m <> Panic.
  Proof.
    induction cks as [|[k st] cks IH]; intros m; simpl; [discriminate|].
    destruct (fm_get k m); [destruct (check_value st v); [apply IH | discriminate] | apply IH].
  Qed.

  (* fan-in of the per-predecessor maps *)
  Lemma merge_into_spec : forall m acc r, merge_into m acc = Ok r -> r = acc ++ m.
  Proof.
    induction m as [|[k v] m IH]; intros acc r H; simpl in H.
    - inversion H. rewrite app_nil_r. reflexivity.
    - destruct (fm_get k acc); [discriminate|]. apply IH in H. rewrite <- app_assoc in H. exact H.
  Qed.

  Lemma merge_maps_spec : forall ms acc r, merge_maps ms acc = Ok r -> r = acc ++ List.concat ms.
  Proof.
    induction ms as [|m ms IH]; intros acc r H; simpl in H.
    - inversion H. simpl. rewrite app_nil_r. reflexivity.
    - destruct (merge_into m acc) as [a| |] eqn:E; try discriminate. simpl in H.
      apply merge_into_spec in E. subst a. apply IH in H. rewrite <- app_assoc in H. exact H.
  Qed.

  Lemma merge_into_no_panic : forall m acc, merge_into m acc <> Panic.
  Proof.
    induction m as [|[k v] m IH]; intros acc; simpl; [discriminate|].
    destruct (fm_get k acc); [discriminate | apply IH].
  Qed.

  Lemma merge_maps_no_panic : forall ms acc, merge_maps ms acc <> Panic.
  Proof.
    induction ms as [|m ms IH]; intros acc; simpl; [discriminate|].
    destruct (merge_into m acc) as [a| |] eqn:E; simpl; [apply IH | discriminate |].
    exfalso. eapply merge_into_no_panic; eauto.
  Qed.
End FieldMapSpec.

(* ------------------------------------------------------------ what Compile guarantees *)

Section CompileSpec.
  Variable env : senv.
  Variable T : ty.

  (* what validateFieldMapping established for one mapping, and which checker it installed *)
  Definition vmap_ok (P : ty) (cks : checks) (mp : mapping) : Prop :=
    exists pt pb st sb,
      extract_ty env P (fst mp) = SOk pt pb /\ extract_ty env T (snd mp) = SOk st sb /\
      (sb = true -> st = TAny) /\
      (sb = false -> pb = true -> In (snd mp, st) cks) /\
      (sb = false -> pb = false -> check_assignable pt st = Must \/ In (snd mp, st) cks).

  Lemma vmap_ok_mono : forall P c cks mp, vmap_ok P cks mp -> vmap_ok P (c :: cks) mp.
  Proof.
    intros P c cks mp [pt [pb [st [sb [H1 [H2 [H3 [H4 H5]]]]]]]].
    exists pt, pb, st, sb. repeat split; auto.
    - intros. right. auto.
    - intros Hs Hp. destruct (H5 Hs Hp); [left; assumption | right; right; assumption].
  Qed.

  Lemma validate_each_spec : forall P ms cks,
    validate_each env P T ms = Some cks -> forall mp, In mp ms -> vmap_ok P cks mp.
  Proof.
    induction ms as [|[from to] ms IH]; intros cks H mp Hin; [contradiction|].
    simpl in H.
    destruct (extract_ty env P from) as [pt pb|] eqn:Ep; [|discriminate].
    destruct (extract_ty env T to) as [st sb|] eqn:Es; [|discriminate].
    destruct sb.
    - (* the target path runs through an interface: expanded to map[string]any at request time *)
      destruct st; try discriminate.
      destruct Hin as [<-|Hin]; [|eapply IH; eauto].
      exists pt, pb, TAny, true. simpl. repeat split; auto; intros; discriminate.
    - destruct pb.
      + destruct (validate_each env P T ms) as [cks0|] eqn:Er; [|discriminate].
        simpl in H. inversion H; subst cks.
        destruct Hin as [<-|Hin]; [|apply vmap_ok_mono; eapply IH; eauto].
        exists pt, true, st, false. simpl.
        repeat split; auto; try (intros; discriminate); try (intros; left; reflexivity).
      + destruct (check_assignable pt st) eqn:Eca; [discriminate| |].
        * destruct Hin as [<-|Hin]; [|eapply IH; eauto].
          exists pt, false, st, false. simpl. repeat split; auto; try (intros; discriminate).
        * destruct (validate_each env P T ms) as [cks0|] eqn:Er; [|discriminate].
          simpl in H. inversion H; subst cks.
          destruct Hin as [<-|Hin]; [|apply vmap_ok_mono; eapply IH; eauto].
          exists pt, false, st, false. simpl.
          repeat split; auto; try (intros; discriminate); try (intros; right; left; reflexivity).
  Qed.

  Lemma validate_spec : forall P ms cks,
    validate env P T ms = Some cks -> forall mp, In mp ms -> vmap_ok P cks mp.
  Proof.
    intros P ms cks H. unfold validate in H.
    destruct (from_all ms && to_all ms); [discriminate|].
    destruct (negb (to_all ms) && negb (struct_or_map T) && negb (ty_eqb T TAny)); [discriminate|].
    destruct (negb (from_all ms) && negb (struct_or_map P)); [discriminate|].
    apply validate_each_spec. exact H.
  Qed.

  (* a value that passed: statically assignable and well typed, or checked at request time *)
  Lemma entry_fits : forall P cks mp src x (m : fmap),
    has_type env P src = true -> vmap_ok P cks mp ->
    take_path env src (fst mp) = Ok x ->
    (forall k st x', In (k, st) cks -> fm_get k m = Some x' -> check_value st x' = true) ->
    fm_get (snd mp) m = Some x ->
    exists st b, extract_ty env T (snd mp) = SOk st b /\ check_value st x = true.
  Proof.
    intros P cks mp src x m Ht [pt [pb [st [sb [H1 [H2 [H3 [H4 H5]]]]]]]] Hx Hck Hg.
    exists st, sb. split; [exact H2|].
    destruct sb.
    - rewrite (H3 eq_refl). apply check_value_any.
    - destruct pb.
      + eapply Hck; [apply H4; reflexivity | exact Hg].
      + destruct (H5 eq_refl eq_refl) as [Hm|Hin].
        * eapply must_check_value; [exact Hm|]. eapply take_path_typed; eauto.
        * eapply Hck; eauto.
  Qed.
End CompileSpec.

(* ------------------------------------------------------------ whole runs *)
Section Runs.
  Variable env : senv.
  Variable T : ty.

  Definition no_plain (ds : list decl) : Prop := Forall (fun d => d_maps d <> []) ds.

  Lemma has_plain_false : forall ds, has_plain ds = false -> no_plain ds.
  Proof.
    induction ds as [|d ds IH]; simpl; intro H; [constructor|].
    apply orb_false_iff in H. destruct H as [H1 H2].
    constructor; [intro E; rewrite E in H1; discriminate | apply IH; exact H2].
  Qed.

  Lemma decl_paths_maps : forall d, d_maps d <> [] -> decl_paths d = map snd (d_maps d).
  Proof. intros d H. unfold decl_paths. destruct (d_maps d); [contradiction | reflexivity]. Qed.

  Lemma compile_from_valid : forall ds t ckss,
    no_plain ds -> compile_from env T t ds = CAccept ckss ->
    Forall2 (fun d cks => validate env (d_ty d) T (d_maps d) = Some cks) ds ckss.
  Proof.
    induction ds as [|d ds IH]; intros t ckss Hnp H; simpl in H.
    - inversion H. constructor.
    - inversion Hnp as [|? ? Hd Hnp']; subst.
      destruct (tinsert_all (decl_paths d) t) as [t'|]; [|discriminate].
      destruct (d_maps d) as [|mp ms] eqn:Em; [contradiction|].
      destruct (validate env (d_ty d) T (mp :: ms)) as [c|] eqn:Ev; [|discriminate].
      destruct (compile_from env T t' ds) as [cs| |] eqn:Ec; try discriminate.
      inversion H; subst ckss. constructor; [rewrite Em; exact Ev | eapply IH; eauto].
  Qed.

  Lemma compile_no_conflict : forall ds ckss,
    compile env T ds = CAccept ckss -> no_conflict (all_targets ds).
  Proof.
    intros ds ckss H. unfold compile in H.
    destruct (compile_from_accept _ _ _ _ _ H) as [t' Ht].
    rewrite tinsert_decls_flat in Ht. apply overlap_check_iff. unfold overlap_check, all_targets.
    rewrite Ht. reflexivity.
  Qed.

  (* an accepted plain edge (AddInput without mappings) is the only declaration *)
  Lemma plain_alone : forall ds ckss,
    compile env T ds = CAccept ckss -> has_plain ds = true -> exists d, ds = [d] /\ d_maps d = [].
  Proof.
    intros ds ckss H Hp. apply compile_no_conflict in H. unfold all_targets in H.
    assert (K : forall ds, has_plain ds = true -> In [] (List.concat (map decl_paths ds))).
    { induction ds0 as [|d ds0 IH]; simpl; intro Hh; [discriminate|].
      apply in_or_app. apply orb_true_iff in Hh. destruct Hh as [Hh|Hh]; [left | right; auto].
      unfold decl_paths. destruct (d_maps d); [left; reflexivity | discriminate]. }
    destruct ds as [|d [|d' ds]]; [discriminate| |].
    - exists d. split; [reflexivity|]. simpl in Hp. destruct (d_maps d); [reflexivity | discriminate].
    - exfalso. specialize (K _ Hp).
      (* [] conflicts with every other path of the list, and the list has at least two paths *)
      assert (L : forall ps, no_conflict ps -> In [] ps -> List.length ps <= 1).
      { induction ps as [|p ps IHp]; simpl; intros Hn Hin; [lia|].
        destruct Hn as [Hn1 Hn2]. destruct ps as [|q ps]; [simpl; lia|]. exfalso.
        destruct Hin as [->|Hin].
        - inversion Hn1; subst. discriminate.
        - specialize (IHp Hn2 Hin). simpl in IHp. assert (ps = []) by (destruct ps; [reflexivity | simpl in IHp; lia]). subst.
          destruct Hin as [->|[]]. inversion Hn1; subst. rewrite conflict_nil_r in H2. discriminate. }
      specialize (L _ H K). simpl in L. rewrite !app_length in L.
      assert (Hl : forall d0, 1 <= List.length (decl_paths d0)).
      { intro d0. unfold decl_paths. destruct (d_maps d0); simpl; lia. }
      pose proof (Hl d). pose proof (Hl d'). lia.
  Qed.

  (* the per-predecessor maps of an Invoke *)
  Inductive edges_rel : list decl -> list val -> list fmap -> Prop :=
  | er_nil : edges_rel [] [] []
  | er_cons : forall d s m ds ss ms,
      Forall2 (entry_of_mapping env s) (d_maps d) m ->
      (forall k x, In (k, x) m -> exists st b, extract_ty env T k = SOk st b /\ check_value st x = true) ->
      edges_rel ds ss ms -> edges_rel (d :: ds) (s :: ss) (m :: ms).

  Lemma forall2_keys : forall s ms m, Forall2 (entry_of_mapping env s) ms m -> keys m = map snd ms.
  Proof. intros s ms m H. induction H as [|mp kx ms m [H1 _] _ IH]; simpl; [reflexivity | rewrite H1, IH; reflexivity]. Qed.

  Lemma forall2_in_r : forall s ms m kx, Forall2 (entry_of_mapping env s) ms m -> In kx m ->
    exists mp, In mp ms /\ entry_of_mapping env s mp kx.
  Proof.
    intros s ms m kx H. induction H as [|mp kx0 ms m Hh _ IH]; simpl; intros Hin; [contradiction|].
    destruct Hin as [<-|Hin]; [exists mp; split; [left; reflexivity | exact Hh]|].
    destruct (IH Hin) as [mp' [H1 H2]]. exists mp'. split; [right; exact H1 | exact H2].
  Qed.

  Lemma forall2_in_l : forall s ms m mp, Forall2 (entry_of_mapping env s) ms m -> In mp ms ->
    exists kx, In kx m /\ entry_of_mapping env s mp kx.
  Proof.
    intros s ms m mp H. induction H as [|mp0 kx ms m Hh _ IH]; simpl; intros Hin; [contradiction|].
    destruct Hin as [<-|Hin]; [exists kx; split; [left; reflexivity | exact Hh]|].
    destruct (IH Hin) as [kx' [H1 H2]]. exists kx'. split; [right; exact H1 | exact H2].
  Qed.

  (* one edge: mapped, checked, every entry fits its target slot *)
  Lemma edge_fits : forall P ms cks src am m ms',
    validate env P T ms = Some cks -> has_type env P src = true ->
    NoDup (keys m) -> Forall2 (entry_of_mapping env src) ms' m -> (forall mp, In mp ms' -> In mp ms) ->
    run_checks cks m = Ok am ->
    am = m /\ forall k x, In (k, x) m -> exists st b, extract_ty env T k = SOk st b /\ check_value st x = true.
  Proof.
    intros P ms cks src am m ms' Hv Ht Hnd HF Hsub Hrc.
    destruct (run_checks_spec cks m am Hrc) as [-> Hck]. split; [reflexivity|].
    intros k x Hin. destruct (forall2_in_r _ _ _ _ HF Hin) as [mp [Hmp [Hk Hx]]]. simpl in Hk, Hx. subst k.
    eapply (entry_fits env T P cks mp src x m); eauto.
    - eapply validate_spec; eauto.
    - apply fm_get_in; assumption.
  Qed.

  Lemma edges_out_rel : forall ds ckss srcs mss,
    Forall2 (fun d cks => validate env (d_ty d) T (d_maps d) = Some cks) ds ckss ->
    Forall2 (fun d s => has_type env (d_ty d) s = true) ds srcs ->
    Forall (fun d => NoDup (map snd (d_maps d))) ds ->
    edges_out env ds ckss srcs = Ok mss -> edges_rel ds srcs mss.
  Proof.
    induction ds as [|d ds IH]; intros ckss srcs mss Hv Ht Hnd H.
    - inversion Hv; inversion Ht; subst. simpl in H. inversion H. constructor.
    - inversion Hv as [|? c ? cs Hvd Hv']; inversion Ht as [|? s ? ss Htd Ht']; inversion Hnd as [|? ? Hndd Hnd']; subst.
      simpl in H. unfold edge_out in H.
      destruct (field_map env (d_maps d) false s []) as [m0| |] eqn:Ef; try discriminate. simpl in H.
      destruct (run_checks c m0) as [m1| |] eqn:Er; try discriminate. simpl in H.
      destruct (edges_out env ds cs ss) as [r| |] eqn:Eo; try discriminate. simpl in H. inversion H; subst mss.
      destruct (field_map_strict env (d_maps d) s [] m0 Hndd (fun _ _ F => F) Ef) as [m' [-> HF]]. simpl in *.
      assert (Hk : NoDup (keys m')) by (rewrite (forall2_keys _ _ _ HF); exact Hndd).
      destruct (edge_fits (d_ty d) (d_maps d) c s m1 m' (d_maps d) Hvd Htd Hk HF (fun _ H0 => H0) Er) as [-> Hfit].
      constructor; [exact HF | exact Hfit | eapply IH; eauto].
  Qed.

  Lemma edges_rel_keys : forall ds ss mss, no_plain ds -> edges_rel ds ss mss -> keys (List.concat mss) = all_targets ds.
  Proof.
    intros ds ss mss Hnp H. induction H as [|d s m ds ss ms HF _ _ IH]; [reflexivity|].
    inversion Hnp as [|? ? Hd Hnp']; subst. unfold keys, all_targets in *. simpl.
    rewrite map_app. rewrite (IH Hnp'). f_equal. rewrite decl_paths_maps by exact Hd. apply (forall2_keys _ _ _ HF).
  Qed.

  Lemma edges_rel_fits : forall ds ss mss, edges_rel ds ss mss -> fits env T (List.concat mss).
  Proof.
    intros ds ss mss H. induction H as [|d s m ds ss ms _ Hf _ IH]; intros p x Hin; [contradiction|].
    simpl in Hin. apply in_app_or in Hin. destruct Hin; [apply Hf; assumption | apply IH; assumption].
  Qed.

  Lemma edges_rel_get : forall ds ss mss d s mp, edges_rel ds ss mss ->
    In (d, s) (combine ds ss) -> In mp (d_maps d) ->
    exists x, take_path env s (fst mp) = Ok x /\ In (snd mp, x) (List.concat mss).
  Proof.
    intros ds ss mss d s mp H. induction H as [|d0 s0 m ds ss ms HF _ _ IH]; simpl; intros Hin Hmp; [contradiction|].
    destruct Hin as [Hin|Hin].
    - inversion Hin; subst. destruct (forall2_in_l _ _ _ _ HF Hmp) as [[k x] [Hkx [Hk Hx]]]. simpl in *. subst k.
      exists x. split; [exact Hx | apply in_or_app; left; exact Hkx].
    - destruct (IH Hin Hmp) as [x [H1 H2]]. exists x. split; [exact H1 | apply in_or_app; right; exact H2].
  Qed.

  Lemma edges_out_no_panic : forall ds ckss srcs, edges_out env ds ckss srcs <> Panic.
  Proof.
    induction ds as [|d ds IH]; intros [|c cs] [|s ss]; simpl; try discriminate.
    unfold edge_out.
    destruct (field_map env (d_maps d) false s []) as [m0| |] eqn:Ef; simpl; try discriminate.
    - destruct (run_checks c m0) as [m1| |] eqn:Er; simpl; try discriminate.
      + destruct (edges_out env ds cs ss) as [r| |] eqn:Eo; simpl; try discriminate. exfalso. eapply IH; eauto.
      + exfalso. eapply run_checks_no_panic; eauto.
    - exfalso. eapply field_map_no_panic; eauto.
  Qed.

  Lemma no_conflict_decl : forall ds, no_plain ds -> no_conflict (all_targets ds) ->
    Forall (fun d => NoDup (map snd (d_maps d))) ds.
  Proof.
    induction ds as [|d ds IH]; intros Hnp Hnc; [constructor|].
    inversion Hnp as [|? ? Hd Hnp']; subst. unfold all_targets in Hnc. simpl in Hnc.
    apply no_conflict_app in Hnc. destruct Hnc as [H1 [H2 _]].
    constructor; [|apply IH; assumption].
    rewrite <- decl_paths_maps by exact Hd. apply no_conflict_NoDup. exact H1.
  Qed.

  (* Invoke through accepted field mappings, sources of their declared types *)
  Theorem invoke_spec : forall ds ckss srcs,
    compile env T ds = CAccept ckss -> has_plain ds = false ->
    Forall2 (fun d s => has_type env (d_ty d) s = true) ds srcs ->
    match run_invoke env T ds ckss srcs with
    | Panic => False
    | Err _ => True
    | Ok v =>
        (forall d s from to, In (d, s) (combine ds srcs) -> In (from, to) (d_maps d) ->
           exists x st b, take_path env s from = Ok x /\ extract_ty env T to = SOk st b /\
                          take_path env v to = Ok (conv st x)) /\
        (forall q z, q <> [] -> fresh_for q (all_targets ds) -> take_path env v q = Ok z ->
           exists st b, extract_ty env T q = SOk st b /\ z = zero st)
    end.
  Proof.
    intros ds ckss srcs Hc Hp Ht. unfold run_invoke. rewrite Hp.
    pose proof (has_plain_false _ Hp) as Hnp.
    pose proof (compile_no_conflict _ _ Hc) as Hnc.
    pose proof (compile_from_valid ds (Node []) ckss Hnp Hc) as Hv.
    destruct (edges_out env ds ckss srcs) as [mss|e|] eqn:Eo; simpl; [|exact I|exact (edges_out_no_panic _ _ _ Eo)].
    pose proof (edges_out_rel ds ckss srcs mss Hv Ht (no_conflict_decl ds Hnp Hnc) Eo) as Hrel.
    destruct (merge_maps mss []) as [m|e|] eqn:Em; simpl; [|exact I|exact (merge_maps_no_panic _ _ Em)].
    apply merge_maps_spec in Em. simpl in Em. subst m.
    pose proof (edges_rel_keys ds srcs mss Hnp Hrel) as Hk.
    destruct (convert_to_spec env T (List.concat mss)) as [v [Hcv [Hget Hzero]]].
    { rewrite Hk. exact Hnc. }
    { eapply edges_rel_fits; eauto. }
    rewrite Hcv. split.
    - intros d s from to Hin Hmp.
      destruct (edges_rel_get ds srcs mss d s (from, to) Hrel Hin Hmp) as [x [Hx Hinm]]. simpl in *.
      destruct (Hget to x Hinm) as [st [b [He Hr]]]. exists x, st, b. auto.
    - intros q z Hq Hf Hr. apply Hzero; auto. rewrite Hk. exact Hf.
  Qed.

  (* ---------------------------------------------------------- Stream *)

  (* what one converted chunk looks like *)
  Definition chunk_post (ms : list mapping) (c v : val) : Prop :=
    (forall from to, In (from, to) ms ->
       (exists x st b, take_path env c from = Ok x /\ extract_ty env T to = SOk st b /\
                       take_path env v to = Ok (conv st x))
       \/ take_path env c from = Err EKey) /\
    (forall q z, q <> [] ->
       (forall from to, In (from, to) ms -> conflict q to = false \/ take_path env c from = Err EKey) ->
       take_path env v q = Ok z -> exists st b, extract_ty env T q = SOk st b /\ z = zero st).

  Lemma chunk_spec : forall P ms cks c,
    validate env P T ms = Some cks -> no_conflict (map snd ms) -> has_type env P c = true ->
    match (do m <- edge_out env ms cks true c; convert_to env T m) with
    | Panic => False
    | Err _ => True
    | Ok v => chunk_post ms c v
    end.
  Proof.
    intros P ms cks c Hv Hnc Ht. unfold edge_out.
    destruct (field_map env ms true c []) as [m0|e|] eqn:Ef; simpl; [|exact I|exact (field_map_no_panic _ _ _ _ _ Ef)].
    destruct (field_map_lenient env ms c [] m0 (no_conflict_NoDup _ Hnc) (fun _ _ F => F) Ef)
      as [ms' [m' [-> [HF [Hss Hall]]]]]. simpl in *.
    assert (Hk : keys m' = map snd ms') by (apply (forall2_keys _ _ _ HF)).
    assert (Hnc' : no_conflict (keys m')).
    { rewrite Hk. eapply no_conflict_subseq; [apply subseq_map; exact Hss | exact Hnc]. }
    destruct (run_checks cks m') as [m1|e|] eqn:Er; simpl; [|exact I|exact (run_checks_no_panic _ _ Er)].
    destruct (edge_fits P ms cks c m1 m' ms' Hv Ht (no_conflict_NoDup _ Hnc') HF
                (fun mp H0 => subseq_in _ _ _ Hss H0) Er) as [-> Hfit].
    destruct (convert_to_spec env T m' Hnc' Hfit) as [v [Hcv [Hget Hzero]]].
    rewrite Hcv. split.
    - intros from to Hin. destruct (Hall (from, to) Hin) as [Hin'|He]; [left | right; exact He].
      destruct (forall2_in_l _ _ _ _ HF Hin') as [[k x] [Hkx [Hk' Hx]]]. simpl in *. subst k.
      destruct (Hget to x Hkx) as [st [b [He Hr]]]. exists x, st, b. auto.
    - intros q z Hq Hfr Hr. apply Hzero; auto.
      intros p' Hp'. rewrite Hk in Hp'. apply in_map_iff in Hp'. destruct Hp' as [[from to] [<- Hin']]. simpl.
      destruct (Hfr from to (subseq_in _ _ _ Hss Hin')) as [Hcf|He]; [exact Hcf|].
      exfalso. destruct (forall2_in_l _ _ _ _ HF Hin') as [[k x] [_ [_ Hx]]]. simpl in Hx. rewrite Hx in He. discriminate.
  Qed.

  Inductive stream_rel : list decl -> list (list val) -> list val -> Prop :=
  | sr_nil : stream_rel [] [] []
  | sr_cons : forall d cs vs1 ds css vs2,
      Forall2 (chunk_post (d_maps d)) cs vs1 -> stream_rel ds css vs2 ->
      stream_rel (d :: ds) (cs :: css) (vs1 ++ vs2).

  Lemma stream_chunks_spec : forall P ms cks cs,
    validate env P T ms = Some cks -> no_conflict (map snd ms) ->
    Forall (fun c => has_type env P c = true) cs ->
    match stream_chunks env T ms cks cs with
    | Panic => False
    | Err _ => True
    | Ok vs => Forall2 (chunk_post ms) cs vs
    end.
  Proof.
    intros P ms cks cs Hv Hnc Ht. induction Ht as [|c cs Hc _ IH]; simpl; [constructor|].
    pose proof (chunk_spec P ms cks c Hv Hnc Hc) as Hs.
    destruct (edge_out env ms cks true c) as [m|e|]; simpl in *; [|exact I|exact Hs].
    destruct (convert_to env T m) as [v|e|]; simpl in *; [|exact I|exact Hs].
    destruct (stream_chunks env T ms cks cs) as [r|e|]; simpl in *; [|exact I|exact IH].
    constructor; assumption.
  Qed.

  Lemma no_conflict_each : forall ds, no_plain ds -> no_conflict (all_targets ds) ->
    Forall (fun d => no_conflict (map snd (d_maps d))) ds.
  Proof.
    induction ds as [|d ds IH]; intros Hnp Hnc; [constructor|].
    inversion Hnp as [|? ? Hd Hnp']; subst. unfold all_targets in Hnc. simpl in Hnc.
    apply no_conflict_app in Hnc. destruct Hnc as [H1 [H2 _]].
    constructor; [|apply IH; assumption]. rewrite <- decl_paths_maps by exact Hd. exact H1.
  Qed.

  (* Stream through accepted field mappings: every chunk is mapped, checked and converted on
     its own (missing map keys skipped); never a panic *)
  Theorem stream_spec : forall ds ckss chunkss,
    compile env T ds = CAccept ckss -> has_plain ds = false ->
    Forall2 (fun d cs => Forall (fun c => has_type env (d_ty d) c = true) cs) ds chunkss ->
    match run_stream env T ds ckss chunkss with
    | Panic => False
    | Err _ => True
    | Ok vs => stream_rel ds chunkss vs
    end.
  Proof.
    intros ds ckss chunkss Hc Hp Ht. unfold run_stream. rewrite Hp.
    pose proof (has_plain_false _ Hp) as Hnp.
    pose proof (no_conflict_each ds Hnp (compile_no_conflict _ _ Hc)) as Hnc.
    pose proof (compile_from_valid ds (Node []) ckss Hnp Hc) as Hv.
    clear Hc Hp Hnp. revert ckss Hv Hnc.
    induction Ht as [|d cs ds css Hcs _ IH]; intros ckss Hv Hnc.
    - inversion Hv; subst. simpl. constructor.
    - inversion Hv as [|? c ? ckss' Hvd Hv']; subst. inversion Hnc as [|? ? Hncd Hnc']; subst.
      simpl.
      pose proof (stream_chunks_spec (d_ty d) (d_maps d) c cs Hvd Hncd Hcs) as Hs.
      destruct (stream_chunks env T (d_maps d) c cs) as [a|e|]; simpl; [|exact I|exact Hs].
      specialize (IH ckss' Hv' Hnc').
      destruct (run_stream_from env T ds ckss' css) as [r|e|]; simpl; [|exact I|exact IH].
      constructor; assumption.
  Qed.

  (* ---------------------------------------------------------- Stream agrees with Invoke *)

  Lemma field_map_lenient_eq : forall ms src acc m,
    field_map env ms false src acc = Ok m -> field_map env ms true src acc = Ok m.
  Proof.
    induction ms as [|[from to] ms IH]; intros src acc m H; simpl in *; [exact H|].
    destruct (take_path env src from) as [x|e|]; [auto | rewrite andb_false_r in H; discriminate | discriminate].
  Qed.

  Lemma extract_ty_fun : forall t p a b c d, extract_ty env t p = SOk a b -> extract_ty env t p = SOk c d -> a = c.
  Proof. intros. congruence. Qed.

  (* the stream in which every predecessor delivers its Invoke value as one chunk: the chunk
     coming from predecessor i is the Invoke result restricted to i's target paths *)
  Theorem stream_agrees : forall ds ckss srcs v,
    compile env T ds = CAccept ckss -> has_plain ds = false ->
    Forall2 (fun d s => has_type env (d_ty d) s = true) ds srcs ->
    run_invoke env T ds ckss srcs = Ok v ->
    exists vs, run_stream env T ds ckss (map (fun s => [s]) srcs) = Ok vs /\
      Forall2 (fun d vi =>
                 (forall from to, In (from, to) (d_maps d) -> take_path env vi to = take_path env v to) /\
                 (forall q z, q <> [] -> fresh_for q (map snd (d_maps d)) -> take_path env vi q = Ok z ->
                              exists st b, extract_ty env T q = SOk st b /\ z = zero st)) ds vs.
  Proof.
    intros ds ckss srcs v Hc Hp Ht Hinv. unfold run_invoke in Hinv. rewrite Hp in Hinv.
    unfold run_stream. rewrite Hp.
    pose proof (has_plain_false _ Hp) as Hnp.
    pose proof (compile_no_conflict _ _ Hc) as Hnc.
    pose proof (compile_from_valid ds (Node []) ckss Hnp Hc) as Hv.
    destruct (edges_out env ds ckss srcs) as [mss|e|] eqn:Eo; simpl in Hinv; try discriminate.
    pose proof (edges_out_rel ds ckss srcs mss Hv Ht (no_conflict_decl ds Hnp Hnc) Eo) as Hrel.
    destruct (merge_maps mss []) as [m|e|] eqn:Em; simpl in Hinv; try discriminate.
    apply merge_maps_spec in Em. simpl in Em. subst m.
    pose proof (edges_rel_keys ds srcs mss Hnp Hrel) as Hk.
    destruct (convert_to_spec env T (List.concat mss)) as [v0 [Hcv [Hget _]]].
    { rewrite Hk. exact Hnc. }
    { eapply edges_rel_fits; eauto. }
    rewrite Hcv in Hinv. inversion Hinv; subst v0. clear Hinv Hcv.
    pose proof (no_conflict_each ds Hnp Hnc) as Hnce.
    (* generalise: the big map only matters through Hget *)
    assert (G : forall mss', (forall k x, In (k, x) (List.concat mss') -> In (k, x) (List.concat mss)) ->
                forall ds' ckss' srcs', edges_out env ds' ckss' srcs' = Ok mss' -> edges_rel ds' srcs' mss' ->
                Forall (fun d => no_conflict (map snd (d_maps d))) ds' ->
                exists vs, run_stream_from env T ds' ckss' (map (fun s => [s]) srcs') = Ok vs /\
                  Forall2 (fun d vi =>
                    (forall from to, In (from, to) (d_maps d) -> take_path env vi to = take_path env v to) /\
                    (forall q z, q <> [] -> fresh_for q (map snd (d_maps d)) -> take_path env vi q = Ok z ->
                                 exists st b, extract_ty env T q = SOk st b /\ z = zero st)) ds' vs).
    { intros mss' Hsub ds' ckss' srcs' Eo' Hrel'. revert ckss' Eo' Hsub.
      induction Hrel' as [|d s m ds' ss ms HF Hfit Hrel' IH]; intros ckss' Eo' Hsub Hn.
      - exists []. split; [destruct ckss'; reflexivity | constructor].
      - inversion Hn as [|? ? Hnd Hn']; subst.
        destruct ckss' as [|c cs]; [simpl in Eo'; discriminate|].
        simpl in Eo'. unfold edge_out in Eo'.
        destruct (field_map env (d_maps d) false s []) as [m0| |] eqn:Ef; try discriminate. simpl in Eo'.
        destruct (run_checks c m0) as [m1| |] eqn:Er; try discriminate. simpl in Eo'.
        destruct (edges_out env ds' cs ss) as [r| |] eqn:Eo2; try discriminate. simpl in Eo'.
        inversion Eo'; subst m1 r. clear Eo'.
        destruct (run_checks_spec _ _ _ Er) as [Em0 _]. subst m0.
        assert (Hkm : keys m = map snd (d_maps d)) by (apply (forall2_keys _ _ _ HF)).
        destruct (convert_to_spec env T m) as [vi [Hcvi [Hgeti Hzeroi]]].
        { rewrite Hkm. exact Hnd. }
        { exact Hfit. }
        destruct (IH cs Eo2) as [vs [Hvs HF2]].
        { intros k x Hin. apply Hsub. simpl. apply in_or_app. right. exact Hin. }
        { exact Hn'. }
        exists (vi :: vs). split.
        + simpl. unfold edge_out. rewrite (field_map_lenient_eq _ _ _ _ Ef). simpl. rewrite Er. simpl.
          rewrite Hcvi. simpl. rewrite Hvs. reflexivity.
        + constructor; [|exact HF2]. split.
          * intros from to Hin. destruct (forall2_in_l _ _ _ _ HF Hin) as [[k x] [Hkx [Hk' Hx]]]. simpl in *. subst k.
            destruct (Hgeti to x Hkx) as [st [b [He Hr]]].
            destruct (Hget to x (Hsub to x ltac:(simpl; apply in_or_app; left; exact Hkx))) as [st' [b' [He' Hr']]].
            rewrite Hr, Hr'. rewrite (extract_ty_fun _ _ _ _ _ _ He He'). reflexivity.
          * intros q z Hq Hfr Hr. apply Hzeroi; auto. rewrite Hkm. exact Hfr. }
    apply (G mss (fun _ _ H0 => H0) ds ckss srcs Eo Hrel Hnce).
  Qed.

  (* ---------------------------------------------------------- never a panic *)
  Lemma plain_out_no_panic : forall P s, plain_out T P s <> Panic.
  Proof. intros P s. unfold plain_out. destruct (check_assignable P T); try discriminate. destruct (slot_ok T s); discriminate. Qed.

  Lemma plain_stream_no_panic : forall P cs, plain_stream T P cs <> Panic.
  Proof.
    intros P. induction cs as [|c cs IH]; simpl; [discriminate|].
    pose proof (plain_out_no_panic P c) as Hc. destruct (plain_out T P c) as [x|e|]; simpl; [|discriminate|contradiction].
    destruct (plain_stream T P cs) as [r|e|]; simpl; [discriminate|discriminate|contradiction].
  Qed.

  Theorem run_no_panic : forall ds ckss,
    compile env T ds = CAccept ckss ->
    (forall srcs, Forall2 (fun d s => has_type env (d_ty d) s = true) ds srcs ->
                  run_invoke env T ds ckss srcs <> Panic) /\
    (forall chunkss, Forall2 (fun d cs => Forall (fun c => has_type env (d_ty d) c = true) cs) ds chunkss ->
                     run_stream env T ds ckss chunkss <> Panic).
  Proof.
    intros ds ckss Hc. destruct (has_plain ds) eqn:Hp.
    - split; intros l _; [unfold run_invoke | unfold run_stream]; rewrite Hp.
      + destruct ds as [|d ds']; [discriminate|]. destruct l as [|s l]; [discriminate|]. apply plain_out_no_panic.
      + destruct ds as [|d ds']; [discriminate|]. destruct l as [|cs l]; [discriminate|]. apply plain_stream_no_panic.
    - split.
      + intros srcs Ht E. pose proof (invoke_spec ds ckss srcs Hc Hp Ht) as H. rewrite E in H. exact H.
      + intros chunkss Ht E. pose proof (stream_spec ds ckss chunkss Hc Hp Ht) as H. rewrite E in H. exact H.
  Qed.

  (* a plain edge: the successor gets the predecessor's value itself — if it is a value of the
     successor's input type (always, unless the predecessor's type is an interface and the successor's
     is not: then the edge's run-time type check decides); otherwise an error *)
  Lemma plain_stream_spec : forall P cs,
    plain_stream T P cs = (if forallb (fun c => match plain_out T P c with Ok _ => true | _ => false end) cs
                           then Ok cs else Err ECheck).
  Proof.
    intros P. induction cs as [|c cs IH]; simpl; [reflexivity|].
    unfold plain_out at 1 2. destruct (check_assignable P T); simpl; try (rewrite IH; destruct (forallb _ cs); reflexivity).
    destruct (slot_ok T c); simpl; [rewrite IH; destruct (forallb _ cs); reflexivity | reflexivity].
  Qed.

  Theorem plain_edge_spec : forall ds ckss,
    compile env T ds = CAccept ckss -> has_plain ds = true ->
    exists d, ds = [d] /\ d_maps d = [] /\ check_assignable (d_ty d) T <> MustNot /\
      (forall s, run_invoke env T ds ckss [s] =
                 if (match check_assignable (d_ty d) T with May => negb (slot_ok T s) | _ => false end)
                 then Err ECheck else Ok s) /\
      (forall cs, run_stream env T ds ckss [cs] =
                  if forallb (fun c => match check_assignable (d_ty d) T with May => slot_ok T c | _ => true end) cs
                  then Ok cs else Err ECheck).
  Proof.
    intros ds ckss Hc Hp. destruct (plain_alone ds ckss Hc Hp) as [d [-> Hd]].
    exists d. split; [reflexivity|]. split; [exact Hd|]. split.
    - unfold compile in Hc. simpl in Hc. unfold decl_paths in Hc. rewrite Hd in Hc. simpl in Hc.
      intro E. rewrite E in Hc. discriminate.
    - split; intros; [unfold run_invoke | unfold run_stream]; rewrite Hp.
      + unfold plain_out. destruct (check_assignable (d_ty d) T); try reflexivity. destruct (slot_ok T s); reflexivity.
      + rewrite plain_stream_spec. unfold plain_out.
        assert (E : forall l, forallb (fun c => match match check_assignable (d_ty d) T with
                                                   | May => if slot_ok T c then Ok c else Err ECheck
                                                   | _ => Ok c end with Ok _ => true | _ => false end) l
                              = forallb (fun c => match check_assignable (d_ty d) T with May => slot_ok T c | _ => true end) l).
        { induction l as [|c l IH]; simpl; [reflexivity|]. rewrite IH. f_equal.
          destruct (check_assignable (d_ty d) T); try reflexivity. destruct (slot_ok T c); reflexivity. }
        rewrite E. reflexivity.
  Qed.

  (* no target path lies strictly below another one: the walker never descends into a value
     it took from a predecessor *)
  Theorem targets_not_nested : forall ds ckss,
    compile env T ds = CAccept ckss ->
    forall l1 p l2 q l3, all_targets ds = l1 ++ p :: l2 ++ q :: l3 -> prefix p q = false /\ prefix q p = false.
  Proof.
    intros ds ckss Hc l1 p l2 q l3 E. pose proof (compile_no_conflict _ _ Hc) as Hn. rewrite E in Hn.
    apply no_conflict_app in Hn. destruct Hn as [_ [Hn _]]. simpl in Hn. destruct Hn as [Hf _].
    rewrite Forall_forall in Hf. specialize (Hf q ltac:(apply in_or_app; right; left; reflexivity)).
    unfold conflict in Hf. apply orb_false_iff in Hf. exact Hf.
  Qed.
End Runs.

(* ------------------------------------------------------------ acceptance does not depend on the order *)
Section CompileOrder.
  Variable env : senv.
  Variable T : ty.

  (* the static part of one declaration *)
  Definition decl_static (d : decl) : option checks :=
    match d_maps d with
    | [] => match check_assignable (d_ty d) T with MustNot => None | _ => Some [] end
    | ms => validate env (d_ty d) T ms
    end.

  Lemma compile_from_accept_iff : forall ds t,
    (exists ckss, compile_from env T t ds = CAccept ckss) <->
    (tinsert_decls (map decl_paths ds) t <> None /\ Forall (fun d => decl_static d <> None) ds).
  Proof.
    induction ds as [|d ds IH]; intros t; simpl.
    - split; [intros _; split; [discriminate | constructor] | intros _; eexists; reflexivity].
    - destruct (tinsert_all (decl_paths d) t) as [t'|] eqn:Et.
      2: { split; [intros [c Hc]; discriminate | intros [H _]; contradiction]. }
      match goal with
      | |- context[match ?X with Some c => _ | None => CErrStatic end] =>
          replace X with (decl_static d) by (unfold decl_static; destruct (d_maps d); reflexivity)
      end.
      destruct (decl_static d) as [c|] eqn:Es.
      2: { split; [intros [c Hc]; discriminate | intros [_ H]; inversion H; subst; contradiction]. }
      specialize (IH t'). split.
      + intros [ckss Hc]. destruct (compile_from env T t' ds) as [cs| |] eqn:Ec; try discriminate.
        destruct (proj1 IH (ex_intro _ cs eq_refl)) as [H1 H2].
        split; [exact H1 | constructor; [rewrite Es; discriminate | exact H2]].
      + intros [H1 H2]. inversion H2 as [|? ? Hd Hds]; subst.
        destruct (proj2 IH (conj H1 Hds)) as [cs Hcs]. rewrite Hcs. eexists; reflexivity.
  Qed.

  Theorem compile_accept_perm : forall ds ds',
    Permutation ds ds' ->
    ((exists ckss, compile env T ds = CAccept ckss) <-> (exists ckss', compile env T ds' = CAccept ckss')).
  Proof.
    assert (K : forall ds ds', Permutation ds ds' ->
              (exists ckss, compile env T ds = CAccept ckss) -> exists ckss', compile env T ds' = CAccept ckss').
    { intros ds ds' HP H. unfold compile in *. apply compile_from_accept_iff in H. destruct H as [H1 H2].
      apply compile_from_accept_iff. split.
      - rewrite tinsert_decls_flat in *.
        assert (HPt : Permutation (List.concat (map decl_paths ds)) (List.concat (map decl_paths ds'))).
        { rewrite <- !flat_map_concat_map. apply Permutation_flat_map. exact HP. }
        pose proof (overlap_check_perm _ _ HPt) as Ho. unfold overlap_check in Ho.
        destruct (tinsert_all (List.concat (map decl_paths ds)) (Node [])); [|contradiction].
        destruct (tinsert_all (List.concat (map decl_paths ds')) (Node [])); [discriminate | discriminate].
      - eapply Permutation_Forall; eauto. }
    intros ds ds' HP. split; apply K; [exact HP | apply Permutation_sym; exact HP].
  Qed.
End CompileOrder.

(* ------------------------------------------------------------ static values (SetStaticValue) *)
Section RunsStatic.
  Variable env : senv.
  Variable T : ty.

  Lemma validate_statics_fits : forall ss, validate_statics env T ss = true -> fits env T ss.
  Proof.
    induction ss as [|[to v] ss IH]; intros H p x Hin; [contradiction|].
    simpl in H. destruct (extract_ty env T to) as [st sb|] eqn:He; [|discriminate].
    apply andb_true_iff in H. destruct H as [H1 H2].
    destruct Hin as [Hin|Hin]; [|apply IH; assumption].
    inversion Hin; subst. exists st, sb. split; [exact He|].
    destruct sb; [|exact H1]. destruct st; try discriminate. apply check_value_any.
  Qed.

  Lemma compile_s_inv : forall ds ss ckss,
    compile_s env T ds ss = CAccept ckss ->
    compile env T ds = CAccept ckss /\
    (ss = [] \/ (no_conflict (all_targets ds ++ map fst ss) /\ validate_statics env T ss = true)).
  Proof.
    intros ds ss ckss H. unfold compile_s in H.
    destruct (compile env T ds) as [cks| |] eqn:Ec; try discriminate.
    destruct ss as [|s ss]; [inversion H; subst; split; [reflexivity | left; reflexivity]|].
    destruct (overlap_check (all_targets ds ++ map fst (s :: ss))) eqn:Eo; [|discriminate].
    destruct (validate_statics env T (s :: ss)) eqn:Ev; [|discriminate].
    inversion H; subst. split; [reflexivity|]. right. split; [apply overlap_check_iff; exact Eo | reflexivity].
  Qed.

  Lemma fits_app : forall m1 m2, fits env T m1 -> fits env T m2 -> fits env T (m1 ++ m2).
  Proof. intros m1 m2 H1 H2 p x Hin. apply in_app_or in Hin. destruct Hin; [apply H1 | apply H2]; assumption. Qed.

  (* Invoke, with static values: never a panic; the mapped paths and the static paths read back
     their values, everything else reads zero *)
  Theorem invoke_spec_s : forall ds ss ckss srcs,
    compile_s env T ds ss = CAccept ckss -> has_plain ds = false ->
    Forall2 (fun d s => has_type env (d_ty d) s = true) ds srcs ->
    match run_invoke_s env T ds ss ckss srcs with
    | Panic => False
    | Err _ => True
    | Ok v =>
        (forall d s from to, In (d, s) (combine ds srcs) -> In (from, to) (d_maps d) ->
           exists x st b, take_path env s from = Ok x /\ extract_ty env T to = SOk st b /\
                          take_path env v to = Ok (conv st x)) /\
        (forall to x, In (to, x) ss ->
           exists st b, extract_ty env T to = SOk st b /\ take_path env v to = Ok (conv st x)) /\
        (forall q z, q <> [] -> fresh_for q (all_targets ds ++ map fst ss) -> take_path env v q = Ok z ->
           exists st b, extract_ty env T q = SOk st b /\ z = zero st)
    end.
  Proof.
    intros ds ss ckss srcs Hcs Hp Ht.
    destruct (compile_s_inv ds ss ckss Hcs) as [Hc Hs].
    destruct ss as [|s0 ss0].
    - simpl. pose proof (invoke_spec env T ds ckss srcs Hc Hp Ht) as H.
      destruct (run_invoke env T ds ckss srcs) as [v|e|]; auto.
      destruct H as [H1 H2]. split; [exact H1|]. split; [intros to x []|].
      rewrite app_nil_r. exact H2.
    - destruct Hs as [Hs|[Hnc Hvs]]; [discriminate|].
      change (run_invoke_s env T ds (s0 :: ss0) ckss srcs)
        with (do ms <- edges_out env ds ckss srcs; do m <- merge_maps (ms ++ [s0 :: ss0]) []; convert_to env T m).
      remember (s0 :: ss0) as ss eqn:Ess. clear Ess Hcs.
      pose proof (has_plain_false _ Hp) as Hnp.
      pose proof (compile_no_conflict _ _ _ _ Hc) as Hncd.
      pose proof (compile_from_valid env T ds (Node []) ckss Hnp Hc) as Hv.
      destruct (edges_out env ds ckss srcs) as [mss|e|] eqn:Eo; simpl; [|exact I|exact (edges_out_no_panic _ _ _ _ Eo)].
      pose proof (edges_out_rel env T ds ckss srcs mss Hv Ht (no_conflict_decl ds Hnp Hncd) Eo) as Hrel.
      destruct (merge_maps (mss ++ [ss]) []) as [m|e|] eqn:Em; simpl; [|exact I|exact (merge_maps_no_panic _ _ Em)].
      apply merge_maps_spec in Em. simpl in Em. rewrite concat_app in Em. simpl in Em. rewrite app_nil_r in Em. subst m.
      pose proof (edges_rel_keys env T ds srcs mss Hnp Hrel) as Hk.
      assert (Hkeys : keys (List.concat mss ++ ss) = all_targets ds ++ map fst ss).
      { unfold keys in *. rewrite map_app, Hk. reflexivity. }
      destruct (convert_to_spec env T (List.concat mss ++ ss)) as [v [Hcv [Hget Hzero]]].
      { rewrite Hkeys. exact Hnc. }
      { apply fits_app; [eapply edges_rel_fits; eauto | apply validate_statics_fits; exact Hvs]. }
      rewrite Hcv. split; [|split].
      + intros d s from to Hin Hmp.
        destruct (edges_rel_get env T ds srcs mss d s (from, to) Hrel Hin Hmp) as [x [Hx Hinm]]. simpl in *.
        destruct (Hget to x ltac:(apply in_or_app; left; exact Hinm)) as [st [b [He Hr]]]. exists x, st, b. auto.
      + intros to x Hin. apply Hget. apply in_or_app. right. exact Hin.
      + intros q z Hq Hf Hr. apply Hzero; auto. rewrite Hkeys. exact Hf.
  Qed.

  (* the chunk that carries the static values *)
  Definition static_chunk_post (ss : statics) (v : val) : Prop :=
    (forall to x, In (to, x) ss ->
       exists st b, extract_ty env T to = SOk st b /\ take_path env v to = Ok (conv st x)) /\
    (forall q z, q <> [] -> fresh_for q (map fst ss) -> take_path env v q = Ok z ->
       exists st b, extract_ty env T q = SOk st b /\ z = zero st).

  Lemma static_chunk_spec : forall ds ss,
    no_conflict (all_targets ds ++ map fst ss) -> validate_statics env T ss = true ->
    exists v, convert_to env T ss = Ok v /\ static_chunk_post ss v.
  Proof.
    intros ds ss Hnc Hvs. apply no_conflict_app in Hnc. destruct Hnc as [_ [Hnc _]].
    destruct (convert_to_spec env T ss Hnc (validate_statics_fits ss Hvs)) as [v [Hcv [Hget Hzero]]].
    exists v. split; [exact Hcv|]. split; [exact Hget | exact Hzero].
  Qed.

  Theorem stream_spec_s : forall ds ss ckss chunkss,
    compile_s env T ds ss = CAccept ckss -> has_plain ds = false ->
    Forall2 (fun d cs => Forall (fun c => has_type env (d_ty d) c = true) cs) ds chunkss ->
    match run_stream_s env T ds ss ckss chunkss with
    | Panic => False
    | Err _ => True
    | Ok vs =>
        match ss with
        | [] => stream_rel env T ds chunkss vs
        | _ => exists vs' v, vs = vs' ++ [v] /\ stream_rel env T ds chunkss vs' /\ static_chunk_post ss v
        end
    end.
  Proof.
    intros ds ss ckss chunkss Hcs Hp Ht.
    destruct (compile_s_inv ds ss ckss Hcs) as [Hc Hs].
    pose proof (stream_spec env T ds ckss chunkss Hc Hp Ht) as H.
    destruct ss as [|s0 ss0]; [exact H|].
    destruct Hs as [Hs|[Hnc Hvs]]; [discriminate|].
    change (run_stream_s env T ds (s0 :: ss0) ckss chunkss)
      with (do vs <- run_stream_from env T ds ckss chunkss; do v <- convert_to env T (s0 :: ss0); Ok (vs ++ [v])).
    unfold run_stream in H. rewrite Hp in H.
    destruct (run_stream_from env T ds ckss chunkss) as [vs|e|]; simpl; [|exact I|exact H].
    destruct (static_chunk_spec ds (s0 :: ss0) Hnc Hvs) as [v [Hcv Hpost]].
    rewrite Hcv. simpl. exists vs, v. split; [reflexivity|]. split; [exact H | exact Hpost].
  Qed.

  Theorem run_no_panic_s : forall ds ss ckss,
    compile_s env T ds ss = CAccept ckss ->
    (forall srcs, Forall2 (fun d s => has_type env (d_ty d) s = true) ds srcs ->
                  run_invoke_s env T ds ss ckss srcs <> Panic) /\
    (forall chunkss, Forall2 (fun d cs => Forall (fun c => has_type env (d_ty d) c = true) cs) ds chunkss ->
                     run_stream_s env T ds ss ckss chunkss <> Panic).
  Proof.
    intros ds ss ckss Hcs. destruct (has_plain ds) eqn:Hp.
    - (* a plain edge: no static values can have been accepted beside it *)
      destruct (compile_s_inv ds ss ckss Hcs) as [Hc Hs].
      destruct ss as [|s0 ss0].
      + simpl. apply (run_no_panic env T ds ckss Hc).
      + exfalso. destruct Hs as [Hs|[Hnc _]]; [discriminate|].
        destruct (plain_alone env T ds ckss Hc Hp) as [d [-> Hd]].
        unfold all_targets, decl_paths in Hnc. simpl in Hnc. rewrite Hd in Hnc. simpl in Hnc.
        destruct Hnc as [Hf _]. inversion Hf; subst. discriminate.
    - split.
      + intros srcs Ht E. pose proof (invoke_spec_s ds ss ckss srcs Hcs Hp Ht) as H. rewrite E in H. exact H.
      + intros chunkss Ht E. pose proof (stream_spec_s ds ss ckss chunkss Hcs Hp Ht) as H. rewrite E in H. exact H.
  Qed.

  (* Stream agrees with Invoke, static values included: one more chunk, equal to the Invoke
     result on the static paths and zero elsewhere *)
  Theorem stream_agrees_s : forall ds ss ckss srcs v,
    compile_s env T ds ss = CAccept ckss -> has_plain ds = false ->
    Forall2 (fun d s => has_type env (d_ty d) s = true) ds srcs ->
    run_invoke_s env T ds ss ckss srcs = Ok v ->
    exists vs, run_stream_from env T ds ckss (map (fun s => [s]) srcs) = Ok vs /\
      Forall2 (fun d vi =>
                 (forall from to, In (from, to) (d_maps d) -> take_path env vi to = take_path env v to) /\
                 (forall q z, q <> [] -> fresh_for q (map snd (d_maps d)) -> take_path env vi q = Ok z ->
                              exists st b, extract_ty env T q = SOk st b /\ z = zero st)) ds vs /\
      match ss with
      | [] => run_stream_s env T ds ss ckss (map (fun s => [s]) srcs) = Ok vs
      | _ => exists vst, run_stream_s env T ds ss ckss (map (fun s => [s]) srcs) = Ok (vs ++ [vst]) /\
                         (forall to x, In (to, x) ss -> take_path env vst to = take_path env v to) /\
                         (forall q z, q <> [] -> fresh_for q (map fst ss) -> take_path env vst q = Ok z ->
                                      exists st b, extract_ty env T q = SOk st b /\ z = zero st)
      end.
  Proof.
    intros ds ss ckss srcs v Hcs Hp Ht Hinv.
    destruct (compile_s_inv ds ss ckss Hcs) as [Hc Hs].
    destruct ss as [|s0 ss0].
    - simpl in Hinv. destruct (stream_agrees env T ds ckss srcs v Hc Hp Ht Hinv) as [vs [Hrs HF]].
      exists vs. unfold run_stream in Hrs. rewrite Hp in Hrs. split; [exact Hrs|]. split; [exact HF|].
      simpl. unfold run_stream. rewrite Hp. exact Hrs.
    - destruct Hs as [Hs|[Hnc Hvs]]; [discriminate|].
      pose proof (invoke_spec_s ds (s0 :: ss0) ckss srcs Hcs Hp Ht) as Hspec. rewrite Hinv in Hspec.
      destruct Hspec as [Hgd [Hgs _]].
      change (run_invoke_s env T ds (s0 :: ss0) ckss srcs)
        with (do ms <- edges_out env ds ckss srcs; do m <- merge_maps (ms ++ [s0 :: ss0]) []; convert_to env T m) in Hinv.
      remember (s0 :: ss0) as ss eqn:Ess.
      pose proof (has_plain_false _ Hp) as Hnp.
      pose proof (compile_no_conflict _ _ _ _ Hc) as Hncd.
      pose proof (compile_from_valid env T ds (Node []) ckss Hnp Hc) as Hv.
      destruct (edges_out env ds ckss srcs) as [mss|e|] eqn:Eo; simpl in Hinv; try discriminate.
      pose proof (edges_out_rel env T ds ckss srcs mss Hv Ht (no_conflict_decl ds Hnp Hncd) Eo) as Hrel.
      pose proof (no_conflict_each ds Hnp Hncd) as Hnce.
      (* per declaration: convert its own map, compare with v through Hgd *)
      assert (G : forall ds' ckss' srcs' mss',
                (forall d s from to, In (d, s) (combine ds' srcs') -> In (from, to) (d_maps d) ->
                   exists x st b, take_path env s from = Ok x /\ extract_ty env T to = SOk st b /\
                                  take_path env v to = Ok (conv st x)) ->
                edges_out env ds' ckss' srcs' = Ok mss' -> edges_rel env T ds' srcs' mss' ->
                Forall (fun d => no_conflict (map snd (d_maps d))) ds' ->
                exists vs, run_stream_from env T ds' ckss' (map (fun s => [s]) srcs') = Ok vs /\
                  Forall2 (fun d vi =>
                    (forall from to, In (from, to) (d_maps d) -> take_path env vi to = take_path env v to) /\
                    (forall q z, q <> [] -> fresh_for q (map snd (d_maps d)) -> take_path env vi q = Ok z ->
                                 exists st b, extract_ty env T q = SOk st b /\ z = zero st)) ds' vs).
      { intros ds' ckss' srcs' mss' Hg Eo' Hrel'. revert ckss' Eo' Hg.
        induction Hrel' as [|d s m ds' ss' ms HF Hfit Hrel' IH]; intros ckss' Eo' Hg Hn.
        - exists []. split; [destruct ckss'; reflexivity | constructor].
        - inversion Hn as [|? ? Hnd Hn']; subst.
          destruct ckss' as [|c cs]; [simpl in Eo'; discriminate|].
          simpl in Eo'. unfold edge_out in Eo'.
          destruct (field_map env (d_maps d) false s []) as [m0| |] eqn:Ef; try discriminate. simpl in Eo'.
          destruct (run_checks c m0) as [m1| |] eqn:Er; try discriminate. simpl in Eo'.
          destruct (edges_out env ds' cs ss') as [r| |] eqn:Eo2; try discriminate. simpl in Eo'.
          inversion Eo'; subst m1 r. clear Eo'.
          destruct (run_checks_spec _ _ _ Er) as [Em0 _]. subst m0.
          assert (Hkm : keys m = map snd (d_maps d)) by (apply (forall2_keys _ _ _ _ HF)).
          destruct (convert_to_spec env T m) as [vi [Hcvi [Hgeti Hzeroi]]].
          { rewrite Hkm. exact Hnd. }
          { exact Hfit. }
          destruct (IH cs Eo2) as [vs [Hvs' HF2]].
          { intros d' s' from to Hin Hmp. apply (Hg d' s' from to); [right; exact Hin | exact Hmp]. }
          { exact Hn'. }
          exists (vi :: vs). split.
          + simpl. unfold edge_out. rewrite (field_map_lenient_eq _ _ _ _ _ Ef). simpl. rewrite Er. simpl.
            rewrite Hcvi. simpl. rewrite Hvs'. reflexivity.
          + constructor; [|exact HF2]. split.
            * intros from to Hin. destruct (forall2_in_l _ _ _ _ _ HF Hin) as [[k x] [Hkx [Hk' Hx]]]. simpl in *. subst k.
              destruct (Hgeti to x Hkx) as [st [b [He Hr]]].
              destruct (Hg d s from to (or_introl eq_refl) Hin) as [x' [st' [b' [Hx' [He' Hr']]]]].
              rewrite Hx in Hx'. inversion Hx'; subst x'.
              rewrite Hr, Hr'. rewrite (extract_ty_fun env T _ _ _ _ _ He He'). reflexivity.
            * intros q z Hq Hfr Hr. apply Hzeroi; auto. rewrite Hkm. exact Hfr. }
      destruct (G ds ckss srcs mss Hgd Eo Hrel Hnce) as [vs [Hrs HF]].
      exists vs. split; [exact Hrs|]. split; [exact HF|].
      destruct (static_chunk_spec ds ss Hnc Hvs) as [vst [Hcv [Hsg Hsz]]].
      rewrite Ess. rewrite <- Ess.
      assert (Hrun : run_stream_s env T ds ss ckss (map (fun s => [s]) srcs) = Ok (vs ++ [vst])).
      { rewrite Ess. change (run_stream_s env T ds (s0 :: ss0) ckss (map (fun s => [s]) srcs))
          with (do vs <- run_stream_from env T ds ckss (map (fun s => [s]) srcs);
                do v <- convert_to env T (s0 :: ss0); Ok (vs ++ [v])).
        rewrite <- Ess. rewrite Hrs. simpl. rewrite Hcv. reflexivity. }
      rewrite Ess in *. exists vst. split; [exact Hrun|]. split; [|exact Hsz].
      intros to x Hin. destruct (Hsg to x Hin) as [st [b [He Hr]]].
      destruct (Hgs to x Hin) as [st' [b' [He' Hr']]].
      rewrite Hr, Hr'. rewrite (extract_ty_fun env T _ _ _ _ _ He He'). reflexivity.
  Qed.

  Lemma nodup_app_l : forall {A} (l l' : list A), NoDup (l ++ l') -> NoDup l.
  Proof.
    induction l as [|a l IH]; intros l' H; [constructor|]. simpl in H. inversion H; subst.
    constructor; [intro Hin; apply H2; apply in_or_app; left; exact Hin | eapply IH; eauto].
  Qed.

  (* the static values live in a Go map: their order is arbitrary, and does not matter *)
  Lemma validate_statics_perm : forall ss ss', Permutation ss ss' -> validate_statics env T ss = validate_statics env T ss'.
  Proof.
    intros ss ss' HP. induction HP as [|[to v] l l' _ IH|[to v] [to' v'] l|l l' l'' _ IH1 _ IH2]; simpl.
    - reflexivity.
    - rewrite IH. reflexivity.
    - destruct (extract_ty env T to') as [st' sb'|]; destruct (extract_ty env T to) as [st sb|]; simpl;
        rewrite ?andb_false_r; try reflexivity.
      rewrite !andb_assoc. f_equal. apply andb_comm.
    - congruence.
  Qed.

  Theorem compile_s_statics_perm : forall ds ss ss',
    Permutation ss ss' -> compile_s env T ds ss = compile_s env T ds ss'.
  Proof.
    intros ds ss ss' HP. unfold compile_s. destruct (compile env T ds) as [cks| |]; try reflexivity.
    destruct ss as [|s0 ss0]; destruct ss' as [|s0' ss0'].
    - reflexivity.
    - apply Permutation_nil in HP. discriminate.
    - apply Permutation_sym, Permutation_nil in HP. discriminate.
    - rewrite (overlap_check_perm (all_targets ds ++ map fst (s0 :: ss0)) (all_targets ds ++ map fst (s0' :: ss0'))).
      + rewrite (validate_statics_perm _ _ HP). reflexivity.
      + apply Permutation_app_head. apply Permutation_map. exact HP.
  Qed.

  Theorem run_invoke_s_statics_perm : forall ds ss ss' ckss srcs,
    compile_s env T ds ss = CAccept ckss -> has_plain ds = false ->
    Forall2 (fun d s => has_type env (d_ty d) s = true) ds srcs ->
    Permutation ss ss' ->
    run_invoke_s env T ds ss ckss srcs = run_invoke_s env T ds ss' ckss srcs.
  Proof.
    intros ds ss ss' ckss srcs Hcs Hp Ht HP.
    destruct (compile_s_inv ds ss ckss Hcs) as [Hc Hs].
    destruct ss as [|s0 ss0]; destruct ss' as [|s0' ss0'].
    - reflexivity.
    - apply Permutation_nil in HP. discriminate.
    - apply Permutation_sym, Permutation_nil in HP. discriminate.
    - destruct Hs as [Hs|[Hnc Hvs]]; [discriminate|].
      change (run_invoke_s env T ds (s0 :: ss0) ckss srcs)
        with (do ms <- edges_out env ds ckss srcs; do m <- merge_maps (ms ++ [s0 :: ss0]) []; convert_to env T m).
      change (run_invoke_s env T ds (s0' :: ss0') ckss srcs)
        with (do ms <- edges_out env ds ckss srcs; do m <- merge_maps (ms ++ [s0' :: ss0']) []; convert_to env T m).
      remember (s0 :: ss0) as ss eqn:Ess. remember (s0' :: ss0') as ss' eqn:Ess'. clear Ess Ess' Hcs.
      pose proof (has_plain_false _ Hp) as Hnp.
      pose proof (compile_no_conflict _ _ _ _ Hc) as Hncd.
      pose proof (compile_from_valid env T ds (Node []) ckss Hnp Hc) as Hv.
      destruct (edges_out env ds ckss srcs) as [mss|e|] eqn:Eo; simpl; try reflexivity.
      pose proof (edges_out_rel env T ds ckss srcs mss Hv Ht (no_conflict_decl ds Hnp Hncd) Eo) as Hrel.
      pose proof (edges_rel_keys env T ds srcs mss Hnp Hrel) as Hk.
      (* both merges succeed (disjoint keys) and give permuted lists *)
      assert (M : forall l, NoDup (keys (List.concat mss ++ l)) -> merge_maps (mss ++ [l]) [] = Ok (List.concat mss ++ l)).
      { intros l Hnd.
        assert (MI : forall m acc, NoDup (keys (acc ++ m)) -> merge_into m acc = Ok (acc ++ m)).
        { induction m as [|[k x] m IHm]; intros acc Hn; simpl; [rewrite app_nil_r; reflexivity|].
          rewrite fm_get_none.
          - rewrite IHm; [rewrite <- app_assoc; reflexivity | rewrite <- app_assoc; exact Hn].
          - unfold keys in Hn. rewrite map_app in Hn. simpl in Hn. apply NoDup_remove_2 in Hn.
            intro Hin. apply Hn. apply in_or_app. left. exact Hin. }
        assert (MM : forall ms acc, NoDup (keys (acc ++ List.concat ms)) -> merge_maps ms acc = Ok (acc ++ List.concat ms)).
        { induction ms as [|m ms IHms]; intros acc Hn; simpl; [rewrite app_nil_r; reflexivity|].
          simpl in Hn. rewrite MI.
          - simpl. rewrite IHms; [rewrite <- app_assoc; reflexivity | rewrite <- app_assoc; exact Hn].
          - rewrite app_assoc in Hn. unfold keys in *. rewrite map_app in Hn. apply nodup_app_l in Hn. exact Hn. }
        rewrite MM; simpl; rewrite concat_app; simpl; rewrite app_nil_r; [reflexivity | exact Hnd]. }
      assert (Hkeys : forall l, keys (List.concat mss ++ l) = all_targets ds ++ map fst l).
      { intro l. unfold keys in *. rewrite map_app, Hk. reflexivity. }
      assert (Hnc' : no_conflict (all_targets ds ++ map fst ss')).
      { eapply no_conflict_perm; [|exact Hnc]. apply Permutation_app_head. apply Permutation_map. exact HP. }
      rewrite (M ss) by (rewrite Hkeys; apply no_conflict_NoDup; exact Hnc).
      rewrite (M ss') by (rewrite Hkeys; apply no_conflict_NoDup; exact Hnc').
      simpl. apply convert_to_perm.
      + apply Permutation_app_head. exact HP.
      + rewrite Hkeys. exact Hnc.
  Qed.

  Theorem statics_order_independent : forall ds ss ss',
    Permutation ss ss' ->
    compile_s env T ds ss = compile_s env T ds ss' /\
    forall ckss srcs,
      compile_s env T ds ss = CAccept ckss -> has_plain ds = false ->
      Forall2 (fun d s => has_type env (d_ty d) s = true) ds srcs ->
      run_invoke_s env T ds ss ckss srcs = run_invoke_s env T ds ss' ckss srcs.
  Proof.
    intros ds ss ss' HP. split; [apply compile_s_statics_perm; exact HP|].
    intros ckss srcs Hc Hp Ht. apply run_invoke_s_statics_perm; assumption.
  Qed.
End RunsStatic.
