(* Proofs/RunLoopAfterRerun.v — property C06, second clause, the remaining case: the interrupt taken while another
   task of the same step asked for a rerun or was interrupted inside a nested graph (rerun_interrupt of
   Model/RunLoop.v). The segment ends there (the after_stops_successors theorems); here: what happens to the output of the
   interrupt-after node — it is kept in the channels of the checkpoint, no task is created from it (batch) /
   the tasks already created from the collected task's output stay pending (eager). Owner: C06. *)
From Coq Require Import Lia.
From Eino Require Import Base.Util Model.RunLoop.
Open Scope N_scope.

Section AfterRerun.
  Context {V CS GS SCP SINFO : Type}.
  Variable zero : V.
  Variable fold : CS -> list (N * V) -> res CS.
  Variable getr : CS -> res (CS * list (N * V)).
  Variable before after : list N.
  Notation tex := (@texec V SCP SINFO).

  Definition zero_tasks (rs : list (N * tex)) : list (N * V) :=
    map (fun kc : N * SCP => (fst kc, zero)) (subcps rs) ++ map (fun k : N => (k, zero)) (reruns rs).

  (* batch *)
  Lemma decide_rerun_keeps_outputs : forall cs (gs1 : GS) (rs : list (N * tex)) i (c : @checkpoint V CS GS SCP),
    decide zero fold getr before after cs gs1 rs = Interrupted i c ->
    negb (is_nil (subcps rs) && is_nil (reruns rs)) = true ->
    fold cs (outs rs) = Ok (cp_cs c) /\
    cp_inputs c = zero_tasks rs /\
    ii_after i = afters after rs /\ ii_rerun i = reruns rs /\ map fst (ii_subs i) = map fst (subcps rs).
  Proof.
    intros cs gs1 rs i c H Hrr. unfold decide in H.
    destruct (first_fail rs); [discriminate|]. rewrite Hrr in H. unfold rerun_interrupt in H.
    destruct (fold cs (outs rs)) as [cs1|e|]; try discriminate.
    inversion H; subst; simpl. repeat split; auto.
    clear. induction rs as [|[k x] rs IH]; simpl; auto. destruct x; simpl; auto. f_equal; auto.
  Qed.

  (* eager: the collected task itself asked for a rerun / was interrupted inside *)
  Lemma edecide_rerun_keeps_outputs : forall cs (gs1 : GS) (c : N * tex) rest sched' i (cp : @checkpoint V CS GS SCP),
    edecide zero fold getr before after false cs gs1 c rest sched' = EStop (Interrupted i cp) ->
    negb (is_nil (subcps [c]) && is_nil (reruns [c])) = true ->
    fold cs (outs (c :: rest)) = Ok (cp_cs cp) /\
    cp_inputs cp = zero_tasks (c :: rest) /\
    ii_after i = afters after (c :: rest) /\ ii_rerun i = reruns (c :: rest).
  Proof.
    intros cs gs1 c rest sched' i cp H Hrr. unfold edecide in H.
    destruct (first_fail [c]); [discriminate|]. rewrite Hrr in H.
    destruct (first_fail rest); [discriminate|]. unfold rerun_interrupt in H.
    destruct (fold cs (outs (c :: rest))) as [cs1|e|]; try discriminate.
    inversion H; subst; simpl. repeat split; auto.
  Qed.

  (* eager: the collected task completed; while the loop waited for the others at the interrupt point one of
     them asked for a rerun / was interrupted inside: the tasks already created from the collected task's
     output stay pending (held, not started), the outputs of the others are kept in the channels *)
  Lemma edecide_late_rerun_keeps_outputs : forall cs (gs1 : GS) (c : N * tex) rest sched' i (cp : @checkpoint V CS GS SCP),
    edecide zero fold getr before after false cs gs1 c rest sched' = EStop (Interrupted i cp) ->
    negb (is_nil (subcps [c]) && is_nil (reruns [c])) = false ->
    negb (is_nil (subcps rest) && is_nil (reruns rest)) = true ->
    exists cs2 ready,
      calc fold getr cs (outs [c]) = Ok (cs2, ready) /\
      fold cs2 (outs rest) = Ok (cp_cs cp) /\
      cp_inputs cp = ready ++ zero_tasks rest /\
      ii_before i = hits before ready /\
      ii_after i = afters after [c] ++ afters after rest /\ ii_rerun i = reruns rest.
  Proof.
    intros cs gs1 c rest sched' i cp H Hrr Hrr2. unfold edecide in H.
    destruct (first_fail [c]); [discriminate|]. rewrite Hrr in H.
    destruct (calc fold getr cs (outs [c])) as [[cs2 ready]|e|]; try discriminate.
    destruct (nlist_get kEnd ready); [discriminate|].
    destruct (is_nil (hits before ready) && is_nil (afters after [c])); [discriminate|].
    destruct (first_fail rest); [discriminate|]. rewrite Hrr2 in H. unfold rerun_interrupt in H.
    destruct (fold cs2 (outs rest)) as [cs1|e|] eqn:Hf; try discriminate.
    inversion H; subst; simpl. exists cs2, ready. repeat split; auto.
  Qed.
End AfterRerun.

(* non-vacuity: batch step with node 2 (interrupt-after) completed and node 3 asking for a rerun *)
Example decide_rerun_keeps_outputs_witness : exists i c,
  decide (V := N) (CS := list (N * N)) (GS := unit) (SCP := N) (SINFO := N) 0
         (fun cs o => Ok (cs ++ o)) (fun cs => Ok (cs, [])) [] [2] [] tt [(2, TDone 5); (3, TRerun)] = Interrupted i c /\
  cp_cs c = [(2, 5)] /\ cp_inputs c = [(3, 0)] /\ ii_after i = [2] /\ ii_rerun i = [3].
Proof. do 2 eexists. split; [reflexivity|]. repeat split; reflexivity. Qed.
