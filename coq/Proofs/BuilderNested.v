(* Proofs/BuilderNested.v — property C20, round 5: builders compiled as nodes of another builder
   (Model/BuilderNested.v).  A successful Compile of the outer graph has compiled — frozen — every
   inner graph one of its nodes holds; a frozen inner graph refuses every Add* and is never changed
   again by any call sequence on the outer graph or on the inner graphs (further Compiles included). *)
From Eino Require Import Base.Util Model.Builder Model.BuilderNested Proofs.Builder Proofs.BuilderSound Proofs.BuilderReject2 Proofs.BuilderSticky.
From Coq Require Import List String Bool Lia Permutation.
Import ListNotations.
Local Open Scope string_scope.
Local Open Scope list_scope.

(* ---- lists *)
Lemma insert_by_In : forall {A} (lt : A -> A -> bool) a x l, In x (insert_by lt a l) <-> x = a \/ In x l.
Proof.
  intros A lt a x l; induction l as [|b l IH]; simpl.
  - split; intros [H|H]; auto; contradiction.
  - destruct (lt a b); simpl; [split; intros [H|[H|H]]; auto|].
    rewrite IH. split; intros H; intuition.
Qed.

Lemma sort_by_In : forall {A} (lt : A -> A -> bool) l x, In x (sort_by lt l) <-> In x l.
Proof.
  intros A lt l x; induction l as [|a l IH]; simpl; [tauto|].
  unfold sort_by in *. simpl. rewrite insert_by_In, IH. split; intros [H|H]; auto.
Qed.

Lemma nlookup_nupdate_same : forall {A} k (v : A) l, nlookup k l <> None -> nlookup k (nupdate k v l) = Some v.
Proof.
  intros A k v l; induction l as [|[x w] l IH]; simpl; [congruence|].
  destruct (String.eqb k x) eqn:E; simpl; rewrite E; auto.
Qed.

Lemma nlookup_nupdate_other : forall {A} k k' (v : A) l, k <> k' -> nlookup k' (nupdate k v l) = nlookup k' l.
Proof.
  intros A k k' v l N; induction l as [|[x w] l IH]; simpl; [reflexivity|].
  destruct (String.eqb k x) eqn:E; simpl.
  - apply String.eqb_eq in E; subst x. destruct (String.eqb k' k) eqn:E'; [apply String.eqb_eq in E'; congruence|reflexivity].
  - destruct (String.eqb k' x); auto.
Qed.

Lemma nupdate_id : forall {A} k (v : A) l, nlookup k l = Some v -> nupdate k v l = l.
Proof.
  intros A k v l; induction l as [|[x w] l IH]; simpl; [reflexivity|].
  destruct (String.eqb k x) eqn:E; intros H.
  - apply String.eqb_eq in E; subst x. inversion H; reflexivity.
  - rewrite IH; auto.
Qed.

Lemma nlookup_app : forall {A} k (v : A) l l', nlookup k l = Some v -> nlookup k (l ++ l') = Some v.
Proof.
  intros A k v l l'; induction l as [|[x w] l IH]; simpl; [discriminate|].
  destruct (String.eqb k x); auto.
Qed.

(* ---- compiling the children *)
Lemma inner_compile_compiled : forall i oc, g_compiled (inner_graph i) = true -> inner_graph (fst (inner_compile i oc)) = inner_graph i.
Proof.
  intros [g|c] oc C; simpl in *.
  - pose proof (compiled_compile g oc C) as S. destruct (g_compile fixed g oc); simpl in *; assumption.
  - pose proof (compiled_c_compile c oc C) as S. destruct (c_compile fixed c oc); simpl in *; assumption.
Qed.

Lemma inner_compile_ok_compiled : forall i oc i' r, inner_compile i oc = (i', OCompiled r) -> g_compiled (inner_graph i') = true.
Proof.
  intros [g|c] oc i' r; simpl.
  - destruct (g_compile fixed g oc) as [g' o] eqn:G. intros H; inversion H; subst. simpl. eapply g_compile_ok_compiled; eauto.
  - destruct (c_compile fixed c oc) as [c' o] eqn:G. intros H; inversion H; subst. simpl. eapply c_compile_ok_compiled; eauto.
Qed.

Lemma cc_keeps_compiled : forall ids inn inn' f id i,
  compile_children ids inn = (inn', f) -> nlookup id inn = Some i -> g_compiled (inner_graph i) = true ->
  exists i', nlookup id inn' = Some i' /\ inner_graph i' = inner_graph i.
Proof.
  induction ids as [|[id0 oc0] ids IH]; intros inn inn' f id i H L C; simpl in H.
  - inversion H; subst. exists i; auto.
  - destruct (nlookup id0 inn) as [g0|] eqn:L0; [|eapply IH; eauto].
    destruct (inner_compile g0 oc0) as [g0' o] eqn:G.
    assert (K : exists i1, nlookup id (nupdate id0 g0' inn) = Some i1 /\ inner_graph i1 = inner_graph i).
    { destruct (String.eqb id0 id) eqn:E.
      - apply String.eqb_eq in E; subst id0. rewrite L in L0; inversion L0; subst g0.
        pose proof (inner_compile_compiled i oc0 C) as S. rewrite G in S; simpl in S.
        exists g0'. split; [apply nlookup_nupdate_same; congruence|assumption].
      - apply String.eqb_neq in E. exists i. rewrite nlookup_nupdate_other; auto. }
    destruct K as [i1 [K1 K2]].
    destruct o; try solve [inversion H; subst; exists i1; auto].
    assert (C1 : g_compiled (inner_graph i1) = true) by (rewrite K2; assumption).
    destruct (IH _ _ _ _ _ H K1 C1) as [i2 [A B]].
    exists i2. split; [assumption|congruence].
Qed.

Lemma cc_dom : forall ids inn inn' f id,
  compile_children ids inn = (inn', f) -> nlookup id inn = None -> nlookup id inn' = None.
Proof.
  induction ids as [|[id0 oc0] ids IH]; intros inn inn' f id H L; simpl in H.
  - inversion H; subst; assumption.
  - destruct (nlookup id0 inn) as [g0|] eqn:L0; [|eapply IH; eauto].
    destruct (inner_compile g0 oc0) as [g0' o] eqn:G.
    assert (K : nlookup id (nupdate id0 g0' inn) = None).
    { destruct (String.eqb id0 id) eqn:E.
      - apply String.eqb_eq in E; subst id0. congruence.
      - apply String.eqb_neq in E. rewrite nlookup_nupdate_other; assumption. }
    destruct o; try (inversion H; subst; assumption).
    eapply IH; eauto.
Qed.

Lemma cc_all_compiled : forall ids inn inn',
  compile_children ids inn = (inn', None) ->
  forall id oc i, In (id, oc) ids -> nlookup id inn' = Some i -> g_compiled (inner_graph i) = true.
Proof.
  induction ids as [|[id0 oc0] ids IH]; intros inn inn' H id oc i I L; simpl in *; [contradiction|].
  destruct (nlookup id0 inn) as [g0|] eqn:L0.
  - destruct (inner_compile g0 oc0) as [g0' o] eqn:G.
    destruct o; try discriminate.
    destruct I as [I|I].
    + inversion I; subst id0 oc0. pose proof (inner_compile_ok_compiled _ _ _ _ G) as C.
      assert (K : nlookup id (nupdate id g0' inn) = Some g0') by (apply nlookup_nupdate_same; congruence).
      destruct (cc_keeps_compiled _ _ _ _ _ _ H K C) as [i' [A B]]. rewrite A in L; inversion L; subst. rewrite B; assumption.
    + eapply IH; eauto.
  - destruct I as [I|I].
    + inversion I; subst id0 oc0. pose proof (cc_dom _ _ _ _ _ H L0). congruence.
    + eapply IH; eauto.
Qed.

Lemma not_reaching_fails : forall g o, reaches_children g o = false -> exists e, g_compile fixed g o = (g, OErr e).
Proof.
  intros g o. unfold reaches_children, g_compile. destruct (g_err g); [intros _; eexists; reflexivity|].
  cbn [v_untyped_check v_prenode_copy fixed].
  destruct (match g_cmp g with CGraph => false | _ => true end && is_some (o_trigger o)); [intros _; eexists; reflexivity|].
  destruct (is_nil (g_starts g)); [intros _; eexists; reflexivity|].
  destruct (is_nil (g_ends g)); [intros _; eexists; reflexivity|].
  destruct (is_nil (g_pending g)); simpl; [|intros _; eexists; reflexivity].
  destruct (has_untyped g); simpl; [intros _; eexists; reflexivity|].
  destruct (existsb (fun kf => has_dup (snd kf)) (g_fm g)); simpl; [intros _; eexists; reflexivity|].
  discriminate.
Qed.

(* ---- a successful Compile of the outer graph freezes the children *)
(* the inner builder [id] is compiled and its graph is [g] *)
Definition child_frozen (s : nstate) (id : string) (g : gstate) : Prop :=
  exists i, nlookup id (ns_inn s) = Some i /\ inner_graph i = g /\ g_compiled g = true.

Lemma n_compile_freezes : forall keys s o s1 r k id oc i,
  n_compile_in keys s o = (s1, OCompiled r) ->
  In k keys -> nlookup k (ns_att s) = Some (id, oc) -> nlookup id (ns_inn s1) = Some i -> g_compiled (inner_graph i) = true.
Proof.
  intros keys s o s1 r k id oc gi H I A L. unfold n_compile_in in H.
  destruct (reaches_children (ns_out s) o) eqn:R.
  - destruct (compile_children (children_of s keys) (ns_inn s)) as [inn' failed] eqn:CC.
    destruct failed as [out|].
    + destruct out; inversion H.
    + destruct (g_compile fixed (ns_out s) o) as [g' out]. inversion H; subst. simpl in L.
      eapply cc_all_compiled; eauto. unfold children_of. apply in_flat_map. exists k. rewrite A. simpl; auto.
  - destruct (not_reaching_fails _ _ R) as [e E]. rewrite E in H. inversion H.
Qed.

Theorem nested_compile_freezes_children : forall s o s1 r k id oc i,
  nstep s (NOuter (GCompile o)) = (s1, OCompiled r) ->
  In k (map fst (g_nodes (ns_out s))) -> nlookup k (ns_att s) = Some (id, oc) -> nlookup id (ns_inn s1) = Some i ->
  child_frozen s1 id (inner_graph i).
Proof.
  intros s o s1 r k id oc i H I A L. exists i. split; [assumption|]. split; [reflexivity|]. simpl in H.
  eapply n_compile_freezes; eauto. apply sort_by_In; assumption.
Qed.

(* ---- a frozen child refuses every modification, and no call changes its graph *)
Lemma mkN_eta : forall s, mkN (ns_out s) (ns_inn s) (ns_att s) = s.
Proof. destruct s; reflexivity. Qed.

(* a Graph child: every Add* is answered with ErrGraphCompiled, nothing changes *)
Theorem nested_frozen_child_refuses : forall s id gi c,
  nlookup id (ns_inn s) = Some (IG gi) -> g_compiled gi = true -> g_err gi = None -> is_add c = true ->
  nstep s (NInner id (KG c)) = (s, OErr ECompiled).
Proof.
  intros s id gi c L C E A. simpl. rewrite L. simpl.
  rewrite (compiled_add_refused gi c C E A). rewrite (nupdate_id _ _ _ L), mkN_eta. reflexivity.
Qed.

(* a Chain child: an Append* cannot return an error; it leaves the graph alone and records ErrChainCompiled, which the
   chain's compile — the one its parent calls — returns from then on *)
Theorem nested_frozen_chain_child_reports : forall s id ch nk key ns,
  nlookup id (ns_inn s) = Some (IC ch) -> g_compiled (c_g ch) = true ->
  exists ch', nlookup id (ns_inn (fst (nstep s (NInner id (KC (CAppend nk key ns)))))) = Some (IC ch')
    /\ c_g ch' = c_g ch /\ exists e, c_err ch' = Some e /\ forall oc, inner_compile (IC ch') oc = (IC ch', OErr e).
Proof.
  intros s id ch nk key ns L C. simpl. rewrite L. simpl.
  exists (c_append ch nk key ns). split; [apply nlookup_nupdate_same; congruence|].
  split; [apply frozen_c_append; left; assumption|].
  pose proof (compiled_append_reported ch nk key ns C) as R.
  destruct (c_err (c_append ch nk key ns)) as [e|] eqn:E; [|congruence].
  exists e. split; [reflexivity|]. intros oc. simpl. rewrite (c_compile_err _ oc _ E). reflexivity.
Qed.

Lemma istep_compiled : forall i c, g_compiled (inner_graph i) = true -> inner_graph (fst (istep i c)) = inner_graph i.
Proof.
  intros [g|ch] [c|c] C; simpl in *; try reflexivity.
  - pose proof (compiled_gstep g c C) as S. destruct (gstep fixed g c); simpl in *; assumption.
  - pose proof (compiled_cstep ch c C) as S. destruct (cstep fixed ch c); simpl in *; assumption.
Qed.

Lemma nstep_keeps_frozen : forall s c id g, child_frozen s id g -> child_frozen (fst (nstep s c)) id g.
Proof.
  intros s c id g [i [L [EQ C]]]. destruct c as [c'|k id0 kd oc0|id0 c'].
  - assert (Other : forall g' (o : outcome), child_frozen (mkN g' (ns_inn s) (ns_att s)) id g) by (intros; exists i; auto).
    destruct c' as [k nk a b|a b|a ends|o]; simpl;
      try (match goal with |- context [let '(_, _) := ?X in _] => destruct X end; simpl; apply Other; exact OOk).
    assert (Ci : g_compiled (inner_graph i) = true) by (rewrite EQ; assumption).
    unfold n_compile_in. destruct (reaches_children (ns_out s) o).
    + destruct (compile_children (children_of s (sorted_keys (ns_out s))) (ns_inn s)) as [inn' failed] eqn:CC.
      destruct (cc_keeps_compiled _ _ _ _ _ _ CC L Ci) as [i' [K1 K2]].
      destruct failed; [|destruct (g_compile fixed (ns_out s) o)]; simpl; exists i'; (split; [assumption|split; [congruence|assumption]]).
    + destruct (g_compile fixed (ns_out s) o); simpl; exists i; auto.
  - simpl. destruct (g_add_node (ns_out s) k NSubOk false false false) as [g' o]. simpl. exists i. split; [|auto].
    destruct (nlookup id0 (ns_inn s)); [assumption|apply nlookup_app; assumption].
  - simpl. destruct (nlookup id0 (ns_inn s)) as [g0|] eqn:L0; [|exists i; auto].
    destruct (istep g0 c') as [g0' o] eqn:G. simpl. cbn [ns_inn].
    destruct (String.eqb id0 id) eqn:E.
    + apply String.eqb_eq in E; subst id0. rewrite L in L0; inversion L0; subst g0.
      assert (Ci : g_compiled (inner_graph i) = true) by (rewrite EQ; assumption).
      pose proof (istep_compiled i c' Ci) as S. rewrite G in S; simpl in S.
      exists g0'. cbn [ns_inn]. split; [apply nlookup_nupdate_same; congruence|split; [congruence|assumption]].
    + apply String.eqb_neq in E. exists i. cbn [ns_inn]. rewrite nlookup_nupdate_other; auto.
Qed.

Theorem nested_frozen_child_unchanged : forall cs s id g,
  child_frozen s id g -> child_frozen (final nstep s cs) id g.
Proof.
  unfold final. induction cs as [|c cs IH]; intros s id g F; simpl; [assumption|].
  pose proof (nstep_keeps_frozen s c id g F) as F1. destruct (nstep s c) as [s1 o]; simpl in F1.
  specialize (IH s1 id g F1). destruct (run_calls nstep s1 cs); simpl in *; assumption.
Qed.

(* after a successful Compile of the outer graph: every inner builder held by one of its nodes is compiled and its graph
   stays what it is under every later call sequence; a Graph child answers every Add* with ErrGraphCompiled *)
Theorem nested_no_modification_after_compile : forall s o s1 r k id oc i cs,
  nstep s (NOuter (GCompile o)) = (s1, OCompiled r) ->
  In k (map fst (g_nodes (ns_out s))) -> nlookup k (ns_att s) = Some (id, oc) -> nlookup id (ns_inn s1) = Some i ->
  let s2 := final nstep s1 cs in
  child_frozen s2 id (inner_graph i)
  /\ (forall gi c, nlookup id (ns_inn s2) = Some (IG gi) -> g_err gi = None -> is_add c = true ->
        nstep s2 (NInner id (KG c)) = (s2, OErr ECompiled)).
Proof.
  intros s o s1 r k id oc i cs H I A L s2.
  pose proof (nested_compile_freezes_children _ _ _ _ _ _ _ _ H I A L) as F.
  pose proof (nested_frozen_child_unchanged cs _ _ _ F) as F2. split; [exact F2|].
  intros gi c L2 E Ad. destruct F2 as [i2 [L3 [EQ C]]]. fold s2 in L3. rewrite L2 in L3; inversion L3; subst i2. simpl in EQ.
  apply nested_frozen_child_refuses with (gi := gi); try assumption. rewrite EQ; assumption.
Qed.

(* ---- the order in which the children are compiled matters when one of them fails (F-C20g) *)
Definition two_children : nstate :=
  final nstep (n_init false)
    [NSub "x" "s1" (SKGraph true) opt_default; NSub "y" "s2" (SKGraph false) opt_default; NOuter (GAddEdge START "x"); NOuter (GAddEdge "x" "y"); NOuter (GAddEdge "y" END_)].

Definition probe (keys : list string) : outcome :=
  snd (nstep (fst (n_compile_in keys two_children opt_default)) (NInner "s1" (KG (GAddNode "t" NLambda false false)))).

Lemma child_order_matters : probe ["x"; "y"] = OErr ECompiled /\ probe ["y"; "x"] = OOk.
Proof. split; vm_compute; reflexivity. Qed.

Lemma child_order_fixed : snd (nstep two_children (NOuter (GCompile opt_default))) = OErr ENoStart
  /\ snd (nstep (fst (nstep two_children (NOuter (GCompile opt_default)))) (NInner "s1" (KG (GAddNode "t" NLambda false false)))) = OErr ECompiled.
Proof. split; vm_compute; reflexivity. Qed.

Lemma child_order_v0_false :
  ~ (forall keys1 keys2 s o id c, Permutation keys1 keys2 ->
       snd (nstep (fst (n_compile_in keys1 s o)) (NInner id c)) = snd (nstep (fst (n_compile_in keys2 s o)) (NInner id c))).
Proof.
  intros H. specialize (H ["x"; "y"] ["y"; "x"] two_children opt_default "s1" (KG (GAddNode "t" NLambda false false)) (perm_swap _ _ _)).
  destruct child_order_matters as [A B]. unfold probe in A, B. rewrite A, B in H. discriminate H.
Qed.

Definition one_child_run : list ncall :=
  [NSub "x" "s1" (SKGraph true) opt_default; NSub "y" "s2" (SKChain true) opt_default; NOuter (GAddEdge START "x"); NOuter (GAddEdge "x" "y"); NOuter (GAddEdge "y" END_);
   NOuter (GCompile opt_default);
   NInner "s1" (KG (GAddNode "t" NLambda false false)); NInner "s1" (KG (GAddEdge "s" "s")); NOuter (GCompile opt_default);
   NInner "s2" (KC (CAppend NLambda None false)); NInner "s2" (KC (CCompile opt_default)); NOuter (GCompile opt_default)].

Lemma one_child_run_outcomes :
  match snd (run_calls nstep (n_init false) one_child_run) with
  | [OOk; OOk; OOk; OOk; OOk; OCompiled _; OErr ECompiled; OErr ECompiled; OCompiled _; OOk; OErr EChainCompiled; OErr EChainCompiled] => True
  | _ => False
  end.
Proof. vm_compute. exact I. Qed.

(* ---- every attachment names a node of the outer graph, in every reachable state *)
Definition att_inv (s : nstate) : Prop :=
  forall k id, nlookup k (ns_att s) = Some id -> In k (keys (ns_out s)).

Lemma add_node_keys_incl : forall g k nk a b c x, In x (keys g) -> In x (keys (fst (g_add_node g k nk a b c))).
Proof.
  intros g k nk a b c x I. unfold g_add_node. destruct (g_err g); [assumption|].
  repeat (match goal with |- context [if ?X then _ else _] => destruct X end; try assumption).
  unfold keys in *. simpl. rewrite map_app. apply in_or_app. left; assumption.
Qed.

Lemma add_node_ok_in : forall g k nk a b c g', g_add_node g k nk a b c = (g', OOk) -> In k (keys g').
Proof.
  intros g k nk a b c g'. unfold g_add_node. destruct (g_err g); [discriminate|].
  repeat (match goal with |- context [if ?X then _ else _] => destruct X end; try (unfold fail; discriminate)).
  intros H; inversion H; subst. unfold keys. simpl. rewrite map_app. apply in_or_app. right; simpl; auto.
Qed.

Lemma g_compile_keys : forall g o, keys (fst (g_compile fixed g o)) = keys g.
Proof. intros g o. destruct (g_compile_fixed_state g o) as [H|H]; rewrite H; reflexivity. Qed.

Lemma gstep_keys_incl : forall g c x, In x (keys g) -> In x (keys (fst (gstep fixed g c))).
Proof.
  intros g [k nk a b|s e|s ends|o] x I; simpl.
  - apply add_node_keys_incl; assumption.
  - rewrite keys_add_edge; assumption.
  - rewrite keys_add_branch; assumption.
  - rewrite g_compile_keys; assumption.
Qed.

Lemma nlookup_app_inv : forall {A} k (v : A) l k0 v0,
  nlookup k (l ++ [(k0, v0)]) = Some v -> nlookup k l = Some v \/ k = k0.
Proof.
  intros A k v l k0 v0; induction l as [|[x w] l IH]; simpl.
  - destruct (String.eqb k k0) eqn:E; [apply String.eqb_eq in E; auto|discriminate].
  - destruct (String.eqb k x); auto.
Qed.

Lemma n_compile_out : forall ks s o, ns_att (fst (n_compile_in ks s o)) = ns_att s /\ keys (ns_out (fst (n_compile_in ks s o))) = keys (ns_out s).
Proof.
  intros ks s o. unfold n_compile_in. destruct (reaches_children (ns_out s) o).
  - destruct (compile_children (children_of s ks) (ns_inn s)) as [inn' failed]. destruct failed.
    + simpl; auto.
    + pose proof (g_compile_keys (ns_out s) o) as K. destruct (g_compile fixed (ns_out s) o); simpl in *; auto.
  - pose proof (g_compile_keys (ns_out s) o) as K. destruct (g_compile fixed (ns_out s) o); simpl in *; auto.
Qed.

Lemma nstep_att_inv : forall s c, att_inv s -> att_inv (fst (nstep s c)).
Proof.
  intros s c I. destruct c as [c'|k id0 ok oc0|id0 c'].
  - destruct c' as [k nk a b|a b|a ends|o].
    1-3: (simpl; match goal with |- context [let '(_, _) := ?X in _] => pose proof (gstep_keys_incl (ns_out s)) as G; destruct X eqn:E end;
          simpl; intros k' id' L; specialize (I k' id' L)).
    + specialize (G (GAddNode k nk a b) k' I). simpl in G. rewrite E in G. exact G.
    + specialize (G (GAddEdge a b) k' I). simpl in G. rewrite E in G. exact G.
    + specialize (G (GAddBranch a ends) k' I). simpl in G. rewrite E in G. exact G.
    + simpl. destruct (n_compile_out (sorted_keys (ns_out s)) s o) as [A K]. intros k' id' L. rewrite A in L. rewrite K. apply I with id'; assumption.
  - simpl. destruct (g_add_node (ns_out s) k NSubOk false false false) as [g' o] eqn:E. simpl. intros k' id' L.
    assert (Old : nlookup k' (ns_att s) = Some id' -> In k' (keys g')).
    { intros L0. pose proof (add_node_keys_incl (ns_out s) k NSubOk false false false k' (I _ _ L0)) as G. rewrite E in G. exact G. }
    destruct o; auto.
    apply nlookup_app_inv in L. destruct L as [L|L]; [auto|]. subst k'. eapply add_node_ok_in; eauto.
  - simpl. destruct (nlookup id0 (ns_inn s)) as [i0|]; [|assumption]. destruct (istep i0 c'). exact I.
Qed.

Lemma reachable_att_inv : forall cs s, att_inv s -> att_inv (final nstep s cs).
Proof.
  unfold final. induction cs as [|c cs IH]; intros s I; simpl; [assumption|].
  pose proof (nstep_att_inv s c I) as I1. destruct (nstep s c) as [s1 o]; simpl in I1.
  specialize (IH s1 I1). destruct (run_calls nstep s1 cs); simpl in *; assumption.
Qed.

Lemma att_inv_init : forall st, att_inv (n_init st).
Proof. intros st k id L. discriminate L. Qed.

(* the theorem for the states the correspondence replays: whatever was called before *)
Theorem nested_no_modification_after_compile_reachable : forall st cs0 o s1 r k id oc i cs,
  let s := final nstep (n_init st) cs0 in
  nstep s (NOuter (GCompile o)) = (s1, OCompiled r) ->
  nlookup k (ns_att s) = Some (id, oc) -> nlookup id (ns_inn s1) = Some i ->
  let s2 := final nstep s1 cs in
  child_frozen s2 id (inner_graph i)
  /\ (forall gi c, nlookup id (ns_inn s2) = Some (IG gi) -> g_err gi = None -> is_add c = true ->
        nstep s2 (NInner id (KG c)) = (s2, OErr ECompiled)).
Proof.
  intros st cs0 o s1 r k id oc i cs s H A L.
  apply nested_no_modification_after_compile with (s := s) (o := o) (r := r) (k := k) (oc := oc); try assumption.
  apply (reachable_att_inv cs0 (n_init st) (att_inv_init st)) with (id, oc). exact A.
Qed.

(* the options of a node (WithGraphCompileOptions) are the options its child is compiled with: a Chain child refuses a
   trigger mode, a Graph child compiled in all-predecessor mode refuses its cycle — the parent's Compile returns that error *)
Definition child_options_run : list ncall :=
  [NSub "x" "s1" (SKChain true) (mkOpt (Some true) 0%Z); NOuter (GAddEdge START "x"); NOuter (GAddEdge "x" END_); NOuter (GCompile opt_default);
   NSub "y" "s2" (SKGraph true) (mkOpt (Some true) 0%Z)].
Definition child_options_run2 : list ncall :=
  [NSub "y" "s2" (SKGraph true) (mkOpt (Some true) 0%Z); NOuter (GAddEdge START "y"); NOuter (GAddEdge "y" END_);
   NInner "s2" (KG (GAddEdge "s" "s")); NOuter (GCompile opt_default); NInner "s2" (KG (GCompile opt_default))].

Lemma child_options_run_outcomes :
  match snd (run_calls nstep (n_init false) child_options_run), snd (run_calls nstep (n_init false) child_options_run2) with
  | [OOk; OOk; OOk; OErr ETriggerUnsupported; OOk], [OOk; OOk; OOk; OOk; OErr EDagLoop; OCompiled _] => True
  | _, _ => False
  end.
Proof. vm_compute. exact I. Qed.

(* ---- a Chain child that carries a deferred error (an Append* after it was compiled: ErrChainCompiled) blocks every
   later Compile of the graph that holds it *)
Definition chain_err (s : nstate) (id : string) (e : ecls) : Prop :=
  exists ch, nlookup id (ns_inn s) = Some (IC ch) /\ c_err ch = Some e.

Lemma cc_keeps_chain_err : forall ids inn inn' f id ch e,
  compile_children ids inn = (inn', f) -> nlookup id inn = Some (IC ch) -> c_err ch = Some e ->
  nlookup id inn' = Some (IC ch).
Proof.
  induction ids as [|[id0 oc0] ids IH]; intros inn inn' f id ch e H L E; simpl in H.
  - inversion H; subst; assumption.
  - destruct (nlookup id0 inn) as [g0|] eqn:L0; [|eapply IH; eauto].
    destruct (inner_compile g0 oc0) as [g0' o] eqn:G.
    assert (K : nlookup id (nupdate id0 g0' inn) = Some (IC ch)).
    { destruct (String.eqb id0 id) eqn:Q.
      - apply String.eqb_eq in Q; subst id0. rewrite L in L0; inversion L0; subst g0.
        simpl in G. rewrite (c_compile_err _ oc0 _ E) in G. inversion G; subst.
        rewrite nupdate_id; assumption.
      - apply String.eqb_neq in Q. rewrite nlookup_nupdate_other; assumption. }
    destruct o; try solve [inversion H; subst; assumption].
    eapply IH; eauto.
Qed.

Lemma cc_fails_on_chain_err : forall ids inn id oc ch e,
  In (id, oc) ids -> nlookup id inn = Some (IC ch) -> c_err ch = Some e ->
  snd (compile_children ids inn) <> None.
Proof.
  induction ids as [|[id0 oc0] ids IH]; intros inn id oc ch e I L E; simpl in *; [contradiction|].
  destruct (nlookup id0 inn) as [g0|] eqn:L0.
  - destruct (inner_compile g0 oc0) as [g0' o] eqn:G.
    destruct o; simpl; try discriminate.
    destruct (String.eqb id0 id) eqn:Q.
    + apply String.eqb_eq in Q; subst id0. rewrite L in L0; inversion L0; subst g0.
      simpl in G. rewrite (c_compile_err _ oc0 _ E) in G. inversion G.
    + apply String.eqb_neq in Q. destruct I as [I|I]; [inversion I; congruence|].
      apply (IH _ id oc ch e I); [rewrite nlookup_nupdate_other; assumption|assumption].
  - destruct I as [I|I]; [inversion I; subst; congruence|]. eapply IH; eauto.
Qed.

Theorem chain_err_blocks_compile : forall keys s o k id oc e,
  In k keys -> nlookup k (ns_att s) = Some (id, oc) -> chain_err s id e ->
  forall r, snd (n_compile_in keys s o) <> OCompiled r.
Proof.
  intros keys s o k id oc e I A [ch [L E]] r. unfold n_compile_in.
  destruct (reaches_children (ns_out s) o) eqn:R.
  - assert (In (id, oc) (children_of s keys)) as IC1.
    { unfold children_of. apply in_flat_map. exists k. rewrite A. simpl; auto. }
    pose proof (cc_fails_on_chain_err _ _ _ _ _ _ IC1 L E) as F.
    destruct (compile_children (children_of s keys) (ns_inn s)) as [inn' failed]. simpl in F.
    destruct failed as [out|]; [|congruence]. destruct out; simpl; discriminate.
  - destruct (not_reaching_fails _ _ R) as [e' E']. rewrite E'. simpl. discriminate.
Qed.

Lemma nstep_keeps_chain_err : forall s c id e, chain_err s id e -> chain_err (fst (nstep s c)) id e.
Proof.
  intros s c id e [ch [L E]]. destruct c as [c'|k id0 kd oc0|id0 c'].
  - assert (Other : forall g' (o : outcome), chain_err (mkN g' (ns_inn s) (ns_att s)) id e) by (intros; exists ch; auto).
    destruct c' as [k nk a b|a b|a ends|o]; simpl;
      try (match goal with |- context [let '(_, _) := ?X in _] => destruct X end; simpl; apply Other; exact OOk).
    unfold n_compile_in. destruct (reaches_children (ns_out s) o).
    + destruct (compile_children (children_of s (sorted_keys (ns_out s))) (ns_inn s)) as [inn' failed] eqn:CC.
      pose proof (cc_keeps_chain_err _ _ _ _ _ _ _ CC L E) as K.
      destruct failed; [|destruct (g_compile fixed (ns_out s) o)]; simpl; exists ch; auto.
    + destruct (g_compile fixed (ns_out s) o); simpl; exists ch; auto.
  - simpl. destruct (g_add_node (ns_out s) k NSubOk false false false) as [g' o]. simpl.
    destruct (nlookup id0 (ns_inn s)); [exists ch; auto|]. exists ch; split; [apply nlookup_app; assumption|assumption].
  - simpl. destruct (nlookup id0 (ns_inn s)) as [g0|] eqn:L0; [|exists ch; auto].
    destruct (istep g0 c') as [g0' o] eqn:G. simpl. cbn [ns_inn].
    destruct (String.eqb id0 id) eqn:Q.
    + apply String.eqb_eq in Q; subst id0. rewrite L in L0; inversion L0; subst g0.
      destruct c' as [gc|cc]; simpl in G.
      * inversion G; subst. exists ch. cbn [ns_inn]. split; [rewrite nupdate_id; assumption|assumption].
      * destruct (cstep fixed ch cc) as [ch' o'] eqn:CS. inversion G; subst.
        exists ch'. cbn [ns_inn]. split; [apply nlookup_nupdate_same; congruence|].
        pose proof (proj1 (cstep_err ch cc e E)) as P. rewrite CS in P. exact P.
    + apply String.eqb_neq in Q. exists ch. cbn [ns_inn]. rewrite nlookup_nupdate_other; auto.
Qed.

Lemma chain_err_final : forall cs s id e, chain_err s id e -> chain_err (final nstep s cs) id e.
Proof.
  unfold final. induction cs as [|c cs IH]; intros s id e F; simpl; [assumption|].
  pose proof (nstep_keeps_chain_err s c id e F) as F1. destruct (nstep s c) as [s1 o]; simpl in F1.
  specialize (IH s1 id e F1). destruct (run_calls nstep s1 cs); simpl in *; assumption.
Qed.

Lemma att_kept : forall s c k v, nlookup k (ns_att s) = Some v -> nlookup k (ns_att (fst (nstep s c))) = Some v.
Proof.
  intros s c k v A. destruct c as [c'|k0 id0 kd oc0|id0 c'].
  - destruct c' as [k1 nk a b|a b|a ends|o]; simpl;
      try (match goal with |- context [let '(_, _) := ?X in _] => destruct X end; simpl; assumption).
    destruct (n_compile_out (sorted_keys (ns_out s)) s o) as [AA _]. rewrite AA. assumption.
  - simpl. destruct (g_add_node (ns_out s) k0 NSubOk false false false) as [g' o]. simpl.
    destruct o; try assumption. apply nlookup_app; assumption.
  - simpl. destruct (nlookup id0 (ns_inn s)) as [i0|]; [|assumption]. destruct (istep i0 c'). assumption.
Qed.

Lemma att_final : forall cs s k v, nlookup k (ns_att s) = Some v -> nlookup k (ns_att (final nstep s cs)) = Some v.
Proof.
  unfold final. induction cs as [|c cs IH]; intros s k v A; simpl; [assumption|].
  pose proof (att_kept s c k v A) as A1. destruct (nstep s c) as [s1 o]; simpl in A1.
  specialize (IH s1 k v A1). destruct (run_calls nstep s1 cs); simpl in *; assumption.
Qed.

(* "After a successful Compile the graph can no longer be modified", through a Chain child: once a Chain held by a node of
   the outer graph has been compiled, an Append* on it is recorded (ErrChainCompiled) and NO later Compile of the outer graph
   succeeds, whatever else is called in between *)
Theorem nested_chain_child_append_blocks : forall st cs0 k id oc ch nk key ns cs o r,
  let s := final nstep (n_init st) cs0 in
  nlookup k (ns_att s) = Some (id, oc) -> nlookup id (ns_inn s) = Some (IC ch) -> g_compiled (c_g ch) = true ->
  let s1 := fst (nstep s (NInner id (KC (CAppend nk key ns)))) in
  snd (nstep (final nstep s1 cs) (NOuter (GCompile o))) <> OCompiled r.
Proof.
  intros st cs0 k id oc ch nk key ns cs o r s A L C s1.
  destruct (nested_frozen_chain_child_reports s id ch nk key ns L C) as [ch' [L1 [_ [e [E _]]]]].
  assert (CE : chain_err s1 id e) by (exists ch'; auto).
  pose proof (chain_err_final cs s1 id e CE) as CE2.
  pose proof (reachable_att_inv cs0 (n_init st) (att_inv_init st) k (id, oc) A) as IK.
  pose proof (att_kept s (NInner id (KC (CAppend nk key ns))) k (id, oc) A) as A1. fold s1 in A1.
  pose proof (att_final cs s1 k (id, oc) A1) as A2.
  simpl. apply chain_err_blocks_compile with (k := k) (id := id) (oc := oc) (e := e); try assumption.
  apply sort_by_In.
  apply (reachable_att_inv cs (s1)) with (id, oc); [|exact A2].
  apply nstep_att_inv. apply (reachable_att_inv cs0 (n_init st) (att_inv_init st)).
Qed.
