(* Proofs/BuilderNested.v — property C20, round 5: builders compiled as nodes of another builder
   (Model/BuilderNested.v).  A successful Compile of the outer graph has compiled — frozen — every
   inner graph one of its nodes holds; a frozen inner graph refuses every Add* and is never changed
   again by any call sequence on the outer graph or on the inner graphs (further Compiles included). *)
From Eino Require Import Base.Util Model.Builder Model.BuilderNested Proofs.Builder.
From Coq Require Import List String Bool Lia Permutation.
Import ListNotations.
Local Open Scope string_scope.
Local Open Scope list_scope.

(* ---- lists *)
Lemma insert_by_In : forall {A} (lt : A -> A -> bool) a x l, In x (insert_by lt a l) <-> x = a \/ In x l.
Proof.
  intros A lt a x l; induction l as [|b l IH]; simpl.
  - split; intros [H|H]; auto; contradiction.
  - destruct (lt a b); simpl; [split; intros [H|[H|H]]; auto|].
    rewrite IH. split; intros H; intuition.
Qed.

Lemma sort_by_In : forall {A} (lt : A -> A -> bool) l x, In x (sort_by lt l) <-> In x l.
Proof.
  intros A lt l x; induction l as [|a l IH]; simpl; [tauto|].
  unfold sort_by in *. simpl. rewrite insert_by_In, IH. split; intros [H|H]; auto.
Qed.

Lemma nlookup_nupdate_same : forall {A} k (v : A) l, nlookup k l <> None -> nlookup k (nupdate k v l) = Some v.
Proof.
  intros A k v l; induction l as [|[x w] l IH]; simpl; [congruence|].
  destruct (String.eqb k x) eqn:E; simpl; rewrite E; auto.
Qed.

Lemma nlookup_nupdate_other : forall {A} k k' (v : A) l, k <> k' -> nlookup k' (nupdate k v l) = nlookup k' l.
Proof.
  intros A k k' v l N; induction l as [|[x w] l IH]; simpl; [reflexivity|].
  destruct (String.eqb k x) eqn:E; simpl.
  - apply String.eqb_eq in E; subst x. destruct (String.eqb k' k) eqn:E'; [apply String.eqb_eq in E'; congruence|reflexivity].
  - destruct (String.eqb k' x); auto.
Qed.

Lemma nupdate_id : forall {A} k (v : A) l, nlookup k l = Some v -> nupdate k v l = l.
Proof.
  intros A k v l; induction l as [|[x w] l IH]; simpl; [reflexivity|].
  destruct (String.eqb k x) eqn:E; intros H.
  - apply String.eqb_eq in E; subst x. inversion H; reflexivity.
  - rewrite IH; auto.
Qed.

Lemma nlookup_app : forall {A} k (v : A) l l', nlookup k l = Some v -> nlookup k (l ++ l') = Some v.
Proof.
  intros A k v l l'; induction l as [|[x w] l IH]; simpl; [discriminate|].
  destruct (String.eqb k x); auto.
Qed.

(* ---- compiling the children *)
Lemma cc_keeps_compiled : forall ids inn inn' f id gi,
  compile_children ids inn = (inn', f) -> nlookup id inn = Some gi -> g_compiled gi = true -> nlookup id inn' = Some gi.
Proof.
  induction ids as [|id0 ids IH]; intros inn inn' f id gi H L C; simpl in H.
  - inversion H; subst; assumption.
  - destruct (nlookup id0 inn) as [g0|] eqn:L0; [|eapply IH; eauto].
    destruct (g_compile fixed g0 opt_default) as [g0' o] eqn:G.
    assert (K : nlookup id (nupdate id0 g0' inn) = Some gi).
    { destruct (String.eqb id0 id) eqn:E.
      - apply String.eqb_eq in E; subst id0. rewrite L in L0; inversion L0; subst g0.
        pose proof (compiled_compile gi opt_default C) as S. rewrite G in S; simpl in S; subst g0'.
        rewrite nupdate_id; assumption.
      - apply String.eqb_neq in E. rewrite nlookup_nupdate_other; assumption. }
    destruct o; try (inversion H; subst; assumption).
    eapply IH; eauto.
Qed.

Lemma cc_dom : forall ids inn inn' f id,
  compile_children ids inn = (inn', f) -> nlookup id inn = None -> nlookup id inn' = None.
Proof.
  induction ids as [|id0 ids IH]; intros inn inn' f id H L; simpl in H.
  - inversion H; subst; assumption.
  - destruct (nlookup id0 inn) as [g0|] eqn:L0; [|eapply IH; eauto].
    destruct (g_compile fixed g0 opt_default) as [g0' o] eqn:G.
    assert (K : nlookup id (nupdate id0 g0' inn) = None).
    { destruct (String.eqb id0 id) eqn:E.
      - apply String.eqb_eq in E; subst id0. congruence.
      - apply String.eqb_neq in E. rewrite nlookup_nupdate_other; assumption. }
    destruct o; try (inversion H; subst; assumption).
    eapply IH; eauto.
Qed.

Lemma cc_all_compiled : forall ids inn inn',
  compile_children ids inn = (inn', None) ->
  forall id gi, In id ids -> nlookup id inn' = Some gi -> g_compiled gi = true.
Proof.
  induction ids as [|id0 ids IH]; intros inn inn' H id gi I L; simpl in *; [contradiction|].
  destruct (nlookup id0 inn) as [g0|] eqn:L0.
  - destruct (g_compile fixed g0 opt_default) as [g0' o] eqn:G.
    destruct o; try discriminate.
    destruct I as [I|I].
    + subst id0. pose proof (g_compile_ok_compiled _ _ _ _ _ G) as C.
      assert (K : nlookup id (nupdate id g0' inn) = Some g0') by (apply nlookup_nupdate_same; congruence).
      pose proof (cc_keeps_compiled _ _ _ _ _ _ H K C) as K'. rewrite K' in L; inversion L; subst; assumption.
    + eapply IH; eauto.
  - destruct I as [I|I].
    + subst id0. pose proof (cc_dom _ _ _ _ _ H L0). congruence.
    + eapply IH; eauto.
Qed.

Lemma not_reaching_fails : forall g o, reaches_children g o = false -> exists e, g_compile fixed g o = (g, OErr e).
Proof.
  intros g o. unfold reaches_children, g_compile. destruct (g_err g); [intros _; eexists; reflexivity|].
  cbn [v_untyped_check v_prenode_copy fixed].
  destruct (match g_cmp g with CGraph => false | _ => true end && is_some (o_trigger o)); [intros _; eexists; reflexivity|].
  destruct (is_nil (g_starts g)); [intros _; eexists; reflexivity|].
  destruct (is_nil (g_ends g)); [intros _; eexists; reflexivity|].
  destruct (is_nil (g_pending g)); simpl; [|intros _; eexists; reflexivity].
  destruct (has_untyped g); simpl; [intros _; eexists; reflexivity|].
  destruct (existsb (fun kf => has_dup (snd kf)) (g_fm g)); simpl; [intros _; eexists; reflexivity|].
  discriminate.
Qed.

(* ---- a successful Compile of the outer graph freezes the children *)
Definition child_frozen (s : nstate) (id : string) (gi : gstate) : Prop :=
  nlookup id (ns_inn s) = Some gi /\ g_compiled gi = true.

Lemma n_compile_freezes : forall keys s o s1 r k id gi,
  n_compile_in keys s o = (s1, OCompiled r) ->
  In k keys -> nlookup k (ns_att s) = Some id -> nlookup id (ns_inn s1) = Some gi -> g_compiled gi = true.
Proof.
  intros keys s o s1 r k id gi H I A L. unfold n_compile_in in H.
  destruct (reaches_children (ns_out s) o) eqn:R.
  - destruct (compile_children (children_of s keys) (ns_inn s)) as [inn' failed] eqn:CC.
    destruct failed as [out|].
    + destruct out; inversion H.
    + destruct (g_compile fixed (ns_out s) o) as [g' out]. inversion H; subst. simpl in L.
      eapply cc_all_compiled; eauto. unfold children_of. apply in_flat_map. exists k. rewrite A. simpl; auto.
  - destruct (not_reaching_fails _ _ R) as [e E]. rewrite E in H. inversion H.
Qed.

Theorem nested_compile_freezes_children : forall s o s1 r k id gi,
  nstep s (NOuter (GCompile o)) = (s1, OCompiled r) ->
  In k (map fst (g_nodes (ns_out s))) -> nlookup k (ns_att s) = Some id -> nlookup id (ns_inn s1) = Some gi ->
  child_frozen s1 id gi.
Proof.
  intros s o s1 r k id gi H I A L. split; [assumption|]. simpl in H.
  eapply n_compile_freezes; eauto. apply sort_by_In; assumption.
Qed.

(* ---- a frozen child refuses every modification, and no call changes it *)
Lemma mkN_eta : forall s, mkN (ns_out s) (ns_inn s) (ns_att s) = s.
Proof. destruct s; reflexivity. Qed.

Theorem nested_frozen_child_refuses : forall s id gi c,
  child_frozen s id gi -> g_err gi = None -> is_add c = true ->
  nstep s (NInner id c) = (s, OErr ECompiled).
Proof.
  intros s id gi c [L C] E A. simpl. rewrite L.
  rewrite (compiled_add_refused gi c C E A). rewrite (nupdate_id _ _ _ L), mkN_eta. reflexivity.
Qed.

Lemma nstep_keeps_frozen : forall s c id gi, child_frozen s id gi -> child_frozen (fst (nstep s c)) id gi.
Proof.
  intros s c id gi [L C]. destruct c as [c'|k id0 ok|id0 c'].
  - assert (Other : forall g' (o : outcome), child_frozen (mkN g' (ns_inn s) (ns_att s)) id gi) by (intros; split; assumption).
    destruct c' as [k nk a b|a b|a ends|o]; simpl;
      try (match goal with |- context [let '(_, _) := ?X in _] => destruct X end; simpl; apply Other; exact OOk).
    unfold n_compile_in. destruct (reaches_children (ns_out s) o).
    + destruct (compile_children (children_of s (sorted_keys (ns_out s))) (ns_inn s)) as [inn' failed] eqn:CC.
      pose proof (cc_keeps_compiled _ _ _ _ _ _ CC L C) as K.
      destruct failed; [|destruct (g_compile fixed (ns_out s) o)]; simpl; split; assumption.
    + destruct (g_compile fixed (ns_out s) o); simpl; split; assumption.
  - simpl. destruct (g_add_node (ns_out s) k NSubOk false false false) as [g' o]. simpl. split; [|assumption].
    destruct (nlookup id0 (ns_inn s)); [assumption|apply nlookup_app; assumption].
  - simpl. destruct (nlookup id0 (ns_inn s)) as [g0|] eqn:L0; [|split; assumption].
    destruct (gstep fixed g0 c') as [g0' o] eqn:G. simpl. split; [|assumption]. cbn [ns_inn].
    destruct (String.eqb id0 id) eqn:E.
    + apply String.eqb_eq in E; subst id0. rewrite L in L0; inversion L0; subst g0.
      pose proof (compiled_gstep gi c' C) as S. rewrite G in S; simpl in S; subst g0'.
      rewrite nupdate_id; assumption.
    + apply String.eqb_neq in E. rewrite nlookup_nupdate_other; assumption.
Qed.

Theorem nested_frozen_child_unchanged : forall cs s id gi,
  child_frozen s id gi -> child_frozen (final nstep s cs) id gi.
Proof.
  unfold final. induction cs as [|c cs IH]; intros s id gi F; simpl; [assumption|].
  pose proof (nstep_keeps_frozen s c id gi F) as F1. destruct (nstep s c) as [s1 o]; simpl in F1.
  specialize (IH s1 id gi F1). destruct (run_calls nstep s1 cs); simpl in *; assumption.
Qed.

(* after a successful Compile of the outer graph: every inner graph held by one of its nodes is compiled, stays what it
   is under every later call sequence, and answers every Add* with ErrGraphCompiled *)
Theorem nested_no_modification_after_compile : forall s o s1 r k id gi cs c,
  nstep s (NOuter (GCompile o)) = (s1, OCompiled r) ->
  In k (map fst (g_nodes (ns_out s))) -> nlookup k (ns_att s) = Some id -> nlookup id (ns_inn s1) = Some gi ->
  g_err gi = None -> is_add c = true ->
  let s2 := final nstep s1 cs in
  child_frozen s2 id gi /\ nstep s2 (NInner id c) = (s2, OErr ECompiled).
Proof.
  intros s o s1 r k id gi cs c H I A L E Ad s2.
  pose proof (nested_compile_freezes_children _ _ _ _ _ _ _ H I A L) as F.
  pose proof (nested_frozen_child_unchanged cs _ _ _ F) as F2. split; [exact F2|].
  apply nested_frozen_child_refuses with (gi := gi); assumption.
Qed.

(* ---- the order in which the children are compiled matters when one of them fails (F-C20g) *)
Definition two_children : nstate :=
  final nstep (n_init false)
    [NSub "x" "s1" true; NSub "y" "s2" false; NOuter (GAddEdge START "x"); NOuter (GAddEdge "x" "y"); NOuter (GAddEdge "y" END_)].

Definition probe (keys : list string) : outcome :=
  snd (nstep (fst (n_compile_in keys two_children opt_default)) (NInner "s1" (GAddNode "t" NLambda false false))).

Lemma child_order_matters : probe ["x"; "y"] = OErr ECompiled /\ probe ["y"; "x"] = OOk.
Proof. split; vm_compute; reflexivity. Qed.

Lemma child_order_fixed : snd (nstep two_children (NOuter (GCompile opt_default))) = OErr ENoStart
  /\ snd (nstep (fst (nstep two_children (NOuter (GCompile opt_default)))) (NInner "s1" (GAddNode "t" NLambda false false))) = OErr ECompiled.
Proof. split; vm_compute; reflexivity. Qed.

Lemma child_order_v0_false :
  ~ (forall keys1 keys2 s o id c, Permutation keys1 keys2 ->
       snd (nstep (fst (n_compile_in keys1 s o)) (NInner id c)) = snd (nstep (fst (n_compile_in keys2 s o)) (NInner id c))).
Proof.
  intros H. specialize (H ["x"; "y"] ["y"; "x"] two_children opt_default "s1" (GAddNode "t" NLambda false false) (perm_swap _ _ _)).
  destruct child_order_matters as [A B]. unfold probe in A, B. rewrite A, B in H. discriminate H.
Qed.

Definition one_child_run : list ncall :=
  [NSub "x" "s1" true; NOuter (GAddEdge START "x"); NOuter (GAddEdge "x" END_); NOuter (GCompile opt_default);
   NInner "s1" (GAddNode "t" NLambda false false); NInner "s1" (GAddEdge "s" "s"); NOuter (GCompile opt_default)].

Lemma one_child_run_outcomes :
  match snd (run_calls nstep (n_init false) one_child_run) with
  | [OOk; OOk; OOk; OCompiled _; OErr ECompiled; OErr ECompiled; OCompiled _] => True
  | _ => False
  end.
Proof. vm_compute. exact I. Qed.
