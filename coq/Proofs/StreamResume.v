(* Proofs/StreamResume.v — lemmas about Model/StreamResume.v (property C19, run level with
   interrupts and resumed calls).

   Part 1  the checkpoint round trip (suspend_resume) keeps the status invariant and the accounting
   Part 2  one pass / one call / all calls, both modes
   Part 3  the statements of Props/C19.v; run_int without interrupt configuration is run *)
From Eino Require Import Base.Util Model.StreamAcct Proofs.StreamAcct Model.StreamRun Proofs.StreamRun Model.StreamResume.
From Coq Require Import Lia Permutation.
Open Scope N_scope.

(* ================================================================== Part 1 *)
Lemma remove_one_incl : forall k l, incl (remove_one k l) l.
Proof.
  induction l as [|a l IH]; simpl; [intros x []|].
  destruct (N.eqb k a); intros x Hx; [now right|]. destruct Hx as [<-|Hx]; [now left|right; auto].
Qed.

Lemma remove_keys_incl : forall ks l, incl (remove_keys ks l) l.
Proof.
  induction ks as [|a ks IH]; simpl; intros l x Hx; [exact Hx|]. apply (remove_one_incl a l). now apply IH.
Qed.

Lemma fits_all_spec : forall b infl, fits_all b infl = true -> NoDup (map fst b) /\ incl (map fst b) infl.
Proof.
  unfold fits_all. intros b infl H. apply andb_true_iff in H as [H _]. apply andb_true_iff in H as [H1 H2].
  split; [now apply nodup_keys_NoDup|]. rewrite forallb_forall in H2. intros k Hk. apply memb_in. now apply H2.
Qed.

Lemma map_index_of : forall hs base, NoDup hs ->
  map (fun h => base + index_of h hs) hs = fresh_handles base (List.length hs).
Proof.
  induction hs as [|x hs IH]; intros base Hn; [reflexivity|]. inversion Hn as [|? ? Hx Hn']; subst.
  cbn [map index_of List.length]. rewrite N.eqb_refl.
  unfold fresh_handles. cbn [seq map]. f_equal; try lia.
  rewrite <- seq_shift, map_map.
  specialize (IH (base + 1) Hn'). unfold fresh_handles in IH.
  transitivity (map (fun h => base + 1 + index_of h hs) hs).
  - apply map_ext_in. intros h Hh. destruct (N.eqb_spec h x) as [->|_]; [contradiction|]. lia.
  - rewrite IH. apply map_ext. intros i. lia.
Qed.

Lemma created_app : forall l hist h, created hist h -> created (l ++ hist) h.
Proof. induction l as [|e l IH]; simpl; intros hist h H; [exact H|]. apply created_cons. now apply IH. Qed.
Lemma retired_app : forall l hist h, retired hist h -> retired (l ++ hist) h.
Proof. induction l as [|e l IH]; simpl; intros hist h H; [exact H|]. apply retired_cons. now apply IH. Qed.

Lemma in_fresh_hist : forall e l hist, In e (map HFresh (rev l) ++ hist) -> (exists h, e = HFresh h /\ In h l) \/ In e hist.
Proof.
  intros e l hist H. apply in_app_or in H as [H|H]; [left|now right].
  apply in_map_iff in H as (h & <- & Hh). apply in_rev in Hh. eauto.
Qed.

(* restoreCheckPoint: [n] fresh streams on top of a store in which nothing is live *)
Lemma restore_store_ok : forall s n, store_ok s -> s_open s = [] ->
  store_ok (restore_store (s_next s) n s) /\ s_open (restore_store (s_next s) n s) = fresh_handles (s_next s) n.
Proof.
  intros s n (Hnd & Hlt & Hc & Hcp & Hmg & Hop) Hopen. unfold restore_store. simpl. rewrite Hopen. simpl.
  split; [|reflexivity]. split; [apply fresh_handles_nodup|]. split.
  { intros h Hh. apply fresh_handles_in in Hh. simpl. lia. }
  unfold hist_ok. simpl. split; [|split; [|split]].
  - intros h [H|[(p & cs & H & Hin)|(hs & H)]].
    + apply in_fresh_hist in H as [(h' & E & Hh')|H].
      * inversion E; subst h'. pose proof (fresh_handles_in _ _ _ Hh') as Hr. split; [lia|now left].
      * destruct (Hc h (or_introl H)) as [Hl [Ho|Hr]]; [split; [lia|]|split; [lia|]].
        -- rewrite Hopen in Ho. destruct Ho.
        -- right. now apply retired_app.
    + apply in_fresh_hist in H as [(h' & E & _)|H]; [discriminate|].
      destruct (Hc h (or_intror (or_introl (ex_intro _ p (ex_intro _ cs (conj H Hin)))))) as [Hl [Ho|Hr]]; split; try lia.
      * rewrite Hopen in Ho. destruct Ho.
      * right. now apply retired_app.
    + apply in_fresh_hist in H as [(h' & E & _)|H]; [discriminate|].
      destruct (Hc h (or_intror (or_intror (ex_intro _ hs H)))) as [Hl [Ho|Hr]]; split; try lia.
      * rewrite Hopen in Ho. destruct Ho.
      * right. now apply retired_app.
  - intros p cs H. apply in_fresh_hist in H as [(h' & E & _)|H]; [discriminate|]. now apply Hcp.
  - intros hs h' H. apply in_fresh_hist in H as [(h'' & E & _)|H]; [discriminate|]. now apply Hmg.
  - intros h Hh. left. apply in_or_app. left. apply in_map. now apply -> in_rev.
Qed.

Lemma fresh_taken_spec : forall s s', store_ok s -> fresh_taken s = Ok s' ->
  store_ok s' /\ Permutation (s_open s') (s_open s).
Proof.
  unfold fresh_taken. intros s s' Hok H. destruct (fresh s) as [h s1] eqn:Ef.
  destruct (fresh_spec _ _ _ Ef) as (Ho & Hk). destruct (Hk Hok) as (Hok1 & _).
  split; [eapply consume_ok; eauto|].
  destruct (consume_perm _ _ _ H) as (HP & _). rewrite Ho in HP.
  apply Permutation_cons_inv with (a := h). rewrite <- HP. symmetry. apply Permutation_cons_append.
Qed.

Lemma fresh_taken_n_spec : forall n s s', store_ok s -> fresh_taken_n n s = Ok s' ->
  store_ok s' /\ Permutation (s_open s') (s_open s).
Proof.
  induction n as [|n IH]; simpl; intros s s' Hok H.
  - inversion H; subst. split; [exact Hok|apply Permutation_refl].
  - bind_ok H s1 H1. destruct (fresh_taken_spec _ _ Hok H1) as (Hok1 & HP1).
    destruct (IH _ _ Hok1 H) as (Hok2 & HP2). split; [exact Hok2|]. now rewrite HP2.
Qed.

Section Resume.
Variable g : graph.
Hypothesis Hnd : NoDup (all_keys g).
Hypothesis Hend : ~ In kEND (all_keys g).

Lemma chan_values_map : forall f c, chan_values g (map_vals f c) = map f (chan_values g c).
Proof.
  intros f c. unfold chan_values. clear Hnd Hend. induction (all_keys g) as [|p ps IH]; cbn [flat_map]; [reflexivity|].
  rewrite IH, map_app. f_equal. simpl. destruct (ch_vals c p); reflexivity.
Qed.

Lemma held_map : forall f st st',
  (forall x, rs_chans st' x = map_vals f (rs_chans st x)) -> held g st' = map f (held g st).
Proof.
  intros f st st' H. unfold held. clear Hnd Hend. induction (chan_keys g) as [|x xs IH]; simpl; [reflexivity|].
  rewrite IH, map_app, H, chan_values_map. reflexivity.
Qed.

(* what the round trip does: the tasks and every status are kept, the stored values are renamed *)
Lemma suspend_resume_spec : forall I ready rr st st',
  Acc g I st -> Permutation I (map snd ready) ->
  suspend_resume g ready rr st = Ok st' ->
  (exists s, checkpoint_drain g ready st = Ok s /\ s_open s = []) /\
  same_tasks st st' /\
  (exists f, forall x, rs_chans st' x = map_vals f (rs_chans st x)) /\
  Acc g [] st'.
Proof.
  intros I ready rr st st' [Hok HP] HI H. unfold suspend_resume in H.
  bind_ok H s Hs. bind_ok H s0 H0. bind_ok H s2 H2. inversion H; subst st'; clear H.
  assert (Hopen : s_open s = []).
  { unfold checkpoint_drain in Hs. destruct (consume_all_perm _ _ _ Hs) as (HPs & _).
    rewrite HP, HI in HPs. apply Permutation_nil. symmetry.
    apply Permutation_app_inv_l with (l := held g st ++ map snd ready). now rewrite app_nil_r. }
  assert (Hoks : store_ok s) by (unfold checkpoint_drain in Hs; eapply consume_all_ok; eauto).
  destruct (fresh_taken_n_spec _ _ _ Hoks H0) as (Hok0 & HP0).
  assert (Hopen0 : s_open s0 = []) by (apply Permutation_nil; symmetry; now rewrite <- Hopen).
  destruct (restore_store_ok s0 (List.length (held g st)) Hok0 Hopen0) as (Hok1 & Hopen1).
  destruct (fresh_taken_n_spec _ _ _ Hok1 H2) as (Hok2 & HP2).
  split; [exists s; auto|]. split; [now split|].
  split; [eexists; intros x; reflexivity|].
  split; [exact Hok2|]. simpl. rewrite app_nil_r.
  assert (Hnh : NoDup (held g st)).
  { destruct Hok as (Hn & _). eapply Permutation_NoDup in Hn; [|exact HP]. eapply nodup_app_l; exact Hn. }
  rewrite (held_map (fun h => s_next s0 + index_of h (held g st)) st); [|intros x; reflexivity].
  rewrite (map_index_of _ _ Hnh). rewrite HP2, Hopen1. apply Permutation_refl.
Qed.

End Resume.

(* ================================================================== Part 2 *)
Lemma nlist_get_none : forall (A : Type) k (l : list (N * A)), nlist_get k l = None -> ~ In k (map fst l).
Proof.
  induction l as [|[k' a] l IH]; simpl; intros H; [tauto|].
  destruct (N.eqb_spec k k') as [->|Hne]; [discriminate|]. intros [E|Hin]; [congruence|]. now apply IH.
Qed.

Lemma remove_one_nodup : forall k l, NoDup l -> NoDup (remove_one k l) /\ ~ In k (remove_one k l).
Proof.
  induction l as [|a l IH]; simpl; intros Hn; [split; [constructor|tauto]|]. inversion Hn; subst.
  destruct (N.eqb_spec k a) as [->|Hne]; [split; assumption|].
  destruct (IH H2) as (Hn1 & Hn2). split.
  - constructor; [|exact Hn1]. intros Hin. apply H1. eapply remove_one_incl; eauto.
  - intros [E|Hin]; [congruence|contradiction].
Qed.

Lemma remove_keys_notin : forall ks l y, NoDup l -> In y ks -> ~ In y (remove_keys ks l).
Proof.
  induction ks as [|k ks IH]; simpl; intros l y Hn Hy; [destruct Hy|].
  destruct (remove_one_nodup k l Hn) as (Hn1 & Hn2). destruct Hy as [->|Hy].
  - intros Hin. apply Hn2. eapply remove_keys_incl; eauto.
  - now apply IH.
Qed.

Lemma map_snd_filter_end : forall (ready : list (key * handle)) out,
  NoDup (map fst ready) -> nlist_get kEND ready = Some out ->
  Permutation (map snd ready) (out :: map snd (filter not_end ready)).
Proof.
  intros ready out Hn He. pose proof (nlist_get_split _ _ _ _ Hn He) as HP.
  apply (Permutation_map snd) in HP. exact HP.
Qed.

(* ------------------------------------------------------------------ all-predecessor mode *)
Section DagInt.
Variable g : graph.
Hypothesis Hdag : g_dag g = true.
Hypothesis Hnd : NoDup (all_keys g).
Hypothesis Hend : ~ In kEND (all_keys g).

(* the status invariant looks at the stored values only through "is there one" *)
Lemma SInv_map_vals : forall B W st st' f,
  SInv g B W st -> same_tasks st st' -> (forall x, rs_chans st' x = map_vals f (rs_chans st x)) -> SInv g B W st'.
Proof.
  intros B W st st' f HI [Hp Hr] Hc.
  assert (Ectrl : forall x, ch_ctrl (rs_chans st' x) = ch_ctrl (rs_chans st x)) by (intros x; now rewrite Hc).
  assert (Edata : forall x, ch_data (rs_chans st' x) = ch_data (rs_chans st x)) by (intros x; now rewrite Hc).
  assert (Esk : forall x, skipped st' x <-> skipped st x) by (intros x; unfold skipped; now rewrite Hc).
  assert (Est : forall x, started st' x <-> started st x) by (intros x; unfold started; now rewrite Hp, Hr).
  assert (Evn : forall x p, ch_vals (rs_chans st x) p = None -> ch_vals (rs_chans st' x) p = None).
  { intros x p E. rewrite Hc. simpl. now rewrite E. }
  assert (Evs : forall x p h, ch_vals (rs_chans st' x) p = Some h -> exists h0, ch_vals (rs_chans st x) p = Some h0).
  { intros x p h E. rewrite Hc in E. simpl in E. destruct (ch_vals (rs_chans st x) p) as [h0|]; [eauto|discriminate]. }
  destruct HI. constructor.
  - now rewrite Hp, Hr.
  - now rewrite Hp.
  - assumption.
  - intros x Hx. rewrite Hc, (si_frame x Hx). reflexivity.
  - intros x p. rewrite Ectrl, Hr. apply si_ready.
  - intros x p. rewrite Ectrl, Hr, Esk. apply si_skipmark.
  - intros x p. rewrite Edata, Hr, Esk. apply si_data.
  - intros x p h E. rewrite Hr. destruct (Evs _ _ _ E) as (h0 & E0). eapply si_vals; eauto.
  - intros x Hx. apply Esk in Hx. destruct (si_skipped x Hx) as (Hv & Hns & Hall).
    split; [intros p; apply Evn, Hv|]. split; [rewrite Est; exact Hns|]. intros p Hp'. rewrite Ectrl. now apply Hall.
  - intros x Hxc Hx. apply Est in Hx. destruct (si_started x Hxc Hx) as (Hv & (r & Hr1 & Hr2 & Hr3) & Hdp).
    split; [intros p; apply Evn, Hv|]. split; [exists r; rewrite Hr, Ectrl; auto|].
    intros p Hp'. rewrite Hr, Esk. now apply Hdp.
  - intros x Hxc Hx Hex. rewrite Esk in Hx. rewrite Ectrl. now apply si_live.
Qed.

Definition done_ok (out : handle) (dropped : list (key * handle)) (st : rstate) : Prop :=
  SInv g [] [] st /\ Acc g (out :: map snd dropped) st /\ In kEND (rs_pending st) /\
  (forall y h, In (y, h) dropped -> In y (rs_pending st) /\ In y (all_keys g) /\ y <> kSTART).
Definition int_ok (ready : list (key * handle)) (st : rstate) : Prop :=
  SInv g [] [] st /\ Cov g st /\ Acc g (map snd ready) st.
Definition sout_ok (o : sout) : Prop :=
  match o with
  | SRunning st => dag_inv g st
  | SDone out dropped st => done_ok out dropped st
  | SInt ready rr st => int_ok ready st
  end.

Lemma suspend_resume_dag : forall ready rr st st',
  int_ok ready st -> suspend_resume g ready rr st = Ok st' ->
  dag_inv g st' /\ exists s, checkpoint_drain g ready st = Ok s /\ s_open s = [].
Proof.
  intros ready rr st st' (HI & Hcov & HA) H.
  destruct (suspend_resume_spec g _ _ _ _ _ HA (Permutation_refl _) H) as (Hdr & Hts & (f & Hf) & HA').
  split; [|exact Hdr]. split; [eapply SInv_map_vals; eauto|]. split; [|exact HA'].
  intros x Hx. destruct (Hcov x Hx) as [Hc|Hs]; [now left|right]. unfold skipped in *. now rewrite Hf.
Qed.

Lemma ready_key_node : forall (ready : list (key * handle)) y,
  incl (map fst ready) (chan_keys g) -> nlist_get kEND ready = None -> In y (map fst ready) ->
  In y (all_keys g) /\ y <> kSTART.
Proof.
  intros ready y Hri He Hy. destruct (chan_key_cases g y (Hri y Hy)) as [->|H]; [|exact H].
  exfalso. exact (nlist_get_none _ _ _ He Hy).
Qed.

(* after calculateNextTasks: END reached, or the ready values are handed to their tasks *)
Lemma after_calc_dag : forall (ready1 : list (key * handle)) st4,
  SInv g [] [] st4 -> Cov g st4 -> Acc g (map snd ready1) st4 ->
  NoDup (map fst ready1) -> incl (map fst ready1) (chan_keys g) ->
  (forall y, In y (map fst ready1) -> In y (rs_pending st4)) ->
  (forall out, nlist_get kEND ready1 = Some out -> done_ok out (filter not_end ready1) st4) /\
  (forall s, consume_all (map snd ready1) (rs_store st4) = Ok s -> dag_inv g (set_store st4 s)).
Proof.
  intros ready1 st4 HI4 Hcov4 HA4 Hrn Hri Hf4. split.
  - intros out Ee. split; [exact HI4|]. split; [eapply Acc_perm; [|exact HA4]; now apply map_snd_filter_end|].
    split; [apply Hf4; eapply nlist_get_in; exact Ee|].
    intros y h Hyh. apply filter_In in Hyh as [Hyh Hne]. unfold not_end in Hne. simpl in Hne.
    assert (Hy : In y (map fst ready1)) by (apply in_map_iff; exists (y, h); auto).
    split; [now apply Hf4|]. destruct (chan_key_cases g y (Hri y Hy)) as [->|[Hk Hs]]; [|split; assumption].
    rewrite N.eqb_refl in Hne. discriminate.
  - intros s Hs. split; [eapply SInv_ext; [exact HI4|reflexivity|now split]|]. split.
    + eapply Cov_mono; [exact Hcov4|]. intros y Hy. exact Hy.
    + eapply consume_all_acc; [|exact Hs]. now rewrite app_nil_r.
Qed.

Lemma first_pass_dag : forall cfg b st p,
  dag_inv g st -> first_pass g cfg b st = Ok p ->
  match p with
  | PNext st' => dag_inv g st'
  | PEnd (SRunning _) => False
  | PEnd o => sout_ok o
  end.
Proof.
  intros cfg b st p Hinv H. unfold first_pass in H. bind_ok H r H1. destruct r as [ready1 st4].
  destruct (calc_next_dag g Hdag Hnd Hend _ _ _ _ Hinv H1) as (HI4 & Hcov4 & HA4 & Hrn & Hri & Hf4).
  destruct (after_calc_dag _ _ HI4 Hcov4 HA4 Hrn Hri Hf4) as (Hdone & Hnext).
  destruct (nlist_get kEND ready1) as [out|] eqn:Ee.
  - inversion H; subst p; clear H. simpl. now apply Hdone.
  - destruct (hit_before cfg ready1).
    + inversion H; subst p; clear H. simpl. split; [exact HI4|]. split; assumption.
    + bind_ok H s Hs. inversion H; subst p; clear H. now apply Hnext.
Qed.

Lemma others_keys : forall rr (b : batch),
  NoDup (map fst b) -> NoDup (map fst (others_of rr b)) /\ incl (map fst (others_of rr b)) (map fst b).
Proof.
  intros rr b Hn. split; [now apply nodup_map_fst_filter|].
  intros k Hk. apply in_map_iff in Hk as (ko & <- & Hin). apply filter_In in Hin as [Hin _]. now apply in_map.
Qed.

Lemma others_keys2 : forall r1 r2 (b b2 : batch),
  NoDup (map fst (b ++ b2)) ->
  NoDup (map fst (others_of r1 b ++ others_of r2 b2)) /\
  incl (map fst (others_of r1 b ++ others_of r2 b2)) (map fst (b ++ b2)).
Proof.
  intros r1 r2 b b2 Hn. rewrite !map_app in *.
  pose proof (nodup_app_l _ _ _ Hn) as Hn1. pose proof (nodup_app_r _ _ _ Hn) as Hn2.
  destruct (others_keys r1 b Hn1) as (Ho1 & Hi1). destruct (others_keys r2 b2 Hn2) as (Ho2 & Hi2).
  split.
  - apply NoDup_app_intro; [exact Ho1|exact Ho2|]. intros x Hx1 Hx2.
    eapply nodup_app_disj; [exact Hn|apply Hi1; exact Hx1|apply Hi2; exact Hx2].
  - intros x Hx. apply in_app_or in Hx as [Hx|Hx]; apply in_or_app; [left; now apply Hi1|right; now apply Hi2].
Qed.

Lemma pass_dag : forall cfg rr b rest st p,
  dag_inv g st -> pass g cfg rr b rest st = Ok p ->
  match p with
  | PNext st' => dag_inv g st'
  | PEnd (SRunning _) => False
  | PEnd o => sout_ok o
  end.
Proof.
  intros cfg rr b rest st p Hinv H. unfold pass in H.
  destruct (reruns_of rr b) as [|r0 R1] eqn:ER.
  2:{ (* a completed task interrupted itself: the others are resolved, nothing is taken from the channels *)
    destruct Hinv as (HI & Hcov & HA).
    destruct (batch_fits g b (rs_pending st)) eqn:Eb; simpl in H; [|discriminate].
    destruct (batch_fits_spec _ _ _ Eb) as (HndB & HinB & _).
    destruct (fits_all (List.concat (map fst rest)) (remove_keys (map fst b) (rs_pending st))) eqn:Ef; simpl in H; [|discriminate].
    destruct (fits_all_spec _ _ Ef) as (Hnb2 & Hib2).
    bind_ok H st' H'. inversion H; subst p; clear H. simpl.
    assert (HndP : NoDup (rs_pending st)) by (eapply nodup_app_l; exact (si_nodup _ _ _ _ HI)).
    assert (HndA : NoDup (map fst (b ++ List.concat (map fst rest)))).
    { rewrite map_app. apply NoDup_app_intro; [exact HndB|exact Hnb2|].
      intros y Hy1 Hy2. apply Hib2 in Hy2. revert Hy2. now apply remove_keys_notin. }
    assert (HinA : incl (map fst (b ++ List.concat (map fst rest))) (rs_pending st)).
    { rewrite map_app. intros y Hy. apply in_app_or in Hy as [Hy|Hy]; [now apply HinB|].
      eapply remove_keys_incl. now apply Hib2. }
    destruct (others_keys2 rr (List.concat (map snd rest)) _ _ HndA) as (HndO & HinO).
    destruct (resolve_phases_dag g Hdag Hnd Hend _ _ _ _ HI Hcov HA HndO (fun y Hy => HinA y (HinO y Hy)) H')
      as (HI' & Hcov' & HA' & _).
    split; [exact HI'|]. split; assumption. }
  bind_ok H r H1. destruct r as [ready1 st4].
  destruct (calc_next_dag g Hdag Hnd Hend _ _ _ _ Hinv H1) as (HI4 & Hcov4 & HA4 & Hrn & Hri & Hf4).
  destruct (after_calc_dag _ _ HI4 Hcov4 HA4 Hrn Hri Hf4) as (Hdone & Hnext).
  destruct (nlist_get kEND ready1) as [out|] eqn:Ee.
  - destruct rest; [|discriminate]. inversion H; subst p; clear H. simpl. now apply Hdone.
  - destruct (hit_before cfg ready1 || hit_after cfg b).
    2:{ bind_ok H s Hs. inversion H; subst p; clear H. now apply Hnext. }
    destruct (fits_all (List.concat (map fst rest)) (remove_keys (map fst ready1) (rs_pending st4))) eqn:Ef; simpl in H; [|discriminate].
    destruct (fits_all_spec _ _ Ef) as (Hnb2 & Hib2).
    assert (Hib2' : incl (map fst (List.concat (map fst rest))) (rs_pending st4)).
    { intros y Hy. eapply remove_keys_incl. apply Hib2. exact Hy. }
    destruct (reruns_of (List.concat (map snd rest)) (List.concat (map fst rest))) as [|r0 R2] eqn:ER2.
    2:{ (* a task collected by waitAll interrupted itself *)
      bind_ok H st5 H5. inversion H; subst p; clear H. simpl.
      destruct (others_keys (List.concat (map snd rest)) _ Hnb2) as (HndO & HinO).
      destruct (resolve_phases_dag g Hdag Hnd Hend _ _ _ _ HI4 Hcov4 HA4 HndO (fun y Hy => Hib2' y (HinO y Hy)) H5)
        as (HI5 & Hcov5 & HA5 & _).
      split; [exact HI5|]. split; assumption. }
    bind_ok H r2 H2. destruct r2 as [ready2 st5].
    destruct (calc_body_dag g Hdag Hnd Hend _ _ _ _ _ HI4 Hcov4 HA4 Hnb2 Hib2' H2)
      as (HI5 & Hcov5 & HA5 & Hrn2 & Hri2 & Hf5 & Hkeep).
    (* the tasks created by the first round are not submitted: they stay pending *)
    assert (Hp1 : forall y, In y (map fst ready1) -> In y (rs_pending st5)).
    { intros y Hy. apply Hkeep; [now apply Hf4|]. intros Hin. apply Hib2 in Hin.
      revert Hin. apply remove_keys_notin; [|exact Hy].
      eapply nodup_app_l. exact (si_nodup _ _ _ _ HI4). }
    destruct (nlist_get kEND ready2) as [out|] eqn:Ee2; inversion H; subst p; clear H; simpl.
    * split; [exact HI5|]. split.
      { eapply Acc_perm; [|exact HA5]. rewrite map_app.
        rewrite (map_snd_filter_end _ _ Hrn2 Ee2). simpl.
        apply perm_trans with (out :: map snd (filter not_end ready2) ++ map snd ready1); [reflexivity|].
        constructor. apply Permutation_app_comm. }
      split; [apply Hf5; eapply nlist_get_in; exact Ee2|].
      intros y h Hyh. apply in_app_or in Hyh as [Hyh|Hyh].
      -- assert (Hy : In y (map fst ready1)) by (apply in_map_iff; exists (y, h); auto).
         split; [now apply Hp1|]. now apply (ready_key_node ready1).
      -- apply filter_In in Hyh as [Hyh Hne]. unfold not_end in Hne. simpl in Hne.
         assert (Hy : In y (map fst ready2)) by (apply in_map_iff; exists (y, h); auto).
         split; [now apply Hf5|]. destruct (chan_key_cases g y (Hri2 y Hy)) as [->|[Hk Hs]]; [|split; assumption].
         rewrite N.eqb_refl in Hne. discriminate.
    * split; [exact HI5|]. split; [exact Hcov5|]. eapply Acc_perm; [|exact HA5].
      rewrite map_app. apply Permutation_app_comm.
Qed.

Lemma seg_loop_dag : forall cfg bs st o,
  dag_inv g st -> seg_loop g cfg bs st = Ok o -> sout_ok o.
Proof.
  intros cfg. induction bs as [|[b rr] rest IH]; simpl; intros st o Hinv H.
  - inversion H; subst. exact Hinv.
  - bind_ok H p Hp. pose proof (pass_dag _ _ _ _ _ _ Hinv Hp) as Hpass. destruct p as [st'|o'].
    + eapply IH; eauto.
    + inversion H; subst o'. destruct o; [destruct Hpass|exact Hpass|exact Hpass].
Qed.

Lemma calls_dag : forall cfg tms n st o n' unused,
  dag_inv g st -> calls g cfg tms n st = Ok (o, n', unused) -> sout_ok o.
Proof.
  intros cfg. induction tms as [|tm more IH]; simpl; intros n st o n' unused Hinv H.
  - inversion H; subst. exact Hinv.
  - bind_ok H o1 H1. pose proof (seg_loop_dag _ _ _ _ Hinv H1) as Ho1.
    destruct o1 as [st1|out1 d1 st1|ready rr st5]; try (inversion H; subst; exact Ho1).
    destruct more as [|tm2 more]; [inversion H; subst; exact Ho1|].
    bind_ok H st6 H6. destruct (suspend_resume_dag _ _ _ _ Ho1 H6) as (Hinv6 & _). eapply IH; eauto.
Qed.

Lemma run_one_dag : forall cfg start tms o n unused,
  covered g = true -> run_one g cfg start tms = Ok (o, n, unused) -> sout_ok o.
Proof.
  intros cfg start tms o n unused Hcov H. unfold run_one in H. bind_ok H st0 H0.
  pose proof (init_dag g Hdag Hnd Hend _ Hcov H0) as Hinv. bind_ok H p Hp.
  pose proof (first_pass_dag _ _ _ _ Hinv Hp) as Hp1.
  destruct p as [st'|o1].
  - destruct tms as [|tm more]; [inversion H; subst; exact Hp1|].
    bind_ok H o1 H1. pose proof (seg_loop_dag _ _ _ _ Hp1 H1) as Ho1.
    destruct o1 as [st1|out1 d1 st1|ready rr st5]; try (inversion H; subst; exact Ho1).
    destruct more as [|tm2 more]; [inversion H; subst; exact Ho1|].
    bind_ok H st6 H6. destruct (suspend_resume_dag _ _ _ _ Ho1 H6) as (Hinv6 & _). eapply calls_dag; eauto.
  - destruct o1 as [st1|out1 d1 st1|ready rr st5]; [destruct Hp1|inversion H; subst; exact Hp1|].
    destruct tms as [|tm more]; [inversion H; subst; exact Hp1|].
    bind_ok H st6 H6. destruct (suspend_resume_dag _ _ _ _ Hp1 H6) as (Hinv6 & _). eapply calls_dag; eauto.
Qed.

(* a finished run: every node ran or was skipped => nothing was dropped, only the output is live *)
Lemma done_ok_open : forall out dropped st,
  done_ok out dropped st -> all_finished g st = true ->
  s_open (rs_store st) = [out] /\ dropped = [].
Proof.
  intros out dropped st (HI & HA & HendP & Hdr) Hfin.
  unfold all_finished in Hfin. rewrite forallb_forall in Hfin.
  assert (Hf : forall y, In y (all_keys g) -> y <> kSTART -> In y (rs_resolved st) \/ skipped st y).
  { intros y Hy Hne. specialize (Hfin y Hy). apply orb_true_iff in Hfin as [Hfin|Hfin]; [|now right].
    apply orb_true_iff in Hfin as [Hfin|Hfin]; [apply N.eqb_eq in Hfin; contradiction|left; now apply memb_in]. }
  assert (Hpend : forall y, In y (rs_pending st) -> In y (all_keys g) -> y <> kSTART -> False).
  { intros y Hp Hy Hne. destruct (Hf y Hy Hne) as [Hr|Hs].
    - eapply nodup_app_disj; [exact (si_nodup _ _ _ _ HI)|exact Hp|exact Hr].
    - destruct (si_skipped _ _ _ _ HI _ Hs) as (_ & Hn & _). apply Hn. now left. }
  assert (Hdrop : dropped = []).
  { destruct dropped as [|[y h] d]; [reflexivity|]. exfalso.
    destruct (Hdr y h (or_introl eq_refl)) as (Hp & Hy & Hne). eauto. }
  assert (Hheld : held g st = []).
  { unfold held. assert (E : forall l, incl l (chan_keys g) -> flat_map (fun x => chan_values g (rs_chans st x)) l = []).
    { induction l as [|x l IH]; simpl; intros Hl; [reflexivity|]. rewrite IH by (intros y Hy; apply Hl; now right).
      rewrite app_nil_r. rewrite chan_values_vlist. apply vlist_all_none. intros p _.
      assert (Hxc : In x (chan_keys g)) by (apply Hl; now left).
      destruct (chan_key_cases g x Hxc) as [->|[Hx Hne]].
      - destruct (si_started _ _ _ _ HI kEND Hxc (or_introl HendP)) as (Hv & _). apply Hv.
      - destruct (Hf x Hx Hne) as [Hr|Hs].
        + destruct (si_started _ _ _ _ HI x Hxc (or_intror Hr)) as (Hv & _). apply Hv.
        + destruct (si_skipped _ _ _ _ HI _ Hs) as (Hv & _). apply Hv. }
    apply E. apply incl_refl. }
  destruct HA as [_ HP]. rewrite Hheld, Hdrop in HP. simpl in HP.
  split; [|exact Hdrop].
  symmetry in HP. apply Permutation_length_1_inv in HP. exact HP.
Qed.

Lemma done_ok_reach : forall out dropped st,
  done_ok out dropped st -> all_reach g = true -> all_finished g st = true.
Proof.
  intros out dropped st (HI & _ & HendP & _) Hreach.
  unfold all_finished. apply forallb_forall. intros x Hx.
  unfold all_reach in Hreach. rewrite forallb_forall in Hreach. specialize (Hreach x Hx).
  apply orb_true_iff in Hreach as [Hs|Hm]; [now rewrite Hs|].
  apply memb_in in Hm. destruct (reaches_finished g st x HI HendP (reach_set_sound g x Hm)) as [Hr|Hs].
  - apply memb_in in Hr. rewrite Hr. now rewrite orb_true_r.
  - unfold skipped in Hs. rewrite Hs. now rewrite orb_true_r.
Qed.

End DagInt.

(* ------------------------------------------------------------------ any-predecessor mode *)
Lemma reruns_of_nil : forall b, reruns_of [] b = [].
Proof. intros b. unfold reruns_of. induction (map fst b) as [|k l IH]; simpl; [reflexivity|exact IH]. Qed.

Section PregelInt.
Variable g : graph.
Hypothesis Hpre : g_dag g = false.
Hypothesis Hnd : NoDup (all_keys g).
Hypothesis Hend : ~ In kEND (all_keys g).
(* graph.compile: only a Workflow is eager, and a Workflow runs in all-predecessor mode *)
Hypothesis Hne : g_eager g = false.

(* between a task-level interrupt and the next getFromReadyChannels the channels are not empty: what is
   kept is that no pending task has a value of its own in any channel (so that no value is overwritten) *)
Definition out_empty (st : rstate) : Prop :=
  forall y, ~ In y (chan_keys g) -> forall p, In p (all_keys g) -> ch_vals (rs_chans st y) p = None.
Definition pend_free (st : rstate) : Prop :=
  forall y p, In p (rs_pending st) -> In p (all_keys g) -> ch_vals (rs_chans st y) p = None.
Definition pinvI (I : list handle) (st : rstate) : Prop :=
  out_empty st /\ pend_free st /\ NoDup (rs_pending st) /\ Acc g I st.

Definition psout_ok (o : sout) : Prop :=
  match o with
  | SRunning st => pinvI [] st
  | SDone out dropped st => all_empty g st /\ Acc g (out :: map snd dropped) st
  | SInt ready rr st => pinvI (map snd ready) st
  end.

Lemma all_empty_pinv : forall I st, all_empty g st -> NoDup (rs_pending st) -> Acc g I st -> pinvI I st.
Proof.
  intros I st Hemp Hn HA. split; [intros y _ p Hp; now apply Hemp|]. split; [intros y p _ Hp; now apply Hemp|]. now split.
Qed.

Lemma suspend_resume_pregel : forall ready rr st st',
  pinvI (map snd ready) st -> suspend_resume g ready rr st = Ok st' ->
  pinvI [] st' /\ exists s, checkpoint_drain g ready st = Ok s /\ s_open s = [].
Proof.
  intros ready rr st st' (Hout & Hpf & Hn & HA) H.
  destruct (suspend_resume_spec g _ _ _ _ _ HA (Permutation_refl _) H) as (Hdr & [Hp Hr] & (f & Hf) & HA').
  split; [|exact Hdr]. split; [|split; [|split; [now rewrite Hp|exact HA']]].
  - intros y Hy p Hpk. rewrite Hf. simpl. now rewrite (Hout y Hy p Hpk).
  - intros y p Hpp Hpk. rewrite Hp in Hpp. rewrite Hf. simpl. now rewrite (Hpf y p Hpp Hpk).
Qed.

Lemma phase1_keys : forall b st l st', phase1 g b st = Ok (l, st') -> forall k, In k (map fst b) -> In k (all_keys g).
Proof.
  induction b as [|[k0 outs] b IH]; simpl; intros st l st' H k Hk; [destruct Hk|].
  destruct (call_of g k0) as [c|] eqn:Ec; [|discriminate]. bind_ok H t Ht.
  destruct (fresh (rs_store st)) as [out s1] eqn:Ef.
  bind_ok H r1 H1. destruct r1 as [rv st1]. bind_ok H r2 H2. destruct r2 as [l2 st2].
  destruct Hk as [<-|Hk]; [eapply nlist_get_in; exact Ec|eapply IH; eauto].
Qed.

Lemma resolve_keys : forall b st st', resolve_phases g b st = Ok st' -> forall k, In k (map fst b) -> In k (all_keys g).
Proof.
  intros b st st' H. unfold resolve_phases in H. bind_ok H r1 H1. destruct r1 as [l st1]. eapply phase1_keys; eauto.
Qed.

Lemma remove_keys_nodup : forall ks l, NoDup l -> NoDup (remove_keys ks l).
Proof.
  induction ks as [|k ks IH]; simpl; intros l Hn; [exact Hn|]. apply IH. now apply remove_one_nodup.
Qed.

Lemma remove_keys_all : forall ks l, NoDup ks -> incl ks l -> List.length ks = List.length l -> remove_keys ks l = [].
Proof.
  intros ks l Hn Hi Hl. pose proof (remove_keys_perm ks l Hn Hi) as HP. apply Permutation_length in HP.
  rewrite app_length in HP. destruct (remove_keys ks l); [reflexivity|simpl in HP; lia].
Qed.

Lemma remove_keys_self : forall l, remove_keys l l = [].
Proof.
  induction l as [|k l IH]; simpl; [reflexivity|]. now rewrite N.eqb_refl.
Qed.

(* the tasks that did not interrupt themselves are resolved, nothing is taken from the channels *)
Lemma resolve_others_pj : forall b I st st',
  pinvI I st -> NoDup (map fst b) -> incl (map fst b) (rs_pending st) ->
  resolve_phases g b st = Ok st' -> pinvI I st'.
Proof.
  intros b I st st' (Hout & Hpf & Hn & HA) HndB HinB H.
  pose proof (resolve_keys _ _ _ H) as Hk.
  assert (Hfree : forall y p, In p (map fst b) -> ch_vals (rs_chans st y) p = None).
  { intros y p Hp. apply Hpf; [now apply HinB|now apply Hk]. }
  destruct (resolve_phases_pregel g Hpre Hnd Hend _ _ _ _ Hfree HA HndB H) as (HA' & Hout' & Hfr & Hp').
  split; [|split; [|split; [rewrite Hp'; now apply remove_keys_nodup|exact HA']]].
  - intros y Hy p Hpk. rewrite (Hout' y Hy). now apply Hout.
  - intros y p Hpp Hpk. rewrite Hp' in Hpp.
    destruct (in_dec N.eq_dec p (map fst b)) as [Hin|Hnin].
    + exfalso. revert Hpp. now apply remove_keys_notin.
    + rewrite (Hfr y p Hnin). apply Hpf; [|exact Hpk]. eapply remove_keys_incl; eauto.
Qed.

(* calculateNextTasks on a batch wait() returned: every channel is empty afterwards and the pending tasks
   are exactly the new ones *)
Lemma calc_next_pj : forall b st ready st4,
  pinvI [] st -> calc_next g b st = Ok (ready, st4) ->
  all_empty g st4 /\ Acc g (map snd ready) st4 /\ NoDup (map fst ready) /\ rs_pending st4 = map fst ready.
Proof.
  intros b st ready st4 (Hout & Hpf & Hn & HA) H. unfold calc_next in H.
  destruct (batch_fits g b (rs_pending st)) eqn:Eb; simpl in H; [|discriminate].
  destruct (batch_fits_spec _ _ _ Eb) as (HndB & HinB & Hlen). specialize (Hlen Hne).
  assert (Hk : forall k, In k (map fst b) -> In k (all_keys g)).
  { pose proof H as H'. unfold calc_body in H'. bind_ok H' st3 H3. eapply resolve_keys; eauto. }
  assert (Hfree : forall y p, In p (map fst b) -> ch_vals (rs_chans st y) p = None).
  { intros y p Hp. apply Hpf; [now apply HinB|now apply Hk]. }
  destruct (calc_body_pregel_gen g Hpre Hnd Hend _ _ _ _ _ Hfree Hout HA HndB H) as (Hemp4 & HA4 & Hrn & Hp4).
  rewrite app_nil_r in HA4. rewrite (remove_keys_all _ _ HndB HinB Hlen) in Hp4. simpl in Hp4. tauto.
Qed.

(* a second getFromReadyChannels on empty channels finds nothing *)
Lemma calc_body_nil_empty : forall st ready st',
  all_empty g st -> calc_body g [] st = Ok (ready, st') -> ready = [] /\ rs_store st' = rs_store st /\
  rs_pending st' = rs_pending st /\ (forall y, rs_chans st' y = rs_chans st y).
Proof.
  intros st ready st' Hemp H. unfold calc_body in H. bind_ok H st3 H3.
  assert (E3 : st3 = mark_resolved [] st) by (unfold resolve_phases in H3; simpl in H3; now inversion H3).
  subst st3. clear H3.
  assert (E : forall xs sa r sb, (forall y p, In p (all_keys g) -> ch_vals (rs_chans sa y) p = None) ->
              get_ready g xs sa = Ok (r, sb) -> r = [] /\ sb = sa).
  { induction xs as [|x xs IH]; simpl; intros sa r sb He H0.
    - inversion H0; subst. auto.
    - unfold chan_get at 1 in H0.
      assert (Er : chan_ready g x (rs_chans sa x) = false).
      { unfold chan_ready. rewrite Hpre. rewrite chan_values_vlist. rewrite vlist_all_none by (intros p Hp; now apply He). reflexivity. }
      rewrite Er in H0. simpl in H0. bind_ok H0 r2 H2. destruct r2 as [l s2]. inversion H0; subst.
      destruct (IH _ _ _ He H2) as [-> ->]. auto. }
  assert (Hemp' : forall y p, In p (all_keys g) -> ch_vals (rs_chans (mark_resolved [] st) y) p = None) by exact Hemp.
  destruct (E _ _ _ _ Hemp' H) as [-> ->]. repeat split.
Qed.

Lemma first_pass_pregel : forall cfg b st p,
  pinvI [] st -> first_pass g cfg b st = Ok p ->
  match p with
  | PNext st' => pinvI [] st'
  | PEnd (SRunning _) => False
  | PEnd o => psout_ok o
  end.
Proof.
  intros cfg b st p Hinv H. unfold first_pass in H. bind_ok H r H1. destruct r as [ready1 st4].
  destruct (calc_next_pj _ _ _ _ Hinv H1) as (Hemp4 & HA4 & Hrn & Hp4).
  assert (Hn4 : NoDup (rs_pending st4)) by now rewrite Hp4.
  destruct (nlist_get kEND ready1) as [out|] eqn:Ee.
  - inversion H; subst p; clear H. simpl.
    split; [exact Hemp4|]. eapply Acc_perm; [|exact HA4]. now apply map_snd_filter_end.
  - destruct (hit_before cfg ready1).
    + inversion H; subst p; clear H. simpl. now apply all_empty_pinv.
    + bind_ok H s Hs. inversion H; subst p; clear H. apply all_empty_pinv; [exact Hemp4|exact Hn4|].
      eapply consume_all_acc; [|exact Hs]. now rewrite app_nil_r.
Qed.

Lemma pass_pregel : forall cfg rr b rest st p,
  pinvI [] st -> pass g cfg rr b rest st = Ok p ->
  match p with
  | PNext st' => pinvI [] st'
  | PEnd (SRunning _) => False
  | PEnd o => psout_ok o
  end.
Proof.
  intros cfg rr b rest st p Hinv H. unfold pass in H.
  destruct (reruns_of rr b) as [|r0 R1] eqn:ER.
  2:{ destruct (batch_fits g b (rs_pending st)) eqn:Eb; simpl in H; [|discriminate].
    destruct (batch_fits_spec _ _ _ Eb) as (HndB & HinB & _).
    destruct (fits_all (List.concat (map fst rest)) (remove_keys (map fst b) (rs_pending st))) eqn:Ef; simpl in H; [|discriminate].
    destruct (fits_all_spec _ _ Ef) as (Hnb2 & Hib2).
    bind_ok H st' H'. inversion H; subst p; clear H. simpl.
    assert (HndP : NoDup (rs_pending st)) by apply Hinv.
    assert (HndA : NoDup (map fst (b ++ List.concat (map fst rest)))).
    { rewrite map_app. apply NoDup_app_intro; [exact HndB|exact Hnb2|].
      intros y Hy1 Hy2. apply Hib2 in Hy2. revert Hy2. now apply remove_keys_notin. }
    assert (HinA : incl (map fst (b ++ List.concat (map fst rest))) (rs_pending st)).
    { rewrite map_app. intros y Hy. apply in_app_or in Hy as [Hy|Hy]; [now apply HinB|].
      eapply remove_keys_incl. now apply Hib2. }
    destruct (others_keys2 rr (List.concat (map snd rest)) _ _ HndA) as (HndO & HinO).
    exact (resolve_others_pj _ _ _ _ Hinv HndO (fun y Hy => HinA y (HinO y Hy)) H'). }
  bind_ok H r H1. destruct r as [ready1 st4].
  destruct (calc_next_pj _ _ _ _ Hinv H1) as (Hemp4 & HA4 & Hrn & Hp4).
  assert (Hn4 : NoDup (rs_pending st4)) by now rewrite Hp4.
  destruct (nlist_get kEND ready1) as [out|] eqn:Ee.
  - destruct rest; [|discriminate]. inversion H; subst p; clear H. simpl.
    split; [exact Hemp4|]. eapply Acc_perm; [|exact HA4]. now apply map_snd_filter_end.
  - destruct (hit_before cfg ready1 || hit_after cfg b).
    2:{ bind_ok H s Hs. inversion H; subst p; clear H. apply all_empty_pinv; [exact Hemp4|exact Hn4|].
        eapply consume_all_acc; [|exact Hs]. now rewrite app_nil_r. }
    (* every task was collected by wait(): waitAll finds nothing *)
    rewrite Hp4, remove_keys_self in H.
    destruct (fits_all (List.concat (map fst rest)) []) eqn:Ef; simpl in H; [|discriminate].
    assert (Eb2 : List.concat (map fst rest) = []).
    { unfold fits_all in Ef. apply andb_true_iff in Ef as [_ Ef]. apply Nat.eqb_eq in Ef. rewrite map_length in Ef.
      destruct (List.concat (map fst rest)); [reflexivity|discriminate]. }
    rewrite Eb2 in H. unfold reruns_of at 1 in H. cbn [map filter] in H.
    bind_ok H r2 H2. destruct r2 as [ready2 st5].
    destruct (calc_body_nil_empty _ _ _ Hemp4 H2) as (-> & Hs5 & Hp5 & Hc5).
    assert (Hemp5 : all_empty g st5) by (intros y q Hq; rewrite Hc5; now apply Hemp4).
    assert (HA5 : Acc g (map snd ready1) st5).
    { destruct HA4 as [Hok HP]. split; [now rewrite Hs5|]. rewrite Hs5. unfold held in *.
      erewrite flat_map_ext; [exact HP|]. intros y. now rewrite Hc5. }
    simpl in H. inversion H; subst p; clear H. simpl. rewrite app_nil_r.
    apply all_empty_pinv; [exact Hemp5|now rewrite Hp5|exact HA5].
Qed.

Lemma seg_loop_pregel : forall cfg bs st o,
  pinvI [] st -> seg_loop g cfg bs st = Ok o -> psout_ok o.
Proof.
  intros cfg. induction bs as [|[b rr] rest IH]; simpl; intros st o Hinv H.
  - inversion H; subst. exact Hinv.
  - bind_ok H p Hp. pose proof (pass_pregel _ _ _ _ _ _ Hinv Hp) as Hpass. destruct p as [st'|o'].
    + eapply IH; eauto.
    + inversion H; subst o'. destruct o; [destruct Hpass|exact Hpass|exact Hpass].
Qed.

Lemma calls_pregel : forall cfg tms n st o n' unused,
  pinvI [] st -> calls g cfg tms n st = Ok (o, n', unused) -> psout_ok o.
Proof.
  intros cfg. induction tms as [|tm more IH]; simpl; intros n st o n' unused Hinv H.
  - inversion H; subst. exact Hinv.
  - bind_ok H o1 H1. pose proof (seg_loop_pregel _ _ _ _ Hinv H1) as Ho1.
    destruct o1 as [st1|out1 d1 st1|ready rr st5]; try (inversion H; subst; exact Ho1).
    destruct more as [|tm2 more]; [inversion H; subst; exact Ho1|].
    bind_ok H st6 H6. destruct (suspend_resume_pregel _ _ _ _ Ho1 H6) as (Hinv6 & _). eapply IH; eauto.
Qed.

Lemma init_pregel : forall st, init_state g = Ok st -> pinvI [] st.
Proof.
  intros st H. unfold init_state in H. rewrite Hpre in H. inversion H; subst st; clear H.
  apply all_empty_pinv; [intros y p _; reflexivity| |apply (state0_inv g)].
  simpl. repeat constructor. intros [].
Qed.

Lemma run_one_pregel : forall cfg start tms o n unused,
  run_one g cfg start tms = Ok (o, n, unused) -> psout_ok o.
Proof.
  intros cfg start tms o n unused H. unfold run_one in H. bind_ok H st0 H0.
  pose proof (init_pregel _ H0) as Hinv. bind_ok H p Hp.
  pose proof (first_pass_pregel _ _ _ _ Hinv Hp) as Hp1.
  destruct p as [st'|o1].
  - destruct tms as [|tm more]; [inversion H; subst; exact Hp1|].
    bind_ok H o1 H1. pose proof (seg_loop_pregel _ _ _ _ Hp1 H1) as Ho1.
    destruct o1 as [st1|out1 d1 st1|ready rr st5]; try (inversion H; subst; exact Ho1).
    destruct more as [|tm2 more]; [inversion H; subst; exact Ho1|].
    bind_ok H st6 H6. destruct (suspend_resume_pregel _ _ _ _ Ho1 H6) as (Hinv6 & _). eapply calls_pregel; eauto.
  - destruct o1 as [st1|out1 d1 st1|ready rr st5]; [destruct Hp1|inversion H; subst; exact Hp1|].
    destruct tms as [|tm more]; [inversion H; subst; exact Hp1|].
    bind_ok H st6 H6. destruct (suspend_resume_pregel _ _ _ _ Hp1 H6) as (Hinv6 & _). eapply calls_pregel; eauto.
Qed.

Lemma pregel_done_open : forall out st,
  all_empty g st -> Acc g [out] st -> s_open (rs_store st) = [out].
Proof.
  intros out st Hemp [_ HP].
  assert (Hheld : held g st = []).
  { unfold held. assert (E : forall l, flat_map (fun x => chan_values g (rs_chans st x)) l = []).
    { induction l as [|x l IH]; cbn [flat_map]; [reflexivity|]. rewrite IH, app_nil_r.
      rewrite chan_values_vlist. apply vlist_all_none. intros p Hp. now apply Hemp. }
    apply E. }
  rewrite Hheld in HP. simpl in HP. symmetry in HP. apply Permutation_length_1_inv in HP. exact HP.
Qed.

End PregelInt.

(* ================================================================== Part 3 *)
(* the statements of Props/C19.v *)
Lemma run_int_one : forall g cfg start tms o,
  run_int g cfg start tms = Ok o -> exists n, run_one g cfg start tms = Ok (o, n, []).
Proof.
  intros g cfg start tms o H. unfold run_int in H. bind_ok H r Hr. destruct r as [[o' n] unused].
  destruct unused; [|discriminate]. inversion H; subst. eauto.
Qed.

(* every way a run can end, all-predecessor mode: for every interrupt configuration, every number of
   interrupted calls and every way they were interrupted, if the last call returns the output and every
   node ran or was skipped, then nothing was dropped and the only live handle is the output *)
Lemma resumed_open_empty_dag_s : forall g cfg start tms out dropped st,
  g_dag g = true -> NoDup (all_keys g) -> ~ In kEND (all_keys g) -> covered g = true ->
  run_int g cfg start tms = Ok (SDone out dropped st) ->
  all_finished g st = true ->
  s_open (rs_store st) = [out] /\ dropped = [].
Proof.
  intros g cfg start tms out dropped st Hd Hn He Hcov H Hfin. destruct (run_int_one _ _ _ _ _ H) as (n & H1).
  pose proof (run_one_dag g Hd Hn He _ _ _ _ _ _ Hcov H1) as Hok. simpl in Hok.
  eapply done_ok_open; eauto.
Qed.

Lemma resumed_open_empty_dag_reach_s : forall g cfg start tms out dropped st,
  g_dag g = true -> NoDup (all_keys g) -> ~ In kEND (all_keys g) -> covered g = true -> all_reach g = true ->
  run_int g cfg start tms = Ok (SDone out dropped st) ->
  all_finished g st = true /\ s_open (rs_store st) = [out] /\ dropped = [].
Proof.
  intros g cfg start tms out dropped st Hd Hn He Hcov Hreach H. destruct (run_int_one _ _ _ _ _ H) as (n & H1).
  pose proof (run_one_dag g Hd Hn He _ _ _ _ _ _ Hcov H1) as Hok. simpl in Hok.
  assert (Hfin : all_finished g st = true) by (eapply done_ok_reach; eauto).
  split; [exact Hfin|]. eapply done_ok_open; eauto.
Qed.

Lemma resumed_open_empty_pregel_s : forall g cfg start tms out st,
  g_dag g = false -> g_eager g = false -> NoDup (all_keys g) -> ~ In kEND (all_keys g) ->
  run_int g cfg start tms = Ok (SDone out [] st) ->
  s_open (rs_store st) = [out].
Proof.
  intros g cfg start tms out st Hp Hne Hn He H. destruct (run_int_one _ _ _ _ _ H) as (n & H1).
  pose proof (run_one_pregel g Hp Hn He Hne _ _ _ _ _ _ H1) as (Hemp & HA). simpl in HA.
  eapply pregel_done_open; eauto.
Qed.

Lemma int_acc : forall g cfg start tms ready rr st,
  NoDup (all_keys g) -> ~ In kEND (all_keys g) -> (g_dag g = true -> covered g = true) ->
  (g_dag g = false -> g_eager g = false) ->
  run_int g cfg start tms = Ok (SInt ready rr st) -> Acc g (map snd ready) st.
Proof.
  intros g cfg start tms ready rr st Hn He Hc Hnr H. destruct (run_int_one _ _ _ _ _ H) as (n & H1).
  destruct (g_dag g) eqn:Hd.
  - pose proof (run_one_dag g Hd Hn He _ _ _ _ _ _ (Hc eq_refl) H1) as (_ & _ & HA). exact HA.
  - pose proof (run_one_pregel g Hd Hn He (Hnr eq_refl) _ _ _ _ _ _ H1) as (_ & _ & _ & HA). exact HA.
Qed.

(* a suspended run holds nothing: whenever a call leaves through an interrupt exit — the first call or
   a resumed one, after one or two rounds of calculateNextTasks, for an interrupt of the graph or of a
   task — the checkpoint conversion drains every live handle *)
Lemma suspended_holds_nothing_s : forall g cfg start tms ready rr st,
  NoDup (all_keys g) -> ~ In kEND (all_keys g) -> (g_dag g = true -> covered g = true) ->
  (g_dag g = false -> g_eager g = false) ->
  run_int g cfg start tms = Ok (SInt ready rr st) ->
  exists s, checkpoint_drain g ready st = Ok s /\ s_open s = [].
Proof.
  intros g cfg start tms ready rr st Hn He Hc Hnr H.
  destruct (int_acc _ _ _ _ _ _ _ Hn He Hc Hnr H) as [_ HP]. unfold checkpoint_drain.
  destruct (consume_all_succeeds (held g st ++ map snd ready) (rs_store st) []) as (s & Hs & HPs).
  - now rewrite app_nil_r.
  - exists s. split; [exact Hs|]. now apply Permutation_nil.
Qed.

Lemma resumed_done_store_ok : forall g cfg start tms out dropped st,
  NoDup (all_keys g) -> ~ In kEND (all_keys g) -> (g_dag g = true -> covered g = true) ->
  (g_dag g = false -> g_eager g = false) ->
  run_int g cfg start tms = Ok (SDone out dropped st) -> store_ok (rs_store st).
Proof.
  intros g cfg start tms out dropped st Hn He Hc Hnr H. destruct (run_int_one _ _ _ _ _ H) as (n & H1).
  destruct (g_dag g) eqn:Hd.
  - pose proof (run_one_dag g Hd Hn He _ _ _ _ _ _ (Hc eq_refl) H1) as (_ & [Hok _] & _). exact Hok.
  - pose proof (run_one_pregel g Hd Hn He (Hnr eq_refl) _ _ _ _ _ _ H1) as (_ & [Hok _]). exact Hok.
Qed.

(* every stream that existed during any call of the run — inputs, node outputs, copies, merged and
   empty streams, the streams restored from the checkpoints, the ignored inputs of the resumed calls —
   is released once the caller has drained or closed the output *)
Lemma every_stream_released_resumed_s : forall g cfg start tms out dropped st s',
  NoDup (all_keys g) -> ~ In kEND (all_keys g) ->
  (g_dag g = true -> covered g = true /\ all_finished g st = true) ->
  (g_dag g = false -> dropped = [] /\ g_eager g = false) ->
  run_int g cfg start tms = Ok (SDone out dropped st) ->
  consume out (rs_store st) = Ok s' ->
  s_open s' = [] /\ forall h, created (s_hist s') h -> released (s_hist s') h.
Proof.
  intros g cfg start tms out dropped st s' Hn He Hdagh Hpre H Hcons.
  assert (Hok : store_ok (rs_store st)).
  { eapply resumed_done_store_ok; eauto; [intros Hd; apply (Hdagh Hd)|intros Hd; apply (Hpre Hd)]. }
  assert (Hopen : s_open (rs_store st) = [out]).
  { destruct (g_dag g) eqn:Hd.
    - destruct (Hdagh eq_refl) as [Hcov Hfin]. apply (resumed_open_empty_dag_s g cfg start tms out dropped st Hd Hn He Hcov H Hfin).
    - destruct (Hpre eq_refl) as [Hdr Hnr]. rewrite Hdr in H. apply (resumed_open_empty_pregel_s g cfg start tms out st Hd Hnr Hn He H). }
  pose proof (consume_ok _ _ _ Hok Hcons) as Hok'.
  destruct (consume_perm _ _ _ Hcons) as (HP & _). rewrite Hopen in HP.
  assert (Hempty : s_open s' = []).
  { apply Permutation_length in HP. simpl in HP. destruct (s_open s'); [reflexivity|simpl in HP; lia]. }
  split; [exact Hempty|]. now apply all_released.
Qed.

(* the successive runs of a nested graph: each of them is a run *)
Lemma run_many_each : forall g cfg starts tms l,
  run_many g cfg starts tms = Ok l ->
  Forall (fun on => exists s tms' unused, run_one g cfg s tms' = Ok (fst on, snd on, unused)) l.
Proof.
  intros g cfg. induction starts as [|s starts IH]; simpl; intros tms l H.
  - destruct tms; [|discriminate]. inversion H; subst. constructor.
  - bind_ok H r Hr. destruct r as [[o n] unused]. bind_ok H l' Hl. inversion H; subst. constructor; [|eapply IH; eauto].
    simpl. eauto.
Qed.

(* ---- without an interrupt configuration one call is the run of Model/StreamRun.v *)
Definition to_sout (o : outcome) : sout :=
  match o with
  | Running st => SRunning st
  | Done out dropped st => SDone out dropped st
  end.

Lemma hit_before_icfg0 : forall ready, hit_before icfg0 ready = false.
Proof. induction ready as [|a l IH]; simpl; [reflexivity|exact IH]. Qed.
Lemma hit_after_icfg0 : forall b, hit_after icfg0 b = false.
Proof. induction b as [|a l IH]; simpl; [reflexivity|exact IH]. Qed.

Definition plain (bs : list batch) : seg := map (fun b => (b, [])) bs.

Lemma plain_fst : forall bs, map fst (plain bs) = bs.
Proof. induction bs as [|b bs IH]; simpl; [reflexivity|now rewrite IH]. Qed.

Lemma seg_loop_icfg0 : forall g bs st,
  seg_loop g icfg0 (plain bs) st = res_map to_sout (run_from g bs st).
Proof.
  intros g. induction bs as [|b rest IH]; intros st; [reflexivity|].
  cbn [plain map seg_loop run_from]. fold (plain rest). unfold pass, superstep. rewrite reruns_of_nil.
  destruct (calc_next g b st) as [[ready st4]|e|]; simpl; try reflexivity.
  destruct (nlist_get kEND ready) as [out|] eqn:Ee.
  - destruct rest; reflexivity.
  - rewrite hit_before_icfg0, hit_after_icfg0. simpl.
    destruct (consume_all (map snd ready) (rs_store st4)) as [s|e|]; simpl; [apply IH|reflexivity|reflexivity].
Qed.

Definition one_call (rest : list batch) : list seg :=
  match rest with [] => [] | _ :: _ => [ plain rest ] end.

Lemma run_int_icfg0_l : forall g b rest, run_int g icfg0 b (one_call rest) = res_map to_sout (run g (b :: rest)).
Proof.
  intros g b rest. unfold run_int, run_one, run. destruct (init_state g) as [st|e|]; simpl; try reflexivity.
  unfold first_pass, superstep.
  destruct (calc_next g b st) as [[ready st4]|e|]; simpl; try reflexivity.
  destruct (nlist_get kEND ready) as [out|] eqn:Ee.
  - destruct rest; reflexivity.
  - rewrite hit_before_icfg0.
    destruct (consume_all (map snd ready) (rs_store st4)) as [s|e|]; simpl; try reflexivity.
    destruct rest as [|b1 rest]; [reflexivity|]. cbn [one_call].
    rewrite seg_loop_icfg0. destruct (run_from g (b1 :: rest) (set_store st4 s)) as [[st'|out d st']|e|]; reflexivity.
Qed.

(* ---- examples (non-vacuity of the statements) *)
Definition ex_dag_cfg : icfg := {| i_before := [3]; i_after := [] |}.
Definition ex_dag_tms : list seg := [ plain [ [(2, [[3; 4]])] ]; plain [ [(4, []); (3, [])] ] ].
Definition ex_wf_cfg : icfg := {| i_before := []; i_after := [2] |}.
Definition ex_wf_tms : list seg := [ plain [ [(2, [])] ]; plain [ [(3, [[5]])]; [(5, [])] ] ].
(* node 3 asks for a rerun when it is first collected (together with node 4) *)
Definition ex_rr_tms : list seg := [ [ ([(2, [[3; 4]])], []); ([(4, []); (3, [])], [3]) ]; plain [ [(3, [])] ] ].

Lemma ex_dag_resumed_ok :
  exists out st, run_int ex_dag ex_dag_cfg [(0, [])] ex_dag_tms = Ok (SDone out [] st) /\ all_finished ex_dag st = true /\
                 s_open (rs_store st) = [out] /\ l_cp_drains (rs_log st) = 3%nat /\ l_input_closes (rs_log st) = 1%nat /\
                 l_merges (rs_log st) = [3%nat].
Proof.
  assert (E : exists out st, run_int ex_dag ex_dag_cfg [(0, [])] ex_dag_tms = Ok (SDone out [] st) /\
              (all_finished ex_dag st = true /\ s_open (rs_store st) = [out] /\ l_cp_drains (rs_log st) = 3%nat /\
               l_input_closes (rs_log st) = 1%nat /\ l_merges (rs_log st) = [3%nat])).
  { vm_compute. eexists. eexists. split; [reflexivity|]. repeat split. }
  exact E.
Qed.

Lemma ex_wf_resumed_ok :
  exists out st, run_int ex_wf ex_wf_cfg [(0, [])] ex_wf_tms = Ok (SDone out [] st) /\ all_finished ex_wf st = true /\
                 s_open (rs_store st) = [out] /\ l_cp_drains (rs_log st) = 3%nat /\ l_input_closes (rs_log st) = 1%nat.
Proof.
  assert (E : exists out st, run_int ex_wf ex_wf_cfg [(0, [])] ex_wf_tms = Ok (SDone out [] st) /\
              (all_finished ex_wf st = true /\ s_open (rs_store st) = [out] /\ l_cp_drains (rs_log st) = 3%nat /\
               l_input_closes (rs_log st) = 1%nat)).
  { vm_compute. eexists. eexists. split; [reflexivity|]. repeat split. }
  exact E.
Qed.

Lemma ex_rerun_ok :
  exists out st, run_int ex_dag icfg0 [(0, [])] ex_rr_tms = Ok (SDone out [] st) /\ all_finished ex_dag st = true /\
                 s_open (rs_store st) = [out] /\ l_cp_drains (rs_log st) = 3%nat /\ l_input_closes (rs_log st) = 1%nat.
Proof.
  assert (E : exists out st, run_int ex_dag icfg0 [(0, [])] ex_rr_tms = Ok (SDone out [] st) /\
              (all_finished ex_dag st = true /\ s_open (rs_store st) = [out] /\ l_cp_drains (rs_log st) = 3%nat /\
               l_input_closes (rs_log st) = 1%nat)).
  { vm_compute. eexists. eexists. split; [reflexivity|]. repeat split. }
  exact E.
Qed.

Lemma ex_dag_suspended_ok :
  exists ready st, run_int ex_dag ex_dag_cfg [(0, [])] [ plain [ [(2, [[3; 4]])] ] ] = Ok (SInt ready [] st) /\
                   List.length ready = 2%nat /\ List.length (held ex_dag st) = 1%nat.
Proof.
  assert (E : exists ready st, run_int ex_dag ex_dag_cfg [(0, [])] [ plain [ [(2, [[3; 4]])] ] ] = Ok (SInt ready [] st) /\
              (List.length ready = 2%nat /\ List.length (held ex_dag st) = 1%nat)).
  { vm_compute. eexists. eexists. split; [reflexivity|]. split; reflexivity. }
  exact E.
Qed.

(* any-predecessor mode, a loop: node 2 runs, is scheduled again by the branch of node 3 and asks for a
   rerun in its second execution — the same call collects it once as completed and once as interrupted *)
Definition ex_pregel_rr_tms : list seg :=
  [ [ ([(2, [])], []); ([(3, [[2]])], []); ([(2, [])], [2]) ]; plain [ [(2, [])]; [(3, [[1]])] ] ].

Lemma ex_pregel_rerun_ok :
  exists out st, run_int ex_pregel icfg0 [(0, [])] ex_pregel_rr_tms = Ok (SDone out [] st) /\
                 s_open (rs_store st) = [out] /\ l_cp_drains (rs_log st) = 1%nat /\ l_input_closes (rs_log st) = 1%nat /\
                 rs_resolved st = [0; 2; 3; 2; 3].
Proof.
  assert (E : exists out st, run_int ex_pregel icfg0 [(0, [])] ex_pregel_rr_tms = Ok (SDone out [] st) /\
              (s_open (rs_store st) = [out] /\ l_cp_drains (rs_log st) = 1%nat /\ l_input_closes (rs_log st) = 1%nat /\
               rs_resolved st = [0; 2; 3; 2; 3])).
  { vm_compute. eexists. eexists. split; [reflexivity|]. repeat split. }
  exact E.
Qed.

(* "every stream the framework created internally is drained or closed", literally: whatever each
   consumer does with its handle — close it, or read it to EOF — every stream that existed during any
   call of a finished run is closed or drained at its source *)
Lemma every_stream_drained_or_closed_s : forall (drains : handle -> bool) g cfg start tms out dropped st s',
  NoDup (all_keys g) -> ~ In kEND (all_keys g) ->
  (g_dag g = true -> covered g = true /\ all_finished g st = true) ->
  (g_dag g = false -> dropped = [] /\ g_eager g = false) ->
  run_int g cfg start tms = Ok (SDone out dropped st) ->
  consume out (rs_store st) = Ok s' ->
  forall h, created (s_hist s') h -> sclosed drains (s_hist s') h \/ sdrained drains (s_hist s') h.
Proof.
  intros drains g cfg start tms out dropped st s' Hn He Hd Hp H Hc h Hh.
  apply released_closed_or_drained.
  destruct (every_stream_released_resumed_s g cfg start tms out dropped st s' Hn He Hd Hp H Hc) as (_ & Hrel).
  now apply Hrel.
Qed.
