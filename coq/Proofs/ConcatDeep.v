(* Proofs/ConcatDeep.v — map chunks holding messages, message lists, ordinary values and
   nested maps of these at any depth (Model/ConcatDeep.v): totality (the fuel supplied is
   enough), independence of the fuel, prefix law, suffix law, hence any segment and any
   grouping.  The per-key step is the generic one of Proofs/ConcatKinds.v, the key-wise pass
   the generic one of Proofs/ConcatKeyed.v / ConcatSuffixMap.v; the induction is on the fuel. *)
From Eino Require Import Base.Util Model.Concat Model.ConcatMsg Model.ConcatMsgMap Model.ConcatDeep.
From Eino Require Import Proofs.Concat Proofs.ConcatRechunk Proofs.ConcatMsg Proofs.ConcatMsgList.
From Eino Require Import Proofs.ConcatKeyed Proofs.ConcatMsgMap.
From Eino Require Import Proofs.ConcatSuffix Proofs.ConcatSuffixMsg Proofs.ConcatSuffixMap Proofs.ConcatSplit.
From Eino Require Import Proofs.ConcatKinds.

Lemma dkind_eqb_eq a b : dkind_eqb a b = true <-> a = b.
Proof. destruct a, b; cbn; split; intros H; try reflexivity; try discriminate. Qed.

Section User.
Context {U : UserFn} {L : UserLaw}.

(* ------------------------------------------------------------------ one key, for a given recursive call *)

Section WithRec.
Variable rec : list (list (string * dval)) -> res (list (string * dval)).

Notation allk := (ConcatKinds.allk is_dnil kind_of).

Lemma dkey_is_gkey vs :
  dkey rec vs = gkey is_dnil (DVal CNil) kind_of dkind_eqb (dkind_concat rec) vs.
Proof. reflexivity. Qed.

Lemma allk_msg l x : allk KMsg l -> In x l -> x = DPtrNil \/ exists m, x = DMsg m.
Proof. intros H Hx. destruct (H x Hx) as [_ K]. destruct x; cbn in K; try discriminate; eauto. Qed.

Lemma allk_val_nonnil l : allk KVal l -> forall c, In c (map d_cval l) -> is_nil c = false.
Proof.
  intros H c Hc. apply in_map_iff in Hc. destruct Hc as [x [<- Hx]].
  destruct (H x Hx) as [N K]. destruct x; cbn in K; try discriminate. cbn. destruct v; cbn in *; congruence.
Qed.

Lemma kmsg_two a b l : dkind_concat rec KMsg (a :: b :: l) = res_map DMsg (concat_msgs (map d_omsg (a :: b :: l))).
Proof. reflexivity. Qed.
Lemma klist_two a b l : dkind_concat rec KList (a :: b :: l) = res_map DList (concat_msg_arrays (map d_list (a :: b :: l))).
Proof. reflexivity. Qed.

Lemma kmsg_app xs zs : xs <> [] -> zs <> [] ->
  dkind_concat rec KMsg (xs ++ zs) = res_map DMsg (concat_msgs (map d_omsg (xs ++ zs))).
Proof. intros Hx Hz. destruct xs as [|x [|x2 xs]]; destruct zs; try congruence; reflexivity. Qed.
Lemma klist_app xs zs : xs <> [] -> zs <> [] ->
  dkind_concat rec KList (xs ++ zs) = res_map DList (concat_msg_arrays (map d_list (xs ++ zs))).
Proof. intros Hx Hz. destruct xs as [|x [|x2 xs]]; destruct zs; try congruence; reflexivity. Qed.

(* the result of a kind is a non-nil value of that kind *)
Lemma dkind_res k l v : l <> [] -> allk k l -> dkind_concat rec k l = Ok v -> is_dnil v = false /\ kind_of v = k.
Proof.
  intros Hne Ha E. destruct k; cbn [dkind_concat] in E.
  - destruct l as [|a [|b l]]; [congruence| |].
    + inversion E; subst v. apply Ha. now left.
    + destruct (concat_msgs _); cbn in E; try discriminate. inversion E. split; reflexivity.
  - destruct l as [|a [|b l]]; [congruence| |].
    + inversion E; subst v. apply Ha. now left.
    + destruct (concat_msg_arrays _); cbn in E; try discriminate. inversion E. split; reflexivity.
  - destruct (rec _); cbn in E; try discriminate. inversion E. split; reflexivity.
  - destruct (concat_key concat_maps_top (map d_cval l)) as [c| |] eqn:Ec; cbn in E; try discriminate.
    inversion E; subst v. split; [|reflexivity].
    assert (Nc : is_nil c = false).
    { apply (concat_key_top_nonnil (map d_cval l) c); [apply allk_val_nonnil, Ha|exact Ec|].
      destruct l; [congruence|discriminate]. }
    destruct c; cbn in *; congruence.
Qed.

Hypothesis rec_prefix : forall xs ys, rechunk_ok rec xs ys.

Lemma dkind_prefix k xs rest : xs <> [] -> allk k xs -> allk k rest ->
  match dkind_concat rec k xs with
  | Ok v => req (dkind_concat rec k (v :: rest)) (dkind_concat rec k (xs ++ rest))
  | _ => fails (dkind_concat rec k (xs ++ rest))
  end.
Proof.
  intros Hne Hx Hr. destruct k.
  - (* messages *)
    destruct xs as [|a [|b l]]; [congruence| |].
    + cbn [dkind_concat app]. apply req_refl.
    + rewrite kmsg_two.
      pose proof (msgs_rechunk (map d_omsg (a :: b :: l)) (map d_omsg rest)) as R. unfold msgs_rechunk_stmt in R.
      rewrite <- map_app in R.
      destruct rest as [|y rest'].
      * rewrite app_nil_r in *. rewrite kmsg_two.
        destruct (concat_msgs (map d_omsg (a :: b :: l))) as [c| |]; cbn [res_map dkind_concat]; reflexivity.
      * rewrite (kmsg_app (a :: b :: l) (y :: rest')) by discriminate.
        destruct (concat_msgs (map d_omsg (a :: b :: l))) as [c| |]; cbn [res_map].
        -- rewrite kmsg_two. apply req_res_map. exact R.
        -- apply fails_res_map. exact R.
        -- apply fails_res_map. exact R.
  - (* message lists *)
    destruct xs as [|a [|b l]]; [congruence| |].
    + cbn [dkind_concat app]. apply req_refl.
    + rewrite klist_two.
      pose proof (msg_arrays_rechunk (map d_list (a :: b :: l)) (map d_list rest) ltac:(discriminate)) as R.
      unfold rechunk_ok in R. rewrite <- map_app in R.
      destruct rest as [|y rest'].
      * rewrite app_nil_r in *. rewrite klist_two.
        destruct (concat_msg_arrays (map d_list (a :: b :: l))) as [c| |]; cbn [res_map dkind_concat]; reflexivity.
      * rewrite (klist_app (a :: b :: l) (y :: rest')) by discriminate.
        destruct (concat_msg_arrays (map d_list (a :: b :: l))) as [c| |]; cbn [res_map].
        -- rewrite klist_two. apply req_res_map. exact R.
        -- apply fails_res_map. exact R.
        -- apply fails_res_map. exact R.
  - (* nested maps *)
    cbn [dkind_concat]. pose proof (rec_prefix (map d_map xs) (map d_map rest)) as R. unfold rechunk_ok in R.
    rewrite <- map_app in R.
    destruct (rec (map d_map xs)) as [c| |]; cbn [res_map].
    + cbn [map d_map]. apply req_res_map. exact R.
    + apply fails_res_map. exact R.
    + apply fails_res_map. exact R.
  - (* ordinary values *)
    cbn [dkind_concat]. pose proof (concat_key_top_law (map d_cval xs) (map d_cval rest)) as R.
    rewrite <- map_app in R.
    destruct (concat_key concat_maps_top (map d_cval xs)) as [c| |]; cbn [res_map].
    + cbn [map d_cval]. apply req_res_map. exact R.
    + apply fails_res_map. exact R.
    + apply fails_res_map. exact R.
Qed.

Theorem dkey_law vs rest :
  match dkey rec vs with
  | Ok v => req (dkey rec (v :: rest)) (dkey rec (vs ++ rest))
  | _ => fails (dkey rec (vs ++ rest))
  end.
Proof.
  rewrite !dkey_is_gkey.
  apply (gkey_prefix is_dnil (DVal CNil) kind_of dkind_eqb (dkind_concat rec) dkind_eqb_eq eq_refl dkind_res dkind_prefix).
Qed.

Context {LS : UserLawS}.
Hypothesis rec_suffix : forall xs ys, suffix_ok rec xs ys.

Lemma dkind_suffix k xs ys : xs <> [] -> ys <> [] -> allk k xs -> allk k ys ->
  match dkind_concat rec k ys with
  | Ok v => req (dkind_concat rec k (xs ++ [v])) (dkind_concat rec k (xs ++ ys))
  | _ => fails (dkind_concat rec k (xs ++ ys))
  end.
Proof.
  intros Hx Hy Ax Ay. destruct k.
  - destruct ys as [|a [|b l]]; [congruence| |].
    + cbn [dkind_concat]. apply req_refl.
    + rewrite kmsg_two. rewrite (kmsg_app xs (a :: b :: l)) by (assumption || discriminate).
      pose proof (msgs_suffix (map d_omsg xs) (map d_omsg (a :: b :: l))) as R. unfold msgs_suffix_stmt in R.
      rewrite map_app.
      destruct (concat_msgs (map d_omsg (a :: b :: l))) as [c| |]; cbn [res_map].
      * rewrite (kmsg_app xs [DMsg c]) by (assumption || discriminate). rewrite map_app. cbn [map d_omsg].
        apply req_res_map. exact R.
      * apply fails_res_map. exact R.
      * apply fails_res_map. exact R.
  - destruct ys as [|a [|b l]]; [congruence| |].
    + cbn [dkind_concat]. apply req_refl.
    + rewrite klist_two. rewrite (klist_app xs (a :: b :: l)) by (assumption || discriminate).
      pose proof (msg_arrays_suffix (map d_list xs) (map d_list (a :: b :: l)) ltac:(discriminate)) as R. unfold suffix_ok in R.
      rewrite map_app.
      destruct (concat_msg_arrays (map d_list (a :: b :: l))) as [c| |]; cbn [res_map].
      * rewrite (klist_app xs [DList c]) by (assumption || discriminate). rewrite map_app. cbn [map d_list].
        apply req_res_map. exact R.
      * apply fails_res_map. exact R.
      * apply fails_res_map. exact R.
  - cbn [dkind_concat]. pose proof (rec_suffix (map d_map xs) (map d_map ys)) as R. unfold suffix_ok in R.
    rewrite !map_app.
    destruct (rec (map d_map ys)) as [c| |]; cbn [res_map].
    + rewrite map_app. cbn [map d_map]. apply req_res_map. exact R.
    + apply fails_res_map. exact R.
    + apply fails_res_map. exact R.
  - cbn [dkind_concat]. pose proof (concat_key_top_suffix (map d_cval xs) (map d_cval ys)) as R.
    rewrite !map_app.
    destruct (concat_key concat_maps_top (map d_cval ys)) as [c| |]; cbn [res_map].
    + rewrite map_app. cbn [map d_cval]. apply req_res_map. exact R.
    + apply fails_res_map. exact R.
    + apply fails_res_map. exact R.
Qed.

Theorem dkey_suffix vs rest :
  match dkey rec rest with
  | Ok v => req (dkey rec (vs ++ [v])) (dkey rec (vs ++ rest))
  | _ => fails (dkey rec (vs ++ rest))
  end.
Proof.
  rewrite !dkey_is_gkey.
  apply (gkey_suffix is_dnil (DVal CNil) kind_of dkind_eqb (dkind_concat rec) dkind_eqb_eq eq_refl dkind_res dkind_prefix dkind_suffix).
Qed.

End WithRec.

(* ------------------------------------------------------------------ the laws at every fuel *)

Theorem deep_maps_prefix fuel : forall xs ys, rechunk_ok (deep_maps fuel) xs ys.
Proof.
  induction fuel as [|f IH]; intros xs ys.
  - unfold rechunk_ok. cbn [deep_maps]. reflexivity.
  - cbn [deep_maps]. apply kstep_rechunk. intros vs rest. apply dkey_law. exact IH.
Qed.

Theorem deep_maps_suffix {LS : UserLawS} fuel : forall xs ys, suffix_ok (deep_maps fuel) xs ys.
Proof.
  induction fuel as [|f IH]; intros xs ys.
  - unfold suffix_ok. cbn [deep_maps]. reflexivity.
  - cbn [deep_maps]. apply kstep_suffix. intros vs rest. apply dkey_suffix; first [apply deep_maps_prefix | exact IH | exact LS].
Qed.

(* ------------------------------------------------------------------ depth and fuel *)

Lemma alist_get_In' {A} k (m : list (string * A)) v : alist_get k m = Some v -> exists k', In (k', v) m.
Proof.
  induction m as [|[k' a] m IH]; cbn; [discriminate|].
  destruct (String.eqb k k'); intros H.
  - inversion H; subst. exists k'. now left.
  - destruct (IH H) as [k'' Hin]. exists k''. now right.
Qed.

Lemma vdepth_in m k v : In (k, v) m -> ddepth v <= vdepth m.
Proof.
  unfold vdepth. induction m as [|[k' a] m IH]; cbn; [contradiction|].
  intros [H|H]; [inversion H; subst; lia|]. specialize (IH H). lia.
Qed.

Lemma mdepth_in ms m : In m ms -> vdepth m <= mdepth ms.
Proof.
  unfold mdepth. induction ms as [|m' ms IH]; cbn; [contradiction|].
  intros [->|H]; [lia|]. specialize (IH H). lia.
Qed.

Lemma gvals_depth k ms v : In v (gvals_at k ms) -> ddepth v <= mdepth ms.
Proof.
  unfold gvals_at. intros H. apply in_flat_map in H. destruct H as [m [Hm Hv]].
  destruct (alist_get k m) as [w|] eqn:E; [|contradiction]. destruct Hv as [<-|[]].
  destruct (alist_get_In' k m w E) as [k' Hin].
  pose proof (vdepth_in m k' w Hin). pose proof (mdepth_in ms m Hm). lia.
Qed.

Lemma ddepth_map m : ddepth (DMap m) = S (vdepth m).
Proof. reflexivity. Qed.

(* the maps found among values of depth <= S f have values of depth <= f *)
Lemma mdepth_d_map l f : (forall v, In v l -> ddepth v <= S f) -> mdepth (map d_map l) <= f.
Proof.
  unfold mdepth. induction l as [|v l IH]; intros H; cbn; [lia|].
  assert (Hv : vdepth (d_map v) <= f).
  { specialize (H v ltac:(now left)). destruct v; cbn [d_map]; try (cbn; lia). rewrite ddepth_map in H. lia. }
  specialize (IH ltac:(intros; apply H; now right)). cbn in IH. lia.
Qed.

Lemma kind_map_depth v : kind_of v = KMap -> 1 <= ddepth v.
Proof. destruct v; cbn; try discriminate. intros _. lia. Qed.

Definition dnn (vs : list dval) : list dval := filter (fun v => negb (is_dnil v)) vs.

Lemma dnn_sub vs v : In v (dnn vs) -> In v vs.
Proof. intros H. apply filter_In in H. apply H. Qed.

(* dkey looks at the recursive call only on the maps among the values of the key *)
Lemma dkey_ext r r' vs :
  (kind_of (hd DPtrNil (dnn vs)) = KMap -> r (map d_map (dnn vs)) = r' (map d_map (dnn vs))) ->
  dkey r vs = dkey r' vs.
Proof.
  intros H. unfold dkey. fold (dnn vs) in *. destruct (dnn vs) as [|v0 l]; [reflexivity|].
  destruct (forallb _ (v0 :: l)); [|reflexivity].
  cbn [hd] in H. destruct (kind_of v0) eqn:K; cbn [dkind_concat]; try reflexivity.
  rewrite (H eq_refl). reflexivity.
Qed.

Lemma concat_msg_arrays_no_panic a b l : concat_msg_arrays (a :: b :: l) <> Panic.
Proof. exact (msglist_stream_no_panic (a :: b :: l)). Qed.

Lemma dkey_no_panic r vs :
  (kind_of (hd DPtrNil (dnn vs)) = KMap -> r (map d_map (dnn vs)) <> Panic) -> dkey r vs <> Panic.
Proof.
  intros H. unfold dkey. fold (dnn vs) in *. destruct (dnn vs) as [|v0 l]; [discriminate|].
  destruct (forallb _ (v0 :: l)); [|discriminate].
  cbn [hd] in H. destruct (kind_of v0) eqn:K; cbn [dkind_concat].
  - destruct l as [|b l]; [discriminate|].
    pose proof (concat_msgs_no_panic (map d_omsg (v0 :: b :: l))) as P. destruct (concat_msgs _); cbn; congruence.
  - destruct l as [|b l]; [discriminate|].
    pose proof (concat_msg_arrays_no_panic (d_list v0) (d_list b) (map d_list l)) as P.
    cbn [map]. destruct (concat_msg_arrays _); cbn; congruence.
  - specialize (H eq_refl). destruct (r _); cbn; congruence.
  - pose proof (concat_key_no_panic concat_maps_top (map d_cval (v0 :: l))
                  (fun ms => concat_maps_no_panic (S (Concat.dmaps ms)) ms)) as P.
    destruct (concat_key _ _); cbn; congruence.
Qed.

Lemma dnn_depth vs f : (forall v, In v vs -> ddepth v <= f) -> forall v, In v (dnn vs) -> ddepth v <= f.
Proof. intros H v Hv. apply H, dnn_sub, Hv. Qed.

(* with fuel above the nesting depth the fuel never runs out ... *)
Theorem deep_maps_no_panic f : forall ms, mdepth ms <= f -> deep_maps (S f) ms <> Panic.
Proof.
  induction f as [|f IH]; intros ms Hd; cbn [deep_maps]; unfold kstep; apply res_mapM_no_panic; intros k _.
  - assert (P : dkey (deep_maps 0) (gvals_at k ms) <> Panic).
    { apply dkey_no_panic. intros K. exfalso.
      destruct (dnn (gvals_at k ms)) as [|v0 l] eqn:E; [cbn in K; discriminate|]. cbn [hd] in K.
      assert (Hin : In v0 (gvals_at k ms)) by (apply dnn_sub; rewrite E; now left).
      pose proof (gvals_depth k ms v0 Hin). pose proof (kind_map_depth v0 K). lia. }
    destruct (dkey _ _); cbn; congruence.
  - assert (P : dkey (deep_maps (S f)) (gvals_at k ms) <> Panic).
    { apply dkey_no_panic. intros _. apply IH. apply mdepth_d_map.
      apply dnn_depth. intros v Hv. pose proof (gvals_depth k ms v Hv). lia. }
    destruct (dkey _ _); cbn; congruence.
Qed.

(* ... and more fuel changes nothing *)
Theorem deep_maps_fuel f : forall f' ms, mdepth ms <= f -> mdepth ms <= f' -> deep_maps (S f) ms = deep_maps (S f') ms.
Proof.
  induction f as [|f IH]; intros f' ms Hd Hd'; cbn [deep_maps]; unfold kstep; apply res_mapM_ext_in; intros k _; f_equal.
  - apply dkey_ext. intros K. exfalso.
    destruct (dnn (gvals_at k ms)) as [|v0 l] eqn:E; [cbn in K; discriminate|]. cbn [hd] in K.
    assert (Hin : In v0 (gvals_at k ms)) by (apply dnn_sub; rewrite E; now left).
    pose proof (gvals_depth k ms v0 Hin). pose proof (kind_map_depth v0 K). lia.
  - apply dkey_ext. intros K.
    destruct f' as [|f'].
    + exfalso. destruct (dnn (gvals_at k ms)) as [|v0 l] eqn:E; [cbn in K; discriminate|]. cbn [hd] in K.
      assert (Hin : In v0 (gvals_at k ms)) by (apply dnn_sub; rewrite E; now left).
      pose proof (gvals_depth k ms v0 Hin). pose proof (kind_map_depth v0 K). lia.
    + apply IH; apply mdepth_d_map; apply dnn_depth; intros v Hv; pose proof (gvals_depth k ms v Hv); lia.
Qed.

Lemma deep_maps_top_as f ms : mdepth ms <= f -> deep_maps_top ms = deep_maps (S f) ms.
Proof. intros H. unfold deep_maps_top. apply deep_maps_fuel; [lia|exact H]. Qed.

Lemma mdepth_app a b : mdepth (a ++ b) = Nat.max (mdepth a) (mdepth b).
Proof. unfold mdepth. induction a as [|m a IH]; cbn; [reflexivity|]. rewrite IH. lia. Qed.

Lemma deep_maps_top_no_panic ms : deep_maps_top ms <> Panic.
Proof. apply deep_maps_no_panic. lia. Qed.

(* ------------------------------------------------------------------ concatMaps with the fuel hidden *)

Theorem deep_maps_top_prefix xs ys : rechunk_ok deep_maps_top xs ys.
Proof.
  unfold rechunk_ok.
  set (F := Nat.max (mdepth xs) (mdepth ys)).
  rewrite (deep_maps_top_as F xs) by lia.
  rewrite (deep_maps_top_as F (xs ++ ys)) by (rewrite mdepth_app; lia).
  pose proof (deep_maps_prefix (S F) xs ys) as P. unfold rechunk_ok in P.
  destruct (deep_maps (S F) xs) as [c| |] eqn:E; [|exact P|exact P].
  set (G := Nat.max F (mdepth (c :: ys))).
  rewrite (deep_maps_top_as G (c :: ys)) by lia.
  (* bring everything to the fuel G *)
  rewrite (deep_maps_fuel F G (xs ++ ys)) by (rewrite ?mdepth_app; lia).
  pose proof (deep_maps_prefix (S G) xs ys) as P'. unfold rechunk_ok in P'.
  rewrite <- (deep_maps_fuel F G xs) in P' by lia. rewrite E in P'. exact P'.
Qed.

Theorem deep_maps_top_suffix {LS : UserLawS} xs ys : suffix_ok deep_maps_top xs ys.
Proof.
  unfold suffix_ok.
  set (F := Nat.max (mdepth xs) (mdepth ys)).
  rewrite (deep_maps_top_as F ys) by lia.
  rewrite (deep_maps_top_as F (xs ++ ys)) by (rewrite mdepth_app; lia).
  pose proof (deep_maps_suffix (S F) xs ys) as P. unfold suffix_ok in P.
  destruct (deep_maps (S F) ys) as [c| |] eqn:E; [|exact P|exact P].
  set (G := Nat.max F (mdepth (xs ++ [c]))).
  rewrite (deep_maps_top_as G (xs ++ [c])) by lia.
  rewrite (deep_maps_fuel F G (xs ++ ys)) by (rewrite ?mdepth_app; lia).
  pose proof (deep_maps_suffix (S G) xs ys) as P'. unfold suffix_ok in P'.
  rewrite <- (deep_maps_fuel F G ys) in P' by lia. rewrite E in P'. exact P'.
Qed.

(* ------------------------------------------------------------------ the stream entry point *)

Lemma dmap_stream_no_panic l : dmap_stream l <> Panic.
Proof. destruct l as [|x1 [|x2 l]]; cbn [dmap_stream]; try discriminate. apply deep_maps_top_no_panic. Qed.

Theorem dmap_stream_rechunk_weak xs ys : xs <> [] -> rechunk_ok dmap_stream xs ys.
Proof.
  intros Hne. unfold rechunk_ok.
  destruct xs as [|x1 [|x2 l]]; [congruence| |].
  - cbn [dmap_stream]. apply req_refl.
  - pose proof (deep_maps_top_prefix (x1 :: x2 :: l) ys) as H. unfold rechunk_ok in H.
    change (dmap_stream (x1 :: x2 :: l)) with (deep_maps_top (x1 :: x2 :: l)).
    change (dmap_stream ((x1 :: x2 :: l) ++ ys)) with (deep_maps_top ((x1 :: x2 :: l) ++ ys)).
    destruct (deep_maps_top (x1 :: x2 :: l)) as [c| |] eqn:E; try exact H.
    destruct ys as [|y ys'].
    + rewrite app_nil_r. cbn [dmap_stream]. rewrite E. reflexivity.
    + exact H.
Qed.

Theorem dmap_stream_rechunk xs ys : xs <> [] -> rechunk_strict dmap_stream xs ys.
Proof.
  intros Hne. apply rechunk_strict_of; auto using dmap_stream_no_panic, dmap_stream_rechunk_weak.
Qed.

Theorem dmap_stream_suffix {LS : UserLawS} xs ys : ys <> [] -> suffix_ok dmap_stream xs ys.
Proof.
  intros Hne. unfold suffix_ok.
  destruct ys as [|y1 [|y2 l]]; [congruence| |].
  - cbn [dmap_stream]. apply req_refl.
  - change (dmap_stream (y1 :: y2 :: l)) with (deep_maps_top (y1 :: y2 :: l)).
    pose proof (deep_maps_top_suffix xs (y1 :: y2 :: l)) as H. unfold suffix_ok in H.
    destruct xs as [|x xs].
    + cbn [app] in *. change (dmap_stream (y1 :: y2 :: l)) with (deep_maps_top (y1 :: y2 :: l)).
      destruct (deep_maps_top (y1 :: y2 :: l)); cbn [dmap_stream]; reflexivity.
    + assert (W : forall zs, zs <> [] -> dmap_stream ((x :: xs) ++ zs) = deep_maps_top ((x :: xs) ++ zs)).
      { intros zs Hz. destruct xs as [|x2 xs]; cbn [app]; [destruct zs; [congruence|reflexivity]|reflexivity]. }
      rewrite (W (y1 :: y2 :: l)) by discriminate.
      destruct (deep_maps_top (y1 :: y2 :: l)) as [c| |]; [|exact H|exact H].
      rewrite (W [c]) by discriminate. exact H.
Qed.

Theorem dmap_stream_split {LS : UserLawS} groups cs :
  Forall2 (fun g c => g <> [] /\ dmap_stream g = Ok c) groups cs ->
  req (dmap_stream cs) (dmap_stream (List.concat groups)).
Proof.
  intros H. apply (split_any dmap_stream anyx); try exact H.
  - intros xs ys Hne _. apply dmap_stream_rechunk_weak, Hne.
  - intros xs ys Hne _. apply dmap_stream_suffix, Hne.
  - intros; exact I.
  - apply Forall_forall. intros; exact I.
Qed.

Theorem dmap_stream_segment {LS : UserLawS} pre seg post : seg <> [] -> segment_ok dmap_stream pre seg post.
Proof.
  intros Hne. apply (segment_law dmap_stream anyx); try exact Hne.
  - intros xs ys Hx _. apply dmap_stream_rechunk_weak, Hx.
  - intros xs ys Hy _. apply dmap_stream_suffix, Hy.
  - intros; exact I.
  - apply Forall_forall. intros; exact I.
Qed.

End User.
