(* Proofs/StateLockVal.v — C11: no update of a state object is ever lost.
   For every interleaving of the transition system of Model/StateLockLTS.v the value of a
   state object is the fold, over the log of the critical sections completed on it (which
   is their lock-acquisition order), of their effects, starting from the value the object
   was created with. *)
From Eino Require Import Base.Util Model.StateLock Model.StateLockLTS Proofs.StateLockLTS.
From Coq Require Import Lia Permutation.

Section Val.
  Variables (S X : Type).
  Variable gen : nat -> S.
  Variable hfun : kind -> N -> X -> S -> X * S.
  Variable lout : N -> X -> X.
  Variable mrg : list X -> X.
  Variable f : forest.
  Variable x0 : X.

  Notation config := (config S X).
  Notation inst := (inst S X).
  Notation pstep := (pstep S X gen hfun lout mrg f x0).
  Notation preach := (preach S X gen hfun lout mrg f x0).
  Notation lookup := (lookup S X f).
  Notation new_inst := (new_inst S X gen).
  Notation hist := (hist S X).
  Notation apply_all := (apply_all S X hfun).
  Notation eff := (eff S X hfun).

  Ltac inv H := inversion H; subst; clear H.

  (* every logged entry refers to an existing object *)
  Definition trace_bound (c : config) : Prop :=
    forall e, In e (c_trace c) -> (t_obj e < List.length (c_objs c))%nat.

  Definition obj_bound (c : config) : Prop :=
    forall i J o, nth_error (c_insts c) i = Some J -> i_obj J = Some o -> (o < List.length (c_objs c))%nat.

  Definition val_ok (c : config) : Prop :=
    forall o r, nth_error (c_objs c) o = Some r -> o_val r = apply_all (hist c o) (o_init r).

  (* the copy a critical section works on is the current value of the object *)
  Definition loaded_ok (c : config) : Prop :=
    forall i J n s l o r,
      nth_error (c_insts c) i = Some J -> get_ns S X J n = Some s -> ns_cs s = Some (CsLoaded l) ->
      i_obj J = Some o -> nth_error (c_objs c) o = Some r -> l = o_val r.

  Lemma hist_app : forall c o e,
    StateLockLTS.hist S X (add_trace S X c e) o = hist c o ++ (if Nat.eqb (t_obj e) o then [e] else []).
  Proof.
    intros. unfold StateLockLTS.hist, add_trace; simpl. rewrite filter_app. simpl.
    destruct (Nat.eqb (t_obj e) o); reflexivity.
  Qed.

  Lemma hist_trace_eq : forall (c1 c2 : config) o, c_trace c1 = c_trace c2 -> hist c1 o = hist c2 o.
  Proof. intros. unfold StateLockLTS.hist. rewrite H. reflexivity. Qed.

  Lemma hist_fresh : forall c o, trace_bound c -> (List.length (c_objs c) <= o)%nat -> hist c o = [].
  Proof.
    intros c o Hb Hl. unfold StateLockLTS.hist. unfold trace_bound in Hb.
    induction (c_trace c) as [|e l IH]; simpl; auto.
    assert (t_obj e < List.length (c_objs c))%nat by (apply Hb; left; auto).
    destruct (Nat.eqb_spec (t_obj e) o); [lia|]. apply IH. intros e' He'. apply Hb. right; auto.
  Qed.

  Lemma apply_all_app : forall l1 l2 s,
    StateLockLTS.apply_all S X hfun (l1 ++ l2) s = apply_all l2 (apply_all l1 s).
  Proof. intros. unfold StateLockLTS.apply_all. apply fold_left_app. Qed.

  Lemma new_inst_objs : forall c r g G par inh x o r0,
    nth_error (c_objs (new_inst c r g G par inh x)) o = Some r0 ->
    nth_error (c_objs c) o = Some r0 \/
    (g_state G = true /\ o = List.length (c_objs c) /\
     r0 = mkObj (gen g) None (gen g) (List.length (c_insts c)) (OGen g)).
  Proof.
    intros. unfold StateLockLTS.new_inst in H. destruct (g_state G); simpl in H; auto.
    apply nth_app_cases in H. destruct H as [[H _]|[H1 H2]]; auto.
  Qed.

  Lemma new_inst_objs_len : forall c r g G par inh x,
    (List.length (c_objs c) <= List.length (c_objs (new_inst c r g G par inh x)))%nat.
  Proof.
    intros. unfold StateLockLTS.new_inst. destruct (g_state G); simpl; [rewrite app_length; simpl|]; lia.
  Qed.

  (* ---------------------------------------------------------------- bounds *)

  Lemma trace_bound_step : forall c ch c', trace_bound c -> obj_bound c -> pstep c ch = Some c' -> trace_bound c'.
  Proof.
    intros c ch c' Ht Ho H. destruct ch as [r|i n|i n|i n|i n|i n|o m].
    - apply pstep_start_inv in H. destruct H as (G & _ & ->). intros e He.
      rewrite new_inst_trace in He. pose proof (new_inst_objs_len c r 0 G None None x0). apply Ht in He. lia.
    - apply pstep_acq_inv in H. destruct H as (J & a & p & k & x & o & r & El & Ek & Ex & Eo & Er & Eh & ->).
      intros e He. simpl in *. rewrite upd_length. auto.
    - apply pstep_load_inv in H. destruct H as (J & a & p & o & r & El & Eo & Er & ->). exact Ht.
    - apply pstep_store_inv in H.
      destruct H as (J & a & p & l & k & x & o & r & x' & s' & El & Ek & Ex & Eo & Er & Eh & ->).
      intros e He. simpl in *. rewrite upd_length. apply in_app_or in He. destruct He as [He|[He|[]]]; auto.
      subst e; simpl. eapply nth_some_lt; eauto.
    - apply pstep_rel_inv in H. destruct H as (J & a & p & o & r & q & El & Eo & Er & ->).
      intros e He. simpl in *. rewrite upd_length. auto.
    - apply pstep_adv_inv in H. destruct H as (J & a & p & El & En & [(p' & q & _ & ->)|(x & g & G & -> & Es & EG & ->)]).
      + exact Ht.
      + intros e He. simpl in *. rewrite new_inst_trace in He.
        pose proof (new_inst_objs_len c (i_run J) g G (Some i) (i_obj J) x). apply Ht in He. lia.
    - apply pstep_resume_inv in H. destruct H as (r & Er & Eh & ->).
      intros e He. simpl in *. rewrite app_length; simpl. apply Ht in He. lia.
  Qed.

  Lemma moved_obj_bound : forall (c : config) (objs' : list (objrec S)) i J J',
    obj_bound c -> nth_error (c_insts c) i = Some J -> i_obj J' = i_obj J ->
    List.length objs' = List.length (c_objs c) ->
    forall i0 J0 o, nth_error (upd (c_insts c) i J') i0 = Some J0 -> i_obj J0 = Some o ->
                    (o < List.length objs')%nat.
  Proof.
    intros c objs' i J J' Ho Ei EJ El i0 J0 o H1 H2. rewrite El.
    rewrite nth_upd in H1. destruct (Nat.eqb_spec i i0).
    - subst. destruct (Nat.ltb i0 (List.length (c_insts c))); inv H1. rewrite EJ in H2. eapply Ho; eauto.
    - eapply Ho; eauto.
  Qed.

  Lemma obj_bound_step : forall c ch c', obj_bound c -> pstep c ch = Some c' -> obj_bound c'.
  Proof.
    intros c ch c' Ho H. destruct ch as [r|i n|i n|i n|i n|i n|o m].
    - apply pstep_start_inv in H. destruct H as (G & _ & ->). intros i J o Hi Hj.
      apply new_inst_insts in Hi.
      pose proof (new_inst_objs_len c r 0 G None None x0) as Hl.
      destruct Hi as [Hi|[-> ->]].
      + pose proof (Ho _ _ _ Hi Hj). lia.
      + simpl in Hj. unfold StateLockLTS.new_inst. destruct (g_state G); [|discriminate].
        inv Hj. simpl. rewrite app_length. simpl. lia.
    - apply pstep_acq_inv in H. destruct H as (J & a & p & k & x & o & r & El & Ek & Ex & Eo & Er & Eh & ->).
      apply lookup_inv in El. destruct El as (Ei & _).
      intros i0 J0 o0. simpl. eapply moved_obj_bound; eauto. apply upd_length.
    - apply pstep_load_inv in H. destruct H as (J & a & p & o & r & El & Eo & Er & ->).
      apply lookup_inv in El. destruct El as (Ei & _).
      intros i0 J0 o0. simpl. eapply moved_obj_bound; eauto.
    - apply pstep_store_inv in H.
      destruct H as (J & a & p & l & k & x & o & r & x' & s' & El & Ek & Ex & Eo & Er & Eh & ->).
      apply lookup_inv in El. destruct El as (Ei & _).
      intros i0 J0 o0. simpl. eapply moved_obj_bound; eauto. apply upd_length.
    - apply pstep_rel_inv in H. destruct H as (J & a & p & o & r & q & El & Eo & Er & ->).
      apply lookup_inv in El. destruct El as (Ei & _).
      intros i0 J0 o0. simpl. eapply moved_obj_bound; eauto. apply upd_length.
    - apply pstep_adv_inv in H. destruct H as (J & a & p & El & En & [(p' & q & _ & ->)|(x & g & G & -> & Es & EG & ->)]).
      + apply lookup_inv in El. destruct El as (Ei & _).
        intros i0 J0 o0. simpl. eapply moved_obj_bound; eauto.
      + apply lookup_inv in El. destruct El as (Ei & _).
        intros i0 J0 o0 H1 H2. simpl in H1.
        pose proof (new_inst_objs_len c (i_run J) g G (Some i) (i_obj J) x) as Hl. simpl.
        rewrite nth_upd in H1. destruct (Nat.eqb_spec i i0).
        * subst. destruct (Nat.ltb _ _); inv H1. simpl in H2. pose proof (Ho _ _ _ Ei H2). lia.
        * apply new_inst_insts in H1. destruct H1 as [H1|[-> ->]].
          -- pose proof (Ho _ _ _ H1 H2). lia.
          -- simpl in H2. unfold StateLockLTS.new_inst. destruct (g_state G).
             ++ inv H2. simpl. rewrite app_length. simpl. lia.
             ++ simpl. eapply Ho; eauto.
    - apply pstep_resume_inv in H. destruct H as (r & Er & Eh & ->).
      intros i J o0 Hi Hj. unfold resumed in *; simpl in *. rewrite app_length; simpl.
      rewrite nth_error_map in Hi. destruct (nth_error (c_insts c) i) as [J1|] eqn:E1; [|discriminate].
      inv Hi. unfold remap in Hj. destruct (i_obj J1) as [o1|] eqn:E2.
      + destruct (Nat.eqb o1 o).
        * simpl in Hj. inv Hj. lia.
        * rewrite E2 in Hj. inv Hj. pose proof (Ho _ _ _ E1 E2). lia.
      + congruence.
  Qed.

  (* ---------------------------------------------------------------- the value invariant *)

  Lemma cs_of_some : forall (c : config) i J n s ph o,
    nth_error (c_insts c) i = Some J -> get_ns S X J n = Some s -> ns_cs s = Some ph -> i_obj J = Some o ->
    cs_of S X c i n = Some o.
  Proof. intros. unfold cs_of. rewrite H, H0, H1. auto. Qed.

  Definition inv_val (c : config) : Prop :=
    trace_bound c /\ obj_bound c /\ val_ok c /\ loaded_ok c.

  Lemma val_ok_step : forall c ch c',
    inv_val c -> pstep c ch = Some c' -> val_ok c'.
  Proof.
    intros c ch c' (Ht & Ho & Hv & Hl) H. destruct ch as [r|i n|i n|i n|i n|i n|o m].
    - apply pstep_start_inv in H. destruct H as (G & _ & ->). intros o r0 Hr.
      rewrite (hist_trace_eq _ c) by apply new_inst_trace.
      apply new_inst_objs in Hr. destruct Hr as [Hr|(_ & -> & ->)]; auto.
      rewrite hist_fresh by auto. reflexivity.
    - apply pstep_acq_inv in H. destruct H as (J & a & p & k & x & o & r & El & Ek & Ex & Eo & Er & Eh & ->).
      intros o0 r0 Hr. simpl in Hr. rewrite (hist_trace_eq _ c) by reflexivity.
      apply upd_cases in Hr. destruct Hr as [(-> & -> & _)|(_ & Hr)]; auto. simpl. auto.
    - apply pstep_load_inv in H. destruct H as (J & a & p & o & r & El & Eo & Er & ->). exact Hv.
    - apply pstep_store_inv in H.
      destruct H as (J & a & p & l & k & x & o & r & x' & s' & El & Ek & Ex & Eo & Er & Eh & ->).
      apply lookup_inv in El. destruct El as (Ei & Eg & _).
      intros o0 r0 Hr. simpl in Hr.
      rewrite (hist_trace_eq _ (add_trace S X c (mkT o i a k x l x'))) by reflexivity.
      rewrite hist_app. simpl.
      apply upd_cases in Hr. destruct Hr as [(-> & -> & _)|(Hne & Hr)].
      + rewrite Nat.eqb_refl. rewrite apply_all_app. simpl. rewrite <- (Hv _ _ Er).
        assert (l = o_val r) by (eapply Hl; eauto). subst l.
        unfold StateLockLTS.eff; simpl. rewrite Eh. reflexivity.
      + destruct (Nat.eqb_spec o o0); [congruence|]. rewrite app_nil_r. auto.
    - apply pstep_rel_inv in H. destruct H as (J & a & p & o & r & q & El & Eo & Er & ->).
      intros o0 r0 Hr. simpl in Hr. rewrite (hist_trace_eq _ c) by reflexivity.
      apply upd_cases in Hr. destruct Hr as [(-> & -> & _)|(_ & Hr)]; auto. simpl. auto.
    - apply pstep_adv_inv in H. destruct H as (J & a & p & El & En & [(p' & q & _ & ->)|(x & g & G & -> & Es & EG & ->)]).
      + exact Hv.
      + intros o r0 Hr. simpl in Hr.
        rewrite (hist_trace_eq _ c) by (simpl; apply new_inst_trace).
        apply new_inst_objs in Hr. destruct Hr as [Hr|(_ & -> & ->)]; auto.
        rewrite hist_fresh by auto. reflexivity.
    - apply pstep_resume_inv in H. destruct H as (r & Er & Eh & ->).
      intros o0 r0 Hr. unfold resumed in Hr; simpl in Hr.
      rewrite (hist_trace_eq _ c) by reflexivity.
      apply nth_app_cases in Hr. destruct Hr as [[Hr _]|[-> ->]]; auto.
      rewrite hist_fresh by auto. reflexivity.
  Qed.

  Lemma loaded_ok_step : forall c ch c',
    inv_lock S X c -> inv_val c -> pstep c ch = Some c' -> loaded_ok c'.
  Proof.
    intros c ch c' Hlock (Ht & Ho & Hv & Hl) H. destruct ch as [r|i n|i n|i n|i n|i n|o m].
    - apply pstep_start_inv in H. destruct H as (G & _ & ->).
      intros i J n s l o r0 Hi Hg Hc Hj Hr.
      apply new_inst_insts in Hi. destruct Hi as [Hi|[-> ->]].
      + apply new_inst_objs in Hr. destruct Hr as [Hr|(_ & -> & _)]; [eapply Hl; eauto|].
        pose proof (Ho _ _ _ Hi Hj). lia.
      + unfold get_ns in Hg; simpl in Hg. apply init_ns_cs in Hg. subst s. discriminate.
    - apply pstep_acq_inv in H. destruct H as (J & a & p & k & x & o & r & El & Ek & Ex & Eo & Er & Eh & ->).
      apply lookup_inv in El. destruct El as (Ei & Eg & _).
      intros i0 J0 n0 s0 l0 o0 r0 Hi Hg Hc Hj Hr. simpl in Hi, Hr.
      apply upd_cases in Hi. destruct Hi as [(-> & -> & _)|(Hne & Hi)].
      + rewrite get_set_ns in Hg. destruct (N.eqb_spec n0 n).
        * inv Hg. discriminate.
        * simpl in Hj. apply upd_cases in Hr. destruct Hr as [(-> & -> & _)|(_ & Hr)]; simpl; eapply Hl; eauto.
      + apply upd_cases in Hr. destruct Hr as [(-> & -> & _)|(_ & Hr)]; simpl; eapply Hl; eauto.
    - apply pstep_load_inv in H. destruct H as (J & a & p & o & r & El & Eo & Er & ->).
      apply lookup_inv in El. destruct El as (Ei & Eg & _).
      intros i0 J0 n0 s0 l0 o0 r0 Hi Hg Hc Hj Hr. simpl in Hi, Hr.
      apply upd_cases in Hi. destruct Hi as [(-> & -> & _)|(Hne & Hi)].
      + rewrite get_set_ns in Hg. simpl in Hj. destruct (N.eqb_spec n0 n).
        * inv Hg. simpl in Hc. inv Hc. congruence.
        * eapply Hl; eauto.
      + eapply Hl; eauto.
    - apply pstep_store_inv in H.
      destruct H as (J & a & p & l & k & x & o & r & x' & s' & El & Ek & Ex & Eo & Er & Eh & ->).
      apply lookup_inv in El. destruct El as (Ei & Eg & _).
      assert (Hme : holder S X c o = Some (i, n)).
      { apply Hlock. eapply cs_of_some; eauto. reflexivity. }
      intros i0 J0 n0 s0 l0 o0 r0 Hi Hg Hc Hj Hr. simpl in Hi, Hr.
      assert (Hother : forall J1 , nth_error (c_insts c) i0 = Some J1 -> get_ns S X J1 n0 = Some s0 ->
                         i_obj J1 = Some o0 -> (i0, n0) <> (i, n) -> l0 = o_val r0).
      { intros J1 H1 H2 H3 Hne.
        apply upd_cases in Hr. destruct Hr as [(-> & -> & _)|(_ & Hr)]; [|eapply Hl; eauto].
        exfalso. apply Hne.
        assert (holder S X c o = Some (i0, n0)) by (apply Hlock; eapply cs_of_some; eauto).
        congruence. }
      apply upd_cases in Hi. destruct Hi as [(-> & -> & _)|(Hne & Hi)].
      + rewrite get_set_ns in Hg. simpl in Hj. destruct (N.eqb_spec n0 n).
        * inv Hg. discriminate.
        * eapply Hother; eauto. congruence.
      + eapply Hother; eauto. congruence.
    - apply pstep_rel_inv in H. destruct H as (J & a & p & o & r & q & El & Eo & Er & ->).
      apply lookup_inv in El. destruct El as (Ei & Eg & _).
      intros i0 J0 n0 s0 l0 o0 r0 Hi Hg Hc Hj Hr. simpl in Hi, Hr.
      apply upd_cases in Hi. destruct Hi as [(-> & -> & _)|(Hne & Hi)].
      + change (get_ns S X (set_ns S X J n (mkNs (after_cs X p) None)) n0 = Some s0) in Hg.
        rewrite get_set_ns in Hg. simpl in Hj. destruct (N.eqb_spec n0 n).
        * inv Hg. discriminate.
        * apply upd_cases in Hr. destruct Hr as [(-> & -> & _)|(_ & Hr)]; simpl; eapply Hl; eauto.
      + apply upd_cases in Hr. destruct Hr as [(-> & -> & _)|(_ & Hr)]; simpl; eapply Hl; eauto.
    - apply pstep_adv_inv in H. destruct H as (J & a & p & El & En & [(p' & q & _ & ->)|(x & g & G & -> & Es & EG & ->)]).
      + apply lookup_inv in El. destruct El as (Ei & Eg & _).
        intros i0 J0 n0 s0 l0 o0 r0 Hi Hg Hc Hj Hr. simpl in Hi, Hr.
        apply upd_cases in Hi. destruct Hi as [(-> & -> & _)|(Hne & Hi)].
        * change (get_ns S X (set_ns S X J n (mkNs p' None)) n0 = Some s0) in Hg.
          rewrite get_set_ns in Hg. simpl in Hj. destruct (N.eqb_spec n0 n).
          -- inv Hg. discriminate.
          -- eapply Hl; eauto.
        * eapply Hl; eauto.
      + apply lookup_inv in El. destruct El as (Ei & Eg & _).
        intros i0 J0 n0 s0 l0 o0 r0 Hi Hg Hc Hj Hr. simpl in Hi, Hr.
        assert (Hold : forall J1, nth_error (c_insts c) i0 = Some J1 -> get_ns S X J1 n0 = Some s0 ->
                         i_obj J1 = Some o0 -> l0 = o_val r0).
        { intros J1 H1 H2 H3. apply new_inst_objs in Hr. destruct Hr as [Hr|(_ & -> & _)]; [eapply Hl; eauto|].
          pose proof (Ho _ _ _ H1 H3). lia. }
        apply upd_cases in Hi. destruct Hi as [(-> & -> & _)|(Hne & Hi)].
        * rewrite get_set_ns in Hg. simpl in Hj. destruct (N.eqb_spec n0 n).
          -- inv Hg. discriminate.
          -- eapply Hold; eauto.
        * apply new_inst_insts in Hi. destruct Hi as [Hi|[-> ->]]; [eapply Hold; eauto|].
          unfold get_ns in Hg; simpl in Hg. apply init_ns_cs in Hg. subst s0. discriminate.
    - apply pstep_resume_inv in H. destruct H as (r & Er & Eh & ->).
      intros i0 J0 n0 s0 l0 o0 r0 Hi Hg Hc Hj Hr. unfold resumed in Hi, Hr; simpl in Hi, Hr.
      rewrite nth_error_map in Hi. destruct (nth_error (c_insts c) i0) as [J1|] eqn:E1; [|discriminate].
      inv Hi. unfold remap in Hg, Hj. destruct (i_obj J1) as [o1|] eqn:E2.
      + destruct (Nat.eqb_spec o1 o).
        * subst o1. exfalso.
          assert (holder S X c o = Some (i0, n0)) by (apply Hlock; eapply cs_of_some; eauto).
          unfold holder in H. rewrite Er in H. congruence.
        * rewrite E2 in Hj. inv Hj. pose proof (Ho _ _ _ E1 E2).
          rewrite nth_error_app1 in Hr by auto. eapply Hl; eauto.
      + congruence.
  Qed.

  Lemma inv_val_init : inv_val (init_cfg S X).
  Proof.
    repeat split.
    - intros e [].
    - intros i J o H. destruct i; discriminate.
    - intros o r H. destruct o; discriminate.
    - intros i J n s l o r H. destruct i; discriminate.
  Qed.

  Lemma inv_val_step : forall c ch c',
    inv_lock S X c -> inv_val c -> pstep c ch = Some c' -> inv_val c'.
  Proof.
    intros c ch c' Hlock Hv H. split; [|split; [|split]].
    - destruct Hv as (Ht & Ho & _). eapply trace_bound_step; eauto.
    - destruct Hv as (Ht & Ho & _). eapply obj_bound_step; eauto.
    - eapply val_ok_step; eauto.
    - eapply loaded_ok_step; eauto.
  Qed.

  Lemma inv_val_reach : forall c, preach c -> inv_val c.
  Proof.
    induction 1; [apply inv_val_init|].
    eapply inv_val_step; eauto. eapply inv_lock_reach; eauto.
  Qed.

  (* no lost update: at every moment, whoever holds the lock or not, the value of a state
     object is the fold of the effects of all critical sections completed on it, in the
     order in which they were completed, from the value the object was created with *)
  Theorem no_lost_update_preach : forall c, preach c ->
    forall o r, nth_error (c_objs c) o = Some r -> o_val r = apply_all (hist c o) (o_init r).
  Proof. intros c Hr. apply (inv_val_reach c Hr). Qed.

  (* for effects that commute the order does not matter *)
  Lemma apply_all_perm : forall l l', Permutation l l' ->
    (forall e1 e2 s, In e1 l -> In e2 l -> eff e1 (eff e2 s) = eff e2 (eff e1 s)) ->
    forall s, apply_all l s = apply_all l' s.
  Proof.
    unfold StateLockLTS.apply_all. induction 1; intros Hc s; simpl; auto.
    - apply IHPermutation. intros; apply Hc; right; auto.
    - rewrite (Hc y x s); [reflexivity|left; auto|right; left; auto].
    - rewrite IHPermutation1 by auto. apply IHPermutation2.
      intros e1 e2 s0 H1 H2. apply Hc; eapply Permutation_in; try apply Permutation_sym; eauto.
  Qed.

  Theorem no_lost_update_commutative : forall c, preach c ->
    forall o r l', nth_error (c_objs c) o = Some r -> Permutation (hist c o) l' ->
    (forall e1 e2 s, In e1 (hist c o) -> In e2 (hist c o) -> eff e1 (eff e2 s) = eff e2 (eff e1 s)) ->
    o_val r = apply_all l' (o_init r).
  Proof.
    intros c Hr o r l' Ho Hp Hc. rewrite (no_lost_update_preach c Hr o r Ho). apply apply_all_perm; auto.
  Qed.
End Val.
