(* Proofs/ConcatSuffixMap.v — the suffix law for the generic key-wise pass [kstep] and for
   map chunks holding message values (Model/ConcatMsgMap.v). *)
From Eino Require Import Base.Util Model.Concat Model.ConcatMsg Model.ConcatMsgMap.
From Eino Require Import Proofs.Concat Proofs.ConcatRechunk Proofs.ConcatMsg Proofs.ConcatKeyed Proofs.ConcatMsgMap.
From Eino Require Import Proofs.ConcatSuffix Proofs.ConcatSuffixMsg.

Section KeyedS.
Context {A : Type}.

Lemma gadd_keys_addl (m : list (string * A)) K : gadd_keys m K = addl (map fst m) K.
Proof.
  unfold gadd_keys, addl. revert K. induction m as [|kv m IH]; cbn; intros K; [reflexivity|]. apply IH.
Qed.

Lemma gkeys_from_addl (ys : list (list (string * A))) : forall K,
  fold_left (fun ks m => gadd_keys m ks) ys K = addl (flat_map (map fst (B:=string)) ys) K.
Proof.
  induction ys as [|m ys IH]; intros K; cbn [fold_left flat_map]; [reflexivity|].
  rewrite IH, gadd_keys_addl. unfold addl. rewrite fold_left_app. reflexivity.
Qed.

Lemma gkeys_suffix (c : list (string * A)) xs ys :
  map fst c = gkeys_of ys -> gkeys_of (xs ++ [c]) = gkeys_of (xs ++ ys).
Proof.
  intros H. rewrite !gkeys_of_fold, !fold_left_app. cbn [fold_left].
  rewrite gadd_keys_addl, H, gkeys_of_fold, !gkeys_from_addl. apply addl_dedup.
Qed.

Variable kc : list A -> res A.
Hypothesis kc_suffix : forall vs rest,
  match kc rest with
  | Ok v => req (kc (vs ++ [v])) (kc (vs ++ rest))
  | _ => fails (kc (vs ++ rest))
  end.

Theorem kstep_suffix xs ys : suffix_ok (kstep kc) xs ys.
Proof.
  unfold suffix_ok.
  assert (Hfail : forall k, In k (gkeys_of ys) -> fails (kc (gvals_at k ys)) -> fails (kstep kc (xs ++ ys))).
  { intros k Hin Fk. unfold kstep. apply (res_mapM_fails _ _ k).
    - apply gkeys_of_In in Hin. destruct Hin as [m [H1 H2]]. apply gkeys_of_In. exists m.
      split; [apply in_or_app; now right|exact H2].
    - pose proof (kc_suffix (gvals_at k xs) (gvals_at k ys)) as H.
      rewrite gvals_at_app. apply fails_res_map.
      unfold fails in *. destruct (kc (gvals_at k ys)); cbn in *; [discriminate|exact H|exact H]. }
  destruct (kstep kc ys) as [c|e|] eqn:E.
  - unfold kstep in E. apply gmapM_pairs_inv in E. destruct E as [Hfst Hget].
    unfold kstep. rewrite (gkeys_suffix c xs ys Hfst).
    apply res_mapM_req. intros k _. apply req_res_map.
    rewrite !gvals_at_app. unfold gvals_at at 2. cbn [flat_map]. rewrite app_nil_r.
    destruct (in_dec string_dec k (gkeys_of ys)) as [Hin|Hnin].
    + destruct (Hget k Hin) as [v [Hv Hc]]. rewrite Hc.
      pose proof (kc_suffix (gvals_at k xs) (gvals_at k ys)) as H. rewrite Hv in H. exact H.
    + rewrite alist_get_None by (rewrite Hfst; exact Hnin).
      rewrite (gvals_at_nil k ys Hnin). apply req_refl.
  - assert (F : fails (kstep kc ys)) by (rewrite E; reflexivity).
    apply res_mapM_fails_inv in F. destruct F as [k [Hin Hk']].
    apply (Hfail k Hin). unfold fails in *. destruct (kc (gvals_at k ys)); cbn in *; auto.
  - assert (F : fails (kstep kc ys)) by (rewrite E; reflexivity).
    apply res_mapM_fails_inv in F. destruct F as [k [Hin Hk']].
    apply (Hfail k Hin). unfold fails in *. destruct (kc (gvals_at k ys)); cbn in *; auto.
Qed.

End KeyedS.

Section User.
Context {U : UserFn} {L : UserLaw} {LS : UserLawS}.

Lemma forallb_single {B} (p : B -> bool) c : forallb p [c] = p c.
Proof. cbn. apply andb_true_r. Qed.

Lemma nnm_app a b : nnm (a ++ b) = nnm a ++ nnm b.
Proof. apply filter_app. Qed.

(* concat_mkey as a function of the non-nil values *)
Definition mk (nn : list mval) : res mval :=
  match nn with
  | [] => Ok (MVVal CNil)
  | v0 :: _ =>
      if is_msgkind v0 then
        if forallb is_msgkind nn then
          match nn with
          | [v] => Ok v
          | _ => res_map MVMsg (concat_msgs (map to_omsg nn))
          end
        else Err E_TYPE
      else
        if forallb (fun v => negb (is_msgkind v)) nn
        then res_map MVVal (concat_key concat_maps_top (map to_cval nn))
        else Err E_TYPE
  end.

Lemma concat_mkey_mk vs : concat_mkey vs = mk (nnm vs).
Proof. reflexivity. Qed.

Lemma mk_result_nonnil nn v : (forall x, In x nn -> is_mnil x = false) -> nn <> [] -> mk nn = Ok v -> is_mnil v = false.
Proof.
  intros Hnn Hne E. destruct nn as [|v0 r]; [congruence|]. cbn [mk] in E.
  destruct (is_msgkind v0) eqn:K0.
  - destruct (forallb is_msgkind (v0 :: r)); [|discriminate].
    destruct r as [|m2 r'].
    + inversion E; subst. apply Hnn. now left.
    + destruct (concat_msgs _); cbn in E; try discriminate. inversion E. reflexivity.
  - destruct (forallb _ (v0 :: r)) eqn:Hall; [|discriminate].
    destruct (concat_key concat_maps_top (map to_cval (v0 :: r))) as [c| |] eqn:Ec; cbn in E; try discriminate.
    inversion E; subst v.
    assert (Nc : is_nil c = false).
    { apply (concat_key_top_nonnil (map to_cval (v0 :: r)) c); [|exact Ec|discriminate].
      intros x Hx. apply in_map_iff in Hx. destruct Hx as [y [<- Hy]].
      apply to_cval_nonnil; [apply Hnn, Hy|].
      rewrite forallb_forall in Hall. specialize (Hall y Hy). destruct (is_msgkind y); [discriminate|reflexivity]. }
    destruct c; cbn in *; congruence.
Qed.

Lemma mk_kind nn v : nn <> [] -> mk nn = Ok v -> forallb is_msgkind nn = is_msgkind v /\
                                              forallb (fun x => negb (is_msgkind x)) nn = negb (is_msgkind v).
Proof.
  intros Hne E. destruct nn as [|v0 r]; [congruence|]. cbn [mk] in E.
  destruct (is_msgkind v0) eqn:K0.
  - destruct (forallb is_msgkind (v0 :: r)) eqn:Hall; [|discriminate].
    assert (Hv : is_msgkind v = true).
    { destruct r as [|m2 r']; [inversion E; subst; exact K0|].
      destruct (concat_msgs _); cbn in E; try discriminate. inversion E. reflexivity. }
    rewrite Hv. split; [reflexivity|]. cbn [forallb]. rewrite K0. reflexivity.
  - destruct (forallb (fun x => negb (is_msgkind x)) (v0 :: r)) eqn:Hall; [|discriminate].
    assert (Hv : is_msgkind v = false).
    { destruct (concat_key _ _); cbn in E; try discriminate. inversion E. reflexivity. }
    rewrite Hv. split; [|reflexivity]. cbn [forallb]. rewrite K0. reflexivity.
Qed.

Lemma mkey_suffix vs rest :
  match concat_mkey rest with
  | Ok v => req (concat_mkey (vs ++ [v])) (concat_mkey (vs ++ rest))
  | _ => fails (concat_mkey (vs ++ rest))
  end.
Proof.
  rewrite !concat_mkey_mk, (nnm_app vs rest).
  assert (Nr : forall x, In x (nnm rest) -> is_mnil x = false) by (intros x; apply nnm_all).
  assert (Nv : forall x, In x (nnm vs) -> is_mnil x = false) by (intros x; apply nnm_all).
  destruct (nnm rest) as [|r0 r] eqn:Er.
  - cbn [mk]. rewrite concat_mkey_mk, nnm_app. cbn [nnm filter is_mnil negb]. apply req_refl.
  - destruct (nnm vs) as [|v0 vr] eqn:Ev.
    + (* the key does not occur before the suffix: idempotence, from the prefix law *)
      cbn [app].
      pose proof (mkey_law (r0 :: r) []) as P. rewrite app_nil_r in P.
      assert (Eid : concat_mkey (r0 :: r) = mk (r0 :: r)).
      { rewrite concat_mkey_mk. f_equal. unfold nnm. apply filter_id.
        intros x Hx. rewrite (Nr x Hx). reflexivity. }
      rewrite Eid in P.
      destruct (mk (r0 :: r)) as [c| |] eqn:Ec; [|reflexivity|reflexivity].
      rewrite concat_mkey_mk, nnm_app, Ev. cbn [app]. rewrite <- concat_mkey_mk. exact P.
    + cbn [app].
      destruct (mk (r0 :: r)) as [c| |] eqn:Ec.
      * pose proof (mk_result_nonnil (r0 :: r) c Nr ltac:(discriminate) Ec) as Nc.
        destruct (mk_kind (r0 :: r) c ltac:(discriminate) Ec) as [K1 K2].
        rewrite concat_mkey_mk, nnm_app, Ev, (nnm_cons_keep c [] Nc). cbn [nnm filter app].
        change (v0 :: vr ++ [c]) with ((v0 :: vr) ++ [c]).
        change (v0 :: vr ++ r0 :: r) with ((v0 :: vr) ++ r0 :: r).
        cbn [mk app]. 
        change (v0 :: vr ++ [c]) with ((v0 :: vr) ++ [c]).
        change (v0 :: vr ++ r0 :: r) with ((v0 :: vr) ++ r0 :: r).
        rewrite !forallb_app, K1, K2, !forallb_single.
        destruct (is_msgkind v0) eqn:K0.
        -- destruct (forallb is_msgkind (v0 :: vr)) eqn:Hall; cbn [andb]; [|apply req_refl].
           destruct (is_msgkind c) eqn:Kc; [|apply req_refl].
           (* messages before, messages in the suffix *)
           cbn [mk] in Ec. assert (Kr0 : is_msgkind r0 = true).
           { pose proof K1 as K1'. cbn [forallb] in K1'. apply andb_prop in K1'. apply K1'. }
           rewrite Kr0, K1 in Ec.
           assert (W : forall zs, zs <> [] ->
                       match vr ++ zs with [] => Ok v0 | _ :: _ => res_map MVMsg (concat_msgs (map to_omsg ((v0 :: vr) ++ zs))) end
                       = res_map MVMsg (concat_msgs (map to_omsg ((v0 :: vr) ++ zs)))).
           { intros zs Hz. destruct vr as [|v2 vr]; cbn [app]; [destruct zs; [congruence|reflexivity]|reflexivity]. }
           rewrite (W [c]), (W (r0 :: r)) by discriminate. rewrite !map_app.
           pose proof (msgs_suffix (map to_omsg (v0 :: vr)) (map to_omsg (r0 :: r))) as R.
           unfold msgs_suffix_stmt in R.
           destruct r as [|r1 r'].
           ++ inversion Ec; subst c. cbn [map]. apply req_refl.
           ++ destruct (concat_msgs (map to_omsg (r0 :: r1 :: r'))) as [cm| |]; cbn [res_map] in Ec; try discriminate.
              inversion Ec; subst c. cbn [map to_omsg] in R |- *. apply req_res_map. exact R.
        -- destruct (forallb (fun x => negb (is_msgkind x)) (v0 :: vr)) eqn:Hall; cbn [andb]; [|apply req_refl].
           destruct (is_msgkind c) eqn:Kc; cbn [negb]; [apply req_refl|].
           cbn [mk] in Ec. assert (Kr0 : is_msgkind r0 = false).
           { pose proof K2 as K2'. cbn [forallb negb] in K2'. apply andb_prop in K2'. destruct K2' as [H _].
             destruct (is_msgkind r0); [discriminate|reflexivity]. }
           rewrite Kr0, K2 in Ec. cbn [negb] in Ec.
           pose proof (concat_key_top_suffix (map to_cval (v0 :: vr)) (map to_cval (r0 :: r))) as R.
           destruct (concat_key concat_maps_top (map to_cval (r0 :: r))) as [cc| |]; cbn [res_map] in Ec; try discriminate.
           inversion Ec; subst c. rewrite !map_app. cbn [map to_cval] in R |- *. apply req_res_map. exact R.
      * (* the suffix fails alone *)
        change (v0 :: vr ++ r0 :: r) with ((v0 :: vr) ++ r0 :: r). cbn [mk app].
        change (v0 :: vr ++ r0 :: r) with ((v0 :: vr) ++ r0 :: r).
        rewrite !forallb_app.
        cbn [mk] in Ec.
        destruct (is_msgkind v0) eqn:K0.
        -- destruct (forallb is_msgkind (v0 :: vr)); cbn [andb]; [|reflexivity].
           destruct (forallb is_msgkind (r0 :: r)) eqn:Hr; [|reflexivity].
           assert (Kr0 : is_msgkind r0 = true) by (cbn [forallb] in Hr; apply andb_prop in Hr; apply Hr).
           rewrite Kr0 in Ec.
           destruct r as [|r1 r']; [discriminate|].
           assert (W : match vr ++ r0 :: r1 :: r' with [] => Ok v0 | _ :: _ => res_map MVMsg (concat_msgs (map to_omsg ((v0 :: vr) ++ r0 :: r1 :: r'))) end
                       = res_map MVMsg (concat_msgs (map to_omsg ((v0 :: vr) ++ r0 :: r1 :: r')))).
           { destruct vr; reflexivity. }
           rewrite W, map_app.
           pose proof (msgs_suffix (map to_omsg (v0 :: vr)) (map to_omsg (r0 :: r1 :: r'))) as R.
           unfold msgs_suffix_stmt in R.
           destruct (concat_msgs (map to_omsg (r0 :: r1 :: r'))); cbn [res_map] in Ec; try discriminate;
             apply fails_res_map; exact R.
        -- destruct (forallb (fun x => negb (is_msgkind x)) (v0 :: vr)); cbn [andb]; [|reflexivity].
           destruct (forallb (fun x => negb (is_msgkind x)) (r0 :: r)) eqn:Hr; [|reflexivity].
           assert (Kr0 : is_msgkind r0 = false).
           { cbn [forallb] in Hr. apply andb_prop in Hr. destruct Hr as [H _]. destruct (is_msgkind r0); [discriminate|reflexivity]. }
           rewrite Kr0 in Ec. rewrite map_app.
           pose proof (concat_key_top_suffix (map to_cval (v0 :: vr)) (map to_cval (r0 :: r))) as R.
           destruct (concat_key concat_maps_top (map to_cval (r0 :: r))); cbn [res_map] in Ec; try discriminate;
             apply fails_res_map; exact R.
      * change (v0 :: vr ++ r0 :: r) with ((v0 :: vr) ++ r0 :: r). cbn [mk app].
        change (v0 :: vr ++ r0 :: r) with ((v0 :: vr) ++ r0 :: r).
        rewrite !forallb_app.
        cbn [mk] in Ec.
        destruct (is_msgkind v0) eqn:K0.
        -- destruct (forallb is_msgkind (v0 :: vr)); cbn [andb]; [|reflexivity].
           destruct (forallb is_msgkind (r0 :: r)) eqn:Hr; [|reflexivity].
           assert (Kr0 : is_msgkind r0 = true) by (cbn [forallb] in Hr; apply andb_prop in Hr; apply Hr).
           rewrite Kr0 in Ec.
           destruct r as [|r1 r']; [discriminate|].
           assert (W : match vr ++ r0 :: r1 :: r' with [] => Ok v0 | _ :: _ => res_map MVMsg (concat_msgs (map to_omsg ((v0 :: vr) ++ r0 :: r1 :: r'))) end
                       = res_map MVMsg (concat_msgs (map to_omsg ((v0 :: vr) ++ r0 :: r1 :: r')))).
           { destruct vr; reflexivity. }
           rewrite W, map_app.
           pose proof (msgs_suffix (map to_omsg (v0 :: vr)) (map to_omsg (r0 :: r1 :: r'))) as R.
           unfold msgs_suffix_stmt in R.
           destruct (concat_msgs (map to_omsg (r0 :: r1 :: r'))); cbn [res_map] in Ec; try discriminate;
             apply fails_res_map; exact R.
        -- destruct (forallb (fun x => negb (is_msgkind x)) (v0 :: vr)); cbn [andb]; [|reflexivity].
           destruct (forallb (fun x => negb (is_msgkind x)) (r0 :: r)) eqn:Hr; [|reflexivity].
           assert (Kr0 : is_msgkind r0 = false).
           { cbn [forallb] in Hr. apply andb_prop in Hr. destruct Hr as [H _]. destruct (is_msgkind r0); [discriminate|reflexivity]. }
           rewrite Kr0 in Ec. rewrite map_app.
           pose proof (concat_key_top_suffix (map to_cval (v0 :: vr)) (map to_cval (r0 :: r))) as R.
           destruct (concat_key concat_maps_top (map to_cval (r0 :: r))); cbn [res_map] in Ec; try discriminate;
             apply fails_res_map; exact R.
Qed.

Theorem mmaps_suffix xs ys : suffix_ok concat_mmaps xs ys.
Proof. unfold concat_mmaps. apply kstep_suffix. exact mkey_suffix. Qed.

Theorem mmap_stream_suffix xs ys : ys <> [] -> suffix_ok mmap_stream xs ys.
Proof.
  intros Hne. unfold suffix_ok.
  destruct ys as [|y1 [|y2 l]]; [congruence| |].
  - cbn [mmap_stream]. apply req_refl.
  - change (mmap_stream (y1 :: y2 :: l)) with (concat_mmaps (y1 :: y2 :: l)).
    pose proof (mmaps_suffix xs (y1 :: y2 :: l)) as H. unfold suffix_ok in H.
    destruct xs as [|x xs].
    + cbn [app] in *. change (mmap_stream (y1 :: y2 :: l)) with (concat_mmaps (y1 :: y2 :: l)).
      destruct (concat_mmaps (y1 :: y2 :: l)); cbn [mmap_stream]; reflexivity.
    + assert (W : forall zs, zs <> [] -> mmap_stream ((x :: xs) ++ zs) = concat_mmaps ((x :: xs) ++ zs)).
      { intros zs Hz. destruct xs as [|x2 xs]; cbn [app]; [destruct zs; [congruence|reflexivity]|reflexivity]. }
      rewrite (W (y1 :: y2 :: l)) by discriminate.
      destruct (concat_mmaps (y1 :: y2 :: l)) as [c| |]; [|exact H|exact H].
      rewrite (W [c]) by discriminate. exact H.
Qed.

End User.
