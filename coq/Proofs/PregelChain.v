(* Proofs/PregelChain.v — chain_lowering_correct (C01): running the graph a chain is lowered to
   ([chain_lower], any-predecessor mode) equals the sequential meaning of the chain ([eval_chain],
   Model/ChainSpec.v): node, parallel and branch stages, every failure mode, the step limit, the log. *)
From Eino Require Import Base.Util Model.Graph Model.Chain Model.ChainSpec
  Proofs.PregelBase Proofs.Pregel Proofs.PregelRun Proofs.PregelChainLower.
From Coq Require Import Lia Permutation Sorting.Sorted.
Open Scope N_scope.

(* ================= sorting by key ================= *)
Lemma insert_by_perm : forall {A} (lt : A -> A -> bool) a l, Permutation (insert_by lt a l) (a :: l).
Proof.
  intros A lt a l. induction l as [|b l IH]; simpl; [apply Permutation_refl|].
  destruct (lt a b); [apply Permutation_refl|].
  eapply Permutation_trans; [apply perm_skip; exact IH|apply perm_swap].
Qed.

Lemma sort_by_perm : forall {A} (lt : A -> A -> bool) l, Permutation (sort_by lt l) l.
Proof.
  intros A lt l. unfold sort_by. induction l as [|a l IH]; simpl; [constructor|].
  eapply Permutation_trans; [apply insert_by_perm|apply perm_skip; exact IH].
Qed.

Lemma insert_snode_sorted : forall a l,
  StronglySorted N.lt (map sn_key l) -> ~ In (sn_key a) (map sn_key l) ->
  StronglySorted N.lt (map sn_key (insert_by snode_ltb a l)).
Proof.
  intros a l. induction l as [|b l IH]; intros Hs Hn; simpl.
  - constructor; constructor.
  - inversion Hs as [|x y Hs' Hall]; subst. unfold snode_ltb at 1.
    destruct (N.ltb (sn_key a) (sn_key b)) eqn:E; simpl.
    + apply N.ltb_lt in E. constructor; [exact Hs|]. constructor; [exact E|].
      eapply Forall_impl; [|exact Hall]. intros; simpl in *; lia.
    + apply N.ltb_ge in E.
      assert (Hab : sn_key b < sn_key a).
      { destruct (N.eq_dec (sn_key a) (sn_key b)) as [He|He]; [exfalso; apply Hn; left; symmetry; exact He|lia]. }
      constructor.
      * apply IH; [exact Hs'|intros H; apply Hn; right; exact H].
      * apply Forall_forall. intros x Hx.
        assert (Hp : Permutation (map sn_key (insert_by snode_ltb a l)) (map sn_key (a :: l)))
          by (apply Permutation_map; apply insert_by_perm).
        apply (Permutation_in _ Hp) in Hx. simpl in Hx. destruct Hx as [<-|Hx]; [exact Hab|].
        rewrite Forall_forall in Hall. apply Hall. exact Hx.
Qed.

Lemma sort_snodes_sorted : forall l, NoDup (map sn_key l) -> StronglySorted N.lt (map sn_key (sort_by snode_ltb l)).
Proof.
  induction l as [|a l IH]; intros Hnd; simpl; [constructor|].
  inversion Hnd as [|x y Hnot Hnd']; subst. apply insert_snode_sorted; [apply IH; exact Hnd'|].
  intros H. apply Hnot.
  apply (Permutation_in _ (Permutation_map sn_key (sort_by_perm snode_ltb l))). exact H.
Qed.

Lemma sorted_unique : forall (l1 l2 : list N),
  StronglySorted N.lt l1 -> StronglySorted N.lt l2 -> (forall x, In x l1 <-> In x l2) -> l1 = l2.
Proof.
  induction l1 as [|a l1 IH]; intros l2 H1 H2 Heq.
  - destruct l2 as [|b l2]; [reflexivity|]. exfalso. apply (Heq b). left; reflexivity.
  - destruct l2 as [|b l2]; [exfalso; apply (Heq a); left; reflexivity|].
    inversion H1 as [|x y H1' A1]; subst. inversion H2 as [|x y H2' A2]; subst.
    rewrite Forall_forall in A1, A2.
    assert (Hab : a = b).
    { destruct (N.lt_trichotomy a b) as [Hlt|[He|Hgt]]; [|exact He|].
      - exfalso. assert (Hin : In a (b :: l2)) by (apply Heq; left; reflexivity).
        destruct Hin as [->|Hin]; [lia|]. apply A2 in Hin. lia.
      - exfalso. assert (Hin : In b (a :: l1)) by (apply Heq; left; reflexivity).
        destruct Hin as [->|Hin]; [lia|]. apply A1 in Hin. lia. }
    subst b. f_equal. apply IH; [exact H1'|exact H2'|].
    intros x. split; intros Hx.
    + assert (Hin : In x (a :: l2)) by (apply Heq; right; exact Hx).
      destruct Hin as [->|Hin]; [apply A1 in Hx; lia|exact Hin].
    + assert (Hin : In x (a :: l1)) by (apply Heq; right; exact Hx).
      destruct Hin as [->|Hin]; [apply A2 in Hx; lia|exact Hin].
Qed.

Lemma filter_sorted : forall (f : N -> bool) l, StronglySorted N.lt l -> StronglySorted N.lt (filter f l).
Proof.
  intros f l H. induction H as [|a l Hs IH Hall]; simpl; [constructor|].
  destruct (f a); [|exact IH]. constructor; [exact IH|].
  rewrite Forall_forall in *. intros x Hx. apply filter_In in Hx. apply Hall. apply Hx.
Qed.

Lemma filter_all : forall {A} (f : A -> bool) l, (forall x, In x l -> f x = true) -> filter f l = l.
Proof.
  intros A f l. induction l as [|a l IH]; intros H; simpl; [reflexivity|].
  rewrite (H a) by (left; reflexivity). f_equal. apply IH. intros x Hx. apply H. right. exact Hx.
Qed.

(* ================= facts about chain_graph ================= *)
Section ChainGraph.
  Variable sts : list stage.
  Variable max : nat.
  Hypothesis Hwf : chain_wf sts.
  Let g := chain_graph sts max.

  Lemma cg_keys : map n_key (g_nodes g) = kSTART :: chain_keys sts.
  Proof. simpl. rewrite chain_nodes_keys. reflexivity. Qed.

  Lemma cg_unique : unique_keys g.
  Proof.
    unfold unique_keys. rewrite cg_keys. destruct Hwf as [_ [Hnd _]].
    inversion Hnd as [|x y Hnot Hnd']; subst. inversion Hnd' as [|x y Hnot' Hnd'']; subst.
    constructor; [intros H; apply Hnot; right; exact H|exact Hnd''].
  Qed.

  Lemma cg_end_notin : ~ In kEND (chain_keys sts).
  Proof. destruct Hwf as [_ [Hnd _]]. inversion Hnd as [|x y _ Hnd']; subst. inversion Hnd'; subst. assumption. Qed.

  Lemma cg_start_notin : ~ In kSTART (chain_keys sts).
  Proof. destruct Hwf as [_ [Hnd _]]. inversion Hnd as [|x y Hnot _]; subst. intros H. apply Hnot. right. exact H. Qed.

  Lemma cg_find_start : find_node g kSTART = Some (chain_start sts).
  Proof. reflexivity. Qed.

  Lemma chain_nodes_in : forall tail pre st rest s,
    In s (stage_snodes st) -> In (mk tail rest s) (chain_nodes tail (pre ++ st :: rest)).
  Proof.
    intros tail pre st rest s Hs. induction pre as [|st0 pre IH]; simpl.
    - apply in_app_iff. left. apply in_map. exact Hs.
    - apply in_app_iff. right. exact IH.
  Qed.

  Lemma cg_find_stage : forall pre st rest s,
    sts = pre ++ st :: rest -> In s (stage_snodes st) ->
    find_node g (sn_key s) = Some (mk [kEND] rest s).
  Proof.
    intros pre st rest s Hsts Hs.
    change (sn_key s) with (n_key (mk [kEND] rest s)). apply find_node_unique; [apply cg_unique|].
    simpl. right. rewrite Hsts. apply chain_nodes_in. exact Hs.
  Qed.

  Lemma cg_mode : g_mode g = Pregel. Proof. reflexivity. Qed.
  Lemma cg_pregel : pregel_graph g. Proof. split; reflexivity. Qed.

  Lemma chain_nodes_dmap : forall tail l n, In n (chain_nodes tail l) -> n_dmap n = [].
  Proof.
    intros tail l. induction l as [|st rest IH]; intros n Hn; simpl in Hn; [contradiction|].
    apply in_app_iff in Hn. destruct Hn as [Hn|Hn]; [|apply IH; exact Hn].
    apply in_map_iff in Hn. destruct Hn as [s [<- _]]. reflexivity.
  Qed.

  Lemma cg_no_mapping : forall t, has_mapping g t = false.
  Proof.
    intros t. unfold has_mapping. destruct (existsb _ (g_nodes g)) eqn:E; [|reflexivity].
    apply existsb_exists in E. destruct E as [n [Hn Hx]]. simpl in Hn.
    assert (Hd : n_dmap n = []).
    { destruct Hn as [<-|Hn]; [reflexivity|eapply chain_nodes_dmap; exact Hn]. }
    rewrite Hd in Hx. simpl in Hx. discriminate.
  Qed.

  (* channel keys: all chain nodes and END, ascending *)
  Lemma fold_ainsert_keys : forall {A} (f : key -> A) l t,
    In t (akeys (fold_right (fun k m => ainsert k (f k) m) [] l)) <-> In t l.
  Proof.
    intros A f l t. induction l as [|k l IH]; simpl; [tauto|].
    rewrite akeys_ainsert_in, IH. split; intros [H|H]; auto.
  Qed.

  Lemma fold_ainsert_sorted : forall {A} (f : key -> A) l, ksorted (fold_right (fun k m => ainsert k (f k) m) [] l).
  Proof. intros A f l. induction l as [|k l IH]; simpl; [constructor|apply ainsert_ksorted; exact IH]. Qed.

  Lemma real_nodes_cg : map n_key (real_nodes g) = chain_keys sts.
  Proof.
    unfold real_nodes. simpl. rewrite <- (chain_nodes_keys [kEND] sts).
    f_equal. apply filter_all. intros n Hn.
    apply negb_true_iff. apply N.eqb_neq. intros Hk. apply cg_start_notin.
    rewrite <- (chain_nodes_keys [kEND] sts), <- Hk. apply in_map. exact Hn.
  Qed.

  Section Chans.
    Variable V : Type.
    Lemma cg_chan_keys : forall t, In t (akeys (init_chans_v0 V g)) <-> In t (chain_keys sts) \/ t = kEND.
    Proof.
      intros t. unfold init_chans_v0. rewrite fold_ainsert_keys. unfold chan_keys. rewrite real_nodes_cg, in_app_iff.
      simpl. split; intros [H|H]; auto. destruct H as [H|[]]; auto.
    Qed.
    Lemma cg_chan_sorted : StronglySorted N.lt (akeys (init_chans_v0 V g)).
    Proof. apply fold_ainsert_sorted. Qed.
  End Chans.
End ChainGraph.

(* ================= the simulation ================= *)
Section ChainSim.
  Variable V : Type.
  Variable St : Type.
  Variable ops : vops V.
  Variable exec : St -> path -> V -> res V * St.
  Variable sub : nat -> path -> V -> St -> outcome V * St.
  Variable sched : nat -> list key -> nat.
  Hypothesis Hsub : sub_fail_nonempty V St sub.

  Variable sts : list stage.
  Variable max : nat.
  Hypothesis Hwf : chain_wf sts.
  Let g := chain_graph sts max.

  Notation calc_next := (calc_next V ops).
  Notation iterate := (iterate V St ops exec sub sched).
  Notation step := (step V St ops exec sub sched).
  Notation eval_stages := (eval_stages V St ops exec sub).
  Notation run_group := (run_group V St ops exec sub).

  (* what the run loop does with the result of calculateNextTasks *)
  Definition after_calc (p : path) (budget stepno : nat) (lg : log V) (s : St)
             (r : res (chans V * list (key * V))) : outcome V * St :=
    match r with
    | Err e => (Fail [mkerr e] lg, s)
    | Panic => (Fail [mkerr ePanic] lg, s)
    | Ok (cs', ready) =>
      match alookup kEND ready with
      | Some v => (Done v lg, s)
      | None => iterate p g (S budget) {| ls_step := stepno; ls_chans := cs'; ls_next := ready;
                                          ls_running := []; ls_st := s; ls_log := lg |}
      end
    end.

  (* the senders of a step are base nodes connected to the rest of the chain *)
  Definition base_node (n0 : node) : Prop :=
    n_dsucc n0 = [] /\ n_csucc n0 = [] /\ n_branches n0 = [] /\ n_dmap n0 = [].
  Definition senders_ok (rest : list stage) (outs : list (key * V)) : Prop :=
    forall k o, In (k, o) outs ->
      exists n0, base_node n0 /\ find_node g k = Some (connect (out_ds [kEND] rest) (out_bs rest) n0).

  (* receivers of the senders' outputs *)
  Definition next_R (rest : list stage) (v : V) : list key :=
    match rest with
    | [] => [kEND]
    | SBranch ss tb :: _ => choose V ops (branch_of ss tb) v
    | st :: _ => stage_keys st
    end.

  Lemma run_task_connect : forall p ds bs n v s,
    run_task V St ops exec sub p (connect ds bs n) v s = run_task V St ops exec sub p n v s.
  Proof. reflexivity. Qed.

  Lemma submit_run_group : forall p rest grp v s,
    (forall n, In n grp -> find_node g (sn_key n) = Some (mk [kEND] rest n)) ->
    submit V St ops exec sub p g (map (fun n => (sn_key n, v)) grp) s = run_group p grp v s.
  Proof.
    intros p rest grp v. induction grp as [|n grp IH]; intros s H; simpl; [reflexivity|].
    rewrite (H n) by (left; reflexivity). unfold mk. rewrite run_task_connect.
    destruct (run_task V St ops exec sub p (node_of n) v s) as [[r l1] s1].
    rewrite IH by (intros n' Hn'; apply H; right; exact Hn'). reflexivity.
  Qed.

  Lemma memb_single : forall t x, memb t [x] = N.eqb t x.
  Proof. intros. unfold memb. simpl. apply orb_false_r. Qed.

  Lemma filter_single_none : forall (l : list key) x, ~ In x l -> filter (fun t => memb t [x]) l = [].
  Proof.
    induction l as [|b l IH]; intros x Hn; cbn [filter]; [reflexivity|].
    rewrite memb_single. destruct (N.eqb b x) eqn:Eb.
    - apply N.eqb_eq in Eb. exfalso. apply Hn. left. exact Eb.
    - apply IH. intros H. apply Hn. right. exact H.
  Qed.

  Lemma filter_single : forall (l : list key) x, NoDup l -> In x l -> filter (fun t => memb t [x]) l = [x].
  Proof.
    induction l as [|a l IH]; intros x Hnd Hin; [contradiction|]. cbn [filter].
    inversion Hnd as [|y z Hnot Hnd']; subst. rewrite memb_single.
    destruct (N.eqb a x) eqn:E.
    - apply N.eqb_eq in E. subst a. f_equal. apply filter_single_none. exact Hnot.
    - destruct Hin as [->|Hin]; [rewrite N.eqb_refl in E; discriminate|]. apply IH; assumption.
  Qed.

  Lemma get_merge_single : forall k (o : V), get_merge V ops [(k, o)] = Ok o.
  Proof. reflexivity. Qed.

  Lemma single_outs : forall (outs : list (key * V)) p,
    outs <> [] -> NoDup (akeys outs) -> incl (akeys outs) [p] -> exists o, outs = [(p, o)].
  Proof.
    intros [|[k o] [|[k2 o2] l]] p Hne Hnd Hincl; [exfalso; apply Hne; reflexivity| |].
    - assert (Hk : In k [p]) by (apply Hincl; left; reflexivity). destruct Hk as [<-|[]]. exists o. reflexivity.
    - exfalso. simpl in Hnd, Hincl.
      assert (H1 : In k [p]) by (apply Hincl; left; reflexivity).
      assert (H2 : In k2 [p]) by (apply Hincl; right; left; reflexivity).
      destruct H1 as [<-|[]]. destruct H2 as [<-|[]]. inversion Hnd as [|x y Hnot _]; subst. apply Hnot. left. reflexivity.
  Qed.

  (* one unfolding of the loop = after_calc of the next calculateNextTasks *)
  Lemma iterate_step_after : forall p b stepno cs tasks s lg results sublog s',
    (stepno < max_steps g)%nat ->
    submit V St ops exec sub p g tasks s = (results, sublog, s') ->
    task_errors V results = [] -> results <> [] ->
    iterate p g (S (S b)) {| ls_step := stepno; ls_chans := cs; ls_next := tasks; ls_running := []; ls_st := s; ls_log := lg |} =
    after_calc p b (S stepno)
      (lg ++ (match tasks with [] => [] | _ => [step_entry V p tasks] end) ++ sublog) s'
      (calc_next g cs (task_outputs V results)).
  Proof.
    intros p b stepno cs tasks s lg results sublog s' Hlt Hs Herr Hres.
    set (ls := {| ls_step := stepno; ls_chans := cs; ls_next := tasks; ls_running := []; ls_st := s; ls_log := lg |}).
    change (iterate p g (S (S b)) ls) with
      (match step p g ls with Finish o s0 => (o, s0) | Continue ls' => iterate p g (S b) ls' end).
    rewrite (step_pregel_eq V St ops exec sub sched p g ls results sublog s' (cg_pregel sts max) eq_refl Hs).
    simpl ls_step. apply Nat.leb_gt in Hlt. rewrite Hlt. rewrite Herr.
    destruct results as [|r0 rs]; [exfalso; apply Hres; reflexivity|].
    unfold after_calc, step_log. simpl ls_log. simpl ls_next. simpl ls_chans.
    destruct (calc_next g cs (task_outputs V (r0 :: rs))) as [[cs' ready]|e|]; [|reflexivity|reflexivity].
    destruct (alookup kEND ready); reflexivity.
  Qed.

  Lemma iterate_step_finish : forall p f stepno cs tasks s lg results sublog s',
    (stepno < max_steps g)%nat ->
    submit V St ops exec sub p g tasks s = (results, sublog, s') ->
    (task_errors V results <> [] \/ results = []) ->
    iterate p g (S f) {| ls_step := stepno; ls_chans := cs; ls_next := tasks; ls_running := []; ls_st := s; ls_log := lg |} =
    (match task_errors V results with
     | (_ :: _) as es => Fail es (lg ++ (match tasks with [] => [] | _ => [step_entry V p tasks] end) ++ sublog)
     | [] => Fail [mkerr eNoTasks] (lg ++ (match tasks with [] => [] | _ => [step_entry V p tasks] end) ++ sublog)
     end, s').
  Proof.
    intros p f stepno cs tasks s lg results sublog s' Hlt Hs Hcase.
    set (ls := {| ls_step := stepno; ls_chans := cs; ls_next := tasks; ls_running := []; ls_st := s; ls_log := lg |}).
    change (iterate p g (S f) ls) with
      (match step p g ls with Finish o s0 => (o, s0) | Continue ls' => iterate p g f ls' end).
    rewrite (step_pregel_eq V St ops exec sub sched p g ls results sublog s' (cg_pregel sts max) eq_refl Hs).
    simpl ls_step. apply Nat.leb_gt in Hlt. rewrite Hlt.
    destruct (task_errors V results) as [|e0 es0]; [|reflexivity].
    destruct Hcase as [H|H]; [exfalso; apply H; reflexivity|]. subst results. reflexivity.
  Qed.

  Lemma step_at_limit : forall p (ls : loopstate V St),
    (max_steps g <= ls_step V St ls)%nat ->
    step p g ls = Finish (Fail [mkerr eMaxSteps] (ls_log V St ls)) (ls_st V St ls).
  Proof.
    intros p ls H. unfold Graph.step, step_limit_hit. change (g_mode g) with Pregel. cbv iota.
    apply Nat.leb_le in H. rewrite H. reflexivity.
  Qed.

  Lemma group_keys_R : forall st rest v grp,
    group_of V ops st v = Ok grp ->
    forall t, In t (next_R (st :: rest) v) <-> In t (map sn_key grp).
  Proof.
    intros st rest v grp H t. destruct st as [s|ss|ss tb]; simpl in H.
    - inversion H; subst. reflexivity.
    - inversion H; subst. reflexivity.
    - simpl. destruct (subset _ _) eqn:E; [|discriminate]. inversion H; subst. clear H.
      apply subset_incl in E. rewrite in_map_iff. split.
      + intros Ht. pose proof (E _ Ht) as Hk. apply in_map_iff in Hk. destruct Hk as [n [<- Hn]].
        exists n. split; [reflexivity|]. apply filter_In. split; [exact Hn|apply memb_in; exact Ht].
      + intros [n [<- Hn]]. apply filter_In in Hn. apply memb_in. apply Hn.
  Qed.

  Lemma group_sub : forall st v grp, group_of V ops st v = Ok grp -> incl grp (stage_snodes st).
  Proof.
    intros st v grp H. destruct st as [s|ss|ss tb]; simpl in H.
    - inversion H; subst. intros x Hx. exact Hx.
    - inversion H; subst. intros x Hx. exact Hx.
    - destruct (subset _ _); [|discriminate]. inversion H; subst. intros x Hx. apply filter_In in Hx. apply Hx.
  Qed.

  Lemma nodup_map_filter : forall {A B} (f : A -> B) (p : A -> bool) l, NoDup (map f l) -> NoDup (map f (filter p l)).
  Proof.
    intros A B f p l. induction l as [|a l IH]; intros H; simpl; [constructor|].
    inversion H as [|x y Hnot Hnd]; subst. destruct (p a); [|apply IH; exact Hnd].
    simpl. constructor; [|apply IH; exact Hnd].
    intros Hin. apply Hnot. apply in_map_iff in Hin. destruct Hin as [x [Hx Hf]].
    apply filter_In in Hf. rewrite <- Hx. apply in_map. apply Hf.
  Qed.

  Lemma group_nodup : forall st v grp,
    NoDup (stage_keys st) -> group_of V ops st v = Ok grp -> NoDup (map sn_key grp).
  Proof.
    intros st v grp Hnd H. destruct st as [s|ss|ss tb]; simpl in H.
    - inversion H; subst. exact Hnd.
    - inversion H; subst. exact Hnd.
    - destruct (subset _ _); [|discriminate]. inversion H; subst. apply nodup_map_filter. exact Hnd.
  Qed.

  Lemma stage_keys_nodup : forall pre st rest, sts = pre ++ st :: rest -> NoDup (stage_keys st).
  Proof.
    intros pre st rest Hs. destruct Hwf as [_ [Hnd _]].
    apply NoDup_cons_iff in Hnd. destruct Hnd as [_ Hnd']. apply NoDup_cons_iff in Hnd'. destruct Hnd' as [_ Hnd''].
    unfold chain_keys in Hnd''. rewrite Hs, flat_map_app in Hnd''. simpl in Hnd''.
    apply NoDup_app_r in Hnd''. apply NoDup_app_l in Hnd''. exact Hnd''.
  Qed.

  Lemma stage_keys_in_chain : forall pre st rest k, sts = pre ++ st :: rest -> In k (stage_keys st) -> In k (chain_keys sts).
  Proof.
    intros pre st rest k Hs Hk. unfold chain_keys. rewrite Hs, flat_map_app. apply in_app_iff. right.
    simpl. apply in_app_iff. left. exact Hk.
  Qed.

  (* hypotheses of the uniform step, for a chain *)
  Lemma chain_uniform_hyps : forall pre rest outs v (cs : chans V),
    sts = pre ++ rest ->
    senders_ok rest outs ->
    akeys cs = akeys (init_chans_v0 V g) ->
    (forall k o, In (k, o) outs -> o = v \/ match rest with SBranch _ _ :: _ => False | _ => True end) ->
    (match rest with SBranch ss tb :: _ => subset (choose V ops (branch_of ss tb) v) (map sn_key ss) = true | _ => True end) ->
    (forall k o, In (k, o) outs ->
      exists n, find_node g k = Some n /\ branches_legal V ops n o /\ n_dmap n = [] /\
                (forall t, In t (receivers V ops n o) <-> In t (next_R rest v)) /\
                (forall t, In t (n_csucc n ++ chosen V ops n o) -> In t (akeys cs)) /\
                (forall t, In t (next_R rest v) -> is_dpred n t = true)) /\
    incl (next_R rest v) (akeys cs).
  Proof.
    intros pre rest outs v cs Hsts Hsend Hkeys Hval Hlegal.
    assert (HinR : incl (next_R rest v) (akeys cs)).
    { intros t Ht. rewrite Hkeys. apply (cg_chan_keys sts max Hwf V).
      destruct rest as [|[s|ss|ss tb] rest']; simpl in Ht.
      - destruct Ht as [<-|[]]. right. reflexivity.
      - left. eapply (stage_keys_in_chain pre (SNode s) rest'); [exact Hsts|exact Ht].
      - left. eapply (stage_keys_in_chain pre (SPar ss) rest'); [exact Hsts|exact Ht].
      - left. apply subset_incl in Hlegal. eapply (stage_keys_in_chain pre (SBranch ss tb) rest'); [exact Hsts|].
        apply Hlegal. exact Ht. }
    split; [|exact HinR].
    intros k o Hin. destruct (Hsend k o Hin) as [n0 [[Hd [Hc [Hb Hm]]] Hf]].
    eexists. split; [exact Hf|].
    assert (Hbr : n_branches (connect (out_ds [kEND] rest) (out_bs rest) n0) = out_bs rest)
      by (simpl; rewrite Hb; reflexivity).
    assert (Hds : n_dsucc (connect (out_ds [kEND] rest) (out_bs rest) n0) = out_ds [kEND] rest)
      by (simpl; rewrite Hd; reflexivity).
    assert (Hcs : n_csucc (connect (out_ds [kEND] rest) (out_bs rest) n0) = out_ds [kEND] rest)
      by (simpl; rewrite Hc; reflexivity).
    assert (Hov : match rest with SBranch _ _ :: _ => o = v | _ => True end).
    { destruct rest as [|[s|ss|ss tb] rest']; try exact I. destruct (Hval k o Hin) as [H|[]]. exact H. }
    assert (Hrec : forall t, In t (receivers V ops (connect (out_ds [kEND] rest) (out_bs rest) n0) o) <-> In t (next_R rest v)).
    { intros t. unfold receivers, chosen. rewrite Hbr, Hds.
      destruct rest as [|[s|ss|ss tb] rest']; simpl; try rewrite app_nil_r; try tauto. subst o. rewrite !app_nil_r. tauto. }
    assert (Hcho : chosen V ops (connect (out_ds [kEND] rest) (out_bs rest) n0) o =
                   match rest with SBranch ss tb :: _ => choose V ops (branch_of ss tb) v | _ => [] end).
    { unfold chosen. rewrite Hbr. destruct rest as [|[s|ss|ss tb] rest']; simpl; try reflexivity.
      subst o. rewrite app_nil_r. reflexivity. }
    split; [|split; [exact Hm|split; [exact Hrec|split]]].
    - intros b Hbin. rewrite Hbr in Hbin. destruct rest as [|[s|ss|ss tb] rest']; simpl in Hbin; try contradiction.
      destruct Hbin as [<-|[]]. simpl. subst o. apply subset_incl. exact Hlegal.
    - intros t Ht. apply HinR. apply Hrec. unfold receivers. rewrite Hcs in Ht. rewrite Hds.
      apply in_app_iff in Ht. apply in_app_iff. destruct Ht as [Ht|Ht]; [right; exact Ht|left; exact Ht].
    - intros t Ht. unfold is_dpred. apply orb_true_iff. rewrite Hds.
      destruct rest as [|[s|ss|ss tb] rest']; simpl in Ht.
      + left. apply memb_in. exact Ht.
      + left. apply memb_in. exact Ht.
      + left. apply memb_in. exact Ht.
      + right. apply memb_in. unfold branch_ends_of. rewrite Hbr. simpl. rewrite app_nil_r.
        apply subset_incl in Hlegal. apply Hlegal. exact Ht.
  Qed.

  Lemma frontier_is_group : forall pre st rest v grp (cs : chans V),
    sts = pre ++ st :: rest ->
    group_of V ops st v = Ok grp ->
    akeys cs = akeys (init_chans_v0 V g) ->
    incl (next_R (st :: rest) v) (akeys cs) ->
    map (fun t => (t, v)) (filter (fun t => memb t (next_R (st :: rest) v)) (akeys cs)) =
    map (fun n => (sn_key n, v)) (sort_by snode_ltb grp).
  Proof.
    intros pre st rest v grp cs Hsts Hgrp Hkeys HinR.
    rewrite <- (map_map sn_key (fun t => (t, v))). f_equal.
    apply sorted_unique.
    - apply filter_sorted. rewrite Hkeys. apply cg_chan_sorted.
    - apply sort_snodes_sorted. eapply group_nodup; [eapply stage_keys_nodup; exact Hsts|exact Hgrp].
    - intros x. rewrite filter_In, memb_in.
      rewrite (group_keys_R st rest v grp Hgrp x). split.
      + intros [_ Hx]. apply (Permutation_in _ (Permutation_sym (Permutation_map sn_key (sort_by_perm snode_ltb grp)))). exact Hx.
      + intros Hx. apply (Permutation_in _ (Permutation_map sn_key (sort_by_perm snode_ltb grp))) in Hx.
        split; [|exact Hx]. apply HinR. apply (group_keys_R st rest v grp Hgrp x). exact Hx.
  Qed.

  Lemma ready_no_end : forall (l : list snode) (v : V),
    ~ In kEND (map sn_key l) -> alookup kEND (map (fun n => (sn_key n, v)) l) = None.
  Proof.
    intros l v H. apply alookup_none_notin. unfold akeys. rewrite map_map. simpl. exact H.
  Qed.

  Theorem chain_sim : forall rest pre prevkeys p budget stepno lg s cs outs,
    sts = pre ++ rest ->
    shape_ok prevkeys rest = true -> incl (akeys outs) prevkeys ->
    ksorted outs -> outs <> [] -> senders_ok rest outs ->
    chans_empty V cs -> akeys cs = akeys (init_chans_v0 V g) ->
    (stepno + budget = max_steps g)%nat ->
    after_calc p budget stepno lg s (calc_next g cs outs) = eval_stages p rest budget outs s lg.
  Proof.
    induction rest as [|st rest IH]; intros pre prevkeys p budget stepno lg s cs outs Hsts Hshape Hprev Hsorted Hne Hsend Hemp Hkeys Hbud.
    - (* the last stage delivers to END *)
      assert (Hcsnd : NoDup (akeys cs)).
      { rewrite Hkeys. apply (ksorted_nodup (init_chans_v0 V g)). apply cg_chan_sorted. }
      simpl.
      destruct (get_merge V ops outs) as [v|e|] eqn:Hg.
      + destruct (chain_uniform_hyps pre [] outs v cs Hsts Hsend Hkeys (fun _ _ _ => or_intror I) I) as [Hu HinR].
        destruct (uniform_step_ok V ops g cs outs (next_R [] v) (cg_mode sts max) Hemp Hsorted Hu HinR
                    (fun t _ => cg_no_mapping sts max t) Hne v Hg) as [cs' [Hc _]].
        rewrite Hc. unfold after_calc. simpl next_R. rewrite filter_single; [|exact Hcsnd|apply HinR; left; reflexivity].
        simpl. reflexivity.
      + destruct (chain_uniform_hyps pre [] outs (v_zero ops) cs Hsts Hsend Hkeys (fun _ _ _ => or_intror I) I) as [Hu HinR].
        rewrite (uniform_step_fail V ops g cs outs (next_R [] (v_zero ops)) (cg_mode sts max) Hemp Hsorted Hu HinR
                    (fun t _ => cg_no_mapping sts max t) Hne); [|discriminate|rewrite Hg; intros v; discriminate].
        rewrite Hg. reflexivity.
      + destruct (chain_uniform_hyps pre [] outs (v_zero ops) cs Hsts Hsend Hkeys (fun _ _ _ => or_intror I) I) as [Hu HinR].
        rewrite (uniform_step_fail V ops g cs outs (next_R [] (v_zero ops)) (cg_mode sts max) Hemp Hsorted Hu HinR
                    (fun t _ => cg_no_mapping sts max t) Hne); [|discriminate|rewrite Hg; intros v; discriminate].
        rewrite Hg. reflexivity.
    - assert (Hcsnd : NoDup (akeys cs)).
      { rewrite Hkeys. apply (ksorted_nodup (init_chans_v0 V g)). apply cg_chan_sorted. }
      assert (Houtsnd : NoDup (akeys outs)) by (apply ksorted_nodup; exact Hsorted).
      assert (Hstnd : NoDup (stage_keys st)) by (eapply stage_keys_nodup; exact Hsts).
      assert (Hshape' : shape_ok (stage_keys st) rest = true).
      { destruct st as [s0|ss|ss tb]; simpl in Hshape.
        - exact Hshape.
        - apply andb_true_iff in Hshape. apply Hshape.
        - apply andb_true_iff in Hshape. apply Hshape. }
      (* what the senders deliver, and to whom *)
      assert (Hcases :
        (exists v grp, get_merge V ops outs = Ok v /\ group_of V ops st v = Ok grp /\
           (forall k o, In (k, o) outs -> o = v \/ match st :: rest with SBranch _ _ :: _ => False | _ => True end) /\
           (match st :: rest with SBranch ss tb :: _ => subset (choose V ops (branch_of ss tb) v) (map sn_key ss) = true | _ => True end))
        \/ (exists p0 o, outs = [(p0, o)] /\ group_of V ops st o = Err eBranch /\
              exists ss tb, st = SBranch ss tb /\ subset (choose V ops (branch_of ss tb) o) (map sn_key ss) = false)
        \/ ((forall v, get_merge V ops outs <> Ok v) /\ stage_keys st <> [] /\
            match st with SBranch _ _ => False | _ => True end)).
      { destruct st as [s0|ss|ss tb].
        - destruct (get_merge V ops outs) as [v|e|] eqn:Hg.
          + left. exists v, [s0]. repeat split; try reflexivity. intros; right; exact I.
          + right; right. split; [intros v; discriminate|]. split; [discriminate|exact I].
          + right; right. split; [intros v; discriminate|]. split; [discriminate|exact I].
        - destruct (get_merge V ops outs) as [v|e|] eqn:Hg.
          + left. exists v, ss. repeat split; try reflexivity. intros; right; exact I.
          + right; right. split; [intros v; discriminate|]. split; [|exact I].
            simpl in Hshape. apply andb_true_iff in Hshape. destruct Hshape as [Hs1 _].
            apply andb_true_iff in Hs1. destruct Hs1 as [_ Hnn]. destruct ss; [discriminate|discriminate].
          + right; right. split; [intros v; discriminate|]. split; [|exact I].
            simpl in Hshape. apply andb_true_iff in Hshape. destruct Hshape as [Hs1 _].
            apply andb_true_iff in Hs1. destruct Hs1 as [_ Hnn]. destruct ss; [discriminate|discriminate].
        - simpl in Hshape. apply andb_true_iff in Hshape. destruct Hshape as [Hs1 _].
          apply andb_true_iff in Hs1. destruct Hs1 as [Hsingle _].
          destruct (shape_prev_single _ Hsingle) as [p0 ->].
          destruct (single_outs outs p0 Hne Houtsnd Hprev) as [o ->].
          destruct (subset (choose V ops (branch_of ss tb) o) (map sn_key ss)) eqn:E.
          + left. exists o, (filter (fun n => memb (sn_key n) (choose V ops (branch_of ss tb) o)) ss).
            split; [reflexivity|]. split; [simpl; rewrite E; reflexivity|]. split; [|exact E].
            intros k o' [Heq|[]]. inversion Heq. left. reflexivity.
          + right; left. exists p0, o. split; [reflexivity|]. split; [simpl; rewrite E; reflexivity|].
            exists ss, tb. split; [reflexivity|exact E]. }
      destruct Hcases as [[v [grp [Hg [Hgrp [Hval Hlegal]]]]]|[[p0 [o [-> [Hgrp [ss [tb [-> Hill]]]]]]]|[Hno [Hkne Hnb]]]].
      + (* the next stage starts *)
        destruct (chain_uniform_hyps pre (st :: rest) outs v cs Hsts Hsend Hkeys Hval Hlegal) as [Hu HinR].
        destruct (uniform_step_ok V ops g cs outs (next_R (st :: rest) v) (cg_mode sts max) Hemp Hsorted Hu HinR
                    (fun t _ => cg_no_mapping sts max t) Hne v Hg) as [cs' [Hc [Hk' He']]].
        rewrite Hc. unfold after_calc.
        rewrite (frontier_is_group pre st rest v grp cs Hsts Hgrp Hkeys HinR).
        assert (Hgsub : incl (sort_by snode_ltb grp) (stage_snodes st)).
        { intros x Hx. apply (group_sub st v grp Hgrp). apply (Permutation_in _ (sort_by_perm snode_ltb grp)). exact Hx. }
        assert (Hnoend : ~ In kEND (map sn_key (sort_by snode_ltb grp))).
        { intros H. apply in_map_iff in H. destruct H as [n [Hk Hn]]. apply (cg_end_notin sts Hwf).
          eapply (stage_keys_in_chain pre st rest); [exact Hsts|]. rewrite <- Hk. unfold stage_keys. apply in_map. apply Hgsub. exact Hn. }
        rewrite (ready_no_end _ v Hnoend).
        cbn [ChainSpec.eval_stages]. rewrite Hg, Hgrp.
        destruct budget as [|b].
        * (* step limit *)
          change (iterate p g 1 ?ls) with
            (match step p g ls with Finish o s0 => (o, s0) | Continue ls' => iterate p g 0 ls' end).
          rewrite step_at_limit; [reflexivity|simpl ls_step; lia].
        * set (grp' := sort_by snode_ltb grp) in *.
          set (tasks := map (fun n => (sn_key n, v)) grp').
          assert (Hfind : forall n, In n grp' -> find_node g (sn_key n) = Some (mk [kEND] rest n)).
          { intros n Hn. eapply (cg_find_stage sts max Hwf pre st rest); [exact Hsts|apply Hgsub; exact Hn]. }
          pose proof (submit_run_group p rest grp' v s Hfind) as Hsubm. fold tasks in Hsubm.
          destruct (run_group p grp' v s) as [[results sublog] s'] eqn:Erun.
          destruct (task_errors V results) as [|e0 es0] eqn:Herr.
          -- destruct results as [|r0 rs] eqn:Eres.
             ++ (* nothing selected: "no tasks" *)
                rewrite (iterate_step_finish p (S b) stepno cs' tasks s lg [] sublog s'); [reflexivity|lia|exact Hsubm|right; reflexivity].
             ++ rewrite <- Eres in *.
                rewrite (iterate_step_after p b stepno cs' tasks s lg results sublog s'); [|lia|exact Hsubm|exact Herr|rewrite Eres; discriminate].
                destruct (submit_no_errors V St ops exec sub p g tasks s results sublog s' Hsub Hsubm Herr) as [Hko _].
                assert (Htk : akeys tasks = map sn_key grp') by (unfold tasks, akeys; rewrite map_map; reflexivity).
                apply (IH (pre ++ [st]) (stage_keys st)).
                ** rewrite <- app_assoc. exact Hsts.
                ** exact Hshape'.
                ** rewrite Hko, Htk. intros k Hk. apply in_map_iff in Hk. destruct Hk as [n [<- Hn]].
                   unfold stage_keys. apply in_map. apply Hgsub. exact Hn.
                ** unfold ksorted. change (map fst (task_outputs V results)) with (akeys (task_outputs V results)).
                   rewrite Hko, Htk. apply sort_snodes_sorted. eapply group_nodup; [exact Hstnd|exact Hgrp].
                ** intros Hnil. assert (Hak : akeys (task_outputs V results) = []) by (rewrite Hnil; reflexivity).
                   rewrite Hko in Hak. apply submit_keys in Hsubm. rewrite Hak in Hsubm. rewrite Eres in Hsubm. discriminate.
                ** intros k o Hin. assert (Hk : In k (akeys tasks)) by (rewrite <- Hko; apply (in_map fst) in Hin; exact Hin).
                   rewrite Htk in Hk. apply in_map_iff in Hk. destruct Hk as [n [<- Hn]].
                   exists (node_of n). split; [repeat split|]. rewrite (Hfind n Hn). reflexivity.
                ** exact He'.
                ** rewrite Hk'. exact Hkeys.
                ** lia.
          -- (* a node failed *)
             rewrite (iterate_step_finish p (S b) stepno cs' tasks s lg results sublog s'); [rewrite Herr; reflexivity|lia|exact Hsubm|left; rewrite Herr; discriminate].
      + (* illegal branch choice *)
        cbn [ChainSpec.eval_stages]. rewrite get_merge_single, Hgrp.
        destruct (Hsend p0 o (or_introl eq_refl)) as [n0 [[Hd [Hc [Hb Hm]]] Hf]].
        unfold Graph.calc_next.
        rewrite (resolve_all_pregel_illegal V ops g p0 o [] cs _ (cg_mode sts max) Hf).
        * reflexivity.
        * intros Hl. specialize (Hl (branch_of ss tb)). simpl in Hl. rewrite Hb in Hl.
          assert (Hi : incl (choose V ops (branch_of ss tb) o) (map sn_key ss)) by (apply Hl; left; reflexivity).
          apply subset_incl in Hi. rewrite Hi in Hill. discriminate.
      + (* fan-in merge fails *)
        assert (Hlegal : match st :: rest with SBranch ss tb :: _ => subset (choose V ops (branch_of ss tb) (v_zero ops)) (map sn_key ss) = true | _ => True end)
          by (destruct st; try exact I; contradiction).
        assert (Hval : forall k o, In (k, o) outs -> o = v_zero ops \/ match st :: rest with SBranch _ _ :: _ => False | _ => True end)
          by (intros; right; destruct st; try exact I; contradiction).
        destruct (chain_uniform_hyps pre (st :: rest) outs (v_zero ops) cs Hsts Hsend Hkeys Hval Hlegal) as [Hu HinR].
        rewrite (uniform_step_fail V ops g cs outs (next_R (st :: rest) (v_zero ops)) (cg_mode sts max) Hemp Hsorted Hu HinR
                    (fun t _ => cg_no_mapping sts max t) Hne); [| |exact Hno].
        * cbn [ChainSpec.eval_stages]. destruct (get_merge V ops outs) as [v|e|] eqn:Hg; [exfalso; exact (Hno _ eq_refl)|reflexivity|reflexivity].
        * destruct st; simpl; try exact Hkne. contradiction.
  Qed.

  Lemma chain_max_steps_eq : max_steps g = chain_max_steps sts max.
  Proof.
    unfold max_steps, chain_max_steps. simpl g_max. destruct max as [|m]; [|reflexivity]. f_equal.
    rewrite <- (map_length n_key (real_nodes g)). unfold g. rewrite (real_nodes_cg sts 0 Hwf).
    unfold chain_keys, stage_keys.
    clear. induction sts as [|st l IH]; simpl; [reflexivity|]. rewrite !app_length, map_length, IH. reflexivity.
  Qed.

  (* ---------- chain_lowering_correct ---------- *)
  Theorem chain_run_is_eval : forall p x s,
    run_flat V St ops exec sub sched p g x s = eval_chain V St ops exec sub p sts max x s.
  Proof.
    intros p x s. unfold run_flat, eval_chain.
    rewrite (init_chans_pregel V g (cg_mode sts max)).
    destruct (init_chans_v0_ok V g) as [Hnd Hemp].
    rewrite <- chain_max_steps_eq.
    rewrite <- (chain_sim sts [] [kSTART] p (max_steps g) O [run_marker V p] s (init_chans_v0 V g) [(kSTART, x)]).
    - unfold after_calc, init_state, loop_fuel. change (g_mode g) with Pregel. cbv iota.
      destruct (calc_next g (init_chans_v0 V g) [(kSTART, x)]) as [[cs ready]|e|]; reflexivity.
    - reflexivity.
    - destruct Hwf as [_ [_ Hs]]. exact Hs.
    - intros k [<-|[]]. left. reflexivity.
    - constructor; constructor.
    - discriminate.
    - intros k o [Heq|[]]. inversion Heq; subst. exists start_node. split; [repeat split|]. apply cg_find_start.
    - exact Hemp.
    - reflexivity.
    - reflexivity.
  Qed.
End ChainSim.

(* the sequential structure of the meaning: a node stage applies the node and hands its output on *)
Lemma eval_node_stage_ok : forall V St (ops : vops V) exec sub p n rest b k v s lg o l s',
  run_task V St ops exec sub p (node_of n) v s = (TOk o, l, s') ->
  eval_stages V St ops exec sub p (SNode n :: rest) (S b) [(k, v)] s lg =
  eval_stages V St ops exec sub p rest b [(sn_key n, o)] s' (lg ++ [step_entry V p [(sn_key n, v)]] ++ l).
Proof.
  intros V St ops exec sub p n rest b k v s lg o l s' H.
  cbn [eval_stages get_merge group_of sort_by fold_right insert_by map run_group]. rewrite H.
  cbn [task_errors task_outputs flat_map snd fst app]. rewrite app_nil_r. reflexivity.
Qed.

Lemma eval_node_stage_fail : forall V St (ops : vops V) exec sub p n rest b k v s lg e es l s',
  run_task V St ops exec sub p (node_of n) v s = (TErr (e :: es), l, s') ->
  eval_stages V St ops exec sub p (SNode n :: rest) (S b) [(k, v)] s lg =
  (Fail (e :: es) (lg ++ [step_entry V p [(sn_key n, v)]] ++ l), s').
Proof.
  intros V St ops exec sub p n rest b k v s lg e es l s' H.
  cbn [eval_stages get_merge group_of sort_by fold_right insert_by map run_group]. rewrite H.
  cbn [task_errors task_outputs flat_map snd fst app]. rewrite !app_nil_r. reflexivity.
Qed.

(* the theorem about the model's own lowering *)
Theorem chain_lowering_correct_lemma :
  forall V St (ops : vops V) exec sub sched sts max,
    sub_fail_nonempty V St sub -> chain_wf sts ->
    exists g, chain_lower sts max = Some g /\ pregel_graph g /\
      forall p x s, run_flat V St ops exec sub sched p g x s = eval_chain V St ops exec sub p sts max x s.
Proof.
  intros V St ops exec sub sched sts max Hsub Hwf. exists (chain_graph sts max).
  split; [apply chain_lower_graph; exact Hwf|]. split; [apply cg_pregel|].
  intros p x s. apply chain_run_is_eval; assumption.
Qed.

(* ================= what Corr/C01.v evaluates ================= *)
From Eino Require Import Proofs.PregelNest.

(* the model run of a case = the nested engine on the root graph *)
Lemma tree_run_is_run_nest : forall fails g F x,
  tree_run fails (g :: F) x =
  fst (run_nest value unit tree_ops (tree_exec fails) sched_first (S (List.length (g :: F))) (g :: F) [] g x tt).
Proof. reflexivity. Qed.

(* for a case whose root is a well-formed chain, the two things Corr/C01.v compares the observation with —
   the engine model on the lowered forest and the sequential meaning of the chain — are equal *)
Theorem chain_case_run_is_eval : forall fails sts max ds x,
  chain_wf sts ->
  let F := lower_forest (GChain sts max :: ds) in
  tree_run fails F x =
  fst (eval_chain value unit tree_ops (tree_exec fails)
                  (nest_sub value unit tree_ops (tree_exec fails) sched_first (List.length F) F)
                  [] sts max x tt).
Proof.
  intros fails sts max ds x Hwf F.
  assert (HF : F = chain_graph sts max :: lower_forest ds).
  { unfold F, lower_forest. simpl. rewrite (chain_lower_graph sts max Hwf). reflexivity. }
  rewrite HF at 1. rewrite tree_run_is_run_nest. rewrite run_nest_S. rewrite <- HF.
  rewrite (chain_run_is_eval value unit tree_ops (tree_exec fails) _ sched_first
             (nest_sub_fail_nonempty value unit tree_ops (tree_exec fails) sched_first (List.length F) F)
             sts max Hwf [] x tt).
  reflexivity.
Qed.
