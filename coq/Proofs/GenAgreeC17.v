(* Proofs/GenAgreeC17.v — translator tie of property C17.  tools/go2v (extractor "toolnode") re-reads
   compose/tool_node.go on every run and translates it statement by statement into Gen/ToolNode.v
   (vocabulary: Model/ToolsGenLib.v).  Here the generated functions are proved equal, for ALL arguments,
   to the model the C17 theorems are about and the correspondence check evaluates:

     getToolsNodeOptions / WithToolOption / WithToolList  =  get_node_opts              (Model/ToolsOpts.v)
     genToolCallTasks / newUnknownToolTask                =  gen_tasks                  (Model/Tools.v)
     ToolsNode.Invoke  (options, tool set in force, tasks, run, assembly loop)  =  call_invoke
     ToolsNode.Stream  (... , sparse-list conversion, merge of the sources)     =  call_stream_open
     the goroutine program and the spawn / inline / wait shape of parallelRunToolCall  =  prog_ok and
       the shape Model/ToolsPar.v's protocol (pstep) is written for
     schema.ToolMessage  =  (content, call id)

   What is not translated enters as explicit parameters, instantiated below with the model's reading:
   a runnable packer is the tool convTools found at that index (kind, implementation) or a function
   (the unknown-tool handler's closure); running it = the invoke / stream derivations of Model/Tools.v;
   convTools = conv_tools + index (last tool of a name wins); parallelRunToolCall = every task run,
   a panic of a goroutine task stored as the panic error, a panic of the inline task escaping —
   which is what the protocol of Model/ToolsPar.v yields for the goroutine program read from the source, whatever the
   schedule (gen_parallel_invoke_is_protocol / gen_parallel_stream_is_protocol below: the protocol run on the generated
   runToolCallTaskByInvoke / ByStream hands the scan exactly the cells of the tasks this semantics returns).
   A changed index, field, bound, order or test in the Go source makes a theorem here stop compiling. *)
From Coq Require Import Permutation.
From Eino Require Import Base.Util Model.Tools Model.ToolsOpts Model.ToolsPar Model.ToolsGenLib Proofs.Tools Proofs.ToolsPar.
From Eino Require Gen.ToolNode.
Local Open Scope string_scope.
Local Open Scope list_scope.

(* ---- slices and counted loops ---------------------------------------------------------------- *)
(* (arithmetic by hand: no decision procedure in the dependencies of the agreement theorems) *)
Lemma zn_not_neg : forall n : nat, (Z.of_nat n <? 0)%Z = false.
Proof. intros. apply Z.ltb_ge. apply Nat2Z.is_nonneg. Qed.

Lemma zn_snoc : forall A (l : list A) x, (Z.of_nat (List.length l) + 1)%Z = Z.of_nat (List.length (l ++ [x])).
Proof. intros. rewrite app_length. simpl. rewrite Nat.add_1_r, Nat2Z.inj_succ. reflexivity. Qed.

Lemma len_snoc : forall A B (l : list A) (m : list B) x y,
  List.length l = List.length m -> List.length (l ++ [x]) = List.length (m ++ [y]).
Proof. intros. rewrite !app_length. simpl. rewrite H. reflexivity. Qed.

Lemma sl_get_at : forall A (pre : list A) x post,
  sl_get (pre ++ x :: post) (Z.of_nat (List.length pre)) = Ok x.
Proof.
  intros. unfold sl_get. rewrite zn_not_neg.
  rewrite Nat2Z.id. rewrite nth_error_app2 by apply Nat.le_refl. rewrite Nat.sub_diag. reflexivity.
Qed.

Lemma set_nth_at : forall A (pre : list A) x y post,
  set_nth (List.length pre) y (pre ++ x :: post) = pre ++ y :: post.
Proof. induction pre; intros; simpl; [reflexivity|]. rewrite IHpre. reflexivity. Qed.

Lemma sl_set_at : forall A (pre : list A) x y post,
  sl_set (pre ++ x :: post) (Z.of_nat (List.length pre)) y = Ok (pre ++ y :: post).
Proof.
  intros. unfold sl_set. rewrite zn_not_neg.
  rewrite Nat2Z.id. replace (Nat.ltb (List.length pre) (List.length (pre ++ x :: post))) with true.
  - rewrite set_nth_at. reflexivity.
  - symmetry. apply Nat.ltb_lt. rewrite app_length. simpl. apply Nat.lt_add_pos_r. apply Nat.lt_0_succ.
Qed.

Lemma sl_upd_at : forall A (pre : list A) x f post,
  sl_upd (pre ++ x :: post) (Z.of_nat (List.length pre)) f = Ok (pre ++ f x :: post).
Proof. intros. unfold sl_upd. rewrite sl_get_at. simpl. apply sl_set_at. Qed.

Lemma sl_get_nat : forall A (l : list A) j,
  sl_get l (Z.of_nat j) = match nth_error l j with Some a => Ok a | None => Panic end.
Proof.
  intros. unfold sl_get. rewrite zn_not_neg.
  rewrite Nat2Z.id. reflexivity.
Qed.

Lemma sl_make_len : forall A (z : A) (l : nat), sl_make z (Z.of_nat l) = Ok (repeat z l).
Proof.
  intros. unfold sl_make. rewrite zn_not_neg.
  rewrite Nat2Z.id. reflexivity.
Qed.

Lemma for_up_len : forall S n (body : Z -> S -> res S) st,
  for_up 0%Z (Z.of_nat n) body st = for_up_n n 0%Z body st.
Proof. intros. unfold for_up. rewrite Z.sub_0_r, Nat2Z.id. reflexivity. Qed.

(* a counted loop that fills a zero-initialised slice element by element, with early exit on an error:
   whatever the body looks like, if one iteration at index |pre| turns [done ++ zero :: zeros] into
   [done ++ b :: zeros] with b = step |pre| x (or fails like step), the loop is the monadic map of step *)
Fixpoint mapM_idx {A B} (step : nat -> A -> res B) (i : nat) (l : list A) : res (list B) :=
  match l with
  | [] => Ok []
  | a :: r => do b <- step i a; do bs <- mapM_idx step (S i) r; Ok (b :: bs)
  end.

Lemma for_up_n_fill : forall {A B : Type} (zero : B) (step : nat -> A -> res B) (l : list A)
    (body : Z -> list B -> res (list B)),
  (forall pre x post done, l = pre ++ x :: post -> List.length done = List.length pre ->
     body (Z.of_nat (List.length pre)) (done ++ zero :: repeat zero (List.length post))
     = do b <- step (List.length pre) x; Ok (done ++ b :: repeat zero (List.length post))) ->
  forall post pre done, l = pre ++ post -> List.length done = List.length pre ->
  for_up_n (List.length post) (Z.of_nat (List.length pre)) body (done ++ repeat zero (List.length post))
  = res_map (fun bs => done ++ bs) (mapM_idx step (List.length pre) post).
Proof.
  intros A B zero step l body Hbody. induction post as [|x post IH]; intros pre done El Hl.
  - simpl. rewrite app_nil_r. reflexivity.
  - cbn [List.length repeat for_up_n mapM_idx]. rewrite (Hbody pre x post done El Hl).
    destruct (step (List.length pre) x) as [b|e|]; cbn [res_bind res_map]; try reflexivity.
    replace (done ++ b :: repeat zero (List.length post)) with ((done ++ [b]) ++ repeat zero (List.length post))
      by (rewrite <- app_assoc; reflexivity).
    replace (Z.of_nat (List.length pre) + 1)%Z with (Z.of_nat (List.length (pre ++ [x]))) by (symmetry; apply zn_snoc).
    rewrite (IH (pre ++ [x]) (done ++ [b])).
    + rewrite app_length. cbn [List.length]. rewrite Nat.add_1_r.
      destruct (mapM_idx step (S (List.length pre)) post); cbn [res_map res_bind]; try reflexivity.
      rewrite <- app_assoc. reflexivity.
    + rewrite <- app_assoc. exact El.
    + apply len_snoc. exact Hl.
Qed.

Lemma mapM_idx_const : forall {A B C} (g : A -> res B) (f : B -> C) l i,
  mapM_idx (fun _ a => res_map f (g a)) i l = res_map (map f) (res_mapM g l).
Proof.
  induction l as [|a l IH]; intros i; [reflexivity|]. cbn [mapM_idx res_mapM]. rewrite IH.
  destruct (g a); cbn [res_map res_bind]; try reflexivity. destruct (res_mapM g l); reflexivity.
Qed.

(* ---- the option list --------------------------------------------------------------------------- *)
Section Options.
  Variables P D : Type.
  Notation TOPT := (topt P).

  (* a ToolsNodeOption of the model as the closure the generated WithToolOption / WithToolList return *)
  Definition gen_opt (o : nodeopt P D) : toolsNodeOptions D TOPT -> toolsNodeOptions D TOPT :=
    match o with
    | ToolsOpts.WithToolOption os => Gen.ToolNode.WithToolOption D TOPT os
    | ToolsOpts.WithToolList l => Gen.ToolNode.WithToolList D TOPT l
    end.

  Lemma fold_gen_opts : forall (l : list (nodeopt P D)) (st : toolsNodeOptions D TOPT),
    fold_left (fun o opt => opt o) (map gen_opt l) st =
    let r := fold_left apply_nodeopt l (toolsNodeOptions_ToolList st, toolsNodeOptions_ToolOptions st) in
    mk_toolsNodeOptions (snd r) (fst r).
  Proof.
    induction l as [|o l IH]; intros st; simpl.
    - destruct st; reflexivity.
    - rewrite IH. destruct o; reflexivity.
  Qed.

  (* getToolsNodeOptions on the closures = the model's fold of the option list *)
  Theorem gen_node_options_agree : forall l : list (nodeopt P D),
    Gen.ToolNode.getToolsNodeOptions D TOPT (map gen_opt l) =
    mk_toolsNodeOptions (snd (get_node_opts l)) (fst (get_node_opts l)).
  Proof.
    intros l. unfold Gen.ToolNode.getToolsNodeOptions, get_node_opts.
    exact (fold_gen_opts l _).
  Qed.
End Options.

(* ---- the node ----------------------------------------------------------------------------------- *)
(* position of the last entry of a name: what convTools' indexes map holds (indexes[name] = idx, in list order) *)
Fixpoint index_of {A} (tl : list (string * A)) (name : string) : option nat :=
  match tl with
  | [] => None
  | (n, _) :: r =>
      match index_of r name with
      | Some j => Some (S j)
      | None => if String.eqb n name then Some 0%nat else None
      end
  end.

Lemma index_of_bound : forall A (tl : list (string * A)) name j,
  index_of tl name = Some j -> exists x, nth_error tl j = Some x.
Proof.
  induction tl as [|[n a] r IH]; intros name j H; simpl in H; [discriminate|].
  destruct (index_of r name) as [j'|] eqn:E.
  - inversion H; subst. simpl. eapply IH; eauto.
  - destruct (String.eqb n name); inversion H; subst. simpl. eauto.
Qed.

Lemma index_of_lookup : forall A (tl : list (string * A)) name,
  index_lookup tl name = match index_of tl name with
                         | Some j => option_map snd (nth_error tl j)
                         | None => None
                         end.
Proof.
  induction tl as [|[n a] r IH]; intros name; simpl; [reflexivity|].
  rewrite IH. destruct (index_of r name) as [j|] eqn:E; simpl.
  - destruct (index_of_bound _ _ _ _ E) as [[n' a'] H]. rewrite H. reflexivity.
  - destruct (String.eqb n name); reflexivity.
Qed.

(* the indexes map after convTools: one assignment per tool, the latest first *)
Fixpoint idx_list {A} (i : nat) (tl : list (string * A)) : gomap Z :=
  match tl with
  | [] => []
  | (n, _) :: r => idx_list (S i) r ++ [(n, Z.of_nat i)]
  end.

Lemma alist_get_app : forall A k (l1 l2 : list (string * A)),
  alist_get k (l1 ++ l2) = match alist_get k l1 with Some a => Some a | None => alist_get k l2 end.
Proof.
  induction l1 as [|[k' a] l1 IH]; intros l2; simpl; [reflexivity|].
  destruct (String.eqb k k'); [reflexivity|apply IH].
Qed.

Lemma idx_list_get : forall A (tl : list (string * A)) i name,
  map_get (idx_list i tl) name = option_map (fun j => Z.of_nat (i + j)) (index_of tl name).
Proof.
  unfold map_get. induction tl as [|[n a] r IH]; intros i name; simpl; [reflexivity|].
  rewrite alist_get_app, IH. destruct (index_of r name) as [j|]; simpl.
  - rewrite Nat.add_succ_r. reflexivity.
  - rewrite String.eqb_sym. destruct (String.eqb n name); simpl; [rewrite Nat.add_0_r|]; reflexivity.
Qed.

Lemma idx_list_snoc : forall A (tl : list (string * A)) i n a,
  idx_list i (tl ++ [(n, a)]) = (n, Z.of_nat (i + List.length tl)) :: idx_list i tl.
Proof.
  induction tl as [|[n' a'] r IH]; intros i n a; simpl.
  - rewrite Nat.add_0_r. reflexivity.
  - rewrite IH. simpl. rewrite Nat.add_succ_r. reflexivity.
Qed.

Section Agree.
  Variable P : Type.
  Notation TOPT := (topt P).
  Notation O := (list (topt P)).
  Notation BT := (tooldecl O).
  Notation META := unit.

  (* a runnable packer: the one convTools made for a tool (its kind and implementation), or one made from
     a function (newRunnablePacker(f, nil, nil, nil, _): invokable only) *)
  Inductive RPm : Type :=
  | RP_pack (i : option (CTX -> string -> O -> tres)) (s : option (CTX -> string -> O -> sres)).

  (* newRunnablePacker(i, s, nil, nil, _): the packer of an invoke function and / or a stream function *)
  Definition m_newRunnablePacker (i : option (CTX -> string -> O -> tres)) (s : option (CTX -> string -> O -> sres))
             (_ _ : option unit) (_ : bool) : option RPm :=
    Some (RP_pack i s).

  (* the tools as tool.BaseTool values: Info, the run interfaces the value implements, its run methods *)
  Definition m_BT_Info (d : BT) (_ : CTX) : res ToolInfo :=
    if td_info_ok d then Ok (mk_ToolInfo (td_name d)) else Err E_TOOLINFO.
  Definition m_assert_StreamableTool (d : BT) : option BT :=
    match td_kind d with Some KStr | Some KBoth => Some d | _ => None end.
  Definition m_assert_InvokableTool (d : BT) : option BT :=
    match td_kind d with Some KInv | Some KBoth => Some d | _ => None end.
  Definition inv_fn (ti : toolimpl O) : CTX -> string -> O -> tres := fun _ arg opts => ti_inv ti opts arg.
  Definition str_fn (ti : toolimpl O) : CTX -> string -> O -> sres := fun _ arg opts => ti_str ti opts arg.
  Definition m_BT_StreamableRun (o : option BT) : option (CTX -> string -> O -> sres) := option_map (fun d => str_fn (td_impl d)) o.
  Definition m_BT_InvokableRun (o : option BT) : option (CTX -> string -> O -> tres) := option_map (fun d => inv_fn (td_impl d)) o.
  Definition m_parseExecutorInfo (_ : unit) (_ : option BT) : option META := Some tt.
  Definition m_callbackEnabled (_ : option META) : bool := false.

  (* the packer convTools makes for a tool of kind k, and the one made from a function alone *)
  Definition RP_tool (k : tkind) (ti : toolimpl O) : RPm :=
    RP_pack (match k with KStr => None | _ => Some (inv_fn ti) end)
            (match k with KInv => None | _ => Some (str_fn ti) end).
  Definition RP_fn (f : CTX -> string -> O -> tres) : RPm := RP_pack (Some f) None.

  (* what a task's cell holds after its tool returned *)
  Definition cell_t (r : tres) : res (string * option N) :=
    match r with TOk o => Ok (o, None) | TErr e => Ok ("", Some e) | TPanic => Panic end.
  Definition cell_s (r : sres) : res (option SR * option N) :=
    match r with SOk cs tl => Ok (Some (cs, tl), None) | SErr e => Ok (None, Some e) | SPanic => Panic end.

  (* runnablePacker.Invoke / .Stream: the derivations of compose/runnable.go as in Model/Tools.v *)
  Definition m_RP_Invoke (r : option RPm) (ctx : CTX) (arg : string) (opts : O) : res (string * option N) :=
    match r with
    | Some (RP_pack (Some f) _) => cell_t (f ctx arg opts)
    | Some (RP_pack None (Some g)) => cell_t (invoke_by_stream (g ctx arg opts))
    | _ => Panic
    end.
  Definition m_RP_Stream (r : option RPm) (ctx : CTX) (arg : string) (opts : O) : res (option SR * option N) :=
    match r with
    | Some (RP_pack _ (Some g)) => cell_s (g ctx arg opts)
    | Some (RP_pack (Some f) None) => cell_s (stream_by_invoke (f ctx arg opts))
    | _ => Panic
    end.

  (* convTools: the converted list as a tuple (indexes: the last tool of a name; rps in list order) *)
  Definition tuple_of (tl : list (string * (tkind * toolimpl O))) : toolsTuple META RPm :=
    mk_toolsTuple (idx_list 0 tl)
                  (map (fun _ => Some tt) tl)
                  (map (fun x => Some (RP_tool (fst (snd x)) (snd (snd x)))) tl).

  (* parallelRunToolCall, as Model/ToolsPar.v's theorems characterise the protocol for prog_ok: every task
     is run; a panic of a goroutine task (index >= 1) is stored in its cell as the panic error; a panic of
     the inline task (index 0) leaves the function *)
  Definition recovered (run : CTX -> toolCallTask META RPm -> O -> res (toolCallTask META RPm))
             (ctx : CTX) (opts : O) (t : toolCallTask META RPm) : toolCallTask META RPm :=
    match run ctx t opts with
    | Ok t' => t'
    | Err e => set_toolCallTask_err t (Some e)
    | Panic => set_toolCallTask_err t (Some E_PANIC)
    end.
  Definition m_parallel (ctx : CTX) (run : CTX -> toolCallTask META RPm -> O -> res (toolCallTask META RPm))
             (tasks : list (toolCallTask META RPm)) (opts : O) : res (list (toolCallTask META RPm)) :=
    match tasks with
    | [] => Panic
    | t0 :: rest => do t0' <- run ctx t0 opts; Ok (t0' :: map (recovered run ctx opts) rest)
    end.

  (* the model's data as the generated code's *)
  Definition tc_of (c : call) : ToolCall := mk_ToolCall (c_id c) (mk_FunctionCall (c_name c) (c_args c)).
  Definition msg_of (role : string) (calls : list call) : Message := mk_Message role (map tc_of calls).
  Definition lift_handler (h : option (string -> string -> tres)) : option (CTX -> string -> string -> tres) :=
    option_map (fun h' => fun (_ : CTX) n a => h' n a) h.
  Definition node_of (tl : list (string * (tkind * toolimpl O))) (h : option (string -> string -> tres)) : ToolsNode META RPm :=
    mk_ToolsNode (tuple_of tl) (lift_handler h).

  (* a task of the model as the generated code's task record (before it is run) *)
  Definition gtask_of (tl : list (string * (tkind * toolimpl O))) (t : task) : toolCallTask META RPm :=
    match t with
    | Task _ c =>
        mk_toolCallTask (match index_of tl (c_name c) with
                         | Some j => match nth_error tl j with
                                     | Some x => Some (RP_tool (fst (snd x)) (snd (snd x)))
                                     | None => None
                                     end
                         | None => None
                         end)
                        (Some tt) (c_name c) (c_args c) (c_id c) "" None None
    | Unk h c =>
        mk_toolCallTask (Some (RP_fn (fun (_ : CTX) input (_ : O) => h (c_name c) input)))
                        (Some tt) (c_name c) (c_args c) (c_id c) "" None None
    end.

  Notation g_genToolCallTasks := (Gen.ToolNode.genToolCallTasks TOPT META RPm tt m_newRunnablePacker).

  Section Tasks.
    Variable tl : list (string * (tkind * toolimpl O)).     (* the tool list in force *)
    Variable tl0 : list (string * (tkind * toolimpl O)).    (* the list the node was configured with *)
    Variable handler : option (string -> string -> tres).
    Let kind_of := ts_kind (toolset_of_conv tl).

    Lemma kind_of_index : forall name,
      kind_of name = match index_of tl name with
                     | Some j => option_map (fun x => fst (snd x)) (nth_error tl j)
                     | None => None
                     end.
    Proof.
      intros name. unfold kind_of. simpl. rewrite index_of_lookup.
      destruct (index_of tl name) as [j|]; [|reflexivity].
      destruct (nth_error tl j) as [[n [k ti]]|]; reflexivity.
    Qed.

    (* genToolCallTasks = the model's gen_tasks, task for task.  The loop is handled by for_up_n_fill: only what one
       iteration does to the element it fills matters, not how the body is written (the order of the field
       assignments, the names of the locals) *)
    Theorem gen_genToolCallTasks_agrees : forall role calls,
      g_genToolCallTasks (node_of tl0 handler) (tuple_of tl) (msg_of role calls)
      = res_map (map (gtask_of tl)) (gen_tasks kind_of handler (String.eqb role schema_Assistant) calls).
    Proof.
      intros role calls. unfold Gen.ToolNode.genToolCallTasks, gen_tasks.
      cbn [msg_of Message_Role Message_ToolCalls].
      destruct (String.eqb role schema_Assistant) eqn:Er; cbn [negb]; [|reflexivity].
      unfold sl_len. rewrite map_length.
      destruct calls as [|c0 calls0]; [reflexivity|]. set (calls := c0 :: calls0).
      replace (Z.of_nat (List.length calls) =? 0)%Z with false by (symmetry; apply Z.eqb_neq; intro HZ; apply (Nat2Z.inj _ 0%nat) in HZ; discriminate).
      rewrite sl_make_len. cbn [res_bind]. rewrite for_up_len.
      etransitivity.
      { apply (f_equal (fun r => do t <- r; Ok t)).
        apply (for_up_n_fill zero_toolCallTask (fun (_ : nat) c => res_map (gtask_of tl) (gen_task kind_of handler c)) calls)
          with (pre := []) (done := []); [|reflexivity|reflexivity].
        (* one iteration *)
        intros pre c post done El Hl.
        assert (Hget : sl_get (map tc_of calls) (Z.of_nat (List.length pre)) = Ok (tc_of c)).
        { rewrite El, map_app. cbn [map]. rewrite <- (map_length tc_of pre). apply sl_get_at. }
        rewrite Hget. cbn [res_bind tc_of ToolCall_Function FunctionCall_Name FunctionCall_Arguments ToolCall_ID].
        cbn [tuple_of toolsTuple_indexes toolsTuple_rps toolsTuple_meta]. rewrite idx_list_get.
        unfold gen_task. rewrite kind_of_index. rewrite <- Hl.
        destruct (index_of tl (c_name c)) as [j|] eqn:Ej; cbn [option_map Nat.add].
        - destruct (index_of_bound _ _ _ _ Ej) as [[n [k ti]] Hj]. rewrite Hj. cbn [option_map fst snd res_map res_bind].
          rewrite !sl_get_nat, !nth_error_map, Hj. cbn [option_map res_bind fst snd].
          (* field by field (sl_upd) or with one composite literal (sl_set): the element ends up the same *)
          repeat (first [rewrite sl_upd_at | rewrite sl_set_at]; cbn [res_bind]).
          cbn [gtask_of]. rewrite Ej, Hj. reflexivity.
        - unfold node_of, lift_handler. cbn [ToolsNode_unknownToolHandler].
          destruct handler as [h|]; cbn [option_map is_nil res_map res_bind]; [|reflexivity].
          rewrite sl_set_at. reflexivity. }
      rewrite mapM_idx_const. destruct (res_mapM (gen_task kind_of handler) calls); reflexivity.
    Qed.
  End Tasks.

  (* ---- running a task ---- *)
  Notation g_runInvoke := (Gen.ToolNode.runToolCallTaskByInvoke TOPT META RPm m_RP_Invoke).
  Notation g_runStream := (Gen.ToolNode.runToolCallTaskByStream TOPT META RPm m_RP_Stream).

  Section Run.
    Variable tl : list (string * (tkind * toolimpl O)).
    Variable handler : option (string -> string -> tres).
    Variable opts : O.
    Let ts := toolset_of_conv tl.
    Let kind_of := ts_kind ts.
    Let inv := ts_inv ts opts.
    Let str := ts_str ts opts.

    (* a task as genToolCallTasks makes it: the kind recorded is that of the tool the name resolves to *)
    Definition wf_task (t : task) : Prop :=
      match t with Task k c => kind_of (c_name c) = Some k | Unk _ _ => True end.

    Lemma gen_task_wf : forall c t, gen_task kind_of handler c = Ok t -> wf_task t.
    Proof.
      unfold gen_task. intros c t H. destruct (kind_of (c_name c)) as [k|] eqn:E.
      - inversion H; subst. exact E.
      - destruct handler; inversion H; subst. exact I.
    Qed.

    Lemma gen_tasks_wf : forall role_ok calls tasks,
      gen_tasks kind_of handler role_ok calls = Ok tasks -> Forall wf_task tasks /\ tasks <> [].
    Proof.
      unfold gen_tasks. intros role_ok calls tasks H.
      destruct (negb role_ok); [discriminate|]. destruct calls as [|c calls]; [discriminate|].
      apply mapM_forall2 in H. split.
      - clear -H. induction H; constructor; eauto using gen_task_wf.
      - inversion H; subst. discriminate.
    Qed.

    Lemma wf_lookup : forall k c, wf_task (Task k c) ->
      exists j n ti, index_of tl (c_name c) = Some j /\ nth_error tl j = Some (n, (k, ti))
                     /\ index_lookup tl (c_name c) = Some (k, ti).
    Proof.
      intros k c H. unfold wf_task, kind_of, ts in H. simpl in H.
      pose proof (index_of_lookup _ tl (c_name c)) as L.
      destruct (index_of tl (c_name c)) as [j|] eqn:Ej.
      - destruct (nth_error tl j) as [[n [k' ti]]|] eqn:Hj; simpl in L; rewrite L in H; simpl in H; [|discriminate].
        inversion H; subst. exists j, n, ti. repeat split; auto.
      - rewrite L in H. discriminate.
    Qed.

    Lemma run_invoke_cell : forall ctx t, wf_task t ->
      g_runInvoke ctx (gtask_of tl t) opts =
      match exec_invoke inv str t with
      | TOk o => Ok (set_toolCallTask_err (set_toolCallTask_output (gtask_of tl t) o) None)
      | TErr e => Ok (set_toolCallTask_err (set_toolCallTask_output (gtask_of tl t) "") (Some e))
      | TPanic => Panic
      end.
    Proof.
      intros ctx t Hwf. unfold Gen.ToolNode.runToolCallTaskByInvoke.
      destruct t as [k c|h c].
      - destruct (wf_lookup k c Hwf) as [j [n [ti [Ej [Hj Hl]]]]].
        cbn [gtask_of toolCallTask_r toolCallTask_arg toolCallTask_callID]. rewrite Ej, Hj. cbn [fst snd].
        unfold exec_invoke, inv, str, ts. cbn [ts_inv ts_str toolset_of_conv]. rewrite Hl.
        destruct k; unfold RP_tool, inv_fn, str_fn; cbn [m_RP_Invoke].
        + destruct (ti_inv ti opts (c_args c)); reflexivity.
        + destruct (invoke_by_stream (ti_str ti opts (c_args c))); reflexivity.
        + destruct (ti_inv ti opts (c_args c)); reflexivity.
      - cbn [gtask_of toolCallTask_r toolCallTask_arg toolCallTask_callID exec_invoke]. unfold RP_fn. cbn [m_RP_Invoke].
        destruct (h (c_name c) (c_args c)); reflexivity.
    Qed.

    Lemma run_stream_cell : forall ctx t, wf_task t ->
      g_runStream ctx (gtask_of tl t) opts =
      match exec_stream inv str t with
      | SOk cs tail => Ok (set_toolCallTask_err (set_toolCallTask_sOutput (gtask_of tl t) (Some (cs, tail))) None)
      | SErr e => Ok (set_toolCallTask_err (set_toolCallTask_sOutput (gtask_of tl t) None) (Some e))
      | SPanic => Panic
      end.
    Proof.
      intros ctx t Hwf. unfold Gen.ToolNode.runToolCallTaskByStream.
      destruct t as [k c|h c].
      - destruct (wf_lookup k c Hwf) as [j [n [ti [Ej [Hj Hl]]]]].
        cbn [gtask_of toolCallTask_r toolCallTask_arg toolCallTask_callID]. rewrite Ej, Hj. cbn [fst snd].
        unfold exec_stream, inv, str, ts. cbn [ts_inv ts_str toolset_of_conv]. rewrite Hl.
        destruct k; unfold RP_tool, inv_fn, str_fn; cbn [m_RP_Stream].
        + destruct (ti_inv ti opts (c_args c)); reflexivity.
        + destruct (ti_str ti opts (c_args c)); reflexivity.
        + destruct (ti_str ti opts (c_args c)); reflexivity.
      - cbn [gtask_of toolCallTask_r toolCallTask_arg toolCallTask_callID exec_stream]. unfold RP_fn. cbn [m_RP_Stream].
        destruct (h (c_name c) (c_args c)); reflexivity.
    Qed.

    Lemma gtask_callID : forall t, toolCallTask_callID (gtask_of tl t) = c_id (task_call t).
    Proof. destruct t; reflexivity. Qed.

    (* ---- the assembly loop of Invoke, on the cells after the parallel run ---- *)
    Definition invoke_body (tasks : list (toolCallTask META RPm)) :=
      (fun (i : Z) (output : list (option tmsg)) =>
         do x2 <- sl_get tasks i;
         if negb (is_nil (toolCallTask_err x2)) then
           do x3 <- sl_get tasks i; ret_err (toolCallTask_err x3)
         else
           do x4 <- sl_get tasks i;
           do x5 <- sl_get tasks i;
           do output <- sl_set output i (Gen.ToolNode.ToolMessage (toolCallTask_output x4) (toolCallTask_callID x5));
           Ok output).

    Fixpoint scan_cells (ts : list (toolCallTask META RPm)) : res (list (option tmsg)) :=
      match ts with
      | [] => Ok []
      | t :: r =>
          match toolCallTask_err t with
          | Some e => Err e
          | None => do rest <- scan_cells r; Ok (Some (toolCallTask_output t, toolCallTask_callID t) :: rest)
          end
      end.

    Lemma invoke_loop : forall (rest tdone : list (toolCallTask META RPm)) (done : list (option tmsg)),
      List.length done = List.length tdone ->
      for_up_n (List.length rest) (Z.of_nat (List.length done)) (invoke_body (tdone ++ rest))
               (done ++ repeat None (List.length rest))
      = res_map (fun ms => done ++ ms) (scan_cells rest).
    Proof.
      induction rest as [|t rest IH]; intros tdone done Hl.
      - simpl. rewrite !app_nil_r. reflexivity.
      - cbn [List.length repeat for_up_n]. unfold invoke_body at 1.
        rewrite Hl, !sl_get_at. cbn [res_bind scan_cells].
        destruct (toolCallTask_err t) as [e|]; cbn [is_nil negb ret_err]; [reflexivity|].
        rewrite <- Hl. rewrite sl_set_at. cbn [res_bind].
        match goal with |- for_up_n _ _ _ (done ++ ?x :: ?tail) = _ =>
          replace (done ++ x :: tail) with ((done ++ [x]) ++ tail) by (rewrite <- app_assoc; reflexivity);
          replace (Z.of_nat (List.length done) + 1)%Z with (Z.of_nat (List.length (done ++ [x]))) by (symmetry; apply zn_snoc)
        end.
        replace (tdone ++ t :: rest) with ((tdone ++ [t]) ++ rest) by (rewrite <- app_assoc; reflexivity).
        rewrite IH by (apply len_snoc; assumption).
        destruct (scan_cells rest); cbn [res_map res_bind]; try reflexivity.
        rewrite <- app_assoc. reflexivity.
    Qed.

    Lemma recovered_invoke : forall ctx t, wf_task t ->
      recovered g_runInvoke ctx opts (gtask_of tl t) =
      match exec_invoke inv str t with
      | TOk o => set_toolCallTask_err (set_toolCallTask_output (gtask_of tl t) o) None
      | TErr e => set_toolCallTask_err (set_toolCallTask_output (gtask_of tl t) "") (Some e)
      | TPanic => set_toolCallTask_err (gtask_of tl t) (Some E_PANIC)
      end.
    Proof.
      intros ctx t Hwf. unfold recovered. rewrite run_invoke_cell by assumption.
      destruct (exec_invoke inv str t); reflexivity.
    Qed.

    (* the cells of the goroutine tasks, scanned = the model's scan from index >= 1 *)
    Lemma scan_recovered : forall ctx rest i, Forall wf_task rest ->
      scan_cells (map (recovered g_runInvoke ctx opts) (map (gtask_of tl) rest))
      = res_map (map Some) (scan_invoke inv str (S i) rest).
    Proof.
      intros ctx rest. induction rest as [|t rest IH]; intros i Hwf; [reflexivity|].
      inversion Hwf; subst. cbn [map scan_cells scan_invoke].
      rewrite recovered_invoke by assumption.
      destruct (exec_invoke inv str t); cbn [recover_t toolCallTask_err set_toolCallTask_err]; try reflexivity.
      rewrite (IH (S i)) by assumption.
      unfold set_toolCallTask_err, set_toolCallTask_output. cbn [toolCallTask_output toolCallTask_callID].
      rewrite gtask_callID.
      destruct (scan_invoke inv str (S (S i)) rest); reflexivity.
    Qed.

    Lemma parallel_scan_invoke : forall ctx tasks, Forall wf_task tasks -> tasks <> [] ->
      (do ts' <- m_parallel ctx g_runInvoke (map (gtask_of tl) tasks) opts; scan_cells ts')
      = res_map (map Some) (scan_invoke inv str 0 tasks).
    Proof.
      intros ctx tasks Hwf Hne. destruct tasks as [|t0 rest]; [congruence|].
      inversion Hwf; subst. cbn [map m_parallel scan_invoke].
      rewrite run_invoke_cell by assumption.
      destruct (exec_invoke inv str t0); cbn [recover_t res_bind scan_cells toolCallTask_err set_toolCallTask_err]; try reflexivity.
      rewrite (scan_recovered ctx rest 0) by assumption.
      unfold set_toolCallTask_err, set_toolCallTask_output. cbn [toolCallTask_output toolCallTask_callID]. rewrite gtask_callID.
      destruct (scan_invoke inv str 1 rest); reflexivity.
    Qed.

    Lemma m_parallel_length : forall ctx run tasks ts',
      m_parallel ctx run tasks opts = Ok ts' -> List.length ts' = List.length tasks.
    Proof.
      intros ctx run tasks ts' H. destruct tasks as [|t0 rest]; [discriminate|]. cbn [m_parallel] in H.
      destruct (run ctx t0 opts); inversion H; subst. simpl. rewrite map_length. reflexivity.
    Qed.

    (* ---- the assembly loop of Stream ---- *)
    Lemma recovered_stream : forall ctx t, wf_task t ->
      recovered g_runStream ctx opts (gtask_of tl t) =
      match exec_stream inv str t with
      | SOk cs tail => set_toolCallTask_err (set_toolCallTask_sOutput (gtask_of tl t) (Some (cs, tail))) None
      | SErr e => set_toolCallTask_err (set_toolCallTask_sOutput (gtask_of tl t) None) (Some e)
      | SPanic => set_toolCallTask_err (gtask_of tl t) (Some E_PANIC)
      end.
    Proof.
      intros ctx t Hwf. unfold recovered. rewrite run_stream_cell by assumption.
      destruct (exec_stream inv str t); reflexivity.
    Qed.

    (* the converter of call i: a chunk becomes a list of n entries, all nil but the i-th *)
    Definition conv (n : Z) (i : Z) (callID : string) : string -> res (list (option tmsg)) :=
      fun s => do x5 <- sl_make None n; let ret := x5 in do ret <- sl_set ret i (Gen.ToolNode.ToolMessage s callID); Ok ret.

    Definition stream_body (n : Z) (tasks : list (toolCallTask META RPm)) :=
      (fun (i : Z) (sOutput : list (option (conv_stream (list (option tmsg))))) =>
         do x2 <- sl_get tasks i;
         if negb (is_nil (toolCallTask_err x2)) then
           do x3 <- sl_get tasks i; ret_err (toolCallTask_err x3)
         else
           let index := i in
           do x4 <- sl_get tasks i;
           let callID := toolCallTask_callID x4 in
           let convert := (fun s => do x5 <- sl_make None n; let ret := x5 in
                                    do ret <- sl_set ret index (Gen.ToolNode.ToolMessage s callID); Ok ret) in
           do x6 <- sl_get tasks i;
           do sOutput <- sl_set sOutput i (StreamReaderWithConvert (toolCallTask_sOutput x6) convert);
           Ok sOutput).

    Fixpoint scan_cells_s (n : Z) (i : nat) (ts : list (toolCallTask META RPm))
      : res (list (option (conv_stream (list (option tmsg))))) :=
      match ts with
      | [] => Ok []
      | t :: r =>
          match toolCallTask_err t with
          | Some e => Err e
          | None => do rest <- scan_cells_s n (S i) r;
                    Ok (StreamReaderWithConvert (toolCallTask_sOutput t) (conv n (Z.of_nat i) (toolCallTask_callID t)) :: rest)
          end
      end.

    Lemma stream_loop : forall n (rest tdone : list (toolCallTask META RPm)) (done : list (option (conv_stream (list (option tmsg))))),
      List.length done = List.length tdone ->
      for_up_n (List.length rest) (Z.of_nat (List.length done)) (stream_body n (tdone ++ rest))
               (done ++ repeat None (List.length rest))
      = res_map (fun ms => done ++ ms) (scan_cells_s n (List.length done) rest).
    Proof.
      intros n. induction rest as [|t rest IH]; intros tdone done Hl.
      - simpl. rewrite !app_nil_r. reflexivity.
      - cbn [List.length repeat for_up_n]. unfold stream_body at 1.
        rewrite Hl, !sl_get_at. cbn [res_bind scan_cells_s].
        destruct (toolCallTask_err t) as [e|]; cbn [is_nil negb ret_err]; [reflexivity|].
        rewrite <- Hl. rewrite sl_set_at. cbn [res_bind].
        match goal with |- for_up_n _ _ _ (done ++ ?x :: ?tail) = _ =>
          replace (done ++ x :: tail) with ((done ++ [x]) ++ tail) by (rewrite <- app_assoc; reflexivity);
          replace (Z.of_nat (List.length done) + 1)%Z with (Z.of_nat (List.length (done ++ [x]))) by (symmetry; apply zn_snoc)
        end.
        replace (tdone ++ t :: rest) with ((tdone ++ [t]) ++ rest) by (rewrite <- app_assoc; reflexivity).
        rewrite IH by (apply len_snoc; assumption).
        rewrite app_length. cbn [List.length]. rewrite Nat.add_1_r.
        destruct (scan_cells_s n (S (List.length done)) rest); cbn [res_map res_bind]; try reflexivity.
        rewrite <- app_assoc. reflexivity.
    Qed.

    (* the opened tool streams of the model as the sources handed to MergeStreamReaders *)
    Fixpoint sources_of (n : Z) (i : nat) (ss : list tstream) : list (option (conv_stream (list (option tmsg)))) :=
      match ss with
      | [] => []
      | st :: r => StreamReaderWithConvert (Some (snd (fst st), snd st)) (conv n (Z.of_nat i) (fst (fst st))) :: sources_of n (S i) r
      end.

    Lemma scan_recovered_s : forall n ctx rest i, Forall wf_task rest ->
      scan_cells_s n (S i) (map (recovered g_runStream ctx opts) (map (gtask_of tl) rest))
      = res_map (sources_of n (S i)) (scan_stream inv str (S i) rest).
    Proof.
      intros n ctx rest. induction rest as [|t rest IH]; intros i Hwf; [reflexivity|].
      inversion Hwf; subst. cbn [map scan_cells_s scan_stream].
      rewrite recovered_stream by assumption.
      destruct (exec_stream inv str t); cbn [recover_s toolCallTask_err set_toolCallTask_err]; try reflexivity.
      rewrite (IH (S i)) by assumption.
      unfold set_toolCallTask_err, set_toolCallTask_sOutput. cbn [toolCallTask_sOutput toolCallTask_callID].
      rewrite gtask_callID.
      destruct (scan_stream inv str (S (S i)) rest); reflexivity.
    Qed.

    Lemma parallel_scan_stream : forall n ctx tasks, Forall wf_task tasks -> tasks <> [] ->
      (do ts' <- m_parallel ctx g_runStream (map (gtask_of tl) tasks) opts; scan_cells_s n 0 ts')
      = res_map (sources_of n 0) (scan_stream inv str 0 tasks).
    Proof.
      intros n ctx tasks Hwf Hne. destruct tasks as [|t0 rest]; [congruence|].
      inversion Hwf; subst. cbn [map m_parallel scan_stream].
      rewrite run_stream_cell by assumption.
      destruct (exec_stream inv str t0); cbn [recover_s res_bind scan_cells_s toolCallTask_err set_toolCallTask_err]; try reflexivity.
      rewrite (scan_recovered_s n ctx rest 0) by assumption.
      unfold set_toolCallTask_err, set_toolCallTask_sOutput. cbn [toolCallTask_sOutput toolCallTask_callID]. rewrite gtask_callID.
      destruct (scan_stream inv str 1 rest); reflexivity.
    Qed.

    Lemma gen_tasks_length : forall role_ok calls tasks,
      gen_tasks kind_of handler role_ok calls = Ok tasks -> List.length tasks = List.length calls.
    Proof.
      unfold gen_tasks. intros role_ok calls tasks H.
      destruct (negb role_ok); [discriminate|]. destruct calls as [|c calls]; [discriminate|].
      apply mapM_forall2 in H. symmetry. eapply Forall2_length; eauto.
    Qed.
  End Run.


  (* ---- convTools / NewToolNode ---- *)
  Notation g_convTools := (Gen.ToolNode.convTools BT TOPT META RPm m_newRunnablePacker m_BT_Info m_assert_StreamableTool
                             m_assert_InvokableTool m_BT_StreamableRun m_BT_InvokableRun m_parseExecutorInfo m_callbackEnabled).
  Notation g_NewToolNode := (Gen.ToolNode.NewToolNode BT TOPT META RPm m_newRunnablePacker m_BT_Info m_assert_StreamableTool
                               m_assert_InvokableTool m_BT_StreamableRun m_BT_InvokableRun m_parseExecutorInfo m_callbackEnabled).

  Definition rp_of (x : string * (tkind * toolimpl O)) : option RPm := Some (RP_tool (fst (snd x)) (snd (snd x))).

  (* the loop of convTools, whatever its body looks like: the state after the tools [done] have been taken
     ([k] cells still to fill), and what one iteration does with the tool it looks at.  Only the effect of one
     iteration matters (conv_loop), so the order of independent statements in the body, the names of its
     locals, which arm of an if comes first ... are immaterial to the agreement *)
  Definition conv_state (done : list (string * (tkind * toolimpl O))) (k : nat) : toolsTuple META RPm :=
    mk_toolsTuple (idx_list 0 done)
                  (map (fun _ => Some tt) done ++ repeat None k)
                  (map rp_of done ++ repeat None k).

  Definition conv_step (d : BT) : res (string * (tkind * toolimpl O)) :=
    if negb (td_info_ok d) then Err E_TOOLINFO
    else match td_kind d with
         | None => Err E_NOTRUNNABLE
         | Some k => Ok (td_name d, (k, td_impl d))
         end.

  Lemma conv_loop : forall (body : Z -> toolsTuple META RPm -> res (toolsTuple META RPm)) (l : list BT),
    (forall pre d post done, l = pre ++ d :: post -> List.length done = List.length pre ->
       body (Z.of_nat (List.length pre)) (conv_state done (S (List.length post)))
       = do x <- conv_step d; Ok (conv_state (done ++ [x]) (List.length post))) ->
    forall rest pre done, l = pre ++ rest -> List.length done = List.length pre ->
    for_up_n (List.length rest) (Z.of_nat (List.length pre)) body (conv_state done (List.length rest))
    = res_map (fun tl' => tuple_of (done ++ tl')) (conv_tools rest).
  Proof.
    intros body l Hbody. induction rest as [|d rest IH]; intros pre done El Hl.
    - unfold conv_state, tuple_of. simpl. rewrite !app_nil_r. reflexivity.
    - cbn [List.length for_up_n conv_tools]. rewrite (Hbody pre d rest done El Hl).
      unfold conv_step. destruct (td_info_ok d); cbn [negb res_bind res_map]; [|reflexivity].
      destruct (td_kind d) as [k|]; cbn [res_bind res_map]; [|reflexivity].
      replace (Z.of_nat (List.length pre) + 1)%Z with (Z.of_nat (List.length (pre ++ [d]))) by (symmetry; apply zn_snoc).
      rewrite (IH (pre ++ [d]) (done ++ [(td_name d, (k, td_impl d))])).
      + destruct (conv_tools rest) as [tl'|e|]; cbn [res_map res_bind]; try reflexivity.
        rewrite <- app_assoc. reflexivity.
      + rewrite <- app_assoc. exact El.
      + apply len_snoc. exact Hl.
  Qed.

  Lemma sl_set_at_len : forall A (pre : list A) x y post n, n = List.length pre ->
    sl_set (pre ++ x :: post) (Z.of_nat n) y = Ok (pre ++ y :: post).
  Proof. intros; subst; apply sl_set_at. Qed.

  Theorem gen_convTools_agrees : forall ctx (l : list BT),
    g_convTools ctx l = res_map tuple_of (conv_tools l).
  Proof.
    intros ctx l. unfold Gen.ToolNode.convTools. unfold sl_len. rewrite !sl_make_len. cbn [res_bind].
    rewrite for_up_len.
    cbn [set_toolsTuple_indexes set_toolsTuple_meta set_toolsTuple_rps toolsTuple_indexes toolsTuple_meta toolsTuple_rps zero_toolsTuple].
    unfold map_empty.
    match goal with |- res_bind (for_up_n ?n ?z ?B ?init) _ = _ =>
      assert (L : for_up_n n z B init = res_map (fun tl' => tuple_of ([] ++ tl')) (conv_tools l))
    end.
    { eapply conv_loop with (l := l) (rest := l) (pre := []) (done := []); [|reflexivity|reflexivity].
      (* one iteration, on the tool d at index |pre| *)
      intros pre d post done El Hl. subst l. cbv beta.
      rewrite sl_get_at. cbn [res_bind]. unfold m_BT_Info, conv_step.
      destruct (td_info_ok d); cbn [negb res_bind]; [|reflexivity].
      cbn [ToolInfo_Name]. unfold m_assert_StreamableTool, m_assert_InvokableTool, conv_state.
      destruct (td_kind d) as [[| |]|];
        cbn [is_nil negb andb orb res_bind m_BT_StreamableRun m_BT_InvokableRun option_map repeat
             set_toolsTuple_indexes set_toolsTuple_meta set_toolsTuple_rps toolsTuple_indexes toolsTuple_meta toolsTuple_rps];
        try reflexivity;
        repeat (rewrite sl_set_at_len by (rewrite map_length; symmetry; exact Hl);
                cbn [res_bind set_toolsTuple_indexes set_toolsTuple_meta set_toolsTuple_rps toolsTuple_indexes toolsTuple_meta toolsTuple_rps]);
        unfold map_set, m_newRunnablePacker, m_callbackEnabled, m_parseExecutorInfo; cbn [negb];
        rewrite !map_app, idx_list_snoc, <- !app_assoc; cbn [map app rp_of fst snd Nat.add RP_tool]; rewrite Hl; reflexivity. }
    rewrite L. cbn [app]. destruct (conv_tools l); reflexivity.
  Qed.

  (* NewToolNode: the node of the converted list, or the error of the first tool convTools cannot take *)
  Lemma gen_NewToolNode_agrees : forall ctx (cfg : list BT) handler,
    g_NewToolNode ctx (mk_ToolsNodeConfig cfg (lift_handler handler)) = res_map (fun tl => node_of tl handler) (conv_tools cfg).
  Proof.
    intros ctx cfg handler. unfold Gen.ToolNode.NewToolNode. cbn [ToolsNodeConfig_Tools ToolsNodeConfig_UnknownToolsHandler].
    rewrite gen_convTools_agrees. destruct (conv_tools cfg); reflexivity.
  Qed.

  (* ---- ToolsNode.Invoke ---- *)
  Notation g_Invoke := (Gen.ToolNode.Invoke BT TOPT META RPm tt m_newRunnablePacker m_BT_Info m_assert_StreamableTool
                          m_assert_InvokableTool m_BT_StreamableRun m_BT_InvokableRun m_parseExecutorInfo m_callbackEnabled m_RP_Invoke m_parallel).

  Lemma invoke_tail : forall tl tl0 handler opts pi role calls ctx,
    covers pi (List.length calls) ->
    (do tasks <- g_genToolCallTasks (node_of tl0 handler) (tuple_of tl) (msg_of role calls);
     do tasks <- m_parallel ctx g_runInvoke tasks opts;
     let n := sl_len tasks in
     do x1 <- sl_make None n;
     let output := x1 in
     do output <- for_up 0%Z n (invoke_body tasks) output;
     Ok output)
    = res_map (map Some)
        (tools_invoke (ts_kind (toolset_of_conv tl)) (ts_inv (toolset_of_conv tl) opts) (ts_str (toolset_of_conv tl) opts)
                      handler pi (String.eqb role schema_Assistant) calls).
  Proof.
    intros tl tl0 handler opts pi role calls ctx Hc.
    rewrite gen_genToolCallTasks_agrees. rewrite tools_invoke_any_order by assumption.
    destruct (gen_tasks (ts_kind (toolset_of_conv tl)) handler (String.eqb role schema_Assistant) calls) as [tasks|e|] eqn:Eg;
      cbn [res_map res_bind]; try reflexivity.
    destruct (gen_tasks_wf tl handler _ _ _ Eg) as [Hwf Hne].
    rewrite <- (parallel_scan_invoke tl opts ctx tasks Hwf Hne).
    destruct (m_parallel ctx g_runInvoke (map (gtask_of tl) tasks) opts) as [ts'|e|] eqn:Ep; cbn [res_bind]; try reflexivity.
    unfold sl_len. rewrite sl_make_len. cbn [res_bind]. rewrite for_up_len.
    pose proof (invoke_loop ts' [] [] eq_refl) as L. cbn [app List.length] in L. change (Z.of_nat 0) with 0%Z in L.
    rewrite L. destruct (scan_cells ts'); reflexivity.
  Qed.

  (* NewToolNode(cfg) succeeded with the converted list cfg_tl; then Invoke with the option list nopts *)
  Lemma gen_node_invoke_agrees : forall handler (cfg : list BT) cfg_tl (nopts : list (nodeopt P BT)) pi role calls ctx,
    conv_tools cfg = Ok cfg_tl ->
    covers pi (List.length calls) ->
    g_Invoke (node_of cfg_tl handler) ctx (msg_of role calls) (map (gen_opt P BT) nopts)
    = res_map (map Some) (call_invoke handler cfg nopts pi (String.eqb role schema_Assistant) calls).
  Proof.
    intros handler cfg cfg_tl nopts pi role calls ctx Hcfg Hc.
    unfold Gen.ToolNode.Invoke. rewrite gen_node_options_agree.
    cbn [toolsNodeOptions_ToolList toolsNodeOptions_ToolOptions].
    unfold call_invoke, node_invoke. rewrite Hcfg. cbn [res_bind].
    destruct (fst (get_node_opts nopts)) as [l|] eqn:El; cbn [is_nil negb conv_call_list].
    - cbn [slice_of]. rewrite gen_convTools_agrees. destruct (conv_tools l) as [tl'|e|] eqn:Ec; cbn [res_map res_bind]; try reflexivity.
      unfold tools_invoke_with. cbn [eff_tools co_list co_opts node_of ToolsNode_tuple].
      apply (invoke_tail tl' cfg_tl handler (snd (get_node_opts nopts)) pi role calls ctx Hc).
    - unfold tools_invoke_with. cbn [eff_tools co_list co_opts node_of ToolsNode_tuple res_bind].
      apply (invoke_tail cfg_tl cfg_tl handler (snd (get_node_opts nopts)) pi role calls ctx Hc).
  Qed.

  (* ---- ToolsNode.Stream ---- *)
  Notation g_Stream := (Gen.ToolNode.Stream BT TOPT META RPm tt m_newRunnablePacker m_BT_Info m_assert_StreamableTool
                          m_assert_InvokableTool m_BT_StreamableRun m_BT_InvokableRun m_parseExecutorInfo m_callbackEnabled m_RP_Stream m_parallel).

  Lemma stream_tail : forall tl tl0 handler opts pi role calls ctx,
    covers pi (List.length calls) ->
    (do tasks <- g_genToolCallTasks (node_of tl0 handler) (tuple_of tl) (msg_of role calls);
     do tasks <- m_parallel ctx g_runStream tasks opts;
     let n := sl_len tasks in
     do x1 <- sl_make None n;
     let sOutput := x1 in
     do sOutput <- for_up 0%Z n (stream_body n tasks) sOutput;
     Ok (MergeStreamReaders sOutput))
    = res_map (sources_of (Z.of_nat (List.length calls)) 0)
        (tools_stream_open (ts_kind (toolset_of_conv tl)) (ts_inv (toolset_of_conv tl) opts) (ts_str (toolset_of_conv tl) opts)
                           handler pi (String.eqb role schema_Assistant) calls).
  Proof.
    intros tl tl0 handler opts pi role calls ctx Hc.
    rewrite gen_genToolCallTasks_agrees. rewrite tools_stream_any_order by assumption.
    destruct (gen_tasks (ts_kind (toolset_of_conv tl)) handler (String.eqb role schema_Assistant) calls) as [tasks|e|] eqn:Eg;
      cbn [res_map res_bind]; try reflexivity.
    destruct (gen_tasks_wf tl handler _ _ _ Eg) as [Hwf Hne].
    pose proof (gen_tasks_length tl handler _ _ _ Eg) as Hlen.
    rewrite <- (parallel_scan_stream tl opts (Z.of_nat (List.length calls)) ctx tasks Hwf Hne).
    destruct (m_parallel ctx g_runStream (map (gtask_of tl) tasks) opts) as [ts'|e|] eqn:Ep; cbn [res_bind]; try reflexivity.
    pose proof (m_parallel_length opts _ _ _ _ Ep) as Hl'. rewrite map_length in Hl'.
    unfold sl_len. rewrite sl_make_len. cbn [res_bind]. rewrite for_up_len.
    pose proof (stream_loop (Z.of_nat (List.length ts')) ts' [] [] eq_refl) as L. cbn [app List.length] in L. change (Z.of_nat 0) with 0%Z in L.
    rewrite L. rewrite Hl', Hlen. unfold MergeStreamReaders.
    destruct (scan_cells_s (Z.of_nat (List.length calls)) 0 ts'); reflexivity.
  Qed.

  Lemma gen_node_stream_agrees : forall handler (cfg : list BT) cfg_tl (nopts : list (nodeopt P BT)) pi role calls ctx,
    conv_tools cfg = Ok cfg_tl ->
    covers pi (List.length calls) ->
    g_Stream (node_of cfg_tl handler) ctx (msg_of role calls) (map (gen_opt P BT) nopts)
    = res_map (sources_of (Z.of_nat (List.length calls)) 0)
        (call_stream_open handler cfg nopts pi (String.eqb role schema_Assistant) calls).
  Proof.
    intros handler cfg cfg_tl nopts pi role calls ctx Hcfg Hc.
    unfold Gen.ToolNode.Stream. rewrite gen_node_options_agree.
    cbn [toolsNodeOptions_ToolList toolsNodeOptions_ToolOptions].
    unfold call_stream_open, node_stream_open. rewrite Hcfg. cbn [res_bind].
    destruct (fst (get_node_opts nopts)) as [l|] eqn:El; cbn [is_nil negb conv_call_list].
    - cbn [slice_of]. rewrite gen_convTools_agrees. destruct (conv_tools l) as [tl'|e|] eqn:Ec; cbn [res_map res_bind]; try reflexivity.
      unfold tools_stream_open_with. cbn [eff_tools co_list co_opts node_of ToolsNode_tuple].
      apply (stream_tail tl' cfg_tl handler (snd (get_node_opts nopts)) pi role calls ctx Hc).
    - unfold tools_stream_open_with. cbn [eff_tools co_list co_opts node_of ToolsNode_tuple res_bind].
      apply (stream_tail cfg_tl cfg_tl handler (snd (get_node_opts nopts)) pi role calls ctx Hc).
  Qed.

  (* end to end: NewToolNode on the configuration, then one Invoke / Stream with the call's option list — the generated
     code IS call_invoke / call_stream_open (what the correspondence evaluates and the tools_call_* theorems are about),
     for every tool list, handler, option list, message and completion order *)
  Theorem gen_invoke_agrees : forall handler (cfg : list BT) (nopts : list (nodeopt P BT)) pi role calls ctx ctx',
    covers pi (List.length calls) ->
    (do tn <- g_NewToolNode ctx (mk_ToolsNodeConfig cfg (lift_handler handler));
     g_Invoke tn ctx' (msg_of role calls) (map (gen_opt P BT) nopts))
    = res_map (map Some) (call_invoke handler cfg nopts pi (String.eqb role schema_Assistant) calls).
  Proof.
    intros handler cfg nopts pi role calls ctx ctx' Hc. rewrite gen_NewToolNode_agrees.
    destruct (conv_tools cfg) as [cfg_tl|e|] eqn:Ecfg; cbn [res_map res_bind].
    - apply gen_node_invoke_agrees; assumption.
    - unfold call_invoke, node_invoke. rewrite Ecfg. reflexivity.
    - unfold call_invoke, node_invoke. rewrite Ecfg. reflexivity.
  Qed.

  Theorem gen_stream_agrees : forall handler (cfg : list BT) (nopts : list (nodeopt P BT)) pi role calls ctx ctx',
    covers pi (List.length calls) ->
    (do tn <- g_NewToolNode ctx (mk_ToolsNodeConfig cfg (lift_handler handler));
     g_Stream tn ctx' (msg_of role calls) (map (gen_opt P BT) nopts))
    = res_map (sources_of (Z.of_nat (List.length calls)) 0)
        (call_stream_open handler cfg nopts pi (String.eqb role schema_Assistant) calls).
  Proof.
    intros handler cfg nopts pi role calls ctx ctx' Hc. rewrite gen_NewToolNode_agrees.
    destruct (conv_tools cfg) as [cfg_tl|e|] eqn:Ecfg; cbn [res_map res_bind].
    - apply gen_node_stream_agrees; assumption.
    - unfold call_stream_open, node_stream_open. rewrite Ecfg. reflexivity.
    - unfold call_stream_open, node_stream_open. rewrite Ecfg. reflexivity.
  Qed.

  (* what a source delivers: every chunk s of call i's tool as the list of n entries with only entry i set,
     to the tool message (s, call id) *)
  Theorem gen_sparse_chunk : forall (n i : nat) callID s, i < n ->
    conv (Z.of_nat n) (Z.of_nat i) callID s = Ok (set_nth i (Some (s, callID)) (repeat None n)).
  Proof.
    intros n i callID s Hi. unfold conv. rewrite sl_make_len. cbn [res_bind].
    unfold sl_set. rewrite zn_not_neg.
    rewrite Nat2Z.id, repeat_length. replace (Nat.ltb i n) with true by (symmetry; apply Nat.ltb_lt; exact Hi).
    reflexivity.
  Qed.
End Agree.

(* ---- the tables ---------------------------------------------------------------------------------- *)
(* schema.ToolMessage(content, id) is the non-nil tool message (content, id) *)
Theorem gen_tool_message_agrees : forall content id, Gen.ToolNode.ToolMessage content id = Some (content, id).
Proof. reflexivity. Qed.

(* parallelRunToolCall: a single task runs inline; otherwise tasks 1 .. N-1 get a goroutine each (handed its own
   cell, wg.Add before go), task 0 runs on the caller's goroutine, then wg.Wait; a goroutine runs the tool, then the
   recover handler, then wg.Done: the program and the shape Model/ToolsPar.v's protocol is written for; every run of a
   task (the single one, a goroutine's, the inline one) is handed the call's tool options *)
Theorem gen_parallel_shape_agrees :
  Gen.ToolNode.par_goroutine_prog = prog_ok
  /\ Gen.ToolNode.par_single_len = 1%Z /\ Gen.ToolNode.par_single_index = 0%Z
  /\ Gen.ToolNode.par_spawn_from = 1%Z /\ (forall i, Gen.ToolNode.par_spawn_cell i = i)
  /\ Gen.ToolNode.par_inline_index = 0%Z
  /\ Gen.ToolNode.par_options_handed_on = true.
Proof. repeat split; reflexivity. Qed.

(* ---- parallelRunToolCall: the protocol of Model/ToolsPar.v run on the generated task functions ------------- *)
Section ParLink.
  Variable P : Type.
  Notation O := (list (topt P)).
  Notation gtask := (toolCallTask unit (RPm P)).
  Variable tl : list (string * (tkind * toolimpl O)).
  Variable opts : O.
  Variable ctx : CTX.
  Notation g := (gtask_of P tl).

  (* generic in what a task's execution yields besides the error (Invoke: the output string; Stream: the stream) *)
  Section Generic.
    Variable C : Type.
    Variable c0 : C.                                         (* what the cell holds before the task has run *)
    Variable rp : option (RPm P) -> CTX -> string -> O -> res (C * option N).
    Variable proj : gtask -> C.
    Variable store : gtask -> C -> gtask.
    Variable run : CTX -> gtask -> O -> res gtask.

    Definition cell : Type := (C * option N)%type.
    (* what the execution of task t computes before it is stored in the task's cell: the two results of
       task.r.Invoke / task.r.Stream (ctx carrying the call id, task.arg, opts...) *)
    Definition cell_exec (_ : nat) (t : task) : res cell :=
      rp (toolCallTask_r (g t)) (Some (toolCallTask_callID (g t))) (toolCallTask_arg (g t)) opts.
    Definition cell_panics (r : res cell) : bool := match r with Panic => true | _ => false end.
    (* what the recover handler leaves in the cell: nothing but the panic error *)
    Definition cell_perr : res cell := Ok (c0, Some E_PANIC).
    Definition cell_of (t : gtask) : cell := (proj t, toolCallTask_err t).

    Hypothesis run_is_cell : forall t,
      run ctx (g t) opts =
      match cell_exec 0 t with
      | Ok (o, e) => Ok (set_toolCallTask_err (store (g t) o) e)
      | Err e => Err e
      | Panic => Panic
      end.
    Hypothesis rp_total : forall r c a o e, rp r c a o <> Err e.
    Hypothesis proj_store : forall t o e, proj (set_toolCallTask_err (store t o) e) = o.
    Hypothesis proj_err : forall t e, proj (set_toolCallTask_err (g t) e) = c0.

    Fixpoint seen_cells (seen : list (option (res cell))) : res (list cell) :=
      match seen with
      | [] => Ok []
      | Some (Ok c) :: r => do cs <- seen_cells r; Ok (c :: cs)
      | Some (Err e) :: _ => Err e
      | _ :: _ => Panic
      end.

    Lemma recovered_is_cell : forall t,
      recovered P run ctx opts (g t) =
      match cell_exec 0 t with
      | Ok (o, e) => set_toolCallTask_err (store (g t) o) e
      | Err e => set_toolCallTask_err (g t) (Some e)
      | Panic => set_toolCallTask_err (g t) (Some E_PANIC)
      end.
    Proof.
      intros t. unfold recovered. rewrite (run_is_cell t).
      destruct (cell_exec 0 t) as [[o e]|e|]; reflexivity.
    Qed.

    Lemma recovered_cells : forall rest i,
      seen_cells (map (fun p : nat * task => Some (rec_at (res cell) cell_panics cell_perr (fst p) (cell_exec (fst p) (snd p))))
                      (combine (seq (S i) (List.length rest)) rest))
      = Ok (map cell_of (map (recovered P run ctx opts) (map g rest))).
    Proof.
      induction rest as [|t rest IH]; intros i; [reflexivity|].
      cbn [List.length seq combine map fst snd].
      change (seen_cells (?x :: ?r)) with (match x with Some (Ok c) => do cs <- seen_cells r; Ok (c :: cs) | Some (Err e) => Err e | _ => Panic end).
      rewrite (IH (S i)).
      rewrite (recovered_is_cell t). cbn [rec_at]. unfold rec.
      change (cell_exec (S i) t) with (cell_exec 0 t).
      destruct (cell_exec 0 t) as [[o e]|e|] eqn:E; cbn [cell_panics].
      - cbn [res_bind]. unfold cell_of. rewrite proj_store. reflexivity.
      - exfalso. unfold cell_exec in E. eapply rp_total; exact E.
      - unfold cell_perr. cbn [res_bind]. unfold cell_of. rewrite proj_err. reflexivity.
    Qed.

    Lemma parallel_is_protocol : forall tasks sch st,
      tasks <> [] ->
      prun cell_exec cell_panics cell_perr Gen.ToolNode.par_goroutine_prog tasks sch (pinit tasks) = Some st ->
      p_crash st = false
      /\ match p_main st with
         | MEnd => exists seen, p_seen st = Some seen
                   /\ res_map (map cell_of) (m_parallel P ctx run (map g tasks) opts) = seen_cells seen
         | MPanic => m_parallel P ctx run (map g tasks) opts = Panic
         | _ => True
         end.
    Proof.
      intros tasks sch st Hne Hrun.
      change Gen.ToolNode.par_goroutine_prog with prog_ok in Hrun.
      destruct (par_safe _ _ _ _ tasks sch st Hne Hrun) as [Hc Hm]. split; [exact Hc|].
      destruct (p_main st); auto.
      - exists (map (fun p : nat * task => Some (rec_at (res cell) cell_panics cell_perr (fst p) (cell_exec (fst p) (snd p))))
                    (combine (seq 0 (List.length tasks)) tasks)).
        split; [exact Hm|].
        destruct tasks as [|t0 rest]; [congruence|].
        cbn [map m_parallel List.length seq combine fst snd rec_at].
        change (seen_cells (?x :: ?r)) with (match x with Some (Ok c) => do cs <- seen_cells r; Ok (c :: cs) | Some (Err e) => Err e | _ => Panic end).
        rewrite recovered_cells. rewrite (run_is_cell t0).
        destruct (cell_exec 0 t0) as [[o e]|e|] eqn:E; cbn [res_bind res_map].
        + cbn [map]. unfold cell_of at 1. rewrite proj_store. reflexivity.
        + exfalso. unfold cell_exec in E. eapply rp_total; exact E.
        + reflexivity.
      - destruct Hm as [t0 [ts [E Hp]]]. subst tasks. cbn [map m_parallel].
        rewrite (run_is_cell t0). destruct (cell_exec 0 t0) as [[o e]|e|]; try discriminate. reflexivity.
    Qed.
  End Generic.

  Notation g_runInvoke := (Gen.ToolNode.runToolCallTaskByInvoke (topt P) unit (RPm P) (m_RP_Invoke P)).
  Notation g_runStream := (Gen.ToolNode.runToolCallTaskByStream (topt P) unit (RPm P) (m_RP_Stream P)).

  Lemma cell_t_total : forall r e, cell_t r <> Err e.
  Proof. destruct r; discriminate. Qed.
  Lemma cell_s_total : forall r e, cell_s r <> Err e.
  Proof. destruct r; discriminate. Qed.

  (* the protocol, run on what the generated runToolCallTaskByInvoke / ByStream compute, with the goroutine program
     read from the source: whatever the schedule, once the caller is through, the cells the scan reads are those of
     the tasks m_parallel returns — the semantics Gen.Invoke / Gen.Stream are instantiated with in gen_invoke_agrees /
     gen_stream_agrees; if the inline task panicked m_parallel panics; no goroutine ends while panicking *)
  Theorem gen_parallel_invoke_is_protocol : forall tasks sch st,
    tasks <> [] ->
    prun (cell_exec string (m_RP_Invoke P)) (cell_panics string) (cell_perr string "") Gen.ToolNode.par_goroutine_prog tasks sch (pinit tasks) = Some st ->
    p_crash st = false
    /\ match p_main st with
       | MEnd => exists seen, p_seen st = Some seen
                 /\ res_map (map (cell_of string (@toolCallTask_output _ _))) (m_parallel P ctx g_runInvoke (map g tasks) opts) = seen_cells string seen
       | MPanic => m_parallel P ctx g_runInvoke (map g tasks) opts = Panic
       | _ => True
       end.
  Proof.
    apply (parallel_is_protocol string "" (m_RP_Invoke P) (@toolCallTask_output _ _) (@set_toolCallTask_output _ _) g_runInvoke).
    - intros t. unfold Gen.ToolNode.runToolCallTaskByInvoke, cell_exec.
      unfold callbacks_ReuseHandlers, setToolCallInfo. cbn [toolCallInfo_toolCallID set_toolCallInfo_toolCallID].
      destruct (m_RP_Invoke P (toolCallTask_r (g t)) (Some (toolCallTask_callID (g t))) (toolCallTask_arg (g t)) opts) as [[o e]|e|]; reflexivity.
    - intros r c a o e. unfold m_RP_Invoke. destruct r as [[[i|] [s|]]|]; try discriminate; apply cell_t_total.
    - reflexivity.
    - intros t e. destruct t; reflexivity.
  Qed.

  Theorem gen_parallel_stream_is_protocol : forall tasks sch st,
    tasks <> [] ->
    prun (cell_exec (option SR) (m_RP_Stream P)) (cell_panics (option SR)) (cell_perr (option SR) None) Gen.ToolNode.par_goroutine_prog tasks sch (pinit tasks) = Some st ->
    p_crash st = false
    /\ match p_main st with
       | MEnd => exists seen, p_seen st = Some seen
                 /\ res_map (map (cell_of (option SR) (@toolCallTask_sOutput _ _))) (m_parallel P ctx g_runStream (map g tasks) opts) = seen_cells (option SR) seen
       | MPanic => m_parallel P ctx g_runStream (map g tasks) opts = Panic
       | _ => True
       end.
  Proof.
    apply (parallel_is_protocol (option SR) None (m_RP_Stream P) (@toolCallTask_sOutput _ _) (@set_toolCallTask_sOutput _ _) g_runStream).
    - intros t. unfold Gen.ToolNode.runToolCallTaskByStream, cell_exec.
      unfold callbacks_ReuseHandlers, setToolCallInfo. cbn [toolCallInfo_toolCallID set_toolCallInfo_toolCallID].
      destruct (m_RP_Stream P (toolCallTask_r (g t)) (Some (toolCallTask_callID (g t))) (toolCallTask_arg (g t)) opts) as [[o e]|e|]; reflexivity.
    - intros r c a o e. unfold m_RP_Stream. destruct r as [[[i|] [s|]]|]; try discriminate; apply cell_s_total.
    - reflexivity.
    - intros t e. destruct t; reflexivity.
  Qed.
End ParLink.

(* non-vacuity: the generated functions compute — NewToolNode, then two calls (a streamable-only and an invokable tool,
   a tool option); the second call unknown without / with a handler; a goroutine task that panics; the inline task
   panicking; a tool NewToolNode cannot take *)
Example gen_invoke_nonvacuous :
  let impl := mkTI (fun (os : list (topt string)) a => if String.eqb a "boom" then TPanic else TOk (concat_strings (impl_specific 1%N os) ++ a)%string)
                   (fun (os : list (topt string)) a => SOk [a; "!"] None) in
  let cfg := [mkTD true "ta" (Some KInv) impl; mkTD true "tb" (Some KStr) impl] in
  let opts := map (gen_opt string (tooldecl (list (topt string)))) [ToolsOpts.WithToolOption [(1%N, "<o>")]] in
  let new cfg h := Gen.ToolNode.NewToolNode _ _ _ _ (m_newRunnablePacker string) (m_BT_Info string) (m_assert_StreamableTool string)
                     (m_assert_InvokableTool string) (m_BT_StreamableRun string) (m_BT_InvokableRun string) (m_parseExecutorInfo string)
                     m_callbackEnabled None (mk_ToolsNodeConfig cfg (lift_handler h)) in
  let invoke h calls :=
    do tn <- new cfg h;
    Gen.ToolNode.Invoke _ _ _ _ tt (m_newRunnablePacker string) (m_BT_Info string) (m_assert_StreamableTool string)
      (m_assert_InvokableTool string) (m_BT_StreamableRun string) (m_BT_InvokableRun string) (m_parseExecutorInfo string)
      m_callbackEnabled (m_RP_Invoke string) (m_parallel string) tn None (msg_of "assistant" calls) opts in
  let stream h calls :=
    do tn <- new cfg h;
    Gen.ToolNode.Stream _ _ _ _ tt (m_newRunnablePacker string) (m_BT_Info string) (m_assert_StreamableTool string)
      (m_assert_InvokableTool string) (m_BT_StreamableRun string) (m_BT_InvokableRun string) (m_parseExecutorInfo string)
      m_callbackEnabled (m_RP_Stream string) (m_parallel string) tn None (msg_of "assistant" calls) opts in
  invoke None [mkCall "c0" "tb" "x"; mkCall "c1" "ta" "y"] = Ok [Some ("x!", "c0"); Some ("<o>y", "c1")]
  /\ invoke None [mkCall "c0" "tb" "x"; mkCall "c1" "zz" "y"] = Err E_UNKNOWN
  /\ invoke (Some (fun n a => TOk ("unk:" ++ n)%string)) [mkCall "c0" "tb" "x"; mkCall "c1" "zz" "y"] = Ok [Some ("x!", "c0"); Some ("unk:zz", "c1")]
  /\ invoke None [mkCall "c0" "tb" "x"; mkCall "c1" "ta" "boom"] = Err E_PANIC
  /\ invoke None [mkCall "c0" "ta" "boom"; mkCall "c1" "ta" "y"] = Panic
  /\ stream None [mkCall "c0" "tb" "x"; mkCall "c1" "ta" "y"]
     = Ok [Some ([Ok [Some ("x", "c0"); None]; Ok [Some ("!", "c0"); None]], None); Some ([Ok [None; Some ("<o>y", "c1")]], None)]
  /\ (exists e, new [mkTD true "ta" (Some KInv) impl; mkTD true "tb" None impl] None = Err e)
  /\ (exists e, new [mkTD false "ta" (Some KInv) impl] None = Err e).
Proof. vm_compute. repeat split; try reflexivity; eexists; reflexivity. Qed.
