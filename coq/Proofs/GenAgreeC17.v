(* Proofs/GenAgreeC17.v — translator tie of property C17.  tools/go2v (extractor "toolnode") re-reads
   compose/tool_node.go on every run and translates it statement by statement into Gen/ToolNode.v
   (vocabulary: Model/ToolsGenLib.v).  Here the generated functions are proved equal, for ALL arguments,
   to the model the C17 theorems are about and the correspondence check evaluates:

     getToolsNodeOptions / WithToolOption / WithToolList  =  get_node_opts              (Model/ToolsOpts.v)
     genToolCallTasks / newUnknownToolTask                =  gen_tasks                  (Model/Tools.v)
     ToolsNode.Invoke  (options, tool set in force, tasks, run, assembly loop)  =  call_invoke
     ToolsNode.Stream  (... , sparse-list conversion, merge of the sources)     =  call_stream_open
     the goroutine program and the spawn / inline / wait shape of parallelRunToolCall  =  prog_ok and
       the shape Model/ToolsPar.v's protocol (pstep) is written for
     schema.ToolMessage  =  (content, call id)

   What is not translated enters as explicit parameters, instantiated below with the model's reading:
   a runnable packer is the tool convTools found at that index (kind, implementation) or a function
   (the unknown-tool handler's closure); running it = the invoke / stream derivations of Model/Tools.v;
   convTools = conv_tools + index (last tool of a name wins); parallelRunToolCall = every task run,
   a panic of a goroutine task stored as the panic error, a panic of the inline task escaping —
   which is what tools_par_invoke_refines / tools_par_stream_refines prove of the protocol for the
   goroutine program read from the source.
   A changed index, field, bound, order or test in the Go source makes a theorem here stop compiling. *)
From Coq Require Import Permutation.
From Eino Require Import Base.Util Model.Tools Model.ToolsOpts Model.ToolsPar Model.ToolsGenLib Proofs.Tools.
From Eino Require Gen.ToolNode.
Local Open Scope string_scope.
Local Open Scope list_scope.

(* ---- slices and counted loops ---------------------------------------------------------------- *)
Lemma sl_get_at : forall A (pre : list A) x post,
  sl_get (pre ++ x :: post) (Z.of_nat (List.length pre)) = Ok x.
Proof.
  intros. unfold sl_get. replace (Z.of_nat (List.length pre) <? 0)%Z with false by (symmetry; apply Z.ltb_ge; lia).
  rewrite Nat2Z.id. rewrite nth_error_app2 by lia. rewrite Nat.sub_diag. reflexivity.
Qed.

Lemma set_nth_at : forall A (pre : list A) x y post,
  set_nth (List.length pre) y (pre ++ x :: post) = pre ++ y :: post.
Proof. induction pre; intros; simpl; [reflexivity|]. rewrite IHpre. reflexivity. Qed.

Lemma sl_set_at : forall A (pre : list A) x y post,
  sl_set (pre ++ x :: post) (Z.of_nat (List.length pre)) y = Ok (pre ++ y :: post).
Proof.
  intros. unfold sl_set. replace (Z.of_nat (List.length pre) <? 0)%Z with false by (symmetry; apply Z.ltb_ge; lia).
  rewrite Nat2Z.id. replace (Nat.ltb (List.length pre) (List.length (pre ++ x :: post))) with true.
  - rewrite set_nth_at. reflexivity.
  - symmetry. apply Nat.ltb_lt. rewrite app_length. simpl. lia.
Qed.

Lemma sl_upd_at : forall A (pre : list A) x f post,
  sl_upd (pre ++ x :: post) (Z.of_nat (List.length pre)) f = Ok (pre ++ f x :: post).
Proof. intros. unfold sl_upd. rewrite sl_get_at. simpl. apply sl_set_at. Qed.

Lemma sl_get_nat : forall A (l : list A) j,
  sl_get l (Z.of_nat j) = match nth_error l j with Some a => Ok a | None => Panic end.
Proof.
  intros. unfold sl_get. replace (Z.of_nat j <? 0)%Z with false by (symmetry; apply Z.ltb_ge; lia).
  rewrite Nat2Z.id. reflexivity.
Qed.

Lemma sl_make_len : forall A (z : A) (l : nat), sl_make z (Z.of_nat l) = Ok (repeat z l).
Proof.
  intros. unfold sl_make. replace (Z.of_nat l <? 0)%Z with false by (symmetry; apply Z.ltb_ge; lia).
  rewrite Nat2Z.id. reflexivity.
Qed.

Lemma for_up_len : forall S n (body : Z -> S -> res S) st,
  for_up 0%Z (Z.of_nat n) body st = for_up_n n 0%Z body st.
Proof. intros. unfold for_up. rewrite Z.sub_0_r, Nat2Z.id. reflexivity. Qed.

(* ---- the option list --------------------------------------------------------------------------- *)
Section Options.
  Variables P D : Type.
  Notation TOPT := (topt P).

  (* a ToolsNodeOption of the model as the closure the generated WithToolOption / WithToolList return *)
  Definition gen_opt (o : nodeopt P D) : toolsNodeOptions D TOPT -> toolsNodeOptions D TOPT :=
    match o with
    | ToolsOpts.WithToolOption os => Gen.ToolNode.WithToolOption D TOPT os
    | ToolsOpts.WithToolList l => Gen.ToolNode.WithToolList D TOPT l
    end.

  Lemma fold_gen_opts : forall (l : list (nodeopt P D)) (st : toolsNodeOptions D TOPT),
    fold_left (fun o opt => opt o) (map gen_opt l) st =
    let r := fold_left apply_nodeopt l (toolsNodeOptions_ToolList st, toolsNodeOptions_ToolOptions st) in
    mk_toolsNodeOptions (snd r) (fst r).
  Proof.
    induction l as [|o l IH]; intros st; simpl.
    - destruct st; reflexivity.
    - rewrite IH. destruct o; reflexivity.
  Qed.

  (* getToolsNodeOptions on the closures = the model's fold of the option list *)
  Theorem gen_node_options_agree : forall l : list (nodeopt P D),
    Gen.ToolNode.getToolsNodeOptions D TOPT (map gen_opt l) =
    mk_toolsNodeOptions (snd (get_node_opts l)) (fst (get_node_opts l)).
  Proof.
    intros l. unfold Gen.ToolNode.getToolsNodeOptions, get_node_opts.
    exact (fold_gen_opts l _).
  Qed.
End Options.

(* ---- the node ----------------------------------------------------------------------------------- *)
(* position of the last entry of a name: what convTools' indexes map holds (indexes[name] = idx, in list order) *)
Fixpoint index_of {A} (tl : list (string * A)) (name : string) : option nat :=
  match tl with
  | [] => None
  | (n, _) :: r =>
      match index_of r name with
      | Some j => Some (S j)
      | None => if String.eqb n name then Some 0%nat else None
      end
  end.

Lemma index_of_bound : forall A (tl : list (string * A)) name j,
  index_of tl name = Some j -> exists x, nth_error tl j = Some x.
Proof.
  induction tl as [|[n a] r IH]; intros name j H; simpl in H; [discriminate|].
  destruct (index_of r name) as [j'|] eqn:E.
  - inversion H; subst. simpl. eapply IH; eauto.
  - destruct (String.eqb n name); inversion H; subst. simpl. eauto.
Qed.

Lemma index_of_lookup : forall A (tl : list (string * A)) name,
  index_lookup tl name = match index_of tl name with
                         | Some j => option_map snd (nth_error tl j)
                         | None => None
                         end.
Proof.
  induction tl as [|[n a] r IH]; intros name; simpl; [reflexivity|].
  rewrite IH. destruct (index_of r name) as [j|] eqn:E; simpl.
  - destruct (index_of_bound _ _ _ _ E) as [[n' a'] H]. rewrite H. reflexivity.
  - destruct (String.eqb n name); reflexivity.
Qed.

Section Agree.
  Variable P : Type.
  Notation TOPT := (topt P).
  Notation O := (list (topt P)).
  Notation BT := (tooldecl O).
  Notation META := unit.

  (* a runnable packer: the one convTools made for a tool (its kind and implementation), or one made from
     a function (newRunnablePacker(f, nil, nil, nil, _): invokable only) *)
  Inductive RPm : Type :=
  | RP_tool (k : tkind) (ti : toolimpl O)
  | RP_fn (f : CTX -> string -> O -> tres).

  Definition m_newRunnablePacker (f : CTX -> string -> O -> tres) (_ _ _ : option unit) (_ : bool) : option RPm :=
    Some (RP_fn f).

  (* what a task's cell holds after its tool returned *)
  Definition cell_t (r : tres) : res (string * option N) :=
    match r with TOk o => Ok (o, None) | TErr e => Ok ("", Some e) | TPanic => Panic end.
  Definition cell_s (r : sres) : res (option SR * option N) :=
    match r with SOk cs tl => Ok (Some (cs, tl), None) | SErr e => Ok (None, Some e) | SPanic => Panic end.

  (* runnablePacker.Invoke / .Stream: the derivations of compose/runnable.go as in Model/Tools.v *)
  Definition m_RP_Invoke (r : option RPm) (ctx : CTX) (arg : string) (opts : O) : res (string * option N) :=
    match r with
    | Some (RP_tool KStr ti) => cell_t (invoke_by_stream (ti_str ti opts arg))
    | Some (RP_tool _ ti) => cell_t (ti_inv ti opts arg)
    | Some (RP_fn f) => cell_t (f ctx arg opts)
    | None => Panic
    end.
  Definition m_RP_Stream (r : option RPm) (ctx : CTX) (arg : string) (opts : O) : res (option SR * option N) :=
    match r with
    | Some (RP_tool KInv ti) => cell_s (stream_by_invoke (ti_inv ti opts arg))
    | Some (RP_tool _ ti) => cell_s (ti_str ti opts arg)
    | Some (RP_fn f) => cell_s (stream_by_invoke (f ctx arg opts))
    | None => Panic
    end.

  (* convTools: the converted list as a tuple (indexes: the last tool of a name; rps in list order) *)
  Definition tuple_of (tl : list (string * (tkind * toolimpl O))) : toolsTuple META RPm :=
    mk_toolsTuple (fun name => option_map Z.of_nat (index_of tl name))
                  (map (fun _ => Some tt) tl)
                  (map (fun x => Some (RP_tool (fst (snd x)) (snd (snd x)))) tl).
  Definition m_convTools (_ : CTX) (l : option (list BT)) : res (toolsTuple META RPm) :=
    match l with
    | Some l => res_map tuple_of (conv_tools l)
    | None => Panic
    end.

  (* parallelRunToolCall, as Model/ToolsPar.v's theorems characterise the protocol for prog_ok: every task
     is run; a panic of a goroutine task (index >= 1) is stored in its cell as the panic error; a panic of
     the inline task (index 0) leaves the function *)
  Definition recovered (run : CTX -> toolCallTask META RPm -> O -> res (toolCallTask META RPm))
             (ctx : CTX) (opts : O) (t : toolCallTask META RPm) : toolCallTask META RPm :=
    match run ctx t opts with
    | Ok t' => t'
    | Err e => set_toolCallTask_err t (Some e)
    | Panic => set_toolCallTask_err t (Some E_PANIC)
    end.
  Definition m_parallel (ctx : CTX) (run : CTX -> toolCallTask META RPm -> O -> res (toolCallTask META RPm))
             (tasks : list (toolCallTask META RPm)) (opts : O) : res (list (toolCallTask META RPm)) :=
    match tasks with
    | [] => Panic
    | t0 :: rest => do t0' <- run ctx t0 opts; Ok (t0' :: map (recovered run ctx opts) rest)
    end.

  (* the model's data as the generated code's *)
  Definition tc_of (c : call) : ToolCall := mk_ToolCall (c_id c) (mk_FunctionCall (c_name c) (c_args c)).
  Definition msg_of (role : string) (calls : list call) : Message := mk_Message role (map tc_of calls).
  Definition lift_handler (h : option (string -> string -> tres)) : option (CTX -> string -> string -> tres) :=
    option_map (fun h' => fun (_ : CTX) n a => h' n a) h.
  Definition node_of (tl : list (string * (tkind * toolimpl O))) (h : option (string -> string -> tres)) : ToolsNode META RPm :=
    mk_ToolsNode (tuple_of tl) (lift_handler h).

  (* a task of the model as the generated code's task record (before it is run) *)
  Definition gtask_of (tl : list (string * (tkind * toolimpl O))) (t : task) : toolCallTask META RPm :=
    match t with
    | Task _ c =>
        mk_toolCallTask (match index_of tl (c_name c) with
                         | Some j => match nth_error tl j with
                                     | Some x => Some (RP_tool (fst (snd x)) (snd (snd x)))
                                     | None => None
                                     end
                         | None => None
                         end)
                        (Some tt) (c_name c) (c_args c) (c_id c) "" None None
    | Unk h c =>
        mk_toolCallTask (Some (RP_fn (fun (_ : CTX) input (_ : O) => h (c_name c) input)))
                        (Some tt) (c_name c) (c_args c) (c_id c) "" None None
    end.

  Notation g_genToolCallTasks := (Gen.ToolNode.genToolCallTasks TOPT META RPm tt m_newRunnablePacker).

  Section Tasks.
    Variable tl : list (string * (tkind * toolimpl O)).     (* the tool list in force *)
    Variable tl0 : list (string * (tkind * toolimpl O)).    (* the list the node was configured with *)
    Variable handler : option (string -> string -> tres).
    Let kind_of := ts_kind (toolset_of_conv tl).

    Lemma kind_of_index : forall name,
      kind_of name = match index_of tl name with
                     | Some j => option_map (fun x => fst (snd x)) (nth_error tl j)
                     | None => None
                     end.
    Proof.
      intros name. unfold kind_of. simpl. rewrite index_of_lookup.
      destruct (index_of tl name) as [j|]; [|reflexivity].
      destruct (nth_error tl j) as [[n [k ti]]|]; reflexivity.
    Qed.

    (* one iteration of the loop of genToolCallTasks, on the state [done ++ zero :: rest] at index |done| *)
    Lemma gen_loop : forall (calls_done rest : list call) (done : list (toolCallTask META RPm)),
      List.length done = List.length calls_done ->
      for_up_n (List.length rest) (Z.of_nat (List.length done))
        (fun i toolCallTasks =>
           do x2 <- sl_get (Message_ToolCalls (msg_of schema_Assistant (calls_done ++ rest))) i;
           let toolCall := x2 in
           match map_get (toolsTuple_indexes (tuple_of tl)) (FunctionCall_Name (ToolCall_Function toolCall)) with
           | None =>
               if is_nil (ToolsNode_unknownToolHandler (node_of tl0 handler)) then Err (e_at "genToolCallTasks" 2%nat)
               else
                 do toolCallTasks <- sl_set toolCallTasks i
                      (Gen.ToolNode.newUnknownToolTask TOPT META RPm tt m_newRunnablePacker
                         (FunctionCall_Name (ToolCall_Function toolCall)) (FunctionCall_Arguments (ToolCall_Function toolCall))
                         (ToolCall_ID toolCall) (ToolsNode_unknownToolHandler (node_of tl0 handler)));
                 Ok toolCallTasks
           | Some index =>
               do x3 <- sl_get (toolsTuple_rps (tuple_of tl)) index;
               do toolCallTasks <- sl_upd toolCallTasks i (fun x4 => set_toolCallTask_r x4 x3);
               do x5 <- sl_get (toolsTuple_meta (tuple_of tl)) index;
               do toolCallTasks <- sl_upd toolCallTasks i (fun x6 => set_toolCallTask_meta x6 x5);
               do toolCallTasks <- sl_upd toolCallTasks i (fun x7 => set_toolCallTask_name x7 (FunctionCall_Name (ToolCall_Function toolCall)));
               do toolCallTasks <- sl_upd toolCallTasks i (fun x8 => set_toolCallTask_arg x8 (FunctionCall_Arguments (ToolCall_Function toolCall)));
               do toolCallTasks <- sl_upd toolCallTasks i (fun x9 => set_toolCallTask_callID x9 (ToolCall_ID toolCall));
               Ok toolCallTasks
           end)
        (done ++ repeat zero_toolCallTask (List.length rest))
      = res_map (fun ts => done ++ map (gtask_of tl) ts) (res_mapM (gen_task kind_of handler) rest).
    Proof.
      intros calls_done rest. revert calls_done.
      induction rest as [|c rest IH]; intros calls_done done Hl.
      - simpl. rewrite !app_nil_r. reflexivity.
      - cbn [List.length repeat for_up_n].
        assert (Hget : sl_get (Message_ToolCalls (msg_of schema_Assistant (calls_done ++ c :: rest))) (Z.of_nat (List.length done)) = Ok (tc_of c)).
        { unfold msg_of. cbn [Message_ToolCalls]. rewrite map_app. cbn [map].
          rewrite Hl. rewrite <- (map_length tc_of calls_done). apply sl_get_at. }
        rewrite Hget. cbn [res_bind]. cbn [tc_of ToolCall_Function FunctionCall_Name FunctionCall_Arguments ToolCall_ID].
        unfold map_get. cbn [tuple_of toolsTuple_indexes toolsTuple_rps toolsTuple_meta].
        cbn [res_mapM]. unfold gen_task at 1. rewrite kind_of_index.
        destruct (index_of tl (c_name c)) as [j|] eqn:Ej; cbn [option_map].
        + destruct (index_of_bound _ _ _ _ Ej) as [[n [k ti]] Hj]. rewrite Hj. cbn [option_map fst snd].
          rewrite !sl_get_nat, !nth_error_map, Hj. cbn [option_map res_bind fst snd].
          rewrite !sl_upd_at. cbn [res_bind]. rewrite !sl_upd_at. cbn [res_bind].
          rewrite !sl_upd_at. cbn [res_bind]. rewrite !sl_upd_at. cbn [res_bind].
          rewrite !sl_upd_at. cbn [res_bind].
          match goal with |- for_up_n _ _ ?body (done ++ ?x :: ?tail) = _ =>
            replace (done ++ x :: tail) with ((done ++ [x]) ++ tail) by (rewrite <- app_assoc; reflexivity)
          end.
          replace (Z.of_nat (List.length done) + 1)%Z with (Z.of_nat (List.length (done ++ [set_toolCallTask_callID (set_toolCallTask_arg (set_toolCallTask_name (set_toolCallTask_meta (set_toolCallTask_r zero_toolCallTask (Some (RP_tool k ti))) (Some tt)) (c_name c)) (c_args c)) (c_id c)])))
            by (rewrite app_length; simpl; lia).
          replace (calls_done ++ c :: rest) with ((calls_done ++ [c]) ++ rest) by (rewrite <- app_assoc; reflexivity).
          rewrite IH by (rewrite !app_length; simpl; lia).
          destruct (res_mapM (gen_task kind_of handler) rest) as [ts|e|]; cbn [res_map res_bind]; try reflexivity.
          rewrite <- app_assoc. cbn [map gtask_of app]. rewrite Ej, Hj. reflexivity.
        + unfold node_of, lift_handler. cbn [ToolsNode_unknownToolHandler].
          destruct handler as [h|]; cbn [option_map is_nil].
          * rewrite sl_set_at. cbn [res_bind].
            match goal with |- for_up_n _ _ ?body (done ++ ?x :: ?tail) = _ =>
              replace (done ++ x :: tail) with ((done ++ [x]) ++ tail) by (rewrite <- app_assoc; reflexivity);
              replace (Z.of_nat (List.length done) + 1)%Z with (Z.of_nat (List.length (done ++ [x]))) by (rewrite app_length; simpl; lia)
            end.
            replace (calls_done ++ c :: rest) with ((calls_done ++ [c]) ++ rest) by (rewrite <- app_assoc; reflexivity).
            specialize (IH (calls_done ++ [c])). unfold node_of, lift_handler in IH. cbn [option_map] in IH.
            rewrite IH by (rewrite !app_length; simpl; lia).
            destruct (res_mapM (gen_task kind_of (Some h)) rest) as [ts|e|]; cbn [res_map res_bind]; try reflexivity.
            rewrite <- app_assoc. reflexivity.
          * reflexivity.
    Qed.

    (* genToolCallTasks = the model's gen_tasks, task for task *)
    Theorem gen_genToolCallTasks_agrees : forall role calls,
      g_genToolCallTasks (node_of tl0 handler) (tuple_of tl) (msg_of role calls)
      = res_map (map (gtask_of tl)) (gen_tasks kind_of handler (String.eqb role schema_Assistant) calls).
    Proof.
      intros role calls. unfold Gen.ToolNode.genToolCallTasks, gen_tasks.
      cbn [msg_of Message_Role Message_ToolCalls].
      destruct (String.eqb role schema_Assistant) eqn:Er; cbn [negb]; [|reflexivity].
      unfold sl_len. rewrite map_length.
      destruct calls as [|c calls]; [reflexivity|].
      replace (Z.of_nat (List.length (c :: calls)) =? 0)%Z with false by (symmetry; apply Z.eqb_neq; simpl; lia).
      rewrite sl_make_len. cbn [res_bind]. rewrite for_up_len.
      apply String.eqb_eq in Er. subst role.
      pose proof (gen_loop [] (c :: calls) [] eq_refl) as L. cbn [app List.length] in L.
      change (Z.of_nat 0) with 0%Z in L. unfold msg_of in L.
      etransitivity; [|etransitivity].
      2:{ apply (f_equal (fun r => do t <- r; Ok t)). exact L. }
      - reflexivity.
      - destruct (res_mapM (gen_task kind_of handler) (c :: calls)); reflexivity.
    Qed.
  End Tasks.

  (* ---- running a task ---- *)
  Notation g_runInvoke := (Gen.ToolNode.runToolCallTaskByInvoke TOPT META RPm m_RP_Invoke).
  Notation g_runStream := (Gen.ToolNode.runToolCallTaskByStream TOPT META RPm m_RP_Stream).

  Section Run.
    Variable tl : list (string * (tkind * toolimpl O)).
    Variable handler : option (string -> string -> tres).
    Variable opts : O.
    Let ts := toolset_of_conv tl.
    Let kind_of := ts_kind ts.
    Let inv := ts_inv ts opts.
    Let str := ts_str ts opts.

    (* a task as genToolCallTasks makes it: the kind recorded is that of the tool the name resolves to *)
    Definition wf_task (t : task) : Prop :=
      match t with Task k c => kind_of (c_name c) = Some k | Unk _ _ => True end.

    Lemma gen_task_wf : forall c t, gen_task kind_of handler c = Ok t -> wf_task t.
    Proof.
      unfold gen_task. intros c t H. destruct (kind_of (c_name c)) as [k|] eqn:E.
      - inversion H; subst. exact E.
      - destruct handler; inversion H; subst. exact I.
    Qed.

    Lemma gen_tasks_wf : forall role_ok calls tasks,
      gen_tasks kind_of handler role_ok calls = Ok tasks -> Forall wf_task tasks /\ tasks <> [].
    Proof.
      unfold gen_tasks. intros role_ok calls tasks H.
      destruct (negb role_ok); [discriminate|]. destruct calls as [|c calls]; [discriminate|].
      apply mapM_forall2 in H. split.
      - clear -H. induction H; constructor; eauto using gen_task_wf.
      - inversion H; subst. discriminate.
    Qed.

    Lemma wf_lookup : forall k c, wf_task (Task k c) ->
      exists j n ti, index_of tl (c_name c) = Some j /\ nth_error tl j = Some (n, (k, ti))
                     /\ index_lookup tl (c_name c) = Some (k, ti).
    Proof.
      intros k c H. unfold wf_task, kind_of, ts in H. simpl in H.
      pose proof (index_of_lookup _ tl (c_name c)) as L.
      destruct (index_of tl (c_name c)) as [j|] eqn:Ej.
      - destruct (nth_error tl j) as [[n [k' ti]]|] eqn:Hj; simpl in L; rewrite L in H; simpl in H; [|discriminate].
        inversion H; subst. exists j, n, ti. repeat split; auto.
      - rewrite L in H. discriminate.
    Qed.

    Lemma run_invoke_cell : forall ctx t, wf_task t ->
      g_runInvoke ctx (gtask_of tl t) opts =
      match exec_invoke inv str t with
      | TOk o => Ok (set_toolCallTask_err (set_toolCallTask_output (gtask_of tl t) o) None)
      | TErr e => Ok (set_toolCallTask_err (set_toolCallTask_output (gtask_of tl t) "") (Some e))
      | TPanic => Panic
      end.
    Proof.
      intros ctx t Hwf. unfold Gen.ToolNode.runToolCallTaskByInvoke.
      destruct t as [k c|h c].
      - destruct (wf_lookup k c Hwf) as [j [n [ti [Ej [Hj Hl]]]]].
        cbn [gtask_of toolCallTask_r toolCallTask_arg toolCallTask_callID]. rewrite Ej, Hj. cbn [fst snd].
        unfold exec_invoke, inv, str, ts. cbn [ts_inv ts_str toolset_of_conv]. rewrite Hl.
        destruct k; cbn [m_RP_Invoke].
        + destruct (ti_inv ti opts (c_args c)); reflexivity.
        + destruct (invoke_by_stream (ti_str ti opts (c_args c))); reflexivity.
        + destruct (ti_inv ti opts (c_args c)); reflexivity.
      - cbn [gtask_of toolCallTask_r toolCallTask_arg toolCallTask_callID m_RP_Invoke exec_invoke].
        destruct (h (c_name c) (c_args c)); reflexivity.
    Qed.

    Lemma run_stream_cell : forall ctx t, wf_task t ->
      g_runStream ctx (gtask_of tl t) opts =
      match exec_stream inv str t with
      | SOk cs tail => Ok (set_toolCallTask_err (set_toolCallTask_sOutput (gtask_of tl t) (Some (cs, tail))) None)
      | SErr e => Ok (set_toolCallTask_err (set_toolCallTask_sOutput (gtask_of tl t) None) (Some e))
      | SPanic => Panic
      end.
    Proof.
      intros ctx t Hwf. unfold Gen.ToolNode.runToolCallTaskByStream.
      destruct t as [k c|h c].
      - destruct (wf_lookup k c Hwf) as [j [n [ti [Ej [Hj Hl]]]]].
        cbn [gtask_of toolCallTask_r toolCallTask_arg toolCallTask_callID]. rewrite Ej, Hj. cbn [fst snd].
        unfold exec_stream, inv, str, ts. cbn [ts_inv ts_str toolset_of_conv]. rewrite Hl.
        destruct k; cbn [m_RP_Stream].
        + destruct (ti_inv ti opts (c_args c)); reflexivity.
        + destruct (ti_str ti opts (c_args c)); reflexivity.
        + destruct (ti_str ti opts (c_args c)); reflexivity.
      - cbn [gtask_of toolCallTask_r toolCallTask_arg toolCallTask_callID m_RP_Stream exec_stream].
        destruct (h (c_name c) (c_args c)); reflexivity.
    Qed.

    Lemma gtask_callID : forall t, toolCallTask_callID (gtask_of tl t) = c_id (task_call t).
    Proof. destruct t; reflexivity. Qed.

    (* ---- the assembly loop of Invoke, on the cells after the parallel run ---- *)
    Definition invoke_body (tasks : list (toolCallTask META RPm)) :=
      (fun (i : Z) (output : list (option tmsg)) =>
         do x2 <- sl_get tasks i;
         if negb (is_nil (toolCallTask_err x2)) then
           do x3 <- sl_get tasks i; ret_err (toolCallTask_err x3)
         else
           do x4 <- sl_get tasks i;
           do x5 <- sl_get tasks i;
           do output <- sl_set output i (Gen.ToolNode.ToolMessage (toolCallTask_output x4) (toolCallTask_callID x5));
           Ok output).

    Fixpoint scan_cells (ts : list (toolCallTask META RPm)) : res (list (option tmsg)) :=
      match ts with
      | [] => Ok []
      | t :: r =>
          match toolCallTask_err t with
          | Some e => Err e
          | None => do rest <- scan_cells r; Ok (Some (toolCallTask_output t, toolCallTask_callID t) :: rest)
          end
      end.

    Lemma invoke_loop : forall (rest tdone : list (toolCallTask META RPm)) (done : list (option tmsg)),
      List.length done = List.length tdone ->
      for_up_n (List.length rest) (Z.of_nat (List.length done)) (invoke_body (tdone ++ rest))
               (done ++ repeat None (List.length rest))
      = res_map (fun ms => done ++ ms) (scan_cells rest).
    Proof.
      induction rest as [|t rest IH]; intros tdone done Hl.
      - simpl. rewrite !app_nil_r. reflexivity.
      - cbn [List.length repeat for_up_n]. unfold invoke_body at 1.
        rewrite Hl, !sl_get_at. cbn [res_bind scan_cells].
        destruct (toolCallTask_err t) as [e|]; cbn [is_nil negb ret_err]; [reflexivity|].
        rewrite <- Hl. rewrite sl_set_at. cbn [res_bind].
        match goal with |- for_up_n _ _ _ (done ++ ?x :: ?tail) = _ =>
          replace (done ++ x :: tail) with ((done ++ [x]) ++ tail) by (rewrite <- app_assoc; reflexivity);
          replace (Z.of_nat (List.length done) + 1)%Z with (Z.of_nat (List.length (done ++ [x]))) by (rewrite app_length; simpl; lia)
        end.
        replace (tdone ++ t :: rest) with ((tdone ++ [t]) ++ rest) by (rewrite <- app_assoc; reflexivity).
        rewrite IH by (rewrite !app_length; simpl; lia).
        destruct (scan_cells rest); cbn [res_map res_bind]; try reflexivity.
        rewrite <- app_assoc. reflexivity.
    Qed.

    Lemma recovered_invoke : forall ctx t, wf_task t ->
      recovered g_runInvoke ctx opts (gtask_of tl t) =
      match exec_invoke inv str t with
      | TOk o => set_toolCallTask_err (set_toolCallTask_output (gtask_of tl t) o) None
      | TErr e => set_toolCallTask_err (set_toolCallTask_output (gtask_of tl t) "") (Some e)
      | TPanic => set_toolCallTask_err (gtask_of tl t) (Some E_PANIC)
      end.
    Proof.
      intros ctx t Hwf. unfold recovered. rewrite run_invoke_cell by assumption.
      destruct (exec_invoke inv str t); reflexivity.
    Qed.

    (* the cells of the goroutine tasks, scanned = the model's scan from index >= 1 *)
    Lemma scan_recovered : forall ctx rest i, Forall wf_task rest ->
      scan_cells (map (recovered g_runInvoke ctx opts) (map (gtask_of tl) rest))
      = res_map (map Some) (scan_invoke inv str (S i) rest).
    Proof.
      intros ctx rest. induction rest as [|t rest IH]; intros i Hwf; [reflexivity|].
      inversion Hwf; subst. cbn [map scan_cells scan_invoke].
      rewrite recovered_invoke by assumption.
      destruct (exec_invoke inv str t); cbn [recover_t toolCallTask_err set_toolCallTask_err]; try reflexivity.
      rewrite (IH (S i)) by assumption.
      unfold set_toolCallTask_err, set_toolCallTask_output. cbn [toolCallTask_output toolCallTask_callID].
      rewrite gtask_callID.
      destruct (scan_invoke inv str (S (S i)) rest); reflexivity.
    Qed.

    Lemma parallel_scan_invoke : forall ctx tasks, Forall wf_task tasks -> tasks <> [] ->
      (do ts' <- m_parallel ctx g_runInvoke (map (gtask_of tl) tasks) opts; scan_cells ts')
      = res_map (map Some) (scan_invoke inv str 0 tasks).
    Proof.
      intros ctx tasks Hwf Hne. destruct tasks as [|t0 rest]; [congruence|].
      inversion Hwf; subst. cbn [map m_parallel scan_invoke].
      rewrite run_invoke_cell by assumption.
      destruct (exec_invoke inv str t0); cbn [recover_t res_bind scan_cells toolCallTask_err set_toolCallTask_err]; try reflexivity.
      rewrite (scan_recovered ctx rest 0) by assumption.
      unfold set_toolCallTask_err, set_toolCallTask_output. cbn [toolCallTask_output toolCallTask_callID]. rewrite gtask_callID.
      destruct (scan_invoke inv str 1 rest); reflexivity.
    Qed.

    Lemma m_parallel_length : forall ctx run tasks ts',
      m_parallel ctx run tasks opts = Ok ts' -> List.length ts' = List.length tasks.
    Proof.
      intros ctx run tasks ts' H. destruct tasks as [|t0 rest]; [discriminate|]. cbn [m_parallel] in H.
      destruct (run ctx t0 opts); inversion H; subst. simpl. rewrite map_length. reflexivity.
    Qed.

    (* ---- the assembly loop of Stream ---- *)
    Lemma recovered_stream : forall ctx t, wf_task t ->
      recovered g_runStream ctx opts (gtask_of tl t) =
      match exec_stream inv str t with
      | SOk cs tail => set_toolCallTask_err (set_toolCallTask_sOutput (gtask_of tl t) (Some (cs, tail))) None
      | SErr e => set_toolCallTask_err (set_toolCallTask_sOutput (gtask_of tl t) None) (Some e)
      | SPanic => set_toolCallTask_err (gtask_of tl t) (Some E_PANIC)
      end.
    Proof.
      intros ctx t Hwf. unfold recovered. rewrite run_stream_cell by assumption.
      destruct (exec_stream inv str t); reflexivity.
    Qed.

    (* the converter of call i: a chunk becomes a list of n entries, all nil but the i-th *)
    Definition conv (n : Z) (i : Z) (callID : string) : string -> res (list (option tmsg)) :=
      fun s => do x5 <- sl_make None n; let ret := x5 in do ret <- sl_set ret i (Gen.ToolNode.ToolMessage s callID); Ok ret.

    Definition stream_body (n : Z) (tasks : list (toolCallTask META RPm)) :=
      (fun (i : Z) (sOutput : list (option (conv_stream (list (option tmsg))))) =>
         do x2 <- sl_get tasks i;
         if negb (is_nil (toolCallTask_err x2)) then
           do x3 <- sl_get tasks i; ret_err (toolCallTask_err x3)
         else
           let index := i in
           do x4 <- sl_get tasks i;
           let callID := toolCallTask_callID x4 in
           let convert := (fun s => do x5 <- sl_make None n; let ret := x5 in
                                    do ret <- sl_set ret index (Gen.ToolNode.ToolMessage s callID); Ok ret) in
           do x6 <- sl_get tasks i;
           do sOutput <- sl_set sOutput i (StreamReaderWithConvert (toolCallTask_sOutput x6) convert);
           Ok sOutput).

    Fixpoint scan_cells_s (n : Z) (i : nat) (ts : list (toolCallTask META RPm))
      : res (list (option (conv_stream (list (option tmsg))))) :=
      match ts with
      | [] => Ok []
      | t :: r =>
          match toolCallTask_err t with
          | Some e => Err e
          | None => do rest <- scan_cells_s n (S i) r;
                    Ok (StreamReaderWithConvert (toolCallTask_sOutput t) (conv n (Z.of_nat i) (toolCallTask_callID t)) :: rest)
          end
      end.

    Lemma stream_loop : forall n (rest tdone : list (toolCallTask META RPm)) (done : list (option (conv_stream (list (option tmsg))))),
      List.length done = List.length tdone ->
      for_up_n (List.length rest) (Z.of_nat (List.length done)) (stream_body n (tdone ++ rest))
               (done ++ repeat None (List.length rest))
      = res_map (fun ms => done ++ ms) (scan_cells_s n (List.length done) rest).
    Proof.
      intros n. induction rest as [|t rest IH]; intros tdone done Hl.
      - simpl. rewrite !app_nil_r. reflexivity.
      - cbn [List.length repeat for_up_n]. unfold stream_body at 1.
        rewrite Hl, !sl_get_at. cbn [res_bind scan_cells_s].
        destruct (toolCallTask_err t) as [e|]; cbn [is_nil negb ret_err]; [reflexivity|].
        rewrite <- Hl. rewrite sl_set_at. cbn [res_bind].
        match goal with |- for_up_n _ _ _ (done ++ ?x :: ?tail) = _ =>
          replace (done ++ x :: tail) with ((done ++ [x]) ++ tail) by (rewrite <- app_assoc; reflexivity);
          replace (Z.of_nat (List.length done) + 1)%Z with (Z.of_nat (List.length (done ++ [x]))) by (rewrite app_length; simpl; lia)
        end.
        replace (tdone ++ t :: rest) with ((tdone ++ [t]) ++ rest) by (rewrite <- app_assoc; reflexivity).
        rewrite IH by (rewrite !app_length; simpl; lia).
        rewrite app_length. cbn [List.length]. rewrite Nat.add_1_r.
        destruct (scan_cells_s n (S (List.length done)) rest); cbn [res_map res_bind]; try reflexivity.
        rewrite <- app_assoc. reflexivity.
    Qed.

    (* the opened tool streams of the model as the sources handed to MergeStreamReaders *)
    Fixpoint sources_of (n : Z) (i : nat) (ss : list tstream) : list (option (conv_stream (list (option tmsg)))) :=
      match ss with
      | [] => []
      | st :: r => StreamReaderWithConvert (Some (snd (fst st), snd st)) (conv n (Z.of_nat i) (fst (fst st))) :: sources_of n (S i) r
      end.

    Lemma scan_recovered_s : forall n ctx rest i, Forall wf_task rest ->
      scan_cells_s n (S i) (map (recovered g_runStream ctx opts) (map (gtask_of tl) rest))
      = res_map (sources_of n (S i)) (scan_stream inv str (S i) rest).
    Proof.
      intros n ctx rest. induction rest as [|t rest IH]; intros i Hwf; [reflexivity|].
      inversion Hwf; subst. cbn [map scan_cells_s scan_stream].
      rewrite recovered_stream by assumption.
      destruct (exec_stream inv str t); cbn [recover_s toolCallTask_err set_toolCallTask_err]; try reflexivity.
      rewrite (IH (S i)) by assumption.
      unfold set_toolCallTask_err, set_toolCallTask_sOutput. cbn [toolCallTask_sOutput toolCallTask_callID].
      rewrite gtask_callID.
      destruct (scan_stream inv str (S (S i)) rest); reflexivity.
    Qed.

    Lemma parallel_scan_stream : forall n ctx tasks, Forall wf_task tasks -> tasks <> [] ->
      (do ts' <- m_parallel ctx g_runStream (map (gtask_of tl) tasks) opts; scan_cells_s n 0 ts')
      = res_map (sources_of n 0) (scan_stream inv str 0 tasks).
    Proof.
      intros n ctx tasks Hwf Hne. destruct tasks as [|t0 rest]; [congruence|].
      inversion Hwf; subst. cbn [map m_parallel scan_stream].
      rewrite run_stream_cell by assumption.
      destruct (exec_stream inv str t0); cbn [recover_s res_bind scan_cells_s toolCallTask_err set_toolCallTask_err]; try reflexivity.
      rewrite (scan_recovered_s n ctx rest 0) by assumption.
      unfold set_toolCallTask_err, set_toolCallTask_sOutput. cbn [toolCallTask_sOutput toolCallTask_callID]. rewrite gtask_callID.
      destruct (scan_stream inv str 1 rest); reflexivity.
    Qed.

    Lemma gen_tasks_length : forall role_ok calls tasks,
      gen_tasks kind_of handler role_ok calls = Ok tasks -> List.length tasks = List.length calls.
    Proof.
      unfold gen_tasks. intros role_ok calls tasks H.
      destruct (negb role_ok); [discriminate|]. destruct calls as [|c calls]; [discriminate|].
      apply mapM_forall2 in H. symmetry. eapply Forall2_length; eauto.
    Qed.
  End Run.

  (* ---- ToolsNode.Invoke ---- *)
  Notation g_Invoke := (Gen.ToolNode.Invoke BT TOPT META RPm tt m_newRunnablePacker m_RP_Invoke m_convTools m_parallel).

  Lemma invoke_tail : forall tl tl0 handler opts pi role calls ctx,
    covers pi (List.length calls) ->
    (do tasks <- g_genToolCallTasks (node_of tl0 handler) (tuple_of tl) (msg_of role calls);
     do tasks <- m_parallel ctx g_runInvoke tasks opts;
     let n := sl_len tasks in
     do x1 <- sl_make None n;
     let output := x1 in
     do output <- for_up 0%Z n (invoke_body tasks) output;
     Ok output)
    = res_map (map Some)
        (tools_invoke (ts_kind (toolset_of_conv tl)) (ts_inv (toolset_of_conv tl) opts) (ts_str (toolset_of_conv tl) opts)
                      handler pi (String.eqb role schema_Assistant) calls).
  Proof.
    intros tl tl0 handler opts pi role calls ctx Hc.
    rewrite gen_genToolCallTasks_agrees. rewrite tools_invoke_any_order by assumption.
    destruct (gen_tasks (ts_kind (toolset_of_conv tl)) handler (String.eqb role schema_Assistant) calls) as [tasks|e|] eqn:Eg;
      cbn [res_map res_bind]; try reflexivity.
    destruct (gen_tasks_wf tl handler _ _ _ Eg) as [Hwf Hne].
    rewrite <- (parallel_scan_invoke tl opts ctx tasks Hwf Hne).
    destruct (m_parallel ctx g_runInvoke (map (gtask_of tl) tasks) opts) as [ts'|e|] eqn:Ep; cbn [res_bind]; try reflexivity.
    unfold sl_len. rewrite sl_make_len. cbn [res_bind]. rewrite for_up_len.
    pose proof (invoke_loop ts' [] [] eq_refl) as L. cbn [app List.length] in L. change (Z.of_nat 0) with 0%Z in L.
    rewrite L. destruct (scan_cells ts'); reflexivity.
  Qed.

  (* NewToolNode(cfg) succeeded with the converted list cfg_tl; then Invoke with the option list nopts *)
  Theorem gen_invoke_agrees : forall handler (cfg : list BT) cfg_tl (nopts : list (nodeopt P BT)) pi role calls ctx,
    conv_tools cfg = Ok cfg_tl ->
    covers pi (List.length calls) ->
    g_Invoke (node_of cfg_tl handler) ctx (msg_of role calls) (map (gen_opt P BT) nopts)
    = res_map (map Some) (call_invoke handler cfg nopts pi (String.eqb role schema_Assistant) calls).
  Proof.
    intros handler cfg cfg_tl nopts pi role calls ctx Hcfg Hc.
    unfold Gen.ToolNode.Invoke. rewrite gen_node_options_agree.
    cbn [toolsNodeOptions_ToolList toolsNodeOptions_ToolOptions].
    unfold call_invoke, node_invoke. rewrite Hcfg. cbn [res_bind].
    destruct (fst (get_node_opts nopts)) as [l|] eqn:El; cbn [is_nil negb conv_call_list].
    - unfold m_convTools. destruct (conv_tools l) as [tl'|e|] eqn:Ec; cbn [res_map res_bind]; try reflexivity.
      unfold tools_invoke_with. cbn [eff_tools co_list co_opts node_of ToolsNode_tuple].
      apply (invoke_tail tl' cfg_tl handler (snd (get_node_opts nopts)) pi role calls ctx Hc).
    - unfold tools_invoke_with. cbn [eff_tools co_list co_opts node_of ToolsNode_tuple res_bind].
      apply (invoke_tail cfg_tl cfg_tl handler (snd (get_node_opts nopts)) pi role calls ctx Hc).
  Qed.

  (* ---- ToolsNode.Stream ---- *)
  Notation g_Stream := (Gen.ToolNode.Stream BT TOPT META RPm tt m_newRunnablePacker m_RP_Stream m_convTools m_parallel).

  Lemma stream_tail : forall tl tl0 handler opts pi role calls ctx,
    covers pi (List.length calls) ->
    (do tasks <- g_genToolCallTasks (node_of tl0 handler) (tuple_of tl) (msg_of role calls);
     do tasks <- m_parallel ctx g_runStream tasks opts;
     let n := sl_len tasks in
     do x1 <- sl_make None n;
     let sOutput := x1 in
     do sOutput <- for_up 0%Z n (stream_body n tasks) sOutput;
     Ok (MergeStreamReaders sOutput))
    = res_map (sources_of (Z.of_nat (List.length calls)) 0)
        (tools_stream_open (ts_kind (toolset_of_conv tl)) (ts_inv (toolset_of_conv tl) opts) (ts_str (toolset_of_conv tl) opts)
                           handler pi (String.eqb role schema_Assistant) calls).
  Proof.
    intros tl tl0 handler opts pi role calls ctx Hc.
    rewrite gen_genToolCallTasks_agrees. rewrite tools_stream_any_order by assumption.
    destruct (gen_tasks (ts_kind (toolset_of_conv tl)) handler (String.eqb role schema_Assistant) calls) as [tasks|e|] eqn:Eg;
      cbn [res_map res_bind]; try reflexivity.
    destruct (gen_tasks_wf tl handler _ _ _ Eg) as [Hwf Hne].
    pose proof (gen_tasks_length tl handler _ _ _ Eg) as Hlen.
    rewrite <- (parallel_scan_stream tl opts (Z.of_nat (List.length calls)) ctx tasks Hwf Hne).
    destruct (m_parallel ctx g_runStream (map (gtask_of tl) tasks) opts) as [ts'|e|] eqn:Ep; cbn [res_bind]; try reflexivity.
    pose proof (m_parallel_length opts _ _ _ _ Ep) as Hl'. rewrite map_length in Hl'.
    unfold sl_len. rewrite sl_make_len. cbn [res_bind]. rewrite for_up_len.
    pose proof (stream_loop (Z.of_nat (List.length ts')) ts' [] [] eq_refl) as L. cbn [app List.length] in L. change (Z.of_nat 0) with 0%Z in L.
    rewrite L. rewrite Hl', Hlen. unfold MergeStreamReaders.
    destruct (scan_cells_s (Z.of_nat (List.length calls)) 0 ts'); reflexivity.
  Qed.

  Theorem gen_stream_agrees : forall handler (cfg : list BT) cfg_tl (nopts : list (nodeopt P BT)) pi role calls ctx,
    conv_tools cfg = Ok cfg_tl ->
    covers pi (List.length calls) ->
    g_Stream (node_of cfg_tl handler) ctx (msg_of role calls) (map (gen_opt P BT) nopts)
    = res_map (sources_of (Z.of_nat (List.length calls)) 0)
        (call_stream_open handler cfg nopts pi (String.eqb role schema_Assistant) calls).
  Proof.
    intros handler cfg cfg_tl nopts pi role calls ctx Hcfg Hc.
    unfold Gen.ToolNode.Stream. rewrite gen_node_options_agree.
    cbn [toolsNodeOptions_ToolList toolsNodeOptions_ToolOptions].
    unfold call_stream_open, node_stream_open. rewrite Hcfg. cbn [res_bind].
    destruct (fst (get_node_opts nopts)) as [l|] eqn:El; cbn [is_nil negb conv_call_list].
    - unfold m_convTools. destruct (conv_tools l) as [tl'|e|] eqn:Ec; cbn [res_map res_bind]; try reflexivity.
      unfold tools_stream_open_with. cbn [eff_tools co_list co_opts node_of ToolsNode_tuple].
      apply (stream_tail tl' cfg_tl handler (snd (get_node_opts nopts)) pi role calls ctx Hc).
    - unfold tools_stream_open_with. cbn [eff_tools co_list co_opts node_of ToolsNode_tuple res_bind].
      apply (stream_tail cfg_tl cfg_tl handler (snd (get_node_opts nopts)) pi role calls ctx Hc).
  Qed.

  (* what a source delivers: every chunk s of call i's tool as the list of n entries with only entry i set,
     to the tool message (s, call id) *)
  Theorem gen_sparse_chunk : forall (n i : nat) callID s, i < n ->
    conv (Z.of_nat n) (Z.of_nat i) callID s = Ok (set_nth i (Some (s, callID)) (repeat None n)).
  Proof.
    intros n i callID s Hi. unfold conv. rewrite sl_make_len. cbn [res_bind].
    unfold sl_set. replace (Z.of_nat i <? 0)%Z with false by (symmetry; apply Z.ltb_ge; lia).
    rewrite Nat2Z.id, repeat_length. replace (Nat.ltb i n) with true by (symmetry; apply Nat.ltb_lt; lia).
    reflexivity.
  Qed.
End Agree.

(* ---- the tables ---------------------------------------------------------------------------------- *)
(* schema.ToolMessage(content, id) is the non-nil tool message (content, id) *)
Theorem gen_tool_message_agrees : forall content id, Gen.ToolNode.ToolMessage content id = Some (content, id).
Proof. reflexivity. Qed.

(* parallelRunToolCall: a single task runs inline; otherwise tasks 1 .. N-1 get a goroutine each (handed its own
   cell, wg.Add before go), task 0 runs on the caller's goroutine, then wg.Wait; a goroutine runs the tool, then the
   recover handler, then wg.Done: the program and the shape Model/ToolsPar.v's protocol is written for; every run of a
   task (the single one, a goroutine's, the inline one) is handed the call's tool options *)
Theorem gen_parallel_shape_agrees :
  Gen.ToolNode.par_goroutine_prog = prog_ok
  /\ Gen.ToolNode.par_single_len = 1%Z /\ Gen.ToolNode.par_single_index = 0%Z
  /\ Gen.ToolNode.par_spawn_from = 1%Z /\ (forall i, Gen.ToolNode.par_spawn_cell i = i)
  /\ Gen.ToolNode.par_inline_index = 0%Z
  /\ Gen.ToolNode.par_options_handed_on = true.
Proof. repeat split; reflexivity. Qed.

(* non-vacuity: the generated functions compute — two calls, a streamable-only and an invokable tool, a tool
   option; the second call unknown without / with a handler; a goroutine task that panics *)
Example gen_invoke_nonvacuous :
  let impl := mkTI (fun (os : list (topt string)) a => if String.eqb a "boom" then TPanic else TOk (concat_strings (impl_specific 1%N os) ++ a)%string)
                   (fun (os : list (topt string)) a => SOk [a; "!"] None) in
  let cfg_tl := [("ta", (KInv, impl)); ("tb", (KStr, impl))] in
  let opts := map (gen_opt string (tooldecl (list (topt string)))) [ToolsOpts.WithToolOption [(1%N, "<o>")]] in
  let invoke h calls := Gen.ToolNode.Invoke _ _ _ _ tt (m_newRunnablePacker string) (m_RP_Invoke string) (m_convTools string) (m_parallel string)
                          (node_of string cfg_tl h) None (msg_of "assistant" calls) opts in
  let stream h calls := Gen.ToolNode.Stream _ _ _ _ tt (m_newRunnablePacker string) (m_RP_Stream string) (m_convTools string) (m_parallel string)
                          (node_of string cfg_tl h) None (msg_of "assistant" calls) opts in
  invoke None [mkCall "c0" "tb" "x"; mkCall "c1" "ta" "y"] = Ok [Some ("x!", "c0"); Some ("<o>y", "c1")]
  /\ invoke None [mkCall "c0" "tb" "x"; mkCall "c1" "zz" "y"] = Err E_UNKNOWN
  /\ invoke (Some (fun n a => TOk ("unk:" ++ n)%string)) [mkCall "c0" "tb" "x"; mkCall "c1" "zz" "y"] = Ok [Some ("x!", "c0"); Some ("unk:zz", "c1")]
  /\ invoke None [mkCall "c0" "tb" "x"; mkCall "c1" "ta" "boom"] = Err E_PANIC
  /\ invoke None [mkCall "c0" "ta" "boom"; mkCall "c1" "ta" "y"] = Panic
  /\ stream None [mkCall "c0" "tb" "x"; mkCall "c1" "ta" "y"]
     = Ok [Some ([Ok [Some ("x", "c0"); None]; Ok [Some ("!", "c0"); None]], None); Some ([Ok [None; Some ("<o>y", "c1")]], None)].
Proof. vm_compute. repeat split; reflexivity. Qed.
