(* Proofs/GenAgreeCalcBranch.v — property C01: the Gallina function tools/go2v translated statement by statement
   from runner.calculateBranch (compose/graph_run.go -> Gen/CalcBranch.v) is, for all arguments and whatever the
   untranslated code it calls does (Section variables), the hand-written specification [calculate_branch] of
   Model/CalcBranchSpec.v (gen_calculateBranch_agrees); with Proofs/CalcBranchModel.v this makes it the model's
   [eval_branches] + [report_branch]:
     gen_calculateBranch_is_eval_branches   any-predecessor mode: equal outright;
     gen_calculateBranch_model              every mode: same selected nodes, same failure, reportBranch handed a
                                            duplicate-free list with exactly the elements of the model's skipped list;
     resolve_one_is_gen                     [resolve_one] of Model/Graph.v (one completed task of calculateNextTasks)
                                            routes the output to the data successors and to what the GENERATED function
                                            returns.
   A branch whose choice is appended twice, a skipped set that forgets to drop the selected nodes, a dropped error
   check, a `break` turned into `continue` … make gen_calculateBranch_agrees stop compiling. *)
From Eino Require Import Base.Util Model.Graph Model.ImpGenLib Model.CalcBranchSpec Proofs.CalcBranchModel.
From Eino Require Gen.CalcBranch.

Lemma fold_left_ext2 : forall {A B} (f g : A -> B -> A) l a,
  (forall a b, f a b = g a b) -> fold_left f l a = fold_left g l a.
Proof. intros A B f g l; induction l as [|b l IH]; intros a H; simpl; [reflexivity|]. rewrite H. apply IH, H. Qed.

Lemma fold_res_ext : forall {S A} (f g : S -> A -> res S) l s,
  (forall s a, f s a = g s a) -> fold_res f l s = fold_res g l s.
Proof.
  intros S A f g l s H. unfold fold_res. apply fold_left_ext2. intros r a. destruct r; simpl; [apply H|reflexivity|reflexivity].
Qed.

(* the search loop `flag := s0; for _, w := range ws { if node == w { flag = v; break } }`, with or without the
   break, whichever way round the comparison is written: flag = v iff node is among ws *)
Lemma brk_loop_stays : forall (c : key -> bool) (v : bool) ws (s : bool),
  fold_left (fun (st_ : bool * bool) w => let '(flag, brk) := st_ in
               if brk then st_ else if c w then (v, true) else (flag, brk)) ws (s, true) = (s, true).
Proof. intros c v ws s; induction ws as [|w ws IH]; simpl; [reflexivity|exact IH]. Qed.

Lemma brk_loop_gen : forall (c : key -> bool) node (v s0 : bool) ws,
  (forall w, c w = N.eqb node w) ->
  fold_left (fun (st_ : bool * bool) w => let '(flag, brk) := st_ in
               if brk then st_ else if c w then (v, true) else (flag, brk)) ws (s0, false)
  = (if memb node ws then v else s0, memb node ws).
Proof.
  intros c node v s0 ws Hc; induction ws as [|w ws IH]; simpl; [reflexivity|].
  rewrite Hc. destruct (N.eqb node w); simpl; [apply brk_loop_stays|exact IH].
Qed.

Lemma brk_loop : forall node (v s0 : bool) ws,
  fold_left (fun (st_ : bool * bool) w => let '(flag, brk) := st_ in
               if brk then st_ else if key_eqb node w then (v, true) else (flag, brk)) ws (s0, false)
  = (if memb node ws then v else s0, memb node ws).
Proof. intros; apply brk_loop_gen with (c := fun w => key_eqb node w). reflexivity. Qed.

Lemma brk_loop_sym : forall node (v s0 : bool) ws,
  fold_left (fun (st_ : bool * bool) w => let '(flag, brk) := st_ in
               if brk then st_ else if key_eqb w node then (v, true) else (flag, brk)) ws (s0, false)
  = (if memb node ws then v else s0, memb node ws).
Proof. intros; apply brk_loop_gen with (c := fun w => key_eqb w node). intros w; unfold key_eqb; apply N.eqb_sym. Qed.

Lemma nobrk_loop_gen : forall (c : key -> bool) node (v s0 : bool) ws,
  (forall w, c w = N.eqb node w) ->
  fold_left (fun (flag : bool) w => if c w then v else flag) ws s0
  = (if memb node ws then v else if memb node ws then v else s0).
Proof.
  intros c node v s0 ws Hc. revert s0; induction ws as [|w ws IH]; intros s0; simpl; [reflexivity|].
  rewrite Hc, IH. destruct (N.eqb node w); simpl; [|reflexivity].
  destruct (memb node ws); reflexivity.
Qed.

Lemma nobrk_loop : forall node (v s0 : bool) ws,
  fold_left (fun (flag : bool) w => if key_eqb node w then v else flag) ws s0 = (if memb node ws then v else s0).
Proof.
  intros. rewrite nobrk_loop_gen with (node := node) by reflexivity. destruct (memb node ws); reflexivity.
Qed.

Lemma nobrk_loop_sym : forall node (v s0 : bool) ws,
  fold_left (fun (flag : bool) w => if key_eqb w node then v else flag) ws s0 = (if memb node ws then v else s0).
Proof.
  intros. rewrite nobrk_loop_gen with (node := node) by (intros w; unfold key_eqb; apply N.eqb_sym).
  destruct (memb node ws); reflexivity.
Qed.

Lemma s_del_absent : forall k s, memb k s = false -> s_del k s = s.
Proof.
  intros k s; induction s as [|x s IH]; simpl; intros H; [reflexivity|].
  apply orb_false_iff in H. destruct H as [H1 H2]. rewrite N.eqb_sym, H1. simpl. f_equal. apply IH, H2.
Qed.

(* the loops that delete keys from the candidate set, with or without the (redundant) presence test, in any order:
   what stays are the candidates that are in none of the lists *)
Lemma filter_filter : forall {A} (f g : A -> bool) l, filter f (filter g l) = filter (fun x => g x && f x) l.
Proof.
  intros A f g l; induction l as [|x l IH]; simpl; [reflexivity|].
  destruct (g x); simpl; [destruct (f x); simpl; rewrite IH; reflexivity|exact IH].
Qed.

Lemma fold_del_filter : forall ks sk,
  fold_left (fun (s : list key) k => s_del k s) ks sk = filter (fun x => negb (memb x ks)) sk.
Proof.
  intros ks; induction ks as [|k ks IH]; intros sk; simpl.
  - induction sk as [|x sk IHs]; simpl; [reflexivity|]. f_equal. exact IHs.
  - rewrite IH. unfold s_del. rewrite filter_filter. apply filter_ext. intros x.
    unfold memb; simpl. destruct (N.eqb x k); reflexivity.
Qed.

Lemma fold_testdel_filter : forall ks sk,
  fold_left (fun (s : list key) k => if s_has k s then s_del k s else s) ks sk = filter (fun x => negb (memb x ks)) sk.
Proof.
  intros ks sk. rewrite <- fold_del_filter. apply fold_left_ext2.
  intros s k; unfold s_has; destruct (memb k s) eqn:E; [reflexivity|symmetry; apply s_del_absent, E].
Qed.

Lemma fold_snoc_id : forall {A} (l acc : list A), fold_left (fun (st_ : list A) x => st_ ++ [x]) l acc = acc ++ l.
Proof.
  intros A l; induction l as [|x l IH]; intros acc; simpl; [symmetry; apply app_nil_r|].
  rewrite IH, <- app_assoc. reflexivity.
Qed.

Section A.
  Variables V B CM : Type.
  Variable zero_value : V.
  Variable err_code : nat -> N.
  Variable end_nodes : B -> list key.
  Variable pre_handle : key -> nat -> V -> bool -> res V.
  Variable branch_invoke : B -> V -> res (list key).
  Variable branch_collect : B -> V -> res (list key).
  Variable report_branch : CM -> key -> list key -> res CM.

  Theorem gen_calculateBranch_agrees : forall cur branches controls input isStream cm,
    Gen.CalcBranch.calculateBranch V B CM zero_value err_code end_nodes pre_handle branch_invoke branch_collect report_branch
      cur branches controls input isStream cm
    = calculate_branch V B CM zero_value err_code end_nodes pre_handle branch_invoke branch_collect report_branch
      cur branches controls input isStream cm.
  Proof.
    intros cur branches controls input isStream cm.
    try reflexivity. (* the neutral file (translator tie unavailable) re-exports the specification *)
    all: unfold Gen.CalcBranch.calculateBranch, calculate_branch.
    all: destruct (Nat.ltb (List.length input) (List.length branches)); [reflexivity|].
    all: cbv zeta.
    all: match goal with |- res_bind (fold_res ?f ?l ?s) _ = _ =>
      replace (fold_res f l s) with (fold_res (branch_step V B zero_value end_nodes pre_handle branch_invoke branch_collect cur isStream) l s)
        by (symmetry; apply fold_res_ext; intros [[inp ret] sk] [i b]; unfold branch_step; simpl fst; simpl snd;
            destruct (pre_handle cur i (l_get zero_value i inp) isStream) as [v| |]; simpl; try reflexivity;
            destruct isStream;
            [ destruct (branch_collect b (l_get zero_value i (l_set i v inp))) as [ws| |]
            | destruct (branch_invoke b (l_get zero_value i (l_set i v inp))) as [ws| |] ]; simpl; try reflexivity;
            do 2 f_equal; unfold add_unselected, s_elems; apply fold_left_ext2; intros sk0 node;
            first [rewrite brk_loop | rewrite brk_loop_sym | rewrite nobrk_loop | rewrite nobrk_loop_sym];
            destruct (memb node ws); reflexivity)
    end.
    all: unfold s_empty.
    all: destruct (fold_res _ _ _) as [[[inp ret] sk]| |]; simpl; try reflexivity.
    all: rewrite fold_snoc_id; simpl; unfold s_elems, del_all.
    all: rewrite ?fold_testdel_filter, ?fold_del_filter, ?filter_filter.
    all: match goal with |- res_bind (report_branch _ _ (filter ?f ?l)) _ = res_bind (report_branch _ _ (filter ?g ?l)) _ =>
           replace (filter f l) with (filter g l); [reflexivity|]
         end.
    all: apply filter_ext; intros x; destruct (memb x ret), (memb x controls); reflexivity.
  Qed.
End A.

Section Tie.
  Variable V : Type.
  Variable ops : vops V.

  (* the generated function on a node of the model *)
  Definition gen_on_node (CM : Type) (rb : CM -> key -> list key -> res CM) (ec : nat -> N)
             (n : node) (out : V) (isStream : bool) (cm : CM) : res (list key * CM) :=
    Gen.CalcBranch.calculateBranch V branch CM (v_zero ops) ec b_ends (no_pre_handler V) (model_invoke V ops) (model_invoke V ops) rb
      (n_key n) (n_branches n) (n_csucc n) (repeat out (List.length (n_branches n))) isStream cm.

  Theorem gen_calculateBranch_model : forall CM rb ec n out isStream cm,
    gen_on_node CM rb ec n out isStream cm
    = if all_legal V ops (n_branches n) out
      then do cm' <- rb cm (n_key n) (spec_skipped V ops n out); Ok (all_selected V ops (n_branches n) out, cm')
      else Err eBranch.
  Proof. intros. unfold gen_on_node. rewrite gen_calculateBranch_agrees. apply spec_calculate_branch_model. Qed.

  Theorem gen_calculateBranch_is_eval_branches : forall ec g n out isStream cs,
    g_mode g = Pregel ->
    gen_on_node (chans V) (fun cs k sk => report_branch V g k sk cs) ec n out isStream cs
    = do ss <- eval_branches V ops n out;
      do cs' <- report_branch V g (n_key n) (snd ss) cs;
      Ok (fst ss, cs').
  Proof. intros. unfold gen_on_node. rewrite gen_calculateBranch_agrees. apply spec_calculate_branch_pregel. assumption. Qed.

  (* one completed task in any-predecessor mode: the receivers are the data successors and what the generated
     calculateBranch returns *)
  Theorem resolve_one_is_gen : forall ec g n out cs,
    g_mode g = Pregel ->
    resolve_one V ops g n out cs
    = do r <- gen_on_node (chans V) (fun cs k sk => report_branch V g k sk cs) ec n out false cs;
      Ok (snd r, map (fun t => (t, (n_key n, edge_value V ops n t out))) (fst r ++ n_dsucc n),
          map (fun t => (t, n_key n)) (n_csucc n ++ fst r)).
  Proof.
    intros ec g n out cs Hm. rewrite gen_calculateBranch_is_eval_branches by exact Hm.
    unfold resolve_one. destruct (eval_branches V ops n out) as [[sel sk]| |]; simpl; try reflexivity.
    destruct (report_branch V g (n_key n) sk cs); reflexivity.
  Qed.
End Tie.

(* non-vacuity: a node with two branches over {3,4,5} / {4,6} and a direct control successor 6; the first branch
   selects 3 and 4, the second selects 4: selected = [3;4;4]; 5 is skipped (6 is a direct successor, 4 was selected) *)
Example ex_gen_calculateBranch :
  let n := {| n_key := 2; n_kind := KLambda; n_outkey := None; n_dsucc := [6%N]; n_csucc := [6%N]; n_dmap := [];
              n_branches := [ {| b_ends := [3;4;5]%N; b_nodata := false; b_table := [[3;4]%N] |};
                              {| b_ends := [4;6]%N; b_nodata := false; b_table := [[4%N]] |} ] |} in
  gen_on_node value tree_ops (list (key * list key)) (fun cm k sk => Ok (cm ++ [(k, sk)])) (fun _ => 0%N) n (VAtom 7) false []
  = Ok ([3;4;4]%N, [(2%N, [5%N])]).
Proof. vm_compute. reflexivity. Qed.
