(* Proofs/TypesLattice.v — facts about the assignability lattice of Model/Types.v *)
From Eino Require Import Base.Util Model.Types.

Lemma ty_eqb_eq : forall a b, ty_eqb a b = true <-> a = b.
Proof.
  intros a b; destruct a, b; simpl; split; intro H; try discriminate; try reflexivity;
    try (apply N.eqb_eq in H; subst; reflexivity);
    try (inversion H; subst; apply N.eqb_refl).
Qed.

Lemma ty_eqb_refl : forall a, ty_eqb a a = true.
Proof. intro a; apply ty_eqb_eq; reflexivity. Qed.

Lemma memN_In : forall x l, memN x l = true <-> In x l.
Proof.
  intros x l; unfold memN; rewrite existsb_exists; split.
  - intros [y [Hy He]]; apply N.eqb_eq in He; subst; exact Hy.
  - intro H; exists x; split; [exact H | apply N.eqb_refl].
Qed.

Lemma subsetN_spec : forall a b, subsetN a b = true <-> (forall x, In x a -> In x b).
Proof.
  intros a b; unfold subsetN; rewrite forallb_forall; split; intros H x Hx.
  - apply memN_In; apply H; exact Hx.
  - apply memN_In; apply H; exact Hx.
Qed.

Lemma subsetN_trans : forall a b c, subsetN a b = true -> subsetN b c = true -> subsetN a c = true.
Proof.
  intros a b c H1 H2; rewrite subsetN_spec in *; intros x Hx; apply H2, H1, Hx.
Qed.

Lemma subsetN_nil : forall b, subsetN [] b = true.
Proof. reflexivity. Qed.

Section Lattice.
  Variable u : univ.

  Lemma implements_trans : forall t a b,
    implements u t a = true -> implements u a b = true -> implements u t b = true.
  Proof.
    unfold implements; intros t a b H1 H2; eapply subsetN_trans; eassumption.
  Qed.

  Lemma implements_any : forall t, implements u t TAny = true.
  Proof. intro t; reflexivity. Qed.

  (* after the repair F-C07b the assertion made by the framework is exactly Go assignability *)
  Lemma assert_type_assignable : forall d t, assert_type u d t = dyn_assignable u d t.
  Proof.
    intros d t; destruct d as [|c]; simpl; [reflexivity|].
    destruct t as [c'|i|]; simpl.
    - rewrite orb_false_r; reflexivity.
    - reflexivity.
    - reflexivity.
  Qed.

  Lemma v0_implies_assert : forall d t, assert_type_v0 u d t = true -> assert_type u d t = true.
  Proof. intros d t; destruct d; simpl; [discriminate | trivial]. Qed.

  Lemma assert_v0_non_nil : forall c t, assert_type_v0 u (DVal c) t = assert_type u (DVal c) t.
  Proof. reflexivity. Qed.

  (* Must is sound: every value the upstream static type admits passes the downstream assertion *)
  Lemma must_sound : forall i a d,
    check_assignable u (Some i) (Some a) = Must ->
    has_type u d i = true -> assert_type u d a = true.
  Proof.
    intros i a d Hc Hd. rewrite assert_type_assignable. unfold has_type in Hd.
    unfold check_assignable in Hc.
    destruct (ty_eqb a i) eqn:E.
    - apply ty_eqb_eq in E; subst; exact Hd.
    - destruct (is_iface a && implements u i a) eqn:E2.
      + apply andb_true_iff in E2; destruct E2 as [Ia Im].
        destruct d as [|c]; unfold dyn_assignable in *.
        * exact Ia.
        * rewrite Ia. rewrite andb_true_l. apply orb_true_iff in Hd; destruct Hd as [Hd|Hd].
          -- apply ty_eqb_eq in Hd; subst. rewrite Im. apply orb_true_r.
          -- apply andb_true_iff in Hd; destruct Hd as [_ Hd].
             rewrite (implements_trans _ _ _ Hd Im). apply orb_true_r.
      + destruct (is_iface i); [destruct (implements u a i)|]; discriminate.
  Qed.

  Lemma may_upstream_iface : forall i a,
    check_assignable u (Some i) (Some a) = May -> is_iface i = true.
  Proof.
    intros i a; unfold check_assignable.
    destruct (ty_eqb a i); [discriminate|].
    destruct (is_iface a && implements u i a); [discriminate|].
    destruct (is_iface i); [reflexivity | discriminate].
  Qed.

  Lemma concrete_pair_equal : forall x y,
    check_assignable u (Some (TConc x)) (Some (TConc y)) <> MustNot -> x = y.
  Proof.
    intros x y; unfold check_assignable; simpl.
    destruct (N.eqb y x) eqn:E; [apply N.eqb_eq in E; auto|].
    intro H; exfalso; apply H; reflexivity.
  Qed.

  (* a concrete upstream is never May: it is statically decided *)
  Lemma concrete_upstream_static : forall x a,
    check_assignable u (Some (TConc x)) (Some a) <> MustNot ->
    check_assignable u (Some (TConc x)) (Some a) = Must.
  Proof.
    intros x a; unfold check_assignable; simpl.
    destruct (ty_eqb a (TConc x)); [reflexivity|].
    destruct (is_iface a && implements u (TConc x) a); [reflexivity|].
    intro H; exfalso; apply H; reflexivity.
  Qed.

  Lemma check_none_l : forall a, check_assignable u None a = MustNot.
  Proof. reflexivity. Qed.
  Lemma check_none_r : forall i, check_assignable u i None = MustNot.
  Proof. intro i; destruct i; reflexivity. Qed.

  Lemma check_refl : forall t, check_assignable u (Some t) (Some t) = Must.
  Proof. intro t; unfold check_assignable; rewrite ty_eqb_refl; reflexivity. Qed.

  Lemma assert_any : forall d, assert_type u d TAny = true.
  Proof. intro d; destruct d; reflexivity. Qed.
End Lattice.
