(* Proofs/StateLockDrive.v — C11: whatever configuration the replay of Model/StateLockDrive.v
   returns is reachable in the transition system (by [pstep] moves only), so every theorem
   about [preach] configurations applies to the configuration the correspondence check
   computes from an observed log. *)
From Eino Require Import Base.Util Model.StateLock Model.StateLockLTS Model.StateLockDrive Proofs.StateLockLTS.

Section Sound.
  Variable f : forest.
  Variable x0 : X.

  Notation pstp := (pstep sstate X gen_state cs_fun leaf_out merge f x0).
  Notation prch := (preach sstate X gen_state cs_fun leaf_out merge f x0).

  Ltac inv H := inversion H; subst; clear H.

  Lemma adv_pass_reach : forall c, prch c -> prch (fst (adv_pass sstate X gen_state cs_fun leaf_out merge f x0 c)).
  Proof.
    intros c Hc. unfold adv_pass.
    assert (H : forall l cb, prch (fst cb) ->
      prch (fst (fold_left (fun cb ch => match pstp (fst cb) ch with Some c' => (c', true) | None => cb end) l cb))).
    { induction l; simpl; intros cb Hcb; auto. apply IHl.
      destruct (pstp (fst cb) a) eqn:E; simpl; auto. econstructor; eauto. }
    apply H. exact Hc.
  Qed.

  Lemma saturate_reach : forall fuel c, prch c -> prch (saturate sstate X gen_state cs_fun leaf_out merge f x0 fuel c).
  Proof.
    induction fuel; simpl; intros c Hc; auto.
    pose proof (adv_pass_reach c Hc) as H.
    destruct (adv_pass sstate X gen_state cs_fun leaf_out merge f x0 c) as [c' moved]. simpl in H.
    destruct moved; auto.
  Qed.

  Lemma sat_reach : forall c, prch c -> prch (sat f x0 c).
  Proof. intros. apply saturate_reach. auto. Qed.

  Lemma do_cs_reach : forall c i n c', prch c -> do_cs sstate X gen_state cs_fun leaf_out merge f x0 c i n = Some c' -> prch c'.
  Proof.
    intros c i n c' Hc H. unfold do_cs in H.
    destruct (pstp c (ChAcq i n)) as [c1|] eqn:E1; [|discriminate].
    destruct (pstp c1 (ChLoad i n)) as [c2|] eqn:E2; [|discriminate].
    destruct (pstp c2 (ChStore i n)) as [c3|] eqn:E3; [|discriminate].
    econstructor; [|exact H]. econstructor; [|exact E3]. econstructor; [|exact E2]. econstructor; [|exact E1]. exact Hc.
  Qed.

  Lemma ensure_run_reach : forall c r c', prch c -> ensure_run sstate X gen_state cs_fun leaf_out merge f x0 c r = Some c' -> prch c'.
  Proof.
    intros c r c' Hc H. unfold ensure_run in H. destruct (find_inst sstate X c r 0).
    - inv H. auto.
    - econstructor; eauto.
  Qed.

  Lemma drive_event_reach : forall c e c', prch c -> drive_event f x0 c e = DOk c' -> prch c'.
  Proof.
    intros c e c' Hc H. unfold drive_event in H.
    destruct (find_node f (e_node e)) as [[gi a0]|]; [|discriminate].
    destruct (ensure_run sstate X gen_state cs_fun leaf_out merge f x0 c (e_run e)) as [c1|] eqn:E1; [|discriminate].
    destruct (find_inst sstate X (sat f x0 c1) (e_run e) gi) as [i|]; [|discriminate].
    destruct (lookup sstate X f (sat f x0 c1) i (e_node e)) as [[[J a] [p [cs|]]]|]; try discriminate.
    destruct (next_cs X a p) as [k|]; [|discriminate].
    destruct (kind_eqb k (e_kind e)); [|discriminate].
    destruct (do_cs sstate X gen_state cs_fun leaf_out merge f x0 (sat f x0 c1) i (e_node e)) as [c3|] eqn:E3; [|discriminate].
    inv H. eapply do_cs_reach; [|exact E3]. apply sat_reach. eapply ensure_run_reach; eauto.
  Qed.

  Lemma drive_snap_reach : forall mods r c gs c', prch c -> drive_snap f x0 mods r c gs = DOk c' -> prch c'.
  Proof.
    intros mods r c [g s] c' Hc H. unfold drive_snap in H.
    destruct (find_inst sstate X c r g) as [i|]; [|discriminate].
    destruct (nth_error (c_insts c) i) as [J|]; [|discriminate].
    destruct (negb (stateful sstate X f J)); [discriminate|].
    destruct (i_obj J) as [o|]; [|discriminate].
    destruct (nth_error (c_objs c) o) as [ro|]; [|discriminate].
    destruct (negb (s_eqb (o_val ro) s)); [discriminate|].
    destruct (pstp c (ChResume o (if nat_mem g mods then modifier else fun s0 => s0))) as [c1|] eqn:E; [|discriminate].
    inv H. econstructor; eauto.
  Qed.

  Lemma drive_snaps_reach : forall mods r snaps c c', prch c -> drive_snaps f x0 mods r c snaps = DOk c' -> prch c'.
  Proof.
    induction snaps as [|gs snaps IH]; simpl; intros c c' Hc H.
    - inv H. auto.
    - destruct (drive_snap f x0 mods r c gs) as [c1|] eqn:E; [|discriminate].
      eapply IH; [|exact H]. eapply drive_snap_reach; eauto.
  Qed.

  Lemma drive_items_reach : forall l c c', prch c -> drive_items f x0 c l = DOk c' -> prch c'.
  Proof.
    induction l as [|it l IH]; simpl; intros c c' Hc H.
    - inv H. auto.
    - destruct it as [e|r mods snaps].
      + destruct (drive_event f x0 c e) as [c1|] eqn:E; [|discriminate].
        eapply IH; [|exact H]. eapply drive_event_reach; eauto.
      + destruct (drive_resume f x0 c r mods snaps) as [c1|] eqn:E; [|discriminate].
        eapply IH; [|exact H]. unfold drive_resume in E.
        destruct (negb (forallb (fun g => nat_mem g (map fst snaps)) mods)); [discriminate|].
        destruct (ensure_run sstate X gen_state cs_fun leaf_out merge f x0 c r) as [c0|] eqn:E0; [|discriminate].
        eapply drive_snaps_reach; [|exact E]. apply sat_reach. eapply ensure_run_reach; eauto.
  Qed.

  Lemma start_runs_reach : forall rs c c', prch c -> start_runs f x0 c rs = DOk c' -> prch c'.
  Proof.
    induction rs as [|r rs IH]; simpl; intros c c' Hc H.
    - inv H. auto.
    - destruct (ensure_run sstate X gen_state cs_fun leaf_out merge f x0 c r) as [c1|] eqn:E; [|discriminate].
      eapply IH; [|exact H]. eapply ensure_run_reach; eauto.
  Qed.

  Theorem drive_sound : forall runs l c, drive f x0 runs l = DOk c -> prch c.
  Proof.
    intros runs l c H. unfold drive in H.
    destruct (drive_items f x0 (init_cfg sstate X) l) as [c1|] eqn:E1; [|discriminate].
    destruct (start_runs f x0 c1 (map N.of_nat (seq 0 (N.to_nat runs)))) as [c2|] eqn:E2; [|discriminate].
    inv H. apply sat_reach. eapply start_runs_reach; [|exact E2].
    eapply drive_items_reach; [|exact E1]. constructor.
  Qed.
End Sound.
