(* Proofs/OptionsAll.v — property C16 without the set of executing nodes as an input of the
   model: [would_call] (Model/OptionsAll.v) answers for every node of the forest; what a call
   reports is that answer filtered by [executes]; the pointwise comparison [within] used by
   Corr/C16.v accepts an observed entry iff it is the closed form. *)
From Eino Require Import Base.Util Model.Options Model.OptionsSpec Model.OptionsResume Model.OptionsAll
  Proofs.Options Proofs.OptionsResume Proofs.OptionsFired.
Local Open Scope N_scope.

Lemma force_key nd : n_key (force_node nd) = n_key nd. Proof. reflexivity. Qed.
Lemma force_kind nd : n_kind (force_node nd) = n_kind nd. Proof. reflexivity. Qed.

Lemma find_node_force k g :
  find_node k (force_graph g) = option_map force_node (find_node k g).
Proof.
  induction g as [|nd g IH]; simpl; [reflexivity|].
  destruct (N.eqb k (n_key nd)); [reflexivity|exact IH].
Qed.

Lemma nth_error_force F gi :
  nth_error (force_runs F) gi = option_map force_graph (nth_error F gi).
Proof. unfold force_runs. apply nth_error_map. Qed.

Lemma length_force F : List.length (force_runs F) = List.length F.
Proof. unfold force_runs. apply map_length. Qed.

Lemma keys_force g : map n_key (force_graph g) = map n_key g.
Proof. unfold force_graph. rewrite map_map. reflexivity. Qed.

Lemma keys_unique_force F : keys_unique F -> keys_unique (force_runs F).
Proof.
  intros HU gi g Hg. rewrite nth_error_force in Hg.
  destruct (nth_error F gi) as [g0|] eqn:Hg0; [|discriminate].
  simpl in Hg. inversion Hg; subst g. rewrite keys_force. exact (HU _ _ Hg0).
Qed.

Lemma resolve_force F : forall p gi,
  resolve (force_runs F) gi p = option_map force_node (resolve F gi p).
Proof.
  induction p as [|k rest IH]; intros gi; [reflexivity|].
  simpl. rewrite nth_error_force.
  destruct (nth_error F gi) as [g|]; [|reflexivity]. simpl.
  rewrite find_node_force. destruct (find_node k g) as [nd|]; [|reflexivity]. simpl.
  destruct rest as [|k2 rest]; [reflexivity|].
  destruct (n_kind nd) as [ty|gj]; [reflexivity|]. apply IH.
Qed.

Lemma executes_force F : forall p gi nd,
  resolve F gi p = Some nd -> executes (force_runs F) gi p = true.
Proof.
  induction p as [|k rest IH]; intros gi nd Hres; [reflexivity|].
  simpl in *. rewrite nth_error_force.
  destruct (nth_error F gi) as [g|]; [|discriminate]. simpl.
  rewrite find_node_force. destruct (find_node k g) as [nd0|]; [|discriminate]. simpl.
  destruct rest as [|k2 rest]; [reflexivity|].
  destruct (n_kind nd0) as [ty|gj]; [discriminate|]. exact (IH gj nd Hres).
Qed.

(* what a node is handed does not depend on which nodes execute: every component of the
   forest, executing or not, has its entry in [would_call], and it is the closed form *)
Lemma would_call_complete F opts rs p nd ty :
  keys_unique F -> would_call F opts = Ok rs ->
  resolve F 0 p = Some nd -> n_kind nd = KComp ty ->
  exists r, In r rs /\ r_path r = p /\ r_items r = Some (spec_delivered opts p ty).
Proof.
  intros HU H Hres Hk. unfold would_call in H.
  apply (run_call_delivered_complete (force_runs F) opts rs p (force_node nd) ty
           (keys_unique_force F HU) H).
  - rewrite resolve_force, Hres. reflexivity.
  - exact Hk.
  - exact (executes_force F p 0 nd Hres).
Qed.

Lemma would_call_sound F opts rs r its :
  keys_unique F -> would_call F opts = Ok rs -> In r rs -> r_items r = Some its ->
  exists nd ty, resolve F 0 (r_path r) = Some nd /\ n_kind nd = KComp ty /\
                its = spec_delivered opts (r_path r) ty /\ Forall (fun it => fst it = ty) its.
Proof.
  intros HU H Hin Hits. unfold would_call in H.
  destruct (run_call_delivered_sound (force_runs F) opts rs r its (keys_unique_force F HU) H Hin Hits)
    as [nd' [ty [_ [Hres [Hk [He Hall]]]]]].
  rewrite resolve_force in Hres. destruct (resolve F 0 (r_path r)) as [nd|]; [|discriminate].
  simpl in Hres. inversion Hres; subst nd'. exists nd, ty. auto.
Qed.

(* ------------------------------------------------------------------ the distribution of the
   options does not look at n_runs *)
Lemma common_to_nodes_force o : forall g m,
  common_to_nodes o (force_graph g) m = common_to_nodes o g m.
Proof.
  unfold common_to_nodes. induction g as [|nd g IH]; intros m; [reflexivity|].
  simpl. rewrite IH. reflexivity.
Qed.

Lemma extract_path_force g o q m :
  extract_path (force_graph g) o q m = extract_path g o q m.
Proof.
  destruct q as [|k rest]; [reflexivity|]. simpl.
  rewrite find_node_force. destruct (find_node k g) as [nd|]; reflexivity.
Qed.

Lemma extract_paths_force g o : forall qs m,
  extract_paths (force_graph g) o qs m = extract_paths g o qs m.
Proof.
  induction qs as [|q qs IH]; intros m; [reflexivity|].
  simpl. rewrite extract_path_force. destruct (extract_path g o q m); simpl; auto.
Qed.

Lemma extract_one_force g o m :
  extract_one (force_graph g) o m = extract_one g o m.
Proof.
  unfold extract_one. destruct (o_paths o).
  - destruct (o_items o); [reflexivity|]. rewrite common_to_nodes_force. reflexivity.
  - apply extract_paths_force.
Qed.

Lemma extract_option_force g : forall opts m,
  extract_option (force_graph g) opts m = extract_option g opts m.
Proof.
  induction opts as [|o opts IH]; intros m; [reflexivity|].
  simpl. rewrite extract_one_force. destruct (extract_one g o m); simpl; auto.
Qed.

Lemma res_mapM_map {A B C} (f : B -> res C) (h : A -> B) l :
  res_mapM f (map h l) = res_mapM (fun a => f (h a)) l.
Proof. induction l as [|a l IH]; simpl; [reflexivity|]. rewrite IH. reflexivity. Qed.

Lemma validate_force : forall fuel F gi opts,
  validate fuel (force_runs F) gi opts = validate fuel F gi opts.
Proof.
  induction fuel as [|f IH]; intros F gi opts; [reflexivity|].
  simpl. rewrite nth_error_force.
  destruct (nth_error F gi) as [g|]; [|reflexivity]. simpl.
  rewrite extract_option_force.
  destruct (extract_option g opts []) as [m| |]; simpl; try reflexivity.
  unfold force_graph at 1. rewrite res_mapM_map.
  rewrite (res_mapM_ext
             (fun a => match n_kind (force_node a) with
                       | KComp _ => Ok tt
                       | KSub gj => do os <- convert_opts (om_get (n_key (force_node a)) m);
                                    do _ <- validate f (force_runs F) gj os; Ok tt
                       end)
             (fun nd => match n_kind nd with
                        | KComp _ => Ok tt
                        | KSub gj => do os <- convert_opts (om_get (n_key nd) m);
                                     do _ <- validate f F gj os; Ok tt
                        end)); [reflexivity|].
  intros nd. simpl. destruct (n_kind nd) as [ty|gj]; [reflexivity|].
  destruct (convert_opts (om_get (n_key nd) m)); simpl; auto. rewrite IH. reflexivity.
Qed.

(* a call fails on the forest iff it fails on the forest in which every node executes — as long
   as no node is handed a value of another type than its own (uniform options): the only
   failure that depends on execution is convertOption inside a node *)
Lemma run_graph_force fuel : forall F gi pre inh opts rs rs',
  keys_unique F ->
  run_graph fuel F gi pre inh opts = Ok rs ->
  run_graph fuel (force_runs F) gi pre inh opts = Ok rs' ->
  forall r, In r rs <->
            (In r rs' /\ exists p', r_path r = pre ++ p' /\ executes F gi p' = true).
Proof.
  induction fuel as [|f IH]; intros F gi pre inh opts rs rs' HU H H' r; [discriminate|].
  pose proof H as Hsound. 
  rewrite run_graph_S in H, H'. rewrite nth_error_force, validate_force in H'.
  destruct (nth_error F gi) as [g|] eqn:Hg; [|discriminate]. cbn [option_map] in H'.
  apply res_bind_ok in H. destruct H as [m [Hv H]].
  rewrite Hv in H'. cbn [res_bind] in H'.
  pose proof H as HF. apply flat_mapM_ok in HF. destruct HF as [ls [HF _]].
  pose proof H' as HF'. apply flat_mapM_ok in HF'. destruct HF' as [ls' [HF' _]].
  split.
  - intros Hr. split.
    + destruct (flat_mapM_in _ _ _ _ H Hr) as [nd [o [Hin [Ho Hro]]]].
      assert (Hin' : In (force_node nd) (force_graph g)) by (apply in_map; exact Hin).
      destruct (Forall2_in_l _ _ _ _ HF' Hin') as [o' Ho'].
      apply (flat_mapM_in_conv _ _ _ _ _ _ H' Hin' Ho').
      unfold node_run in Ho, Ho'. simpl in Ho'.
      destruct (n_runs nd); simpl in Ho; [|inversion Ho; subst; contradiction].
      destruct (n_kind nd) as [ty|gj].
      * destruct (convert_items ty (om_get (n_key nd) m)); simpl in *; try discriminate.
        inversion Ho; inversion Ho'; subst. exact Hro.
      * destruct (convert_opts (om_get (n_key nd) m)) as [os| |]; simpl in *; try discriminate.
        apply res_bind_ok in Ho. destruct Ho as [rs1 [Hrs1 Ho]]. inversion Ho; subst o. clear Ho.
        apply res_bind_ok in Ho'. destruct Ho' as [rs1' [Hrs1' Ho']]. inversion Ho'; subst o'. clear Ho'.
        destruct Hro as [<-|Hro]; [left; reflexivity|]. right.
        exact (proj1 (proj1 (IH _ _ _ _ _ _ _ HU Hrs1 Hrs1' r) Hro)).
    + destruct (run_graph_sound _ _ _ _ _ _ _ HU Hsound r Hr) as [p' [Hp [_ [Hex _]]]]. eauto.
  - intros [Hr [p' [Hp Hex]]].
    destruct (flat_mapM_in _ _ _ _ H' Hr) as [a [o' [Hin' [Ho' Hro']]]].
    apply in_map_iff in Hin'. destruct Hin' as [nd [<- Hin]].
    pose proof (find_node_unique g nd (HU _ _ Hg) Hin) as Hfind.
    destruct (Forall2_in_l _ _ _ _ HF Hin) as [o Ho].
    apply (flat_mapM_in_conv _ _ _ _ _ _ H Hin Ho).
    unfold node_run in Ho, Ho'. simpl in Ho'.
    destruct (n_kind nd) as [ty|gj] eqn:Hk.
    + destruct (convert_items ty (om_get (n_key nd) m)); simpl in *; try discriminate.
      * inversion Ho'; subst o'. destruct Hro' as [<-|[]]. simpl in Hp.
        apply app_inv_head in Hp. subst p'. simpl in Hex. rewrite Hg, Hfind in Hex.
        rewrite andb_true_r in Hex. rewrite Hex in Ho. simpl in Ho. inversion Ho; subst o.
        left. reflexivity.
    + destruct (convert_opts (om_get (n_key nd) m)) as [os| |]; simpl in *; try discriminate.
      apply res_bind_ok in Ho'. destruct Ho' as [rs1' [Hrs1' Ho']]. inversion Ho'; subst o'. clear Ho'.
      destruct Hro' as [<-|Hro'].
      * simpl in Hp. apply app_inv_head in Hp. subst p'. simpl in Hex. rewrite Hg, Hfind in Hex.
        rewrite andb_true_r in Hex. rewrite Hex in Ho. simpl in Ho.
        apply res_bind_ok in Ho. destruct Ho as [rs1 [Hrs1 Ho]]. inversion Ho; subst o.
        left. reflexivity.
      * destruct (run_graph_sound _ _ _ _ _ _ _ (keys_unique_force F HU) Hrs1' r Hro')
          as [p2 [Hp2 [Hne2 _]]].
        rewrite Hp2, <- app_assoc in Hp. apply app_inv_head in Hp. simpl in Hp. subst p'.
        rewrite (executes_cons F gi g nd p2 Hg Hfind Hne2), Hk in Hex.
        apply andb_prop in Hex. destruct Hex as [Hruns Hex2].
        rewrite Hruns in Ho. simpl in Ho.
        apply res_bind_ok in Ho. destruct Ho as [rs1 [Hrs1 Ho]]. inversion Ho; subst o. clear Ho.
        right. apply (IH _ _ _ _ _ _ _ HU Hrs1 Hrs1' r). split; [exact Hro'|]. eauto.
Qed.

(* the reports of the nodes that execute are the reports of all nodes, selected by [executes]:
   the set of executing nodes acts on what a call reports as a filter and as nothing else *)
Lemma run_call_selects F opts rs rs' :
  keys_unique F -> run_call F opts = Ok rs -> would_call F opts = Ok rs' ->
  forall r, In r rs <-> (In r rs' /\ executes F 0 (r_path r) = true).
Proof.
  intros HU H H' r. unfold would_call in H'.
  destruct (run_call_inv _ _ _ H) as [rs1 [Hrs1 ->]].
  destruct (run_call_inv _ _ _ H') as [rs1' [Hrs1' ->]].
  rewrite length_force in Hrs1'.
  pose proof (run_graph_force _ _ _ _ _ _ _ _ HU Hrs1 Hrs1' r) as Hiff. simpl in Hiff.
  split.
  - intros [<-|Hr]; [split; [left; reflexivity|reflexivity]|].
    apply Hiff in Hr. destruct Hr as [Hr [p' [-> Hex]]]. split; [right; exact Hr|exact Hex].
  - intros [[<-|Hr] Hex]; [left; reflexivity|]. right. apply Hiff. split; [exact Hr|]. eauto.
Qed.

Lemma bad_path_force F o : forall q gi, bad_path (force_runs F) o gi q = bad_path F o gi q.
Proof.
  induction q as [|k rest IH]; intros gi; [reflexivity|].
  simpl. rewrite nth_error_force. destruct (nth_error F gi) as [g|]; [|reflexivity]. simpl.
  rewrite find_node_force. destruct (find_node k g) as [nd|]; [|reflexivity]. simpl.
  destruct (n_kind nd) as [ty|gj]; [reflexivity|]. destruct rest; [reflexivity|]. apply IH.
Qed.

Lemma well_nested_force F : well_nested F -> well_nested (force_runs F).
Proof.
  intros HW gi g nd gj Hg Hin Hk. rewrite nth_error_force in Hg.
  destruct (nth_error F gi) as [g0|] eqn:Hg0; [|discriminate]. simpl in Hg. inversion Hg; subst g.
  apply in_map_iff in Hin. destruct Hin as [nd0 [<- Hin0]]. rewrite length_force.
  exact (HW gi g0 nd0 gj Hg0 Hin0 Hk).
Qed.

Lemma would_call_fails_iff F opts :
  keys_unique F -> well_nested F -> F <> [] -> Forall uniform opts ->
  (fails (would_call F opts) <-> fails (run_call F opts)).
Proof.
  intros HU HW Hne Huni. unfold would_call.
  rewrite (run_call_fails_iff F opts HU HW Hne Huni).
  rewrite (run_call_fails_iff (force_runs F) opts (keys_unique_force F HU) (well_nested_force F HW)).
  - split; intros [o [q [Ho [Hq Hb]]]]; exists o, q; repeat split; auto.
    + rewrite <- bad_path_force. exact Hb.
    + rewrite bad_path_force. exact Hb.
  - destruct F; [congruence|discriminate].
  - exact Huni.
Qed.

(* ------------------------------------------------------------------ one report per node path *)
Lemma node_run_paths fuel F
  (IH : forall gi pre inh opts rs, run_graph fuel F gi pre inh opts = Ok rs ->
        NoDup (map r_path rs) /\ forall r, In r rs -> exists k rest, r_path r = pre ++ k :: rest) :
  forall pre inh opts m nd o,
    node_run fuel F pre inh opts m nd = Ok o ->
    NoDup (map r_path o) /\ forall r, In r o -> exists rest, r_path r = pre ++ n_key nd :: rest.
Proof.
  intros pre inh opts m nd o Ho. unfold node_run in Ho.
  destruct (n_runs nd); simpl in Ho; [|inversion Ho; subst; split; [constructor|intros r []]].
  destruct (n_kind nd) as [ty|gj].
  - apply res_bind_ok in Ho. destruct Ho as [its [_ Ho]]. inversion Ho; subst o. simpl. split.
    + constructor; [intros []|constructor].
    + intros r [<-|[]]. exists []. reflexivity.
  - apply res_bind_ok in Ho. destruct Ho as [os [_ Ho]].
    apply res_bind_ok in Ho. destruct Ho as [rs1 [Hrs1 Ho]]. inversion Ho; subst o. clear Ho.
    destruct (IH _ _ _ _ _ Hrs1) as [Hnd Hpre]. simpl. split.
    + constructor; [|exact Hnd]. intros Hin. apply in_map_iff in Hin.
      destruct Hin as [r [Hp Hr]]. destruct (Hpre r Hr) as [k [rest Hp']].
      rewrite Hp', <- app_assoc in Hp. apply app_inv_head in Hp. discriminate.
    + intros r [<-|Hr]; [exists []; reflexivity|].
      destruct (Hpre r Hr) as [k [rest Hp']]. exists (k :: rest).
      rewrite Hp', <- app_assoc. reflexivity.
Qed.

Lemma nodup_app_intro {A} (l1 l2 : list A) :
  NoDup l1 -> NoDup l2 -> (forall x, In x l1 -> In x l2 -> False) -> NoDup (l1 ++ l2).
Proof.
  induction l1 as [|a l1 IH]; simpl; intros H1 H2 Hd; [exact H2|].
  inversion H1 as [|? ? Hna H1']; subst. constructor.
  - intros Hin. apply in_app_or in Hin. destruct Hin as [Hin|Hin]; [auto|].
    apply (Hd a); auto.
  - apply IH; auto. intros x Hx1 Hx2. apply (Hd x); auto.
Qed.

Lemma concat_paths_nodup pre (f : node -> res (list report)) :
  (forall nd o, f nd = Ok o ->
     NoDup (map r_path o) /\ forall r, In r o -> exists rest, r_path r = pre ++ n_key nd :: rest) ->
  forall g ls, Forall2 (fun a b => f a = Ok b) g ls -> NoDup (map n_key g) ->
    NoDup (map r_path (List.concat ls)) /\
    forall r, In r (List.concat ls) -> exists nd rest, In nd g /\ r_path r = pre ++ n_key nd :: rest.
Proof.
  intros Hf g ls HF. induction HF as [|a b g ls Hab HF IH]; intros Hnd.
  - simpl. split; [constructor|intros r []].
  - simpl in Hnd. inversion Hnd as [|? ? Hnotin Hnd']; subst.
    destruct (IH Hnd') as [IH1 IH2]. destruct (Hf a b Hab) as [Hb1 Hb2]. simpl. split.
    + rewrite map_app. apply nodup_app_intro; auto.
      intros p Hp1 Hp2. apply in_map_iff in Hp1. destruct Hp1 as [r1 [<- Hr1]].
      apply in_map_iff in Hp2. destruct Hp2 as [r2 [He Hr2]].
      destruct (Hb2 r1 Hr1) as [rest1 H1]. destruct (IH2 r2 Hr2) as [nd2 [rest2 [Hin2 H2]]].
      rewrite H1, H2 in He. apply app_inv_head in He. inversion He as [[Hk Hrest]].
      apply Hnotin. rewrite <- Hk. apply in_map. exact Hin2.
    + intros r Hr. apply in_app_or in Hr. destruct Hr as [Hr|Hr].
      * destruct (Hb2 r Hr) as [rest H1]. exists a, rest. split; [left; reflexivity|exact H1].
      * destruct (IH2 r Hr) as [nd [rest [Hin H2]]]. exists nd, rest. split; [right; exact Hin|exact H2].
Qed.

Lemma run_graph_paths fuel : forall F gi pre inh opts rs,
  keys_unique F -> run_graph fuel F gi pre inh opts = Ok rs ->
  NoDup (map r_path rs) /\ forall r, In r rs -> exists k rest, r_path r = pre ++ k :: rest.
Proof.
  induction fuel as [|f IH]; intros F gi pre inh opts rs HU H; [discriminate|].
  rewrite run_graph_S in H.
  destruct (nth_error F gi) as [g|] eqn:Hg; [|discriminate].
  apply res_bind_ok in H. destruct H as [m [_ H]].
  apply flat_mapM_ok in H. destruct H as [ls [HF ->]].
  destruct (concat_paths_nodup pre (node_run f F pre inh opts m)
              (fun nd o Ho => node_run_paths f F (fun gi' pre' inh' opts' rs' H' => IH F gi' pre' inh' opts' rs' HU H') pre inh opts m nd o Ho)
              g ls HF (HU _ _ Hg)) as [H1 H2].
  split; [exact H1|]. intros r Hr. destruct (H2 r Hr) as [nd [rest [_ Hp]]]. eauto.
Qed.

Lemma run_call_paths_nodup F opts rs :
  keys_unique F -> run_call F opts = Ok rs -> NoDup (map r_path rs).
Proof.
  intros HU H. destruct (run_call_inv _ _ _ H) as [rs1 [Hrs1 ->]].
  destruct (run_graph_paths _ _ _ _ _ _ _ HU Hrs1) as [Hnd Hpre]. simpl. constructor; [|exact Hnd].
  intros Hin. apply in_map_iff in Hin. destruct Hin as [r [Hp Hr]].
  destruct (Hpre r Hr) as [k [rest Hp']]. rewrite Hp' in Hp. discriminate.
Qed.

(* ------------------------------------------------------------------ what [within] means *)
Lemma nlist_eqb_eq x : forall y, nlist_eqb x y = true <-> x = y.
Proof.
  induction x as [|a x IH]; destruct y as [|b y]; simpl; split; intros H; try congruence; try discriminate.
  - apply andb_prop in H. destruct H as [H1 H2]. apply N.eqb_eq in H1. apply IH in H2. congruence.
  - inversion H; subst. rewrite N.eqb_refl. simpl. apply IH. reflexivity.
Qed.

Lemma entries_at_in p v l : In v (entries_at p l) <-> In (p, v) l.
Proof.
  unfold entries_at. rewrite in_map_iff. split.
  - intros [[q w] [Hw Hin]]. simpl in Hw. subst w. apply filter_In in Hin. destruct Hin as [Hin Hq].
    simpl in Hq. apply path_eqb_eq in Hq. subst q. exact Hin.
  - intros Hin. exists (p, v). split; [reflexivity|]. apply filter_In. split; [exact Hin|].
    simpl. apply path_eqb_refl.
Qed.

Lemma entries_at_single p v l :
  NoDup (map fst l) -> In (p, v) l -> entries_at p l = [v].
Proof.
  unfold entries_at. induction l as [|[q w] l IH]; simpl; intros Hnd Hin; [contradiction|].
  inversion Hnd as [|? ? Hnotin Hnd']; subst.
  destruct Hin as [Heq|Hin].
  - inversion Heq; subst q w. rewrite path_eqb_refl. simpl. f_equal.
    destruct (filter (fun e => path_eqb (fst e) p) l) as [|[q w] t] eqn:Hf; [reflexivity|].
    exfalso. apply Hnotin.
    assert (Hin : In (q, w) (filter (fun e => path_eqb (fst e) p) l)) by (rewrite Hf; left; reflexivity).
    apply filter_In in Hin. destruct Hin as [Hin Hq]. simpl in Hq. apply path_eqb_eq in Hq. subst q.
    apply (in_map fst) in Hin. exact Hin.
  - destruct (path_eqb q p) eqn:Hq.
    + apply path_eqb_eq in Hq. subst q. exfalso. apply Hnotin. apply (in_map fst) in Hin. exact Hin.
    + apply IH; auto.
Qed.

Lemma deliveries_in rs p v :
  In (p, v) (deliveries rs) <->
  exists r its, In r rs /\ r_path r = p /\ r_items r = Some its /\ v = map snd its.
Proof.
  unfold deliveries. rewrite in_flat_map. split.
  - intros [r [Hr Hin]]. destruct (r_items r) as [its|] eqn:Hi; [|contradiction].
    destruct Hin as [Heq|[]]. inversion Heq; subst. exists r, its. auto.
  - intros [r [its [Hr [Hp [Hi Hv]]]]]. exists r. split; [exact Hr|]. rewrite Hi. left. congruence.
Qed.

Lemma firings_in rs p v :
  In (p, v) (firings rs) <->
  exists r hs, In r rs /\ r_path r = p /\ r_fired r = Some hs /\ v = sort_by N.ltb hs.
Proof.
  unfold firings. rewrite in_flat_map. split.
  - intros [r [Hr Hin]]. destruct (r_fired r) as [hs|] eqn:Hi; [|contradiction].
    destruct Hin as [Heq|[]]. inversion Heq; subst. exists r, hs. auto.
  - intros [r [hs [Hr [Hp [Hi Hv]]]]]. exists r. split; [exact Hr|]. rewrite Hi. left. congruence.
Qed.

Lemma entry_within_in model p v :
  entry_within model (p, v) = true -> In (p, v) model.
Proof.
  unfold entry_within. simpl. destruct (entries_at p model) as [|w [|]] eqn:He; try discriminate.
  intros H. apply nlist_eqb_eq in H. subst w. apply entries_at_in. rewrite He. left. reflexivity.
Qed.

(* an observed delivery that the pointwise comparison accepts is the closed form *)
Lemma within_deliveries_sound F opts rs p vals :
  keys_unique F -> would_call F opts = Ok rs ->
  entry_within (deliveries rs) (p, vals) = true ->
  exists nd ty, resolve F 0 p = Some nd /\ n_kind nd = KComp ty /\
                vals = map snd (spec_delivered opts p ty).
Proof.
  intros HU H Hw. apply entry_within_in in Hw. apply deliveries_in in Hw.
  destruct Hw as [r [its [Hr [Hp [Hi Hv]]]]].
  destruct (would_call_sound F opts rs r its HU H Hr Hi) as [nd [ty [Hres [Hk [He _]]]]].
  subst p. exists nd, ty. repeat split; auto. rewrite Hv, He. reflexivity.
Qed.

Lemma within_firings_sound F opts rs p vals :
  keys_unique F -> would_call F opts = Ok rs ->
  entry_within (firings rs) (p, vals) = true ->
  vals = sort_by N.ltb (spec_fired (graph_handlers opts) opts p).
Proof.
  intros HU H Hw. apply entry_within_in in Hw. apply firings_in in Hw.
  destruct Hw as [r [hs [Hr [Hp [Hi Hv]]]]]. unfold would_call in H.
  rewrite (run_call_fired_exact (force_runs F) opts rs r hs (keys_unique_force F HU) H Hr Hi) in Hv.
  subst p. exact Hv.
Qed.

Lemma deliveries_fst_nodup rs : NoDup (map r_path rs) -> NoDup (map fst (deliveries rs)).
Proof.
  induction rs as [|r rs IH]; simpl; intros Hnd; [constructor|].
  inversion Hnd as [|? ? Hnotin Hnd']; subst. unfold deliveries. simpl.
  destruct (r_items r) as [its|]; simpl; [|exact (IH Hnd')].
  constructor; [|exact (IH Hnd')].
  intros Hin. apply in_map_iff in Hin. destruct Hin as [[q w] [Hq Hin]]. simpl in Hq. subst q.
  apply deliveries_in in Hin. destruct Hin as [r' [_ [Hr' [Hp _]]]].
  apply Hnotin. rewrite <- Hp. apply in_map. exact Hr'.
Qed.

(* ... and the closed form is accepted, for every component of the forest *)
Lemma within_deliveries_complete F opts rs p nd ty :
  keys_unique F -> would_call F opts = Ok rs ->
  resolve F 0 p = Some nd -> n_kind nd = KComp ty ->
  entry_within (deliveries rs) (p, map snd (spec_delivered opts p ty)) = true.
Proof.
  intros HU H Hres Hk.
  destruct (would_call_complete F opts rs p nd ty HU H Hres Hk) as [r [Hr [Hp Hi]]].
  unfold entry_within. simpl.
  rewrite (entries_at_single p (map snd (spec_delivered opts p ty)) (deliveries rs)).
  - apply nlist_eqb_eq. reflexivity.
  - apply deliveries_fst_nodup. unfold would_call in H.
    exact (run_call_paths_nodup _ _ _ (keys_unique_force F HU) H).
  - apply deliveries_in. exists r, (spec_delivered opts p ty). auto.
Qed.

Lemma run_call_select_executing F opts rs rs' :
  keys_unique F -> run_call F opts = Ok rs -> would_call F opts = Ok rs' ->
  forall r, In r rs <-> In r (select_executing F rs').
Proof.
  intros HU H H' r. rewrite (run_call_selects F opts rs rs' HU H H' r).
  unfold select_executing. rewrite filter_In. reflexivity.
Qed.

(* a call that re-enters the run from a checkpoint: the same answer for all nodes *)
Lemma would_resume_eq F cl ck : would_resume F cl ck = would F cl.
Proof. unfold would_resume, would. rewrite resume_eq. reflexivity. Qed.
