(* Proofs/FieldMapPromote.v — fields promoted from embedded structs (Model/FieldMapPromote.v):
   the elaboration [expand] is canonical (a fixpoint), Compile on the declared spelling
   rejects every pair of targets that denote the same or nested slots however they are
   spelled, and the run-level theorems hold for the declared spelling. *)
From Coq Require Import Permutation.
From Eino Require Import Base.Util Base.FMUniverse Model.FieldMap Model.FieldMapPromote
  Proofs.FieldMapOverlap Proofs.FieldMapAssign Proofs.FieldMapComm Proofs.FieldMapGetPut Proofs.FieldMapRun.

(* ------------------------------------------------------------ expand is a fixpoint *)

Lemma nlist_get_in : forall {A} k (l : list (N * A)) a, nlist_get k l = Some a -> In (k, a) l.
Proof.
  induction l as [|[k' a'] l IH]; simpl; intros a H; [discriminate|].
  destruct (N.eqb k k') eqn:E.
  - apply N.eqb_eq in E. inversion H; subst. left. reflexivity.
  - right. apply IH. exact H.
Qed.

Lemma promoted_wf : forall env pe n f,
  penv_wf env pe = true -> promoted pe n f <> [] ->
  chain_direct env pe (TStruct n) (promoted pe n f ++ [f]) = true.
Proof.
  intros env pe n f Hwf Hne. unfold promoted in *.
  destruct (nlist_get n pe) as [l|] eqn:El; [|contradiction].
  destruct (nlist_get f l) as [c|] eqn:Ec; [|contradiction].
  apply nlist_get_in in El. apply nlist_get_in in Ec.
  unfold penv_wf in Hwf. rewrite forallb_forall in Hwf. specialize (Hwf _ El). simpl in Hwf.
  rewrite forallb_forall in Hwf. specialize (Hwf _ Ec). simpl in Hwf.
  destruct c; [contradiction | exact Hwf].
Qed.

(* walking a chain of direct fields: expand leaves it as it is *)
Lemma expand_chain : forall env pe c t ft R,
  chain_direct env pe t c = true -> chain_ty env t c = Some ft ->
  expand env pe t (c ++ R) = c ++ expand env pe ft R.
Proof.
  induction c as [|e c IH]; intros t ft R Hd Ht; simpl in Hd, Ht.
  - inversion Ht; subst. reflexivity.
  - change ((e :: c) ++ R) with (e :: c ++ R).
    destruct (deref1 t) as [| | |n| |] eqn:Ed; try discriminate.
    destruct (promoted pe n e) eqn:Ep; [|discriminate].
    destruct (lookup_field env n e) as [[ex ft']|] eqn:El; [|discriminate].
    assert (Hexp : expand env pe t (e :: c ++ R) = e :: expand env pe ft' (c ++ R)).
    { destruct t; simpl in Ed; try discriminate; simpl.
      - inversion Ed; subst. rewrite Ep. simpl. rewrite El. reflexivity.
      - rewrite Ed. rewrite Ep. simpl. rewrite El. reflexivity. }
    rewrite Hexp. simpl. f_equal. apply IH; assumption.
Qed.

Lemma chain_direct_ty : forall env pe c t, chain_direct env pe t c = true -> exists ft, chain_ty env t c = Some ft.
Proof.
  induction c as [|e c IH]; intros t H; simpl in *; [eexists; reflexivity|].
  destruct (deref1 t); try discriminate.
  destruct (promoted pe n e); [|discriminate].
  destruct (lookup_field env n e) as [[ex ft']|]; [|discriminate]. apply IH. exact H.
Qed.

Lemma chain_direct_deref : forall env pe c t, chain_direct env pe (deref1 t) c = true ->
  match t with TPtr (TPtr _) => False | _ => True end -> chain_direct env pe t c = true.
Proof.
  intros env pe c t H Ht. destruct c as [|e c]; [reflexivity|]. simpl in *.
  destruct t; simpl in *; try exact H. destruct t; simpl in *; try exact H; try discriminate. contradiction.
Qed.

Lemma chain_ty_deref : forall env c t, c <> [] -> deref1 (deref1 t) = deref1 t -> chain_ty env (deref1 t) c = chain_ty env t c.
Proof. intros env c t Hc Hd. destruct c as [|e c]; [contradiction|]. simpl. rewrite Hd. reflexivity. Qed.

Theorem expand_idempotent : forall env pe, penv_wf env pe = true ->
  forall p t, expand env pe t (expand env pe t p) = expand env pe t p.
Proof.
  intros env pe Hwf. induction p as [|f rest IH]; intro t; [reflexivity|].
  destruct t as [| | |n|u|ks e].
  - reflexivity.
  - reflexivity.
  - reflexivity.
  - (* struct *)
    simpl. destruct (chain_ty env (TStruct n) (promoted pe n f ++ [f])) as [ft|] eqn:Ec.
    + destruct (promoted pe n f) as [|c0 cs] eqn:Ep.
      * simpl. rewrite Ep. simpl in Ec. simpl. rewrite Ec. f_equal. apply IH.
      * assert (Hd : chain_direct env pe (TStruct n) ((c0 :: cs) ++ [f]) = true).
        { rewrite <- Ep. apply promoted_wf; [exact Hwf | rewrite Ep; discriminate]. }
        change ((c0 :: cs) ++ f :: expand env pe ft rest) with ((c0 :: cs) ++ [f] ++ expand env pe ft rest).
        rewrite app_assoc.
        rewrite (expand_chain env pe ((c0 :: cs) ++ [f]) (TStruct n) ft _ Hd Ec). rewrite IH. reflexivity.
    + simpl. rewrite Ec. reflexivity.
  - (* pointer *)
    destruct u as [| | |n| |]; try reflexivity. simpl.
    destruct (chain_ty env (TStruct n) (promoted pe n f ++ [f])) as [ft|] eqn:Ec.
    + destruct (promoted pe n f) as [|c0 cs] eqn:Ep.
      * simpl. rewrite Ep. simpl in Ec. simpl. rewrite Ec. f_equal. apply IH.
      * assert (Hd : chain_direct env pe (TStruct n) ((c0 :: cs) ++ [f]) = true).
        { rewrite <- Ep. apply promoted_wf; [exact Hwf | rewrite Ep; discriminate]. }
        change ((c0 :: cs) ++ f :: expand env pe ft rest) with ((c0 :: cs) ++ [f] ++ expand env pe ft rest).
        rewrite app_assoc.
        rewrite (expand_chain env pe ((c0 :: cs) ++ [f]) (TPtr (TStruct n)) ft _).
        -- rewrite IH. reflexivity.
        -- apply chain_direct_deref; [exact Hd | exact I].
        -- rewrite <- Ec. symmetry. apply (chain_ty_deref env _ (TPtr (TStruct n))); [destruct cs; discriminate | reflexivity].
    + simpl. rewrite Ec. reflexivity.
  - (* map *)
    simpl. f_equal. apply IH.
Qed.

(* ------------------------------------------------------------ Compile on the declared spelling *)

(* whatever Compile accepts has no two targets that denote the same slot, or a slot and
   something inside it, however they are spelled *)
Theorem compile_x_no_alias : forall env pe T ds ss ckss,
  compile_x env pe T ds ss = CAccept ckss ->
  no_conflict (all_targets (expand_decls env pe T ds) ++ map fst (expand_keys env pe T ss)).
Proof.
  intros env pe T ds ss ckss H. unfold compile_x in H.
  destruct (compile_s_inv env T _ _ _ H) as [Hc [Hs | [Hn _]]].
  - rewrite Hs. simpl. rewrite app_nil_r. eapply compile_no_conflict. exact Hc.
  - exact Hn.
Qed.

(* ------------------------------------------------------------ runs on the declared spelling *)

Lemma has_plain_expand : forall env pe T ds, has_plain (expand_decls env pe T ds) = has_plain ds.
Proof.
  intros env pe T ds. unfold has_plain, expand_decls. induction ds as [|d ds IH]; [reflexivity|].
  simpl. rewrite IH. f_equal. destruct (d_maps d); reflexivity.
Qed.

Lemma forall2_expand : forall {B : Type} env pe T (P : ty -> B -> Prop) ds (srcs : list B),
  Forall2 (fun d s => P (d_ty d) s) ds srcs ->
  Forall2 (fun d s => P (d_ty d) s) (expand_decls env pe T ds) srcs.
Proof. intros B env pe T P ds srcs H. induction H; simpl; constructor; auto. Qed.

Lemma in_combine_expand : forall env pe T ds (srcs : list val) d s,
  In (d, s) (combine ds srcs) -> In (expand_decl env pe T d, s) (combine (expand_decls env pe T ds) srcs).
Proof.
  intros env pe T. induction ds as [|d0 ds IH]; intros srcs d s H; [contradiction|].
  destruct srcs as [|s0 srcs]; [contradiction|]. simpl in *.
  destruct H as [H|H]; [inversion H; subst; left; reflexivity | right; apply IH; exact H].
Qed.

(* mapped_get_put for declarations whose paths use promoted field names: never a panic;
   the slot a declared target path denotes holds the value found at the slot the declared
   source path denotes; static values likewise; everything that overlaps none of them is zero *)
Theorem invoke_spec_x : forall env pe T ds ss ckss srcs,
  compile_x env pe T ds ss = CAccept ckss -> has_plain ds = false ->
  Forall2 (fun d s => has_type env (d_ty d) s = true) ds srcs ->
  match run_invoke_x env pe T ds ss ckss srcs with
  | Panic => False
  | Err _ => True
  | Ok v =>
      (forall d s from to, In (d, s) (combine ds srcs) -> In (from, to) (d_maps d) ->
         exists x st b, take_path env s (expand env pe (d_ty d) from) = Ok x /\
                        extract_ty env T (expand env pe T to) = SOk st b /\
                        take_path env v (expand env pe T to) = Ok (conv st x)) /\
      (forall to x, In (to, x) ss ->
         exists st b, extract_ty env T (expand env pe T to) = SOk st b /\
                      take_path env v (expand env pe T to) = Ok (conv st x)) /\
      (forall q z, q <> [] ->
         fresh_for q (all_targets (expand_decls env pe T ds) ++ map fst (expand_keys env pe T ss)) ->
         take_path env v q = Ok z -> exists st b, extract_ty env T q = SOk st b /\ z = zero st)
  end.
Proof.
  intros env pe T ds ss ckss srcs Hc Hp Ht. unfold compile_x in Hc. unfold run_invoke_x.
  pose proof (invoke_spec_s env T (expand_decls env pe T ds) (expand_keys env pe T ss) ckss srcs Hc) as H.
  rewrite has_plain_expand in H. specialize (H Hp).
  specialize (H (forall2_expand env pe T (fun t s => has_type env t s = true) ds srcs Ht)).
  destruct (run_invoke_s env T (expand_decls env pe T ds) (expand_keys env pe T ss) ckss srcs) as [v|e|]; [|exact I|exact H].
  destruct H as [H1 [H2 H3]]. split; [|split].
  - intros d s from to Hin Hm.
    apply (H1 (expand_decl env pe T d) s); [apply in_combine_expand; exact Hin|].
    unfold expand_decl. simpl. apply (in_map (fun m => (expand env pe (d_ty d) (fst m), expand env pe T (snd m))) _ (from, to)). exact Hm.
  - intros to x Hin. apply H2. unfold expand_keys.
    apply (in_map (fun kx => (expand env pe T (fst kx), snd kx)) _ (to, x)). exact Hin.
  - exact H3.
Qed.

(* never a panic, Invoke and Stream, on the declared spelling *)
Theorem run_no_panic_x : forall env pe T ds ss ckss,
  compile_x env pe T ds ss = CAccept ckss ->
  (forall srcs, Forall2 (fun d s => has_type env (d_ty d) s = true) ds srcs ->
                run_invoke_x env pe T ds ss ckss srcs <> Panic) /\
  (forall chunkss, Forall2 (fun d cs => Forall (fun c => has_type env (d_ty d) c = true) cs) ds chunkss ->
                   run_stream_x env pe T ds ss ckss chunkss <> Panic).
Proof.
  intros env pe T ds ss ckss Hc. unfold compile_x in Hc.
  destruct (run_no_panic_s env T _ _ _ Hc) as [Hi Hs]. split.
  - intros srcs Ht. apply Hi. apply (forall2_expand env pe T (fun t s => has_type env t s = true)). exact Ht.
  - intros chunkss Ht. apply Hs.
    apply (forall2_expand env pe T (fun t cs => Forall (fun c => has_type env t c = true) cs)). exact Ht.
Qed.

(* ------------------------------------------------------------ order independence on the declared spelling *)

Lemma expand_keys_perm : forall env pe T (m m' : fmap),
  Permutation m m' -> Permutation (expand_keys env pe T m) (expand_keys env pe T m').
Proof. intros. unfold expand_keys. apply Permutation_map. assumption. Qed.

(* acceptance by Compile does not depend on the declaration order, whatever spellings are used *)
Theorem compile_x_accept_perm : forall env pe T ds ds',
  Permutation ds ds' ->
  ((exists ckss, compile_x env pe T ds [] = CAccept ckss) <-> (exists ckss', compile_x env pe T ds' [] = CAccept ckss')).
Proof.
  intros env pe T ds ds' HP. unfold compile_x. simpl.
  assert (E : forall l, compile_s env T l [] = compile env T l).
  { intro l. unfold compile_s. destruct (compile env T l); reflexivity. }
  rewrite !E. apply compile_accept_perm. unfold expand_decls. apply Permutation_map. exact HP.
Qed.

(* convertTo on keys spelled as declared: every iteration order of its map gives the same outcome
   as long as no two keys denote the same or nested slots *)
Theorem convert_to_x_perm : forall env pe T (m m' : fmap),
  Permutation m m' -> no_conflict (keys (expand_keys env pe T m)) ->
  convert_to_x env pe T m = convert_to_x env pe T m'.
Proof.
  intros env pe T m m' HP Hn. unfold convert_to_x. apply convert_to_perm; [apply expand_keys_perm; exact HP | exact Hn].
Qed.
