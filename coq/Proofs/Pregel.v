(* Proofs/Pregel.v — one superstep of the engine model (Model/Graph.v) in any-predecessor (Pregel) mode:
   routing of a completed task's output, channel contents, the next frontier (C01).
   All statements are about the definitions the correspondence check evaluates
   (resolve_one, resolve_all, update_chans, get_all, calc_next, step). *)
From Eino Require Import Base.Util Model.Graph Proofs.PregelBase.
From Coq Require Import Lia Permutation.
Open Scope N_scope.

Section Pregel.
  Variable V : Type.
  Variable St : Type.
  Variable ops : vops V.

  Notation chan := (chan V).
  Notation chans := (chans V).
  Notation writes_t := (writes_t V).

  (* ================= specification vocabulary ================= *)
  (* what the branches of n select for output [out], in branch order *)
  Definition chosen (n : node) (out : V) : list key :=
    flat_map (fun b => choose V ops b out) (n_branches n).
  (* receivers of n's output: branch choices, then data successors *)
  Definition receivers (n : node) (out : V) : list key := chosen n out ++ n_dsucc n.
  Definition receives (n : node) (out : V) (t : key) : Prop :=
    In t (n_dsucc n) \/ exists b, In b (n_branches n) /\ In t (choose V ops b out).
  (* every branch returns only end nodes it declared *)
  Definition branches_legal (n : node) (out : V) : Prop :=
    forall b, In b (n_branches n) -> incl (choose V ops b out) (b_ends b).

  Definition node_writes (n : node) (out : V) : writes_t :=
    map (fun t => (t, (n_key n, edge_value V ops n t out))) (receivers n out).
  Definition writes_of (g : graph) (outs : list (key * V)) : writes_t :=
    flat_map (fun ko => match find_node g (fst ko) with
                        | Some n => node_writes n (snd ko)
                        | None => []
                        end) outs.
  (* the (source, value) pairs sent to t by the completed tasks [outs] of one step *)
  Definition sent (g : graph) (outs : list (key * V)) (t : key) : list (key * V) :=
    incoming_vals V g t (writes_of g outs).

  Definition chans_empty (cs : chans) : Prop := Forall (fun kc => c_vals V (snd kc) = []) cs.

  Definition nonemptyb {A} (l : list A) : bool := match l with [] => false | _ => true end.

  Lemma receivers_iff : forall n out t, In t (receivers n out) <-> receives n out t.
  Proof.
    intros n out t. unfold receivers, receives, chosen. rewrite in_app_iff, in_flat_map.
    split.
    - intros [[b [Hb Ht]]|H]; [right; exists b; split; assumption|left; exact H].
    - intros [H|[b [Hb Ht]]]; [right; exact H|left; exists b; split; assumption].
  Qed.

  (* ================= channel level ================= *)
  Lemma pregel_get_spec : forall (c : chan) r, pregel_get V ops c = Ok r ->
    (c_vals V c = [] /\ r = (None, c)) \/
    (c_vals V c <> [] /\ exists v, get_merge V ops (c_vals V c) = Ok v /\ r = (Some v, set_vals V c [])).
  Proof.
    intros c r H. unfold pregel_get in H. destruct (c_vals V c) as [|kv vals] eqn:E.
    - left. inversion H. split; reflexivity.
    - right. split; [discriminate|].
      destruct (get_merge V ops (kv :: vals)) as [v| |] eqn:G; simpl in H; try discriminate.
      exists v. inversion H. split; reflexivity.
  Qed.

  (* the channel is emptied by a successful read *)
  Lemma pregel_get_empties : forall (c c' : chan) ov, pregel_get V ops c = Ok (ov, c') -> c_vals V c' = [].
  Proof.
    intros c c' ov H. apply pregel_get_spec in H. destruct H as [[He H]|[_ [v [_ H]]]]; inversion H; subst.
    - exact He.
    - reflexivity.
  Qed.

  (* a read hands out a value iff the channel holds at least one, and then it is their merge *)
  Lemma pregel_get_some : forall (c c' : chan) v, pregel_get V ops c = Ok (Some v, c') ->
    c_vals V c <> [] /\ get_merge V ops (c_vals V c) = Ok v.
  Proof.
    intros c c' v H. apply pregel_get_spec in H. destruct H as [[_ H]|[Hne [v' [Hg H]]]]; inversion H; subst.
    split; assumption.
  Qed.

  Lemma pregel_get_none : forall (c c' : chan), pregel_get V ops c = Ok (None, c') -> c_vals V c = [] /\ c' = c.
  Proof.
    intros c c' H. apply pregel_get_spec in H. destruct H as [[He H]|[_ [v' [_ H]]]]; inversion H; subst.
    split; [exact He|reflexivity].
  Qed.

  Lemma pregel_report_vals : forall (c : chan) ins,
    c_vals V (pregel_report_values V c ins) = collect_from (c_vals V c) ins.
  Proof. reflexivity. Qed.

  (* ================= one completed task ================= *)
  Lemma subset_incl : forall xs ys, subset xs ys = true <-> incl xs ys.
  Proof.
    intros xs ys. unfold subset, incl. rewrite forallb_forall. split; intros H x Hx.
    - apply memb_in. apply H. exact Hx.
    - apply memb_in. apply H. exact Hx.
  Qed.

  Lemma eval_branches_spec : forall n out,
    (branches_legal n out /\ exists skipped, eval_branches V ops n out = Ok (chosen n out, skipped)) \/
    (~ branches_legal n out /\ eval_branches V ops n out = Err eBranch).
  Proof.
    intros n out. unfold eval_branches.
    match goal with |- context [if ?b then _ else _] => destruct b eqn:E end.
    - left. split.
      + intros b Hb. rewrite forallb_forall in E.
        specialize (E (b, choose V ops b out)). simpl in E. apply subset_incl. apply E.
        apply in_map_iff. exists b. split; [reflexivity|exact Hb].
      + eexists. unfold chosen. rewrite flat_map_snd_map. reflexivity.
    - right. split; [|reflexivity]. intros Hl.
      assert (E' : forallb (fun bs : branch * list key => subset (snd bs) (b_ends (fst bs)))
                     (map (fun b => (b, choose V ops b out)) (n_branches n)) = true).
      { apply forallb_forall. intros [b sel] Hin. apply in_map_iff in Hin.
        destruct Hin as [b' [Heq Hb]]. inversion Heq; subst. simpl. apply subset_incl. apply Hl. exact Hb. }
      rewrite E' in E. discriminate.
  Qed.

  Lemma resolve_one_pregel : forall g n out cs cs' ws ds,
    g_mode g = Pregel ->
    resolve_one V ops g n out cs = Ok (cs', ws, ds) ->
    cs' = cs /\ ws = node_writes n out /\ branches_legal n out.
  Proof.
    intros g n out cs cs' ws ds Hm H. unfold resolve_one in H.
    destruct (eval_branches_spec n out) as [[Hl [sk E]]|[_ E]]; rewrite E in H; simpl in H; [|discriminate].
    unfold report_branch in H. rewrite Hm in H. simpl in H. inversion H; subst.
    split; [reflexivity|]. split; [reflexivity|exact Hl].
  Qed.

  Lemma resolve_one_pregel_err : forall g n out cs,
    g_mode g = Pregel ->
    (forall r, resolve_one V ops g n out cs <> Ok r) ->
    resolve_one V ops g n out cs = Err eBranch /\ ~ branches_legal n out.
  Proof.
    intros g n out cs Hm H. unfold resolve_one in *.
    destruct (eval_branches_spec n out) as [[Hl [sk E]]|[Hn E]]; rewrite E in *; simpl in *.
    - unfold report_branch in H. rewrite Hm in H. simpl in H. exfalso. eapply H. reflexivity.
    - split; [reflexivity|exact Hn].
  Qed.

  (* pregel_routing, at the level of one completed task: the writes are exactly one copy of the (edge-mapped)
     output for every data successor and every node chosen by a branch; channels are not touched *)
  Theorem resolve_one_routing : forall g n out cs cs' ws ds,
    g_mode g = Pregel ->
    resolve_one V ops g n out cs = Ok (cs', ws, ds) ->
    cs' = cs /\ branches_legal n out /\
    (forall t s v, In (t, (s, v)) ws <-> (receives n out t /\ s = n_key n /\ v = edge_value V ops n t out)).
  Proof.
    intros g n out cs cs' ws ds Hm H. destruct (resolve_one_pregel _ _ _ _ _ _ _ Hm H) as [-> [-> Hl]].
    split; [reflexivity|]. split; [exact Hl|].
    intros t s v. unfold node_writes. rewrite in_map_iff. split.
    - intros [t' [Heq Hin]]. inversion Heq; subst. apply receivers_iff in Hin. repeat split; exact Hin.
    - intros [Hr [-> ->]]. exists t. split; [reflexivity|apply receivers_iff; exact Hr].
  Qed.

  Definition outs_legal (g : graph) (outs : list (key * V)) : Prop :=
    Forall (fun ko => exists n, find_node g (fst ko) = Some n /\ branches_legal n (snd ko)) outs.

  Lemma resolve_all_pregel : forall g outs cs cs' ws ds,
    g_mode g = Pregel ->
    resolve_all V ops g outs cs = Ok (cs', ws, ds) ->
    cs' = cs /\ ws = writes_of g outs /\ outs_legal g outs.
  Proof.
    intros g outs. induction outs as [|[k out] outs IH]; intros cs cs' ws ds Hm H; simpl in H.
    - inversion H; subst. split; [reflexivity|]. split; [reflexivity|constructor].
    - destruct (find_node g k) as [n|] eqn:Hf; [|discriminate].
      destruct (resolve_one V ops g n out cs) as [[[cs1 w1] d1]| |] eqn:R1; simpl in H; try discriminate.
      destruct (resolve_all V ops g outs cs1) as [[[cs2 w2] d2]| |] eqn:R2; simpl in H; try discriminate.
      inversion H; subst.
      apply resolve_one_pregel in R1; [|exact Hm]. destruct R1 as [-> [-> Hl]].
      apply IH in R2; [|exact Hm]. destruct R2 as [-> [-> Hall]].
      split; [reflexivity|]. split.
      + unfold writes_of. simpl. rewrite Hf. reflexivity.
      + constructor; [|exact Hall]. exists n. simpl. split; assumption.
  Qed.

  (* resolve_all fails only with eBranch (illegal branch choice) or eUnknownNode (completed task of an unknown node) *)
  Lemma resolve_all_pregel_err : forall g outs cs e,
    g_mode g = Pregel ->
    resolve_all V ops g outs cs = Err e -> e = eBranch \/ e = eUnknownNode.
  Proof.
    intros g outs. induction outs as [|[k out] outs IH]; intros cs e Hm H; simpl in H; [discriminate|].
    destruct (find_node g k) as [n|] eqn:Hf; [|inversion H; right; reflexivity].
    destruct (resolve_one V ops g n out cs) as [[[cs1 w1] d1]| |] eqn:R1; simpl in H.
    - destruct (resolve_all V ops g outs cs1) as [[[cs2 w2] d2]| |] eqn:R2; simpl in H; try discriminate.
      inversion H; subst. eapply IH; eassumption.
    - inversion H; subst. left.
      unfold resolve_one in R1.
      destruct (eval_branches_spec n out) as [[Hl [sk E]]|[Hn E]]; rewrite E in R1; simpl in R1.
      + unfold report_branch in R1. rewrite Hm in R1. simpl in R1. discriminate.
      + inversion R1. reflexivity.
    - discriminate.
  Qed.

  Lemma resolve_all_pregel_nopanic : forall g outs cs,
    g_mode g = Pregel -> resolve_all V ops g outs cs <> Panic.
  Proof.
    intros g outs. induction outs as [|[k out] outs IH]; intros cs Hm H; simpl in H; [discriminate|].
    destruct (find_node g k) as [n|] eqn:Hf; [|discriminate].
    destruct (resolve_one V ops g n out cs) as [[[cs1 w1] d1]| |] eqn:R1; simpl in H.
    - destruct (resolve_all V ops g outs cs1) as [[[cs2 w2] d2]| |] eqn:R2; simpl in H; try discriminate.
      eapply IH; eassumption.
    - discriminate.
    - unfold resolve_one in R1.
      destruct (eval_branches_spec n out) as [[Hl [sk E]]|[Hn E]]; rewrite E in R1; simpl in R1.
      + unfold report_branch in R1. rewrite Hm in R1. simpl in R1. discriminate.
      + discriminate.
  Qed.

  (* ================= channels after one step ================= *)
  Lemma update_chans_ok : forall g ws ds cs cs2,
    update_chans V g ws ds cs = Ok cs2 ->
    targets_exist V cs ws ds = true /\ cs2 = map (update_chan V g ws ds) cs.
  Proof.
    intros g ws ds cs cs2 H. unfold update_chans in H.
    destruct (targets_exist V cs ws ds); [|discriminate]. inversion H. split; reflexivity.
  Qed.

  Lemma targets_exist_writes : forall (cs : chans) ws ds t sv,
    targets_exist V cs ws ds = true -> In (t, sv) ws -> In t (akeys cs).
  Proof.
    intros cs ws ds t sv H Hin. unfold targets_exist in H. apply andb_true_iff in H. destruct H as [H _].
    rewrite forallb_forall in H. specialize (H _ Hin). simpl in H. apply memb_in. exact H.
  Qed.

  Lemma update_chan_pregel : forall g ws ds k (c : chan), g_mode g = Pregel ->
    update_chan V g ws ds (k, c) = (k, pregel_report_values V c (incoming_vals V g k ws)).
  Proof. intros g ws ds k c Hm. unfold update_chan. rewrite Hm. reflexivity. Qed.

  Lemma chan_get_pregel : forall g (c : chan), g_mode g = Pregel -> chan_get V ops g c = pregel_get V ops c.
  Proof. intros g c Hm. unfold chan_get. rewrite Hm. reflexivity. Qed.

  Lemma get_all_cons : forall g k (c : chan) (cs : chans),
    get_all V ops g ((k, c) :: cs) =
    (do r <- chan_get V ops g c;
     let '(ov, c') := r in
     do rest <- get_all V ops g cs;
     let '(cs'', ready) := rest in
     Ok ((k, c') :: cs'', match ov with Some v => (k, pre_node V ops g k v) :: ready | None => ready end)).
  Proof. reflexivity. Qed.

  Lemma get_all_pregel : forall g ws ds (cs : chans) cs'' ready,
    g_mode g = Pregel -> chans_empty cs ->
    get_all V ops g (map (update_chan V g ws ds) cs) = Ok (cs'', ready) ->
    akeys cs'' = akeys cs /\ chans_empty cs'' /\
    akeys ready = filter (fun t => nonemptyb (incoming_vals V g t ws)) (akeys cs) /\
    Forall (fun tv => exists m, get_merge V ops (collect (incoming_vals V g (fst tv) ws)) = Ok m
                                /\ snd tv = pre_node V ops g (fst tv) m) ready.
  Proof.
    intros g ws ds cs. induction cs as [|[k c] cs IH]; intros cs'' ready Hm He H.
    - simpl in H. inversion H; subst. simpl. repeat split; constructor.
    - inversion He as [|x y Hc He']; subst. simpl in Hc.
      rewrite map_cons, update_chan_pregel, get_all_cons, chan_get_pregel in H by exact Hm.
      destruct (pregel_get V ops (pregel_report_values V c (incoming_vals V g k ws))) as [[ov c1]| |] eqn:G;
        cbn [res_bind] in H; try discriminate.
      destruct (get_all V ops g (map (update_chan V g ws ds) cs)) as [[cs2 rd]| |] eqn:GA;
        cbn [res_bind] in H; try discriminate.
      inversion H; subst. clear H.
      destruct (IH _ _ Hm He' eq_refl) as [Hk [Hemp [Hr Hall]]].
      assert (Hc1 : c_vals V c1 = []) by (eapply pregel_get_empties; exact G).
      split; [simpl; f_equal; exact Hk|].
      split; [constructor; [exact Hc1|exact Hemp]|].
      destruct ov as [v|].
      + apply pregel_get_some in G. destruct G as [Hne Hg].
        rewrite pregel_report_vals, Hc in Hne, Hg.
        assert (Hnb : nonemptyb (incoming_vals V g k ws) = true).
        { destruct (incoming_vals V g k ws); [exfalso; apply Hne; reflexivity|reflexivity]. }
        split.
        * simpl. rewrite Hnb. simpl. f_equal. exact Hr.
        * constructor; [|exact Hall]. exists v. simpl. split; [exact Hg|reflexivity].
      + apply pregel_get_none in G. destruct G as [Hnil _].
        rewrite pregel_report_vals, Hc in Hnil.
        assert (Hnil' : incoming_vals V g k ws = []) by (apply collect_nil_iff; exact Hnil).
        clear Hnil; rename Hnil' into Hnil.
        split; [|exact Hall]. simpl. rewrite Hnil. simpl. exact Hr.
  Qed.

  (* get_all fails only when reading some channel fails; in Pregel mode: when a fan-in merge fails *)
  Lemma get_all_fails : forall g (cs : chans) r,
    get_all V ops g cs = r -> (forall x, r <> Ok x) ->
    exists k c, In (k, c) cs /\ (forall x, chan_get V ops g c <> Ok x) /\
                r = res_bind (chan_get V ops g c) (fun _ => Panic).
  Proof.
    intros g cs. induction cs as [|[k c] cs IH]; intros r H Hno.
    - simpl in H. subst r. exfalso. eapply Hno. reflexivity.
    - rewrite get_all_cons in H.
      destruct (chan_get V ops g c) as [[ov c1]| |] eqn:G; cbn [res_bind] in H.
      + destruct (get_all V ops g cs) as [[cs2 rd]| |] eqn:GA; cbn [res_bind] in H.
        * subst r. exfalso. eapply Hno. reflexivity.
        * destruct (IH _ eq_refl) as [k' [c' [Hin [Hf Hr]]]]; [intros x; discriminate|].
          exists k', c'. split; [right; exact Hin|]. split; [exact Hf|]. rewrite <- Hr. symmetry; exact H.
        * destruct (IH _ eq_refl) as [k' [c' [Hin [Hf Hr]]]]; [intros x; discriminate|].
          exists k', c'. split; [right; exact Hin|]. split; [exact Hf|]. rewrite <- Hr. symmetry; exact H.
      + exists k, c. split; [left; reflexivity|]. rewrite G. split; [intros x; discriminate|]. symmetry; exact H.
      + exists k, c. split; [left; reflexivity|]. rewrite G. split; [intros x; discriminate|]. symmetry; exact H.
  Qed.

  Lemma res_bind_panic_idem : forall (A B C : Type) (X : res A),
    res_bind (res_bind X (fun _ => @Panic B)) (fun _ => @Panic C) = res_bind X (fun _ => @Panic C).
  Proof. intros A B C [a|e|]; reflexivity. Qed.

  Lemma pregel_get_fails : forall (c : chan),
    (forall x, pregel_get V ops c <> Ok x) ->
    pregel_get V ops c = res_bind (get_merge V ops (c_vals V c)) (fun _ => Panic)
    /\ (forall v, get_merge V ops (c_vals V c) <> Ok v).
  Proof.
    intros c H. unfold pregel_get in *. destruct (c_vals V c) as [|kv vals].
    - exfalso. eapply H. reflexivity.
    - destruct (get_merge V ops (kv :: vals)) as [v| |]; cbn [res_bind] in *.
      + exfalso. eapply H. reflexivity.
      + split; [reflexivity|intros v; discriminate].
      + split; [reflexivity|intros v; discriminate].
  Qed.

  Lemma get_all_pregel_fails : forall g ws ds (cs : chans) r,
    g_mode g = Pregel -> chans_empty cs ->
    get_all V ops g (map (update_chan V g ws ds) cs) = r -> (forall x, r <> Ok x) ->
    exists t, In t (akeys cs) /\
      r = res_bind (get_merge V ops (collect (incoming_vals V g t ws))) (fun _ => Panic)
      /\ forall v, get_merge V ops (collect (incoming_vals V g t ws)) <> Ok v.
  Proof.
    intros g ws ds cs r Hm He H Hno.
    destruct (get_all_fails _ _ _ H Hno) as [k [c [Hin [Hf Hr]]]].
    apply in_map_iff in Hin. destruct Hin as [[k0 c0] [Heq Hin]].
    rewrite update_chan_pregel in Heq by exact Hm. inversion Heq; subst k c. clear Heq.
    rewrite chan_get_pregel in Hf, Hr by exact Hm.
    unfold chans_empty in He. rewrite Forall_forall in He. pose proof (He _ Hin) as Hc. simpl in Hc.
    destruct (pregel_get_fails _ Hf) as [Hp Hnv]. rewrite pregel_report_vals, Hc in Hp, Hnv.
    exists k0. split; [apply (in_map fst) in Hin; exact Hin|]. split.
    - rewrite Hr, Hp. unfold collect.
      exact (res_bind_panic_idem _ _ _ (get_merge V ops (collect_from [] (incoming_vals V g k0 ws)))).
    - exact Hnv.
  Qed.

  (* ================= calculateNextTasks ================= *)
  Theorem calc_next_pregel : forall g (cs : chans) outs cs' ready,
    g_mode g = Pregel -> chans_empty cs ->
    calc_next V ops g cs outs = Ok (cs', ready) ->
    akeys cs' = akeys cs /\ chans_empty cs' /\ outs_legal g outs /\
    akeys ready = filter (fun t => nonemptyb (sent g outs t)) (akeys cs) /\
    (forall t, sent g outs t <> [] -> In t (akeys cs)) /\
    Forall (fun tv => exists m, get_merge V ops (collect (sent g outs (fst tv))) = Ok m
                                /\ snd tv = pre_node V ops g (fst tv) m) ready.
  Proof.
    intros g cs outs cs' ready Hm He H. unfold calc_next in H.
    destruct (resolve_all V ops g outs cs) as [[[cs1 ws] ds]| |] eqn:R; simpl in H; try discriminate.
    apply resolve_all_pregel in R; [|exact Hm]. destruct R as [-> [-> Hl]].
    destruct (update_chans V g (writes_of g outs) ds cs) as [cs2| |] eqn:U; simpl in H; try discriminate.
    apply update_chans_ok in U. destruct U as [Ht ->].
    apply get_all_pregel in H; [|exact Hm|exact He].
    destruct H as [Hk [Hemp [Hr Hall]]].
    split; [exact Hk|]. split; [exact Hemp|]. split; [exact Hl|]. split; [exact Hr|]. split; [|exact Hall].
    intros t Hne.
    destruct (sent g outs t) as [|[s v] l] eqn:F; [exfalso; apply Hne; reflexivity|].
    assert (Hin : In (s, v) (sent g outs t)) by (rewrite F; left; reflexivity).
    unfold sent, incoming_vals in Hin. apply in_map_iff in Hin. destruct Hin as [[t' sv] [_ Hin]].
    apply filter_In in Hin. destruct Hin as [Hin Hc]. apply andb_true_iff in Hc. destruct Hc as [Hc _].
    apply N.eqb_eq in Hc. simpl in Hc. subst t'.
    eapply targets_exist_writes; eassumption.
  Qed.

  Lemma filter_nodup_keys : forall (f : key -> bool) l, NoDup l -> NoDup (filter f l).
  Proof. intros f l H. apply NoDup_filter. exact H. Qed.

  (* the frontier, declaratively *)
  Corollary calc_next_frontier : forall g (cs : chans) outs cs' ready,
    g_mode g = Pregel -> chans_empty cs -> NoDup (akeys cs) ->
    calc_next V ops g cs outs = Ok (cs', ready) ->
    NoDup (akeys ready) /\
    (forall t, In t (akeys ready) <-> sent g outs t <> []) /\
    (forall t v, In (t, v) ready ->
       exists m, get_merge V ops (collect (sent g outs t)) = Ok m /\ v = pre_node V ops g t m).
  Proof.
    intros g cs outs cs' ready Hm He Hnd H.
    destruct (calc_next_pregel _ _ _ _ _ Hm He H) as [Hk [Hemp [Hl [Hr [Hex Hall]]]]].
    split; [rewrite Hr; apply NoDup_filter; exact Hnd|].
    split.
    - intros t. rewrite Hr, filter_In. split.
      + intros [_ Hb] Hnil. rewrite Hnil in Hb. discriminate.
      + intros Hne. split; [apply Hex; exact Hne|].
        destruct (sent g outs t); [exfalso; apply Hne; reflexivity|reflexivity].
    - intros t v Hin. rewrite Forall_forall in Hall. apply (Hall _ Hin).
  Qed.

  (* ================= who sends what to whom ================= *)
  Lemma in_writes_of : forall g outs t s v,
    In (t, (s, v)) (writes_of g outs) <->
    exists n out, In (s, out) outs /\ find_node g s = Some n /\ In t (receivers n out)
                  /\ v = edge_value V ops n t out.
  Proof.
    intros g outs t s v. unfold writes_of. rewrite in_flat_map. split.
    - intros [[k out] [Hin Hw]]. simpl in Hw. destruct (find_node g k) as [n|] eqn:Hf; [|contradiction].
      unfold node_writes in Hw. apply in_map_iff in Hw. destruct Hw as [t' [Heq Ht]].
      inversion Heq; subst. destruct (find_node_some _ _ _ Hf) as [_ Hk]. rewrite Hk in *.
      exists n, out. repeat split; assumption.
    - intros [n [out [Hin [Hf [Ht ->]]]]]. exists (s, out). split; [exact Hin|]. simpl. rewrite Hf.
      unfold node_writes. apply in_map_iff. exists t. split; [|exact Ht].
      destruct (find_node_some _ _ _ Hf) as [_ Hk]. rewrite Hk. reflexivity.
  Qed.

  Lemma in_sent : forall g outs t s v,
    In (s, v) (sent g outs t) <->
    In s (dpreds g t) /\
    exists n out, In (s, out) outs /\ find_node g s = Some n /\ In t (receivers n out)
                  /\ v = edge_value V ops n t out.
  Proof.
    intros g outs t s v. unfold sent, incoming_vals. rewrite in_map_iff. split.
    - intros [[t' [s' v']] [Heq Hin]]. simpl in Heq. inversion Heq; subst.
      apply filter_In in Hin. destruct Hin as [Hin Hc]. simpl in Hc.
      apply andb_true_iff in Hc. destruct Hc as [Ht Hd]. apply N.eqb_eq in Ht. subst t'.
      apply memb_in in Hd. split; [exact Hd|]. apply in_writes_of. exact Hin.
    - intros [Hd Hw]. exists (t, (s, v)). split; [reflexivity|]. apply filter_In. split.
      + apply in_writes_of. exact Hw.
      + simpl. rewrite N.eqb_refl. simpl. apply memb_in. exact Hd.
  Qed.

  (* graphs as graph.compile builds them in any-predecessor mode: node keys are unique, branches carry data *)
  Definition unique_keys (g : graph) : Prop := NoDup (map n_key (g_nodes g)).
  Definition data_branches (g : graph) : Prop :=
    forall n b, In n (g_nodes g) -> In b (n_branches n) -> b_nodata b = false.

  Lemma find_node_unique : forall g n, unique_keys g -> In n (g_nodes g) -> find_node g (n_key n) = Some n.
  Proof.
    unfold unique_keys, find_node. intros g n. induction (g_nodes g) as [|m l IH]; intros Hnd Hin; simpl in *.
    - contradiction.
    - inversion Hnd as [|x y Hnot Hnd']; subst. destruct Hin as [->|Hin].
      + rewrite N.eqb_refl. reflexivity.
      + destruct (N.eqb (n_key m) (n_key n)) eqn:E.
        * apply N.eqb_eq in E. exfalso. apply Hnot. rewrite E. apply in_map. exact Hin.
        * apply IH; assumption.
  Qed.

  Lemma in_dpreds : forall g t s, In s (dpreds g t) <-> exists n, In n (g_nodes g) /\ n_key n = s /\ is_dpred n t = true.
  Proof.
    intros g t s. unfold dpreds. rewrite in_map_iff. split.
    - intros [n [Hk Hin]]. apply filter_In in Hin. destruct Hin as [Hin Hd]. exists n. repeat split; assumption.
    - intros [n [Hin [Hk Hd]]]. exists n. split; [exact Hk|]. apply filter_In. split; assumption.
  Qed.

  Lemma receivers_dpred : forall g n out t,
    data_branches g -> In n (g_nodes g) -> branches_legal n out ->
    In t (receivers n out) -> is_dpred n t = true.
  Proof.
    intros g n out t Hdb Hin Hl Ht. unfold is_dpred. apply orb_true_iff.
    unfold receivers, chosen in Ht. apply in_app_iff in Ht. destruct Ht as [Ht|Ht].
    - right. apply memb_in. apply in_flat_map in Ht. destruct Ht as [b [Hb Ht]].
      unfold branch_ends_of. apply in_flat_map. exists b. split; [exact Hb|].
      rewrite (Hdb _ _ Hin Hb). simpl. apply (Hl _ Hb). exact Ht.
    - left. apply memb_in. exact Ht.
  Qed.

  (* for compiled graphs: t is sent (s, v) iff s completed with some output, t is a receiver of that output
     (data successor or branch choice) and v is the output (as mapped onto that edge) *)
  Lemma in_sent_wf : forall g outs t s v,
    data_branches g -> outs_legal g outs -> NoDup (akeys outs) ->
    (In (s, v) (sent g outs t) <->
     exists n out, In (s, out) outs /\ find_node g s = Some n /\ receives n out t
                   /\ v = edge_value V ops n t out).
  Proof.
    intros g outs t s v Hdb Hl Hnd. rewrite in_sent. split.
    - intros [_ [n [out [Hin [Hf [Hr Hv]]]]]]. exists n, out. rewrite <- receivers_iff. repeat split; assumption.
    - intros [n [out [Hin [Hf [Hr Hv]]]]]. apply receivers_iff in Hr. split.
      + apply in_dpreds. exists n. destruct (find_node_some _ _ _ Hf) as [Hn Hk].
        split; [exact Hn|]. split; [exact Hk|].
        eapply receivers_dpred; try eassumption.
        unfold outs_legal in Hl. rewrite Forall_forall in Hl. destruct (Hl _ Hin) as [n' [Hf' Hl']].
        simpl in Hf'. rewrite Hf in Hf'. inversion Hf'; subst. exact Hl'.
      + exists n, out. repeat split; assumption.
  Qed.

  (* one value per (sender, receiver): the channel of t holds, keyed by sender, exactly one value from
     every completed task that routed its output to t *)
  Lemma sent_sources_nodup_lookup : forall g outs t s,
    NoDup (akeys outs) ->
    forall v1 v2, In (s, v1) (sent g outs t) -> In (s, v2) (sent g outs t) -> v1 = v2.
  Proof.
    intros g outs t s Hnd v1 v2 H1 H2. apply in_sent in H1, H2.
    destruct H1 as [_ [n1 [o1 [Hi1 [Hf1 [_ ->]]]]]]. destruct H2 as [_ [n2 [o2 [Hi2 [Hf2 [_ ->]]]]]].
    rewrite Hf1 in Hf2. inversion Hf2; subst.
    apply in_alookup_nodup in Hi1; [|exact Hnd]. apply in_alookup_nodup in Hi2; [|exact Hnd].
    rewrite Hi1 in Hi2. inversion Hi2. reflexivity.
  Qed.

  Lemma alookup_rev_some_in : forall {A} (l : list (N * A)) k a, alookup k (rev l) = Some a -> In (k, a) l.
  Proof. intros A l k a H. apply alookup_some_in in H. apply in_rev in H. exact H. Qed.

  Theorem chan_holds_one_per_sender : forall g outs t s v,
    NoDup (akeys outs) ->
    (alookup s (collect (sent g outs t)) = Some v <-> In (s, v) (sent g outs t)).
  Proof.
    intros g outs t s v Hnd. unfold collect. rewrite collect_from_lookup. simpl. split.
    - destruct (alookup s (rev _)) eqn:E; intros H; [|discriminate].
      inversion H; subst. apply alookup_rev_some_in. exact E.
    - destruct (alookup s (rev _)) as [v'|] eqn:E; intros Hin.
      + apply alookup_rev_some_in in E. f_equal. eapply sent_sources_nodup_lookup; eassumption.
      + exfalso. apply alookup_none_notin in E. apply E. unfold akeys. rewrite map_rev. apply -> in_rev.
        apply (in_map fst) in Hin. exact Hin.
  Qed.
  (* ================= calc_next as a function, when all senders address the same set R =================
     (the situation in a lowered chain: one stage feeds the next) *)
  Definition deps_of (g : graph) (outs : list (key * V)) : deps_t :=
    flat_map (fun ko => match find_node g (fst ko) with
                        | Some n => map (fun t => (t, n_key n)) (n_csucc n ++ chosen n (snd ko))
                        | None => []
                        end) outs.

  Lemma resolve_all_pregel_total : forall g outs cs,
    g_mode g = Pregel -> outs_legal g outs ->
    resolve_all V ops g outs cs = Ok (cs, writes_of g outs, deps_of g outs).
  Proof.
    intros g outs cs Hm Hl. induction Hl as [|[k out] outs [n [Hf Hleg]] _ IH]; simpl.
    - reflexivity.
    - simpl in Hf. rewrite Hf. unfold resolve_one.
      destruct (eval_branches_spec n out) as [[_ [sk E]]|[Hn _]]; [|contradiction].
      rewrite E. cbn [res_bind]. unfold report_branch. rewrite Hm. cbn [res_bind].
      rewrite IH. cbn [res_bind]. reflexivity.
  Qed.

  Lemma resolve_all_pregel_illegal : forall g k out outs cs n,
    g_mode g = Pregel -> find_node g k = Some n -> ~ branches_legal n out ->
    resolve_all V ops g ((k, out) :: outs) cs = Err eBranch.
  Proof.
    intros g k out outs cs n Hm Hf Hn. simpl. rewrite Hf. unfold resolve_one.
    destruct (eval_branches_spec n out) as [[Hl _]|[_ E]]; [contradiction|]. rewrite E. reflexivity.
  Qed.

  Lemma option_ext_some : forall {A} (a b : option A), (forall v, a = Some v <-> b = Some v) -> a = b.
  Proof.
    intros A [x|] [y|] H; try reflexivity.
    - apply H. reflexivity.
    - symmetry. apply H. reflexivity.
    - apply H. reflexivity.
  Qed.

  Lemma const_vals : forall (l : list (key * V)) v, (forall t x, In (t, x) l -> x = v) -> l = map (fun t => (t, v)) (akeys l).
  Proof.
    induction l as [|[t x] l IH]; intros v H; simpl; [reflexivity|].
    rewrite (H t x) by (left; reflexivity). f_equal. apply IH. intros t' x' Hin. apply (H t' x'). right. exact Hin.
  Qed.

  Section Uniform.
    Variable g : graph.
    Variable cs : chans.
    Variable outs : list (key * V).
    Variable R : list key.
    Hypothesis Hm : g_mode g = Pregel.
    Hypothesis Hemp : chans_empty cs.
    Hypothesis Hcs : NoDup (akeys cs).
    Hypothesis Hsorted : ksorted outs.
    Hypothesis Hsenders : forall k o, In (k, o) outs ->
      exists n, find_node g k = Some n /\ branches_legal n o /\ n_dmap n = [] /\
                (forall t, In t (receivers n o) <-> In t R) /\
                (forall t, In t (n_csucc n ++ chosen n o) -> In t (akeys cs)) /\
                (forall t, In t R -> is_dpred n t = true).
    Hypothesis HR : incl R (akeys cs).
    Hypothesis Hnomap : forall t, In t R -> has_mapping g t = false.

    Let Hnd : NoDup (akeys outs) := ksorted_nodup outs Hsorted.

    Lemma uniform_legal : outs_legal g outs.
    Proof.
      unfold outs_legal. apply Forall_forall. intros [k o] Hin.
      destruct (Hsenders k o Hin) as [n [Hf [Hl _]]]. exists n. split; assumption.
    Qed.

    Lemma uniform_sent_out : forall t, ~ In t R -> sent g outs t = [].
    Proof.
      intros t Hn. destruct (sent g outs t) as [|[s v] l] eqn:E; [reflexivity|]. exfalso.
      assert (Hin : In (s, v) (sent g outs t)) by (rewrite E; left; reflexivity).
      apply in_sent in Hin. destruct Hin as [_ [n [o [Hi [Hf [Hr _]]]]]].
      destruct (Hsenders s o Hi) as [n' [Hf' [_ [_ [Hrec _]]]]]. rewrite Hf in Hf'. inversion Hf'; subst n'.
      apply Hn. apply Hrec. exact Hr.
    Qed.

    Lemma uniform_sent_in : forall t, In t R -> collect (sent g outs t) = outs.
    Proof.
      intros t Ht. apply ksorted_ext; [apply collect_ksorted|exact Hsorted|].
      intros s. apply option_ext_some. intros v. rewrite chan_holds_one_per_sender by exact Hnd.
      rewrite in_sent. split.
      - intros [_ [n [o [Hi [Hf [_ Hv]]]]]].
        destruct (Hsenders s o Hi) as [n' [Hf' [_ [Hdm _]]]]. rewrite Hf in Hf'. inversion Hf'; subst n'.
        unfold edge_value in Hv. rewrite Hdm in Hv. simpl in Hv. subst v.
        apply in_alookup_nodup; assumption.
      - intros Hl. apply alookup_some_in in Hl.
        destruct (Hsenders s v Hl) as [n [Hf [_ [Hdm [Hrec [_ Hdp]]]]]].
        split.
        + apply in_dpreds. exists n. destruct (find_node_some _ _ _ Hf) as [Hin Hk].
          split; [exact Hin|]. split; [exact Hk|apply Hdp; exact Ht].
        + exists n, v. split; [exact Hl|]. split; [exact Hf|]. split; [apply Hrec; exact Ht|].
          unfold edge_value. rewrite Hdm. reflexivity.
    Qed.

    Lemma uniform_targets : targets_exist V cs (writes_of g outs) (deps_of g outs) = true.
    Proof.
      unfold targets_exist. apply andb_true_iff. split; apply forallb_forall.
      - intros [t [s v]] Hin. simpl. apply memb_in. apply in_writes_of in Hin.
        destruct Hin as [n [o [Hi [Hf [Hr _]]]]].
        destruct (Hsenders s o Hi) as [n' [Hf' [_ [_ [Hrec _]]]]]. rewrite Hf in Hf'. inversion Hf'; subst n'.
        apply HR. apply Hrec. exact Hr.
      - intros [t s] Hin. simpl. apply memb_in. unfold deps_of in Hin. apply in_flat_map in Hin.
        destruct Hin as [[k o] [Hi Hd]]. simpl in Hd.
        destruct (Hsenders k o Hi) as [n [Hf [_ [_ [_ [Hdep _]]]]]]. rewrite Hf in Hd.
        apply in_map_iff in Hd. destruct Hd as [t' [Heq Ht']]. inversion Heq; subst. apply Hdep. exact Ht'.
    Qed.

    Lemma uniform_calc_next_eq :
      calc_next V ops g cs outs = get_all V ops g (map (update_chan V g (writes_of g outs) (deps_of g outs)) cs).
    Proof.
      unfold calc_next. rewrite (resolve_all_pregel_total g outs cs Hm uniform_legal). cbn [res_bind].
      unfold update_chans. rewrite uniform_targets. reflexivity.
    Qed.

    Hypothesis Hne : outs <> [].

    Lemma uniform_filter : forall t,
      nonemptyb (incoming_vals V g t (writes_of g outs)) = memb t R.
    Proof.
      intros t. fold (sent g outs t). destruct (memb t R) eqn:E.
      - apply memb_in in E. pose proof (uniform_sent_in t E) as Hc.
        destruct (sent g outs t) eqn:Es; [|reflexivity].
        exfalso. apply Hne. rewrite <- Hc. reflexivity.
      - apply memb_false in E. rewrite (uniform_sent_out t E). reflexivity.
    Qed.

    (* the merge succeeds: the next frontier is R (in channel order), everybody on the merged value *)
    Lemma uniform_step_ok : forall v,
      get_merge V ops outs = Ok v ->
      exists cs', calc_next V ops g cs outs = Ok (cs', map (fun t => (t, v)) (filter (fun t => memb t R) (akeys cs)))
                  /\ akeys cs' = akeys cs /\ chans_empty cs'.
    Proof.
      intros v Hv. rewrite uniform_calc_next_eq.
      destruct (get_all V ops g (map (update_chan V g (writes_of g outs) (deps_of g outs)) cs)) as [[cs'' ready]|e|] eqn:G.
      - destruct (get_all_pregel _ _ _ _ _ _ Hm Hemp G) as [Hk [He [Hr Hall]]].
        exists cs''. split; [|split; assumption].
        f_equal. f_equal.
        assert (Hkeys : akeys ready = filter (fun t => memb t R) (akeys cs)).
        { rewrite Hr. apply filter_ext. intros t. apply uniform_filter. }
        rewrite <- Hkeys. apply const_vals. intros t x Hin.
        rewrite Forall_forall in Hall. destruct (Hall _ Hin) as [m [Hg Hx]]. simpl in Hg, Hx.
        assert (Ht : In t R).
        { apply (in_map fst) in Hin. change (In t (akeys ready)) in Hin. rewrite Hkeys in Hin.
          apply filter_In in Hin. apply memb_in. apply Hin. }
        fold (sent g outs t) in Hg. rewrite (uniform_sent_in t Ht) in Hg. rewrite Hv in Hg. inversion Hg; subst m.
        rewrite Hx. unfold pre_node. rewrite (Hnomap t Ht). reflexivity.
      - exfalso. destruct (get_all_pregel_fails _ _ _ _ _ Hm Hemp G) as [t [_ [_ Hno]]]; [intros x; discriminate|].
        fold (sent g outs t) in Hno. destruct (in_dec N.eq_dec t R) as [Ht|Ht].
        + rewrite (uniform_sent_in t Ht) in Hno. exact (Hno _ Hv).
        + rewrite (uniform_sent_out t Ht) in Hno. exact (Hno _ eq_refl).
      - exfalso. destruct (get_all_pregel_fails _ _ _ _ _ Hm Hemp G) as [t [_ [_ Hno]]]; [intros x; discriminate|].
        fold (sent g outs t) in Hno. destruct (in_dec N.eq_dec t R) as [Ht|Ht].
        + rewrite (uniform_sent_in t Ht) in Hno. exact (Hno _ Hv).
        + rewrite (uniform_sent_out t Ht) in Hno. exact (Hno _ eq_refl).
    Qed.

    (* the merge fails and somebody needs it: calc_next fails with that error *)
    Lemma uniform_step_fail :
      R <> [] -> (forall v, get_merge V ops outs <> Ok v) ->
      calc_next V ops g cs outs = res_bind (get_merge V ops outs) (fun _ => Panic).
    Proof.
      intros HRne Hno. rewrite uniform_calc_next_eq.
      destruct (get_all V ops g (map (update_chan V g (writes_of g outs) (deps_of g outs)) cs)) as [[cs'' ready]|e|] eqn:G.
      - exfalso. destruct (get_all_pregel _ _ _ _ _ _ Hm Hemp G) as [Hk [He [Hr Hall]]].
        destruct R as [|t0 R'] eqn:ER; [apply HRne; reflexivity|]. rewrite <- ER in *.
        assert (Ht0 : In t0 R) by (rewrite ER; left; reflexivity).
        assert (Hin : In t0 (akeys ready)).
        { rewrite Hr. apply filter_In. split; [apply HR; exact Ht0|]. rewrite uniform_filter. apply memb_in. exact Ht0. }
        unfold akeys in Hin. apply in_map_iff in Hin. destruct Hin as [[t x] [Heq Hin]]. simpl in Heq. subst t.
        rewrite Forall_forall in Hall. destruct (Hall _ Hin) as [m [Hg _]]. simpl in Hg.
        fold (sent g outs t0) in Hg. rewrite (uniform_sent_in t0 Ht0) in Hg. exact (Hno _ Hg).
      - destruct (get_all_pregel_fails _ _ _ _ _ Hm Hemp G) as [t [_ [Heq Hnot]]]; [intros x; discriminate|].
        fold (sent g outs t) in Heq, Hnot. destruct (in_dec N.eq_dec t R) as [Ht|Ht].
        + rewrite (uniform_sent_in t Ht) in Heq. exact Heq.
        + exfalso. rewrite (uniform_sent_out t Ht) in Hnot. exact (Hnot _ eq_refl).
      - destruct (get_all_pregel_fails _ _ _ _ _ Hm Hemp G) as [t [_ [Heq Hnot]]]; [intros x; discriminate|].
        fold (sent g outs t) in Heq, Hnot. destruct (in_dec N.eq_dec t R) as [Ht|Ht].
        + rewrite (uniform_sent_in t Ht) in Heq. exact Heq.
        + exfalso. rewrite (uniform_sent_out t Ht) in Hnot. exact (Hnot _ eq_refl).
    Qed.
  End Uniform.
End Pregel.
