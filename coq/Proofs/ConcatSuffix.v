(* Proofs/ConcatSuffix.v — the suffix law for the generic chunk concatenation
   (Model/Concat.v): concatenating a *suffix* first gives the same value, or fails in the
   same cases:  F (xs ++ [F! ys]) ~ F (xs ++ ys).   Together with the prefix law of
   Proofs/ConcatRechunk.v this gives the law for an arbitrary segment and for any way of
   cutting the chunk list into consecutive groups (Proofs/ConcatSplit.v). *)
From Eino Require Import Base.Util Model.Concat Proofs.Concat Proofs.ConcatRechunk.

(* F (xs ++ [F! ys]) ~ F (xs ++ ys) *)
Definition suffix_ok {X} (F : list X -> res X) (xs ys : list X) : Prop :=
  match F ys with
  | Ok c => req (F (xs ++ [c])) (F (xs ++ ys))
  | _ => fails (F (xs ++ ys))
  end.

(* the suffix law a function registered by the application must satisfy in addition
   (it is never called on fewer than two chunks) *)
Class UserLawS {U : UserFn} : Prop := {
  ulaw_suffix : forall tag g xs ys, ufn tag = Some g -> xs <> [] -> 2 <= List.length ys ->
    match g ys with
    | Ok c =>
        match g (xs ++ [c]), g (xs ++ ys) with
        | Ok a, Ok b => a = b
        | Ok _, _ => False
        | _, Ok _ => False
        | _, _ => True
        end
    | _ => is_ok (g (xs ++ ys)) = false
    end
}.

Lemma no_user_law_s : @UserLawS no_user.
Proof. split; cbn; intros; discriminate. Qed.

Section User.
Context {U : UserFn} {L : UserLaw} {LS : UserLawS}.

(* ------------------------------------------------------------------ small facts *)

Lemma same_types_all_of t t' vs :
  vs <> [] -> same_types t vs = true -> same_types t' vs = cty_eqb t' t.
Proof.
  intros Hne Hs. destruct (cty_eqb t' t) eqn:E.
  - apply cty_eqb_eq in E. subst. exact Hs.
  - destruct vs as [|v l]; [congruence|].
    pose proof (same_types_In _ _ v Hs ltac:(now left)) as Hv.
    unfold same_types. cbn [forallb]. rewrite Hv, E. reflexivity.
Qed.

Lemma single_nonzero_suffix z vs fr :
  is_zero z = true ->
  match single_nonzero z fr with
  | Ok v => (v = z \/ In v fr) /\ single_nonzero z (vs ++ [v]) = single_nonzero z (vs ++ fr)
  | _ => fails (single_nonzero z (vs ++ fr))
  end.
Proof.
  intros Hz. unfold single_nonzero. rewrite filter_app.
  destruct (filter _ fr) as [|a [|b l]] eqn:E.
  - split; [now left|]. rewrite filter_app. cbn [filter]. rewrite Hz. reflexivity.
  - assert (Ha : In a (filter (fun v => negb (is_zero v)) fr)) by (rewrite E; now left).
    apply filter_In in Ha. destruct Ha as [Hin Hnz]. split; [now right|].
    rewrite filter_app. cbn [filter]. rewrite Hnz. reflexivity.
  - destruct (filter _ vs) as [|x [|y m]]; reflexivity.
Qed.

Lemma payloads_nonempty tag vs : vs <> [] -> same_types (TOther tag) vs = true -> payloads vs <> [].
Proof.
  intros Hne Hs. destruct vs as [|v l]; [congruence|].
  cbn in Hs. destruct v; cbn in Hs; discriminate.
Qed.

(* ------------------------------------------------------------------ one key *)

Definition nnf : list cval -> list cval := filter (fun v => negb (is_nil v)).
Definition ck (f : list (list (string * cval)) -> res (list (string * cval))) (l : list cval) : res cval :=
  match l with
  | [] => Ok CNil
  | v0 :: rest =>
      match dyn_ty v0 with
      | None => Panic
      | Some t => if same_types t rest then concat_typed f t (v0 :: rest) else Err E_TYPE
      end
  end.
Lemma concat_key_nn f vs : concat_key f vs = ck f (nnf vs).
Proof. reflexivity. Qed.
Lemma nnf_app a b : nnf (a ++ b) = nnf a ++ nnf b.
Proof. apply filter_app. Qed.

Section Key.
  Variable f : list (list (string * cval)) -> res (list (string * cval)).
  Variable n : nat.
  Hypothesis Hp : forall ms1 ms2, bounded n (ms1 ++ ms2) -> rechunk_ok f ms1 ms2.
  Hypothesis Hf : forall ms1 ms2, bounded n (ms1 ++ ms2) -> suffix_ok f ms1 ms2.

  Lemma typed_suffix t vs fr :
    vs <> [] -> fr <> [] -> same_types t vs = true -> same_types t fr = true -> vbounded n (vs ++ fr) ->
    match concat_typed f t fr with
    | Ok v => dyn_ty v = Some t /\ req (concat_typed f t (vs ++ [v])) (concat_typed f t (vs ++ fr))
    | _ => fails (concat_typed f t (vs ++ fr))
    end.
  Proof.
    intros Hnv Hne Hs Hr Hb.
    assert (Hne' : vs ++ fr <> []) by (destruct vs; [congruence|discriminate]).
    assert (Hs' : same_types t (vs ++ fr) = true) by (rewrite same_types_app, Hs, Hr; reflexivity).
    assert (Hbr : vbounded n fr) by (unfold vbounded in *; apply Forall_app in Hb; apply Hb).
    assert (Hsnoc : forall v, vs ++ [v] <> []) by (intros v; destruct vs; discriminate).
    destruct t as [|k|tag|mt].
    - rewrite (typed_str f fr Hne Hr). split; [reflexivity|].
      rewrite typed_str; [|apply Hsnoc|rewrite same_types_app, Hs; reflexivity].
      rewrite (typed_str f (vs ++ fr) Hne' Hs').
      rewrite !strs_app, !concat_strings_app. cbn. rewrite append_nil_r. reflexivity.
    - rewrite (typed_num f k fr Hne). split.
      + apply (same_types_In _ fr); [exact Hr|]. apply last_In, Hne.
      + rewrite typed_num by apply Hsnoc. rewrite (typed_num f k (vs ++ fr) Hne').
        rewrite !last_app_ne by (exact Hne || discriminate). apply req_refl.
    - destruct (ufn tag) as [g|] eqn:Hu.
      { destruct fr as [|y [|y2 fr]]; [congruence| |].
        - cbn [concat_typed]. split; [apply (same_types_In _ [y]); [exact Hr|now left]|]. apply req_refl.
        - rewrite (typed_user f tag g y y2 fr Hu).
          destruct vs as [|v vs]; [congruence|].
          assert (Hw : forall l, l <> [] -> exists a b m, (v :: vs) ++ l = a :: b :: m).
          { intros l Hl. destruct vs as [|v2 vs]; cbn.
            - destruct l as [|a m]; [congruence|]. eauto.
            - eauto. }
          destruct (Hw (y :: y2 :: fr) ltac:(discriminate)) as [a [b [m Ew]]]. rewrite Ew.
          rewrite (typed_user f tag g a b m Hu). rewrite <- Ew, payloads_app.
          assert (Hx : payloads (v :: vs) <> []) by (apply (payloads_nonempty tag); [discriminate|exact Hs]).
          assert (Hlen : 2 <= List.length (payloads (y :: y2 :: fr))).
          { rewrite (payloads_length tag) by exact Hr. cbn. lia. }
          pose proof (ulaw_suffix tag g (payloads (v :: vs)) (payloads (y :: y2 :: fr)) Hu Hx Hlen) as H.
          destruct (g (payloads (y :: y2 :: fr))) as [c| |]; cbn [res_map].
          + split; [reflexivity|].
            destruct (Hw [COther tag c] ltac:(discriminate)) as [a' [b' [m' Ew']]]. rewrite Ew'.
            rewrite (typed_user f tag g a' b' m' Hu). rewrite <- Ew', payloads_app.
            apply req_res_map. cbn [payloads flat_map app] in *. exact H.
          + apply fails_res_map. exact H.
          + apply fails_res_map. exact H. }
      rewrite (typed_other f tag fr Hu Hne Hr).
      pose proof (single_nonzero_suffix (COther tag 0) vs fr eq_refl) as H.
      rewrite (typed_other f tag (vs ++ fr) Hu Hne' Hs').
      destruct (single_nonzero (COther tag 0) fr) as [v| |]; [|exact H|exact H].
      destruct H as [Hv Heq].
      assert (Hty : dyn_ty v = Some (TOther tag)).
      { destruct Hv as [->|Hin]; [reflexivity|]. apply (same_types_In _ fr); assumption. }
      split; [exact Hty|].
      rewrite typed_other; [|exact Hu|apply Hsnoc|].
      + rewrite Heq. apply req_refl.
      + rewrite same_types_app, Hs. cbn. rewrite Hty, N.eqb_refl. reflexivity.
    - unfold concat_typed.
      assert (B : bounded n (maps vs ++ maps fr)) by (rewrite <- maps_app; apply maps_bounded, Hb).
      pose proof (Hf (maps vs) (maps fr) B) as H. unfold suffix_ok in H.
      rewrite !maps_app.
      destruct (f (maps fr)) as [c| |]; cbn [res_map].
      + split; [reflexivity|]. rewrite maps_app. cbn [maps flat_map app]. apply req_res_map. exact H.
      + apply fails_res_map, H.
      + apply fails_res_map, H.
  Qed.

  Lemma key_suffix vs rest :
    vbounded n (vs ++ rest) ->
    match concat_key f rest with
    | Ok v => req (concat_key f (vs ++ [v])) (concat_key f (vs ++ rest))
    | _ => fails (concat_key f (vs ++ rest))
    end.
  Proof.
    intros Hb. rewrite !concat_key_nn. rewrite (nnf_app vs rest).
    assert (Hbn : vbounded n (nnf vs ++ nnf rest)).
    { unfold nnf. rewrite <- filter_app. apply vbounded_filter, Hb. }
    assert (Hbr : vbounded n (nnf rest)) by (unfold vbounded in *; apply Forall_app in Hbn; apply Hbn).
    destruct (nnf rest) as [|r0 r] eqn:Er.
    - (* only nil values in the suffix: its result is nil, which is ignored *)
      cbn [ck]. rewrite concat_key_nn, nnf_app. cbn [nnf filter is_nil negb]. apply req_refl.
    - pose proof (filter_nonnil_head _ _ _ Er) as Hty0.
      destruct (dyn_ty r0) as [t|] eqn:Et; [|congruence]. clear Hty0.
      assert (Hcons : forall v, dyn_ty v = Some t -> nnf [v] = [v]).
      { intros v Hv. unfold nnf. cbn [filter]. rewrite (dyn_ty_nonnil _ _ Hv). reflexivity. }
      cbn [ck]. rewrite Et.
      destruct (same_types t r) eqn:Hs.
      + assert (Hs0 : same_types t (r0 :: r) = true) by (rewrite (same_types_cons _ _ _ Et); exact Hs).
        destruct (nnf vs) as [|v0 vr] eqn:Ev.
        * (* the key does not occur before the suffix: idempotence, from the prefix law *)
          cbn [app ck]. rewrite Et, Hs.
          pose proof (typed_rechunk f n Hp t (r0 :: r) [] ltac:(discriminate) Hs0 eq_refl) as H.
          rewrite app_nil_r in H. specialize (H Hbr).
          destruct (concat_typed f t (r0 :: r)) as [c| |]; [|reflexivity|reflexivity].
          destruct H as [Hty H]. rewrite concat_key_nn, nnf_app, Ev, (Hcons c Hty). cbn [app ck].
          rewrite Hty. cbn [same_types forallb]. exact H.
        * pose proof (filter_nonnil_head _ _ _ Ev) as Hty1.
          destruct (dyn_ty v0) as [t0|] eqn:Et0; [|congruence]. clear Hty1.
          cbn [app ck]. rewrite Et0. rewrite same_types_app.
          rewrite (same_types_all_of t t0 (r0 :: r)) by (discriminate || exact Hs0).
          destruct (concat_typed f t (r0 :: r)) as [c| |] eqn:Ec.
          -- assert (Hty : dyn_ty c = Some t).
             { apply (typed_ty f n Hp t (r0 :: r) c); [discriminate|exact Hs0|exact Hbr|exact Ec]. }
             rewrite concat_key_nn, nnf_app, Ev, (Hcons c Hty). cbn [app ck]. rewrite Et0.
             rewrite same_types_app. unfold same_types at 2. cbn [forallb]. rewrite Hty, andb_true_r.
             destruct (same_types t0 vr) eqn:Hvr; cbn [andb]; [|reflexivity].
             destruct (cty_eqb t0 t) eqn:E; [|reflexivity].
             apply cty_eqb_eq in E. subst t0.
             assert (Hsv : same_types t (v0 :: vr) = true) by (rewrite (same_types_cons _ _ _ Et0); exact Hvr).
             pose proof (typed_suffix t (v0 :: vr) (r0 :: r) ltac:(discriminate) ltac:(discriminate) Hsv Hs0 Hbn) as H.
             rewrite Ec in H. destruct H as [_ H]. exact H.
          -- destruct (same_types t0 vr) eqn:Hvr; cbn [andb]; [|reflexivity].
             destruct (cty_eqb t0 t) eqn:E; [|reflexivity].
             apply cty_eqb_eq in E. subst t0.
             assert (Hsv : same_types t (v0 :: vr) = true) by (rewrite (same_types_cons _ _ _ Et0); exact Hvr).
             pose proof (typed_suffix t (v0 :: vr) (r0 :: r) ltac:(discriminate) ltac:(discriminate) Hsv Hs0 Hbn) as H.
             rewrite Ec in H. exact H.
          -- destruct (same_types t0 vr) eqn:Hvr; cbn [andb]; [|reflexivity].
             destruct (cty_eqb t0 t) eqn:E; [|reflexivity].
             apply cty_eqb_eq in E. subst t0.
             assert (Hsv : same_types t (v0 :: vr) = true) by (rewrite (same_types_cons _ _ _ Et0); exact Hvr).
             pose proof (typed_suffix t (v0 :: vr) (r0 :: r) ltac:(discriminate) ltac:(discriminate) Hsv Hs0 Hbn) as H.
             rewrite Ec in H. exact H.
      + (* the suffix alone has a type clash: so has the whole *)
        destruct (nnf vs) as [|v0 vr] eqn:Ev.
        * cbn [app ck]. rewrite Et, Hs. reflexivity.
        * cbn [app ck]. destruct (dyn_ty v0) as [t0|]; [|reflexivity].
          destruct (same_types t0 (vr ++ r0 :: r)) eqn:Hw; [|reflexivity].
          exfalso. rewrite same_types_app in Hw. apply andb_prop in Hw. destruct Hw as [_ Hw].
          pose proof (same_types_In _ _ r0 Hw ltac:(now left)) as H0. rewrite Et in H0. inversion H0; subst t0.
          rewrite (same_types_cons _ _ _ Et) in Hw. congruence.
  Qed.
End Key.

(* ------------------------------------------------------------------ keys *)

Definition addl (l : list string) (K : list string) : list string :=
  fold_left (fun ks k => add_key k ks) l K.

Lemma add_key_in k K : In k K -> add_key k K = K.
Proof.
  induction K as [|a K IH]; cbn; [contradiction|].
  destruct (String.eqb k a) eqn:E; [reflexivity|].
  intros [->|H]; [rewrite String.eqb_refl in E; discriminate|]. rewrite IH by exact H. reflexivity.
Qed.

Lemma addl_snoc l k K : addl (l ++ [k]) K = add_key k (addl l K).
Proof. unfold addl. rewrite fold_left_app. reflexivity. Qed.

Lemma addl_In k l : forall K, In k (addl l K) <-> In k K \/ In k l.
Proof.
  unfold addl. induction l as [|a l IH]; cbn; intros K; [tauto|].
  rewrite IH, add_key_In. intuition.
Qed.

Lemma addl_dedup l K : addl (addl l []) K = addl l K.
Proof.
  induction l as [|k l IH] using rev_ind; [reflexivity|].
  rewrite !addl_snoc.
  destruct (in_dec string_dec k (addl l [])) as [Hin|Hnin].
  - rewrite (add_key_in k (addl l [])) by exact Hin. rewrite IH.
    symmetry. apply add_key_in. apply addl_In. right.
    apply addl_In in Hin. destruct Hin as [[]|Hin]. exact Hin.
  - rewrite (add_key_notin k (addl l [])) by exact Hnin. rewrite addl_snoc, IH. reflexivity.
Qed.

Lemma add_keys_addl (m : list (string * cval)) K : add_keys m K = addl (map fst m) K.
Proof.
  unfold add_keys, addl. revert K. induction m as [|kv m IH]; cbn; intros K; [reflexivity|]. apply IH.
Qed.

Lemma keys_from_addl (ys : list (list (string * cval))) : forall K,
  fold_left (fun ks m => add_keys m ks) ys K = addl (flat_map (map fst (B:=string)) ys) K.
Proof.
  induction ys as [|m ys IH]; intros K; cbn [fold_left flat_map]; [reflexivity|].
  rewrite IH, add_keys_addl. unfold addl. rewrite fold_left_app. reflexivity.
Qed.

Lemma keys_suffix (c : list (string * cval)) xs ys :
  map fst c = keys_of ys -> keys_of (xs ++ [c]) = keys_of (xs ++ ys).
Proof.
  intros H. rewrite !keys_of_fold, !fold_left_app. cbn [fold_left].
  rewrite add_keys_addl, H, keys_of_fold, !keys_from_addl. apply addl_dedup.
Qed.

(* ------------------------------------------------------------------ one pass over the keys *)

Section Step.
  Variable f : list (list (string * cval)) -> res (list (string * cval)).
  Variable n : nat.
  Hypothesis Hp : forall ms1 ms2, bounded n (ms1 ++ ms2) -> rechunk_ok f ms1 ms2.
  Hypothesis Hf : forall ms1 ms2, bounded n (ms1 ++ ms2) -> suffix_ok f ms1 ms2.

  Lemma step_suffix xs ys :
    bounded (S n) (xs ++ ys) ->
    match concat_maps_step f ys with
    | Ok c => req (concat_maps_step f (xs ++ [c])) (concat_maps_step f (xs ++ ys))
    | _ => fails (concat_maps_step f (xs ++ ys))
    end.
  Proof.
    intros Hb.
    assert (Hk : forall k, vbounded n (vals_at k xs ++ vals_at k ys)).
    { intros k. rewrite <- vals_at_app. apply vals_at_bounded, Hb. }
    assert (Hfail : forall k, In k (keys_of ys) -> fails (concat_key f (vals_at k ys)) ->
                    fails (concat_maps_step f (xs ++ ys))).
    { intros k Hin Fk. unfold concat_maps_step. apply (res_mapM_fails _ _ k).
      - apply keys_of_In in Hin. destruct Hin as [m [H1 H2]]. apply keys_of_In. exists m.
        split; [apply in_or_app; now right|exact H2].
      - pose proof (key_suffix f n Hp Hf (vals_at k xs) (vals_at k ys) (Hk k)) as H.
        rewrite vals_at_app. apply fails_res_map.
        unfold fails in *. destruct (concat_key f (vals_at k ys)); cbn in *; [discriminate|exact H|exact H]. }
    destruct (concat_maps_step f ys) as [c|e|] eqn:E.
    - unfold concat_maps_step in E. apply mapM_pairs_inv in E. destruct E as [Hfst Hget].
      unfold concat_maps_step. rewrite (keys_suffix c xs ys Hfst).
      apply res_mapM_req. intros k _. apply req_res_map.
      rewrite !vals_at_app. unfold vals_at at 2. cbn [flat_map]. rewrite app_nil_r.
      destruct (in_dec string_dec k (keys_of ys)) as [Hin|Hnin].
      + destruct (Hget k Hin) as [v [Hv Hc]]. rewrite Hc.
        pose proof (key_suffix f n Hp Hf (vals_at k xs) (vals_at k ys) (Hk k)) as H.
        rewrite Hv in H. exact H.
      + rewrite alist_get_None by (rewrite Hfst; exact Hnin).
        rewrite (vals_at_nil k ys Hnin). apply req_refl.
    - assert (F : fails (concat_maps_step f ys)) by (rewrite E; reflexivity).
      apply res_mapM_fails_inv in F. destruct F as [k [Hin Hk']].
      apply (Hfail k Hin). unfold fails in *. destruct (concat_key f (vals_at k ys)); cbn in *; auto.
    - assert (F : fails (concat_maps_step f ys)) by (rewrite E; reflexivity).
      apply res_mapM_fails_inv in F. destruct F as [k [Hin Hk']].
      apply (Hfail k Hin). unfold fails in *. destruct (concat_key f (vals_at k ys)); cbn in *; auto.
  Qed.
End Step.

(* ------------------------------------------------------------------ maps, any depth *)

Lemma concat_maps_suffix_n : forall n xs ys,
  bounded n (xs ++ ys) -> suffix_ok concat_maps_top xs ys.
Proof.
  induction n as [|n IH]; intros xs ys Hb.
  - assert (xs ++ ys = []) as H0.
    { destruct (xs ++ ys) as [|m l]; [reflexivity|]. inversion Hb; subst. cbn in H1. lia. }
    apply app_eq_nil in H0. destruct H0; subst. vm_compute. reflexivity.
  - pose proof (step_suffix concat_maps_top n (fun a b _ => concat_maps_rechunk a b) IH xs ys Hb) as H.
    unfold suffix_ok. rewrite (concat_maps_top_unfold ys).
    destruct (concat_maps_step concat_maps_top ys) as [c| |].
    + rewrite (concat_maps_top_unfold (xs ++ [c])), (concat_maps_top_unfold (xs ++ ys)). exact H.
    + rewrite (concat_maps_top_unfold (xs ++ ys)). exact H.
    + rewrite (concat_maps_top_unfold (xs ++ ys)). exact H.
Qed.

Theorem concat_maps_suffix xs ys : suffix_ok concat_maps_top xs ys.
Proof. apply (concat_maps_suffix_n (S (dmaps (xs ++ ys)))), bounded_top. Qed.

(* concat_key with the fuel hidden *)
Lemma concat_key_top_suffix vs rest :
  match concat_key concat_maps_top rest with
  | Ok v => req (concat_key concat_maps_top (vs ++ [v])) (concat_key concat_maps_top (vs ++ rest))
  | _ => fails (concat_key concat_maps_top (vs ++ rest))
  end.
Proof.
  apply (key_suffix concat_maps_top (S (depth_list (vs ++ rest)))).
  - intros ms1 ms2 _. apply concat_maps_rechunk.
  - intros ms1 ms2 _. apply concat_maps_suffix.
  - apply vbounded_top.
Qed.

(* ------------------------------------------------------------------ statically typed item lists *)

Lemma items_suffix t xs ys :
  xs <> [] -> ys <> [] -> same_types t (xs ++ ys) = true ->
  match concat_items ys with
  | Ok c => dyn_ty c = Some t /\ req (concat_items (xs ++ [c])) (concat_items (xs ++ ys))
  | _ => fails (concat_items (xs ++ ys))
  end.
Proof.
  intros Hnx Hny Hs.
  assert (Hne' : xs ++ ys <> []) by (destruct xs; [congruence|discriminate]).
  assert (Hsnoc : forall v, xs ++ [v] <> []) by (intros v; destruct xs; discriminate).
  pose proof Hs as Hs'. rewrite same_types_app in Hs'. apply andb_prop in Hs'. destruct Hs' as [Hx Hy].
  assert (Hnm : not_map t ->
    match concat_items ys with
    | Ok c => dyn_ty c = Some t /\ req (concat_items (xs ++ [c])) (concat_items (xs ++ ys))
    | _ => fails (concat_items (xs ++ ys))
    end).
  { intros Ht.
    rewrite (concat_items_other t ys Hny Ht Hy), (concat_items_other t (xs ++ ys) Hne' Ht Hs).
    assert (Hb : vbounded 1 (xs ++ ys)).
    { unfold vbounded. apply Forall_forall. intros v Hin.
      rewrite (nonmap_depth t v); [lia| |exact Ht]. apply (same_types_In _ _ _ Hs Hin). }
    pose proof (typed_suffix (fun _ => Err 0%N) 1 (fun _ _ _ => eq_refl) t xs ys Hnx Hny Hx Hy Hb) as H.
    destruct (concat_typed _ t ys) as [c| |]; [|exact H|exact H].
    destruct H as [Hty H]. split; [exact Hty|].
    rewrite (concat_items_other t (xs ++ [c])); [exact H|apply Hsnoc|exact Ht|].
    rewrite same_types_app, Hx. unfold same_types. cbn [forallb]. rewrite Hty, cty_eqb_refl. reflexivity. }
  destruct t as [|k|tag|mt]; try (apply Hnm; exact I). clear Hnm.
  rewrite (concat_items_map mt ys Hny Hy), (concat_items_map mt (xs ++ ys) Hne' Hs).
  pose proof (concat_maps_suffix (maps xs) (maps ys)) as H. unfold suffix_ok in H.
  rewrite maps_app.
  destruct (concat_maps_top (maps ys)) as [c| |]; cbn [res_map].
  - split; [reflexivity|]. rewrite (concat_items_map mt); [|apply Hsnoc|].
    + rewrite maps_app. cbn [maps flat_map app]. apply req_res_map. exact H.
    + rewrite same_types_app, Hx. cbn. rewrite N.eqb_refl. reflexivity.
  - apply fails_res_map, H.
  - apply fails_res_map, H.
Qed.

(* concatStreamReader: suffix law (the single-chunk shortcut on either side) *)
Theorem concat_stream_suffix t xs ys :
  ys <> [] -> (forall v, In v (xs ++ ys) -> dyn_ty v = Some t) ->
  suffix_ok concat_stream xs ys /\ (forall c, concat_stream ys = Ok c -> dyn_ty c = Some t).
Proof.
  intros Hne Hall. pose proof (same_types_of t _ Hall) as Hs.
  unfold suffix_ok.
  destruct ys as [|y1 [|y2 l]]; [congruence| |].
  - cbn [concat_stream]. split; [apply req_refl|]. intros c H. inversion H; subst.
    apply Hall, in_or_app. right. now left.
  - change (concat_stream (y1 :: y2 :: l)) with (concat_items (y1 :: y2 :: l)).
    destruct xs as [|x xs].
    + (* nothing before the suffix *)
      cbn [app]. change (concat_stream (y1 :: y2 :: l)) with (concat_items (y1 :: y2 :: l)).
      pose proof (items_rechunk t (y1 :: y2 :: l) [] ltac:(discriminate)) as H.
      rewrite app_nil_r in H. specialize (H Hs).
      destruct (concat_items (y1 :: y2 :: l)) as [c| |] eqn:E; [|split; [reflexivity|discriminate]..].
      destruct H as [Hty _]. split; [cbn [concat_stream]; reflexivity|].
      intros c' Hc. inversion Hc; subst. exact Hty.
    + pose proof (items_suffix t (x :: xs) (y1 :: y2 :: l) ltac:(discriminate) ltac:(discriminate) Hs) as H.
      assert (W : forall zs, zs <> [] -> concat_stream ((x :: xs) ++ zs) = concat_items ((x :: xs) ++ zs)).
      { intros zs Hz. destruct xs as [|x2 xs]; cbn [app]; [destruct zs; [congruence|reflexivity]|reflexivity]. }
      rewrite (W (y1 :: y2 :: l)) by discriminate.
      destruct (concat_items (y1 :: y2 :: l)) as [c| |] eqn:E.
      * destruct H as [Hty H]. split; [|intros c' Hc; inversion Hc; subst; exact Hty].
        rewrite (W [c]) by discriminate. exact H.
      * split; [exact H|discriminate].
      * split; [exact H|discriminate].
Qed.

End User.
