(* Proofs/StateLockType.v — C11: a handler / a ProcessState call always finds the state object
   made by the generator of the nearest enclosing graph that declares state, of the type it is
   written for, in every program that passes AddNode's checks (getState's two error paths are
   unreachable). For every interleaving of Model/StateLockLTS.v. *)
From Eino Require Import Base.Util Model.StateLock Model.StateLockLTS Model.StateLockType
  Proofs.StateLockLTS Proofs.StateLockVal Proofs.StateLockOwn Proofs.StateLockNest.
From Coq Require Import Lia.

(* ---------------------------------------------------------------- static facts about a forest *)

Lemma parent_in_sound : forall s ns a, parent_in s ns = Some a -> In a ns /\ n_sub a = Some s.
Proof.
  induction ns as [|b ns IH]; simpl; intros a H; [discriminate|].
  destruct (n_sub b) as [g'|] eqn:Eb.
  - destruct (Nat.eqb s g') eqn:E.
    + inversion H; subst. apply Nat.eqb_eq in E. subst. auto.
    + destruct (IH _ H). auto.
  - destruct (IH _ H). auto.
Qed.

Lemma parent_from_sound : forall f k s pg a, parent_from k f s = Some (pg, a) ->
  (k <= pg)%nat /\ exists G, nth_error f (pg - k) = Some G /\ In a (g_nodes G) /\ n_sub a = Some s.
Proof.
  induction f as [|gr f IH]; simpl; intros k s pg a H; [discriminate|].
  destruct (parent_in s (g_nodes gr)) as [a'|] eqn:E.
  - inversion H; subst. split; [lia|]. exists gr. rewrite Nat.sub_diag. simpl.
    destruct (parent_in_sound _ _ _ E). auto.
  - destruct (IH _ _ _ _ H) as (Hk & G & HG & Hin & Hs). split; [lia|].
    exists G. replace (pg - k)%nat with (Datatypes.S (pg - Datatypes.S k)) by lia. simpl. auto.
Qed.

Lemma parent_of_sound : forall f s pg a, parent_of f s = Some (pg, a) ->
  exists G, nth_error f pg = Some G /\ In a (g_nodes G) /\ n_sub a = Some s.
Proof.
  unfold parent_of. intros f s pg a H. destruct (parent_from_sound _ _ _ _ _ H) as (_ & G & HG & Hin & Hs).
  rewrite Nat.sub_0_r in HG. eauto.
Qed.

Lemma in_combine_seq : forall A (l : list A) k i a, nth_error l i = Some a ->
  In ((k + i)%nat, a) (combine (seq k (List.length l)) l).
Proof.
  induction l as [|b l IH]; intros k i a H; [destruct i; discriminate|].
  destruct i; simpl in *.
  - inversion H; subst. left. f_equal. lia.
  - right. replace (k + Datatypes.S i)%nat with (Datatypes.S k + i)%nat by lia. apply IH. auto.
Qed.

Lemma in_graphs_of : forall f gi G, nth_error f gi = Some G -> In (gi, G) (graphs_of f).
Proof. intros. unfold graphs_of. apply (in_combine_seq _ f 0%nat gi G H). Qed.

Lemma nest_ok_spec : forall f gi G a s, nest_ok f = true -> nth_error f gi = Some G ->
  In a (g_nodes G) -> n_sub a = Some s ->
  exists a', parent_of f s = Some (gi, a') /\ (gi < s)%nat.
Proof.
  intros f gi G a s Hn HG Hin Hs. unfold nest_ok in Hn. rewrite forallb_forall in Hn.
  specialize (Hn _ (in_graphs_of _ _ _ HG)). simpl in Hn. rewrite forallb_forall in Hn.
  specialize (Hn _ Hin). rewrite Hs in Hn.
  destruct (parent_of f s) as [[pg a']|]; [|discriminate].
  apply andb_prop in Hn. destruct Hn as [H1 H2]. apply Nat.eqb_eq in H1. apply Nat.ltb_lt in H2.
  subst. eauto.
Qed.

(* graph 0 is nobody's nested graph *)
Lemma nest_ok_top : forall f, nest_ok f = true -> parent_of f 0%nat = None.
Proof.
  intros f Hn. destruct (parent_of f 0%nat) as [[pg a]|] eqn:E; [|reflexivity].
  destruct (parent_of_sound _ _ _ _ E) as (G & HG & Hin & Hs).
  destruct (nest_ok_spec _ _ _ _ _ Hn HG Hin Hs) as (_ & _ & Hlt). lia.
Qed.

(* what the build check and the must-fail check mean for one node *)
Lemma build_ok_spec : forall f gty nty gi G a, build_err_t f gty nty = false ->
  nth_error f gi = Some G -> In a (g_nodes G) ->
  (n_pre a = true -> g_state G = true /\ t_pre nty a = gty_of gty gi) /\
  (n_post a = true -> g_state G = true /\ t_post nty a = gty_of gty gi).
Proof.
  intros f gty nty gi G a Hb HG Hin. unfold build_err_t in Hb.
  assert (Hg : (if g_state G then
               existsb (fun a => (n_pre a && negb (N.eqb (t_pre nty a) (gty_of gty gi))) ||
                                 (n_post a && negb (N.eqb (t_post nty a) (gty_of gty gi)))) (g_nodes G)
             else existsb (fun a => n_pre a || n_post a) (g_nodes G)) = false).
  { destruct (existsb _ (graphs_of f)) eqn:E in Hb; [discriminate|].
    clear Hb. rename E into Hb.
    match goal with |- ?t = false => destruct t eqn:Et; [|reflexivity] end.
    exfalso. assert (Hex : existsb (fun gg : nat * graph => let '(gi, g) := gg in
             if g_state g then
               existsb (fun a => (n_pre a && negb (N.eqb (t_pre nty a) (gty_of gty gi))) ||
                                 (n_post a && negb (N.eqb (t_post nty a) (gty_of gty gi)))) (g_nodes g)
             else existsb (fun a => n_pre a || n_post a) (g_nodes g)) (graphs_of f) = true).
    { apply existsb_exists. exists (gi, G). split; [apply in_graphs_of; auto|exact Et]. }
    rewrite Hex in Hb. discriminate. }
  destruct (g_state G).
  - assert (Ha : (n_pre a && negb (N.eqb (t_pre nty a) (gty_of gty gi))) ||
                 (n_post a && negb (N.eqb (t_post nty a) (gty_of gty gi))) = false).
    { destruct ((n_pre a && negb (N.eqb (t_pre nty a) (gty_of gty gi))) ||
                 (n_post a && negb (N.eqb (t_post nty a) (gty_of gty gi)))) eqn:E; [|reflexivity].
      exfalso. assert (Hex : existsb (fun a => (n_pre a && negb (N.eqb (t_pre nty a) (gty_of gty gi))) ||
                                 (n_post a && negb (N.eqb (t_post nty a) (gty_of gty gi)))) (g_nodes G) = true).
      { apply existsb_exists. exists a. auto. }
      rewrite Hex in Hg. discriminate. }
    apply Bool.orb_false_iff in Ha. destruct Ha as [H1 H2].
    split; intro Hp; rewrite Hp in *; simpl in *; split; auto.
    + apply Bool.negb_false_iff in H1. apply N.eqb_eq in H1. auto.
    + apply Bool.negb_false_iff in H2. apply N.eqb_eq in H2. auto.
  - assert (Ha : n_pre a || n_post a = false).
    { destruct (n_pre a || n_post a) eqn:E; [|reflexivity].
      exfalso. assert (Hex : existsb (fun a => n_pre a || n_post a) (g_nodes G) = true).
      { apply existsb_exists. exists a. auto. }
      rewrite Hex in Hg. discriminate. }
    apply Bool.orb_false_iff in Ha. destruct Ha as [H1 H2].
    split; intro Hp; congruence.
Qed.

Lemma must_ok_spec : forall f gty nty gi G a, must_fail_t f gty nty = false ->
  nth_error f gi = Some G -> In a (g_nodes G) -> n_sub a = None -> (0 < n_ps a)%nat ->
  exists og, owner_of f gi = Some og /\ t_ps nty a = gty_of gty og.
Proof.
  intros f gty nty gi G a Hm HG Hin Hs Hps. unfold must_fail_t in Hm.
  set (P := fun a : node => match n_sub a with
                               | Some _ => false
                               | None => Nat.ltb 0 (n_ps a) &&
                                         match owner_of f gi with
                                         | Some og => negb (N.eqb (t_ps nty a) (gty_of gty og))
                                         | None => true
                                         end
                               end).
  assert (Ha : P a = false).
  { destruct (P a) eqn:E; [|reflexivity]. exfalso.
    assert (Hex : existsb (fun gg : nat * graph => let '(gi, g) := gg in
             existsb (fun a => match n_sub a with
                               | Some _ => false
                               | None => Nat.ltb 0 (n_ps a) &&
                                         match owner_of f gi with
                                         | Some og => negb (N.eqb (t_ps nty a) (gty_of gty og))
                                         | None => true
                                         end
                               end) (g_nodes g)) (graphs_of f) = true).
    { apply existsb_exists. exists (gi, G). split; [apply in_graphs_of; auto|].
      apply existsb_exists. exists a. split; [auto|exact E]. }
    rewrite Hex in Hm. discriminate. }
  unfold P in Ha. rewrite Hs in Ha.
  assert (Hl : Nat.ltb 0 (n_ps a) = true) by (apply Nat.ltb_lt; auto).
  rewrite Hl in Ha. simpl in Ha.
  destruct (owner_of f gi) as [og|]; [|discriminate].
  exists og. split; [reflexivity|]. apply Bool.negb_false_iff in Ha. apply N.eqb_eq in Ha. auto.
Qed.

Section TypeLookup.
  Variables (S X : Type).
  Variable gen : nat -> S.
  Variable hfun : kind -> N -> X -> S -> X * S.
  Variable lout : N -> X -> X.
  Variable mrg : list X -> X.
  Variable f : forest.
  Variable x0 : X.

  Notation config := (config S X).
  Notation inst := (inst S X).
  Notation pstep := (pstep S X gen hfun lout mrg f x0).
  Notation preach := (preach S X gen hfun lout mrg f x0).
  Notation new_inst := (new_inst S X gen).
  Notation iskel := (iskel S X).
  Notation oskel := (oskel S X).
  Notation static_of := (static_of S X).

  Ltac inv H := inversion H; subst; clear H.

  (* ---------------------------------------------------------------- every instance runs a graph
     of the forest; an instance without parent runs graph 0 *)

  Definition gsk (I : list isk) : Prop :=
    forall i r g p o, nth_error I i = Some (r, g, p, o) ->
      (exists G, nth_error f g = Some G) /\ (p = None -> g = 0%nat).

  Definition gsk_inv (c : config) : Prop := gsk (iskel c).

  Lemma gsk_app : forall I r g p o, gsk I ->
    (exists G, nth_error f g = Some G) -> (p = None -> g = 0%nat) -> gsk (I ++ [(r, g, p, o)]).
  Proof.
    intros I r g p o HI HG Hp i r1 g1 p1 o1 H.
    destruct (Nat.lt_ge_cases i (List.length I)) as [Hlt|Hge].
    - rewrite nth_error_app1 in H by auto. eapply HI; eauto.
    - rewrite nth_error_app2 in H by auto. destruct (i - List.length I)%nat as [|k]; simpl in H.
      + inv H. auto.
      + destruct k; discriminate.
  Qed.

  Lemma gsk_new_inst : forall c r g G par inh x, gsk_inv c -> nth_error f g = Some G ->
    (par = None -> g = 0%nat) -> gsk_inv (new_inst c r g G par inh x).
  Proof.
    intros. unfold gsk_inv. rewrite iskel_new_inst. apply gsk_app; eauto.
  Qed.

  Lemma gsk_step : forall c ch c', gsk_inv c -> pstep c ch = Some c' -> gsk_inv c'.
  Proof.
    intros c ch c' IH H. destruct ch as [r|i n|i n|i n|i n|i n|o m].
    - apply pstep_start_inv in H. destruct H as (G & HG & ->). apply gsk_new_inst; auto.
    - apply pstep_acq_inv in H. destruct H as (J & a & p & k & x & o & r & El & Ek & Ex & Eo & Er & Eh & ->).
      apply lookup_inv in El. destruct El as (Ei & _).
      unfold gsk_inv, StateLockOwn.iskel. simpl. rewrite (iskel_moved' S X c i J n _ Ei). exact IH.
    - apply pstep_load_inv in H. destruct H as (J & a & p & o & r & El & Eo & Er & ->).
      apply lookup_inv in El. destruct El as (Ei & _).
      unfold gsk_inv, StateLockOwn.iskel. simpl. rewrite (iskel_moved' S X c i J n _ Ei). exact IH.
    - apply pstep_store_inv in H.
      destruct H as (J & a & p & l & k & x & o & r & x' & s' & El & Ek & Ex & Eo & Er & Eh & ->).
      apply lookup_inv in El. destruct El as (Ei & _).
      unfold gsk_inv, StateLockOwn.iskel. simpl. rewrite (iskel_moved' S X c i J n _ Ei). exact IH.
    - apply pstep_rel_inv in H. destruct H as (J & a & p & o & r & q & El & Eo & Er & ->).
      apply lookup_inv in El. destruct El as (Ei & _).
      unfold gsk_inv, StateLockOwn.iskel. simpl. rewrite (iskel_moved S X c i J n _ q Ei). exact IH.
    - apply pstep_adv_inv in H. destruct H as (J & a & p & El & En & [(p' & q & _ & ->)|(x & g & G & -> & Es & EG & ->)]).
      + apply lookup_inv in El. destruct El as (Ei & _).
        unfold gsk_inv, StateLockOwn.iskel. simpl. rewrite (iskel_moved S X c i J n _ q Ei). exact IH.
      + apply lookup_inv in El. destruct El as (Ei & _).
        set (c1 := new_inst c (i_run J) g G (Some i) (i_obj J) x).
        assert (Ei' : nth_error (c_insts c1) i = Some J).
        { unfold c1, StateLockLTS.new_inst. destruct (g_state G); simpl; rewrite nth_error_app1; auto; eapply nth_some_lt; eauto. }
        assert (H1 : gsk_inv c1) by (apply gsk_new_inst; auto; discriminate).
        unfold gsk_inv, StateLockOwn.iskel. simpl. rewrite (iskel_moved' S X c1 i J n _ Ei'). exact H1.
    - apply pstep_resume_inv in H. destruct H as (r & Er & Eh & ->).
      unfold gsk_inv, StateLockOwn.iskel, resumed. simpl.
      intros i r1 g1 p1 o1 Hn. rewrite map_map, nth_error_map in Hn.
      destruct (nth_error (c_insts c) i) as [J|] eqn:EJ; [|discriminate]. simpl in Hn.
      destruct (remap_static S X o (List.length (c_objs c)) J) as (H1 & H2 & H3 & _).
      unfold StateLockOwn.static_of in Hn. rewrite H1, H2, H3 in Hn. inv Hn.
      apply (IH i (i_run J) (i_graph J) (i_parent J) (i_obj J)).
      apply (iskel_nth S X c i J EJ).
  Qed.

  Lemma gsk_reach : forall c, preach c -> gsk_inv c.
  Proof.
    induction 1; [|eapply gsk_step; eauto].
    intros i r g p o H. destruct i; discriminate.
  Qed.

  (* ---------------------------------------------------------------- the generator an object comes from *)

  Lemma obj_root_inst : forall c, preach c ->
    forall fuel o r K, nth_error (c_objs c) o = Some r -> nth_error (c_insts c) (o_inst r) = Some K ->
      (o < fuel)%nat -> obj_root fuel (c_objs c) o = Some (i_graph K).
  Proof.
    intros c Hr. destruct (origin_reach S X gen hfun lout mrg f x0 c Hr) as (Hg & Hres & _).
    induction fuel as [|fu IH]; intros o r K Ho HK Hlt; [lia|].
    simpl. rewrite Ho. destruct (o_origin r) as [g|o' m] eqn:Eo.
    - destruct (Hg _ _ _ Ho Eo) as (_ & K' & HK' & Hgr). rewrite HK in HK'. inv HK'. reflexivity.
    - destruct (Hres _ _ _ _ Ho Eo) as (Hlt' & r0 & Hr0 & _ & _ & Hinst & _).
      apply (IH o' r0 K Hr0); [rewrite <- Hinst; auto|lia].
  Qed.

  (* ---------------------------------------------------------------- nearest enclosing owner *)

  Lemma nearest_owner : forall c, preach c -> nest_ok f = true ->
    forall fuel i J, nth_error (c_insts c) i = Some J -> (i_graph J < fuel)%nat ->
      match owner fuel f (i_graph J) with
      | None => i_obj J = None
      | Some og => exists o r K, i_obj J = Some o /\ nth_error (c_objs c) o = Some r /\
                                 nth_error (c_insts c) (o_inst r) = Some K /\ i_graph K = og /\
                                 i_run K = i_run J
      end.
  Proof.
    intros c Hr Hn.
    pose proof (gsk_reach c Hr) as Hgsk.
    destruct (own_reach S X gen hfun lout mrg f x0 c Hr) as (Hpar & Hown & Hinh & _ & _).
    pose proof (parent_link_reach S X gen hfun lout mrg f x0 c Hr) as Hpl.
    induction fuel as [|fu IH]; intros i J HJ Hlt; [lia|].
    pose proof (iskel_nth S X c i J HJ) as Hsk. unfold StateLockOwn.static_of in Hsk.
    destruct (Hgsk _ _ _ _ _ Hsk) as ((G & HG) & Htop).
    simpl. rewrite HG. destruct (g_state G) eqn:Est.
    - assert (Hgs : gstate f (i_graph J) = true) by (unfold gstate; rewrite HG; auto).
      destruct (Hown _ _ _ _ _ Hsk Hgs) as (ob & Hob & HO).
      destruct (oskel_inv S X c ob i HO) as (r & Hr0 & Hri).
      exists ob, r, J. rewrite Hri. repeat split; auto.
    - assert (Hgs : gstate f (i_graph J) = false) by (unfold gstate; rewrite HG; auto).
      pose proof (Hinh _ _ _ _ _ Hsk Hgs) as Hi.
      destruct (i_parent J) as [pi|] eqn:Ep.
      + destruct Hi as (r' & g' & p' & Hpi).
        destruct (iskel_inv S X c pi _ Hpi) as (PJ & HPJ & Hst). unfold StateLockOwn.static_of in Hst.
        inv Hst.
        destruct (Hpar _ _ _ _ _ Hsk) as (_ & g2 & p2 & o2 & Hpi2).
        rewrite (iskel_nth S X c pi PJ HPJ) in Hpi2. unfold StateLockOwn.static_of in Hpi2. inv Hpi2.
        destruct (Hpl i J pi HJ Ep) as (PJ' & PG & n & a & s & HPJ' & HPG & Hfind & Hsub & _).
        rewrite HPJ in HPJ'. inv HPJ'.
        destruct (nest_ok_spec f _ _ _ _ Hn HPG (find_in_graph_in _ _ _ Hfind) Hsub) as (a' & Hpo & Hlt2).
        rewrite Hpo.
        assert (Hlt3 : (i_graph PJ' < fu)%nat) by lia.
        specialize (IH pi PJ' HPJ Hlt3).
        destruct (owner fu f (i_graph PJ')) as [og|].
        * destruct IH as (o & r & K & Ho & Hro & HK & Hgr & Hrun).
          exists o, r, K. repeat split; auto; congruence.
        * first [exact IH|congruence].
      + assert (Hg0 : i_graph J = 0%nat) by (apply Htop; reflexivity).
        rewrite Hg0. rewrite (nest_ok_top f Hn). exact Hi.
  Qed.

  (* ---------------------------------------------------------------- the theorem *)

  Theorem state_lookup_well_typed_preach : forall c gty nty, preach c -> nest_ok f = true ->
    (forall i J, nth_error (c_insts c) i = Some J ->
       match owner_of f (i_graph J) with
       | None => i_obj J = None
       | Some og => exists o, i_obj J = Some o /\
                              forall fuel, (o < fuel)%nat -> obj_root fuel (c_objs c) o = Some og
       end) /\
    (build_err_t f gty nty = false ->
     forall i J G a, nth_error (c_insts c) i = Some J -> nth_error f (i_graph J) = Some G -> In a (g_nodes G) ->
       (n_pre a = true -> owner_of f (i_graph J) = Some (i_graph J) /\ t_pre nty a = gty_of gty (i_graph J)) /\
       (n_post a = true -> owner_of f (i_graph J) = Some (i_graph J) /\ t_post nty a = gty_of gty (i_graph J))) /\
    (must_fail_t f gty nty = false ->
     forall i J G a, nth_error (c_insts c) i = Some J -> nth_error f (i_graph J) = Some G -> In a (g_nodes G) ->
       n_sub a = None -> (0 < n_ps a)%nat ->
       exists og, owner_of f (i_graph J) = Some og /\ t_ps nty a = gty_of gty og).
  Proof.
    intros c gty nty Hr Hn. split; [|split].
    - intros i J HJ.
      pose proof (iskel_nth S X c i J HJ) as Hsk. unfold StateLockOwn.static_of in Hsk.
      destruct (gsk_reach c Hr _ _ _ _ _ Hsk) as ((G & HG) & _).
      assert (Hlt : (i_graph J < Datatypes.S (List.length f))%nat).
      { apply nth_some_lt in HG. lia. }
      pose proof (nearest_owner c Hr Hn _ i J HJ Hlt) as H. unfold owner_of.
      destruct (owner (Datatypes.S (List.length f)) f (i_graph J)) as [og|]; [|exact H].
      destruct H as (o & r & K & Ho & Hro & HK & Hgr & _).
      exists o. split; [auto|]. intros fuel Hf. rewrite <- Hgr. eapply obj_root_inst; eauto.
    - intros Hb i J G a HJ HG Hin.
      destruct (build_ok_spec f gty nty _ G a Hb HG Hin) as (H1 & H2).
      assert (Hown : g_state G = true -> owner_of f (i_graph J) = Some (i_graph J)).
      { intro Hs. unfold owner_of. simpl. rewrite HG, Hs. reflexivity. }
      split; intro Hp; [destruct (H1 Hp)|destruct (H2 Hp)]; auto.
    - intros Hm i J G a HJ HG Hin Hs Hps. eapply must_ok_spec; eauto.
  Qed.
End TypeLookup.
