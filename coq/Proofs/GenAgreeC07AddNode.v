(* Proofs/GenAgreeC07AddNode.v — property C07, translator tie for the option / state-handler
   checks of compose/graph.go addNode (tools/go2v extractor "c07_addnode", Gen/AddNodeCode.v,
   translated statement by statement): for every state type of the graph, every declared
   input / output type of the node (none for a passthrough node) and every pair of optional
   state pre / post handlers, the translated checks pass exactly when the model's [handler_ok]
   (Model/TypeBuilder.v, used by [add_node]) holds for both handlers.  A source that compares
   the handler's type with anything but identity (e.g. through checkAssignable), swaps the
   input and the output side, or drops the "passthrough handler must be any" rule makes this
   stop compiling. *)
From Eino Require Import Base.Util Model.Types Model.TypesGenLib Model.TypeBuilder Model.TypeBuilderGenLib.
From Eino Require Gen.AddNodeCode.
Module G := Gen.AddNodeCode.

Theorem gen_add_node_checks_agrees : forall u st i o pre post,
  G.add_node_checks u (g_st st) i o pre post = handler_ok st i pre && handler_ok st o post.
Proof.
  intros u st i o pre post. unfold G.add_node_checks, handler_ok, h_state_of, h_ty_of, rt_eq, rt_is_nil, st_eq, opt_some.
  destruct pre as [[ps pt pr]|], post as [[qs qt qr]|], (g_st st) as [s|], i as [ti|], o as [to|]; simpl;
    repeat match goal with
           | |- context [N.eqb ?a ?b] => destruct (N.eqb a b); simpl
           | |- context [ty_eqb ?a ?b] => destruct (ty_eqb a b); simpl
           end; reflexivity.
Qed.

(* non-vacuity: the checks distinguish a handler of the node's type, of another type, of
   another state type, and the any rule of passthrough nodes *)
Example gen_add_node_checks_examples :
  let u := {| u_conc := []; u_iface := [] |} in
  let h := fun s t => Some {| h_state := s; h_ty := t; h_ret := None |} in
  G.add_node_checks u (Some 1%N) (Some (TConc 0)) (Some (TConc 1)) (h 1%N (TConc 0)) None = true /\
  G.add_node_checks u (Some 1%N) (Some (TConc 0)) (Some (TConc 1)) (h 1%N (TConc 1)) None = false /\
  G.add_node_checks u (Some 1%N) (Some (TConc 0)) (Some (TConc 1)) None (h 1%N (TConc 1)) = true /\
  G.add_node_checks u (Some 1%N) (Some (TConc 0)) (Some (TConc 1)) None (h 2%N (TConc 1)) = false /\
  G.add_node_checks u None (Some (TConc 0)) (Some (TConc 1)) None (h 1%N (TConc 1)) = false /\
  G.add_node_checks u (Some 1%N) None None (h 1%N TAny) None = true /\
  G.add_node_checks u (Some 1%N) None None (h 1%N (TConc 0)) None = false.
Proof. repeat split; reflexivity. Qed.

(* ------------------------------------------------------------------ addNode as a whole *)

(* the whole body of addNode (sticky build error, compiled flag, the deferred function, reserved keys,
   duplicate key, the option / state-handler checks, g.nodes[key] = node) is the model's [add_node];
   the node is stored with the helper of its runnable *)
Theorem gen_add_node_agrees : forall u xs k isp i o pre post,
  match G.add_node u xs k isp i o pre post with
  | AOk xs' => add_node (x_st xs) k isp i o pre post = (x_st xs', true) /\ xs' = x_push_node xs k isp i o pre post /\
               has_node (x_st xs) k = false
  | AFailPlain => add_node (x_st xs) k isp i o pre post = (x_st xs, false)
  | AFailSticky => add_node (x_st xs) k isp i o pre post = (set_err (x_st xs), false)
  | AOutside => False
  end.
Proof.
  intros u xs k isp i o pre post.
  unfold G.add_node, add_node, handler_ok, h_state_of, h_ty_of, rt_eq, rt_is_nil, st_eq, opt_some, x_has_node.
  destruct (g_err (x_st xs)); [reflexivity|].
  destruct (g_compiled (x_st xs)); [reflexivity|].
  destruct (N.eqb k kSTART); destruct (N.eqb k kEND); cbn [orb]; try reflexivity.
  destruct (has_node (x_st xs) k) eqn:Hn; [reflexivity|].
  destruct pre as [[ps pt pr]|], post as [[qs qt qr]|], (g_st (x_st xs)) as [s|], i as [ti|], o as [to|]; simpl;
    repeat match goal with
           | |- context [N.eqb ?a ?b] => destruct (N.eqb a b); simpl
           | |- context [ty_eqb ?a ?b] => destruct (ty_eqb a b); simpl
           end; try reflexivity; (split; [reflexivity | split; reflexivity]).
Qed.
