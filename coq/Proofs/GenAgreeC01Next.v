(* Proofs/GenAgreeC01Next.v — property C01: the Gallina functions tools/go2v translated statement by statement from
   runner.createTasks and runner.calculateNextTasks (compose/graph_run.go -> Gen/NextTasks.v) are, for all arguments
   and whatever the code they call does (Section variables: runner.resolveCompletedTasks, cm.updateAndGet), the
   hand-written specifications [create_tasks] and [calculate_next_tasks] of Model/NextSpec.v
   (gen_createTasks_agrees, gen_calculateNextTasks_agrees); and on the engine model
     next_is_calc_next         with resolveCompletedTasks as regenerated (Gen/ResolveTasks.v, calling the regenerated
                               copyItem and calculateBranch) and cm.updateAndGet doing on the grouped maps what
                               [update_chans] + [get_all] of Model/Graph.v do on the lists (hypothesis: graph_manager.go
                               is not translated), calculateNextTasks IS [calc_next] followed by the END test of
                               [step]: when END is among the ready nodes the run ends with END's value and NO task is
                               created; otherwise there is exactly one task per ready node, on the value its channel
                               handed out, in any-predecessor mode for every graph;
                               (Proofs/C01NextModel.v: next_tasks_are_ready — when every ready node has a chanCall the
                               next tasks are the ready list itself).
   A dropped END test, a task list that skips or repeats a ready node, a result taken from another node … make a
   theorem here stop compiling. *)
From Eino Require Import Base.Util Model.Graph Model.ImpGenLib Model.CalcBranchSpec Model.ResolveGenLib Model.ResolveSpec Model.NextSpec.
From Eino Require Import Proofs.CalcBranchModel Proofs.ResolveModel Proofs.C01NextModel Proofs.GenAgreeCalcBranch Proofs.GenAgreeC01Resolve.
From Eino Require Gen.ResolveTasks Gen.CalcBranch Gen.NextTasks.
From Coq Require Import Lia.

Lemma res_bind_ok_id : forall {A} (r : res A), (do x <- r; Ok x) = r.
Proof. intros A [a|e|]; reflexivity. Qed.

Section A.
  Variables V T NT CALL CM : Type.
  Variable zero_value : V.
  Variable zero_call : CALL.
  Variable err_code : nat -> N.
  Variable subscribe : list (key * CALL).
  Variable mk_task : key -> CALL -> V -> NT.
  Variable resolve_completed : CM -> list T -> bool -> res (wmap V * dmap * CM).
  Variable update_and_get : CM -> wmap V -> dmap -> res (list (key * V) * CM).

  Theorem gen_createTasks_agrees : forall nodeMap,
    Gen.NextTasks.createTasks V NT CALL zero_value zero_call err_code subscribe mk_task nodeMap
    = create_tasks V NT CALL zero_call err_code subscribe mk_task nodeMap.
  Proof.
    intros nodeMap. try reflexivity. (* neutral file *)
    all: unfold Gen.NextTasks.createTasks, create_tasks; cbv zeta.
    all: rewrite res_bind_ok_id.
    all: apply fold_res_ext3; intros acc [k v]; simpl fst; simpl snd.
    all: destruct (am_has k subscribe); reflexivity.
  Qed.

  Theorem gen_calculateNextTasks_agrees : forall tasks isStream cm,
    Gen.NextTasks.calculateNextTasks V T NT CALL CM zero_value zero_call err_code subscribe mk_task resolve_completed
      update_and_get tasks isStream cm
    = calculate_next_tasks V T NT CALL CM zero_value zero_call err_code subscribe mk_task resolve_completed
        update_and_get tasks isStream cm.
  Proof.
    intros tasks isStream cm. try reflexivity. (* neutral file *)
    all: unfold Gen.NextTasks.calculateNextTasks, calculate_next_tasks; cbv zeta.
    all: destruct (resolve_completed cm tasks isStream) as [[[w nd] cm1]| |]; simpl; try reflexivity.
    all: destruct (update_and_get cm1 w nd) as [[ready cm2]| |]; simpl; try reflexivity.
    all: destruct ready as [|kv ready]; [reflexivity|].
    all: change (Nat.ltb 0 (List.length (kv :: ready))) with true; cbv iota.
    all: destruct (vm_has kEND (kv :: ready)); [reflexivity|].
    all: rewrite gen_createTasks_agrees.
    all: destruct (create_tasks V NT CALL zero_call err_code subscribe mk_task (kv :: ready)); reflexivity.
  Qed.
End A.

Section Tie.
  Variable V : Type.
  Variable ops : vops V.
  Variable ec : nat -> N.
  Variable g : graph.
  Variable zero_node : node.
  Variable subscribe : list (key * node).                        (* r.chanSubscribeTo *)
  Variable uag : chans V -> wmap V -> dmap -> res (list (key * V) * chans V).   (* cm.updateAndGet *)

  (* the regenerated calculateNextTasks over the regenerated resolveCompletedTasks (over the regenerated copyItem
     and calculateBranch); a task is the node's key and its input *)
  Definition gen_next_on_nodes (tasks : list (node * V)) (isStream : bool) (cs : chans V)
    : res (list (key * V) * V * bool * chans V) :=
    Gen.NextTasks.calculateNextTasks V (node * V) (key * V) node (chans V) (v_zero ops) zero_node ec subscribe
      (fun k _ v => (k, v))
      (fun cs tasks isStream => gen_resolve_on_nodes V ops ec g tasks isStream cs)
      uag tasks isStream cs.

  Theorem next_is_calc_next : forall tasks isStream cs,
    g_mode g = Pregel ->
    (forall t, In t tasks -> n_dmap (fst t) = [] /\ find_node g (n_key (fst t)) = Some (fst t)) ->
    uag_is_model V ops g uag tasks cs ->
    gen_next_on_nodes tasks isStream cs
    = do r <- calc_next V ops g cs (map (fun t => (n_key (fst t), snd t)) tasks);
      let '(cs', ready) := r in
      match alookup kEND ready with
      | Some v => Ok ([], v, true, cs')
      | None => do ts <- create_tasks V (key * V) node zero_node ec subscribe (fun k _ v => (k, v)) ready;
                Ok (ts, v_zero ops, false, cs')
      end.
  Proof.
    intros tasks isStream cs Hm Ht Hu. unfold gen_next_on_nodes.
    rewrite gen_calculateNextTasks_agrees. unfold calculate_next_tasks, calc_next.
    rewrite (gen_resolve_is_resolve_all V ops ec g tasks isStream cs Hm Ht).
    destruct (resolve_all V ops g (map (fun t => (n_key (fst t), snd t)) tasks) cs) as [[[cs1 ws] ds]| |] eqn:E; simpl; try reflexivity.
    rewrite (Hu cs1 ws ds E).
    destruct (update_chans V g ws ds cs1) as [cs2| |]; simpl; try reflexivity.
    destruct (get_all V ops g cs2) as [[cs3 ready]| |]; simpl; try reflexivity.
    unfold vm_has, vm_get. rewrite am_has_alookup, am_get_alookup.
    destruct (alookup kEND ready); reflexivity.
  Qed.

End Tie.

(* non-vacuity: node 2 completes with 7 and has the plain successors 3 and END: END is ready, the run ends with the
   value END's channel hands out and no task is created; without the edge to END, node 3 is the next task *)
Example ex_gen_next :
  let n2 (e : bool) := {| n_key := 2; n_kind := KLambda; n_outkey := None; n_dsucc := if e then [3%N; kEND] else [3%N];
                 n_csucc := if e then [3%N; kEND] else [3%N]; n_dmap := []; n_branches := [] |} in
  let n3 := {| n_key := 3; n_kind := KLambda; n_outkey := None; n_dsucc := []; n_csucc := []; n_dmap := []; n_branches := [] |} in
  let g (e : bool) := {| g_nodes := [n2 e; n3]; g_mode := Pregel; g_eager := false; g_max := 0 |} in
  let uag (e : bool) := fun (cs : chans value) (w : wmap value) (nd : dmap) =>
    do cs2 <- update_chans value (g e)
                (flat_map (fun tm => map (fun sv => (fst tm, sv)) (snd tm)) w)
                (flat_map (fun tl => map (fun s => (fst tl, s)) (snd tl)) nd) cs;
    do r <- get_all value tree_ops (g e) cs2; Ok (snd r, fst r) in
  let run (e : bool) := match init_chans value (g e) with
               | Ok cs0 => gen_next_on_nodes value tree_ops (fun _ => 0%N) (g e) n3 [(2%N, n2 e); (3%N, n3)] (uag e)
                             [(n2 e, VAtom 7)] false cs0
               | _ => Err 0%N
               end in
  (match run true with Ok (ts, v, isEnd, _) => (ts, v, isEnd) = ([], VAtom 7, true) | _ => False end)
  /\ (match run false with Ok (ts, v, isEnd, _) => (ts, isEnd) = ([(3%N, VAtom 7)], false) | _ => False end).
Proof. cbv zeta. split; vm_compute; reflexivity. Qed.
