(* Proofs/GenAgreeC06Lists.v — property C06, translator tie, continued: the loop theorems of Proofs/GenAgreeC06.v for
   EVERY configured interrupt-before list (names given twice, names of no node), without the hypothesis that the
   list names no node twice.

   getHitKey reports a node once per occurrence of its name in the configured list, the model's [hits] once; so for
   a list with repeated names the translated loop and [decide] / [edecide] / [init] differ — in the multiplicity of
   the names in the reported before list, and in nothing else (gen_loop_body_any_list_witness shows that they do
   differ). Stated with [decide_h] / [edecide_h] / [init_h], literal copies of the model's functions with the hit
   function as a parameter ([decide_h_hits] …: with [hits] they are the model's, by reflexivity):
     gen_loop_body_batch_any_list / _eager_any_list / gen_init_body_any_list
         the translated loop IS decide_h / edecide_h / init_h of the translated getHitKey
     decide_h_sim / edecide_h_sim / init_h_sim
         two hit functions reporting the same nodes give results related by [sres_sim]: equal outcome class, equal
         checkpoint, equal state / after / rerun / nested information, before lists with the same nodes
     gen_loop_body_batch_any_list_sim / _eager_any_list_sim / gen_init_body_any_list_sim
         hence: translated loop ~ model, for every list. *)
From Coq Require Import String Lia Permutation.
From Eino Require Import Base.Util Model.RunLoop Model.IntrGenLib Proofs.RunLoop Proofs.GenAgreeC06.
From Eino Require Gen.IntrHit Gen.IntrResolve Gen.IntrLoop.
Open Scope N_scope.

Section Dup.
  Context {V CS GS SCP SINFO : Type}.
  Notation tex := (@texec V SCP SINFO).
  Variable unk : string -> option tex -> bool.
  Variable zero : V.
  Variable fold : CS -> list (N * V) -> res CS.
  Variable getr : CS -> res (CS * list (N * V)).
  Variable after : list N.

  (* [decide], [edecide], [init] of Model/RunLoop.v with the hit function as a parameter *)
  Section H.
    Variable H : list (N * V) -> list N.

    Definition decide_h (cs : CS) (gs1 : GS) (rs : list (N * tex)) : @sres V CS GS SCP SINFO :=
      match first_fail rs with
      | Some e => Failed e
      | None =>
        if negb (is_nil (subcps rs) && is_nil (reruns rs)) then
          rerun_interrupt zero fold cs gs1 rs (outs rs) [] [] (afters after rs)
        else if is_nil rs then Failed eNoTasks
        else
          match calc fold getr cs (outs rs) with
          | Ok (cs2, ready) =>
            match nlist_get kEnd ready with
            | Some v => Done v
            | None =>
              if is_nil (H ready) && is_nil (afters after rs) then
                Continue {| ls_cs := cs2; ls_next := map mk_task ready; ls_gs := gs1 |}
              else
                match calc fold getr cs2 [] with
                | Ok (cs4, ready2) =>
                  match nlist_get kEnd ready2 with
                  | Some v => Done v
                  | None => plain_interrupt cs4 gs1 (ready ++ ready2) (H ready ++ H ready2) (afters after rs)
                  end
                | r => Failed (chan_err r)
                end
            end
          | r => Failed (chan_err r)
          end
      end.

    Definition edecide_h (cs : CS) (gs1 : GS) (c : N * tex) (rest : list (N * tex)) (sched' : list N) : @eres V CS GS SCP SINFO :=
      match first_fail [c] with
      | Some e => EStop (Failed e)
      | None =>
        if negb (is_nil (subcps [c]) && is_nil (reruns [c])) then
          match first_fail rest with
          | Some e => EStop (Failed e)
          | None => EStop (rerun_interrupt zero fold cs gs1 (c :: rest) (outs (c :: rest)) [] [] (afters after (c :: rest)))
          end
        else
          match calc fold getr cs (outs [c]) with
          | Ok (cs2, ready) =>
            match nlist_get kEnd ready with
            | Some v => EStop (Done v)
            | None =>
              if is_nil (H ready) && is_nil (afters after [c]) then
                EContinue {| es_cs := cs2; es_next := map mk_task ready; es_gs := gs1; es_running := rest |} sched'
              else
                match first_fail rest with
                | Some e => EStop (Failed e)
                | None =>
                  let ha := afters after [c] ++ afters after rest in
                  if negb (is_nil (subcps rest) && is_nil (reruns rest)) then
                    EStop (rerun_interrupt zero fold cs2 gs1 rest (outs rest) ready (H ready) ha)
                  else
                    match calc fold getr cs2 (outs rest) with
                    | Ok (cs4, ready2) =>
                      match nlist_get kEnd ready2 with
                      | Some v => EStop (Done v)
                      | None => EStop (plain_interrupt cs4 gs1 (ready ++ ready2) (H ready ++ H ready2) ha)
                      end
                    | r => EStop (Failed (chan_err r))
                    end
                end
            end
          | r => EStop (Failed (chan_err r))
          end
      end.

    Definition init_h (cs0 : CS) (gs0 : GS) (x : V) : @sres V CS GS SCP SINFO :=
      match calc fold getr cs0 [(kStart, x)] with
      | Ok (cs1, ready) =>
        match nlist_get kEnd ready with
        | Some v => Done v
        | None =>
          if is_nil (H ready)
          then Continue {| ls_cs := cs1; ls_next := map mk_task ready; ls_gs := gs0 |}
          else plain_interrupt cs1 gs0 ready (H ready) []
        end
      | r => Failed (chan_err r)
      end.
  End H.

  (* with the model's [hits] they ARE the model's *)
  Lemma decide_h_hits : forall before cs gs rs, decide_h (hits before) cs gs rs = decide zero fold getr before after cs gs rs.
  Proof. reflexivity. Qed.
  Lemma edecide_h_hits : forall before cs gs c rest sched',
    edecide_h (hits before) cs gs c rest sched' = edecide zero fold getr before after false cs gs c rest sched'.
  Proof. reflexivity. Qed.
  Lemma init_h_hits : forall before cs gs x, init_h (hits before) cs gs x = init fold getr before cs gs x.
  Proof. reflexivity. Qed.

  (* ---------- the translated loop with the translated getHitKey, for ANY configured list ---------- *)
  Variable before : list N.
  Notation Hgen := (fun ready : list (N * V) => Gen.IntrHit.get_hit_key ready before).

  Ltac calc_unfold := first [ rewrite calc_next_end_unfold | rewrite calc_next_unfold ].
  Ltac use_gen' :=
    unfold Gen.IntrLoop.loop_body, Gen.IntrLoop.init_body, Gen.IntrLoop.tm_wait.
  Ltac expose' :=
    cbn [tm_wait_all tm_wait_one fst snd];
    try rewrite gen_resolve_agrees.
  Ltac norm_conds' := rewrite ?pos_len2, ?pos_len, ?len2_zero, ?len_zero, ?zero_len2, ?zero_len, ?one_le_len2, ?one_le_len,
                              ?len2_lt_one, ?len_lt_one, ?len2_le_zero, ?len_le_zero, ?subpairs_nil.
  Ltac bool_tauto' := repeat match goal with |- context [is_nil ?l] => destruct (is_nil l) end; reflexivity.
  Ltac align_cond' :=
    match goal with
    | |- ?f (if ?c then _ else _) = (if ?c' then _ else _) =>
        first [ constr_eq c c'
              | replace c with c' by bool_tauto'
              | replace c with (negb c') by bool_tauto' ]
    end.

  Ltac batch_proof_h :=
    let Hrr := fresh "Hrr" in
    intros cs gs next0 rs sched Hnd; use_gen'; unfold decide_h;
    expose'; rewrite resolve_spec_unfold; cbn [app];
    destruct (first_fail rs) as [e|]; [reflexivity|];
    norm_conds'; align_cond';
    destruct (negb (is_nil (subcps rs) && is_nil (reruns rs))) eqn:Hrr; cbn [negb];
    [ expose'; rewrite resolve_spec_nil, app_nil_r; cbn [batch_view]; apply handle_sub_rerun_agrees; assumption
    | norm_conds'; align_cond'; destruct (is_nil rs); cbn [negb]; [reflexivity|];
      calc_unfold; destruct (calc fold getr cs (outs rs)) as [[cs2 ready]|e|]; try reflexivity;
      destruct (nlist_get kEnd ready) as [v|]; [reflexivity|];
      expose'; norm_conds'; align_cond';
      destruct (is_nil (Gen.IntrHit.get_hit_key ready before) && is_nil (afters after rs)); cbn [negb]; [reflexivity|];
      expose'; rewrite resolve_spec_nil; norm_conds';
      match goal with |- ?f (if ?c then _ else _) = _ => replace c with false by (rewrite <- Hrr; bool_tauto') end;
      calc_unfold; cbn [outs flat_map];
      destruct (calc fold getr cs2 []) as [[cs4 ready2]|e|]; try reflexivity;
      destruct (nlist_get kEnd ready2) as [v|]; [reflexivity|]; expose'; reflexivity ].

  Ltac eager_proof_h :=
    let Hp := fresh "Hp" in let Hrr := fresh "Hrr" in let Hs := fresh "Hs" in let Hr := fresh "Hr" in
    let Hnd' := fresh "Hnd'" in let Hndr := fresh "Hndr" in
    intros cs gs next0 running sched Hnd; use_gen'; unfold tm_wait_one; cbn [fst snd];
    destruct (pick running sched) as [[[c rest] sched']|] eqn:Hp;
    [| expose'; rewrite resolve_spec_unfold; cbn [first_fail flat_map app subpairs reruns afters outs map filter];
       norm_conds'; cbn [is_nil negb andb orb]; norm_conds'; cbn [is_nil negb andb orb]; reflexivity ];
    destruct (pick_nodup _ _ _ _ _ Hp Hnd) as [Hnd' Hndr];
    unfold edecide_h; expose'; rewrite resolve_spec_unfold; cbn [app];
    destruct (first_fail [c]) as [e|]; [reflexivity|];
    norm_conds'; align_cond';
    destruct (negb (is_nil (subcps [c]) && is_nil (reruns [c]))) eqn:Hrr; cbn [negb];
    [ expose'; rewrite resolve_spec_unfold;
      destruct (first_fail rest) as [e|]; [reflexivity|];
      rewrite <- subpairs_app, <- reruns_app, <- afters_app; cbn [app eager_view]; f_equal;
      apply handle_sub_rerun_agrees; assumption
    | norm_conds'; cbn [is_nil negb];
      calc_unfold; destruct (calc fold getr cs (outs [c])) as [[cs2 ready]|e|]; try reflexivity;
      destruct (nlist_get kEnd ready) as [v|]; [reflexivity|];
      expose'; norm_conds'; align_cond';
      destruct (is_nil (Gen.IntrHit.get_hit_key ready before) && is_nil (afters after [c])); cbn [negb]; [reflexivity|];
      expose'; rewrite resolve_spec_unfold;
      destruct (first_fail rest) as [e|]; [reflexivity|];
      destruct (no_sub_rerun _ Hrr) as [Hs Hr]; rewrite Hs, Hr; cbn [app];
      norm_conds'; align_cond';
      destruct (negb (is_nil (subcps rest) && is_nil (reruns rest))); cbn [negb];
      [ cbn [eager_view]; f_equal; apply handle_sub_rerun_agrees; assumption
      | calc_unfold;
        destruct (calc fold getr cs2 (outs rest)) as [[cs4 ready2]|e|]; try reflexivity;
        destruct (nlist_get kEnd ready2) as [v|]; [reflexivity|]; expose'; reflexivity ] ].

  Ltac init_proof_h :=
    intros cs gs x tm; use_gen'; unfold init_h;
    calc_unfold; cbn [outs flat_map snd fst app];
    destruct (calc fold getr cs [(kStart, x)]) as [[cs1 ready]|e|]; try reflexivity;
    destruct (nlist_get kEnd ready) as [v|]; [reflexivity|];
    expose'; norm_conds'; cbn [orb]; align_cond';
    destruct (is_nil (Gen.IntrHit.get_hit_key ready before)); reflexivity.

  Theorem gen_loop_body_eager_any_list : @Gen.IntrLoop.tie_available = true ->
    forall cs gs next0 (running : list (N * tex)) sched,
    NoDup (map fst running) ->
    eager_view gs (Gen.IntrLoop.loop_body unk zero fold getr before after false cs gs next0 (running, sched))
    = match pick running sched with
      | None => EStop (Failed eNoTasks)
      | Some (c, rest, sched') => edecide_h Hgen cs gs c rest sched'
      end.
  Proof. intros Hav; first [ discriminate Hav | clear Hav; eager_proof_h ]. Qed.

  Theorem gen_init_body_any_list : @Gen.IntrLoop.tie_available = true ->
    forall cs gs x tm,
    batch_view gs (Gen.IntrLoop.init_body fold getr before cs gs x tm) = init_h Hgen cs gs x.
  Proof. intros Hav; first [ discriminate Hav | clear Hav; init_proof_h ]. Qed.

  Theorem gen_loop_body_batch_any_list : @Gen.IntrLoop.tie_available = true ->
    forall cs gs next0 (rs : list (N * tex)) sched,
    NoDup (map fst rs) ->
    batch_view gs (Gen.IntrLoop.loop_body unk zero fold getr before after true cs gs next0 (rs, sched))
    = decide_h Hgen cs gs rs.
  Proof. intros Hav; first [ discriminate Hav | clear Hav; batch_proof_h ]. Qed.

  (* ---------- two hit functions that report the same nodes give the same loop, up to the multiplicity of
     the names in the reported before list ---------- *)
  Definition same_nodes (a b : list N) : Prop := forall k, In k a <-> In k b.

  Definition info_sim (i i' : @iinfo GS SINFO) : Prop :=
    ii_gs i = ii_gs i' /\ same_nodes (ii_before i) (ii_before i') /\ ii_after i = ii_after i' /\
    ii_rerun i = ii_rerun i' /\ ii_subs i = ii_subs i'.

  Definition sres_sim (r r' : @sres V CS GS SCP SINFO) : Prop :=
    match r, r' with
    | Continue s, Continue s' => s = s'
    | Done v, Done v' => v = v'
    | Interrupted i c, Interrupted i' c' => info_sim i i' /\ c = c'
    | Failed e, Failed e' => e = e'
    | _, _ => False
    end.

  Definition eres_sim (r r' : @eres V CS GS SCP SINFO) : Prop :=
    match r, r' with
    | EContinue s sc, EContinue s' sc' => s = s' /\ sc = sc'
    | EStop x, EStop x' => sres_sim x x'
    | _, _ => False
    end.

  Lemma same_nodes_refl : forall a, same_nodes a a.
  Proof. intros a k; tauto. Qed.
  Lemma same_nodes_app : forall a b a' b', same_nodes a a' -> same_nodes b b' -> same_nodes (a ++ b) (a' ++ b').
  Proof. intros a b a' b' H1 H2 k; rewrite !in_app_iff, (H1 k), (H2 k); tauto. Qed.
  Lemma sres_sim_refl : forall r, sres_sim r r.
  Proof.
    intros [s|v|i c|e]; simpl; auto.
    refine (conj (conj eq_refl (conj (same_nodes_refl _) (conj eq_refl (conj eq_refl eq_refl)))) eq_refl).
  Qed.

  Lemma rerun_interrupt_sim : forall cs gs (rs : list (N * tex)) tf pending hb hb' ha,
    same_nodes hb hb' ->
    sres_sim (rerun_interrupt zero fold cs gs rs tf pending hb ha) (rerun_interrupt zero fold cs gs rs tf pending hb' ha).
  Proof.
    intros cs gs rs tf pending hb hb' ha Hs. unfold rerun_interrupt.
    destruct (fold cs tf); simpl; auto.
    refine (conj (conj eq_refl (conj Hs (conj eq_refl (conj eq_refl eq_refl)))) eq_refl).
  Qed.

  Lemma plain_interrupt_sim : forall cs gs (pending : list (N * V)) hb hb' ha,
    same_nodes hb hb' ->
    sres_sim (@plain_interrupt V CS GS SCP SINFO cs gs pending hb ha) (plain_interrupt cs gs pending hb' ha).
  Proof.
    intros cs gs pending hb hb' ha Hs. simpl.
    refine (conj (conj eq_refl (conj Hs (conj eq_refl (conj eq_refl eq_refl)))) eq_refl).
  Qed.

  Section Sim.
    Variables H1 H2 : list (N * V) -> list N.
    Hypothesis H12 : forall r, same_nodes (H1 r) (H2 r).

    Lemma H12_nil : forall r, is_nil (H1 r) = is_nil (H2 r).
    Proof. intros r; apply is_nil_in; apply H12. Qed.

    Lemma decide_h_sim : forall cs gs rs, sres_sim (decide_h H1 cs gs rs) (decide_h H2 cs gs rs).
    Proof.
      intros cs gs rs. unfold decide_h.
      destruct (first_fail rs); [simpl; auto|].
      destruct (negb (is_nil (subcps rs) && is_nil (reruns rs))); [apply sres_sim_refl|].
      destruct (is_nil rs); [simpl; auto|].
      destruct (calc fold getr cs (outs rs)) as [[cs2 ready]|e|]; try (simpl; auto; fail).
      destruct (nlist_get kEnd ready); [simpl; auto|].
      rewrite (H12_nil ready).
      destruct (is_nil (H2 ready) && is_nil (afters after rs)); [simpl; auto|].
      destruct (calc fold getr cs2 []) as [[cs4 ready2]|e|]; try (simpl; auto; fail).
      destruct (nlist_get kEnd ready2); [simpl; auto|].
      apply plain_interrupt_sim. apply same_nodes_app; apply H12.
    Qed.

    Lemma edecide_h_sim : forall cs gs c rest sched', eres_sim (edecide_h H1 cs gs c rest sched') (edecide_h H2 cs gs c rest sched').
    Proof.
      intros cs gs c rest sched'. unfold edecide_h.
      destruct (first_fail [c]); [simpl; auto|].
      destruct (negb (is_nil (subcps [c]) && is_nil (reruns [c]))).
      { destruct (first_fail rest); [simpl; auto|]. simpl. apply sres_sim_refl. }
      destruct (calc fold getr cs (outs [c])) as [[cs2 ready]|e|]; try (simpl; auto; fail).
      destruct (nlist_get kEnd ready); [simpl; auto|].
      rewrite (H12_nil ready).
      destruct (is_nil (H2 ready) && is_nil (afters after [c])); [simpl; auto|].
      destruct (first_fail rest); [simpl; auto|]. cbv zeta.
      destruct (negb (is_nil (subcps rest) && is_nil (reruns rest))).
      { simpl. apply rerun_interrupt_sim. apply H12. }
      destruct (calc fold getr cs2 (outs rest)) as [[cs4 ready2]|e|]; try (simpl; auto; fail).
      destruct (nlist_get kEnd ready2); [simpl; auto|].
      simpl. apply plain_interrupt_sim. apply same_nodes_app; apply H12.
    Qed.

    Lemma init_h_sim : forall cs gs x, sres_sim (init_h H1 cs gs x) (init_h H2 cs gs x).
    Proof.
      intros cs gs x. unfold init_h.
      destruct (calc fold getr cs [(kStart, x)]) as [[cs1 ready]|e|]; try (simpl; auto; fail).
      destruct (nlist_get kEnd ready); [simpl; auto|].
      rewrite (H12_nil ready). destruct (is_nil (H2 ready)); [simpl; auto|].
      apply plain_interrupt_sim. apply H12.
    Qed.
  End Sim.

  (* ---------- the translated loop is the model's for EVERY configured interrupt-before list: names given
     twice, names of no node. The reported before list has the same nodes (the code reports a node once per
     occurrence of its name in the configured list), everything else — in particular the checkpoint — is equal ---------- *)
  Lemma gen_hits_same_nodes : forall r : list (N * V), same_nodes (Gen.IntrHit.get_hit_key r before) (hits before r).
  Proof. intros r k. apply gen_get_hit_key_same_nodes. Qed.

  Theorem gen_loop_body_batch_any_list_sim : @Gen.IntrLoop.tie_available = true ->
    forall cs gs next0 (rs : list (N * tex)) sched,
    NoDup (map fst rs) ->
    sres_sim (batch_view gs (Gen.IntrLoop.loop_body unk zero fold getr before after true cs gs next0 (rs, sched)))
             (decide zero fold getr before after cs gs rs).
  Proof.
    intros Hav cs gs next0 rs sched Hnd. rewrite gen_loop_body_batch_any_list by assumption.
    rewrite <- decide_h_hits. apply decide_h_sim. apply gen_hits_same_nodes.
  Qed.

  Theorem gen_loop_body_eager_any_list_sim : @Gen.IntrLoop.tie_available = true ->
    forall cs gs next0 (running : list (N * tex)) sched,
    NoDup (map fst running) ->
    eres_sim (eager_view gs (Gen.IntrLoop.loop_body unk zero fold getr before after false cs gs next0 (running, sched)))
             (match pick running sched with
              | None => EStop (Failed eNoTasks)
              | Some (c, rest, sched') => edecide zero fold getr before after false cs gs c rest sched'
              end).
  Proof.
    intros Hav cs gs next0 running sched Hnd. rewrite gen_loop_body_eager_any_list by assumption.
    destruct (pick running sched) as [[[c rest] sched']|]; [|simpl; auto].
    rewrite <- edecide_h_hits. apply edecide_h_sim. apply gen_hits_same_nodes.
  Qed.

  Theorem gen_init_body_any_list_sim : @Gen.IntrLoop.tie_available = true ->
    forall cs gs x tm,
    sres_sim (batch_view gs (Gen.IntrLoop.init_body fold getr before cs gs x tm)) (init fold getr before cs gs x).
  Proof.
    intros Hav cs gs x tm. rewrite gen_init_body_any_list by assumption.
    rewrite <- init_h_hits. apply init_h_sim. apply gen_hits_same_nodes.
  Qed.
End Dup.

(* non-vacuity: the configured list names node 3 twice: the translated loop reports it twice per hit, the model once
   (the other disjuncts: an extractor did not recognise its source and the neutral file is in place) *)
Example gen_loop_body_any_list_witness :
  batch_view (V := N) (CS := unit) (GS := unit) (SCP := N) (SINFO := N) tt
    (Gen.IntrLoop.loop_body (fun _ _ => false) 0 (fun cs _ => Ok cs) (fun cs => Ok (cs, [(3, 7)])) [3; 3] [] true tt tt []
       ([(2, TDone 5)], []))
  <> decide (V := N) (CS := unit) (GS := unit) (SCP := N) (SINFO := N) 0 (fun cs _ => Ok cs) (fun cs => Ok (cs, [(3, 7)])) [3; 3] [] tt tt [(2, TDone 5)]
  \/ @Gen.IntrLoop.tie_available = false
  \/ Gen.IntrHit.get_hit_key (X := N) [(3, 7)] [3; 3] = [3].
Proof.
  first [ right; left; reflexivity
        | right; right; reflexivity
        | left; vm_compute; intros H; discriminate H ].
Qed.
