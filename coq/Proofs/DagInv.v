(* Proofs/DagInv.v — C02, graph level, part 1: the invariant of the all-predecessor run loop.

   Ghost state: R = keys whose completion has been resolved (START included), G = keys that have been
   handed out by a successful get (resolved, about to run, or running), W = work-list of the skip
   propagation. The invariant says
     (A) an entry of a channel is only ever "reported" by a predecessor that is resolved or skipped;
     (B) a channel that has been read (its key is in G) is not skipped, is completely reset, has at least
         one predecessor, and every predecessor of it is SPENT (resolved, or skipped with the skip already
         propagated) — a spent node never reports again, so such a channel can never become ready again.
   No acyclicity or other well-formedness of the graph is needed for this. *)
From Eino Require Import Base.Util Model.Graph Proofs.DagChan.
From Coq Require Import Lia Permutation.
Open Scope N_scope.

Lemma NoDup_app_intro {A} (l1 l2 : list A) :
  NoDup l1 -> NoDup l2 -> (forall x, In x l1 -> ~ In x l2) -> NoDup (l1 ++ l2).
Proof.
  induction l1 as [|a l1 IH]; simpl; intros H1 H2 Hd; [assumption|].
  inversion H1 as [|a' l' Hna Hnd]; subst. constructor.
  - intros Hin. apply in_app_iff in Hin. destruct Hin as [Hin|Hin]; [contradiction|]. apply (Hd a); [now left|assumption].
  - apply IH; auto.
Qed.

Lemma NoDup_app_inv {A} (l1 l2 : list A) :
  NoDup (l1 ++ l2) -> NoDup l1 /\ NoDup l2 /\ (forall x, In x l1 -> ~ In x l2).
Proof.
  induction l1 as [|a l1 IH]; simpl; intros H.
  - split; [constructor|]. split; [assumption|intros ? []].
  - inversion H as [|a' l' Hna Hnd]; subst. destruct (IH Hnd) as (H1 & H2 & Hd). split; [|split; [assumption|]].
    + constructor; [|assumption]. intros Hin. apply Hna. apply in_app_iff. now left.
    + intros x [<-|Hx]; [|now apply Hd]. intros Hin. apply Hna. apply in_app_iff. now right.
Qed.

Section DagInv.
  Variable V : Type.
  Variable ops : vops V.
  Notation chan := (chan V).
  Notation chans := (chans V).
  Notation ctrl_st := (ctrl_st V).
  Notation data_st := (data_st V).
  Variable g : graph.
  Hypothesis Hdag : g_mode g = Dag.

  (* ================= facts about the predecessor tables ================= *)
  Definition gpred (t p : key) : Prop := In p (cpreds g t) \/ In p (dpreds g t).

  Lemma find_node_in k n : find_node g k = Some n -> In n (g_nodes g) /\ n_key n = k.
  Proof.
    unfold find_node. intros H. apply find_some in H. destruct H as [H1 H2]. apply N.eqb_eq in H2. auto.
  Qed.

  Lemma in_cpreds n t : In n (g_nodes g) -> is_cpred n t = true -> In (n_key n) (cpreds g t).
  Proof. intros H1 H2. unfold cpreds. apply in_map. apply filter_In. auto. Qed.

  Lemma in_dpreds n t : In n (g_nodes g) -> is_dpred n t = true -> In (n_key n) (dpreds g t).
  Proof. intros H1 H2. unfold dpreds. apply in_map. apply filter_In. auto. Qed.

  Lemma branch_end_cpred k n t : find_node g k = Some n -> In t (branch_ends_of n false) -> In k (cpreds g t).
  Proof.
    intros Hf Hin. apply find_node_in in Hf. destruct Hf as [Hn <-]. apply in_cpreds; [assumption|].
    unfold is_cpred. apply orb_true_iff. right. now apply memb_in.
  Qed.

  Lemma csucc_cpred k n t : find_node g k = Some n -> In t (n_csucc n) -> In k (cpreds g t).
  Proof.
    intros Hf Hin. apply find_node_in in Hf. destruct Hf as [Hn <-]. apply in_cpreds; [assumption|].
    unfold is_cpred. apply orb_true_iff. left. now apply memb_in.
  Qed.

  Lemma dsucc_dpred k n t : find_node g k = Some n -> In t (n_dsucc n) -> In k (dpreds g t).
  Proof.
    intros Hf Hin. apply find_node_in in Hf. destruct Hf as [Hn <-]. apply in_dpreds; [assumption|].
    unfold is_dpred. apply orb_true_iff. left. now apply memb_in.
  Qed.

  Lemma succs_gpred k n t : find_node g k = Some n -> In t (succs n) -> gpred t k.
  Proof.
    intros Hf Hin. unfold succs in Hin. rewrite !in_app_iff in Hin. destruct Hin as [H|[H|H]].
    - right. eapply dsucc_dpred; eassumption.
    - left. eapply csucc_cpred; eassumption.
    - left. eapply branch_end_cpred; eassumption.
  Qed.

  Lemma branch_ends_false n : branch_ends_of n false = flat_map b_ends (n_branches n).
  Proof. unfold branch_ends_of. apply flat_map_ext. intros b. reflexivity. Qed.

  Lemma eval_branches_skipped_csucc n out sel sk t :
    eval_branches V ops n out = Ok (sel, sk) -> In t sk -> ~ In t (n_csucc n).
  Proof.
    unfold eval_branches. destruct (forallb _ _); [|discriminate]. intros [= <- <-] Hin.
    apply nodup_In in Hin. apply filter_In in Hin. destruct Hin as [_ Hns].
    apply andb_true_iff in Hns. destruct Hns as [_ Hns]. apply negb_true_iff in Hns. now apply memb_false in Hns.
  Qed.

  Lemma eval_branches_skipped n out sel sk t :
    eval_branches V ops n out = Ok (sel, sk) -> In t sk -> In t (branch_ends_of n false) /\ ~ In t sel.
  Proof.
    unfold eval_branches. destruct (forallb _ _); [|discriminate]. intros [= <- <-] Hin.
    apply nodup_In in Hin. apply filter_In in Hin. destruct Hin as [Hin Hns].
    apply andb_true_iff in Hns. destruct Hns as [Hns _].
    apply negb_true_iff in Hns. apply memb_false in Hns. split; [|assumption].
    rewrite branch_ends_false. apply in_flat_map in Hin. destruct Hin as ([b s] & Hb & Ht).
    apply in_map_iff in Hb. destruct Hb as (b' & [= <- <-] & Hb'). simpl in Ht.
    apply filter_In in Ht. apply in_flat_map. exists b'. tauto.
  Qed.

  Lemma eval_branches_selected n out sel sk t :
    eval_branches V ops n out = Ok (sel, sk) -> In t sel -> In t (branch_ends_of n false).
  Proof.
    unfold eval_branches. destruct (forallb _ _) eqn:E; [|discriminate]. intros [= <- <-] Hin.
    rewrite forallb_forall in E. rewrite branch_ends_false.
    apply in_flat_map in Hin. destruct Hin as ([b s] & Hb & Ht). simpl in Ht.
    specialize (E _ Hb). simpl in E. unfold subset in E. rewrite forallb_forall in E.
    specialize (E _ Ht). apply memb_in in E.
    apply in_map_iff in Hb. destruct Hb as (b' & [= <- <-] & Hb').
    apply in_flat_map. exists b'. tauto.
  Qed.

  (* ================= the channel table ================= *)
  Definition chan_wf (t : key) (c : chan) : Prop :=
    chan_ok V c
    /\ (forall p, ctrl_st c p <> None <-> In p (cpreds g t))
    /\ (forall p, data_st c p <> None <-> In p (dpreds g t)).

  Definition chans_wf (cs : chans) : Prop :=
    ksorted cs /\ alookup kSTART cs = None /\ forall t c, alookup t cs = Some c -> chan_wf t c.

  Definition skipped (cs : chans) (p : key) : Prop := exists c, alookup p cs = Some c /\ c_skipped V c = true.

  Definition reported (c : chan) (p : key) : Prop :=
    (exists d, ctrl_st c p = Some d /\ d <> Waiting) \/ data_st c p = Some true.

  Definition fresh (c : chan) : Prop :=
    (forall p d, ctrl_st c p = Some d -> d = Waiting) /\ (forall p b, data_st c p = Some b -> b = false).

  (* same keys, and what was skipped stays skipped *)
  Definition sk_mono (cs cs' : chans) : Prop :=
    akeys cs' = akeys cs /\ forall p, skipped cs p -> skipped cs' p.

  Lemma sk_mono_refl cs : sk_mono cs cs.
  Proof. split; auto. Qed.

  Lemma sk_mono_trans a b c : sk_mono a b -> sk_mono b c -> sk_mono a c.
  Proof. intros [E1 H1] [E2 H2]. split; [congruence|auto]. Qed.

  Lemma alookup_upd_chan cs t f t' :
    alookup t' (upd_chan V cs t f) = if N.eqb t' t then option_map f (alookup t' cs) else alookup t' cs.
  Proof.
    unfold upd_chan. induction cs as [|[k0 c0] cs IH]; simpl.
    - now destruct (N.eqb t' t).
    - destruct (N.eqb k0 t) eqn:Ek; simpl.
      + apply N.eqb_eq in Ek. subst k0. destruct (N.eqb t' t) eqn:Et; simpl; [reflexivity|].
        rewrite IH. reflexivity.
      + destruct (N.eqb t' k0) eqn:Et; simpl.
        * apply N.eqb_eq in Et. subst k0. now rewrite Ek.
        * exact IH.
  Qed.

  Lemma akeys_upd_chan cs t f : akeys (upd_chan V cs t f) = akeys cs.
  Proof.
    unfold upd_chan, akeys. rewrite map_map. apply map_ext. intros [k c]. simpl. now destruct (N.eqb k t).
  Qed.

  Lemma chan_wf_skip t c ks : chan_wf t c -> chan_wf t (fst (dag_report_skip V c ks)).
  Proof.
    intros (Hok & Hc & Hd).
    destruct (dag_report_skip V c ks) as [c' b] eqn:E. simpl.
    destruct (dag_skip_iff_all_skipped V c ks c' b Hok E) as (_ & _ & Hctrl & Hdata & _).
    split; [|split].
    - change c' with (fst (c', b)). rewrite <- E. now apply dag_report_skip_ok.
    - intros p. rewrite Hctrl, <- Hc. destruct (memb p ks); [|tauto]. destruct (ctrl_st c p); simpl; split; congruence.
    - intros p. rewrite Hdata, <- Hd. destruct (memb p ks); [|tauto]. destruct (data_st c p); simpl; split; congruence.
  Qed.

  (* ================= the invariant ================= *)
  Record Inv (cs : chans) (R G W : list key) : Prop := {
    inv_wf  : chans_wf cs;
    inv_RG  : incl R G;
    inv_skc : forall t c, alookup t cs = Some c -> c_skipped V c = true -> all_skipped (c_ctrl V c) = true;
    inv_A   : forall t c p, alookup t cs = Some c -> reported c p -> In p R \/ skipped cs p;
    inv_B   : forall t, In t G -> t <> kSTART ->
              exists c, alookup t cs = Some c /\ c_skipped V c = false /\ fresh c
                        /\ (exists p, gpred t p)
                        /\ forall p, gpred t p -> In p R \/ (skipped cs p /\ ~ In p W);
    inv_W   : forall k, In k W -> skipped cs k;
  }.

  Lemma Inv_weaken_W cs R G W W' : incl W' W -> Inv cs R G W -> Inv cs R G W'.
  Proof.
    intros Hi [H1 H2 H3 H4 H5 H6]. constructor; auto.
    intros t Ht Hs. destruct (H5 t Ht Hs) as (c & E1 & E2 & E3 & E4 & E5).
    exists c. split; [|split; [|split; [|split]]]; try assumption.
    intros p Hp. destruct (E5 p Hp) as [|[Ha Hb]]; [now left|right].
    split; [assumption|]. intros Hin. apply Hb. now apply Hi.
  Qed.

  Lemma Inv_grow_R cs R R' G W : incl R R' -> incl R' G -> Inv cs R G W -> Inv cs R' G W.
  Proof.
    intros Hi Hi' [H1 H2 H3 H4 H5 H6]. constructor; auto.
    - intros t c p E Hr. destruct (H4 t c p E Hr); [left; now apply Hi|now right].
    - intros t Ht Hs. destruct (H5 t Ht Hs) as (c & E1 & E2 & E3 & E4 & E5).
      exists c. split; [|split; [|split; [|split]]]; try assumption.
      intros p Hp. destruct (E5 p Hp); [left; now apply Hi|now right].
  Qed.

  (* a skipped channel stays skipped under reportSkip *)
  Lemma skip_keeps_skipped c ks :
    chan_ok V c -> c_skipped V c = true -> all_skipped (c_ctrl V c) = true ->
    c_skipped V (fst (dag_report_skip V c ks)) = true.
  Proof.
    intros Hok Hsk Hall. destruct (dag_report_skip V c ks) as [c' b] eqn:E. simpl.
    destruct (dag_skip_iff_all_skipped V c ks c' b Hok E) as (Hb & Hiff & Hctrl & _).
    rewrite Hb. apply Hiff. intros p d. rewrite Hctrl.
    destruct Hok as (Hc & _). rewrite (all_skipped_iff _ Hc) in Hall.
    destruct (memb p ks).
    - destruct (ctrl_st c p); simpl; congruence.
    - apply Hall.
  Qed.

  (* ---------- one target of report_skip_to ---------- *)
  Definition rst_body (from : key) (acc : chans * list key) (t : key) : chans * list key :=
    let '(cs0, nw) := acc in
    match alookup t cs0 with
    | None => acc
    | Some c =>
        let '(c', sk) := dag_report_skip V c [from] in
        (upd_chan V cs0 t (fun _ => c'), if (sk && negb (c_skipped V c))%bool then nw ++ [t] else nw)
    end.

  Lemma report_skip_to_eq cs from targets :
    report_skip_to V cs from targets = fold_left (rst_body from) targets (cs, []).
  Proof. reflexivity. Qed.

  Lemma chans_wf_upd cs t c' :
    chans_wf cs -> chan_wf t c' -> chans_wf (upd_chan V cs t (fun _ => c')).
  Proof.
    intros (Hs & Hst & Hall) Hc'. split; [|split].
    - eapply ksorted_akeys_eq; [symmetry; apply akeys_upd_chan|exact Hs].
    - rewrite alookup_upd_chan. destruct (N.eqb kSTART t); [now rewrite Hst|assumption].
    - intros t' c0. rewrite alookup_upd_chan. destruct (N.eqb_spec t' t) as [->|Hne].
      + destruct (alookup t cs); simpl; [intros [= <-]; assumption|discriminate].
      + apply Hall.
  Qed.

  Lemma rst_body_inv from cs0 R G W t cs1 nw0 nw1 :
    Inv cs0 R G (W ++ nw0) ->
    (In from R \/ skipped cs0 from) ->
    (forall c, alookup t cs0 = Some c -> ~ In t G) ->
    rst_body from (cs0, nw0) t = (cs1, nw1) ->
    Inv cs1 R G (W ++ nw1) /\ sk_mono cs0 cs1 /\ (exists ex, nw1 = nw0 ++ ex /\ forall k, In k ex -> k = t /\ ~ skipped cs0 k)
    /\ (forall c, alookup t cs0 = Some c -> (forall p, ~ In p (cpreds g t)) -> skipped cs1 t).
  Proof.
    intros HI Hfrom HtG. unfold rst_body.
    destruct (alookup t cs0) as [c|] eqn:Et.
    2:{ intros [= <- <-]. split; [assumption|]. split; [apply sk_mono_refl|]. split; [|intros; discriminate].
        exists []. rewrite app_nil_r. split; [reflexivity|intros ? []]. }
    specialize (HtG c eq_refl).
    destruct (dag_report_skip V c [from]) as [c' sk] eqn:Esk.
    intros Hres. injection Hres as Hcs1 Hnw1. subst cs1.
    destruct HI as [Hwf HRG Hskc HA HB HW].
    pose proof Hwf as (Hks & Hst & Hall).
    pose proof (Hall t c Et) as Hcwf. pose proof Hcwf as (Hok & Hcp & Hdp).
    destruct (dag_skip_iff_all_skipped V c [from] c' sk Hok Esk) as (Hb & Hiff & Hctrl & Hdata & Hvals).
    assert (Hc'wf : chan_wf t c').
    { change c' with (fst (c', sk)). rewrite <- Esk. now apply chan_wf_skip. }
    assert (Hmono_c : c_skipped V c = true -> c_skipped V c' = true).
    { intros Hs. change c' with (fst (c', sk)). rewrite <- Esk. apply skip_keeps_skipped; auto. eapply Hskc; eauto. }
    set (cs1 := upd_chan V cs0 t (fun _ => c')).
    assert (Hlk : forall t', alookup t' cs1 = if N.eqb t' t then Some c' else alookup t' cs0).
    { intros t'. unfold cs1. rewrite alookup_upd_chan. destruct (N.eqb_spec t' t) as [->|]; [now rewrite Et|reflexivity]. }
    assert (Hmono : forall p, skipped cs0 p -> skipped cs1 p).
    { intros p (c0 & E0 & S0). unfold skipped. rewrite Hlk. destruct (N.eqb_spec p t) as [->|].
      - exists c'. split; [reflexivity|]. apply Hmono_c. congruence.
      - exists c0. auto. }
    assert (Hskm : sk_mono cs0 cs1).
    { split; [apply akeys_upd_chan|exact Hmono]. }
    set (ex := if (sk && negb (c_skipped V c))%bool then [t] else @nil key).
    assert (Hnw : nw1 = nw0 ++ ex).
    { rewrite <- Hnw1. unfold ex. destruct (sk && negb (c_skipped V c))%bool; [reflexivity|now rewrite app_nil_r]. }
    clear Hnw1. subst nw1.
    assert (Hex : forall k, In k ex -> k = t /\ ~ skipped cs0 k /\ skipped cs1 k).
    { unfold ex. intros k. destruct (sk && negb (c_skipped V c))%bool eqn:Eb; [|intros []].
      intros [<-|[]]. apply andb_true_iff in Eb. destruct Eb as [Eb1 Eb2]. apply negb_true_iff in Eb2.
      split; [reflexivity|]. split.
      - intros (c0 & E0 & S0). congruence.
      - exists c'. rewrite Hlk, N.eqb_refl. split; [reflexivity|congruence]. }
    split; [|split; [exact Hskm|split]].
    2:{ exists ex. split; [reflexivity|]. intros k Hk. destruct (Hex k Hk) as (? & ? & _). auto. }
    2:{ intros c0 _ Hnone. exists c'. rewrite Hlk, N.eqb_refl. split; [reflexivity|]. rewrite Hb. apply Hiff.
        intros p d E. exfalso. destruct Hc'wf as (_ & Hc'c & _). apply (Hnone p). apply Hc'c.
        unfold DagChan.ctrl_st in *. congruence. }
    constructor.
    - now apply chans_wf_upd.
    - assumption.
    - intros t' c0. rewrite Hlk. destruct (N.eqb_spec t' t) as [->|Hne].
      + intros [= <-] Hs. rewrite Hb in Hs. subst sk. destruct Hc'wf as ((Hc'c & _) & _).
        apply all_skipped_iff; [assumption|]. now apply Hiff.
      + apply Hskc.
    - intros t' c0 p. rewrite Hlk. destruct (N.eqb_spec t' t) as [->|Hne].
      + intros [= <-] Hrep.
        destruct (N.eqb_spec p from) as [->|Hpf].
        * destruct Hfrom as [?|Hs]; [now left|right; now apply Hmono].
        * assert (Hrep0 : reported c p).
          { destruct Hrep as [(d & E1 & E2)|E1]; [left|right].
            - rewrite Hctrl in E1. simpl in E1. destruct (N.eqb_spec p from); [contradiction|]. simpl in E1. eauto.
            - rewrite Hdata in E1. simpl in E1. destruct (N.eqb_spec p from); [contradiction|]. assumption. }
          destruct (HA t c p Et Hrep0) as [?|Hs]; [now left|right; now apply Hmono].
      + intros E0 Hrep. destruct (HA t' c0 p E0 Hrep) as [?|Hs]; [now left|right; now apply Hmono].
    - intros t' Ht' Hns. destruct (HB t' Ht' Hns) as (c0 & E0 & S0 & F0 & P0 & Q0).
      assert (Hne : t' <> t) by (intros ->; contradiction).
      exists c0. rewrite Hlk. destruct (N.eqb_spec t' t); [contradiction|].
      split; [|split; [|split; [|split]]]; try assumption; try reflexivity.
      intros p Hp. destruct (Q0 p Hp) as [?|[Hs Hn]]; [now left|right].
      split; [now apply Hmono|]. rewrite app_assoc. intros Hin. apply in_app_iff in Hin. destruct Hin as [Hin|Hin]; [contradiction|].
      destruct (Hex p Hin) as (_ & Hns' & _). contradiction.
    - intros k Hk. rewrite app_assoc in Hk. apply in_app_iff in Hk. destruct Hk as [Hk|Hk].
      + apply Hmono. now apply HW.
      + now destruct (Hex k Hk) as (_ & _ & ?).
  Qed.

  Lemma sk_mono_skipped_not cs cs' k : sk_mono cs cs' -> ~ skipped cs' k -> ~ skipped cs k.
  Proof. intros [_ H] Hn Hs. apply Hn. now apply H. Qed.

  Lemma alookup_same_keys {A B} (l1 : list (N * A)) (l2 : list (N * B)) k :
    akeys l1 = akeys l2 -> (alookup k l1 = None <-> alookup k l2 = None).
  Proof. intros E. rewrite !alookup_none. now rewrite E. Qed.

  Lemma report_skip_to_inv_gen from targets : forall cs0 nw0 R G W cs1 nw1,
    Inv cs0 R G (W ++ nw0) ->
    (In from R \/ skipped cs0 from) ->
    (forall t c, In t targets -> alookup t cs0 = Some c -> ~ In t G) ->
    fold_left (rst_body from) targets (cs0, nw0) = (cs1, nw1) ->
    Inv cs1 R G (W ++ nw1) /\ sk_mono cs0 cs1
    /\ (exists ex, nw1 = nw0 ++ ex /\ forall k, In k ex -> In k targets /\ ~ skipped cs0 k)
    /\ (forall t c, In t targets -> alookup t cs0 = Some c -> (forall p, ~ In p (cpreds g t)) -> skipped cs1 t).
  Proof.
    induction targets as [|t targets IH]; intros cs0 nw0 R G W cs1 nw1 HI Hfrom HtG Hfold; cbn [fold_left] in Hfold.
    - injection Hfold as <- <-. split; [assumption|]. split; [apply sk_mono_refl|]. split; [|intros ? ? []].
      exists []. rewrite app_nil_r. split; [reflexivity|intros ? []].
    - destruct (rst_body from (cs0, nw0) t) as [csm nwm] eqn:Eb.
      destruct (rst_body_inv from cs0 R G W t csm nw0 nwm HI Hfrom (fun c E => HtG t c (or_introl eq_refl) E) Eb)
        as (HIm & Hmono & (exm & -> & Hexm) & Hmk).
      assert (Hfrom' : In from R \/ skipped csm from).
      { destruct Hfrom as [?|Hs]; [now left|right; now apply Hmono]. }
      assert (HtG' : forall t' c, In t' targets -> alookup t' csm = Some c -> ~ In t' G).
      { intros t' c Hin E. destruct (alookup t' cs0) as [c0|] eqn:E0.
        - eapply HtG; [right; eassumption|eassumption].
        - destruct Hmono as [Ek _]. apply (alookup_same_keys csm cs0 t' Ek) in E0. congruence. }
      destruct (IH csm (nw0 ++ exm) R G W cs1 nw1 HIm Hfrom' HtG' Hfold) as (HI1 & Hmono1 & (ex1 & -> & Hex1) & Hmk1).
      split; [assumption|]. split; [eapply sk_mono_trans; eassumption|]. split.
      + exists (exm ++ ex1). split; [now rewrite app_assoc|].
        intros k Hk. apply in_app_iff in Hk. destruct Hk as [Hk|Hk].
        * destruct (Hexm k Hk) as [-> Hn]. split; [now left|assumption].
        * destruct (Hex1 k Hk) as [Hin Hn]. split; [now right|]. eapply sk_mono_skipped_not; eassumption.
      + intros t' c Hin E Hnone. destruct Hin as [<-|Hin].
        * destruct Hmono1 as [_ Hm]. apply Hm. eapply Hmk; eassumption.
        * destruct (alookup t' csm) as [cm|] eqn:Em.
          -- eapply Hmk1; eassumption.
          -- destruct Hmono as [Ek _]. apply (alookup_same_keys csm cs0 t' Ek) in Em. congruence.
  Qed.

  Lemma report_skip_to_inv cs R G W from targets cs' nw :
    Inv cs R G W ->
    (In from R \/ skipped cs from) ->
    (forall t c, In t targets -> alookup t cs = Some c -> ~ In t G) ->
    report_skip_to V cs from targets = (cs', nw) ->
    Inv cs' R G (W ++ nw) /\ sk_mono cs cs' /\ (forall k, In k nw -> In k targets /\ ~ skipped cs k)
    /\ (forall t c, In t targets -> alookup t cs = Some c -> (forall p, ~ In p (cpreds g t)) -> skipped cs' t).
  Proof.
    intros HI Hfrom HtG. rewrite report_skip_to_eq. intros Hfold.
    assert (HI' : Inv cs R G (W ++ [])) by now rewrite app_nil_r.
    destruct (report_skip_to_inv_gen from targets cs [] R G W cs' nw HI' Hfrom HtG Hfold) as (H1 & H2 & (ex & -> & H3) & H4).
    simpl. auto.
  Qed.

  (* ---------- propagate / report_branch ---------- *)
  Lemma start_no_chan cs R G W : Inv cs R G W -> alookup kSTART cs = None.
  Proof. intros HI. destruct (inv_wf _ _ _ _ HI) as (_ & H & _). exact H. Qed.

  Lemma gotten_not_skipped cs R G W t : Inv cs R G W -> In t G -> ~ skipped cs t.
  Proof.
    intros HI Ht (c & E & S).
    assert (Hne : t <> kSTART) by (intros ->; rewrite (start_no_chan _ _ _ _ HI) in E; discriminate).
    destruct (inv_B _ _ _ _ HI t Ht Hne) as (c0 & E0 & S0 & _). congruence.
  Qed.

  Lemma propagate_inv fuel : forall work cs R G cs',
    Inv cs R G work -> propagate V g fuel work cs = Ok cs' -> Inv cs' R G [] /\ sk_mono cs cs'.
  Proof.
    induction fuel as [|fuel IH]; intros work cs R G cs' HI; destruct work as [|k work]; simpl.
    - intros [= <-]. split; [assumption|apply sk_mono_refl].
    - discriminate.
    - intros [= <-]. split; [assumption|apply sk_mono_refl].
    - destruct (find_node g k) as [n|] eqn:Ef; [|discriminate].
      destruct (report_skip_to V cs k (succs n)) as [cs1 newly] eqn:Er.
      intros Hp.
      assert (Hk : skipped cs k) by (apply (inv_W _ _ _ _ HI); now left).
      assert (HtG : forall t c, In t (succs n) -> alookup t cs = Some c -> ~ In t G).
      { intros t c Hin Et HinG.
        assert (Hne : t <> kSTART) by (intros ->; rewrite (start_no_chan _ _ _ _ HI) in Et; discriminate).
        destruct (inv_B _ _ _ _ HI t HinG Hne) as (c0 & _ & _ & _ & _ & Q).
        destruct (Q k (succs_gpred k n t Ef Hin)) as [HR|[_ Hn]].
        - apply (gotten_not_skipped _ _ _ _ k HI); [|assumption]. now apply (inv_RG _ _ _ _ HI).
        - apply Hn. now left. }
      destruct (report_skip_to_inv cs R G (k :: work) k (succs n) cs1 newly HI (or_intror Hk) HtG Er) as (HI1 & Hm1 & _).
      assert (HI1' : Inv cs1 R G (work ++ newly)).
      { eapply Inv_weaken_W; [|exact HI1]. intros x Hx. simpl. now right. }
      destruct (IH _ _ _ _ _ HI1' Hp) as (HI2 & Hm2). split; [assumption|eapply sk_mono_trans; eassumption].
  Qed.

  Lemma report_branch_inv cs R G from sk cs' :
    Inv cs R G [] -> In from R ->
    (forall t c, In t sk -> alookup t cs = Some c -> ~ In t G) ->
    report_branch V g from sk cs = Ok cs' ->
    Inv cs' R G [] /\ sk_mono cs cs'
    /\ (forall t c, In t sk -> alookup t cs = Some c -> (forall p, ~ In p (cpreds g t)) -> skipped cs' t).
  Proof.
    intros HI HR HtG. unfold report_branch. rewrite Hdag.
    destruct (report_skip_to V cs from sk) as [cs1 newly] eqn:Er. intros Hp.
    destruct (report_skip_to_inv cs R G [] from sk cs1 newly HI (or_introl HR) HtG Er) as (HI1 & Hm1 & _ & Hmk).
    simpl in HI1. destruct (propagate_inv _ _ _ _ _ _ HI1 Hp) as (HI2 & Hm2).
    split; [assumption|]. split; [eapply sk_mono_trans; eassumption|].
    intros t c Hin E Hnone. destruct Hm2 as [_ Hm]. apply Hm. eapply Hmk; eassumption.
  Qed.

  (* ---------- resolve_one / resolve_all ---------- *)
  (* k is not a predecessor of any channel that has already been read *)
  Definition npred (G : list key) (k : key) : Prop := forall t, In t G -> t <> kSTART -> ~ gpred t k.

  (* a node that is about to be resolved (read, not yet resolved) is not spent, hence no predecessor of a
     channel that has been read *)
  Lemma pending_npred cs R G k : Inv cs R G [] -> In k G -> ~ In k R -> npred G k.
  Proof.
    intros HI HkG HkR t Ht Hne Hp.
    destruct (inv_B _ _ _ _ HI t Ht Hne) as (c & _ & _ & _ & _ & Q).
    destruct (Q k Hp) as [?|[Hs _]]; [contradiction|].
    now apply (gotten_not_skipped _ _ _ _ k HI).
  Qed.

  Lemma resolve_one_inv cs R G k n out cs' ws ds :
    Inv cs R G [] -> find_node g k = Some n -> In k R -> npred G k ->
    resolve_one V ops g n out cs = Ok (cs', ws, ds) ->
    Inv cs' R G [] /\ sk_mono cs cs'
    /\ (forall w, In w ws -> fst (snd w) = k) /\ (forall d, In d ds -> snd d = k).
  Proof.
    intros HI Ef HR Hnp. unfold resolve_one.
    destruct (eval_branches V ops n out) as [[sel sk]|e|] eqn:Eb; simpl; [|discriminate..].
    destruct (find_node_in k n Ef) as [Hn Hk]. rewrite Hk.
    destruct (report_branch V g k sk cs) as [cs1|e|] eqn:Er; simpl; [|discriminate..].
    intros [= <- <- <-].
    assert (HtG : forall t c, In t sk -> alookup t cs = Some c -> ~ In t G).
    { intros t c Hin Et HinG.
      assert (Hne : t <> kSTART) by (intros ->; rewrite (start_no_chan _ _ _ _ HI) in Et; discriminate).
      apply (Hnp t HinG Hne). left. eapply branch_end_cpred; [eassumption|].
      eapply eval_branches_skipped; eassumption. }
    destruct (report_branch_inv cs R G k sk cs1 HI HR HtG Er) as (HI1 & Hm1 & _).
    split; [assumption|]. split; [assumption|]. split.
    - intros w Hw. apply in_map_iff in Hw. destruct Hw as (t & <- & _). reflexivity.
    - intros d Hd. apply in_map_iff in Hd. destruct Hd as (t & <- & _). reflexivity.
  Qed.

  Lemma resolve_all_inv completed : forall cs R G cs' ws ds,
    Inv cs R G [] -> (forall k, In k (akeys completed) -> In k R /\ npred G k) ->
    resolve_all V ops g completed cs = Ok (cs', ws, ds) ->
    Inv cs' R G [] /\ sk_mono cs cs'
    /\ (forall w, In w ws -> In (fst (snd w)) (akeys completed))
    /\ (forall d, In d ds -> In (snd d) (akeys completed)).
  Proof.
    induction completed as [|[k out] completed IH]; intros cs R G cs' ws ds HI Hc; cbn [resolve_all].
    - intros [= <- <- <-]. split; [assumption|]. split; [apply sk_mono_refl|]. split; intros ? [].
    - destruct (find_node g k) as [n|] eqn:Ef; [|discriminate].
      destruct (resolve_one V ops g n out cs) as [[[cs1 w1] d1]|e|] eqn:E1; simpl; [|discriminate..].
      destruct (resolve_all V ops g completed cs1) as [[[cs2 w2] d2]|e|] eqn:E2; simpl; [|discriminate..].
      intros [= <- <- <-].
      destruct (Hc k (or_introl eq_refl)) as [HkR Hknp].
      destruct (resolve_one_inv cs R G k n out cs1 w1 d1 HI Ef HkR Hknp E1) as (HI1 & Hm1 & Hw1 & Hd1).
      destruct (IH cs1 R G cs2 w2 d2 HI1 (fun k' Hk' => Hc k' (or_intror Hk')) E2) as (HI2 & Hm2 & Hw2 & Hd2).
      split; [assumption|]. split; [eapply sk_mono_trans; eassumption|]. split.
      + intros w Hw. apply in_app_iff in Hw. destruct Hw as [Hw|Hw]; [left; symmetry; now apply Hw1|right; now apply Hw2].
      + intros d Hd. apply in_app_iff in Hd. destruct Hd as [Hd|Hd]; [left; symmetry; now apply Hd1|right; now apply Hd2].
  Qed.

  (* ---------- update_chans ---------- *)
  Definition upd1 (ws : writes_t V) (ds : deps_t) (t : key) (c : chan) : chan :=
    dag_report_deps V (dag_report_values V c (incoming_vals V g t ws)) (incoming_deps g t ds).

  Lemma update_chans_eq ws ds cs :
    map (update_chan V g ws ds) cs = map (fun kv => (fst kv, upd1 ws ds (fst kv) (snd kv))) cs.
  Proof. apply map_ext. intros [k c]. unfold update_chan, upd1. now rewrite Hdag. Qed.

  Lemma in_incoming_vals t ws p :
    In p (akeys (incoming_vals V g t ws)) -> In p (dpreds g t) /\ exists w, In w ws /\ fst w = t /\ fst (snd w) = p.
  Proof.
    unfold incoming_vals, akeys. rewrite map_map. intros H. apply in_map_iff in H.
    destruct H as (w & <- & Hw). apply filter_In in Hw. destruct Hw as [Hw Hf].
    apply andb_true_iff in Hf. destruct Hf as [Hf1 Hf2]. apply N.eqb_eq in Hf1. apply memb_in in Hf2. eauto.
  Qed.

  Lemma in_incoming_deps t ds p :
    In p (incoming_deps g t ds) -> In p (cpreds g t) /\ exists d, In d ds /\ fst d = t /\ snd d = p.
  Proof.
    unfold incoming_deps. intros H. apply in_map_iff in H.
    destruct H as (d & <- & Hd). apply filter_In in Hd. destruct Hd as [Hd Hf].
    apply andb_true_iff in Hf. destruct Hf as [Hf1 Hf2]. apply N.eqb_eq in Hf1. apply memb_in in Hf2. eauto.
  Qed.

  Lemma upd1_skipped ws ds t c : c_skipped V (upd1 ws ds t c) = c_skipped V c.
  Proof.
    unfold upd1. destruct (dag_report_deps_rest V (dag_report_values V c (incoming_vals V g t ws)) (incoming_deps g t ds)) as (_ & -> & _).
    now destruct (dag_report_values_rest V c (incoming_vals V g t ws)) as (_ & ->).
  Qed.

  Lemma upd1_ctrl ws ds t c p :
    ctrl_st (upd1 ws ds t c) p =
    if (negb (c_skipped V c) && memb p (incoming_deps g t ds))%bool then option_map (fun _ => Ready) (ctrl_st c p) else ctrl_st c p.
  Proof.
    unfold upd1. rewrite dag_report_deps_ctrl.
    destruct (dag_report_values_rest V c (incoming_vals V g t ws)) as (E1 & ->).
    unfold DagChan.ctrl_st. now rewrite E1.
  Qed.

  Lemma upd1_data ws ds t c p :
    data_st (upd1 ws ds t c) p =
    if (negb (c_skipped V c) && memb p (akeys (incoming_vals V g t ws)))%bool then option_map (fun _ => true) (data_st c p) else data_st c p.
  Proof.
    unfold upd1.
    destruct (dag_report_deps_rest V (dag_report_values V c (incoming_vals V g t ws)) (incoming_deps g t ds)) as (E1 & _).
    unfold DagChan.data_st at 1. rewrite E1. apply dag_report_values_data.
  Qed.

  Lemma upd1_ctrl_list_skipped ws ds t c : c_skipped V c = true -> upd1 ws ds t c = c.
  Proof.
    intros H. unfold upd1. rewrite dag_report_values_eq, H. rewrite dag_report_deps_eq, H. reflexivity.
  Qed.

  Lemma upd1_wf ws ds t c : chan_wf t c -> chan_wf t (upd1 ws ds t c).
  Proof.
    intros (Hok & Hc & Hd). split; [|split].
    - unfold upd1. apply dag_report_deps_ok. now apply dag_report_values_ok.
    - intros p. rewrite upd1_ctrl, <- Hc. destruct (_ && _)%bool; [|tauto]. destruct (ctrl_st c p); simpl; split; congruence.
    - intros p. rewrite upd1_data, <- Hd. destruct (_ && _)%bool; [|tauto]. destruct (data_st c p); simpl; split; congruence.
  Qed.

  Lemma update_chans_inv cs R G ws ds cs' :
    Inv cs R G [] ->
    (forall w, In w ws -> In (fst (snd w)) R /\ npred G (fst (snd w))) ->
    (forall d, In d ds -> In (snd d) R /\ npred G (snd d)) ->
    update_chans V g ws ds cs = Ok cs' -> Inv cs' R G [] /\ sk_mono cs cs'.
  Proof.
    intros HI Hws Hds. unfold update_chans. destruct (targets_exist V cs ws ds); [|discriminate].
    intros [= <-]. rewrite update_chans_eq.
    set (cs' := map (fun kv : N * chan => (fst kv, upd1 ws ds (fst kv) (snd kv))) cs).
    assert (Hlk : forall t, alookup t cs' = option_map (upd1 ws ds t) (alookup t cs)).
    { intros t. unfold cs'. exact (alookup_map_snd (fun kv => upd1 ws ds (fst kv) (snd kv)) t cs). }
    assert (Hkeys : akeys cs' = akeys cs).
    { unfold cs'. exact (akeys_map_snd (fun kv => upd1 ws ds (fst kv) (snd kv)) cs). }
    assert (Hsk : forall p, skipped cs p <-> skipped cs' p).
    { intros p. unfold skipped. rewrite Hlk. split.
      - intros (c & E & S). exists (upd1 ws ds p c). rewrite E. simpl. split; [reflexivity|now rewrite upd1_skipped].
      - intros (c' & E & S). destruct (alookup p cs) as [c|]; [|discriminate]. simpl in E. injection E as <-.
        exists c. split; [reflexivity|now rewrite upd1_skipped in S]. }
    destruct HI as [Hwf HRG Hskc HA HB HW].
    split; [|split; [assumption|intros p; apply Hsk]].
    constructor.
    - destruct Hwf as (Hks & Hst & Hall). split; [|split].
      + eapply ksorted_akeys_eq; [symmetry; exact Hkeys|exact Hks].
      + rewrite Hlk, Hst. reflexivity.
      + intros t c'. rewrite Hlk. destruct (alookup t cs) as [c|] eqn:E; [|discriminate]. simpl.
        intros [= <-]. apply upd1_wf. now apply Hall.
    - assumption.
    - intros t c'. rewrite Hlk. destruct (alookup t cs) as [c|] eqn:E; [|discriminate]. simpl.
      intros [= <-]. rewrite upd1_skipped. intros S. rewrite (upd1_ctrl_list_skipped _ _ _ _ S). eapply Hskc; eassumption.
    - intros t c' p. rewrite Hlk. destruct (alookup t cs) as [c|] eqn:E; [|discriminate]. simpl.
      intros [= <-] Hrep.
      assert (Hcase : reported c p \/ In p R).
      { destruct Hrep as [(d & E1 & E2)|E1].
        - rewrite upd1_ctrl in E1. destruct (negb (c_skipped V c) && memb p (incoming_deps g t ds))%bool eqn:Eb.
          + right. apply andb_true_iff in Eb. destruct Eb as [_ Eb]. apply memb_in in Eb.
            apply in_incoming_deps in Eb. destruct Eb as (_ & d0 & Hd0 & _ & <-). now apply Hds.
          + left. left. eauto.
        - rewrite upd1_data in E1. destruct (negb (c_skipped V c) && memb p (akeys (incoming_vals V g t ws)))%bool eqn:Eb.
          + right. apply andb_true_iff in Eb. destruct Eb as [_ Eb]. apply memb_in in Eb.
            apply in_incoming_vals in Eb. destruct Eb as (_ & w0 & Hw0 & _ & <-). now apply Hws.
          + left. now right. }
      destruct Hcase as [Hr|?]; [|now left].
      destruct (HA t c p E Hr) as [?|Hs]; [now left|right; now apply Hsk].
    - intros t Ht Hne. destruct (HB t Ht Hne) as (c & E & S & [F1 F2] & P & Q).
      exists (upd1 ws ds t c). rewrite Hlk, E. split; [reflexivity|]. split; [now rewrite upd1_skipped|].
      split; [|split; [assumption|]].
      + split.
        * intros p d. rewrite upd1_ctrl. destruct (negb (c_skipped V c) && memb p (incoming_deps g t ds))%bool eqn:Eb; [|apply F1].
          exfalso. apply andb_true_iff in Eb. destruct Eb as [_ Eb]. apply memb_in in Eb.
          apply in_incoming_deps in Eb. destruct Eb as (Hcp & d0 & Hd0 & _ & <-).
          destruct (Hds d0 Hd0) as [_ Hnp]. apply (Hnp t Ht Hne). now left.
        * intros p b. rewrite upd1_data. destruct (negb (c_skipped V c) && memb p (akeys (incoming_vals V g t ws)))%bool eqn:Eb; [|apply F2].
          exfalso. apply andb_true_iff in Eb. destruct Eb as [_ Eb]. apply memb_in in Eb.
          apply in_incoming_vals in Eb. destruct Eb as (Hdp & w0 & Hw0 & _ & <-).
          destruct (Hws w0 Hw0) as [_ Hnp]. apply (Hnp t Ht Hne). now right.
      + intros p Hp. destruct (Q p Hp) as [?|[Hs Hn]]; [now left|right]. split; [now apply Hsk|assumption].
    - intros k [].
  Qed.

  (* ---------- get_all ---------- *)
  Lemma dag_get_cases c ov c' :
    dag_get V ops c = Ok (ov, c') ->
    (ov = None /\ c' = c /\ dag_ready V c = false)
    \/ (exists v, ov = Some v /\ c' = dag_reset V c /\ dag_ready V c = true /\ get_merge V ops (c_vals V c) = Ok v).
  Proof.
    unfold dag_get. destruct (dag_ready V c).
    - destruct (get_merge V ops (c_vals V c)) as [v|e|]; simpl; [|discriminate..].
      intros [= <- <-]. right. exists v. auto.
    - intros [= <- <-]. now left.
  Qed.

  Lemma get_all_spec : forall cs cs' ready,
    ksorted cs -> get_all V ops g cs = Ok (cs', ready) ->
    akeys cs' = akeys cs /\ ksorted ready /\ (forall t, In t (akeys ready) -> In t (akeys cs))
    /\ forall t, match alookup t cs with
                 | None => alookup t cs' = None /\ alookup t ready = None
                 | Some c => exists ov c', dag_get V ops c = Ok (ov, c') /\ alookup t cs' = Some c'
                                           /\ alookup t ready = option_map (pre_node V ops g t) ov
                 end.
  Proof.
    induction cs as [|[k c] cs IH]; intros cs' ready Hs; cbn [get_all].
    - intros [= <- <-]. repeat split; auto.
    - unfold chan_get. rewrite Hdag.
      destruct (dag_get V ops c) as [[ov c1]|e|] eqn:Eg; simpl; [|discriminate..].
      destruct (get_all V ops g cs) as [[cs1 ready1]|e|] eqn:Ea; simpl; [|discriminate..].
      intros [= <- <-]. destruct Hs as [Hlt Hs]. simpl in Hlt.
      destruct (IH cs1 ready1 Hs eq_refl) as (Hk & Hsr & Hsub & Hall).
      assert (Hkr : alookup k ready1 = None).
      { apply alookup_none. intros Hin. apply Hsub in Hin. specialize (Hlt _ Hin). lia. }
      assert (Hsr' : ksorted (match ov with Some v => (k, pre_node V ops g k v) :: ready1 | None => ready1 end)).
      { destruct ov; [|assumption]. simpl. split; [|assumption]. intros k' Hin. apply Hlt. now apply Hsub. }
      split; [|split; [assumption|split]].
      + simpl. unfold akeys in *. simpl. now rewrite Hk.
      + intros t Hin. destruct ov; [|right; now apply Hsub].
        destruct Hin as [<-|Hin]; [now left|right; now apply Hsub].
      + intros t. simpl. destruct (N.eqb t k) eqn:Et.
        * apply N.eqb_eq in Et. subst t. exists ov, c1. split; [assumption|]. split; [reflexivity|].
          destruct ov; simpl; [now rewrite N.eqb_refl|assumption].
        * specialize (Hall t). destruct (alookup t cs) as [c0|].
          -- destruct Hall as (ov0 & c0' & E1 & E2 & E3). exists ov0, c0'. split; [assumption|]. split; [assumption|].
             destruct ov; simpl; [now rewrite Et|assumption].
          -- destruct Hall as [E1 E2]. split; [assumption|]. destruct ov; simpl; [now rewrite Et|assumption].
  Qed.

  (* nodes without any predecessor have been skipped up front (initChannelManager, the F-C02 repair) *)
  Definition orph (cs : chans) : Prop :=
    forall t c, t <> kEND -> alookup t cs = Some c -> (forall p, ~ gpred t p) -> c_skipped V c = true.

  Lemma orph_mono cs cs' : sk_mono cs cs' -> orph cs -> orph cs'.
  Proof.
    intros [Ek Hm] Ho t c' Hne E Hnp.
    destruct (alookup t cs) as [c|] eqn:E0.
    - assert (Hs : skipped cs t) by (exists c; split; [assumption|now apply (Ho t c)]).
      apply Hm in Hs. destruct Hs as (c2 & E2 & S2). congruence.
    - apply (alookup_same_keys cs cs' t (eq_sym Ek)) in E0. congruence.
  Qed.

  Lemma gpred_dec t : (exists p, gpred t p) \/ (forall p, ~ gpred t p).
  Proof.
    unfold gpred. destruct (cpreds g t) as [|p l] eqn:E1.
    - destruct (dpreds g t) as [|p l] eqn:E2.
      + right. intros p [[]|[]].
      + left. exists p. right. now left.
    - left. exists p. left. now left.
  Qed.

  Lemma fresh_not_ready t c : chan_wf t c -> fresh c -> (exists p, gpred t p) -> dag_ready V c = false.
  Proof.
    intros (Hok & Hc & Hd) [F1 F2] (p & Hp).
    destruct (dag_ready V c) eqn:E; [|reflexivity]. exfalso.
    apply dag_ready_iff in E; [|assumption]. destruct E as (_ & Hw & Hdt).
    destruct Hp as [Hp|Hp].
    - apply Hc in Hp. fold (ctrl_st c p) in *. destruct (ctrl_st c p) as [d|] eqn:Ed; [|congruence].
      apply (Hw p d Ed). now apply (F1 p).
    - apply Hd in Hp. fold (data_st c p) in *. destruct (data_st c p) as [b|] eqn:Eb; [|congruence].
      pose proof (Hdt p b Eb). pose proof (F2 p b Eb). congruence.
  Qed.

  Lemma reset_fresh c : fresh (dag_reset V c).
  Proof.
    split.
    - intros p d. rewrite dag_reset_ctrl. destruct (ctrl_st c p); simpl; congruence.
    - intros p b. rewrite dag_reset_data. destruct (data_st c p); simpl; congruence.
  Qed.

  Lemma reset_wf t c : chan_wf t c -> chan_wf t (dag_reset V c).
  Proof.
    intros (Hok & Hc & Hd). split; [now apply dag_reset_ok|]. split.
    - intros p. rewrite dag_reset_ctrl, <- Hc. destruct (ctrl_st c p); simpl; split; congruence.
    - intros p. rewrite dag_reset_data, <- Hd. destruct (data_st c p); simpl; split; congruence.
  Qed.

  Lemma fresh_not_reported c p : fresh c -> ~ reported c p.
  Proof.
    intros [F1 F2] [(d & E1 & E2)|E1].
    - apply E2. eapply F1; eassumption.
    - specialize (F2 p true E1). discriminate.
  Qed.

  Lemma ready_reported t c p : chan_wf t c -> dag_ready V c = true -> gpred t p -> reported c p.
  Proof.
    intros (Hok & Hc & Hd) E Hp. apply dag_ready_iff in E; [|assumption]. destruct E as (_ & Hw & Hdt).
    destruct Hp as [Hp|Hp].
    - apply Hc in Hp. fold (ctrl_st c p) in *. destruct (ctrl_st c p) as [d|] eqn:Ed; [|congruence].
      left. exists d. split; [assumption|]. eapply Hw; eassumption.
    - apply Hd in Hp. fold (data_st c p) in *. destruct (data_st c p) as [b|] eqn:Eb; [|congruence].
      right. unfold DagChan.data_st in *. rewrite Eb. f_equal. eapply Hdt. eassumption.
  Qed.

  Lemma get_all_inv cs R G cs' ready :
    Inv cs R G [] -> orph cs -> NoDup G -> get_all V ops g cs = Ok (cs', ready) ->
    ((alookup kEND ready = None \/ exists q, gpred kEND q) -> Inv cs' R (G ++ akeys ready) []) /\ sk_mono cs cs' /\ NoDup (G ++ akeys ready)
    /\ (forall t, In t (akeys ready) <-> exists c, alookup t cs = Some c /\ dag_ready V c = true).
  Proof.
    intros HI Ho Hnd Hg.
    pose proof HI as [Hwf HRG Hskc HA HB HW].
    pose proof Hwf as (Hks & Hst & Hall).
    destruct (get_all_spec cs cs' ready Hks Hg) as (Hkeys & Hsr & Hsub & Hspec).
    (* per-channel description *)
    assert (Hch : forall t c, alookup t cs = Some c ->
              (dag_ready V c = false /\ alookup t cs' = Some c /\ alookup t ready = None)
              \/ (dag_ready V c = true /\ alookup t cs' = Some (dag_reset V c) /\ alookup t ready <> None)).
    { intros t c E. specialize (Hspec t). rewrite E in Hspec. destruct Hspec as (ov & c' & E1 & E2 & E3).
      destruct (dag_get_cases c ov c' E1) as [(-> & -> & Hr)|(v & -> & -> & Hr & _)].
      - left. auto.
      - right. split; [assumption|]. split; [assumption|]. rewrite E3. discriminate. }
    assert (Hready : forall t, In t (akeys ready) <-> exists c, alookup t cs = Some c /\ dag_ready V c = true).
    { intros t. split.
      - intros Hin. destruct (alookup t cs) as [c|] eqn:E.
        + destruct (Hch t c E) as [(_ & _ & En)|(Hr & _ & _)].
          * apply alookup_none in En. contradiction.
          * eauto.
        + specialize (Hspec t). rewrite E in Hspec. destruct Hspec as [_ En]. apply alookup_none in En. contradiction.
      - intros (c & E & Hr). destruct (Hch t c E) as [(Hr' & _)|(_ & _ & Hn)]; [congruence|].
        destruct (alookup t ready) eqn:El; [|congruence]. eapply alookup_some_key; eassumption. }
    assert (Hsk : forall p, skipped cs p <-> skipped cs' p).
    { intros p. unfold skipped. split.
      - intros (c & E & S). destruct (Hch p c E) as [(_ & E' & _)|(_ & E' & _)]; eauto.
      - intros (c' & E' & S'). destruct (alookup p cs) as [c|] eqn:E.
        + destruct (Hch p c E) as [(_ & E2 & _)|(_ & E2 & _)]; rewrite E2 in E'; injection E' as <-; eauto.
        + specialize (Hspec p). rewrite E in Hspec. destruct Hspec as [En _]. congruence. }
    assert (Hdisj : forall t, In t G -> ~ In t (akeys ready)).
    { intros t Ht Hin. apply Hready in Hin. destruct Hin as (c & E & Hr).
      assert (Hne : t <> kSTART) by (intros ->; congruence).
      destruct (HB t Ht Hne) as (c0 & E0 & _ & F0 & P0 & _).
      rewrite E in E0. injection E0 as <-.
      rewrite (fresh_not_ready t c (Hall t c E) F0 P0) in Hr. discriminate. }
    split; [|split; [split; [assumption|intros p; apply Hsk]|split; [|assumption]]].
    2:{ apply NoDup_app_intro; [assumption|now apply ksorted_nodup|assumption]. }
    intros HnoEnd. constructor.
    - split; [|split].
      + eapply ksorted_akeys_eq; [symmetry; exact Hkeys|exact Hks].
      + specialize (Hspec kSTART). rewrite Hst in Hspec. tauto.
      + intros t c' E'. destruct (alookup t cs) as [c|] eqn:E.
        * destruct (Hch t c E) as [(_ & E2 & _)|(_ & E2 & _)]; rewrite E2 in E'; injection E' as <-;
            [now apply Hall|apply reset_wf; now apply Hall].
        * specialize (Hspec t). rewrite E in Hspec. destruct Hspec as [En _]. congruence.
    - intros x Hx. apply in_app_iff. left. now apply HRG.
    - intros t c' E' S'. destruct (alookup t cs) as [c|] eqn:E.
      + destruct (Hch t c E) as [(_ & E2 & _)|(Hr & E2 & _)]; rewrite E2 in E'; injection E' as <-.
        * eapply Hskc; eassumption.
        * simpl in S'. apply dag_ready_iff in Hr; [|apply (Hall t c E)]. destruct Hr as (Hr & _). congruence.
      + specialize (Hspec t). rewrite E in Hspec. destruct Hspec as [En _]. congruence.
    - intros t c' p E' Hrep. destruct (alookup t cs) as [c|] eqn:E.
      + destruct (Hch t c E) as [(_ & E2 & _)|(_ & E2 & _)]; rewrite E2 in E'; injection E' as <-.
        * destruct (HA t c p E Hrep) as [?|Hs]; [now left|right; now apply Hsk].
        * exfalso. eapply fresh_not_reported; [apply reset_fresh|eassumption].
      + specialize (Hspec t). rewrite E in Hspec. destruct Hspec as [En _]. congruence.
    - intros t Ht Hne. apply in_app_iff in Ht. destruct Ht as [Ht|Ht].
      + destruct (HB t Ht Hne) as (c & E & S & F & P & Q).
        exists c. split.
        * destruct (Hch t c E) as [(_ & E2 & _)|(Hr & _ & _)]; [assumption|].
          rewrite (fresh_not_ready t c (Hall t c E) F P) in Hr. discriminate.
        * split; [assumption|]. split; [assumption|]. split; [assumption|].
          intros p Hp. destruct (Q p Hp) as [?|[Hs Hn]]; [now left|right]. split; [now apply Hsk|assumption].
      + apply Hready in Ht. destruct Ht as (c & E & Hr).
        destruct (Hch t c E) as [(Hr' & _)|(_ & E2 & _)]; [congruence|].
        exists (dag_reset V c). split; [assumption|]. split.
        * simpl. apply dag_ready_iff in Hr; [|apply (Hall t c E)]. tauto.
        * split; [apply reset_fresh|].
          assert (Hex : exists p, gpred t p).
          { destruct (gpred_dec t) as [?|Hnone]; [assumption|]. exfalso.
            assert (HtE : t <> kEND).
            { intros ->. destruct HnoEnd as [HnoEnd|(q & Hq)]; [|exact (Hnone q Hq)].
              apply alookup_none in HnoEnd. apply HnoEnd. apply Hready. eauto. }
            pose proof (Ho t c HtE E Hnone) as S. apply dag_ready_iff in Hr; [|apply (Hall t c E)]. destruct Hr as (Hr & _). congruence. }
          split; [assumption|].
          intros p Hp. pose proof (ready_reported t c p (Hall t c E) Hr Hp) as Hrep.
          destruct (HA t c p E Hrep) as [?|Hs]; [now left|right]. split; [now apply Hsk|intros []].
    - intros k [].
  Qed.
End DagInv.
