(* Proofs/DagDen.v — C02, stretch: the outcome of an all-predecessor run is a FUNCTION of the graph, the input
   and the node functions — it does not depend on the schedule (batch or eager, any completion order).

   Part A (this section): determinacy. A "run table" (cs, Rv) — who was resolved with which output, who is
   skipped — that satisfies the local rules DF established by the invariants of Proofs/Dag*.v is unique where
   two such tables overlap: same outputs for nodes resolved in both, and no node resolved in one and skipped
   in the other. Proof by induction along a topological rank of ALL dependencies (control and data).
   The rules DF are exactly the denotational description of a run by recursion on a topological order:
     - START is resolved with the input x;
     - a resolved node k had all its predecessors resolved or skipped, a control predecessor that routed to it
       (or, without control predecessors, no skipped data predecessor), received the merge of the routed data
       predecessors' outputs and produced [nout k] of it;
     - a skipped node with control predecessors has each of them skipped or resolved without routing to it;
       a skipped node without control predecessors has no predecessor at all or a skipped data predecessor. *)
From Eino Require Import Base.Util Model.Graph Proofs.DagChan Proofs.DagInv Proofs.DagLoop Proofs.DagTrig
     Proofs.DagVals Proofs.DagSkip Proofs.DagTrigLoop.
From Coq Require Import Lia Permutation Wf_nat.
Open Scope N_scope.

Section DagDen.
  Variable V : Type.
  Variable ops : vops V.
  Variable g : graph.
  Variable nout : node -> V -> tres V.     (* what executing node n on an input yields *)
  Variable x : V.                          (* the input of the run *)
  Variable rank : key -> nat.
  Hypothesis Hrank : forall t q, gpred g t q -> (rank q < rank t)%nat.

  Notation chans := (chans V).
  Notation skipped := (skipped V).
  Notation input_spec := (input_spec V ops g).
  Notation val_spec := (val_spec V ops g).
  Notation routed_c := (routed_c V ops g).

  (* the facts recorded when node k was scheduled with input w, Rv' being the tasks resolved by then *)
  Definition EF (cs : chans) (Rv' : list (key * V)) (k : key) (w : V) : Prop :=
    input_spec Rv' k w
    /\ (exists q, gpred g k q)
    /\ (forall q, gpred g k q -> resolved V Rv' q \/ skipped cs q)
    /\ (cpreds g k <> [] -> exists q, In q (cpreds g k) /\ routed_c Rv' q k).

  Definition IO (cs : chans) (Rv : list (key * V)) : Prop :=
    forall k out, In (k, out) Rv ->
      (k = kSTART /\ out = x)
      \/ (k <> kSTART /\ exists n w Rv' more, Rv = Rv' ++ more /\ find_node g k = Some n
                                              /\ EF cs Rv' k w /\ nout n w = TOk out).

  Record DF (cs : chans) (Rv : list (key * V)) : Prop := {
    df_io    : IO cs Rv;
    df_keys  : NoDup (akeys Rv);
    df_eval  : forall q out, In (q, out) Rv -> exists n sel sk, find_node g q = Some n /\ eval_branches V ops n out = Ok (sel, sk);
    df_notsk : forall k, In k (akeys Rv) -> ~ skipped cs k;
    df_start : ~ skipped cs kSTART;
    df_skc   : forall t, skipped cs t -> cpreds g t <> [] -> forall q, In q (cpreds g t) ->
               skipped cs q \/ exists out n, In (q, out) Rv /\ find_node g q = Some n /\ In t (skl_of V ops n out);
    df_skd   : forall t, skipped cs t -> cpreds g t = [] ->
               dpreds g t = [] \/ exists q, In q (dpreds g t) /\ skipped cs q;
    df_ek    : forall t q, In t (akeys Rv) -> t <> kSTART -> cpreds g t = [] -> In q (dpreds g t) -> ~ skipped cs q;
  }.

  Lemma Rv_unique (Rv : list (key * V)) k o1 o2 : NoDup (akeys Rv) -> In (k, o1) Rv -> In (k, o2) Rv -> o1 = o2.
  Proof.
    unfold akeys. induction Rv as [|[k0 o0] l IH]; simpl; [intros _ []|].
    intros Hnd. inversion Hnd as [|? ? Hn Hnd']; subst. intros [[= -> ->]|H1] [[= ->]|H2]; try reflexivity.
    - exfalso. apply Hn. now apply (in_map fst) in H2.
    - subst. exfalso. apply Hn. now apply (in_map fst) in H1.
    - now apply IH.
  Qed.

  Lemma in_akeys {A} (l : list (key * A)) k : In k (akeys l) <-> exists a, In (k, a) l.
  Proof.
    unfold akeys. rewrite in_map_iff. split.
    - intros ([k' a] & <- & H). eauto.
    - intros (a & H). exists (k, a). auto.
  Qed.

  (* the claims proved by induction on the rank *)
  Definition agree (csA csB : chans) (RvA RvB : list (key * V)) (k : key) : Prop :=
    (forall oA oB, In (k, oA) RvA -> In (k, oB) RvB -> oA = oB)
    /\ (In k (akeys RvA) -> ~ skipped csB k)
    /\ (In k (akeys RvB) -> ~ skipped csA k).

  (* two nodes scheduled under tables that agree on everything of smaller rank received the same input *)
  Lemma EF_input_unique csA csB RvA RvB RvA' RvB' moreA moreB k wA wB :
    RvA = RvA' ++ moreA -> RvB = RvB' ++ moreB ->
    (forall q, (rank q < rank k)%nat -> agree csA csB RvA RvB q) ->
    EF csA RvA' k wA -> EF csB RvB' k wB -> wA = wB.
  Proof.
    intros EA EB Hag ((valsA & vA & HsA & HvA & HmA & ->) & _ & HallA & _) ((valsB & vB & HsB & HvB & HmB & ->) & _ & HallB & _).
    assert (Hhalf : forall (cs1 cs2 : chans) (Rv1 Rv2 Rv1' Rv2' m1 m2 : list (key * V)),
              Rv1 = Rv1' ++ m1 -> Rv2 = Rv2' ++ m2 ->
              (forall q, (rank q < rank k)%nat ->
                 (forall o1 o2, In (q, o1) Rv1 -> In (q, o2) Rv2 -> o1 = o2) /\ (In q (akeys Rv1) -> ~ DagInv.skipped V cs2 q)) ->
              (forall q, gpred g k q -> resolved V Rv2' q \/ DagInv.skipped V cs2 q) ->
              forall q u, val_spec Rv1' k q u -> val_spec Rv2' k q u).
    { intros cs1 cs2 Rv1 Rv2 Rv1' Rv2' m1 m2 E1 E2 Hq Hall2 q u (Hd & out & n & Hin & Hf & Hr & ->).
      assert (Hlt : (rank q < rank k)%nat) by (apply Hrank; now right).
      destruct (Hq q Hlt) as [Hsame Hns].
      assert (Hin1 : In (q, out) Rv1) by (rewrite E1; apply in_app_iff; now left).
      destruct (Hall2 q (or_intror Hd)) as [Hres|Hsk].
      - apply in_akeys in Hres. destruct Hres as (out2 & Hin2).
        assert (Hin2' : In (q, out2) Rv2) by (rewrite E2; apply in_app_iff; now left).
        rewrite <- (Hsame out out2 Hin1 Hin2') in Hin2.
        split; [assumption|]. exists out, n. auto.
      - exfalso. apply (Hns (proj2 (in_akeys Rv1 q) (ex_intro _ out Hin1)) Hsk). }
    assert (Hvals : valsA = valsB).
    { apply ksorted_ext; [assumption..|]. intros q.
      destruct (alookup q valsA) as [u|] eqn:EA1.
      - symmetry. apply HvB. apply (Hhalf csA csB RvA RvB RvA' RvB' moreA moreB EA EB); [|assumption|now apply HvA].
        intros q' Hlt. destruct (Hag q' Hlt) as (H1 & H2 & _). split; assumption.
      - destruct (alookup q valsB) as [u|] eqn:EB1; [|reflexivity]. exfalso.
        assert (Hs : val_spec RvA' k q u).
        { apply (Hhalf csB csA RvB RvA RvB' RvA' moreB moreA EB EA); [|assumption|now apply HvB].
          intros q' Hlt. destruct (Hag q' Hlt) as (H1 & _ & H3). split; [|assumption].
          intros o1 o2 I1 I2. symmetry. now apply H1. }
        apply HvA in Hs. congruence. }
    subst valsB. rewrite HmA in HmB. injection HmB as ->. reflexivity.
  Qed.

  Theorem den_deterministic csA csB RvA RvB :
    DF csA RvA -> DF csB RvB -> forall k, agree csA csB RvA RvB k.
  Proof.
    intros HA HB k. induction k as [k IH] using (induction_ltof1 _ rank). unfold ltof in IH.
    (* a resolved node is not skipped in the other table *)
    assert (Hns : forall (cs1 cs2 : chans) (Rv1 Rv2 : list (key * V)), DF cs1 Rv1 -> DF cs2 Rv2 ->
              (forall q, (rank q < rank k)%nat ->
                 (forall o1 o2, In (q, o1) Rv1 -> In (q, o2) Rv2 -> o1 = o2) /\ (In q (akeys Rv1) -> ~ DagInv.skipped V cs2 q)) ->
              In k (akeys Rv1) -> ~ DagInv.skipped V cs2 k).
    { intros cs1 cs2 Rv1 Rv2 H1 H2 Hq Hk Hsk.
      apply in_akeys in Hk. destruct Hk as (o1 & Hin1).
      destruct (df_io _ _ H1 k o1 Hin1) as [[-> _]|(Hne & n & w & Rv1' & more & E1 & Hf & (Hin & (p0 & Hp0) & Hall & Hrt) & Ho)].
      - exact (df_start _ _ H2 Hsk).
      - destruct (cpreds g k) as [|c0 cl] eqn:Ecp.
        + (* only data predecessors: all of them are resolved in table 1, one of them is skipped in table 2 *)
          destruct (df_skd _ _ H2 k Hsk Ecp) as [Hnone|(q & Hq1 & Hq2)].
          * destruct Hp0 as [Hp0|Hp0]; [rewrite Ecp in Hp0; destruct Hp0|rewrite Hnone in Hp0; destruct Hp0].
          * assert (Hlt : (rank q < rank k)%nat) by (apply Hrank; now right).
            destruct (Hall q (or_intror Hq1)) as [Hres|Hs1].
            -- destruct (Hq q Hlt) as [_ Hn]. apply Hn; [|assumption].
               apply in_akeys in Hres. destruct Hres as (oq & Hoq). apply in_akeys. exists oq. rewrite E1. apply in_app_iff. now left.
            -- apply (df_ek _ _ H1 k q); try assumption. apply in_akeys. eauto.
        + assert (Hne0 : c0 :: cl <> []) by discriminate. rewrite <- Ecp in *.
          destruct (Hrt Hne0) as (q & Hqc & oq & nq & Hinq & Hfq & Hroute).
          assert (Hlt : (rank q < rank k)%nat) by (apply Hrank; now left).
          assert (Hinq1 : In (q, oq) Rv1) by (rewrite E1; apply in_app_iff; now left).
          destruct (Hq q Hlt) as [Hsame Hn].
          destruct (df_skc _ _ H2 k Hsk Hne0 q Hqc) as [Hs2|(o2 & n2 & Hin2 & Hf2 & Hskl)].
          * apply Hn; [|assumption]. apply in_akeys. eauto.
          * rewrite <- (Hsame oq o2 Hinq1 Hin2) in Hskl. rewrite Hfq in Hf2. injection Hf2 as <-.
            destruct (df_eval _ _ H1 q oq Hinq1) as (n3 & sel & sk & Hf3 & Hev). rewrite Hfq in Hf3. injection Hf3 as <-.
            destruct (sel_skl_of V ops nq oq sel sk Hev) as [Es Ek]. rewrite Ek in Hskl.
            destruct Hroute as [Hc|Hs].
            -- eapply eval_branches_skipped_csucc; eassumption.
            -- rewrite Es in Hs. destruct (eval_branches_skipped V ops nq oq sel sk k Hev Hskl) as [_ Hnsel]. contradiction. }
    assert (HIH1 : forall q, (rank q < rank k)%nat ->
              (forall o1 o2, In (q, o1) RvA -> In (q, o2) RvB -> o1 = o2) /\ (In q (akeys RvA) -> ~ DagInv.skipped V csB q)).
    { intros q Hlt. destruct (IH q Hlt) as (H1 & H2 & _). auto. }
    assert (HIH2 : forall q, (rank q < rank k)%nat ->
              (forall o1 o2, In (q, o1) RvB -> In (q, o2) RvA -> o1 = o2) /\ (In q (akeys RvB) -> ~ DagInv.skipped V csA q)).
    { intros q Hlt. destruct (IH q Hlt) as (H1 & _ & H3). split; [|assumption]. intros o1 o2 I1 I2. symmetry. now apply H1. }
    split; [|split].
    - intros oA oB HinA HinB.
      destruct (df_io _ _ HA k oA HinA) as [[-> ->]|(Hne & nA & wA & RvA' & moreA & EA & HfA & HEFA & HoA)].
      + destruct (df_io _ _ HB kSTART oB HinB) as [[_ ->]|(Hne & _)]; [reflexivity|congruence].
      + destruct (df_io _ _ HB k oB HinB) as [[-> _]|(_ & nB & wB & RvB' & moreB & EB & HfB & HEFB & HoB)]; [congruence|].
        rewrite HfA in HfB. injection HfB as <-.
        assert (wA = wB) by (eapply EF_input_unique; [exact EA|exact EB|exact IH|exact HEFA|exact HEFB]).
        subst wB. rewrite HoA in HoB. now injection HoB.
    - exact (Hns csA csB RvA RvB HA HB HIH1).
    - exact (Hns csB csA RvB RvA HB HA HIH2).
  Qed.
End DagDen.

(* ================= Part B: every state of the run loop yields such a table ================= *)
Section DagDenLoop.
  Variable V : Type.
  Variable St : Type.
  Variable ops : vops V.
  Variable g : graph.
  Hypothesis Hdag : g_mode g = Dag.
  Hypothesis Hnk : NoDup (map n_key (g_nodes g)).
  Hypothesis Hcd : api_built g.
  Variable nout : node -> V -> tres V.
  Variable x : V.

  Variable exec : St -> path -> V -> res V * St.
  Variable sub : nat -> path -> V -> St -> outcome V * St.
  Variable sched : nat -> list key -> nat.
  Variable p : path.
  Hypothesis Hsub : forall i k v s, Forall (fun e : logentry V => fst e <> p) (outcome_log V (fst (sub i (p ++ [k]) v s))).
  (* the nodes are functions of their input: lambdas without state, deterministic nested graphs *)
  Hypothesis Hpure : forall n v s, fst (fst (run_task V St ops exec sub p n v s)) = nout n v.

  Notation chans := (chans V).
  Notation skipped := (skipped V).
  Notation LT := (LT V St ops g p).
  Notation EF := (EF V ops g).
  Notation IO := (IO V ops g nout x).
  Notation DF := (DF V ops g nout x).
  Notation step := (step V St ops exec sub sched p g).
  Notation step_outputs := (step_outputs V St ops g exec sub sched p).
  Notation reach := (reach V St ops g exec sub sched p).

  Lemma EF_mono cs cs' Rv' k w : (forall q, skipped cs q -> skipped cs' q) -> EF cs Rv' k w -> EF cs' Rv' k w.
  Proof.
    intros Hm (H1 & H2 & H3 & H4). split; [assumption|]. split; [assumption|]. split; [|assumption].
    intros q Hq. destruct (H3 q Hq); [now left|right; now apply Hm].
  Qed.

  (* what is known about a task that is about to be submitted *)
  Lemma scheduled_EF ls Rv k w :
    LT ls Rv -> alookup k (ls_next V St ls) = Some w -> k <> kSTART /\ EF (ls_chans V St ls) Rv k w.
  Proof.
    intros HLT Hk.
    assert (Hsch : scheduled V St ls k) by (unfold scheduled; eapply alookup_some_key; eassumption).
    edestruct runs_iff_triggered_LT as [Hfw _]; try eassumption.
    destruct (Hfw (or_intror Hsch)) as (c & E & S & Hall). clear Hfw.
    pose proof HLT as (X & G & HL & HE & HG & HNR & HV & Hins & HS & HK).
    pose proof HL as (HI & _ & _ & _ & _ & _ & _ & Hlog).
    assert (Hne : k <> kSTART) by (intros ->; rewrite (start_no_chan _ _ _ _ _ _ HI) in E; discriminate).
    split; [assumption|].
    split; [now apply Hins|]. split.
    - assert (HkG : In k G) by (apply (LT_G_iff V St g p ls Rv X G k HL Hlog); tauto).
      destruct (inv_B _ _ _ _ _ _ HI k HkG Hne) as (_ & _ & _ & _ & Hex & _). exact Hex.
    - split; [exact Hall|]. intros Hcp.
      eapply routed_when_run_LT; try eassumption. right. exact Hsch.
  Qed.

  Definition running_ok (cs : chans) (Rv : list (key * V)) (running : list (key * tres V)) : Prop :=
    forall k out, In (k, TOk out) running ->
      k <> kSTART /\ exists n w Rv' more, Rv = Rv' ++ more /\ find_node g k = Some n /\ EF cs Rv' k w /\ nout n w = TOk out.

  Definition LD (ls : loopstate V St) (Rv : list (key * V)) : Prop :=
    LT ls Rv /\ IO (ls_chans V St ls) Rv /\ running_ok (ls_chans V St ls) Rv (ls_running V St ls).

  Lemma task_outputs_in (c : list (key * tres V)) k out : In (k, out) (task_outputs V c) <-> In (k, TOk out) c.
  Proof.
    unfold task_outputs. rewrite in_flat_map. split.
    - intros ([k' r] & Hin & H). destruct r as [v|es]; simpl in H; [|destruct H]. destruct H as [[= <- <-]|[]]. exact Hin.
    - intros Hin. exists (k, TOk out). split; [assumption|]. simpl. now left.
  Qed.

  Lemma LD_step ls Rv results sublog s' completed running' cs' ready :
    LD ls Rv ->
    submit V St ops exec sub p g (ls_next V St ls) (ls_st V St ls) = (results, sublog, s') ->
    wait_tasks V sched g (ls_step V St ls) (ls_running V St ls ++ results) = (completed, running') ->
    calc_next V ops g (ls_chans V St ls) (task_outputs V completed) = Ok (cs', ready) ->
    (alookup kEND ready = None \/ exists q, gpred g kEND q) ->
    LD {| ls_step := S (ls_step V St ls); ls_chans := cs'; ls_next := ready; ls_running := running';
          ls_st := s'; ls_log := ls_log V St ls ++ next_entry V St p ls ++ sublog |}
       (Rv ++ task_outputs V completed).
  Proof.
    intros (HLT & HIO & HRU) Es Ew Ecn Hor.
    assert (HLT' : LT {| ls_step := S (ls_step V St ls); ls_chans := cs'; ls_next := ready; ls_running := running';
                         ls_st := s'; ls_log := ls_log V St ls ++ next_entry V St p ls ++ sublog |}
                      (Rv ++ task_outputs V completed)) by (eapply LT_step; eassumption).
    pose proof (wait_tasks_perm V g sched _ _ _ _ Ew) as Hwp.
    (* skipped is monotone over the step *)
    assert (Hm : forall q, skipped (ls_chans V St ls) q -> skipped cs' q).
    { pose proof HLT as (X & G & HL & _). pose proof HL as (HI & Ho & Hnd & _).
      destruct (step_completed_pre V St ops g exec sub sched p Hsub ls (akeys Rv) X G _ _ _ _ _ HL Es Ew) as (_ & Hpre).
      assert (Hpre' : forall k, In k (akeys (task_outputs V completed)) -> In k G /\ npred g G k).
      { intros k Hk. destruct (Hpre k Hk) as (A & B & _). auto. }
      destruct (calc_next_inv V ops g Hdag _ _ _ _ _ _ HI Ho Hnd Hpre' Ecn) as (_ & _ & _ & [_ Hmono]). exact Hmono. }
    (* a collected or still running task: where it comes from *)
    assert (Hsrc : forall k out, In (k, TOk out) (ls_running V St ls ++ results) ->
              k <> kSTART /\ exists n w Rv' more, Rv = Rv' ++ more /\ find_node g k = Some n
                                                /\ EF (ls_chans V St ls) Rv' k w /\ nout n w = TOk out).
    { intros k out Hin. apply in_app_iff in Hin. destruct Hin as [Hin|Hin]; [now apply HRU|].
      destruct (submit_results V St ops g exec sub p _ _ _ _ _ Es k (TOk out) Hin) as (v & Hv & [(n & s0 & Hf & Hr)|(_ & Hr)]); [|discriminate].
      assert (Hnd : NoDup (akeys (ls_next V St ls))).
      { pose proof HLT as (X & G & HL & _). destruct HL as (_ & _ & _ & _ & Hnd & _). now apply NoDup_app_inv in Hnd. }
      pose proof (nodup_in_alookup (ls_next V St ls) k v Hnd Hv) as Hlk.
      destruct (scheduled_EF ls Rv k v HLT Hlk) as [Hne HEF].
      split; [assumption|]. exists n, v, Rv, []. rewrite app_nil_r. rewrite Hpure in Hr. auto. }
    split; [exact HLT'|]. cbn [ls_chans ls_running]. split.
    - intros k out Hin. apply in_app_iff in Hin. destruct Hin as [Hin|Hin].
      + destruct (HIO k out Hin) as [?|(Hne & n & w & Rv' & more & -> & Hf & HEF & Ho)]; [now left|right].
        split; [assumption|]. exists n, w, Rv', (more ++ task_outputs V completed).
        split; [now rewrite app_assoc|]. split; [assumption|]. split; [eapply EF_mono; eassumption|assumption].
      + right. apply task_outputs_in in Hin.
        assert (Hin2 : In (k, TOk out) (ls_running V St ls ++ results)).
        { eapply Permutation_in; [exact Hwp|]. apply in_app_iff. now left. }
        destruct (Hsrc k out Hin2) as (Hne & n & w & Rv' & more & -> & Hf & HEF & Ho).
        split; [assumption|]. exists n, w, Rv', (more ++ task_outputs V completed).
        split; [now rewrite app_assoc|]. split; [assumption|]. split; [eapply EF_mono; eassumption|assumption].
    - intros k out Hin.
      assert (Hin2 : In (k, TOk out) (ls_running V St ls ++ results)).
      { eapply Permutation_in; [exact Hwp|]. apply in_app_iff. now right. }
      destruct (Hsrc k out Hin2) as (Hne & n & w & Rv' & more & -> & Hf & HEF & Ho).
      split; [assumption|]. exists n, w, Rv', (more ++ task_outputs V completed).
      split; [now rewrite app_assoc|]. split; [assumption|]. split; [eapply EF_mono; eassumption|assumption].
  Qed.

  Lemma reach_LD s0 ls Rv : reach x s0 ls Rv -> LD ls Rv.
  Proof.
    induction 1 as [cs0 cs1 ready Hi Hc Hend|ls Rv ls' Hr IH Hstep].
    - split; [eapply reach_LT with (exec := exec) (sub := sub) (sched := sched) (x := x) (s0 := s0); try eassumption; eapply reach_init; eassumption|].
      cbn [init_state ls_chans ls_running]. split.
      + intros k out [[= <- <-]|[]]. now left.
      + intros k out [].
    - destruct (step_continue_unfold V St ops g Hdag exec sub sched p ls ls' Hstep)
        as (results & sublog & s' & completed & running' & cs' & ready & Es & Ew & Ecn & Eend & Eso & ->).
      rewrite Eso. eapply LD_step; try eassumption. now left.
  Qed.

  Lemma done_LD s0 ls Rv v lg s' :
    (exists q, gpred g kEND q) -> reach x s0 ls Rv -> step ls = Finish (Done v lg) s' ->
    exists ls', LD ls' (Rv ++ step_outputs ls) /\ alookup kEND (ls_next V St ls') = Some v.
  Proof.
    intros Hend Hr Hstep.
    destruct (step_done_unfold V St ops g Hdag exec sub sched p ls v lg s' Hstep)
      as (results & sublog & completed & running' & cs' & ready & Es & Ew & Ecn & Eend & Eso & _).
    eexists. split; [rewrite Eso; eapply LD_step; [exact (reach_LD s0 ls Rv Hr)|exact Es|exact Ew|exact Ecn|now right]|].
    exact Eend.
  Qed.

  (* the table of a state satisfies the denotational rules *)
  Lemma LD_DF ls Rv : LD ls Rv -> DF (ls_chans V St ls) Rv.
  Proof.
    intros (HLT & HIO & _).
    pose proof HLT as (X & G & HL & HE & HG & HNR & HV & Hins & HS & HK).
    pose proof HL as (HI & Ho & Hnd & Hperm & _).
    pose proof (inv_wf _ _ _ _ _ _ HI) as (_ & Hst & Hwf).
    assert (Hkeys : NoDup (akeys Rv)) by (pose proof (gw_keys _ _ _ _ _ _ HG) as H; now rewrite app_nil_r in H).
    assert (Hns : forall k, In k (akeys Rv) -> ~ skipped (ls_chans V St ls) k).
    { intros k Hk Hs. eapply skipped_not_resolved; [exact HI|exact HG|exact Hs|exact Hk]. }
    constructor.
    - exact HIO.
    - exact Hkeys.
    - intros q out Hin. apply (gw_node _ _ _ _ _ _ HG q out). apply in_app_iff. now left.
    - exact Hns.
    - intros (c & E & _). congruence.
    - intros t (c & E & S) Hcp q Hq.
      destruct (Hwf t c E) as ((Hcc & _) & Hcw & _).
      pose proof (inv_skc _ _ _ _ _ _ HI t c E S) as Hall. rewrite (all_skipped_iff _ Hcc) in Hall.
      assert (Hent : ctrl_st V c q = Some Skipped).
      { apply Hcw in Hq. destruct (ctrl_st V c q) as [d|] eqn:Ed; [|congruence]. f_equal. eapply Hall. exact Ed. }
      exact (s_c _ _ _ _ _ HS t c q E Hent).
    - intros t (c & E & S) Hcp. exact (s_k _ _ _ _ _ HS t c E S Hcp).
    - intros t q Ht Hne Hcp Hq Hs.
      assert (HtG : In t G) by (apply (gw_inG _ _ _ _ _ _ HG); now rewrite app_nil_r).
      destruct (inv_B _ _ _ _ _ _ HI t HtG Hne) as (c & E & S & _).
      pose proof (HK t c q E Hcp Hq Hs (fun F => F)) as S'. congruence.
  Qed.

  (* every state of the loop carries a table that satisfies the denotational rules *)
  Theorem reach_DF s0 ls Rv : reach x s0 ls Rv -> DF (ls_chans V St ls) Rv.
  Proof. intros Hr. apply LD_DF. eapply reach_LD; eassumption. Qed.
End DagDenLoop.

(* ================= the outcome does not depend on the schedule =================
   Two runs of the same all-predecessor graph on the same input, with node bodies / nested graphs that are
   functions of their input (the same function [nout] in both runs), under ANY two schedules (batch or eager,
   any completion order, even different state types): every node resolved in both produced the same output,
   no node is resolved in one and skipped in the other, and if both runs finish they return the same result. *)
Section Independence.
  Variable V : Type.
  Variable ops : vops V.
  Variable g : graph.
  Hypothesis Hdag : g_mode g = Dag.
  Hypothesis Hnk : NoDup (map n_key (g_nodes g)).
  Hypothesis Hcd : api_built g.
  Variable nout : node -> V -> tres V.
  Variable x : V.
  Variable rank : key -> nat.
  Hypothesis Hrank : forall t q, gpred g t q -> (rank q < rank t)%nat.
  Variable p : path.

  Variables StA StB : Type.
  Variable execA : StA -> path -> V -> res V * StA.
  Variable subA : nat -> path -> V -> StA -> outcome V * StA.
  Variable schedA : nat -> list key -> nat.
  Variable execB : StB -> path -> V -> res V * StB.
  Variable subB : nat -> path -> V -> StB -> outcome V * StB.
  Variable schedB : nat -> list key -> nat.
  Hypothesis HsubA : forall i k v s, Forall (fun e : logentry V => fst e <> p) (outcome_log V (fst (subA i (p ++ [k]) v s))).
  Hypothesis HsubB : forall i k v s, Forall (fun e : logentry V => fst e <> p) (outcome_log V (fst (subB i (p ++ [k]) v s))).
  Hypothesis HpureA : forall n v s, fst (fst (run_task V StA ops execA subA p n v s)) = nout n v.
  Hypothesis HpureB : forall n v s, fst (fst (run_task V StB ops execB subB p n v s)) = nout n v.

  Theorem reach_agree sA sB lsA RvA lsB RvB :
    reach V StA ops g execA subA schedA p x sA lsA RvA ->
    reach V StB ops g execB subB schedB p x sB lsB RvB ->
    forall k, (forall oA oB, In (k, oA) RvA -> In (k, oB) RvB -> oA = oB)
              /\ (In k (akeys RvA) -> ~ skipped V (ls_chans V StB lsB) k)
              /\ (In k (akeys RvB) -> ~ skipped V (ls_chans V StA lsA) k).
  Proof.
    intros HA HB.
    apply (den_deterministic V ops g nout x rank Hrank).
    - eapply LD_DF; try eassumption. eapply (reach_LD V StA ops g Hdag Hnk Hcd nout x execA subA schedA p HsubA HpureA); eassumption.
    - eapply LD_DF; try eassumption. eapply (reach_LD V StB ops g Hdag Hnk Hcd nout x execB subB schedB p HsubB HpureB); eassumption.
  Qed.

  Theorem done_agree sA sB lsA RvA lsB RvB vA lgA sA' vB lgB sB' :
    (exists q, gpred g kEND q) ->
    reach V StA ops g execA subA schedA p x sA lsA RvA ->
    step V StA ops execA subA schedA p g lsA = Finish (Done vA lgA) sA' ->
    reach V StB ops g execB subB schedB p x sB lsB RvB ->
    step V StB ops execB subB schedB p g lsB = Finish (Done vB lgB) sB' ->
    vA = vB.
  Proof.
    intros Hend HA HsA HB HsB.
    destruct (done_LD V StA ops g Hdag Hnk Hcd nout x execA subA schedA p HsubA HpureA sA lsA RvA vA lgA sA' Hend HA HsA) as (lsA' & HLDA & HvA).
    destruct (done_LD V StB ops g Hdag Hnk Hcd nout x execB subB schedB p HsubB HpureB sB lsB RvB vB lgB sB' Hend HB HsB) as (lsB' & HLDB & HvB).
    assert (HDA : DF V ops g nout x (ls_chans V StA lsA') (RvA ++ step_outputs V StA ops g execA subA schedA p lsA)) by (eapply LD_DF; eassumption).
    assert (HDB : DF V ops g nout x (ls_chans V StB lsB') (RvB ++ step_outputs V StB ops g execB subB schedB p lsB)) by (eapply LD_DF; eassumption).
    destruct HLDA as (HLTA & _). destruct HLDB as (HLTB & _).
    assert (HEFA : EF V ops g (ls_chans V StA lsA') (RvA ++ step_outputs V StA ops g execA subA schedA p lsA) kEND vA) by (eapply scheduled_EF; eassumption).
    assert (HEFB : EF V ops g (ls_chans V StB lsB') (RvB ++ step_outputs V StB ops g execB subB schedB p lsB) kEND vB) by (eapply scheduled_EF; eassumption).
    eapply (EF_input_unique V ops g rank Hrank) with (moreA := []) (moreB := []);
      [symmetry; apply app_nil_r|symmetry; apply app_nil_r| |exact HEFA|exact HEFB].
    intros q _. exact (den_deterministic V ops g nout x rank Hrank _ _ _ _ HDA HDB q).
  Qed.
End Independence.

(* a checkable sufficient condition for the rank hypothesis: every successor has a larger rank *)
Definition rank_ok (g : graph) (rank : key -> nat) : bool :=
  forallb (fun n => forallb (fun t => Nat.ltb (rank (n_key n)) (rank t)) (succs n)) (g_nodes g).

Lemma rank_ok_sound g rank : rank_ok g rank = true -> forall t q, gpred g t q -> (rank q < rank t)%nat.
Proof.
  unfold rank_ok. rewrite forallb_forall. intros H t q Hp.
  assert (Hex : exists n, In n (g_nodes g) /\ n_key n = q /\ In t (succs n)).
  { destruct Hp as [Hp|Hp]; [unfold cpreds in Hp|unfold dpreds in Hp]; apply in_map_iff in Hp;
      destruct Hp as (n & Hk & Hn); apply filter_In in Hn; destruct Hn as [Hn Hc]; exists n; (split; [assumption|]); (split; [assumption|]);
      unfold succs; rewrite !in_app_iff.
    - unfold is_cpred in Hc. apply orb_true_iff in Hc. rewrite !memb_in in Hc. tauto.
    - unfold is_dpred in Hc. apply orb_true_iff in Hc. rewrite !memb_in in Hc. destruct Hc as [?|Hc]; [tauto|].
      right. right. unfold branch_ends_of in *. rewrite in_flat_map in *. destruct Hc as (b & Hb & Ht). exists b. split; [assumption|].
      simpl. destruct (b_nodata b); simpl in Ht; [destruct Ht|assumption]. }
  destruct Hex as (n & Hn & <- & Ht). specialize (H n Hn). rewrite forallb_forall in H.
  specialize (H t Ht). now apply Nat.ltb_lt in H.
Qed.
