(* Proofs/ConcatKinds.v — one key of concatMaps, generically: drop the nil values, require the
   remaining ones to be of one kind (toSliceValue), concatenate them with that kind's
   function.  If every kind's function satisfies the prefix law and the suffix law on
   homogeneous lists (and answers with a non-nil value of its own kind), so does the key.
   Used by Proofs/ConcatDeep.v. *)
From Eino Require Import Base.Util Model.Concat Proofs.Concat Proofs.ConcatRechunk Proofs.ConcatSuffix.

Section Kinds.
Context {A K : Type}.
Variable isnil : A -> bool.
Variable nilv : A.
Variable kind : A -> K.
Variable keqb : K -> K -> bool.
Variable kc : K -> list A -> res A.

Hypothesis keqb_eq : forall a b, keqb a b = true <-> a = b.
Hypothesis nilv_nil : isnil nilv = true.

Definition nn (vs : list A) : list A := filter (fun v => negb (isnil v)) vs.

Definition gkey (vs : list A) : res A :=
  match nn vs with
  | [] => Ok nilv
  | v0 :: _ =>
      if forallb (fun v => keqb (kind v) (kind v0)) (nn vs)
      then kc (kind v0) (nn vs)
      else Err E_TYPE
  end.

(* every element is a non-nil value of kind k *)
Definition allk (k : K) (l : list A) : Prop := forall x, In x l -> isnil x = false /\ kind x = k.

Hypothesis kc_res : forall k l v, l <> [] -> allk k l -> kc k l = Ok v -> isnil v = false /\ kind v = k.
Hypothesis kc_prefix : forall k xs rest, xs <> [] -> allk k xs -> allk k rest ->
  match kc k xs with
  | Ok v => req (kc k (v :: rest)) (kc k (xs ++ rest))
  | _ => fails (kc k (xs ++ rest))
  end.

Lemma nn_app a b : nn (a ++ b) = nn a ++ nn b.
Proof. apply filter_app. Qed.

Lemma nn_nonnil vs x : In x (nn vs) -> isnil x = false.
Proof. intros H. apply filter_In in H. destruct H as [_ H]. destruct (isnil x); [discriminate|reflexivity]. Qed.

Lemma nn_keep v rest : isnil v = false -> nn (v :: rest) = v :: nn rest.
Proof. intros H. unfold nn. cbn [filter]. rewrite H. reflexivity. Qed.

Lemma nn_drop v rest : isnil v = true -> nn (v :: rest) = nn rest.
Proof. intros H. unfold nn. cbn [filter]. rewrite H. reflexivity. Qed.

Lemma nn_id l : (forall x, In x l -> isnil x = false) -> nn l = l.
Proof.
  induction l as [|a l IH]; intros H; [reflexivity|].
  rewrite nn_keep by (apply H; now left). f_equal. apply IH. intros; apply H; now right.
Qed.

Lemma keqb_refl k : keqb k k = true.
Proof. apply keqb_eq. reflexivity. Qed.

(* homogeneity test against the kind k *)
Definition homb (k : K) (l : list A) : bool := forallb (fun v => keqb (kind v) k) l.

Lemma homb_allk k l : (forall x, In x l -> isnil x = false) -> homb k l = true -> allk k l.
Proof.
  intros Hn H x Hx. split; [apply Hn, Hx|].
  unfold homb in H. rewrite forallb_forall in H. apply keqb_eq, H, Hx.
Qed.

Lemma allk_homb k l : allk k l -> homb k l = true.
Proof. intros H. unfold homb. apply forallb_forall. intros x Hx. apply keqb_eq, H, Hx. Qed.

Lemma homb_app k a b : homb k (a ++ b) = homb k a && homb k b.
Proof. unfold homb. apply forallb_app. Qed.

Lemma homb_single k c : homb k [c] = keqb (kind c) k.
Proof. unfold homb. cbn. apply andb_true_r. Qed.

Lemma homb_cons k c l : homb k (c :: l) = keqb (kind c) k && homb k l.
Proof. reflexivity. Qed.

(* gkey on a list whose non-nil part is known *)
Lemma gkey_cons v0 r vs : nn vs = v0 :: r ->
  gkey vs = if homb (kind v0) (v0 :: r) then kc (kind v0) (v0 :: r) else Err E_TYPE.
Proof. intros E. unfold gkey. rewrite E. reflexivity. Qed.

Theorem gkey_prefix vs rest :
  match gkey vs with
  | Ok v => req (gkey (v :: rest)) (gkey (vs ++ rest))
  | _ => fails (gkey (vs ++ rest))
  end.
Proof.
  destruct (nn vs) as [|v0 r] eqn:E.
  - (* nothing but nil values so far *)
    unfold gkey at 1. rewrite E.
    assert (H : gkey (nilv :: rest) = gkey (vs ++ rest)).
    { unfold gkey. rewrite nn_drop by exact nilv_nil. rewrite nn_app, E. reflexivity. }
    rewrite H. apply req_refl.
  - assert (Nall : forall x, In x (v0 :: r) -> isnil x = false) by (intros x Hx; apply (nn_nonnil vs); rewrite E; exact Hx).
    set (k := kind v0).
    assert (Eapp : nn (vs ++ rest) = v0 :: (r ++ nn rest)) by (rewrite nn_app, E; reflexivity).
    rewrite (gkey_cons v0 r vs E), (gkey_cons v0 (r ++ nn rest) (vs ++ rest) Eapp). fold k.
    change (v0 :: r ++ nn rest) with ((v0 :: r) ++ nn rest).
    rewrite homb_app.
    destruct (homb k (v0 :: r)) eqn:H1; cbn [andb]; [|reflexivity].
    pose proof (homb_allk k (v0 :: r) Nall H1) as A1.
    destruct (homb k (nn rest)) eqn:H2.
    + pose proof (homb_allk k (nn rest) (nn_nonnil rest) H2) as A2.
      pose proof (kc_prefix k (v0 :: r) (nn rest) ltac:(discriminate) A1 A2) as P.
      destruct (kc k (v0 :: r)) as [c| |] eqn:Ec; [|exact P|exact P].
      destruct (kc_res k (v0 :: r) c ltac:(discriminate) A1 Ec) as [Nc Kc].
      assert (Ec' : nn (c :: rest) = c :: nn rest) by (apply nn_keep, Nc).
      rewrite (gkey_cons c (nn rest) (c :: rest) Ec'). rewrite Kc.
      rewrite homb_cons, Kc, keqb_refl, H2. cbn [andb]. exact P.
    + destruct (kc k (v0 :: r)) as [c| |] eqn:Ec; [|reflexivity|reflexivity].
      destruct (kc_res k (v0 :: r) c ltac:(discriminate) A1 Ec) as [Nc Kc].
      assert (Ec' : nn (c :: rest) = c :: nn rest) by (apply nn_keep, Nc).
      rewrite (gkey_cons c (nn rest) (c :: rest) Ec'). rewrite Kc.
      rewrite homb_cons, Kc, keqb_refl, H2. cbn [andb]. reflexivity.
Qed.

Hypothesis kc_suffix : forall k xs ys, xs <> [] -> ys <> [] -> allk k xs -> allk k ys ->
  match kc k ys with
  | Ok v => req (kc k (xs ++ [v])) (kc k (xs ++ ys))
  | _ => fails (kc k (xs ++ ys))
  end.

Lemma homb_head_kind k v0 r : homb k (v0 :: r) = true -> kind v0 = k.
Proof. rewrite homb_cons. intros H. apply andb_prop in H. apply keqb_eq, H. Qed.

Theorem gkey_suffix vs rest :
  match gkey rest with
  | Ok v => req (gkey (vs ++ [v])) (gkey (vs ++ rest))
  | _ => fails (gkey (vs ++ rest))
  end.
Proof.
  destruct (nn rest) as [|r0 r] eqn:Er.
  - unfold gkey at 1. rewrite Er.
    assert (H : gkey (vs ++ [nilv]) = gkey (vs ++ rest)).
    { unfold gkey. rewrite !nn_app, Er. rewrite nn_drop by exact nilv_nil. reflexivity. }
    rewrite H. apply req_refl.
  - assert (Nr : forall x, In x (r0 :: r) -> isnil x = false) by (intros x Hx; apply (nn_nonnil rest); rewrite Er; exact Hx).
    destruct (nn vs) as [|v0 vr] eqn:Ev.
    + (* the key does not occur before the suffix: idempotence, from the prefix law *)
      pose proof (gkey_prefix rest []) as P. rewrite app_nil_r in P.
      assert (E1 : forall zs, gkey (vs ++ zs) = gkey zs).
      { intros zs. unfold gkey. rewrite nn_app, Ev. reflexivity. }
      rewrite (E1 rest). destruct (gkey rest) as [c| |]; [|reflexivity|reflexivity].
      rewrite (E1 [c]). exact P.
    + assert (Nv : forall x, In x (v0 :: vr) -> isnil x = false) by (intros x Hx; apply (nn_nonnil vs); rewrite Ev; exact Hx).
      set (k := kind v0).
      assert (Eapp : nn (vs ++ rest) = v0 :: (vr ++ r0 :: r)) by (rewrite nn_app, Ev, Er; reflexivity).
      rewrite (gkey_cons r0 r rest Er), (gkey_cons v0 (vr ++ r0 :: r) (vs ++ rest) Eapp). fold k.
      change (v0 :: vr ++ r0 :: r) with ((v0 :: vr) ++ r0 :: r).
      rewrite (homb_app k (v0 :: vr) (r0 :: r)).
      destruct (homb (kind r0) (r0 :: r)) eqn:Hr.
      * pose proof (homb_allk (kind r0) (r0 :: r) Nr Hr) as Ar.
        destruct (kc (kind r0) (r0 :: r)) as [c| |] eqn:Ec.
        -- destruct (kc_res (kind r0) (r0 :: r) c ltac:(discriminate) Ar Ec) as [Nc Kc].
           assert (Ec' : nn (vs ++ [c]) = v0 :: (vr ++ [c])).
           { rewrite nn_app, Ev. rewrite (nn_keep c [] Nc). reflexivity. }
           rewrite (gkey_cons v0 (vr ++ [c]) (vs ++ [c]) Ec'). fold k.
           change (v0 :: vr ++ [c]) with ((v0 :: vr) ++ [c]).
           rewrite (homb_app k (v0 :: vr) [c]).
           destruct (homb k (v0 :: vr)) eqn:H1; cbn [andb]; [|apply req_refl].
           pose proof (homb_allk k (v0 :: vr) Nv H1) as A1.
           destruct (keqb (kind r0) k) eqn:Ek.
           ++ apply keqb_eq in Ek.
              assert (Hc : homb k [c] = true) by (rewrite homb_single, Kc, Ek; apply keqb_refl).
              rewrite Hc. assert (Hrk : homb k (r0 :: r) = true) by (rewrite <- Ek; exact Hr). rewrite Hrk.
              rewrite Ek in Ar, Ec.
              pose proof (kc_suffix k (v0 :: vr) (r0 :: r) ltac:(discriminate) ltac:(discriminate) A1 Ar) as S.
              rewrite Ec in S. exact S.
           ++ assert (Hc : homb k [c] = false) by (rewrite homb_single, Kc; exact Ek).
              rewrite Hc.
              assert (Hrk : homb k (r0 :: r) = false) by (rewrite homb_cons, Ek; reflexivity).
              rewrite Hrk. apply req_refl.
        -- destruct (homb k (v0 :: vr)) eqn:H1; cbn [andb]; [|reflexivity].
           destruct (homb k (r0 :: r)) eqn:Hrk; [|reflexivity].
           pose proof (homb_head_kind k r0 r Hrk) as Ek.
           pose proof (kc_suffix k (v0 :: vr) (r0 :: r) ltac:(discriminate) ltac:(discriminate)
                         (homb_allk k (v0 :: vr) Nv H1) (homb_allk k (r0 :: r) Nr Hrk)) as S.
           rewrite Ek in Ec. rewrite Ec in S. exact S.
        -- destruct (homb k (v0 :: vr)) eqn:H1; cbn [andb]; [|reflexivity].
           destruct (homb k (r0 :: r)) eqn:Hrk; [|reflexivity].
           pose proof (homb_head_kind k r0 r Hrk) as Ek.
           pose proof (kc_suffix k (v0 :: vr) (r0 :: r) ltac:(discriminate) ltac:(discriminate)
                         (homb_allk k (v0 :: vr) Nv H1) (homb_allk k (r0 :: r) Nr Hrk)) as S.
           rewrite Ek in Ec. rewrite Ec in S. exact S.
      * (* the suffix is not homogeneous: neither is the whole *)
        destruct (homb k (v0 :: vr)); cbn [andb]; [|reflexivity].
        destruct (homb k (r0 :: r)) eqn:Hrk; [|reflexivity].
        pose proof (homb_head_kind k r0 r Hrk) as Ek. rewrite Ek in Hr. congruence.
Qed.

End Kinds.
