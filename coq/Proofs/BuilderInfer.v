(* Proofs/BuilderInfer.v — property C20: the inference of pass-through types
   (graph.go updateToValidateMap) does not depend on the order in which Go's map
   iteration meets the pending edges.

   updateToValidateMap repeats passes over g.toValidateMap (a map from start node to a
   list of pending edges) until a pass changes nothing; an entry is resolved — types
   inferred, entry removed — as soon as one of its two ends has a type.  Here:
     * [ireach]: ANY sequence of resolutions of resolvable pending entries;
       [istable]: no pending entry is resolvable (the loop has come to rest);
     * [Tn g0]: the order-free closure "node k gets a type", defined from the initial
       state by three rules;
     * [infer_any_order]: every run that has come to rest ends with exactly the closure's
       types and with the unresolvable entries pending — so two runs agree
       ([infer_order_independent]);
     * the model's [update_pending] (insertion order, |pending|+1 passes) is such a run. *)
From Eino Require Import Base.Util Model.Builder Proofs.Builder Proofs.BuilderReject Proofs.BuilderDag Proofs.BuilderSound.
From Coq Require Import Permutation.
Local Open Scope string_scope.
Local Open Scope list_scope.

Definition resolvable (g : gstate) (p : pend) : bool :=
  let '(s, e, _) := p in out_typed g s || in_typed g e.

Definition resolve1 (g : gstate) (p : pend) : gstate :=
  let '(s, e, fs) := p in
  let g1 := if out_typed g s && negb (in_typed g e) then set_typed e g
            else if negb (out_typed g s) then set_typed s g
            else g in
  match fs with
  | [] => g1
  | _ => set_fm (match alist_get e (g_fm g1) with
                 | Some old => alist_set e (old ++ fs) (g_fm g1)
                 | None => g_fm g1 ++ [(e, fs)]
                 end)
           (set_h_edges (g_h_edges g1 ++ [(s, e)]) g1)
  end.

Lemma resolve_pass_cons : forall g p rest,
  resolve_pass g (p :: rest) =
  if resolvable g p then resolve_pass (resolve1 g p) rest
  else let '(g', kept) := resolve_pass g rest in (g', p :: kept).
Proof.
  intros g [[s e] fs] rest. simpl. unfold resolvable.
  destruct (out_typed g s), (in_typed g e); reflexivity.
Qed.

(* ------------------------------------------------------------------ flags *)
Lemma alist_get_set_typed : forall x g k,
  alist_get k (g_nodes (set_typed x g)) =
  option_map (fun n => if String.eqb k x then mkNode (n_kind n) true true (n_state n) else n) (alist_get k (g_nodes g)).
Proof.
  intros x g k. unfold set_typed. simpl. induction (g_nodes g) as [|[k0 n0] l IH]; simpl; [reflexivity|].
  destruct (String.eqb k0 x) eqn:E0; simpl; destruct (String.eqb k k0) eqn:E1; simpl.
  - apply String.eqb_eq in E1; subst k0. rewrite E0. reflexivity.
  - assumption.
  - apply String.eqb_eq in E1; subst k0. rewrite E0. reflexivity.
  - assumption.
Qed.

Lemma in_typed_set_typed : forall x g k,
  in_typed (set_typed x g) k = in_typed g k || (String.eqb k x && has_node g k).
Proof.
  intros x g k. unfold in_typed, has_node. destruct (is_se k); [reflexivity|].
  rewrite alist_get_set_typed. destruct (alist_get k (g_nodes g)) as [n|]; simpl.
  - destruct (String.eqb k x); simpl; [rewrite orb_true_r|rewrite orb_false_r]; reflexivity.
  - rewrite andb_false_r. reflexivity.
Qed.

Lemma out_typed_set_typed : forall x g k,
  out_typed (set_typed x g) k = out_typed g k || (String.eqb k x && has_node g k).
Proof.
  intros x g k. unfold out_typed, has_node. destruct (is_se k); [reflexivity|].
  rewrite alist_get_set_typed. destruct (alist_get k (g_nodes g)) as [n|]; simpl.
  - destruct (String.eqb k x); simpl; [rewrite orb_true_r|rewrite orb_false_r]; reflexivity.
  - rewrite andb_false_r. reflexivity.
Qed.

Lemma has_node_se_typed : forall g k, is_se k = true -> in_typed g k = true /\ out_typed g k = true.
Proof. intros g k H. unfold in_typed, out_typed. rewrite H. auto. Qed.

(* the node table of [resolve1 g p] is that of [g] with at most one [set_typed] *)
Definition typed_step (g : gstate) (p : pend) : gstate :=
  let '(s, e, _) := p in
  if out_typed g s && negb (in_typed g e) then set_typed e g
  else if negb (out_typed g s) then set_typed s g
  else g.

Lemma resolve1_nodes : forall g p, g_nodes (resolve1 g p) = g_nodes (typed_step g p).
Proof. intros g [[s e] fs]. unfold resolve1, typed_step. destruct fs; reflexivity. Qed.

Lemma in_typed_nodes : forall g g' k, g_nodes g' = g_nodes g -> in_typed g' k = in_typed g k.
Proof. intros g g' k H. unfold in_typed. rewrite H. reflexivity. Qed.
Lemma out_typed_nodes : forall g g' k, g_nodes g' = g_nodes g -> out_typed g' k = out_typed g k.
Proof. intros g g' k H. unfold out_typed. rewrite H. reflexivity. Qed.
Lemma has_node_nodes : forall g g' k, g_nodes g' = g_nodes g -> has_node g' k = has_node g k.
Proof. intros g g' k H. unfold has_node. rewrite H. reflexivity. Qed.

Lemma has_node_typed_step : forall g p k, has_node (typed_step g p) k = has_node g k.
Proof.
  intros g [[s e] fs] k. unfold typed_step. repeat dif; try apply has_node_set_typed; reflexivity.
Qed.

Lemma resolve1_pending : forall g p, g_pending (resolve1 g p) = g_pending g.
Proof.
  intros g [[s e] fs]. unfold resolve1.
  assert (H : forall x, g_pending (set_typed x g) = g_pending g) by reflexivity.
  destruct fs; simpl; repeat dif; reflexivity.
Qed.

Lemma resolve1_set_pending : forall x g p, resolve1 (set_pending x g) p = set_pending x (resolve1 g p).
Proof.
  intros x g [[s e] fs]. unfold resolve1.
  change (out_typed (set_pending x g) s) with (out_typed g s).
  change (in_typed (set_pending x g) e) with (in_typed g e).
  destruct (out_typed g s), (in_typed g e); simpl; destruct fs; reflexivity.
Qed.

Lemma resolvable_set_pending : forall x g p, resolvable (set_pending x g) p = resolvable g p.
Proof. intros x g [[s e] fs]. reflexivity. Qed.

(* ------------------------------------------------------------------ runs in any order *)
Inductive ireach : gstate -> gstate -> Prop :=
| ir_refl : forall g, ireach g g
| ir_step : forall g l1 p l2 g',
    g_pending g = l1 ++ p :: l2 -> resolvable g p = true ->
    ireach (set_pending (l1 ++ l2) (resolve1 g p)) g' -> ireach g g'.

Lemma ireach_trans : forall a b c, ireach a b -> ireach b c -> ireach a c.
Proof. intros a b c H. induction H; intros; [assumption|]. eapply ir_step; eauto. Qed.

Definition istable (g : gstate) : Prop := forall p, In p (g_pending g) -> resolvable g p = false.

(* ------------------------------------------------------------------ the order-free closure *)
Section Closure.
  Variable g0 : gstate.

  (* node k is given a type *)
  Inductive Tn : string -> Prop :=
  | T_base : forall k, in_typed g0 k = true -> Tn k
  | T_fwd_t : forall s e fs, In (s, e, fs) (g_pending g0) -> Tn s -> Tn e
  | T_fwd_o : forall s e fs, In (s, e, fs) (g_pending g0) -> out_typed g0 s = true -> Tn e
  | T_bwd : forall s e fs, In (s, e, fs) (g_pending g0) -> Tn e -> out_typed g0 s = false -> Tn s.

  (* every node with an input type has an output type; every end of a pending entry exists *)
  Definition io_ok : Prop := forall k, in_typed g0 k = true -> out_typed g0 k = true.
  Definition ends_ok : Prop := forall s e fs, In (s, e, fs) (g_pending g0) ->
    (is_se s = true \/ has_node g0 s = true) /\ (is_se e = true \/ has_node g0 e = true).

  Definition done_ok (g : gstate) (p : pend) : Prop :=
    let '(s, e, _) := p in
    out_typed g s = true /\ in_typed g e = true /\ (out_typed g0 s = false -> in_typed g s = true).

  Record Jinv (g : gstate) (del : list pend) : Prop := {
    j_perm : Permutation (g_pending g0) (g_pending g ++ del);
    j_has : forall k, has_node g k = has_node g0 k;
    j_mono_in : forall k, in_typed g0 k = true -> in_typed g k = true;
    j_mono_out : forall k, out_typed g0 k = true -> out_typed g k = true;
    j_io : forall k, in_typed g k = true -> out_typed g k = true;
    j_out : forall k, out_typed g k = true -> out_typed g0 k = true \/ in_typed g k = true;
    j_sound : forall k, in_typed g k = true -> Tn k;
    j_done : forall p, In p del -> done_ok g p
  }.

  Hypothesis IO : io_ok.
  Hypothesis ENDS : ends_ok.

  Lemma jinv_init : Jinv g0 [].
  Proof.
    split; auto.
    - rewrite app_nil_r. apply Permutation_refl.
    - intros k H. apply T_base; assumption.
    - intros p [].
  Qed.

  Lemma in_pending0 : forall g del p, Jinv g del -> In p (g_pending g) -> In p (g_pending g0).
  Proof.
    intros g del p J H. apply (Permutation_in p (Permutation_sym (j_perm _ _ J))). apply in_or_app. left; assumption.
  Qed.

  Lemma jinv_step : forall g del l1 p l2,
    Jinv g del -> g_pending g = l1 ++ p :: l2 -> resolvable g p = true ->
    Jinv (set_pending (l1 ++ l2) (resolve1 g p)) (p :: del).
  Proof.
    intros g del l1 p l2 J E R.
    assert (P0 : In p (g_pending g0)).
    { eapply in_pending0; [eassumption|]. rewrite E. apply in_or_app. right. left. reflexivity. }
    set (g' := set_pending (l1 ++ l2) (resolve1 g p)).
    assert (N : g_nodes g' = g_nodes (typed_step g p)) by (unfold g'; simpl; apply resolve1_nodes).
    destruct p as [[s e] fs].
    destruct (ENDS s e fs P0) as [ES EE].
    assert (HS : is_se s = true \/ has_node g s = true) by (rewrite (j_has _ _ J); assumption).
    assert (HE : is_se e = true \/ has_node g e = true) by (rewrite (j_has _ _ J); assumption).
    (* flags after the step *)
    assert (FI : forall k, in_typed g' k = in_typed (typed_step g (s, e, fs)) k) by (intros; apply in_typed_nodes; assumption).
    assert (FO : forall k, out_typed g' k = out_typed (typed_step g (s, e, fs)) k) by (intros; apply out_typed_nodes; assumption).
    unfold resolvable in R. unfold typed_step in FI, FO.
    destruct J as [J1 J2 J3 J4 J5 J6 J7 J8].
    (* the three cases of the code *)
    destruct (out_typed g s) eqn:OS; destruct (in_typed g e) eqn:IE; simpl in R, FI, FO; try discriminate.
    - (* both known: nothing changes *)
      split.
      + unfold g'. simpl. rewrite E in J1. eapply Permutation_trans; [exact J1|].
        rewrite <- !app_assoc. simpl. apply Permutation_app_head.
        apply Permutation_middle.
      + intros k. rewrite (has_node_nodes _ _ k N). rewrite (has_node_typed_step g (s, e, fs) k). apply J2.
      + intros k H. rewrite FI. auto.
      + intros k H. rewrite FO. auto.
      + intros k. rewrite FI, FO. auto.
      + intros k. rewrite FI, FO. auto.
      + intros k. rewrite FI. auto.
      + intros q [Q|Q].
        * subst q. simpl. rewrite FO, FI, FI. split; [assumption|]. split; [assumption|].
          intros O0. destruct (J6 s OS) as [X|X]; [congruence|assumption].
        * specialize (J8 q Q). destruct q as [[qs qe] qf]. simpl in *. rewrite FO, FI, FI. assumption.
    - (* the end node takes the start node's type *)
      assert (NE : has_node g e = true).
      { destruct HE as [HE|HE]; [|assumption]. destruct (has_node_se_typed g e HE). congruence. }
      assert (FI' : forall k, in_typed g' k = in_typed g k || String.eqb k e).
      { intros k. rewrite FI, in_typed_set_typed. destruct (String.eqb k e) eqn:X; [|rewrite andb_false_l; reflexivity].
        apply String.eqb_eq in X; subst k. rewrite NE. reflexivity. }
      assert (FO' : forall k, out_typed g' k = out_typed g k || String.eqb k e).
      { intros k. rewrite FO, out_typed_set_typed. destruct (String.eqb k e) eqn:X; [|rewrite andb_false_l; reflexivity].
        apply String.eqb_eq in X; subst k. rewrite NE. reflexivity. }
      assert (TE : Tn e).
      { destruct (J6 s OS) as [X|X]; [eapply T_fwd_o; eassumption|eapply T_fwd_t; [eassumption|apply J7; assumption]]. }
      split.
      + unfold g'. simpl. rewrite E in J1. eapply Permutation_trans; [exact J1|].
        rewrite <- !app_assoc. simpl. apply Permutation_app_head.
        apply Permutation_middle.
      + intros k. rewrite (has_node_nodes _ _ k N). rewrite (has_node_typed_step g (s, e, fs) k). apply J2.
      + intros k H. rewrite FI'. rewrite (J3 k H). reflexivity.
      + intros k H. rewrite FO'. rewrite (J4 k H). reflexivity.
      + intros k. rewrite FI', FO'. intros H. apply orb_true_iff in H. destruct H as [H|H]; [rewrite (J5 k H)|rewrite H, orb_true_r]; reflexivity.
      + intros k. rewrite FI', FO'. intros H. apply orb_true_iff in H. destruct H as [H|H].
        * destruct (J6 k H) as [X|X]; [left; assumption|right; rewrite X; reflexivity].
        * right. rewrite H. apply orb_true_r.
      + intros k. rewrite FI'. intros H. apply orb_true_iff in H. destruct H as [H|H]; [auto|].
        apply String.eqb_eq in H; subst k. assumption.
      + intros q [Q|Q].
        * subst q. simpl. rewrite FO', !FI'. rewrite OS, String.eqb_refl, orb_true_r. split; [reflexivity|]. split; [reflexivity|].
          intros O0. destruct (J6 s OS) as [X|X]; [congruence|rewrite X; reflexivity].
        * specialize (J8 q Q). destruct q as [[qs qe] qf]. simpl in *. rewrite FO', !FI'.
          destruct J8 as [A [B C]]. rewrite A, B. split; [reflexivity|]. split; [reflexivity|].
          intros O0. rewrite (C O0). reflexivity.
    - (* the start node takes the end node's type *)
      assert (NS : has_node g s = true).
      { destruct HS as [HS|HS]; [|assumption]. destruct (has_node_se_typed g s HS). congruence. }
      assert (FI' : forall k, in_typed g' k = in_typed g k || String.eqb k s).
      { intros k. rewrite FI, in_typed_set_typed. destruct (String.eqb k s) eqn:X; [|rewrite andb_false_l; reflexivity].
        apply String.eqb_eq in X; subst k. rewrite NS. reflexivity. }
      assert (FO' : forall k, out_typed g' k = out_typed g k || String.eqb k s).
      { intros k. rewrite FO, out_typed_set_typed. destruct (String.eqb k s) eqn:X; [|rewrite andb_false_l; reflexivity].
        apply String.eqb_eq in X; subst k. rewrite NS. reflexivity. }
      assert (O0 : out_typed g0 s = false).
      { destruct (out_typed g0 s) eqn:X; [|reflexivity]. rewrite (J4 s X) in OS. discriminate. }
      assert (TS : Tn s) by (eapply T_bwd; [eassumption|apply J7; assumption|assumption]).
      split.
      + unfold g'. simpl. rewrite E in J1. eapply Permutation_trans; [exact J1|].
        rewrite <- !app_assoc. simpl. apply Permutation_app_head.
        apply Permutation_middle.
      + intros k. rewrite (has_node_nodes _ _ k N). rewrite (has_node_typed_step g (s, e, fs) k). apply J2.
      + intros k H. rewrite FI'. rewrite (J3 k H). reflexivity.
      + intros k H. rewrite FO'. rewrite (J4 k H). reflexivity.
      + intros k. rewrite FI', FO'. intros H. apply orb_true_iff in H. destruct H as [H|H]; [rewrite (J5 k H)|rewrite H, orb_true_r]; reflexivity.
      + intros k. rewrite FI', FO'. intros H. apply orb_true_iff in H. destruct H as [H|H].
        * destruct (J6 k H) as [X|X]; [left; assumption|right; rewrite X; reflexivity].
        * right. rewrite H. apply orb_true_r.
      + intros k. rewrite FI'. intros H. apply orb_true_iff in H. destruct H as [H|H]; [auto|].
        apply String.eqb_eq in H; subst k. assumption.
      + intros q [Q|Q].
        * subst q. simpl. rewrite FO', !FI'. rewrite IE, String.eqb_refl, !orb_true_r. auto.
        * specialize (J8 q Q). destruct q as [[qs qe] qf]. simpl in *. rewrite FO', !FI'.
          destruct J8 as [A [B C]]. rewrite A, B. split; [reflexivity|]. split; [reflexivity|].
          intros X. rewrite (C X). reflexivity.
  Qed.

  Lemma ireach_jinv : forall g g', ireach g g' -> forall del, Jinv g del -> exists del', Jinv g' del'.
  Proof.
    intros g g' H. induction H as [g|g l1 p l2 g' E R _ IH]; intros del J; [eauto|].
    eapply IH. eapply jinv_step; eassumption.
  Qed.

  (* ------------------------------------------------------------------ a run at rest = the closure *)
  Lemma stable_complete : forall g del, Jinv g del -> istable g -> forall k, Tn k -> in_typed g k = true.
  Proof.
    intros g del J S k T. induction T as [k H|s e fs P _ IH|s e fs P O|s e fs P _ IH O].
    - apply (j_mono_in _ _ J); assumption.
    - (* the entry cannot still be pending: its start node has a type *)
      apply (Permutation_in _ (j_perm _ _ J)) in P. apply in_app_or in P. destruct P as [P|P].
      + specialize (S _ P). simpl in S. rewrite (j_io _ _ J s IH) in S. discriminate.
      + apply (j_done _ _ J) in P. simpl in P. tauto.
    - apply (Permutation_in _ (j_perm _ _ J)) in P. apply in_app_or in P. destruct P as [P|P].
      + specialize (S _ P). simpl in S. rewrite (j_mono_out _ _ J s O) in S. discriminate.
      + apply (j_done _ _ J) in P. simpl in P. tauto.
    - apply (Permutation_in _ (j_perm _ _ J)) in P. apply in_app_or in P. destruct P as [P|P].
      + specialize (S _ P). simpl in S. rewrite IH, orb_true_r in S. discriminate.
      + apply (j_done _ _ J) in P. simpl in P. tauto.
  Qed.

  Lemma Permutation_filter' : forall {A} (f : A -> bool) l l', Permutation l l' -> Permutation (filter f l) (filter f l').
  Proof.
    intros A f l l' H. induction H; simpl.
    - constructor.
    - destruct (f x); [constructor|]; assumption.
    - destruct (f x), (f y); try apply Permutation_refl. apply perm_swap.
    - eapply Permutation_trans; eassumption.
  Qed.

  Lemma filter_all : forall {A} (f : A -> bool) l, (forall x, In x l -> f x = true) -> filter f l = l.
  Proof.
    intros A f l H. induction l as [|x l IH]; simpl; [reflexivity|].
    rewrite (H x (or_introl eq_refl)). f_equal. apply IH. intros y Y. apply H. right; assumption.
  Qed.

  Lemma filter_none : forall {A} (f : A -> bool) l, (forall x, In x l -> f x = false) -> filter f l = [].
  Proof.
    intros A f l H. induction l as [|x l IH]; simpl; [reflexivity|].
    rewrite (H x (or_introl eq_refl)). apply IH. intros y Y. apply H. right; assumption.
  Qed.

  Theorem infer_any_order : forall g,
    ireach g0 g -> istable g ->
    (forall k, in_typed g k = true <-> Tn k) /\
    (forall k, out_typed g k = true <-> (Tn k \/ out_typed g0 k = true)) /\
    Permutation (g_pending g) (filter (fun p => negb (resolvable g p)) (g_pending g0)).
  Proof.
    intros g R S. destruct (ireach_jinv _ _ R [] jinv_init) as [del J].
    assert (A : forall k, in_typed g k = true <-> Tn k).
    { intros k. split; [apply (j_sound _ _ J)|eapply stable_complete; eassumption]. }
    split; [exact A|]. split.
    - intros k. split.
      + intros H. destruct (j_out _ _ J k H) as [X|X]; [right; assumption|left; apply A; assumption].
      + intros [H|H]; [apply (j_io _ _ J); apply A; assumption|apply (j_mono_out _ _ J); assumption].
    - eapply Permutation_trans; [|apply Permutation_filter'; apply Permutation_sym; apply (j_perm _ _ J)].
      rewrite filter_app.
      rewrite (filter_all _ (g_pending g)) by (intros p P; rewrite (S p P); reflexivity).
      rewrite (filter_none _ del).
      + rewrite app_nil_r. apply Permutation_refl.
      + intros [[s e] fs] P. apply (j_done _ _ J) in P. simpl in P. destruct P as [P _]. simpl. rewrite P. reflexivity.
  Qed.
End Closure.

(* ------------------------------------------------------------------ two runs agree *)
Lemma bool_eq_iff : forall a b : bool, (a = true <-> b = true) -> a = b.
Proof.
  intros a b [H1 H2]. destruct a, b; try reflexivity.
  - symmetry. apply H1. reflexivity.
  - apply H2. reflexivity.
Qed.

Theorem infer_order_independent : forall g0 g1 g2,
  io_ok g0 -> ends_ok g0 ->
  ireach g0 g1 -> istable g1 -> ireach g0 g2 -> istable g2 ->
  (forall k, in_typed g1 k = in_typed g2 k /\ out_typed g1 k = out_typed g2 k) /\
  Permutation (g_pending g1) (g_pending g2).
Proof.
  intros g0 g1 g2 IO EN R1 S1 R2 S2.
  destruct (infer_any_order g0 IO EN g1 R1 S1) as [A1 [B1 C1]].
  destruct (infer_any_order g0 IO EN g2 R2 S2) as [A2 [B2 C2]].
  assert (F : forall k, in_typed g1 k = in_typed g2 k /\ out_typed g1 k = out_typed g2 k).
  { intros k. split; apply bool_eq_iff; [rewrite A1, A2|rewrite B1, B2]; reflexivity. }
  split; [exact F|].
  eapply Permutation_trans; [exact C1|]. eapply Permutation_trans; [|apply Permutation_sym; exact C2].
  replace (filter (fun p => negb (resolvable g1 p)) (g_pending g0))
     with (filter (fun p => negb (resolvable g2 p)) (g_pending g0)); [apply Permutation_refl|].
  apply filter_ext. intros [[s e] fs]. simpl. destruct (F s) as [_ Fs], (F e) as [Fe _]. rewrite Fs, Fe. reflexivity.
Qed.

(* ------------------------------------------------------------------ the model's run *)
Lemma set_pending_twice : forall x y g, set_pending x (set_pending y g) = set_pending x g.
Proof. intros x y []; reflexivity. Qed.

Lemma set_pending_self : forall g, set_pending (g_pending g) g = g.
Proof. intros []; reflexivity. Qed.

Lemma pass_sim : forall todo g pre g' kept,
  resolve_pass g todo = (g', kept) ->
  ireach (set_pending (pre ++ todo) g) (set_pending (pre ++ kept) g').
Proof.
  induction todo as [|p rest IH]; intros g pre g' kept H.
  - simpl in H. inversion H; subst. apply ir_refl.
  - rewrite resolve_pass_cons in H. destruct (resolvable g p) eqn:R.
    + eapply ir_step with (l1 := pre) (l2 := rest).
      * reflexivity.
      * rewrite resolvable_set_pending. assumption.
      * rewrite resolve1_set_pending, set_pending_twice. apply IH. assumption.
    + destruct (resolve_pass g rest) as [g1 kept1] eqn:E. inversion H; subst.
      specialize (IH g (pre ++ [p]) g' kept1 E). rewrite <- !app_assoc in IH. exact IH.
Qed.

Lemma resolve_once_reach : forall g, ireach g (resolve_once g).
Proof.
  intros g. unfold resolve_once.
  destruct (resolve_pass (set_pending [] g) (g_pending g)) as [g' kept] eqn:E.
  pose proof (pass_sim _ _ [] _ _ E) as H. simpl in H.
  rewrite set_pending_twice, set_pending_self in H. exact H.
Qed.

Lemma iter_once_reach : forall n g, ireach g (Nat.iter n resolve_once g).
Proof.
  induction n as [|n IH]; intros g; simpl; [apply ir_refl|].
  eapply ireach_trans; [apply IH|apply resolve_once_reach].
Qed.

(* a pass keeps everything exactly when nothing was resolvable *)
Lemma pass_shrinks : forall todo g g' kept,
  resolve_pass g todo = (g', kept) ->
  (List.length kept <= List.length todo)%nat /\
  (List.length kept = List.length todo -> g' = g /\ kept = todo /\ forall p, In p todo -> resolvable g p = false).
Proof.
  induction todo as [|p rest IH]; intros g g' kept H.
  - simpl in H. inversion H; subst. split; [lia|]. intros _. split; [reflexivity|]. split; [reflexivity|]. intros p [].
  - rewrite resolve_pass_cons in H. destruct (resolvable g p) eqn:R.
    + destruct (IH _ _ _ H) as [L _]. simpl. split; [lia|]. intros X. lia.
    + destruct (resolve_pass g rest) as [g1 kept1] eqn:E. inversion H; subst.
      destruct (IH _ _ _ E) as [L Q]. simpl. split; [lia|]. intros X.
      destruct Q as [Q1 [Q2 Q3]]; [lia|]. subst. split; [reflexivity|]. split; [reflexivity|].
      intros q [Y|Y]; [subst; assumption|auto].
Qed.

Lemma once_shrinks : forall g,
  (List.length (g_pending (resolve_once g)) <= List.length (g_pending g))%nat /\
  (List.length (g_pending (resolve_once g)) = List.length (g_pending g) -> resolve_once g = g /\ istable g).
Proof.
  intros g. unfold resolve_once.
  destruct (resolve_pass (set_pending [] g) (g_pending g)) as [g' kept] eqn:E.
  destruct (pass_shrinks _ _ _ _ E) as [L Q]. simpl. split; [assumption|]. intros X.
  destruct (Q X) as [Q1 [Q2 Q3]]. subst. split.
  - rewrite set_pending_twice. apply set_pending_self.
  - intros p P. rewrite <- (resolvable_set_pending [] g p). apply Q3. assumption.
Qed.

Lemma iter_fixed : forall n g, resolve_once g = g -> Nat.iter n resolve_once g = g.
Proof. induction n as [|n IH]; intros g H; simpl; [reflexivity|]. rewrite IH by assumption. assumption. Qed.

Lemma iter_once_settles : forall j g, (List.length (g_pending g) <= j)%nat -> istable (Nat.iter j resolve_once g).
Proof.
  induction j as [|j IH]; intros g L.
  - simpl. intros p P. destruct (g_pending g); [contradiction|simpl in L; lia].
  - rewrite iter_succ_r'. destruct (once_shrinks g) as [L1 Q].
    destruct (Nat.eq_dec (List.length (g_pending (resolve_once g))) (List.length (g_pending g))) as [X|X].
    + destruct (Q X) as [Q1 Q2]. rewrite Q1. rewrite iter_fixed by assumption. assumption.
    + apply IH. lia.
Qed.

Theorem update_pending_is_a_run : forall g, ireach g (update_pending g) /\ istable (update_pending g).
Proof.
  intros g. unfold update_pending. split; [apply iter_once_reach|apply iter_once_settles; lia].
Qed.

(* a run keeps the two hypotheses *)
Lemma ireach_keeps_ok : forall g g', io_ok g -> ends_ok g -> ireach g g' -> io_ok g' /\ ends_ok g'.
Proof.
  intros g g' IO EN R. destruct (ireach_jinv g EN _ _ R [] (jinv_init g IO)) as [del J]. split.
  - intros k. apply (j_io _ _ _ J).
  - intros s e fs P. rewrite !(j_has _ _ _ J).
    apply EN with (fs := fs). apply (Permutation_in _ (Permutation_sym (j_perm _ _ _ J))). apply in_or_app. left; assumption.
Qed.

(* ------------------------------------------------------------------ the hypotheses hold wherever the code infers *)
Definition pinv (g : gstate) : Prop := io_ok g /\ ends_ok g.

Lemma alist_get_app : forall {A} k (l l' : list (string * A)),
  alist_get k (l ++ l') = match alist_get k l with Some a => Some a | None => alist_get k l' end.
Proof.
  intros A k l l'. induction l as [|[x y] l IH]; simpl; [reflexivity|].
  destruct (String.eqb k x); [reflexivity|assumption].
Qed.

Lemma pinv_nodes_pending : forall g g', g_nodes g' = g_nodes g -> g_pending g' = g_pending g -> pinv g -> pinv g'.
Proof.
  intros g g' N P [IO EN]. split.
  - intros k. rewrite (in_typed_nodes _ _ k N), (out_typed_nodes _ _ k N). apply IO.
  - intros s e fs H. rewrite P in H. rewrite !(has_node_nodes _ _ _ N). eapply EN; eassumption.
Qed.

Lemma pinv_init : forall c st, pinv (g_init c st).
Proof.
  intros c st. split.
  - intros k. unfold in_typed, out_typed. simpl. destruct (is_se k); [auto|discriminate].
  - intros s e fs [].
Qed.

Lemma pinv_add_node : forall g k nk ns nko ok, pinv g -> pinv (fst (g_add_node g k nk ns nko ok)).
Proof.
  intros g k nk ns nko ok I. unfold g_add_node, fail.
  destruct (g_err g); [assumption|]. destruct (g_compiled g); [assumption|].
  destruct (is_se k) eqn:R; [eapply pinv_nodes_pending; [| |exact I]; reflexivity|].
  destruct (has_node g k) eqn:D; [eapply pinv_nodes_pending; [| |exact I]; reflexivity|].
  dif; [eapply pinv_nodes_pending; [| |exact I]; reflexivity|].
  dif; [eapply pinv_nodes_pending; [| |exact I]; reflexivity|].
  simpl. destruct I as [IO EN]. unfold has_node in D.
  assert (G : forall x, alist_get x (g_nodes g ++ [(k, init_node nk ok ns)]) =
                        match alist_get x (g_nodes g) with Some a => Some a | None => if String.eqb x k then Some (init_node nk ok ns) else None end).
  { intros x. rewrite alist_get_app. simpl. reflexivity. }
  split.
  - intros x. unfold in_typed, out_typed. simpl. destruct (is_se x) eqn:SX; [auto|]. rewrite G.
    specialize (IO x). unfold in_typed, out_typed in IO. rewrite SX in IO.
    destruct (alist_get x (g_nodes g)); [assumption|].
    destruct (String.eqb x k); [|discriminate]. destruct nk; simpl; auto; discriminate.
  - intros s e fs H. simpl in H. destruct (EN s e fs H) as [A B]. unfold has_node in *. simpl. rewrite !G.
    split; [destruct A as [A|A]; [left; assumption|right]|destruct B as [B|B]; [left; assumption|right]].
    + destruct (alist_get s (g_nodes g)); [reflexivity|discriminate].
    + destruct (alist_get e (g_nodes g)); [reflexivity|discriminate].
Qed.

(* adding one pending entry between known nodes, then inferring *)
Lemma pinv_push : forall g s e fs,
  pinv g -> (is_se s = true \/ has_node g s = true) -> (is_se e = true \/ has_node g e = true) ->
  pinv (update_pending (set_pending (g_pending g ++ [(s, e, fs)]) g)).
Proof.
  intros g s e fs [IO EN] HS HE.
  set (g1 := set_pending (g_pending g ++ [(s, e, fs)]) g).
  assert (IO1 : io_ok g1) by exact IO.
  assert (EN1 : ends_ok g1).
  { intros a b f H. simpl in H. apply in_app_or in H. destruct H as [H|[H|[]]].
    - exact (EN a b f H).
    - inversion H; subst. split; assumption. }
  destruct (update_pending_is_a_run g1) as [R _].
  exact (ireach_keeps_ok g1 _ IO1 EN1 R).
Qed.

Lemma se_or_node_src : forall g s, (negb (has_node g s) && negb (String.eqb s START)) = false -> is_se s = true \/ has_node g s = true.
Proof.
  intros g s H. destruct (has_node g s); [right; reflexivity|]. simpl in H. apply negb_false_iff in H.
  left. unfold is_se. rewrite H. reflexivity.
Qed.
Lemma se_or_node_dst : forall g e, (negb (has_node g e) && negb (String.eqb e END_)) = false -> is_se e = true \/ has_node g e = true.
Proof.
  intros g e H. destruct (has_node g e); [right; reflexivity|]. simpl in H. apply negb_false_iff in H.
  left. unfold is_se. rewrite H. apply orb_true_r.
Qed.

Lemma pinv_add_edge : forall g s e nc nd fs, pinv g -> pinv (fst (g_add_edge g s e nc nd fs)).
Proof.
  intros g s e nc nd fs I. unfold g_add_edge, fail.
  destruct (g_err g); [assumption|]. destruct (g_compiled g); [assumption|].
  destruct (nc && nd); [assumption|].
  destruct (String.eqb s END_); [eapply pinv_nodes_pending; [| |exact I]; reflexivity|].
  destruct (String.eqb e START); [eapply pinv_nodes_pending; [| |exact I]; reflexivity|].
  destruct (negb (has_node g s) && negb (String.eqb s START)) eqn:CS; [eapply pinv_nodes_pending; [| |exact I]; reflexivity|].
  destruct (negb (has_node g e) && negb (String.eqb e END_)) eqn:CE; [eapply pinv_nodes_pending; [| |exact I]; reflexivity|].
  destruct (negb nc && pmem s e (g_ctrl g)); [eapply pinv_nodes_pending; [| |exact I]; reflexivity|].
  fold (add_ctrl g s e).
  set (g1 := if nc then g else add_ctrl g s e).
  assert (N1 : g_nodes g1 = g_nodes g /\ g_pending g1 = g_pending g).
  { unfold g1, add_ctrl. destruct nc; [auto|]. destruct (String.eqb s START), (String.eqb e END_); auto. }
  destruct N1 as [N1 P1].
  assert (I1 : pinv g1) by (eapply pinv_nodes_pending; eassumption).
  destruct nd; [exact I1|].
  dif; [eapply pinv_nodes_pending; [| |exact I]; reflexivity|].
  simpl.
  eapply pinv_nodes_pending; [| |apply (pinv_push g1 s e fs I1)]; try reflexivity.
  - rewrite (has_node_nodes _ _ s N1). apply se_or_node_src; assumption.
  - rewrite (has_node_nodes _ _ e N1). apply se_or_node_dst; assumption.
Qed.

Lemma pinv_set_typed : forall g x, pinv g -> pinv (set_typed x g).
Proof.
  intros g x [IO EN]. split.
  - intros k. rewrite in_typed_set_typed, out_typed_set_typed. intros H.
    apply orb_true_iff in H. destruct H as [H|H]; [rewrite (IO k H); reflexivity|rewrite H; apply orb_true_r].
  - intros s e fs H. rewrite !has_node_set_typed. exact (EN s e fs H).
Qed.

Lemma pinv_branch_ends : forall ends g s g' r,
  pinv g -> (is_se s = true \/ has_node g s = true) -> branch_ends g s ends = (g', r) -> pinv g'.
Proof.
  induction ends as [|e rest IH]; intros g s g' r I HS H; simpl in H.
  - inversion H; subst; assumption.
  - destruct (negb (has_node g e) && negb (String.eqb e END_)) eqn:CE; [inversion H; subst; assumption|].
    pose proof (pinv_push g s e [] I HS (se_or_node_dst _ _ CE)) as I1.
    set (g1 := update_pending (set_pending (g_pending g ++ [(s, e, [])]) g)) in *.
    assert (K : has_node g1 s = has_node g s).
    { unfold g1. rewrite (update_pending_keys _ s). reflexivity. }
    eapply IH; [| |exact H].
    + eapply pinv_nodes_pending; [| |exact I1]; repeat dif; reflexivity.
    + assert (X : forall gg, g_nodes gg = g_nodes g1 -> has_node gg s = has_node g s).
      { intros gg E. rewrite (has_node_nodes _ _ s E). exact K. }
      rewrite X by (repeat dif; reflexivity). assumption.
Qed.

Lemma pinv_add_branch : forall g s ends sk, pinv g -> pinv (fst (g_add_branch g s ends sk)).
Proof.
  intros g s ends sk I. unfold g_add_branch, fail.
  destruct (g_err g); [assumption|]. destruct (g_compiled g); [assumption|].
  destruct (String.eqb s END_); [eapply pinv_nodes_pending; [| |exact I]; reflexivity|].
  destruct (negb (has_node g s) && negb (String.eqb s START)) eqn:CS; [eapply pinv_nodes_pending; [| |exact I]; reflexivity|].
  destruct (Nat.eqb (List.length ends) 1); [eapply pinv_nodes_pending; [| |exact I]; reflexivity|].
  set (g1 := match alist_get s (g_nodes g) with
             | Some n => if nkind_eqb (n_kind n) NPass && negb (n_out n) then update_pending (set_typed s g) else g
             | None => g end).
  assert (I1 : pinv g1).
  { unfold g1. destruct (alist_get s (g_nodes g)); [dif; [|assumption]|assumption].
    destruct (pinv_set_typed g s I) as [IO1 EN1].
    exact (ireach_keeps_ok _ _ IO1 EN1 (proj1 (update_pending_is_a_run (set_typed s g)))). }
  assert (H1 : forall k, has_node g1 k = has_node g k).
  { intros k. unfold g1. destruct (alist_get s (g_nodes g)); [dif; [|reflexivity]|reflexivity].
    rewrite (update_pending_keys _ k). apply has_node_set_typed. }
  set (g2 := set_h_prebranch (g_h_prebranch g1 ++ [s]) g1).
  assert (I2 : pinv g2) by (eapply pinv_nodes_pending; [| |exact I1]; reflexivity).
  destruct sk.
  - simpl. eapply pinv_nodes_pending; [| |exact I2]; reflexivity.
  - destruct (branch_ends g2 s ends) as [g3 [er|]] eqn:BE.
    + eapply pinv_nodes_pending; [| |exact I]; reflexivity.
    + simpl. eapply pinv_nodes_pending; [| |eapply pinv_branch_ends; [exact I2| |exact BE]]; try reflexivity.
      change (has_node g2 s) with (has_node g1 s). rewrite H1. apply se_or_node_src; assumption.
Qed.

Lemma pinv_compile : forall v g o, pinv g -> pinv (fst (g_compile v g o)).
Proof.
  intros v g o I. unfold g_compile. destruct (g_err g); [assumption|].
  repeat (dif; try assumption); simpl; (eapply pinv_nodes_pending; [| |exact I]; reflexivity).
Qed.

Lemma pinv_set_err : forall g e, pinv g -> pinv (set_err e g).
Proof. intros g e I. eapply pinv_nodes_pending; [| |exact I]; reflexivity. Qed.

Lemma pinv_set_prenode : forall g x, pinv g -> pinv (set_h_prenode x g).
Proof. intros g x I. eapply pinv_nodes_pending; [| |exact I]; reflexivity. Qed.

(* in every state any call sequence can produce *)
Theorem reachable_pinv :
  (forall v st cs, pinv (final (gstep v) (g_init CGraph st) cs))
  /\ (forall v st cs, pinv (c_g (final (cstep v) (c_init st) cs)))
  /\ (forall v st cs, pinv (w_g (final (wstep v) (w_init st) cs))).
Proof.
  split; [|split]; intros v st cs.
  - apply (run_keeps (gstep v) pinv); [|apply pinv_init].
    intros s c H. apply (P_gstep pinv pinv_add_node pinv_add_edge pinv_add_branch pinv_compile). exact H.
  - apply (run_keeps (cstep v) (fun c => pinv (c_g c))); [|apply pinv_init].
    intros s c H. apply (lcinv_cstep pinv pinv_add_node pinv_add_edge pinv_add_branch pinv_compile). exact H.
  - apply (run_keeps (wstep v) (fun w => pinv (w_g w))); [|apply pinv_init].
    intros s c H. apply (lwinv_wstep pinv pinv_add_node pinv_add_edge pinv_add_branch pinv_compile pinv_set_err pinv_set_prenode). exact H.
Qed.

(* what the code does on AddEdge / AddBranch: push one entry between known nodes, infer.
   Whatever order the real loop takes, it ends with the model's types and pending set. *)
Theorem push_then_infer_any_order : forall g s e fs g',
  pinv g -> (is_se s = true \/ has_node g s = true) -> (is_se e = true \/ has_node g e = true) ->
  let g1 := set_pending (g_pending g ++ [(s, e, fs)]) g in
  ireach g1 g' -> istable g' ->
  (forall k, in_typed g' k = in_typed (update_pending g1) k /\ out_typed g' k = out_typed (update_pending g1) k) /\
  Permutation (g_pending g') (g_pending (update_pending g1)).
Proof.
  intros g s e fs g' [IO EN] HS HE g1 R S.
  assert (IO1 : io_ok g1) by exact IO.
  assert (EN1 : ends_ok g1).
  { intros a b f H. simpl in H. apply in_app_or in H. destruct H as [H|[H|[]]].
    - exact (EN a b f H).
    - inversion H; subst. split; assumption. }
  destruct (update_pending_is_a_run g1) as [R2 S2].
  exact (infer_order_independent g1 g' (update_pending g1) IO1 EN1 R S R2 S2).
Qed.

(* non-vacuity: two pass-through nodes in a row, typed from the far end; the entry that is
   listed first cannot be resolved first *)
Definition infer_example : gstate :=
  final (gstep fixed) (g_init CGraph false)
    [GAddNode "a" NLambda false false; GAddNode "p" NPass false false; GAddNode "q" NPass false false;
     GAddEdge "p" "q"].

Lemma infer_example_run :
  let g1 := set_pending (g_pending infer_example ++ [("q", "a", [])]) infer_example in
  g_pending g1 = [("p", "q", []); ("q", "a", [])] /\
  resolvable g1 ("p", "q", []) = false /\ resolvable g1 ("q", "a", []) = true /\
  g_pending (update_pending g1) = [] /\ in_typed (update_pending g1) "p" = true.
Proof. vm_compute. repeat split; reflexivity. Qed.
