(* Proofs/GenAgreeC16Ctor.v — property C16, translator tie (mechanism 2): the public constructors of
   compose.Option and Option.DesignateNode as tools/go2v (extractor "c16construct") reads them from the
   current source (Gen/OptConstruct.v) are what Model/Options.v [build] assumes (Model/OptionsCtor.v). *)
From Coq Require Import Lia.
From Eino Require Import Base.Util Model.Options Model.OptionsCtor.
From Eino Require Gen.OptConstruct.

(* every exported With… function of package compose that returns an Option, and which routing field
   of the Option holds its arguments *)
Theorem gen_constructors_agree : Gen.OptConstruct.constructors = Model.OptionsCtor.constructors.
Proof. reflexivity. Qed.

(* ... each of them builds what one step of the option scripts builds: its arguments as the option
   values (BItems), its arguments as the handlers (BHandlers), or an Option without routing
   information (BItems []); never a path *)
Theorem gen_constructors_are_script_steps : forall name row its hs env,
  In (name, row) Gen.OptConstruct.constructors ->
  build_one env (ctor_step row its hs) = Ok (ctor_opt row its hs) /\ o_paths (ctor_opt row its hs) = [].
Proof.
  intros name row its hs env Hin. rewrite gen_constructors_agree in Hin.
  assert (Hrow : row = (true, false) \/ row = (false, true) \/ row = (false, false)).
  { unfold constructors in Hin. simpl in Hin.
    repeat (destruct Hin as [Hin|Hin]; [inversion Hin; auto|]). contradiction. }
  destruct Hrow as [->|[->| ->]]; split; reflexivity.
Qed.

Lemma go_set_app {A} (v : A) : forall (done : list A) x tl,
  go_set (List.length done) v (done ++ x :: tl) = Some (done ++ v :: tl).
Proof.
  induction done as [|d done IH]; intros x tl; simpl; [reflexivity|].
  rewrite IH. reflexivity.
Qed.

Lemma fill_range {A} (f : key -> A) : forall (rest : list key) (done : list (option A)),
  go_range_idx rest (List.length done) (fun i k acc => go_set i (Some (f k)) acc)
               (done ++ go_make_nil (List.length rest))
  = Some (done ++ map (fun k => Some (f k)) rest).
Proof.
  induction rest as [|k rest IH]; intros done; simpl.
  - reflexivity.
  - unfold go_make_nil in *. simpl. rewrite go_set_app.
    specialize (IH (done ++ [Some (f k)])).
    rewrite app_length in IH. simpl in IH. rewrite Nat.add_1_r in IH.
    rewrite <- !app_assoc in IH. simpl in IH. exact IH.
Qed.

(* Option.DesignateNode(k1, ..., kn) hands DesignateNodeWithPath n pointers, none of them nil, the
   i-th to a path that consists of the key ki — and no index of its loop is out of range *)
Theorem gen_designateNode_agrees : forall key,
  Gen.OptConstruct.designateNode_paths key = Some (map (fun k => Some [k]) key).
Proof.
  intros key.
  first [ reflexivity
        | pose proof (fill_range (fun k : Options.key => [k]) key []) as H; simpl in H;
          unfold Gen.OptConstruct.designateNode_paths; rewrite H; reflexivity ].
Qed.

(* so o.DesignateNode(keys...) is the script step BDesignate with one path of length 1 per key *)
Theorem gen_designateNode_is_designate : forall key ps,
  Gen.OptConstruct.designateNode_paths key = Some (map Some ps) -> ps = map (fun k => [k]) key.
Proof.
  intros key ps H. rewrite gen_designateNode_agrees in H. inversion H as [H1]. clear H.
  revert ps H1. induction key as [|k key IH]; intros [|p ps] H1; simpl in H1; try discriminate; [reflexivity|].
  inversion H1. simpl. f_equal. apply IH. assumption.
Qed.

Example gen_construct_example :
  Gen.OptConstruct.designateNode_paths [3; 3; 5]%N = Some [Some [3]; Some [3]; Some [5]]%N /\
  In ("WithLambdaOption"%string, (true, false)) Gen.OptConstruct.constructors /\
  In ("WithCallbacks"%string, (false, true)) Gen.OptConstruct.constructors.
Proof. repeat split; try reflexivity; rewrite gen_constructors_agree; simpl; tauto. Qed.

Print Assumptions gen_constructors_agree.
Print Assumptions gen_constructors_are_script_steps.
Print Assumptions gen_designateNode_agrees.
Print Assumptions gen_designateNode_is_designate.
