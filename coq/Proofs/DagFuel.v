(* Proofs/DagFuel.v — C02: the fuel of the model never runs out in all-predecessor mode.
   The Go loops modelled with fuel have no bound of their own: the work list of reportBranch (fuel
   |nodes|+1) and the `for step := 0; ; step++` loop of runner.run in DAG mode (fuel |nodes|+2). Both
   bounds are shown sufficient, so the distinguished error eLoopFuel is never the outcome of a run:
   the model does not cut any behaviour of the code short. *)
From Eino Require Import Base.Util Model.Graph Proofs.DagChan Proofs.DagInv Proofs.DagLoop.
From Coq Require Import Lia Permutation.
Open Scope N_scope.

Lemma filter_length_le {A} (f : A -> bool) (l : list A) : (List.length (filter f l) <= List.length l)%nat.
Proof. induction l as [|a l IH]; simpl; [lia|]. destruct (f a); simpl; lia. Qed.

Section DagFuel.
  Variable V : Type.
  Variable St : Type.
  Variable ops : vops V.
  Variable g : graph.
  Hypothesis Hdag : g_mode g = Dag.

  Notation chan := (chan V).
  Notation chans := (chans V).
  Notation Inv := (Inv V g).
  Notation skipped := (skipped V).

  (* number of channels that are not skipped *)
  Definition live_count (cs : chans) : nat :=
    List.length (filter (fun kc : key * chan => negb (c_skipped V (snd kc))) cs).

  Lemma live_count_le cs : (live_count cs <= List.length cs)%nat.
  Proof. unfold live_count. apply filter_length_le. Qed.

  Definition b2n (b : bool) : nat := if b then 1%nat else 0%nat.

  Lemma live_count_upd cs t (c c' : chan) :
    ksorted cs -> alookup t cs = Some c ->
    (live_count (upd_chan V cs t (fun _ => c')) + b2n (negb (c_skipped V c)) = live_count cs + b2n (negb (c_skipped V c')))%nat.
  Proof.
    unfold live_count, upd_chan. induction cs as [|[k0 c0] cs IH]; simpl; [discriminate|].
    intros [Hlt Hs] E. destruct (N.eqb t k0) eqn:Et.
    - apply N.eqb_eq in Et. subst k0. injection E as ->. rewrite N.eqb_refl. simpl.
      assert (Hrest : map (fun kc : N * chan => if N.eqb (fst kc) t then (fst kc, c') else kc) cs = cs).
      { clear IH. induction cs as [|[k1 c1] cs IH]; simpl; [reflexivity|].
        destruct (N.eqb k1 t) eqn:E1.
        - apply N.eqb_eq in E1. subst. exfalso. specialize (Hlt t (or_introl eq_refl)). simpl in Hlt. lia.
        - f_equal. apply IH; [intros k' Hk'; apply Hlt; now right|]. destruct Hs as [_ Hs]. exact Hs. }
      rewrite Hrest. destruct (c_skipped V c), (c_skipped V c'); simpl; lia.
    - assert (Hne : N.eqb k0 t = false) by (rewrite N.eqb_sym; exact Et).
      rewrite Hne. simpl. specialize (IH Hs E). destruct (c_skipped V c0); simpl; lia.
  Qed.

  (* one target: what is newly queued is exactly what stopped being live *)
  Lemma rst_body_count from cs0 R G W t cs1 nw0 nw1 :
    Inv cs0 R G W -> rst_body V from (cs0, nw0) t = (cs1, nw1) ->
    (live_count cs1 + List.length nw1 = live_count cs0 + List.length nw0)%nat.
  Proof.
    intros HI. unfold rst_body. destruct (alookup t cs0) as [c|] eqn:Et; [|intros [= <- <-]; reflexivity].
    destruct (dag_report_skip V c [from]) as [c' sk] eqn:Esk. intros [= <- <-].
    pose proof (inv_wf _ _ _ _ _ _ HI) as (Hks & _ & Hall).
    destruct (Hall t c Et) as (Hok & _ & _).
    destruct (dag_skip_iff_all_skipped V c [from] c' sk Hok Esk) as (Hb & _).
    pose proof (live_count_upd cs0 t c c' Hks Et) as Hc.
    assert (Hmono : c_skipped V c = true -> sk = true).
    { intros S. rewrite <- Hb. change c' with (fst (c', sk)). rewrite <- Esk.
      apply skip_keeps_skipped; auto. eapply inv_skc; eassumption. }
    rewrite Hb in Hc. destruct sk, (c_skipped V c) eqn:S; simpl in *; try rewrite app_length; simpl; try lia; specialize (Hmono eq_refl); discriminate.
  Qed.

  Lemma rst_fold_count from targets : forall cs0 nw0 R G W cs1 nw1,
    Inv cs0 R G (W ++ nw0) ->
    (In from R \/ skipped cs0 from) ->
    (forall t c, In t targets -> alookup t cs0 = Some c -> ~ In t G) ->
    fold_left (rst_body V from) targets (cs0, nw0) = (cs1, nw1) ->
    (live_count cs1 + List.length nw1 = live_count cs0 + List.length nw0)%nat.
  Proof.
    induction targets as [|t targets IH]; intros cs0 nw0 R G W cs1 nw1 HI Hfrom HtG Hfold; cbn [fold_left] in Hfold.
    - injection Hfold as <- <-. reflexivity.
    - destruct (rst_body V from (cs0, nw0) t) as [csm nwm] eqn:Eb.
      destruct (rst_body_inv V g from cs0 R G W t csm nw0 nwm HI Hfrom (fun c E => HtG t c (or_introl eq_refl) E) Eb)
        as (HIm & Hmono & _ & _).
      pose proof (rst_body_count from cs0 R G (W ++ nw0) t csm nw0 nwm HI Eb) as Hc.
      assert (Hfrom' : In from R \/ skipped csm from).
      { destruct Hfrom as [?|Hs]; [now left|right]. destruct Hmono as [_ Hm]. now apply Hm. }
      assert (HtG' : forall t' c, In t' targets -> alookup t' csm = Some c -> ~ In t' G).
      { intros t' c Hin E. destruct (alookup t' cs0) as [c0|] eqn:E0.
        - eapply HtG; [right; eassumption|eassumption].
        - destruct Hmono as [Ek _]. apply (alookup_same_keys csm cs0 t' Ek) in E0. congruence. }
      rewrite (IH csm nwm R G W cs1 nw1 HIm Hfrom' HtG' Hfold). exact Hc.
  Qed.

  (* the work list: enough fuel = entries waiting + channels that can still become skipped *)
  Lemma propagate_fuel fuel : forall work cs R G,
    Inv cs R G work -> (List.length work + live_count cs <= fuel)%nat ->
    propagate V g fuel work cs <> Err eLoopFuel.
  Proof.
    induction fuel as [|fuel IH]; intros work cs R G HI Hle; destruct work as [|k work]; simpl; try discriminate.
    - simpl in Hle. lia.
    - destruct (find_node g k) as [n|] eqn:Ef; [|discriminate].
      destruct (report_skip_to V cs k (succs n)) as [cs1 newly] eqn:Er.
      assert (Hk : skipped cs k) by (apply (inv_W _ _ _ _ _ _ HI); now left).
      assert (HtG : forall t c, In t (succs n) -> alookup t cs = Some c -> ~ In t G).
      { intros t c Hin Et HinG.
        assert (Hne : t <> kSTART) by (intros ->; rewrite (start_no_chan _ _ _ _ _ _ HI) in Et; discriminate).
        destruct (inv_B _ _ _ _ _ _ HI t HinG Hne) as (c0 & _ & _ & _ & _ & Q).
        destruct (Q k (succs_gpred g k n t Ef Hin)) as [HR|[_ Hn]].
        - apply (gotten_not_skipped _ _ _ _ _ _ k HI); [|assumption]. now apply (inv_RG _ _ _ _ _ _ HI).
        - apply Hn. now left. }
      destruct (report_skip_to_inv V g cs R G (k :: work) k (succs n) cs1 newly HI (or_intror Hk) HtG Er) as (HI1 & _).
      rewrite report_skip_to_eq in Er.
      assert (HI0 : Inv cs R G ((k :: work) ++ [])) by now rewrite app_nil_r.
      pose proof (rst_fold_count k (succs n) cs [] R G (k :: work) cs1 newly HI0 (or_intror Hk) HtG Er) as Hc.
      apply IH with (R := R) (G := G).
      + eapply Inv_weaken_W; [|exact HI1]. intros x Hx. simpl. now right.
      + rewrite app_length. simpl in Hle, Hc. lia.
  Qed.

  Lemma chans_length_bound cs R G W : Inv cs R G W -> akeys cs = akeys (init_chans_v0 V g) ->
    (List.length cs <= S (List.length (g_nodes g)))%nat.
  Proof.
    intros _ Ek. replace (List.length cs) with (List.length (akeys cs)) by (unfold akeys; apply map_length).
    rewrite Ek. unfold init_chans_v0.
    assert (H : forall ks, (List.length (akeys (fold_right (fun k m => ainsert k (chan_init V g k) m) [] ks)) <= List.length ks)%nat).
    { induction ks as [|k ks IH]; simpl; [lia|].
      assert (Hi : forall (l : list (key * chan)) a, (List.length (akeys (ainsert k a l)) <= S (List.length (akeys l)))%nat).
      { intros l a. unfold akeys. induction l as [|[k0 a0] l IHl]; simpl; [lia|].
        destruct (N.ltb k k0); simpl; [lia|]. destruct (N.eqb k k0); simpl; lia. }
      specialize (Hi (fold_right (fun k m => ainsert k (chan_init V g k) m) [] ks) (chan_init V g k)). lia. }
    specialize (H (chan_keys g)). unfold chan_keys in H at 2. rewrite app_length, map_length in H. simpl in H.
    assert (Hr : (List.length (real_nodes g) <= List.length (g_nodes g))%nat) by (unfold real_nodes; apply filter_length_le).
    lia.
  Qed.

  Lemma report_branch_fuel cs R G from sk :
    Inv cs R G [] -> akeys cs = akeys (init_chans_v0 V g) -> In from R ->
    (forall t c, In t sk -> alookup t cs = Some c -> ~ In t G) ->
    report_branch V g from sk cs <> Err eLoopFuel.
  Proof.
    intros HI Ek HR HtG. unfold report_branch. rewrite Hdag.
    destruct (report_skip_to V cs from sk) as [cs1 newly] eqn:Er.
    destruct (report_skip_to_inv V g cs R G [] from sk cs1 newly HI (or_introl HR) HtG Er) as (HI1 & _).
    rewrite report_skip_to_eq in Er.
    pose proof (rst_fold_count from sk cs [] R G [] cs1 newly HI (or_introl HR) HtG Er) as Hc.
    simpl in HI1. apply propagate_fuel with (R := R) (G := G); [assumption|].
    pose proof (live_count_le cs). pose proof (chans_length_bound cs R G [] HI Ek). simpl in Hc. lia.
  Qed.

  Lemma resolve_all_fuel completed : forall cs R G,
    Inv cs R G [] -> akeys cs = akeys (init_chans_v0 V g) ->
    (forall k, In k (akeys completed) -> In k R /\ npred g G k) ->
    resolve_all V ops g completed cs <> Err eLoopFuel.
  Proof.
    induction completed as [|[k out] completed IH]; intros cs R G HI Ek Hc; cbn [resolve_all]; [discriminate|].
    destruct (find_node g k) as [n|] eqn:Ef; [|discriminate].
    destruct (Hc k (or_introl eq_refl)) as [HkR Hknp].
    destruct (resolve_one V ops g n out cs) as [[[cs1 w1] d1]|e|] eqn:E1; simpl.
    - destruct (resolve_one_inv V ops g Hdag cs R G k n out cs1 w1 d1 HI Ef HkR Hknp E1) as (HI1 & [Ek1 _] & _).
      pose proof (IH cs1 R G HI1 (eq_trans Ek1 Ek) (fun k' Hk' => Hc k' (or_intror Hk'))) as Hn.
      destruct (resolve_all V ops g completed cs1) as [[[cs2 w2] d2]|e|]; simpl; [discriminate|congruence|discriminate].
    - unfold resolve_one in E1. destruct (eval_branches V ops n out) as [[sel sk]|e'|] eqn:Eb; simpl in E1.
      + destruct (find_node_in g k n Ef) as [_ Hk]. rewrite Hk in E1.
        assert (HtG : forall t c, In t sk -> alookup t cs = Some c -> ~ In t G).
        { intros t c Hin Et HinG.
          assert (Hne : t <> kSTART) by (intros ->; rewrite (start_no_chan _ _ _ _ _ _ HI) in Et; discriminate).
          apply (Hknp t HinG Hne). left. eapply branch_end_cpred; [eassumption|].
          eapply eval_branches_skipped; eassumption. }
        pose proof (report_branch_fuel cs R G k sk HI Ek HkR HtG) as Hn.
        destruct (report_branch V g k sk cs) as [cs1|e'|]; simpl in E1; [discriminate| |discriminate].
        injection E1 as <-. intros [= ->]. now apply Hn.
      + injection E1 as <-. unfold eval_branches in Eb. destruct (forallb _ _); [discriminate|].
        injection Eb as <-. discriminate.
      + discriminate.
    - discriminate.
  Qed.

  (* the fan-in of the value type does not use the model's fuel error class *)
  Hypothesis Hmerge : forall vals, v_merge ops vals <> Err eLoopFuel.

  Lemma get_all_fuel cs : get_all V ops g cs <> Err eLoopFuel.
  Proof.
    induction cs as [|[k c] cs IH]; cbn [get_all]; [discriminate|].
    unfold chan_get. rewrite Hdag. unfold dag_get.
    destruct (dag_ready V c).
    - unfold get_merge. destruct (c_vals V c) as [|[k1 v1] [|kv2 l]]; simpl.
      + destruct (get_all V ops g cs) as [[cs1 r1]|e|]; simpl; [discriminate|congruence|discriminate].
      + destruct (get_all V ops g cs) as [[cs1 r1]|e|]; simpl; [discriminate|congruence|discriminate].
      + pose proof (Hmerge ((k1, v1) :: kv2 :: l)) as Hm.
        destruct (v_merge ops ((k1, v1) :: kv2 :: l)) as [v|e|]; simpl; [|congruence|discriminate].
        destruct (get_all V ops g cs) as [[cs1 r1]|e|]; simpl; [discriminate|congruence|discriminate].
    - simpl. destruct (get_all V ops g cs) as [[cs1 r1]|e|]; simpl; [discriminate|congruence|discriminate].
  Qed.

  Lemma calc_next_fuel cs R G completed :
    Inv cs R G [] -> akeys cs = akeys (init_chans_v0 V g) ->
    (forall k, In k (akeys completed) -> In k G /\ npred g G k) ->
    calc_next V ops g cs completed <> Err eLoopFuel.
  Proof.
    intros HI Ek Hc. unfold calc_next.
    set (R' := akeys completed ++ R).
    assert (HR' : incl R' G).
    { intros x Hx. apply in_app_iff in Hx. destruct Hx as [Hx|Hx]; [exact (proj1 (Hc x Hx))|now apply (inv_RG _ _ _ _ _ _ HI)]. }
    assert (HI' : Inv cs R' G []).
    { apply Inv_grow_R with R; [|assumption..]. intros x Hx. apply in_app_iff. now right. }
    assert (Hnp : forall k, In k (akeys completed) -> In k R' /\ npred g G k).
    { intros k Hk. split; [apply in_app_iff; now left|]. exact (proj2 (Hc k Hk)). }
    pose proof (resolve_all_fuel completed cs R' G HI' Ek Hnp) as Hr.
    destruct (resolve_all V ops g completed cs) as [[[cs1 ws] ds]|e|]; simpl; [|congruence|discriminate].
    unfold update_chans. destruct (targets_exist V cs1 ws ds); simpl; [|discriminate].
    apply get_all_fuel.
  Qed.

  Lemma init_chans_fuel : init_chans V g <> Err eLoopFuel.
  Proof.
    unfold init_chans. rewrite Hdag.
    apply report_branch_fuel with (R := [kSTART]) (G := [kSTART]); [apply (init_v0_inv V g Hdag)|reflexivity|now left|].
    intros t c _ E [<-|[]]. rewrite (start_no_chan V g _ _ _ _ (init_v0_inv V g Hdag)) in E. discriminate.
  Qed.

  (* ================= the run loop ================= *)
  Section Run.
    Variable exec : St -> path -> V -> res V * St.
    Variable sub : nat -> path -> V -> St -> outcome V * St.
    Variable sched : nat -> list key -> nat.
    Variable p : path.
    Hypothesis Hsub : forall i k v s, Forall (fun e : logentry V => fst e <> p) (outcome_log V (fst (sub i (p ++ [k]) v s))).

    Notation LInvR := (LInvR V St g p).
    Notation step := (step V St ops exec sub sched p g).

    (* errors of tasks carry the node key in their path (or are "node not registered") *)
    Definition err_ok (e : err) : Prop := e_path e <> [] \/ e_class e = eUnknownNode.
    Definition tasks_ok (l : list (key * tres V)) : Prop :=
      forall k es, In (k, TErr es) l -> Forall err_ok es.

    Lemma run_task_ok n v s r l s' : run_task V St ops exec sub p n v s = (r, l, s') -> forall es, r = TErr es -> Forall err_ok es.
    Proof.
      unfold run_task. destruct (n_kind n).
      - destruct (exec s (p ++ [n_key n]) v) as [[o|c|] s1]; intros [= <- _ _] es E; [discriminate| |];
          injection E as <-; (constructor; [left; simpl; discriminate|constructor]).
      - intros [= <- _ _] es E. discriminate.
      - destruct (sub idx (p ++ [n_key n]) v s) as [[r0 l0|es0 l0] s1]; intros [= <- _ _] es E; [discriminate|].
        injection E as <-. apply Forall_forall. intros e He. apply in_map_iff in He. destruct He as (e0 & <- & _).
        left. simpl. discriminate.
    Qed.

    Lemma submit_ok tasks : forall s results sublog s',
      submit V St ops exec sub p g tasks s = (results, sublog, s') -> tasks_ok results.
    Proof.
      induction tasks as [|[k v] tasks IH]; intros s results sublog s'; cbn [submit].
      - intros [= <- _ _] k es [].
      - destruct (find_node g k) as [n|].
        + destruct (run_task V St ops exec sub p n v s) as [[r l1] s1] eqn:Er.
          destruct (submit V St ops exec sub p g tasks s1) as [[rs l2] s2] eqn:Es.
          intros [= <- _ _] k' es [[= <- ->]|Hin]; [eapply run_task_ok; [eassumption|reflexivity]|eapply IH; eassumption].
        + destruct (submit V St ops exec sub p g tasks s) as [[rs l2] s2] eqn:Es.
          intros [= <- _ _] k' es [[= <- <-]|Hin]; [|eapply IH; eassumption].
          constructor; [right; reflexivity|constructor].
    Qed.

    Definition LF (ls : loopstate V St) : Prop :=
      exists R X G, LInvR ls R X G
        /\ akeys (ls_chans V St ls) = akeys (init_chans_v0 V g)
        /\ (ls_step V St ls + List.length (ls_running V St ls) <= List.length X)%nat
        /\ tasks_ok (ls_running V St ls).

    Lemma LF_step_bound ls : LF ls -> (ls_step V St ls <= S (List.length (g_nodes g)))%nat.
    Proof.
      intros (R & X & G & HL & Ek & Hcnt & _). destruct HL as (HI & _ & Hnd & Hperm & _).
      assert (HGk : incl G (kSTART :: akeys (ls_chans V St ls))).
      { intros t Ht. destruct (N.eq_dec t kSTART) as [->|Hne]; [now left|right].
        destruct (inv_B _ _ _ _ _ _ HI t Ht Hne) as (c & E & _). eapply alookup_some_key; eassumption. }
      pose proof (NoDup_incl_length Hnd HGk) as Hlen. simpl in Hlen.
      pose proof (Permutation_length Hperm) as Hpl. simpl in Hpl. rewrite app_length in Hpl.
      pose proof (chans_length_bound _ _ _ _ HI Ek) as Hb.
      unfold akeys in Hlen. rewrite map_length in Hlen. lia.
    Qed.

    Lemma LF_continue ls ls' : LF ls -> step ls = Continue ls' -> LF ls'.
    Proof.
      intros (R & X & G & HL & Ek & Hcnt & Hok) Hstep.
      destruct (step_continue_unfold V St ops g Hdag exec sub sched p ls ls' Hstep)
        as (results & sublog & s' & completed & running' & cs' & ready & Es & Ew & Ecn & Eend & _ & ->).
      destruct (step_continue_R V St ops g Hdag exec sub sched p Hsub ls R X G _ _ _ _ _ _ _ HL Es Ew Ecn (or_introl Eend)) as (HL' & _ & Hpre).
      destruct (submit_spec V St ops g exec sub p _ Hsub _ _ _ _ _ Es) as [Hkres _].
      pose proof (wait_tasks_perm V g sched _ _ _ _ Ew) as Hwp.
      pose proof HL as (HI & Ho & Hnd & _).
      assert (Hpre' : forall k, In k (akeys (task_outputs V completed)) -> In k G /\ npred g G k).
      { intros k Hk. destruct (Hpre k Hk) as (A & B & _). auto. }
      destruct (calc_next_inv V ops g Hdag _ _ _ _ _ _ HI Ho Hnd Hpre' Ecn) as (_ & _ & _ & [Ek' _]).
      eexists _, _, _. split; [exact HL'|]. cbn [ls_chans ls_step ls_running].
      split; [congruence|]. split.
      - assert (Hne : completed <> []).
        { unfold Graph.step in Hstep. intros ->. unfold step_limit_hit in Hstep. rewrite Hdag, Es, Ew in Hstep. simpl in Hstep. discriminate. }
        pose proof (Permutation_length Hwp) as Hl. rewrite !app_length in Hl.
        assert (Hr : List.length results = List.length (ls_next V St ls)).
        { apply (f_equal (@List.length key)) in Hkres. unfold akeys in Hkres. now rewrite !map_length in Hkres. }
        rewrite app_length. unfold akeys. rewrite map_length.
        destruct completed; [congruence|]. simpl in Hl. lia.
      - intros k es Hin. assert (Hin2 : In (k, TErr es) (ls_running V St ls ++ results)).
        { eapply Permutation_in; [exact Hwp|]. apply in_app_iff. now right. }
        apply in_app_iff in Hin2. destruct Hin2 as [H|H]; [eapply Hok; eassumption|eapply submit_ok; eassumption].
    Qed.

    Lemma mkerr_fuel_not_ok : ~ err_ok (mkerr eLoopFuel).
    Proof. intros [H|H]; [now apply H|discriminate]. Qed.

    Lemma task_errors_ok (l : list (key * tres V)) : tasks_ok l -> Forall err_ok (task_errors V l).
    Proof.
      unfold task_errors. induction l as [|[k r] l IH]; intros Hok; simpl; [constructor|].
      apply Forall_app. split.
      - destruct r as [v|es]; [constructor|]. apply (Hok k es). now left.
      - apply IH. intros k' es Hin. apply (Hok k' es). now right.
    Qed.

    Lemma LF_finish ls es lg s' : LF ls -> step ls = Finish (Fail es lg) s' -> es <> [mkerr eLoopFuel].
    Proof.
      intros (R & X & G & HL & Ek & Hcnt & Hok). unfold Graph.step, step_limit_hit. rewrite Hdag.
      destruct (submit V St ops exec sub p g (ls_next V St ls) (ls_st V St ls)) as [[results sublog] s1] eqn:Es.
      destruct (wait_tasks V sched g (ls_step V St ls) (ls_running V St ls ++ results)) as [completed running'] eqn:Ew.
      pose proof (wait_tasks_perm V g sched _ _ _ _ Ew) as Hwp.
      assert (Hcok : tasks_ok completed).
      { intros k es0 Hin. assert (Hin2 : In (k, TErr es0) (ls_running V St ls ++ results)).
        { eapply Permutation_in; [exact Hwp|]. apply in_app_iff. now left. }
        apply in_app_iff in Hin2. destruct Hin2 as [H|H]; [eapply Hok; eassumption|eapply submit_ok; eassumption]. }
      destruct (task_errors V completed) as [|e0 es0] eqn:Ete.
      - destruct completed as [|c0 completed0] eqn:Ec; [intros [= <- _ _]; discriminate|]. rewrite <- Ec in *.
        destruct (step_completed_pre V St ops g exec sub sched p Hsub ls R X G _ _ _ _ _ HL Es Ew) as (_ & Hpre).
        pose proof HL as (HI & _).
        assert (Hpre' : forall k, In k (akeys (task_outputs V completed)) -> In k G /\ npred g G k).
        { intros k Hk. destruct (Hpre k Hk) as (A & B & _). auto. }
        pose proof (calc_next_fuel _ R G _ HI Ek Hpre') as Hn.
        destruct (calc_next V ops g (ls_chans V St ls) (task_outputs V completed)) as [[cs' ready]|e|].
        + destruct (alookup kEND ready); [discriminate|discriminate].
        + intros [= <- _ _]. intros [= ->]. now apply Hn.
        + intros [= <- _ _]. discriminate.
      - intros [= <- _ _] E. pose proof (task_errors_ok completed Hcok) as Hall. rewrite Ete, E in Hall.
        inversion Hall as [|? ? H1 _]; subst. now apply mkerr_fuel_not_ok.
    Qed.

    Lemma iterate_fuel fuel : forall ls o s,
      LF ls -> (S (List.length (g_nodes g)) < ls_step V St ls + fuel)%nat ->
      iterate V St ops exec sub sched p g fuel ls = (o, s) -> forall l, o <> Fail [mkerr eLoopFuel] l.
    Proof.
      induction fuel as [|fuel IH]; intros ls o s HF Hb; simpl.
      - pose proof (LF_step_bound ls HF). lia.
      - destruct (step ls) as [ls'|o' s'] eqn:E.
        + intros Hit. apply (IH ls' o s); [eapply LF_continue; eassumption| |assumption].
          destruct (step_continue_unfold V St ops g Hdag exec sub sched p ls ls' E) as (? & ? & ? & ? & ? & ? & ? & _ & _ & _ & _ & _ & ->).
          cbn [ls_step]. lia.
        + intros [= <- <-] l E2. subst o'. eapply LF_finish; [exact HF|exact E|reflexivity].
    Qed.

    Lemma init_chans_keys cs : init_chans V g = Ok cs -> akeys cs = akeys (init_chans_v0 V g).
    Proof.
      unfold init_chans. rewrite Hdag. intros Hrb.
      assert (HtG : forall t c, In t (unreachable_nodes g) -> alookup t (init_chans_v0 V g) = Some c -> ~ In t [kSTART]).
      { intros t c _ E [<-|[]]. rewrite (start_no_chan V g _ _ _ _ (init_v0_inv V g Hdag)) in E. discriminate. }
      destruct (report_branch_inv V g Hdag _ [kSTART] [kSTART] kSTART _ cs (init_v0_inv V g Hdag) (or_introl eq_refl) HtG Hrb)
        as (_ & [Ek _] & _). exact Ek.
    Qed.

    (* the model's fuel never runs out: "loop fuel exhausted" is not an outcome of a run *)
    Theorem run_flat_fuel x s : forall l, fst (run_flat V St ops exec sub sched p g x s) <> Fail [mkerr eLoopFuel] l.
    Proof.
      intros l. unfold run_flat.
      pose proof init_chans_fuel as Hi0.
      destruct (init_chans V g) as [cs0|e|] eqn:Ei; simpl; [|intros [= -> _]; now apply Hi0|discriminate].
      destruct (init_chans_inv V g Hdag cs0 Ei) as [HI0 Ho0].
      pose proof (init_chans_keys cs0 Ei) as Ek0.
      assert (Hpre : forall k, In k (akeys [(kSTART, x)]) -> In k [kSTART] /\ npred g [kSTART] k).
      { intros k [<-|[]]. split; [now left|]. intros t [<-|[]] Hne. congruence. }
      pose proof (calc_next_fuel cs0 [kSTART] [kSTART] [(kSTART, x)] HI0 Ek0 Hpre) as Hc0.
      destruct (calc_next V ops g cs0 [(kSTART, x)]) as [[cs1 ready]|e|] eqn:Ec; simpl; [|intros [= -> _]; now apply Hc0|discriminate].
      destruct (alookup kEND ready) eqn:Eend; simpl; [discriminate|].
      assert (Hnd : NoDup [kSTART]) by (constructor; [intros []|constructor]).
      destruct (calc_next_inv V ops g Hdag _ _ _ _ _ _ HI0 Ho0 Hnd Hpre Ec) as (_ & _ & _ & [Ek1 _]).
      destruct (iterate V St ops exec sub sched p g (loop_fuel g) (init_state V St p cs1 ready s)) as [o s'] eqn:Eit.
      simpl. eapply iterate_fuel; [| |exact Eit].
      - eexists _, _, _. split; [eapply (init_state_LInvR V St ops g Hdag p); eassumption|].
        cbn [init_state ls_chans ls_step ls_running]. split; [congruence|]. split; [simpl; lia|intros ? ? []].
      - cbn [init_state ls_step]. unfold loop_fuel. rewrite Hdag. lia.
    Qed.
  End Run.
End DagFuel.

(* the fan-in of the harness values (mergeMap) only fails with "duplicated key" / "type mismatch" *)
Lemma merge_into_class (acc : res (list (N * value))) (kvs : list (N * value)) : acc <> Err eLoopFuel ->
  fold_left (fun r kv => do a <- r; match alookup (fst kv) a with Some _ => Err eDupKey | None => Ok (ainsert (fst kv) (snd kv) a) end) kvs acc <> Err eLoopFuel.
Proof.
  revert acc. induction kvs as [|kv kvs IH]; simpl; intros acc H; [assumption|].
  apply IH. destruct acc as [a|e|]; simpl; [|assumption|discriminate].
  destruct (alookup (fst kv) a); discriminate.
Qed.

Lemma tree_merge_not_fuel vals : v_merge tree_ops vals <> Err eLoopFuel.
Proof.
  simpl. unfold tree_merge.
  assert (H : forall (vs : list (key * value)) (acc : res (list (N * value))), acc <> Err eLoopFuel ->
            fold_left (fun r kv => do a <- r; match snd kv with VMap kvs => merge_into a kvs | VNil => Ok a | VAtom _ => Err eMergeType end) vs acc
            <> Err eLoopFuel).
  { induction vs as [|kv vs IH]; simpl; intros acc Ha; [assumption|].
    apply IH. destruct acc as [a|e|]; simpl; [|assumption|discriminate].
    destruct (snd kv); [discriminate|discriminate|]. unfold merge_into. apply merge_into_class. discriminate. }
  specialize (H vals (Ok []) ltac:(discriminate)).
  match type of H with ?t <> _ => change (res_bind t (fun m => Ok (VMap m)) <> Err eLoopFuel); destruct t as [m|e|] eqn:Et end;
    simpl; [discriminate|intros [= ->]; now apply H|discriminate].
Qed.

Theorem dag_fuel_flat V St (ops : vops V) g exec sub sched p x s :
  g_mode g = Dag -> (forall vals, v_merge ops vals <> Err eLoopFuel) ->
  (forall i k v s', Forall (fun e : logentry V => fst e <> p) (outcome_log V (fst (sub i (p ++ [k]) v s')))) ->
  forall l, fst (run_flat V St ops exec sub sched p g x s) <> Fail [mkerr eLoopFuel] l.
Proof. intros Hdag Hm Hsub. exact (run_flat_fuel V St ops g Hdag Hm exec sub sched p Hsub x s). Qed.

Theorem dag_fuel_nest V St (ops : vops V) exec sched F fuel p g x s :
  g_mode g = Dag -> (forall vals, v_merge ops vals <> Err eLoopFuel) ->
  forall l, fst (run_nest V St ops exec sched (S fuel) F p g x s) <> Fail [mkerr eLoopFuel] l.
Proof.
  intros Hdag Hm. cbn [run_nest]. apply dag_fuel_flat; [assumption..|].
  intros i k v s'. destruct (nth_error F i) as [g'|]; [|constructor].
  eapply Forall_impl; [|apply run_nest_log_prefix]. intros e He. simpl in He. now apply is_prefix_snoc in He.
Qed.
