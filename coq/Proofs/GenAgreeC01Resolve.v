(* Proofs/GenAgreeC01Resolve.v — property C01: the Gallina functions tools/go2v translated statement by statement from
   uniqueKeys and runner.resolveCompletedTasks (compose/graph_run.go -> Gen/ResolveTasks.v) are, for all arguments and
   whatever the code they call does (Section variables: copyItem, runner.calculateBranch), the hand-written
   specifications [unique_keys] and [resolve_completed_tasks] of Model/ResolveSpec.v.  Proofs/ResolveModel.v proves
   those equal to [resolve_all] of Model/Graph.v.
     gen_uniqueKeys_agrees, gen_copyItem_agrees (value mode), gen_resolveCompletedTasks_agrees
                                  regenerated = specification, for all arguments;
     gen_resolve_is_resolve_all   the regenerated resolveCompletedTasks, calling the regenerated copyItem and the
                                  regenerated calculateBranch (Gen/CalcBranch.v), on the completed tasks of a
                                  superstep of an any-predecessor graph IS [resolve_all] of Model/Graph.v: same
                                  failure, same channels, and its two result maps are the model's writes and
                                  dependencies grouped by target.
   A changed slice bound, a copy count that is off by one, a successor list that is not made unique, a dependency
   reported under the wrong key … make a theorem here stop compiling. *)
From Eino Require Import Base.Util Model.Graph Model.ImpGenLib Model.CalcBranchSpec Model.ResolveGenLib Model.ResolveSpec.
From Eino Require Import Proofs.CalcBranchModel Proofs.ResolveModel Proofs.GenAgreeCalcBranch.
From Eino Require Gen.ResolveTasks Gen.CalcBranch.
From Coq Require Import Lia.

Lemma fold_left_ext3 : forall {A B} (f g : A -> B -> A) l a,
  (forall a b, f a b = g a b) -> fold_left f l a = fold_left g l a.
Proof. intros A B f g l; induction l as [|b l IH]; intros a H; simpl; [reflexivity|]. rewrite H. apply IH, H. Qed.

Lemma fold_res_ext3 : forall {S A} (f g : S -> A -> res S) l s,
  (forall s a, f s a = g s a) -> fold_res f l s = fold_res g l s.
Proof.
  intros S A f g l s H. unfold fold_res. apply fold_left_ext3. intros r a. destruct r; simpl; [apply H|reflexivity|reflexivity].
Qed.

(* uniqueKeys keeps a set of the keys seen next to the result: the two are the same list *)
Lemma seen_is_ret : forall keys (r : list key),
  fold_left (fun (st_ : list key * list key) key => let '(seen, ret) := st_ in
               if negb (s_has key seen) then (s_add key seen, ret ++ [key]) else (seen, ret)) keys (r, r)
  = (fold_left (fun ret k => if memb k ret then ret else ret ++ [k]) keys r,
     fold_left (fun ret k => if memb k ret then ret else ret ++ [k]) keys r).
Proof.
  intros keys; induction keys as [|k keys IH]; intros r; simpl; [reflexivity|].
  unfold s_has, s_add. destruct (memb k r) eqn:E; simpl; apply IH.
Qed.

Theorem gen_uniqueKeys_agrees : forall keys, Gen.ResolveTasks.uniqueKeys keys = unique_keys keys.
Proof.
  intros keys. try reflexivity. (* neutral file: the specification itself *)
  all: unfold Gen.ResolveTasks.uniqueKeys, unique_keys, s_empty, l_upto; cbv zeta; simpl firstn.
  all: match goal with |- (let '(_, ret) := fold_left ?f ?l ([], []) in ret) = _ =>
    replace (fold_left f l ([], [])) with
      (fold_left (fun (st_ : list key * list key) key => let '(seen, ret) := st_ in
                    if negb (s_has key seen) then (s_add key seen, ret ++ [key]) else (seen, ret)) l ([], []))
      by (apply fold_left_ext3; intros [seen ret] k; destruct (negb (s_has k seen)); reflexivity)
  end.
  all: rewrite seen_is_ret; reflexivity.
Qed.

(* copyItem (value mode): `ret := make([]any, n); for i := range ret { ret[i] = item }` fills every position *)
Lemma l_set_app_at : forall {A} (x y : A) pre post, l_set (List.length pre) x (pre ++ y :: post) = pre ++ x :: post.
Proof. intros A x y pre post; induction pre as [|a pre IH]; simpl; [reflexivity|]. f_equal. exact IH. Qed.

Lemma fill_loop : forall {A} (v z : A) k j,
  fold_left (fun (l : list A) i => l_set i v l) (seq j k) (repeat v j ++ repeat z k) = repeat v (j + k).
Proof.
  intros A v z k; induction k as [|k IH]; intros j; simpl.
  - rewrite app_nil_r, Nat.add_0_r. reflexivity.
  - pose proof (l_set_app_at v z (repeat v j) (repeat z k)) as H. rewrite repeat_length in H. rewrite H.
    replace (repeat v j ++ v :: repeat z k) with (repeat v (S j) ++ repeat z k)
      by (change (repeat v (S j)) with (v :: repeat v j); rewrite (repeat_cons j v), <- app_assoc; reflexivity).
    rewrite IH. f_equal. lia.
Qed.

Theorem gen_copyItem_agrees : forall (V : Type) (zero_value v : V) n,
  Gen.ResolveTasks.copyItem V zero_value v n = copy_item_spec v n.
Proof.
  intros V z v n. try reflexivity. (* neutral file *)
  all: unfold Gen.ResolveTasks.copyItem, copy_item_spec; cbv zeta.
  (* n = 0, 1: one copy, by computation; n >= 2: the test fails, the loop fills every position *)
  all: destruct n as [|[|n]]; try reflexivity.
  all: match goal with |- (if ?c then _ else _) = _ => let c' := eval compute in c in change c with c' end; cbv iota.
  all: rewrite repeat_length;
       match goal with |- fold_left ?f _ _ = _ =>
         replace f with (fun (l : list V) i => l_set i v l) by reflexivity end.
  all: replace (Nat.max 1 (S (S n))) with (0 + S (S n))%nat by lia; exact (fill_loop v z (S (S n)) 0).
Qed.

(* writeChannelValues[next] is created when missing, then written: the same as writing it *)
Lemma am_set_set : forall {A} k (a b : A) m, am_set k a (am_set k b m) = am_set k a m.
Proof.
  intros A k a b m; induction m as [|[k' c] m IH]; simpl.
  - rewrite N.eqb_refl. reflexivity.
  - destruct (N.eqb k' k) eqn:E; simpl; [rewrite N.eqb_refl; reflexivity|]. rewrite E. f_equal. exact IH.
Qed.

Lemma am_get_set_same : forall {A} (d : A) k a m, am_get d k (am_set k a m) = a.
Proof.
  intros A d k a m; induction m as [|[k' c] m IH]; simpl.
  - rewrite N.eqb_refl. reflexivity.
  - destruct (N.eqb k' k) eqn:E; simpl; [rewrite N.eqb_refl; reflexivity|]. rewrite E. exact IH.
Qed.

Lemma am_get_absent : forall {A} (d : A) k m, am_has k m = false -> am_get d k m = d.
Proof.
  intros A d k m; induction m as [|[k' c] m IH]; simpl; intros H; [reflexivity|].
  apply orb_false_iff in H. destruct H as [H1 H2]. rewrite H1. apply IH, H2.
Qed.

Lemma put_creates : forall {V} t s (v : V) (w : wmap V),
  (let w' := if negb (wm_has t w) then wm_set t vm_empty w else w in
   wm_set t (vm_set s v (wm_get w' t)) w') = wm_put t s v w.
Proof.
  intros V t s v w. unfold wm_put, wm_has, wm_set, wm_get, vm_empty. cbv zeta.
  destruct (am_has t w) eqn:E; simpl; [reflexivity|].
  rewrite am_get_set_same, am_set_set, (am_get_absent [] t w E). reflexivity.
Qed.

Section A.
  Variables V T CALL CM : Type.
  Variable zero_value : V.
  Variable err_code : nat -> N.
  Variable task_key : T -> key.
  Variable task_output : T -> V.
  Variable task_call : T -> CALL.
  Variable task_controls : T -> list key.
  Variable task_writeTo : T -> list key.
  Variable task_nbranches : T -> nat.
  Variable copy_item : V -> nat -> list V.
  Variable calculate_branch : CM -> key -> CALL -> list V -> bool -> res (list key * CM).

  Theorem gen_resolveCompletedTasks_agrees : forall tasks isStream cm,
    Gen.ResolveTasks.resolveCompletedTasks V T CALL CM zero_value err_code task_key task_output task_call task_controls
      task_writeTo task_nbranches copy_item calculate_branch tasks isStream cm
    = resolve_completed_tasks V T CALL CM zero_value task_key task_output task_call task_controls task_writeTo
        task_nbranches copy_item calculate_branch tasks isStream cm.
  Proof.
    intros tasks isStream cm.
    try reflexivity. (* neutral file *)
    all: unfold Gen.ResolveTasks.resolveCompletedTasks, resolve_completed_tasks; cbv zeta.
    all: match goal with |- res_bind (fold_res ?f ?l ?s) _ = res_bind (fold_res (task_step _ _ _ _ _ _ _ _ _ _ _ _ _ ?b) _ _) _ =>
      replace (fold_res f l s) with
        (fold_res (task_step V T CALL CM zero_value task_key task_output task_call task_controls task_writeTo
                     task_nbranches copy_item calculate_branch b) l s)
        by (symmetry; apply fold_res_ext3; intros [[cm0 w] nd] t; unfold task_step; cbv zeta;
            match goal with |- context [calculate_branch cm0 (task_key t) (task_call t) ?a ?b] =>
              destruct (calculate_branch cm0 (task_key t) (task_call t) a b) as [[sel cm1]| |] end; simpl; try reflexivity;
            rewrite gen_uniqueKeys_agrees; unfold resized, dm_app; f_equal; f_equal; f_equal;
            apply fold_left_ext3; intros w0 [i next]; simpl fst; simpl snd;
            exact (put_creates next (task_key t) _ w0))
    end.
    all: unfold wm_empty, dm_empty.
    all: destruct (fold_res _ _ _) as [[[cm' w] nd]| |]; reflexivity.
  Qed.
End A.

(* the specification depends on copyItem and calculateBranch only through their results *)
Lemma resolve_spec_ext : forall (V T CALL CM : Type) z tk tout tcall tctl tw tnb (ci1 ci2 : V -> nat -> list V)
    (cb1 cb2 : CM -> key -> CALL -> list V -> bool -> res (list key * CM)) tasks isStream cm,
  (forall v n, ci1 v n = ci2 v n) ->
  (forall cm k c vs b, cb1 cm k c vs b = cb2 cm k c vs b) ->
  resolve_completed_tasks V T CALL CM z tk tout tcall tctl tw tnb ci1 cb1 tasks isStream cm
  = resolve_completed_tasks V T CALL CM z tk tout tcall tctl tw tnb ci2 cb2 tasks isStream cm.
Proof.
  intros V T CALL CM z tk tout tcall tctl tw tnb ci1 ci2 cb1 cb2 tasks isStream cm Hc H. unfold resolve_completed_tasks.
  f_equal. apply fold_res_ext3. intros [[cm0 w] nd] t. unfold task_step, resized. rewrite !Hc, H.
  destruct (cb2 cm0 (tk t) (tcall t) _ isStream) as [[sel cm1]| |]; simpl; try reflexivity.
  rewrite !Hc. reflexivity.
Qed.

Section Tie.
  Variable V : Type.
  Variable ops : vops V.

  (* the two regenerated functions, composed, on the nodes of the model *)
  Definition gen_resolve_on_nodes (ec : nat -> N) (g : graph) (tasks : list (node * V)) (isStream : bool) (cs : chans V)
    : res (wmap V * dmap * chans V) :=
    Gen.ResolveTasks.resolveCompletedTasks V (node * V) node (chans V) (v_zero ops) ec (tk V) snd fst
      (fun t => n_csucc (fst t)) (fun t => n_dsucc (fst t)) (fun t => List.length (n_branches (fst t)))
      (Gen.ResolveTasks.copyItem V (v_zero ops))
      (fun cs k n vs isStream =>
         Gen.CalcBranch.calculateBranch V branch (chans V) (v_zero ops) ec b_ends (no_pre_handler V) (model_invoke V ops)
           (model_invoke V ops) (fun cs k sk => report_branch V g k sk cs) k (n_branches n) (n_csucc n) vs isStream cs)
      tasks isStream cs.

  Theorem gen_resolve_is_resolve_all : forall ec g tasks isStream cs,
    g_mode g = Pregel ->
    (forall t, In t tasks -> n_dmap (fst t) = [] /\ find_node g (n_key (fst t)) = Some (fst t)) ->
    gen_resolve_on_nodes ec g tasks isStream cs
    = do r <- resolve_all V ops g (map (fun t => (n_key (fst t), snd t)) tasks) cs;
      let '(cs', ws, ds) := r in
      Ok (wmap_of V ws, dmap_of ds, cs').
  Proof.
    intros ec g tasks isStream cs Hm H. unfold gen_resolve_on_nodes.
    rewrite gen_resolveCompletedTasks_agrees.
    rewrite <- (spec_resolve_is_resolve_all V ops ec g tasks isStream cs Hm H). unfold spec_on_nodes.
    apply resolve_spec_ext; [intros v n; apply gen_copyItem_agrees|].
    intros cm k c vs b. unfold branch_code. apply gen_calculateBranch_agrees.
  Qed.
End Tie.

(* non-vacuity: a node with two plain successors (3 twice over: also selected by the branch) and a branch over {3,4}
   that selects both: 3 and 4 receive the output once each, under the sender's key; the control dependencies are
   the control successor 3 and the two selected nodes *)
Example ex_gen_resolve :
  let n := {| n_key := 2; n_kind := KLambda; n_outkey := None; n_dsucc := [3%N; 5%N]; n_csucc := [3%N]; n_dmap := [];
              n_branches := [ {| b_ends := [3;4]%N; b_nodata := false; b_table := [[3;4]%N] |} ] |} in
  let g := {| g_nodes := [n]; g_mode := Pregel; g_eager := false; g_max := 0 |} in
  gen_resolve_on_nodes value tree_ops (fun _ => 0%N) g [(n, VAtom 7)] false []
  = Ok ([(3%N, [(2%N, VAtom 7)]); (4%N, [(2%N, VAtom 7)]); (5%N, [(2%N, VAtom 7)])],
        [(3%N, [2%N; 2%N]); (4%N, [2%N])], []).
Proof. vm_compute. reflexivity. Qed.
