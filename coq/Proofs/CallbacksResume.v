(* Proofs/CallbacksResume.v — interrupt / resume run sequences (property C10): every run of a
   sequence is the run of a graph whose unit names are distinct, so the engine theorems of
   Proofs/CallbacksSched.v apply to every run and every schedule of it; the sequence ends. *)
From Coq Require Import List Arith NArith Bool Lia.
From Eino Require Import Base.Util Base.GoSlice Model.Callbacks Model.CallbacksSched Model.CallbacksResume.
From Eino Require Import Proofs.CallbacksSlice Proofs.Callbacks Proofs.CallbacksEngine Proofs.CallbacksSched.
Import ListNotations.

(* ---------------------------------------------------------------- subsequences *)

Inductive subseq {A : Type} : list A -> list A -> Prop :=
| ss_nil : subseq [] []
| ss_skip : forall a l1 l2, subseq l1 l2 -> subseq l1 (a :: l2)
| ss_keep : forall a l1 l2, subseq l1 l2 -> subseq (a :: l1) (a :: l2).

Lemma subseq_refl {A} (l : list A) : subseq l l.
Proof. induction l; [apply ss_nil|apply ss_keep; auto]. Qed.

Lemma subseq_nil_l {A} (l : list A) : subseq [] l.
Proof. induction l; [apply ss_nil|apply ss_skip; auto]. Qed.

Lemma subseq_app {A} (a b c d : list A) : subseq a b -> subseq c d -> subseq (a ++ c) (b ++ d).
Proof. induction 1; simpl; intros Hcd; auto; [apply ss_skip|apply ss_keep]; auto. Qed.

Lemma subseq_in {A} (l1 l2 : list A) x : subseq l1 l2 -> In x l1 -> In x l2.
Proof. induction 1; simpl; intuition. Qed.

Lemma NoDup_subseq {A} (l1 l2 : list A) : subseq l1 l2 -> NoDup l2 -> NoDup l1.
Proof.
  induction 1 as [|a l1 l2 S IH|a l1 l2 S IH]; intros N; auto.
  - inversion N; auto.
  - inversion N as [|? ? Hn N']; subst. constructor; auto.
    intros Hin. apply Hn. eapply subseq_in; eauto.
Qed.

Lemma subseq_trans {A} (l1 l2 l3 : list A) : subseq l1 l2 -> subseq l2 l3 -> subseq l1 l3.
Proof.
  intros H12 H23. revert l1 H12. induction H23 as [|a l2 l3 S IH|a l2 l3 S IH]; intros l1 H12; auto.
  - apply ss_skip; auto.
  - inversion H12; subst; [apply ss_skip|apply ss_keep]; auto.
Qed.

Lemma subseq_flat_map {A B} (f g : A -> list B) l :
  (forall x, In x l -> subseq (f x) (g x)) -> subseq (flat_map f l) (flat_map g l).
Proof.
  induction l as [|a l IH]; simpl; intros H; [apply ss_nil|].
  apply subseq_app; auto.
Qed.

(* the same over two lists related element by element *)
Lemma subseq_flat_map2 {A B C} (f : A -> list C) (g : B -> list C) (R : A -> B -> Prop) l1 l2 :
  Forall2 R l1 l2 -> (forall x y, R x y -> subseq (f x) (g y)) -> subseq (flat_map f l1) (flat_map g l2).
Proof.
  induction 1; simpl; intros H'; [apply ss_nil|]. apply subseq_app; auto.
Qed.

(* ---------------------------------------------------------------- induction over nested plans *)

Section RnodeInd.
  Variable P : rnode -> Prop.
  Hypothesis HL : forall uid key inf natives fails intr, P (RLambda uid key inf natives fails intr).
  Hypothesis HP : forall uid key, P (RPass uid key).
  Hypothesis HD : forall uid key sh, P (RDone uid key sh).
  Hypothesis HS : forall uid key inf stages, Forall (Forall P) stages -> P (RSub uid key inf stages).
  Hypothesis HT : forall uid key inf calls, P (RTools uid key inf calls).
  Hypothesis HStop : forall armed, P (RStop armed).
  Hypothesis HFault : forall delay, P (RFault delay).

  Fixpoint rnode_ind' (n : rnode) : P n :=
    match n with
    | RLambda uid key inf natives fails intr => HL uid key inf natives fails intr
    | RPass uid key => HP uid key
    | RDone uid key sh => HD uid key sh
    | RSub uid key inf stages =>
        HS uid key inf stages
           ((fix fs (l : list (list rnode)) : Forall (Forall P) l :=
               match l with
               | [] => Forall_nil _
               | st :: l' =>
                   Forall_cons st
                     ((fix fn (s : list rnode) : Forall P s :=
                         match s with
                         | [] => Forall_nil _
                         | m :: s' => Forall_cons m (rnode_ind' m) (fn s')
                         end) st)
                     (fs l')
               end) stages)
    | RTools uid key inf calls => HT uid key inf calls
    | RStop armed => HStop armed
    | RFault delay => HFault delay
    end.
End RnodeInd.

(* ---------------------------------------------------------------- unit names of the projected graph *)

Lemma proj_call_uid c : fst (fst (fst (proj_call c))) = fst (fst (fst (fst c))).
Proof. destruct c as [[[[cu cinf] natives] fails] intr]. reflexivity. Qed.

Lemma flat_map_flat_map {A B C} (f : B -> list C) (g : A -> list B) l :
  flat_map f (flat_map g l) = flat_map (fun x => flat_map f (g x)) l.
Proof. induction l as [|a l IH]; simpl; auto. now rewrite flat_map_app, IH. Qed.

Lemma flat_map_map' {A B C} (f : B -> list C) (g : A -> B) l :
  flat_map f (map g l) = flat_map (fun x => f (g x)) l.
Proof. induction l as [|a l IH]; simpl; auto. now rewrite IH. Qed.

Lemma proj_uids n : subseq (flat_map uids (proj n)) (ruids n).
Proof.
  induction n as [uid key inf natives fails intr|uid key|uid key sh|uid key inf stages IH|uid key inf calls|armed|delay]
    using rnode_ind'; simpl.
  - apply subseq_refl.
  - apply subseq_refl.
  - apply subseq_nil_l.
  - rewrite app_nil_r. apply ss_keep.
    rewrite flat_map_map'. apply subseq_flat_map. intros st Hst.
    rewrite flat_map_flat_map. apply subseq_flat_map. intros m Hm.
    rewrite Forall_forall in IH. specialize (IH st Hst). rewrite Forall_forall in IH. auto.
  - rewrite app_nil_r. apply ss_keep. rewrite map_map.
    erewrite map_ext; [apply subseq_refl|]. intros c. apply proj_call_uid.
  - destruct armed; apply ss_nil.
  - destruct delay; apply ss_nil.
Qed.

Lemma proj_stages_uids plan : subseq (stages_uids (proj_stages plan)) (rstages_uids plan).
Proof.
  unfold stages_uids, proj_stages, rstages_uids. rewrite flat_map_map'.
  apply subseq_flat_map. intros st _. rewrite flat_map_flat_map.
  apply subseq_flat_map. intros m _. apply proj_uids.
Qed.

Lemma proj_NoDup g plan : NoDup (g :: rstages_uids plan) -> NoDup (g :: stages_uids (proj_stages plan)).
Proof. apply NoDup_subseq. apply ss_keep. apply proj_stages_uids. Qed.

(* ---------------------------------------------------------------- unit names of the resumed plan *)

Lemma done_of_uids n : subseq (ruids (done_of n)) (ruids n).
Proof. destruct n; simpl; try (apply ss_keep; apply subseq_nil_l); apply ss_nil. Qed.

Lemma done_of_intr n : node_intr (done_of n) <= node_intr n.
Proof. destruct n; simpl; lia. Qed.

Lemma resume_walk_uids os :
  Forall (Forall (fun x : rnode * outcome * rnode => subseq (ruids (snd x)) (ruids (fst (fst x))))) os ->
  subseq (rstages_uids (resume_walk os)) (rstages_uids (map (map (fun x => fst (fst x))) os)).
Proof.
  unfold rstages_uids. induction 1 as [|st os Hst Hos IH]; simpl; [apply ss_nil|].
  destruct (existsb _ st).
  - simpl. apply subseq_app; [|apply subseq_refl].
    rewrite !flat_map_map'. apply subseq_flat_map. intros x Hx.
    rewrite Forall_forall in Hst. destruct (is_intr (snd (fst x))); [apply Hst; auto|apply done_of_uids].
  - simpl. apply subseq_app; auto.
    rewrite !flat_map_map'. apply subseq_flat_map. intros x Hx. apply done_of_uids.
Qed.

Lemma map_map_fst3 {X} (F G : X -> _) (stages : list (list X)) :
  map (map (fun x : X * outcome * rnode => fst (fst x))) (map (map (fun m => (m, F m, G m))) stages) = stages.
Proof.
  induction stages as [|st r IH]; simpl; auto. rewrite IH. f_equal.
  rewrite map_map. simpl. apply map_id.
Qed.

Lemma resume_node_uids n : forall opts, subseq (ruids (resume_node opts n)) (ruids n).
Proof.
  induction n as [uid key inf natives fails intr|uid key|uid key sh|uid key inf stages IH|uid key inf calls|armed|delay]
    using rnode_ind'; intros opts; simpl; try apply subseq_refl.
  - apply ss_keep.
    set (F := fun m => node_outcome (sub_opts key opts) m).
    set (G := fun m => resume_node (sub_opts key opts) m).
    eapply subseq_trans; [apply (resume_walk_uids (map (map (fun m => (m, F m, G m))) stages))|].
    + rewrite Forall_forall. intros st' Hst'. apply in_map_iff in Hst'. destruct Hst' as (st & <- & Hst).
      rewrite Forall_forall. intros x Hx. apply in_map_iff in Hx. destruct Hx as (m & <- & Hm). simpl.
      rewrite Forall_forall in IH. specialize (IH st Hst). rewrite Forall_forall in IH. apply IH; auto.
    + rewrite map_map_fst3. apply subseq_refl.
  - apply ss_keep. rewrite map_map. erewrite map_ext; [apply subseq_refl|].
    intros c. destruct c as [[[[cu cinf] natives] fails] intr]. reflexivity.
Qed.

Lemma resume_stages_uids opts plan : subseq (rstages_uids (resume_stages opts plan)) (rstages_uids plan).
Proof.
  unfold resume_stages.
  eapply subseq_trans; [apply resume_walk_uids|].
  - rewrite Forall_forall. intros st' Hst'. apply in_map_iff in Hst'. destruct Hst' as (st & <- & Hst).
    rewrite Forall_forall. intros x Hx. apply in_map_iff in Hx. destruct Hx as (m & <- & Hm). simpl.
    apply resume_node_uids.
  - rewrite map_map_fst3. apply subseq_refl.
Qed.

(* ---------------------------------------------------------------- the options of a resumed run *)

(* an option of a resumed run is an option of the call with some designated paths removed (never
   all of them turned into "no designation"): whatever it attaches to, the caller's option does *)
Lemma live_opts_from opts plan o' :
  In o' (live_opts plan opts) ->
  exists o, In o opts /\ fst o' = fst o /\ (snd o = [] <-> snd o' = []) /\ incl (snd o') (snd o).
Proof.
  unfold live_opts. rewrite in_flat_map. intros (o & Ho & H). exists o. split; auto.
  destruct (snd o) as [|p ps] eqn:E.
  - destruct H as [<-|[]]. rewrite E. repeat split; auto; apply incl_refl.
  - destruct (filter (path_live plan) (p :: ps)) as [|p' ps'] eqn:F; [contradiction|].
    destruct H as [<-|[]]. simpl. repeat split; try discriminate.
    rewrite <- F. intros q Hq. apply filter_In in Hq. tauto.
Qed.

Lemma live_opts_attaches opts plan o' :
  In o' (live_opts plan opts) ->
  exists o, In o opts /\ fst o' = fst o /\ forall q, attaches o' q -> attaches o q.
Proof.
  intros H. destruct (live_opts_from _ _ _ H) as (o & Ho & Ef & Enil & Hincl).
  exists o. repeat split; auto. intros q [A|(p & Hp & Hne & Hpre)].
  - left. tauto.
  - right. exists p. repeat split; auto.
Qed.

(* ---------------------------------------------------------------- the sequence ends *)

Lemma stages_outcome_intr os : stages_outcome os = OutIntr -> existsb (existsb is_intr) os = true.
Proof.
  induction os as [|st os IH]; simpl; [discriminate|].
  destruct (existsb is_fail st); [discriminate|].
  destruct (existsb is_intr st); simpl; auto.
Qed.

Definition stage_intr (st : list rnode) : nat := list_sum (map node_intr st).

Lemma list_sum_map_le {A} (f g : A -> nat) l : (forall x, In x l -> f x <= g x) -> list_sum (map f l) <= list_sum (map g l).
Proof. induction l as [|a l IH]; simpl; intros H; auto. specialize (H a (or_introl eq_refl)) as Ha. specialize (IH (fun x Hx => H x (or_intror Hx))). lia. Qed.

Lemma list_sum_map_lt {A} (f g : A -> nat) l :
  (forall x, In x l -> f x <= g x) -> (exists x, In x l /\ f x < g x) -> list_sum (map f l) < list_sum (map g l).
Proof.
  induction l as [|a l IH]; simpl; intros H (x & Hx & L); [contradiction|].
  pose proof (H a (or_introl eq_refl)) as Ha.
  pose proof (list_sum_map_le f g l (fun y Hy => H y (or_intror Hy))) as Hl.
  destruct Hx as [<-|Hx]; [lia|].
  assert (list_sum (map f l) < list_sum (map g l)) by (apply IH; eauto). lia.
Qed.

(* resume_walk over nodes paired with (outcome, resumption): the interrupts still to come
   decrease strictly when some node asked for an interrupt *)
Definition tot (stages : list (list rnode)) : nat := list_sum (map (fun st => list_sum (map node_intr st)) stages).

Lemma resume_walk_decreases (os : list (list (rnode * outcome * rnode))) :
  (forall st x, In st os -> In x st -> node_intr (snd x) <= node_intr (fst (fst x))) ->
  (forall st x, In st os -> In x st -> is_intr (snd (fst x)) = true -> node_intr (snd x) < node_intr (fst (fst x))) ->
  existsb (existsb (fun x => is_intr (snd (fst x)))) os = true ->
  tot (resume_walk os) < tot (map (map (fun x => fst (fst x))) os).
Proof.
  unfold tot. induction os as [|st os IH]; simpl; intros Hle Hlt Hex; [discriminate|].
  destruct (existsb (fun x => is_intr (snd (fst x))) st) eqn:E; simpl.
  - apply existsb_exists in E. destruct E as (x & Hx & Ix).
    assert (list_sum (map node_intr (map (fun x => if is_intr (snd (fst x)) then snd x else done_of (fst (fst x))) st))
            < list_sum (map node_intr (map (fun x => fst (fst x)) st))).
    { rewrite !map_map. apply list_sum_map_lt.
      - intros y Hy. destruct (is_intr (snd (fst y))); [apply (Hle st); auto|apply done_of_intr].
      - exists x. split; auto. rewrite Ix. apply (Hlt st); auto. }
    lia.
  - assert (list_sum (map node_intr (map (fun x => done_of (fst (fst x))) st))
            <= list_sum (map node_intr (map (fun x => fst (fst x)) st))).
    { rewrite !map_map. apply list_sum_map_le. intros y Hy. apply done_of_intr. }
    assert (list_sum (map (fun st0 => list_sum (map node_intr st0)) (resume_walk os)) <
            list_sum (map (fun st0 => list_sum (map node_intr st0)) (map (map (fun x => fst (fst x))) os))).
    { apply IH; auto.
      - intros st' x Hs Hx. apply (Hle st'); auto.
      - intros st' x Hs Hx. apply (Hlt st'); auto. }
    lia.
Qed.

Lemma existsb_map' {X Y} (f : Y -> bool) (g : X -> Y) l : existsb f (map g l) = existsb (fun x => f (g x)) l.
Proof. induction l as [|a l IH]; simpl; auto. now rewrite IH. Qed.

Lemma calls_outcome_intr calls :
  calls_outcome calls = OutIntr -> exists c, In c calls /\ 0 < snd c.
Proof.
  induction calls as [|c cs IH]; simpl; [discriminate|].
  destruct c as [[[[cu cinf] natives] fails] intr]. destruct intr as [|k].
  - destruct fails; [discriminate|]. intros H. destruct (IH H) as (c & Hc & L). eauto.
  - intros _. exists (cu, cinf, natives, fails, S k). split; auto. simpl. lia.
Qed.

Lemma resume_node_le n : forall opts, node_intr (resume_node opts n) <= node_intr n.
Proof.
  induction n as [uid key inf natives fails intr|uid key|uid key sh|uid key inf stages IH|uid key inf calls|armed|delay]
    using rnode_ind'; intros opts; simpl; try lia.
  - (* sub: every node of the walk is replaced by something not larger *)
    set (F := fun m => node_outcome (sub_opts key opts) m).
    set (G := fun m => resume_node (sub_opts key opts) m).
    assert (Hgen : forall sts, Forall (Forall (fun m => forall o, node_intr (resume_node o m) <= node_intr m)) sts ->
              list_sum (map (fun st => list_sum (map node_intr st)) (resume_walk (map (map (fun m => (m, F m, G m))) sts)))
              <= list_sum (map (fun st => list_sum (map node_intr st)) sts)).
    { induction 1 as [|st sts Hst Hsts IHs]; simpl; auto.
      destruct (existsb _ _).
      - simpl. rewrite map_map_fst3.
        assert (list_sum (map node_intr (map (fun x : rnode * outcome * rnode => if is_intr (snd (fst x)) then snd x else done_of (fst (fst x)))
                                            (map (fun m => (m, F m, G m)) st)))
                <= list_sum (map node_intr st)).
        { rewrite !map_map. apply list_sum_map_le. intros m Hm. simpl.
          rewrite Forall_forall in Hst. destruct (is_intr (F m)); [apply Hst; auto|apply done_of_intr]. }
        lia.
      - simpl.
        assert (list_sum (map node_intr (map (fun x : rnode * outcome * rnode => done_of (fst (fst x))) (map (fun m => (m, F m, G m)) st)))
                <= list_sum (map node_intr st)).
        { rewrite !map_map. apply list_sum_map_le. intros m Hm. apply done_of_intr. }
        lia. }
    apply Hgen. exact IH.
  - rewrite map_map. apply list_sum_map_le. intros c _.
    destruct c as [[[[cu cinf] natives] fails] intr]. simpl. lia.
Qed.

Lemma resume_node_lt n : forall opts, node_outcome opts n = OutIntr -> node_intr (resume_node opts n) < node_intr n.
Proof.
  induction n as [uid key inf natives fails intr|uid key|uid key sh|uid key inf stages IH|uid key inf calls|armed|delay]
    using rnode_ind'; intros opts; simpl; try discriminate.
  - destruct intr; [destruct fails; discriminate|]. simpl. lia.
  - destruct (negb _); [discriminate|]. intros Ho.
    set (F := fun m => node_outcome (sub_opts key opts) m).
    set (G := fun m => resume_node (sub_opts key opts) m).
    pose proof (resume_walk_decreases (map (map (fun m => (m, F m, G m))) stages)) as D.
    unfold tot in D. rewrite map_map_fst3 in D. apply D.
    + intros st' x Hs Hx. apply in_map_iff in Hs. destruct Hs as (st & <- & Hst).
      apply in_map_iff in Hx. destruct Hx as (m & <- & Hm). simpl. apply resume_node_le.
    + intros st' x Hs Hx. apply in_map_iff in Hs. destruct Hs as (st & <- & Hst).
      apply in_map_iff in Hx. destruct Hx as (m & <- & Hm). simpl. intros I.
      rewrite Forall_forall in IH. specialize (IH st Hst). rewrite Forall_forall in IH.
      apply IH; auto. unfold F in I. destruct (node_outcome (sub_opts key opts) m); try discriminate; auto.
    + apply stages_outcome_intr in Ho. rewrite existsb_map' in Ho. rewrite existsb_map'.
      erewrite existsb_ext_in; [exact Ho|]. intros st _. simpl. rewrite !existsb_map'. reflexivity.
  - intros Ho. apply calls_outcome_intr in Ho. destruct Ho as (c & Hc & L).
    rewrite map_map. apply list_sum_map_lt.
    + intros c' _. destruct c' as [[[[cu cinf] natives] fails] intr]. simpl. lia.
    + exists c. split; auto. destruct c as [[[[cu cinf] natives] fails] intr]. simpl in *. lia.
  - destruct armed; [discriminate|]. simpl. lia.
  - destruct delay; discriminate.
Qed.

Lemma resume_stages_decreases opts plan :
  run_outcome opts plan = OutIntr -> total_intr (resume_stages opts plan) < total_intr plan.
Proof.
  unfold run_outcome, resume_stages, total_intr. destruct (negb _); [discriminate|]. intros Ho.
  pose proof (resume_walk_decreases (map (map (fun m => (m, node_outcome opts m, resume_node opts m))) plan)) as D.
  unfold tot in D. rewrite map_map_fst3 in D. apply D.
  - intros st' x Hs Hx. apply in_map_iff in Hs. destruct Hs as (st & <- & Hst).
    apply in_map_iff in Hx. destruct Hx as (m & <- & Hm). simpl. apply resume_node_le.
  - intros st' x Hs Hx. apply in_map_iff in Hs. destruct Hs as (st & <- & Hst).
    apply in_map_iff in Hx. destruct Hx as (m & <- & Hm). simpl. intros I.
    apply resume_node_lt. destruct (node_outcome opts m); try discriminate; auto.
  - apply stages_outcome_intr in Ho. rewrite existsb_map' in Ho. rewrite existsb_map'.
    erewrite existsb_ext_in; [exact Ho|]. intros st _. simpl. rewrite !existsb_map'. reflexivity.
Qed.

(* ---------------------------------------------------------------- every run with call options of its own *)

Lemma plan_seqf_uids fuel : forall k os plan op,
  In op (plan_seqf fuel k os plan) -> subseq (rstages_uids (snd op)) (rstages_uids plan) /\ exists j, fst op = os j.
Proof.
  induction fuel as [|f IH]; simpl; intros k os plan op H; [contradiction|].
  destruct H as [<-|H]; [split; [apply subseq_refl|exists k; reflexivity]|].
  destruct (is_intr (run_outcome (live_opts plan (os k)) plan)); [|contradiction].
  destruct (IH _ _ _ _ H) as (S & J). split; auto.
  eapply subseq_trans; [exact S|]. apply resume_stages_uids.
Qed.

Lemma run_seqf_NoDup fuel os plan g r :
  NoDup (g :: rstages_uids plan) -> In r (run_seqf fuel os plan) -> NoDup (g :: stages_uids (snd r)).
Proof.
  intros N H. unfold run_seqf in H. apply in_map_iff in H. destruct H as (op & <- & Hp). simpl.
  apply proj_NoDup. eapply NoDup_subseq; [|exact N]. apply ss_keep. eapply plan_seqf_uids; eauto.
Qed.

Theorem runsf_unit_logs w is_stream g ginf fuel os plan r t :
  NoDup (g :: rstages_uids plan) ->
  In r (run_seqf fuel os plan) ->
  traces (graph_prog is_stream g ginf (fst r) (snd r)) t ->
  forall e, In e (graph_table is_stream g ginf (fst r) (snd r)) ->
    filter (of_unit (ue_unit e)) (st_log (run_script true w t)) = uexp_events w e.
Proof. intros N H T. apply engine_unit_logs; auto. eapply run_seqf_NoDup; eauto. Qed.

Theorem runsf_no_other_events w is_stream g ginf fuel os plan r t :
  NoDup (g :: rstages_uids plan) ->
  In r (run_seqf fuel os plan) ->
  traces (graph_prog is_stream g ginf (fst r) (snd r)) t ->
  forall ev, In ev (st_log (run_script true w t)) ->
    exists e, In e (graph_table is_stream g ginf (fst r) (snd r)) /\ ev_unit ev = ue_unit e /\
              In ev (uexp_events w e).
Proof. intros N H T. apply engine_no_other_events; auto. eapply run_seqf_NoDup; eauto. Qed.

Theorem runsf_exactly_once_paired w is_stream g ginf fuel os plan r t :
  NoDup (g :: rstages_uids plan) ->
  In r (run_seqf fuel os plan) ->
  traces (graph_prog is_stream g ginf (fst r) (snd r)) t ->
  forall e, In e (graph_table is_stream g ginf (fst r) (snd r)) ->
  forall s f, ue_timings e = [s; f] ->
  forall x tm,
    List.length (filter (is_ev (ue_unit e) x tm (ue_info e)) (st_log (run_script true w t))) =
    if (timing_eqb tm s || timing_eqb tm f) && w_needs w x tm
    then count_occ N.eq_dec (ue_list e ++ w_globals w) x else 0%nat.
Proof. intros N H T. apply engine_exactly_once_paired; auto. eapply run_seqf_NoDup; eauto. Qed.

(* in every run a handler is invoked for a unit only if it is global or an option of the call of
   THAT run attaches it to the unit's node path: no handler of another run's call is ever invoked *)
Theorem runsf_invoked_only_where_attached w is_stream g ginf fuel os plan r t :
  NoDup (g :: rstages_uids plan) ->
  In r (run_seqf fuel os plan) ->
  traces (graph_prog is_stream g ginf (fst r) (snd r)) t ->
  exists j, forall ev, In ev (st_log (run_script true w t)) ->
    exists e pe, In (e, pe) (graph_table_p is_stream g ginf (fst r) (snd r)) /\
      ev_unit ev = ue_unit e /\
      (In (ev_handler ev) (w_globals w) \/
       exists o, In o (os j) /\ In (ev_handler ev) (fst o) /\ attaches o pe).
Proof.
  intros N H T.
  pose proof (run_seqf_NoDup _ _ _ _ _ N H) as N'.
  unfold run_seqf in H. apply in_map_iff in H. destruct H as (op & <- & Hp).
  destruct (plan_seqf_uids _ _ _ _ _ Hp) as (_ & j & Ej). exists j.
  intros ev Hev.
  destruct (engine_invoked_only_where_attached w is_stream g ginf _ _ t N' T ev Hev) as (e & pe & Hin & Hu & D).
  exists e, pe. repeat split; auto. destruct D as [D|(o' & Ho' & Hx & Ha)]; [left; auto|right].
  simpl in Ho'. destruct (live_opts_attaches _ _ _ Ho') as (o & Ho & Ef & Hat).
  exists o. rewrite <- Ej. repeat split; auto. now rewrite <- Ef.
Qed.

(* with fuel beyond the number of interrupts still to come the sequence is complete: its last
   run is not interrupted *)
Theorem plan_seqf_complete fuel : forall k os plan,
  total_intr plan < fuel ->
  exists pre last, plan_seqf fuel k os plan = pre ++ [last] /\
    is_intr (run_outcome (live_opts (snd last) (fst last)) (snd last)) = false.
Proof.
  induction fuel as [|f IH]; intros k os plan L; [lia|]. simpl.
  destruct (is_intr (run_outcome (live_opts plan (os k)) plan)) eqn:E.
  - assert (Ho : run_outcome (live_opts plan (os k)) plan = OutIntr)
      by (destruct (run_outcome (live_opts plan (os k)) plan); try discriminate; auto).
    pose proof (resume_stages_decreases _ _ Ho) as D.
    destruct (IH (S k) os (resume_stages (live_opts plan (os k)) plan)) as (pre & last & Eq & Hl); [lia|].
    exists ((os k, plan) :: pre), last. split; auto. simpl. now rewrite Eq.
  - exists [], (os k, plan). split; auto.
Qed.

Lemma plan_seqf_fuel fuel : forall k os plan d,
  total_intr plan < fuel -> plan_seqf (fuel + d) k os plan = plan_seqf fuel k os plan.
Proof.
  induction fuel as [|f IH]; intros k os plan d L; [lia|]. simpl.
  destruct (is_intr (run_outcome (live_opts plan (os k)) plan)) eqn:E; auto.
  f_equal. apply IH.
  assert (Ho : run_outcome (live_opts plan (os k)) plan = OutIntr)
    by (destruct (run_outcome (live_opts plan (os k)) plan); try discriminate; auto).
  pose proof (resume_stages_decreases _ _ Ho). lia.
Qed.
