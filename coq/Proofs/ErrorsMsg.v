(* Proofs/ErrorsMsg.v — property C13, part 4: the node path a caller can READ.  The wrapper type
   is private, so the public carrier of the path is the error's message; [msg_path] is the node
   path printed last in it.  For every error a run returns because a node failed, in every
   paradigm of the caller, that is the path of the failing node. *)
From Eino Require Import Base.Util Model.Errors Proofs.Errors Proofs.ErrorsRun.

(* the error is the wrapper itself and its own node path is not empty *)
Definition named (e : err) : Prop :=
  match e with Internal _ _ (_ :: _) _ => True | _ => False end.

Lemma named_msg_path : forall e, named e -> msg_path e = np_of e.
Proof.
  intros e H. destruct e; try contradiction. destruct np as [|k np]; [contradiction|].
  unfold msg_path. cbn [msg_paths]. rewrite last_last. reflexivity.
Qed.

Lemma wrap_node_named : forall k e, is_interrupt_error e = false -> named (wrap_node k e).
Proof.
  intros k e H. unfold wrap_node, wrap_node_gen. unfold is_interrupt_error in H. rewrite H.
  destruct e; try exact I; destruct (as_internal_gen true _) as [[[[t' sp'] np'] o']|]; exact I.
Qed.

Lemma wrap_stream_named : forall a e, named e -> named (wrap_stream a e).
Proof.
  intros a e H. unfold wrap_stream, wrap_stream_gen.
  destruct (is_interrupt_error_gen true e); [exact H|].
  destruct e; try contradiction. exact H.
Qed.

Lemma top_error_named : forall par e, named e -> named (top_error par e).
Proof. intros par e H. destruct par; cbn [top_error]; auto using wrap_stream_named. Qed.

Lemma wrap_path_named : forall p r, p <> [] -> is_interrupt_error r = false -> named (wrap_path p r).
Proof.
  intros p r Hp Hr. destruct p as [|k p]; [contradiction|]. cbn [wrap_path fold_right].
  fold (wrap_path p r). apply wrap_node_named. rewrite wrap_path_interrupt. exact Hr.
Qed.

Lemma node_named_in_message_lemma : forall F stream g e p r,
  reported F stream g e p r -> p <> [] -> is_interrupt_error r = false ->
  forall par, msg_path (top_error par e) = p ++ np_of r.
Proof.
  intros F stream g e p r Hrep Hp Hr par.
  pose proof (reported_shape _ _ _ _ _ _ Hrep) as ->.
  rewrite named_msg_path by (apply top_error_named, wrap_path_named; assumption).
  rewrite top_error_path. apply wrap_path_np. exact Hr.
Qed.

(* errors of a graph's own loop (limit, cancellation) at the top level carry no node path: the
   message names no node *)
Lemma graph_level_sentinel_msg : forall par,
  msg_path (top_error par (new_graph_run_error (Leaf id_exceed))) = [] /\
  msg_path (top_error par (new_graph_run_error (Wrapf (Leaf id_canceled)))) = [].
Proof. intros par. destruct par; split; reflexivity. Qed.
