(* Proofs/FieldMapComm.v — two assignments (assignOne) to non-overlapping target paths
   commute; hence convertTo gives the same value for every iteration order of its
   map[string]any argument (Go randomises map iteration). *)
From Coq Require Import Permutation.
From Eino Require Import Base.Util Base.FMUniverse Model.FieldMap Proofs.FieldMapOverlap Proofs.FieldMapAssign.

(* ------------------------------------------------------------ the map step *)
Section MapStep.
  Variable env : senv.
  Variable t : ty.
  Variable e : ty.
  Hypothesis Hre : forall o, any_enter t (VMap true e o) = VMap true e o.

  Definition mstep (es : list (N * val)) (f : N) (rest : path) (x : val) : option val :=
    option_map (fun a => VMap true e (Some (ains f a es)))
      (assign_next env e (entry_of e (aget f es)) rest x (store_map e x)).

  Lemma assign_mstep : forall es f rest x,
    assign env t (VMap true e (Some es)) (f :: rest) x = mstep es f rest x.
  Proof. intros. rewrite assign_cons, Hre. reflexivity. Qed.

  Lemma mstep_comm : forall es f pr g qr x y,
    (forall q t' v x' y', q <> [] -> conflict pr q = false -> npa env t' v pr -> npa env t' v q -> pr <> [] ->
        obind (assign env t' v pr x') (fun v' => assign env t' v' q y') =
        obind (assign env t' v q y') (fun v' => assign env t' v' pr x')) ->
    conflict (f :: pr) (g :: qr) = false ->
    (pr <> [] -> npa env e (entry_of e (aget f es)) pr) ->
    (qr <> [] -> npa env e (entry_of e (aget g es)) qr) ->
    obind (mstep es f pr x) (fun v' => assign env t v' (g :: qr) y) =
    obind (mstep es g qr y) (fun v' => assign env t v' (f :: pr) x).
  Proof.
    intros es f pr g qr x y IH Hc Np Nq.
    destruct (N.eq_dec f g) as [->|Hfg].
    - rewrite conflict_cons_same in Hc.
      destruct pr as [|f' pr']; [rewrite conflict_nil_l in Hc; discriminate|].
      destruct qr as [|g' qr']; [rewrite conflict_sym, conflict_nil_l in Hc; discriminate|].
      unfold mstep. rewrite !obind_map, !assign_next_cons.
      set (E := entry_of e (aget g es)).
      assert (R : forall (Q : path) (Y : val) (a : val), Q <> [] ->
                 assign env t (VMap true e (Some (ains g a es))) (g :: Q) Y =
                 option_map (fun b => VMap true e (Some (ains g b es))) (assign env e a Q Y)).
      { intros Q Y a HQ. rewrite assign_mstep. unfold mstep.
        rewrite aget_ains_same. simpl entry_of.
        destruct Q as [|g0 Q0]; [contradiction|]. rewrite assign_next_cons.
        apply option_map_ext'. intro b. rewrite ains_ains_same. reflexivity. }
      specialize (IH (g' :: qr') e E x y ltac:(discriminate) Hc (Np ltac:(discriminate))
                     (Nq ltac:(discriminate)) ltac:(discriminate)).
      destruct (assign env e E (f' :: pr') x) as [a|] eqn:Ea;
        destruct (assign env e E (g' :: qr') y) as [b|] eqn:Eb; simpl obind in *.
      + rewrite !R by discriminate. rewrite IH. reflexivity.
      + rewrite R by discriminate. rewrite IH. reflexivity.
      + rewrite R by discriminate. rewrite <- IH. reflexivity.
      + reflexivity.
    - assert (R : forall f g (Q : path) (Y : val) a, f <> g ->
                 assign env t (VMap true e (Some (ains f a es))) (g :: Q) Y =
                 option_map (fun b => VMap true e (Some (ains g b (ains f a es))))
                   (assign_next env e (entry_of e (aget g es)) Q Y (store_map e Y))).
      { intros f0 g0 Q Y a Hne. rewrite assign_mstep. unfold mstep.
        rewrite aget_ains_other by congruence. reflexivity. }
      unfold mstep. rewrite !obind_map.
      set (A := assign_next env e (entry_of e (aget f es)) pr x (store_map e x)).
      set (B := assign_next env e (entry_of e (aget g es)) qr y (store_map e y)).
      etransitivity.
      { apply obind_ext. intro a. rewrite (R f g qr y a Hfg). fold B. reflexivity. }
      symmetry. etransitivity.
      { apply obind_ext. intro b. rewrite (R g f pr x b (not_eq_sym Hfg)). fold A. reflexivity. }
      destruct A, B; simpl; try reflexivity. rewrite ains_comm by congruence. reflexivity.
  Qed.
End MapStep.

(* ------------------------------------------------------------ commutation *)

Lemma any_enter_idem : forall t v, any_enter t (any_enter t v) = any_enter t v.
Proof.
  intros t v. destruct t; try reflexivity.
  destruct v as [| | | |? ?|[] [] ?]; reflexivity.
Qed.

Lemma assign_enter : forall env t v p x, assign env t v p x = assign env t (any_enter t v) p x.
Proof.
  intros env t v [|f rest] x; [reflexivity|]. rewrite !assign_cons, any_enter_idem. reflexivity.
Qed.

Lemma npa_enter : forall env t v q, npa env t v q = npa env t (any_enter t v) q.
Proof.
  intros env t v [|f rest]; [reflexivity|]. cbn [npa]. rewrite any_enter_idem. reflexivity.
Qed.

Lemma npa_rewrap : forall env t isptr u n fs f g rest ft,
  (forall v', any_enter t v' = v') ->
  lookup_field env n f = Some (true, ft) ->
  npa env t (rewrap isptr u (VStruct n fs)) (f :: g :: rest) ->
  npa env ft (instantiate (field_of ft (aget f fs))) (g :: rest).
Proof.
  intros env t isptr u n fs f g rest ft Hre Hl H. cbn [npa] in H. rewrite Hre in H.
  destruct isptr; simpl in H; rewrite Hl in H; exact H.
Qed.

Lemma npa_map_step : forall env t e es f g rest,
  (forall o, any_enter t (VMap true e o) = VMap true e o) ->
  npa env t (VMap true e (Some es)) (f :: g :: rest) ->
  npa env e (entry_of e (aget f es)) (g :: rest).
Proof. intros env t e es f g rest Hre H. cbn [npa] in H. rewrite Hre in H. exact H. Qed.

Lemma assign_nilptr_last : forall env t u f x,
  (forall v', any_enter t v' = v') ->
  assign env t (VPtr u None) [f] x = assign env t (VPtr u (Some (zero u))) [f] x.
Proof. intros. rewrite !assign_cons, !H. reflexivity. Qed.

Section Comm.
  Variable env : senv.

  Lemma assign_comm : forall p q t v x y,
    p <> [] -> q <> [] -> conflict p q = false -> npa env t v p -> npa env t v q ->
    obind (assign env t v p x) (fun v' => assign env t v' q y) =
    obind (assign env t v q y) (fun v' => assign env t v' p x).
  Proof.
    induction p as [|f pr IHp]; intros q t v x y Hp Hq Hc Np Nq; [contradiction|].
    destruct q as [|g qr]; [contradiction|].
    assert (IH : forall q t' v x' y', q <> [] -> conflict pr q = false -> npa env t' v pr -> npa env t' v q -> pr <> [] ->
        obind (assign env t' v pr x') (fun v' => assign env t' v' q y') =
        obind (assign env t' v q y') (fun v' => assign env t' v' pr x')).
    { intros. apply IHp; auto. }
    clear IHp.
    rewrite (assign_enter env t v (f :: pr)), (assign_enter env t v (g :: qr)).
    rewrite npa_enter in Np, Nq.
    destruct (any_enter t v) as [| | |n fs|u o|ks e o] eqn:Ev.
    6: { (* a map *)
      assert (Hre : forall o', any_enter t (VMap ks e o') = VMap ks e o').
      { intro o'. eapply any_enter_map; eauto. }
      destruct ks.
      2: { rewrite !assign_cons, !Hre. reflexivity. }
      destruct o as [es|].
      2: { rewrite !assign_cons, !Hre. reflexivity. }
      rewrite !(assign_mstep env t e Hre).
      apply (mstep_comm env t e Hre); auto.
      - intro H. destruct pr; [contradiction|]. eapply npa_map_step; eauto.
      - intro H. destruct qr; [contradiction|]. eapply npa_map_step; eauto. }
    all: assert (Hre : forall v', any_enter t v' = v')
           by (apply (any_enter_notmap t v); intros ks0 e0 o0; rewrite Ev; discriminate).
    1-3: rewrite !assign_cons, !Hre; reflexivity.
    - (* a struct *)
      change (VStruct n fs) with (rewrap false TInt (VStruct n fs)) in *.
      rewrite !(assign_rewrap env t false TInt n Hre (fun _ => eq_refl) eq_refl).
      apply (sstep_comm env t false TInt n Hre (fun _ => eq_refl) eq_refl); auto.
      + intros ft Hl H. destruct pr; [contradiction|]. eapply npa_rewrap; eauto.
      + intros ft Hl H. destruct qr; [contradiction|]. eapply npa_rewrap; eauto.
    - (* a pointer *)
      destruct (is_any u) eqn:Hua.
      { (* a pointer to an interface is never followed *)
        rewrite !assign_cons, !Hre. simpl.
        destruct o as [w|]; [destruct w; simpl; rewrite ?Hua; reflexivity|].
        destruct (is_nil_path pr), (is_nil_path qr); simpl; try reflexivity;
          destruct (zero u); simpl; rewrite ?Hua; reflexivity. }
      assert (K : forall n fs,
                 npa env t (VPtr u (Some (VStruct n fs))) (f :: pr) ->
                 npa env t (VPtr u (Some (VStruct n fs))) (g :: qr) ->
                 obind (assign env t (VPtr u (Some (VStruct n fs))) (f :: pr) x) (fun v' => assign env t v' (g :: qr) y) =
                 obind (assign env t (VPtr u (Some (VStruct n fs))) (g :: qr) y) (fun v' => assign env t v' (f :: pr) x)).
      { intros n fs Np' Nq'.
        change (VPtr u (Some (VStruct n fs))) with (rewrap true u (VStruct n fs)) in *.
        assert (Hu : true = false -> u = TInt) by discriminate.
        rewrite !(assign_rewrap env t true u n Hre Hu Hua).
        apply (sstep_comm env t true u n Hre Hu Hua); auto.
        + intros ft Hl H. destruct pr; [contradiction|]. eapply npa_rewrap; eauto.
        + intros ft Hl H. destruct qr; [contradiction|]. eapply npa_rewrap; eauto. }
      destruct o as [w|].
      + destruct w; try (rewrite !assign_cons, !Hre; reflexivity). apply K; assumption.
      + destruct pr as [|f' pr'].
        2: { cbn [npa] in Np. rewrite Hre in Np. contradiction. }
        destruct qr as [|g' qr'].
        2: { cbn [npa] in Nq. rewrite Hre in Nq. contradiction. }
        rewrite !(assign_nilptr_last env t u _ _ Hre).
        destruct (zero u) eqn:Ez; try (rewrite !assign_cons, !Hre; simpl; rewrite ?Ez; reflexivity).
        apply K; cbn [npa]; rewrite Hre; exact I.
  Qed.
End Comm.

(* ------------------------------------------------------------ the invariant is kept *)

Lemma npa_cons2 : forall env t v f g rest,
  npa env t v (f :: g :: rest) =
  match any_enter t v with
  | VMap ks e (Some es) => npa env e (entry_of e (aget f es)) (g :: rest)
  | VMap _ _ None => True
  | v1 =>
      match v1 with
      | VPtr _ None => False
      | _ =>
          match unwrap v1 false with
          | Some (_, _, VStruct n fs) =>
              match lookup_field env n f with
              | Some (true, ft) => npa env ft (instantiate (field_of ft (aget f fs))) (g :: rest)
              | _ => True
              end
          | _ => True
          end
      end
  end.
Proof. reflexivity. Qed.

Arguments npa : simpl never.

Lemma npa_last : forall env t v g, npa env t v [g].
Proof.
  intros. unfold npa. destruct (any_enter t v) as [| | | | |? ? [?|]]; exact I.
Qed.

Lemma npa_preserved : forall env p q t v x v',
  conflict p q = false -> npa env t v q -> assign env t v p x = Some v' -> npa env t v' q.
Proof.
  intros env. induction p as [|f pr IH]; intros q t v x v' Hc Nq Ha; [discriminate|].
  destruct q as [|g [|g' qr]]; [exact I | apply npa_last |].
  rewrite assign_enter in Ha. rewrite npa_enter in Nq.
  destruct (any_enter t v) as [| | |n fs|u o|ks e o] eqn:Ev.
  6: { assert (Hre : forall o', any_enter t (VMap ks e o') = VMap ks e o').
       { intro o'. eapply any_enter_map; eauto. }
       destruct ks; [|rewrite assign_cons, Hre in Ha; discriminate].
       destruct o as [es|]; [|rewrite assign_cons, Hre in Ha; discriminate].
       rewrite (assign_mstep env t e Hre) in Ha. unfold mstep in Ha.
       destruct (assign_next _ _ _ _ _ _) as [a|] eqn:Ea; [|discriminate].
       inversion Ha; subst v'. clear Ha.
       rewrite npa_cons2, Hre. rewrite npa_cons2, Hre in Nq.
       destruct (N.eq_dec f g) as [->|Hfg].
       - rewrite conflict_cons_same in Hc. rewrite aget_ains_same. simpl entry_of.
         destruct pr as [|f' pr']; [rewrite conflict_nil_l in Hc; discriminate|].
         rewrite assign_next_cons in Ea. eapply IH; eauto.
       - rewrite aget_ains_other by congruence. exact Nq. }
  all: assert (Hre : forall v', any_enter t v' = v')
         by (apply (any_enter_notmap t v); intros ks0 e0 o0; rewrite Ev; discriminate).
  1-3: rewrite assign_cons, Hre in Ha; discriminate.
  - (* struct *)
    rewrite assign_cons, Hre in Ha. simpl in Ha.
    destruct (lookup_field env n f) as [[[] ft]|] eqn:Hlf; try discriminate.
    destruct (assign_next _ _ _ _ _ _) as [a|] eqn:Ea; [|discriminate].
    inversion Ha; subst v'. clear Ha.
    rewrite npa_cons2, Hre. rewrite npa_cons2, Hre in Nq. simpl in *.
    destruct (lookup_field env n g) as [[[] gt]|] eqn:Hlg; try exact I.
    destruct (N.eq_dec f g) as [->|Hfg].
    + rewrite conflict_cons_same in Hc. rewrite aget_ains_same. simpl field_of.
      destruct pr as [|f' pr']; [rewrite conflict_nil_l in Hc; discriminate|].
      rewrite assign_next_cons in Ea. rewrite Hlf in Hlg. inversion Hlg; subst gt.
      rewrite (assign_result_inst _ _ _ _ _ _ Ea). eapply IH; eauto.
    + rewrite aget_ains_other by congruence. exact Nq.
  - (* pointer *)
    destruct o as [w|].
    2: { rewrite npa_cons2, Hre in Nq. contradiction. }
    rewrite assign_cons, Hre in Ha. simpl in Ha.
    destruct w as [| | |n fs| |]; try discriminate.
    destruct (is_any u); [discriminate|].
    destruct (lookup_field env n f) as [[[] ft]|] eqn:Hlf; try discriminate.
    destruct (assign_next _ _ _ _ _ _) as [a|] eqn:Ea; [|discriminate].
    inversion Ha; subst v'. clear Ha.
    rewrite npa_cons2, Hre. rewrite npa_cons2, Hre in Nq. simpl in *.
    destruct (lookup_field env n g) as [[[] gt]|] eqn:Hlg; try exact I.
    destruct (N.eq_dec f g) as [->|Hfg].
    + rewrite conflict_cons_same in Hc. rewrite aget_ains_same. simpl field_of.
      destruct pr as [|f' pr']; [rewrite conflict_nil_l in Hc; discriminate|].
      rewrite assign_next_cons in Ea. rewrite Hlf in Hlg. inversion Hlg; subst gt.
      rewrite (assign_result_inst _ _ _ _ _ _ Ea). eapply IH; eauto.
    + rewrite aget_ains_other by congruence. exact Nq.
Qed.

(* the value convertTo starts from, and everything instantiated on the way down, has no
   nil pointer on any path *)
Lemma npa_fresh : forall env q t, npa env t (new_instance t) q /\ npa env t (instantiate (zero t)) q.
Proof.
  intros env. induction q as [|f rest IH]; intro t; [split; exact I|].
  destruct rest as [|g rest']; [split; apply npa_last|].
  assert (S : forall n, npa env (TStruct n) (VStruct n []) (f :: g :: rest')).
  { intro n. rewrite npa_cons2. simpl.
    destruct (lookup_field env n f) as [[[] ft]|]; try exact I. apply IH. }
  assert (M : forall t0 ks e, any_enter t0 (VMap ks e (Some [])) = VMap ks e (Some []) ->
              npa env t0 (VMap ks e (Some [])) (f :: g :: rest')).
  { intros t0 ks e E. rewrite npa_cons2, E. simpl. apply IH. }
  assert (P : forall u w, (forall fs n, w = VStruct n fs -> fs = []) ->
              npa env (TPtr u) (VPtr u (Some w)) (f :: g :: rest')).
  { intros u w Hw. rewrite npa_cons2. simpl. destruct w; try exact I.
    rewrite (Hw _ _ eq_refl). simpl.
    destruct (lookup_field env n f) as [[[] ft]|]; try exact I. apply IH. }
  destruct t as [| | |n|u|ks e]; simpl new_instance; simpl zero; simpl instantiate.
  - split; rewrite npa_cons2; exact I.
  - split; rewrite npa_cons2; exact I.
  - split; rewrite npa_cons2; simpl; apply IH.
  - split; apply S.
  - split; apply P.
    + intros fs n E. destruct u; simpl in E; try discriminate. inversion E; reflexivity.
    + intros fs n E. destruct u; simpl in E; try discriminate. inversion E; reflexivity.
  - split; apply M; reflexivity.
Qed.

(* ------------------------------------------------------------ every order, same value *)

Definition keys (m : fmap) : list path := map fst m.
Definition npa_all (env : senv) (T : ty) (v : val) (m : fmap) : Prop :=
  Forall (fun kv => npa env T v (fst kv)) m.
Definition nonempty_keys (m : fmap) : Prop := Forall (fun kv => fst kv <> []) m.

Lemma assign_one_nonempty : forall env T v k x, k <> [] -> assign_one env T v k x = assign env T v k x.
Proof. intros env T v [|f k] x H; [contradiction | reflexivity]. Qed.

Lemma assign_all_cons : forall env T v k x m,
  assign_all env T v ((k, x) :: m) = obind (assign_one env T v k x) (fun v' => assign_all env T v' m).
Proof. intros. simpl. destruct (assign_one env T v k x); reflexivity. Qed.

Lemma obind_assoc : forall {A B C} (o : option A) (f : A -> option B) (g : B -> option C),
  obind (obind o f) g = obind o (fun a => obind (f a) g).
Proof. intros. destruct o; reflexivity. Qed.

Lemma npa_all_preserved : forall env T v k x v' m,
  Forall (fun q => conflict k q = false) (keys m) ->
  npa_all env T v m -> assign env T v k x = Some v' -> npa_all env T v' m.
Proof.
  intros env T v k x v' m Hc Hn Ha. unfold npa_all, keys in *.
  rewrite Forall_map in Hc. rewrite Forall_forall in *. intros kv Hin.
  eapply npa_preserved; eauto.
Qed.

Lemma assign_all_perm_gen : forall env T m m', Permutation m m' ->
  forall v, no_conflict (keys m) -> nonempty_keys m -> npa_all env T v m ->
  assign_all env T v m = assign_all env T v m'.
Proof.
  intros env T m m' HP. induction HP as [|[k x] l l' HP IH|[k1 x1] [k2 x2] l|l l' l'' HP1 IH1 HP2 IH2];
    intros v Hnc Hne Hnp.
  - reflexivity.
  - rewrite !assign_all_cons. simpl in Hnc. destruct Hnc as [Hc Hnc].
    inversion Hne as [|? ? Hk Hne']; subst. inversion Hnp as [|? ? Hn Hnp']; subst. simpl in Hk, Hn.
    rewrite assign_one_nonempty by assumption.
    destruct (assign env T v k x) as [v1|] eqn:Ea; [|reflexivity]. simpl.
    apply IH; auto. eapply npa_all_preserved; eauto.
  - rewrite !assign_all_cons.
    simpl in Hnc. destruct Hnc as [Hc1 [Hc2 Hnc]].
    inversion Hc1 as [|? ? Hc12 Hc1']; subst.
    inversion Hne as [|? ? Hk1 Hne']; subst. inversion Hne' as [|? ? Hk2 Hne'']; subst.
    inversion Hnp as [|? ? Hn1 Hnp']; subst. inversion Hnp' as [|? ? Hn2 Hnp'']; subst.
    simpl fst in *.
    rewrite !assign_one_nonempty by assumption.
    transitivity (obind (obind (assign env T v k2 x2) (fun v' => assign env T v' k1 x1))
                        (fun v2 => assign_all env T v2 l)).
    + rewrite obind_assoc. apply obind_ext. intro a. rewrite assign_all_cons.
      destruct k1; [contradiction|]. reflexivity.
    + rewrite (assign_comm env k2 k1 T v x2 x1) by assumption.
      rewrite obind_assoc. apply obind_ext. intro a. rewrite assign_all_cons.
      destruct k2; [contradiction|]. reflexivity.
  - rewrite IH1 by assumption. apply IH2.
    + eapply no_conflict_perm; [|eassumption]. unfold keys. apply Permutation_map. assumption.
    + unfold nonempty_keys in *. eapply Permutation_Forall; eassumption.
    + unfold npa_all in *. eapply Permutation_Forall; eassumption.
Qed.

(* a mapping to the whole input is alone in an accepted set *)
Lemma no_conflict_nil_single : forall m, no_conflict (keys m) -> ~ nonempty_keys m -> exists x, m = [([], x)].
Proof.
  intros m. induction m as [|[k x] m IH]; intros Hnc Hne.
  - exfalso. apply Hne. constructor.
  - simpl in Hnc. destruct Hnc as [Hc Hnc]. destruct k as [|f k].
    + destruct m as [|[k' x'] m]; [eexists; reflexivity|].
      inversion Hc; subst. discriminate.
    + destruct m as [|[k' x'] m].
      * exfalso. apply Hne. constructor; [discriminate | constructor].
      * destruct IH as [y Hy]; auto.
        { intro H. apply Hne. constructor; [discriminate | exact H]. }
        inversion Hy; subst. inversion Hc; subst. rewrite conflict_sym in H1. discriminate.
Qed.

Lemma nonempty_keys_dec : forall m, nonempty_keys m \/ ~ nonempty_keys m.
Proof.
  induction m as [|[k x] m IH]; [left; constructor|].
  destruct k; [right; intro H; inversion H; subst; simpl in *; congruence|].
  destruct IH as [H|H]; [left; constructor; [discriminate|assumption] | right; intro H'; inversion H'; auto].
Qed.

(* convertTo iterates over a Go map: for an accepted (overlap-free) set of target paths
   every iteration order gives the same result (value or failure) *)
Theorem assign_all_perm : forall env T m m',
  Permutation m m' -> no_conflict (keys m) ->
  assign_all env T (new_instance T) m = assign_all env T (new_instance T) m'.
Proof.
  intros env T m m' HP Hnc.
  destruct (nonempty_keys_dec m) as [Hne|Hne].
  - apply assign_all_perm_gen; auto.
    unfold npa_all. rewrite Forall_forall. intros kv _. apply npa_fresh.
  - destruct (no_conflict_nil_single m Hnc Hne) as [x ->].
    apply Permutation_length_1_inv in HP. subst. reflexivity.
Qed.

Theorem convert_to_perm : forall env T m m',
  Permutation m m' -> no_conflict (keys m) -> convert_to env T m = convert_to env T m'.
Proof. intros. unfold convert_to. rewrite (assign_all_perm env T m m'); auto. Qed.
