(* Proofs/ChainLowerModel.v — property C01: the chain lowering code of compose/chain.go, as the hand-written
   functions of Model/ChainLowerSpec.v (which Proofs/GenAgreeChainLower.v proves equal to the functions tools/go2v
   regenerates from the source), run on the model's node lists (Model/ChainLowerInst.v: what graph.addNode /
   AddEdge / AddBranch, Parallel.err and the branch wrapper do), builds for every chain that [chain_compiles]
   accepts exactly the graph [chain_lower] of Model/Chain.v that the chain theorems of Props/C01.v are about:
     step_node / step_par / step_branch   one Append* call = one step of [lower_stages]
     run_stages                           the whole sequence of calls, by induction over the stages
     li_compile_is_chain_lower            NewChain + Append* + addEndIfNeeded = chain_lower
   Hypothesis: no stage node has the empty node key (the model's chains carry explicit keys; with generated keys
   the graph is the same up to the names of its nodes, which the correspondence compares). *)
From Eino Require Import Base.Util Model.Graph Model.Chain Model.ChainSpec Model.ChainCompile Model.ImpGenLib Model.ChainGenLib Model.ChainLowerSpec Model.ChainLowerInst.
From Eino Require Import Proofs.PregelBase Proofs.PregelChainLower Proofs.PregelChainCompile.
From Coq Require Import Lia.
Open Scope N_scope.

Lemma keys_add_edge : forall a b ns, map n_key (add_edge a b ns) = map n_key ns.
Proof. intros. rewrite add_edge_cif. apply map_cif_keys. Qed.
Lemma keys_add_branch : forall a b ns, map n_key (add_branch a b ns) = map n_key ns.
Proof. intros. rewrite add_branch_cif. apply map_cif_keys. Qed.

Definition mkc (ns : list node) (i : nat) (prev : list key) : chain_st (list node) :=
  {| ch_err := None; ch_g := ns; ch_idx := i; ch_prev := prev; ch_has_end := false |}.

Lemma add_edges_never_fail : forall froms to ns i prev,
  add_edges_to (list node) li_add_edge (fun e => e) (mkc ns i prev) froms to
  = (mkc (fold_left (fun acc p => add_edge p to acc) froms ns) i prev, false).
Proof.
  induction froms as [|p froms IH]; intros to ns i prev; simpl; [reflexivity|].
  apply (IH to (add_edge p to ns) i prev).
Qed.

Lemma end_edges_never_fail : forall froms ns i prev,
  end_edges (list node) li_add_edge (mkc ns i prev) froms
  = (mkc (fold_left (fun acc p => add_edge p kEND acc) froms ns) i prev, None).
Proof.
  induction froms as [|p froms IH]; intros ns i prev; simpl; [reflexivity|].
  apply (IH (add_edge p kEND ns) i prev).
Qed.

Lemma keys_fold_add_edge : forall froms to ns, map n_key (fold_left (fun acc p => add_edge p to acc) froms ns) = map n_key ns.
Proof. induction froms as [|p froms IH]; intros to ns; simpl; [reflexivity|]. rewrite IH. apply keys_add_edge. Qed.

Lemma keys_fold_par : forall ss p ns,
  map n_key (fold_left (fun acc s => add_edge p (sn_key s) (acc ++ [node_of s])) ss ns) = map n_key ns ++ map sn_key ss.
Proof.
  induction ss as [|s ss IH]; intros p ns; simpl; [symmetry; apply app_nil_r|].
  rewrite IH, keys_add_edge, map_app. simpl. rewrite <- app_assoc. reflexivity.
Qed.

Lemma snode_eta : forall ss,
  map (fun pr : li_PR => {| sn_key := snd pr; sn_kind := fst (fst pr); sn_outkey := snd (fst pr) |}) (map li_pair ss) = ss.
Proof. induction ss as [|[k kd ok] ss IH]; simpl; [reflexivity|]. rewrite IH. reflexivity. Qed.

Lemma km_set_fresh : forall k v m, alookup k m = None -> km_set k v m = m ++ [(k, v)].
Proof.
  intros k v m. induction m as [|[k' v'] m IH]; simpl; intros H; [reflexivity|].
  destruct (N.eqb k k'); [discriminate|]. rewrite IH by exact H. reflexivity.
Qed.

Lemma alookup_app_none : forall {A} k (m1 m2 : list (key * A)), alookup k (m1 ++ m2) = None <-> alookup k m1 = None /\ alookup k m2 = None.
Proof.
  intros A k m1 m2. induction m1 as [|[k' v'] m1 IH]; simpl.
  - tauto.
  - destruct (N.eqb k k'); [split; [discriminate|intros [H _]; discriminate]|exact IH].
Qed.

Lemma km_apply_id : forall ss k, km_apply (map (fun s => (sn_key s, sn_key s)) ss) k = k.
Proof.
  intros ss k. unfold km_apply. induction ss as [|s ss IH]; simpl; [reflexivity|].
  destruct (N.eqb k (sn_key s)) eqn:E; [apply N.eqb_eq in E; symmetry; exact E|exact IH].
Qed.

Lemma map_map_id : forall (f : key -> key) (t : list (list key)), (forall k, f k = k) -> map (map f) t = t.
Proof.
  intros f t H. induction t as [|r t IH]; simpl; [reflexivity|]. rewrite IH. f_equal.
  induction r as [|k r IHr]; simpl; [reflexivity|]. rewrite H, IHr. reflexivity.
Qed.

Lemma alookup_pairs : forall {A} (f : snode -> A) ss s,
  NoDup (map sn_key ss) -> In s ss -> alookup (sn_key s) (map (fun s => (sn_key s, f s)) ss) = Some (f s).
Proof.
  intros A f ss s. induction ss as [|s0 ss IH]; simpl; intros Hnd Hin; [contradiction|].
  inversion Hnd as [|? ? Hn Hnd']; subst. destruct Hin as [->|Hin].
  - rewrite N.eqb_refl. reflexivity.
  - destruct (N.eqb (sn_key s) (sn_key s0)) eqn:E.
    + apply N.eqb_eq in E. exfalso. apply Hn. rewrite <- E. apply in_map. exact Hin.
    + apply IH; assumption.
Qed.

Section B.
  Variable auto_key : string -> list fmt_arg -> key.
  Variable k_empty : key.

  Lemma step_node : forall s ns i prev,
    sn_key s <> k_empty ->
    ~ In (sn_key s) (kEND :: map n_key ns) ->
    li_addNode auto_key k_empty (mkc ns i prev) s
    = mkc (fold_left (fun acc p => add_edge p (sn_key s) acc) (match prev with [] => [kSTART] | _ => prev end) (ns ++ [node_of s]))
          (S i) [sn_key s].
  Proof.
    intros s ns i prev Hk Hn. unfold li_addNode, chain_addNode. simpl.
    unfold key_eqb. apply N.eqb_neq in Hk. rewrite Hk.
    unfold li_add_node. apply memb_false in Hn. rewrite Hn.
    change (li_mk_node (sn_key s) (sn_kind s, sn_outkey s)) with (node_of s).
    destruct prev as [|p prev]; simpl.
    - reflexivity.
    - match goal with |- context [add_edges_to _ _ _ ?c _ _] =>
        change c with (mkc (add_edge p (sn_key s) (ns ++ [node_of s])) (S i) (p :: prev)) end.
      rewrite add_edges_never_fail. reflexivity.
  Qed.

  Lemma par_add_ok : forall start prefix ss ns i prev j acc,
    NoDup (kEND :: map n_key ns ++ map sn_key ss) ->
    ~ In k_empty (map sn_key ss) ->
    par_add (list node) li_GN key li_PR (fun _ => li_err) auto_key k_empty li_add_node li_add_edge (fun k => k)
            (fun _ => true) (fun _ => true) fst snd (mkc ns i prev) start prefix j (map li_pair ss) acc
    = (mkc (fold_left (fun acc s => add_edge start (sn_key s) (acc ++ [node_of s])) ss ns) i prev, acc ++ map sn_key ss, false).
  Proof.
    intros start prefix ss. induction ss as [|s ss IH]; intros ns i prev j acc Hnd Hk; simpl.
    - rewrite app_nil_r. reflexivity.
    - unfold own_key. simpl.
      assert (Hk1 : key_eqb (sn_key s) k_empty = false).
      { unfold key_eqb. apply N.eqb_neq. intros E. apply Hk. left. exact E. }
      rewrite Hk1. simpl.
      assert (Hn : memb (sn_key s) (kEND :: map n_key ns) = false).
      { apply memb_false. intros Hin. change (kEND :: map n_key ns ++ map sn_key (s :: ss)) with ((kEND :: map n_key ns) ++ sn_key s :: map sn_key ss) in Hnd.
        apply (NoDup_app_disj _ _ (sn_key s) Hnd Hin). left. reflexivity. }
      unfold li_add_node at 1. rewrite Hn. simpl.
      change (li_mk_node (sn_key s) (sn_kind s, sn_outkey s)) with (node_of s).
      match goal with |- context [par_add _ _ _ _ _ _ _ _ _ _ _ _ _ _ ?c _ _ _ _ _] =>
        change c with (mkc (add_edge start (sn_key s) (ns ++ [node_of s])) i prev) end.
      rewrite IH.
      + rewrite <- app_assoc. reflexivity.
      + rewrite keys_add_edge, map_app. simpl. rewrite <- app_assoc. exact Hnd.
      + intros H. apply Hk. right. exact H.
  Qed.

  Lemma step_par : forall ss ns i prev p,
    single_prev prev = Some p ->
    par_ok ss = true ->
    NoDup (kEND :: map n_key ns ++ map sn_key ss) ->
    ~ In k_empty (map sn_key ss) ->
    li_AppendParallel auto_key k_empty (mkc ns i prev) ss
    = mkc (fold_left (fun acc s => add_edge p (sn_key s) (acc ++ [node_of s])) ss ns) (S i) (map sn_key ss).
  Proof.
    intros ss ns i prev p Hp Hok Hnd Hk. unfold li_AppendParallel, chain_AppendParallel.
    unfold par_ok in Hok. apply andb_true_iff in Hok. destruct Hok as [Hlen Hkeys].
    assert (E1 : li_par_err (map li_pair ss) = None).
    { unfold li_par_err. rewrite snode_eta. destruct (par_outkeys ss) as [ks|]; [rewrite Hkeys; reflexivity|discriminate]. }
    rewrite E1. simpl is_some. cbv iota.
    assert (E2 : Nat.leb (List.length (map li_pair ss)) 1 = false).
    { rewrite map_length. apply Nat.leb_le in Hlen. apply Nat.leb_gt. lia. }
    rewrite E2.
    assert (E3 : start_node (list node) (mkc ns i prev) = Some p).
    { unfold start_node. simpl. unfold single_prev in Hp. destruct prev as [|a [|b r]]; try discriminate; exact Hp. }
    rewrite E3. unfold chain_nextNodeKey. simpl ch_idx.
    change (ch_set_idx (mkc ns i prev) (S i)) with (mkc ns (S i) prev).
    rewrite par_add_ok by assumption. reflexivity.
  Qed.

  Lemma br_add_ok : forall prefix all ss ns i prev k2n,
    (forall s, In s ss -> bn_get (li_zero k_empty) all (sn_key s) = li_pair s) ->
    NoDup (kEND :: map n_key ns ++ map sn_key ss) ->
    ~ In k_empty (map sn_key ss) ->
    (forall s, In s ss -> alookup (sn_key s) k2n = None) ->
    br_add (list node) li_GN key li_PR (fun _ => li_err) auto_key k_empty (li_zero k_empty) li_add_node (fun k => k)
           (fun _ => true) (fun _ => true) fst snd (mkc ns i prev) prefix all (map sn_key ss) k2n
    = (mkc (ns ++ map node_of ss) i prev, k2n ++ map (fun s => (sn_key s, sn_key s)) ss, false).
  Proof.
    intros prefix all ss. induction ss as [|s ss IH]; intros ns i prev k2n Hget Hnd Hk Hfresh; simpl.
    - rewrite !app_nil_r. reflexivity.
    - rewrite (Hget s) by (left; reflexivity). unfold own_key. simpl.
      assert (Hk1 : key_eqb (sn_key s) k_empty = false).
      { unfold key_eqb. apply N.eqb_neq. intros E. apply Hk. left. exact E. }
      rewrite Hk1. simpl.
      assert (Hn : memb (sn_key s) (kEND :: map n_key ns) = false).
      { apply memb_false. intros Hin. change (kEND :: map n_key ns ++ map sn_key (s :: ss)) with ((kEND :: map n_key ns) ++ sn_key s :: map sn_key ss) in Hnd.
        apply (NoDup_app_disj _ _ (sn_key s) Hnd Hin). left. reflexivity. }
      unfold li_add_node at 1. rewrite Hn. simpl.
      change (li_mk_node (sn_key s) (sn_kind s, sn_outkey s)) with (node_of s).
      match goal with |- context [br_add _ _ _ _ _ _ _ _ _ _ _ _ _ _ ?c _ _ _ _] =>
        change c with (mkc (ns ++ [node_of s]) i prev) end.
      rewrite km_set_fresh by (apply Hfresh; left; reflexivity).
      assert (Hnd2 : NoDup (map sn_key (s :: ss))).
      { change (kEND :: map n_key ns ++ map sn_key (s :: ss)) with ((kEND :: map n_key ns) ++ map sn_key (s :: ss)) in Hnd. apply NoDup_app_r in Hnd. exact Hnd. }
      rewrite IH.
      + rewrite <- !app_assoc. reflexivity.
      + intros s' Hs'. apply Hget. right. exact Hs'.
      + rewrite map_app. simpl. rewrite <- app_assoc. exact Hnd.
      + intros H. apply Hk. right. exact H.
      + intros s' Hs'. apply alookup_app_none. split; [apply Hfresh; right; exact Hs'|].
        simpl. destruct (N.eqb (sn_key s') (sn_key s)) eqn:E; [|reflexivity].
        apply N.eqb_eq in E. simpl in Hnd2. inversion Hnd2 as [|? ? Hx _]; subst. exfalso. apply Hx. rewrite <- E. apply in_map. exact Hs'.
  Qed.

  Lemma step_branch : forall ss table ns i prev p,
    single_prev prev = Some p ->
    Nat.leb 2 (List.length ss) = true ->
    NoDup (kEND :: map n_key ns ++ map sn_key ss) ->
    ~ In k_empty (map sn_key ss) ->
    li_AppendBranch auto_key k_empty (mkc ns i prev) ss table
    = mkc (add_branch p {| b_ends := map sn_key ss; b_nodata := false; b_table := table |} (ns ++ map node_of ss)) (S i) (map sn_key ss).
  Proof.
    intros ss table ns i prev p Hp Hlen Hnd Hk. unfold li_AppendBranch, chain_AppendBranch. simpl fst. simpl is_some. cbv iota.
    rewrite map_length. apply Nat.leb_le in Hlen.
    destruct (Nat.eqb (List.length ss) 0) eqn:E0; [apply Nat.eqb_eq in E0; lia|].
    destruct (Nat.eqb (List.length ss) 1) eqn:E1; [apply Nat.eqb_eq in E1; lia|].
    assert (E3 : start_node (list node) (mkc ns i prev) = Some p).
    { unfold start_node. simpl. unfold single_prev in Hp. destruct prev as [|a [|b r]]; try discriminate; exact Hp. }
    rewrite E3. unfold chain_nextNodeKey. simpl ch_idx.
    change (ch_set_idx (mkc ns i prev) (S i)) with (mkc ns (S i) prev).
    assert (Hnd2 : NoDup (map sn_key ss)).
    { change (kEND :: map n_key ns ++ map sn_key ss) with ((kEND :: map n_key ns) ++ map sn_key ss) in Hnd. apply NoDup_app_r in Hnd. exact Hnd. }
    unfold bn_keys. rewrite map_map. simpl fst.
    rewrite (br_add_ok _ _ ss ns (S i) prev km_empty).
    - simpl. unfold li_add_branch, li_mk_branch. simpl snd.
      rewrite map_map_id by (apply km_apply_id). unfold km_values. rewrite map_map. simpl snd. reflexivity.
    - intros s Hs. unfold bn_get. rewrite (alookup_pairs li_pair ss s Hnd2 Hs). reflexivity.
    - exact Hnd.
    - exact Hk.
    - intros s Hs. reflexivity.
  Qed.

  Lemma nodup_shift : forall (a : list key) k b, NoDup (kEND :: a ++ k :: b) -> NoDup (kEND :: (a ++ [k]) ++ b).
  Proof. intros a k b H. rewrite <- app_assoc. exact H. Qed.

  Lemma nodup_shift_l : forall (a l b : list key), NoDup (kEND :: a ++ l ++ b) -> NoDup (kEND :: (a ++ l) ++ b).
  Proof. intros a l b H. rewrite <- app_assoc. exact H. Qed.

  Lemma nodup_front : forall (a l b : list key), NoDup (kEND :: a ++ l ++ b) -> NoDup (kEND :: a ++ l).
  Proof.
    intros a l b H. change (kEND :: a ++ l ++ b) with ((kEND :: a) ++ l ++ b) in H. rewrite app_assoc in H.
    apply NoDup_app_l in H. exact H.
  Qed.

  Lemma run_stages : forall rest ns i prev multi,
    (multi = false -> (List.length prev <= 1)%nat) ->
    NoDup (kEND :: map n_key ns ++ chain_all_keys rest) ->
    ~ In k_empty (chain_all_keys rest) ->
    stages_compile multi rest = true ->
    exists ns' i' prev',
      lower_stages rest ns prev = Some (ns', prev')
      /\ fold_left (li_stage auto_key k_empty) rest (mkc ns i prev) = mkc ns' i' prev'
      /\ (prev <> [] \/ rest <> [] -> prev' <> []).
  Proof.
    induction rest as [|st rest IH]; intros ns i prev multi Hm Hnd Hk Hc.
    - exists ns, i, prev. simpl. split; [reflexivity|]. split; [reflexivity|]. intros [H|H]; [exact H|contradiction].
    - unfold chain_all_keys in Hnd, Hk. simpl flat_map in Hnd, Hk. fold (chain_all_keys rest) in Hnd, Hk.
      destruct st as [s|ss|ss table]; cbn [stages_compile] in Hc; simpl stage_snodes in Hnd, Hk; simpl fold_left.
      + (* node *)
        simpl map in Hnd, Hk.
        assert (Hk1 : sn_key s <> k_empty) by (intros E; apply Hk; left; exact E).
        assert (Hn1 : ~ In (sn_key s) (kEND :: map n_key ns)).
        { intros Hin. change (kEND :: map n_key ns ++ [sn_key s] ++ chain_all_keys rest) with ((kEND :: map n_key ns) ++ sn_key s :: chain_all_keys rest) in Hnd.
          apply (NoDup_app_disj _ _ (sn_key s) Hnd Hin). left. reflexivity. }
        rewrite (step_node s ns i prev Hk1 Hn1).
        set (ns2 := fold_left (fun acc p => add_edge p (sn_key s) acc) (match prev with [] => [kSTART] | _ => prev end) (ns ++ [node_of s])).
        destruct (IH ns2 (S i) [sn_key s] false) as (ns' & i' & prev' & H1 & H2 & H3).
        * intros _. simpl. lia.
        * unfold ns2. rewrite keys_fold_add_edge, map_app. simpl map. apply nodup_shift. exact Hnd.
        * intros H. apply Hk. right. exact H.
        * exact Hc.
        * exists ns', i', prev'. split; [exact H1|]. split; [exact H2|]. intros _. apply H3. left. discriminate.
      + (* parallel *)
        apply andb_true_iff in Hc. destruct Hc as [Hc Hrest]. apply andb_true_iff in Hc. destruct Hc as [Hmulti Hok].
        apply negb_true_iff in Hmulti. specialize (Hm Hmulti).
        assert (Hp : exists p, single_prev prev = Some p).
        { destruct prev as [|a [|b r]]; simpl in Hm; [exists kSTART; reflexivity|exists a; reflexivity|lia]. }
        destruct Hp as [p Hp].
        rewrite (step_par ss ns i prev p Hp Hok).
        2:{ apply (nodup_front _ _ (chain_all_keys rest)). exact Hnd. }
        2:{ intros H. apply Hk. apply in_or_app. left. exact H. }
        simpl lower_stages. rewrite Hp.
        set (ns1 := fold_left (fun acc s => add_edge p (sn_key s) (acc ++ [node_of s])) ss ns).
        destruct (IH ns1 (S i) (map sn_key ss) true) as (ns' & i' & prev' & H1 & H2 & H3).
        * intros E; discriminate.
        * unfold ns1. rewrite keys_fold_par. apply nodup_shift_l. exact Hnd.
        * intros H. apply Hk. apply in_or_app. right. exact H.
        * exact Hrest.
        * exists ns', i', prev'. split; [exact H1|]. split; [exact H2|]. intros _. apply H3. left.
          unfold par_ok in Hok. apply andb_true_iff in Hok. destruct Hok as [Hl _]. apply Nat.leb_le in Hl.
          destruct ss; simpl in *; [lia|discriminate].
      + (* branch *)
        apply andb_true_iff in Hc. destruct Hc as [Hc Hrest]. apply andb_true_iff in Hc. destruct Hc as [Hmulti Hlen].
        apply negb_true_iff in Hmulti. specialize (Hm Hmulti).
        assert (Hp : exists p, single_prev prev = Some p).
        { destruct prev as [|a [|b r]]; simpl in Hm; [exists kSTART; reflexivity|exists a; reflexivity|lia]. }
        destruct Hp as [p Hp].
        rewrite (step_branch ss table ns i prev p Hp Hlen).
        2:{ apply (nodup_front _ _ (chain_all_keys rest)). exact Hnd. }
        2:{ intros H. apply Hk. apply in_or_app. left. exact H. }
        simpl lower_stages. rewrite Hp.
        set (ns1 := add_branch p {| b_ends := map sn_key ss; b_nodata := false; b_table := table |} (ns ++ map node_of ss)).
        destruct (IH ns1 (S i) (map sn_key ss) true) as (ns' & i' & prev' & H1 & H2 & H3).
        * intros E; discriminate.
        * unfold ns1. rewrite keys_add_branch, map_app, map_map. simpl n_key.
          replace (map (fun x => n_key (node_of x)) ss) with (map sn_key ss) by (apply map_ext; intros; reflexivity).
          apply nodup_shift_l. exact Hnd.
        * intros H. apply Hk. apply in_or_app. right. exact H.
        * exact Hrest.
        * exists ns', i', prev'. split; [exact H1|]. split; [exact H2|]. intros _. apply H3. left.
          apply Nat.leb_le in Hlen. destruct ss; simpl in *; [lia|discriminate].
  Qed.

  (* NewChain + Append* + Compile of the (generated = hand-written) lowering code builds exactly [chain_lower] *)
  Theorem li_compile_is_chain_lower : forall sts max,
    chain_compiles sts = true ->
    ~ In k_empty (chain_all_keys sts) ->
    li_compile auto_key k_empty sts max = chain_lower sts max.
  Proof.
    intros sts max Hc Hk. unfold chain_compiles in Hc.
    apply andb_true_iff in Hc. destruct Hc as [Hc Hsc]. apply andb_true_iff in Hc. destruct Hc as [Hne Hnd].
    apply nodupb_NoDup in Hnd.
    assert (Hnd' : NoDup (kEND :: map n_key [Model.Chain.start_node] ++ chain_all_keys sts)).
    { simpl. inversion Hnd as [|? ? Hs Hrest]; subst. inversion Hrest as [|? ? He Hkeys]; subst.
      constructor.
      - intros [H|H]; [apply Hs; left; symmetry; exact H|exact (He H)].
      - constructor; [|exact Hkeys]. intros H. apply Hs. right. exact H. }
    destruct (run_stages sts [Model.Chain.start_node] 0%nat [] false) as (ns' & i' & prev' & H1 & H2 & H3); try assumption.
    { intros _. simpl. lia. }
    unfold li_compile, li_init. change {| ch_err := None; ch_g := [Model.Chain.start_node]; ch_idx := 0%nat; ch_prev := []; ch_has_end := false |}
      with (mkc [Model.Chain.start_node] 0 []).
    rewrite H2. unfold chain_lower. rewrite H1.
    assert (Hp : prev' <> []). { apply H3. right. destruct sts; [discriminate|discriminate]. }
    unfold chain_addEndIfNeeded. simpl is_some. cbv iota. simpl ch_has_end. cbv iota. simpl ch_prev.
    destruct prev' as [|p prev']; [contradiction|]. simpl List.length. simpl Nat.eqb. cbv iota.
    rewrite end_edges_never_fail. reflexivity.
  Qed.
End B.
