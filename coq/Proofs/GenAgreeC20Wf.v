(* Proofs/GenAgreeC20Wf.v — property C20, translator tie for the deferred-error handling of a Workflow: the
   Gallina functions tools/go2v (extractor "c20workflow") translated from compose/workflow.go (Gen/C20Workflow.v)
   are the model's:
     - the closure WorkflowNode.addDependencyRelation records for a declaration — chosen by the options that
       AddInput / AddInputWithOptions(WithNoDirectDependency) / AddDependency hand to it — is [run_input]
       (mapped-path check first, then addEdgeWithMappings with the flags of the kind: a refused mapping never
       reaches the graph, a refused edge sets the sticky build error);
     - Workflow.compile, with those closures, is [w_compile fixed] for every state, option set and pair of
       visiting orders: build error first; deferred branches (an end node without WorkflowNode sets the sticky
       error, addBranch with skipData = true, its error dropped); the deferred inputs node by node (stop at the
       first error, the closures of a node are forgotten only after all of them succeeded, so a failed
       declaration is met again by the next Compile: what deferred_error_sticks is about); the static values
       (refused once the workflow is compiled, mapped-path check, handler in front, converter at the end when
       nothing is mapped and the node has a type, consumed); graph.compile last.
   Hypotheses visible in the statements: AddDependency declares no mappings ([wi_fields i = []]).
   Unrecognised shape: neutral Gen file, [W.tie_available = false], the theorems hold vacuously. *)
From Eino Require Import Base.Util Model.Builder Model.BuilderGenLib Model.BuilderWfGenLib Proofs.Builder Proofs.BuilderReject Proofs.BuilderSound Proofs.BuilderReject2.
From Eino Require Gen.C20Workflow.
Module W := Gen.C20Workflow.
Local Open Scope string_scope.
Local Open Scope list_scope.

Ltac wvacuous TA := unfold W.tie_available in TA; discriminate TA.

(* ---------------------------------------------------------------- association lists *)
Lemma aget_set_same : forall {A} k (a : A) l, alist_get k (alist_set k a l) = Some a.
Proof.
  intros A k a l; induction l as [|[k' a'] l IH]; simpl; [rewrite String.eqb_refl; reflexivity|].
  destruct (String.eqb k k') eqn:E; simpl; [rewrite String.eqb_refl; reflexivity|rewrite E; exact IH].
Qed.

Lemma aset_set : forall {A} k (a b : A) l, alist_set k a (alist_set k b l) = alist_set k a l.
Proof.
  intros A k a b l; induction l as [|[k' a'] l IH]; simpl; [rewrite String.eqb_refl; reflexivity|].
  destruct (String.eqb k k') eqn:E; simpl; [rewrite String.eqb_refl; reflexivity|rewrite E, IH; reflexivity].
Qed.

Lemma aset_same : forall {A} k (a : A) l, alist_get k l = Some a -> alist_set k a l = l.
Proof.
  intros A k a l; induction l as [|[k' a'] l IH]; simpl; [discriminate|].
  destruct (String.eqb k k') eqn:E.
  - intros H; inversion H; subst. apply String.eqb_eq in E; subst. reflexivity.
  - intros H. rewrite (IH H). reflexivity.
Qed.

Lemma w_eta : forall w, w_set_g (w_g w) w = w.
Proof. intros []; reflexivity. Qed.

(* ---------------------------------------------------------------- the closures *)
Definition closure_for (i : winput) :=
  let '(nd, dw) := match wi_kind i with
                   | WNormal => W.options_AddInput
                   | WNoDirect => W.options_WithNoDirectDependency
                   | WDepOnly => W.options_AddDependency
                   end in
  W.closure_of nd dw.

Theorem gen_wf_closure_agrees : W.tie_available = true -> forall g k m i,
  (wi_kind i = WDepOnly -> wi_fields i = []) ->
  closure_for i g k m (wi_from i) (wi_fields i) = run_input g k m i.
Proof.
  intros TA; first [wvacuous TA | clear TA;
  intros g k m [from kind fs] HD; unfold closure_for, run_input, W.closure_of, W.options_AddInput,
    W.options_WithNoDirectDependency, W.options_AddDependency, W.closure_noDirectDependency,
    W.closure_dependencyWithoutInput, W.closure_default, add_edge_with_mappings; simpl in *;
  destruct kind; simpl;
  [ destruct (check_mapped m fs) as [m' [e|]]; simpl; [reflexivity|];
    destruct (g_add_edge g from k false false fs) as [g' o]; simpl; destruct (err_of o); reflexivity
  | destruct (check_mapped m fs) as [m' [e|]]; simpl; [reflexivity|];
    destruct (g_add_edge g from k true false fs) as [g' o]; simpl; destruct (err_of o); reflexivity
  | rewrite (HD eq_refl); simpl;
    destruct (g_add_edge g from k false true []) as [g' o]; simpl; destruct (err_of o); reflexivity ] ].
Qed.

(* ---------------------------------------------------------------- the three phases of Workflow.compile *)
Definition missing_end (w : wstate) (e : string) : bool :=
  negb (String.eqb e END_) && negb (is_some (alist_get e (w_nodes w))).

Lemma ends_loop : forall body ends w,
  (forall w0 e, body w0 e =
     if String.eqb e END_ then (w0, None)
     else if negb (wn_has e w0) then (w_set_build_error (Some EBranchEndUnknown) w0, Some EBranchEndUnknown)
     else (w0, None)) ->
  wfor_each body ends w =
  if existsb (missing_end w) ends then (w_set_build_error (Some EBranchEndUnknown) w, Some EBranchEndUnknown) else (w, None).
Proof.
  intros body ends w HB; induction ends as [|e rest IH]; simpl; [reflexivity|].
  rewrite HB. unfold missing_end at 1, wn_has, wn_get.
  destruct (String.eqb e END_); simpl; [exact IH|].
  destruct (is_some (alist_get e (w_nodes w))); simpl; [exact IH|reflexivity].
Qed.

Lemma inputs_loop : forall k is w p m st,
  wn_get k w = Some (mkWN p m st) ->
  wfor_each (fun w i => let '(w, err) := call_closure run_input k w i in if is_some err then (w, err) else (w, None)) is w =
  let '(g', m', e) := run_inputs (w_g w) k m is in (wn_put k (mkWN p m' st) (w_set_g g' w), e).
Proof.
  intros k is; induction is as [|i rest IH]; intros w p m st H; simpl.
  - unfold wn_put. rewrite w_eta. unfold wn_get in H. rewrite (aset_same _ _ _ H). destruct w; reflexivity.
  - unfold call_closure at 1. rewrite H. simpl.
    destruct (run_input (w_g w) k m i) as [[g1 m1] [e|]]; simpl; [reflexivity|].
    rewrite (IH _ p m1 st); [|unfold wn_get, wn_put; simpl; apply aget_set_same].
    simpl. destruct (run_inputs g1 k m1 rest) as [[g2 m2] e2]. unfold wn_put; simpl. rewrite aset_set. reflexivity.
Qed.

Lemma wfor_each_ext : forall {A} (f f' : wstate -> A -> wstate * option ecls) l w,
  (forall w a, f w a = f' w a) -> wfor_each f l w = wfor_each f' l w.
Proof.
  intros A f f' l; induction l as [|a l IH]; intros w H; simpl; [reflexivity|].
  rewrite H. destruct (f' w a) as [w' [e|]]; [reflexivity|]. apply IH, H.
Qed.

(* deferred branches *)
Definition branch_step (w : wstate) (wb : string * list string) : wstate * option ecls :=
  if existsb (missing_end w) (snd wb) then (w_set_build_error (Some EBranchEndUnknown) w, Some EBranchEndUnknown)
  else (w_add_branch (fst wb) (snd wb) true w, None).

Lemma branches_phase : forall bs w,
  wfor_each branch_step bs w =
  match run_branches fixed w bs with
  | (w', Some o) => (w', err_of o)
  | (w', None) => (w', None)
  end.
Proof.
  induction bs as [|[from ends] rest IH]; intros w; simpl; [reflexivity|].
  unfold branch_step at 1. simpl. unfold missing_end.
  destruct (existsb (fun e => negb (String.eqb e END_) && negb (is_some (alist_get e (w_nodes w)))) ends); [reflexivity|].
  unfold w_add_branch. destruct (g_add_branch (w_g w) from ends true) as [g' o]. simpl. apply IH.
Qed.

(* deferred inputs of the nodes, in the order given *)
Definition node_step (w : wstate) (k : string) : wstate * option ecls :=
  match wfor_each (fun w i => let '(w, err) := call_closure run_input k w i in if is_some err then (w, err) else (w, None))
                  (pending_of k w) w with
  | (w, Some e) => (w, Some e)
  | (w, None) => (inputs_clear k w, None)
  end.

Lemma nodes_phase : forall order w, wfor_each node_step order w = run_nodes w order.
Proof.
  induction order as [|k rest IH]; intros w; simpl; [reflexivity|].
  unfold node_step at 1, pending_of. unfold wn_get at 1.
  destruct (alist_get k (w_nodes w)) as [[p m st]|] eqn:G.
  - cbn [wn_pending]. rewrite (inputs_loop k p w p m st G). simpl.
    destruct (run_inputs (w_g w) k m p) as [[g' m'] [e|]]; [reflexivity|].
    unfold inputs_clear, wn_update, wn_get, wn_put. simpl. rewrite aget_set_same. simpl. rewrite aset_set. apply IH.
  - simpl. unfold inputs_clear, wn_update, wn_get. rewrite G. apply IH.
Qed.

(* static values of the nodes, in the order given *)
Definition static_step (w : wstate) (k : string) : wstate * option ecls :=
  if has_statics k w then
    if g_compiled (w_g w) then (w, Some ECompiled)
    else let '(w1, err) := check_static_paths k w in
         if is_some err then (w1, err)
         else let so := no_mapping_recorded k w1 in
              let w2 := prenode_push_front k w1 in
              let w3 := if so then (if helper_known k w2 then prenode_push_back k w2 else w2) else w2 in
              (statics_consume k w3, None)
  else (w, None).

Lemma statics_phase : forall order w, wfor_each static_step order w = run_statics fixed w order.
Proof.
  induction order as [|k rest IH]; intros w; simpl; [reflexivity|].
  unfold static_step at 1, has_statics, check_static_paths. unfold wn_get at 1 2.
  destruct (alist_get k (w_nodes w)) as [[p m st]|] eqn:G; [|apply IH].
  simpl. destruct st as [|f fs]; simpl; [apply IH|].
  destruct (g_compiled (w_g w)); [reflexivity|].
  destruct (check_mapped m (f :: fs)) as [m' [e|]]; simpl; [reflexivity|].
  rewrite <- IH. f_equal.
  unfold statics_consume, wn_update, wn_get, wn_put, prenode_push_back, prenode_push_front, helper_known, no_mapping_recorded, static_handlers, in_typed.
  simpl.
  destruct (match alist_get k (g_fm (w_g w)) with Some (_ :: _) => false | _ => true end); simpl.
  - destruct (if is_se k then true else match alist_get k (g_nodes (w_g w)) with Some n => n_in n | None => false end);
      simpl; rewrite aget_set_same; simpl; rewrite aset_set; destruct w; simpl; try rewrite app_nil_r; reflexivity.
  - rewrite aget_set_same; simpl; rewrite aset_set; destruct w; simpl; rewrite app_nil_r; reflexivity.
Qed.

Theorem gen_wf_compile_agrees : W.tie_available = true -> forall w o ord sord,
  W.compile run_input w o ord sord = w_compile fixed w o ord sord.
Proof.
  intros TA; first [wvacuous TA | clear TA;
  intros w o ord sord; unfold W.compile, w_compile;
  destruct (g_err (w_g w)) as [e|] eqn:E; [reflexivity|]; cbn [is_some];
  rewrite (wfor_each_ext _ branch_step);
  [ rewrite branches_phase;
    destruct (run_branches fixed w (w_branches w)) as [w1 [out|]] eqn:RB;
    [ destruct (run_branches_stop_is_err _ _ _ _ RB) as [er Her]; subst out; reflexivity | ];
    rewrite (wfor_each_ext _ node_step) by (intros; reflexivity);
    rewrite nodes_phase;
    destruct (run_nodes w1 (ord ++ map fst (w_nodes w1))) as [w2 [er|]]; [reflexivity|];
    rewrite (wfor_each_ext _ static_step) by (intros; reflexivity);
    rewrite statics_phase;
    destruct (run_statics fixed w2 (sord ++ map fst (w_nodes w2))) as [w3 [er|]]; reflexivity
  | intros w0 [from ends]; unfold branch_step; cbn [fst snd];
    rewrite (ends_loop _ ends w0) by (intros; reflexivity);
    destruct (existsb (missing_end w0) ends); reflexivity ] ].
Qed.


(* ---------------------------------------------------------------- the declaring calls *)
(* what [wstep] does for a call that only declares (Add<Component>Node, AddBranch, AddEnd, AddInput* on the handle of
   a node or of END, SetStaticValue) is the translated method; End() — the handle of END — is [W.front_End]: the
   registered node, created on first use *)
Theorem gen_wf_front_agrees : W.tie_available = true ->
  (forall v w k nk ns, wstep v w (WAddNode k nk ns) = (W.front_AddNode w k nk ns, OOk))
  /\ (forall v w from ends, wstep v w (WAddBranch from ends) = (W.front_AddBranch w from ends, OOk))
  /\ (forall v w from fs, wstep v w (WAddEnd from fs) = (W.front_AddEnd w from fs, OOk))
  /\ (forall v w from kind fs opts, kind_of_options opts = kind ->
        wstep v w (WAddInput END_ from kind fs) = (W.front_addDependencyRelation END_ (W.front_End w) from fs opts, OOk))
  /\ (forall v w to from kind fs opts, kind_of_options opts = kind -> String.eqb to END_ = false ->
        wstep v w (WAddInput to from kind fs) = (W.front_addDependencyRelation to w from fs opts, OOk))
  /\ (forall v w f, wstep v w (WSetStatic END_ f) = (W.front_SetStaticValue END_ (W.front_End w) f, OOk))
  /\ (forall v w k f, String.eqb k END_ = false -> wstep v w (WSetStatic k f) = (W.front_SetStaticValue k w f, OOk)).
Proof.
  intros TA; first [wvacuous TA | clear TA;
  split; [|split; [|split; [|split; [|split; [|split]]]]];
  [ intros v w k nk ns; simpl; unfold W.front_AddNode, w_graph_addNode, W.initNode, wn_put;
    destruct (g_add_node (w_g w) k nk ns false false) as [g' o]; reflexivity
  | intros v w from ends; reflexivity
  | intros v w from fs; simpl; unfold w_add_input, W.front_AddEnd, W.front_End, W.front_addDependencyRelation, inputs_append,
      wn_update, wn_has, wn_get, W.initNode, wn_put, kind_of_options, W.options_AddInput; simpl;
    destruct (alist_get END_ (w_nodes w)) as [n|] eqn:G; simpl;
    [ rewrite G; reflexivity | rewrite aget_set_same; simpl; reflexivity ]
  | intros v w from kind fs opts HK; simpl; unfold w_add_input, W.front_End, W.front_addDependencyRelation, inputs_append,
      wn_update, wn_has, wn_get, W.initNode, wn_put; rewrite HK; simpl;
    destruct (alist_get END_ (w_nodes w)) as [n|] eqn:G; simpl;
    [ rewrite G; reflexivity | rewrite aget_set_same; simpl; reflexivity ]
  | intros v w to from kind fs opts HK HE; simpl; unfold w_add_input, W.front_addDependencyRelation, inputs_append, wn_update, wn_get, wn_put;
    rewrite HK, HE; simpl; destruct (alist_get to (w_nodes w)); reflexivity
  | intros v w f; simpl; unfold W.front_SetStaticValue, statics_put, W.front_End, wn_update, wn_has, wn_get, W.initNode, wn_put; simpl;
    destruct (alist_get END_ (w_nodes w)) as [n|] eqn:G; simpl;
    [ rewrite G; reflexivity | rewrite aget_set_same; simpl; reflexivity ]
  | intros v w k f HE; simpl; unfold W.front_SetStaticValue, statics_put, wn_update, wn_get, wn_put; rewrite HE; simpl;
    destruct (alist_get k (w_nodes w)); reflexivity ] ].
Qed.

Print Assumptions gen_wf_closure_agrees.
Print Assumptions gen_wf_front_agrees.
Print Assumptions gen_wf_compile_agrees.
