From Eino Require Import Base.Util Base.FMUniverse Model.FieldMap Model.FieldMapPromote Model.FieldMapGenLib.
From Eino Require Gen.C15TakeOne.

(* ------------------------------------------------------------------ takeOne *)

(* what fieldMap does with takeOne's result: the taken value, or the class of the error *)
Definition gres_res {A B} (f : A -> B) (r : gres A) : res B :=
  match r with GOk a => Ok (f a) | GErr e => Err (gerr_class e) end.

(* takeOne on reflect.ValueOf(v), with the (non-nil) type fieldMap passes along, is the model's take_one:
   the same value is taken, the same class of error (key not found / anything else) is returned, and
   no reflect call panics — for every value, well typed or not *)
Theorem gen_take_one_agrees : forall env v t f,
  option_map (gres_res fst) (Gen.C15TakeOne.take_one env (rv_of v) (Some t) f) = Some (take_one env v f).
Proof.
  intros env v t f. unfold Gen.C15TakeOne.take_one.
  destruct v as [|z|s|n fs|u [w|]|ks e [es|]]; cbn [rv_of rv_is_valid negb].
  - (* nil *) reflexivity.
  - (* int *) cbn -[rt_kind_is]. destruct (rt_kind_is _ t); reflexivity.
  - (* string *) cbn -[rt_kind_is]. destruct (rt_kind_is _ t); reflexivity.
  - (* struct *)
    cbn -[lookup_field]. unfold Gen.C15TakeOne.check_and_extract_from_field, rv_field_by_name, take_field. cbn -[lookup_field].
    destruct (lookup_field env n f) as [[[|] ft]|]; cbn; reflexivity.
  - (* pointer *)
    cbn -[lookup_field]. destruct (is_any u) eqn:Hu.
    + destruct w; cbn; rewrite ?Hu; reflexivity.
    + destruct w as [|z|s|n fs|u' o|ks e o]; cbn -[lookup_field]; rewrite ?Hu; try reflexivity.
      unfold Gen.C15TakeOne.check_and_extract_from_field, rv_field_by_name, take_field. cbn -[lookup_field].
      destruct (lookup_field env n f) as [[[|] ft]|]; cbn; reflexivity.
  - (* nil pointer *) reflexivity.
  - (* map *)
    cbn. unfold Gen.C15TakeOne.check_and_extract_from_map_key. cbn.
    destruct ks; cbn; [|reflexivity]. destruct (aget f es); reflexivity.
  - (* nil map *)
    cbn. unfold Gen.C15TakeOne.check_and_extract_from_map_key. cbn.
    destruct ks; reflexivity.
Qed.

(* the second result: the type handed back for the next step is never the nil reflect.Type when a value is
   taken from a well-formed value ... (fieldMap only passes it on to takeOne, which looks at it in the error
   branch of a non-walkable value, where it is the type of a valid Value) *)
Example gen_take_one_answers :
  let env : senv := [(1%N, [(2%N, (true, TInt)); (3%N, (false, TInt)); (4%N, (true, TAny))])] in
  Gen.C15TakeOne.take_one env (rv_of (VStruct 1 [(2%N, VInt 5)])) (Some (TStruct 1)) 2%N = Some (GOk (VInt 5, Some TInt))
  /\ Gen.C15TakeOne.take_one env (rv_of (VStruct 1 [])) (Some (TStruct 1)) 4%N = Some (GOk (VNil, Some TAny))
  /\ Gen.C15TakeOne.take_one env (rv_of (VStruct 1 [])) (Some (TStruct 1)) 3%N = Some (GErr GErrOther)
  /\ Gen.C15TakeOne.take_one env (rv_of (VPtr (TStruct 1) None)) (Some (TPtr (TStruct 1))) 2%N = Some (GErr GErrOther)
  /\ Gen.C15TakeOne.take_one env (rv_of (VMap true TAny (Some []))) (Some (TMap true TAny)) 2%N = Some (GErr GErrKey)
  /\ Gen.C15TakeOne.take_one env (rv_of VNil) None 2%N = Some (GErr GErrIface)
  /\ Gen.C15TakeOne.take_one env (rv_of (VInt 1)) (Some TAny) 2%N = Some (GErr GErrIface).
Proof. repeat split; reflexivity. Qed.
