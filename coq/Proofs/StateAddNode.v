(* Proofs/StateAddNode.v — C11: [build_err_t] (Model/StateLockType.v: the program is refused; evaluated
   by Corr/C11.v on every case and compared with what AddNode / Compile did) is addNode's decision
   function applied to every node of every graph. *)
From Eino Require Import Base.Util Model.StateLock Model.StateLockLTS Model.StateLockCode Model.StateLockType
  Model.StateAddNode.
Open Scope N_scope.

Lemma existsb_ext_in : forall A (p q : A -> bool) l, (forall a, In a l -> p a = q a) -> existsb p l = existsb q l.
Proof.
  induction l as [|a l IH]; intros H; cbn; [reflexivity|].
  rewrite (H a (or_introl eq_refl)), IH; [reflexivity|]. intros b Hb. apply H. now right.
Qed.

Lemma build_err_t_is_add_node : forall f gty nty,
  build_err_t f gty nty = build_err_nodes f gty nty.
Proof.
  intros f gty nty. unfold build_err_t, build_err_nodes.
  apply existsb_ext_in. intros [gi g] _.
  destruct (g_state g); apply existsb_ext_in; intros a _; unfold node_err, add_node_err;
    rewrite ?(N.eqb_sym (gty_of gty gi));
    destruct (n_pre a), (n_post a); cbn; rewrite ?Bool.orb_false_r; reflexivity.
Qed.

(* every option that attaches a state handler marks the node as needing the graph state, records the
   handler's state type on the side of the handler, and wraps the handler by a converter of that side *)
Lemma handler_options_consistent :
  forall o w hs ts need, In (o, (w, (hs, (ts, need)))) handler_options ->
    need = true /\ hs = ts /\
    (hs = SPre -> wrapper_is w KPre = true) /\ (hs = SPost -> wrapper_is w KPost = true).
Proof.
  intros o w hs ts need H. cbn in H.
  repeat (destruct H as [H|H]; [inversion H; subst; repeat split; intros; try discriminate; reflexivity|]).
  destruct H.
Qed.
