(* Proofs/TaskMgrComplete.v — the trace checker of Model/TaskMgr.v is not stricter than the LTS:
   every transition of the LTS from a state satisfying the invariant is one event the checker
   accepts, with the same successor state.  Together with Proofs/TaskMgrTrace.v (soundness): on
   logs that are in transition order the checker accepts exactly the runs of the LTS. *)
From Eino Require Import Base.Util Model.TaskMgr Proofs.TaskMgr.

Lemma exec_ev_complete s s' : Inv s -> step s s' -> exists e, exec_ev s e = Some s'.
Proof.
  intros I H. destruct H.
  - exists (EvSpawn t b). simpl. rewrite H, H0. reflexivity.
  - exists (EvSync t b). simpl. rewrite H, H0. reflexivity.
  - exists (EvSyncRet t). simpl. rewrite H, H0, N.eqb_refl. reflexivity.
  - exists EvAwait. simpl. rewrite H, H0. reflexivity.
  - exists (EvLockE t). simpl. rewrite H, H0. reflexivity.
  - exists (EvPush t (err_of b)). simpl. rewrite H, H0, N.eqb_refl, Bool.eqb_reflx. reflexivity.
  - destruct x as [t' e']. exists (EvSend t'). simpl. rewrite H1, H2, N.eqb_refl, H, H0. reflexivity.
  - exists EvFull. simpl.
    destruct (l s) eqn:El; [congruence|]. destruct (done s) eqn:Ed; [|congruence]. simpl.
    rewrite H, H0. reflexivity.
  - exists (EvUnlockE t). simpl. rewrite H, H0, N.eqb_refl. simpl.
    destruct H1 as [[-> Hl]| ->]; [rewrite Hl; reflexivity|reflexivity].
  - destruct x as [t' e']. exists (EvRecv t' e'). simpl. rewrite H, H0, N.eqb_refl, Bool.eqb_reflx. reflexivity.
  - exists EvLockC. simpl. rewrite H, H0. reflexivity.
  - destruct y as [t' e']. exists (EvSend t'). simpl. rewrite H0, H1, N.eqb_refl.
    assert (K : lock s = HColl) by (apply (i_lockC s I); rewrite H; reflexivity).
    rewrite K, H. reflexivity.
  - exists EvFull. simpl.
    destruct (l s) eqn:El; [congruence|]. destruct (done s) eqn:Ed; [|congruence]. simpl.
    assert (K : lock s = HColl) by (apply (i_lockC s I); rewrite H; reflexivity).
    rewrite K, H. reflexivity.
  - exists EvUnlockC. simpl. destruct H as [[-> Hl]| ->]; [rewrite Hl; reflexivity|reflexivity].
Qed.
