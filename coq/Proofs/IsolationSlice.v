(* Proofs/IsolationSlice.v — property C09: the "append onto a shared backing array" shape. *)
From Eino Require Import Base.Util Model.Isolation Proofs.Isolation.

(* two runs whose branches select 7 and 9 over the compiled edges [1;2;3]: under the schedule
   0,1,0,1 run 0 goes on with the selection of run 1; the record has changed *)
Lemma spare_append_foreign_selection :
  exists sched g g',
    grun astep_shared sched g = Some g' /\ all_final astep_shared g' = true /\
    exists r r' s rs,
      nth_error (snd g) 0 = Some r /\ nth_error (snd g') 0 = Some r' /\
      solo_run astep_shared 2 (fst g) r = Some (s, rs) /\
      a_used rs = Some (as_edges (fst g) ++ [a_sel r]) /\
      a_used r' = Some (as_edges (fst g) ++ [9%N]) /\ a_sel r = 7%N /\ fst g' <> fst g.
Proof.
  exists [0; 1; 0; 1]%nat.
  exists ({| as_edges := [1; 2; 3]%N; as_spare := 0 |},
          [ {| a_pc := 0; a_sel := 7; a_used := None |}; {| a_pc := 0; a_sel := 9; a_used := None |} ]).
  eexists. split; [vm_compute; reflexivity|]. split; [vm_compute; reflexivity|].
  do 4 eexists. repeat split; try (vm_compute; reflexivity). vm_compute. discriminate.
Qed.

(* why the change is visible without any collision: ONE step of ONE run already changes the
   store whenever its selection is not what the spare slot holds — this is what the snapshot of
   the compiled record (spare capacity included) taken before and after the calls compares *)
Lemma spare_append_one_run_writes_record : forall s r,
  a_pc r = 0%N -> a_sel r <> as_spare s ->
  exists s' r', astep_shared s r = Some (s', r') /\ s' <> s /\ as_edges s' = as_edges s.
Proof.
  intros s r Hpc Hne. unfold astep_shared. rewrite Hpc. simpl.
  do 2 eexists. split; [reflexivity|]. split; [|reflexivity].
  intro E. apply Hne. rewrite <- E. reflexivity.
Qed.

(* the code as it is: H1/H2 hold with view = the whole store *)
Lemma astep_local_no_write : forall s r s' r', astep_local s r = Some (s', r') ->
  (fun x : aslice => x) s' = (fun x : aslice => x) s.
Proof.
  unfold astep_local; intros s r s' r' H.
  destruct (N.eqb (a_pc r) 0); [inversion H; reflexivity|].
  destruct (N.eqb (a_pc r) 1); [inversion H; reflexivity|discriminate].
Qed.

Lemma astep_local_reads_view : forall s1 s2 r, (fun x : aslice => x) s1 = (fun x : aslice => x) s2 ->
  option_map snd (astep_local s1 r) = option_map snd (astep_local s2 r).
Proof. intros s1 s2 r H; simpl in H; subst; auto. Qed.

Lemma astep_local_uses_own_selection : forall sched g g',
  grun astep_local sched g = Some g' ->
  fst g' = fst g /\
  forall i r, nth_error (snd g) i = Some r -> a_pc r = 0%N ->
  forall r', nth_error (snd g') i = Some r' -> final astep_local (fst g') r' = true ->
  a_used r' = Some (as_edges (fst g) ++ [a_sel r]).
Proof.
  intros sched g g' H. split.
  - exact (grun_view _ _ _ astep_local (fun x : aslice => x) astep_local_no_write sched g g' H).
  - intros i r Hr Hpc r' Hr' Hf.
    destruct (project_run _ _ _ astep_local (fun x : aslice => x) astep_local_no_write astep_local_reads_view
                sched g g' H i r Hr (fst g) eq_refl) as (sf & rf & A & B & _).
    rewrite Hr' in B; inversion B; subst rf; clear B.
    destruct r as [pc sel us]; simpl in *; subst pc.
    remember (count i sched) as n. destruct n as [|[|[|n]]]; simpl in A.
    + inversion A; subst r'. unfold final, astep_local in Hf; simpl in Hf. discriminate.
    + unfold astep_local in A; simpl in A. inversion A; subst r'. unfold final, astep_local in Hf; simpl in Hf. discriminate.
    + unfold astep_local in A; simpl in A. inversion A; subst r'. reflexivity.
    + unfold astep_local in A; simpl in A. discriminate.
Qed.
