(* Proofs/ErrorsKeep.v — property C13, part 9: what a stream holds is never swallowed.
   In stream mode an error item (or a convert function that panics) travelling on the streams
   between the nodes is never dropped: every node that is handed a stream holding one either fails
   (it read the stream inside its task) or hands it on (lazy transformers, sub-graphs), copies and
   merges keep it, and so the run ends with an error, an interrupt, or a result stream that still
   holds something — never with a clean result.  In particular an error item on the INPUT stream
   of Collect / Transform always comes back to the caller, whatever the graph. *)
From Eino Require Import Base.Util Model.Errors Proofs.Errors Proofs.ErrorsRun.

Definition nonempty_stage (st : list node) : bool := match st with [] => false | _ => true end.
Definition nonempty_graph (g : graph) : bool := forallb nonempty_stage (g_stages g).

Definition kept (r : gres) : Prop :=
  match r with GDone [] _ => False | GFail [] => False | _ => True end.
Definition nkept (r : nres) : Prop :=
  match r with NOk [] _ => False | NErr [] => False | _ => True end.

Lemma map_nonempty : forall A B (f : A -> B) l, l <> [] -> map f l <> [].
Proof. intros A B f [|a l] H; [contradiction|discriminate]. Qed.

Lemma fanout_nonempty : forall n its, its <> [] -> fanout n its <> [].
Proof. intros n its H. destruct n as [|[|n]]; cbn [fanout]; auto. apply map_nonempty. exact H. Qed.

Lemma fanin_nonempty : forall m its, its <> [] -> fanin m its <> [].
Proof. intros m its H. destruct m as [|[|m]]; cbn [fanin]; auto. apply map_nonempty. exact H. Qed.

Lemma exec_lambda_keeps : forall items f b, items <> [] -> nkept (exec_lambda true items f b).
Proof.
  intros items f b H. destruct items as [|it0 its]; [contradiction|].
  unfold exec_lambda. cbn [negb]. destruct f; try exact I.
  destruct (call_time b); exact I.
Qed.

Lemma with_post_keeps : forall b r, nkept r -> nkept (with_post true b r).
Proof.
  intros b r H. destruct b; cbn [with_post]; auto.
  destruct r as [[|[e0|i] it] c|es|]; cbn in *; auto.
Qed.

Lemma exec_tools_keeps : forall items ts, items <> [] -> nkept (exec_tools true items ts).
Proof.
  intros items ts H. destruct items as [|it0 its]; [contradiction|].
  unfold exec_tools. destruct ts as [|t0 ts']; exact I.
Qed.

Section Keep.
  Variable F : forest.
  Hypothesis HF : forallb nonempty_graph F = true.

  Definition rec_keeps (rec : graph -> list item -> bool -> gres) : Prop :=
    forall g items canc, nonempty_graph g = true -> items <> [] -> kept (rec g items canc).

  Lemma exec_node_keeps : forall rec items canc n, rec_keeps rec -> items <> [] ->
    nkept (exec_node F true rec items canc n).
  Proof.
    intros rec items canc n Hrec Hit. destruct n as [k f b|k gi|k ts]; cbn [exec_node].
    - apply with_post_keeps. apply exec_lambda_keeps. exact Hit.
    - destruct (nth_error F gi) as [g|] eqn:Eg; [|exact I].
      assert (Hg : nonempty_graph g = true).
      { rewrite forallb_forall in HF. apply HF. eapply nth_error_In; eauto. }
      specialize (Hrec g items canc Hg Hit).
      destruct (rec g items canc) as [[|i0 it] c|[|e0 es]| |i|]; cbn in *; auto.
    - apply exec_tools_keeps. exact Hit.
  Qed.

  (* a stage none of whose tasks failed, interrupted or ran out of fuel: some task handed items on *)
  Lemma stage_items_nonempty : forall rs,
    rs <> [] -> (forall k r, In (k, r) rs -> nkept r) ->
    any_fuel rs = false -> all_fails rs = [] -> any_int rs = false -> all_items rs <> [].
  Proof.
    intros rs Hne Hk Hf Hfa Hi. destruct rs as [|[k r] rs']; [contradiction|].
    specialize (Hk k r (or_introl eq_refl)).
    cbn [any_fuel any_int all_fails all_items existsb flat_map snd fst] in *.
    destruct r as [[|i0 it] c|[|e0 es]|]; cbn in Hk; try contradiction; try discriminate.
    (* a task error is an interrupt or a failure *)
    exfalso. apply orb_false_iff in Hi. destruct Hi as [Hi _].
      cbn [existsb] in Hi. apply orb_false_iff in Hi. destruct Hi as [Hi0 _].
      apply app_eq_nil in Hfa. destruct Hfa as [Hfa _].
      unfold real_errors in Hfa. cbn [filter] in Hfa. rewrite Hi0 in Hfa. cbn in Hfa. discriminate.
  Qed.

  Lemma steps_keeps_from_stage : forall rec all loop br, rec_keeps rec ->
    forallb nonempty_stage all = true ->
    forall k cur items canc,
      forallb nonempty_stage cur = true ->
      (* the input holds something, or some task of the first stage ahead hands something on *)
      (items <> [] \/
       exists st rest n it c, cur = st :: rest /\ In n st /\ canc = false /\
                              exec_node F true rec items false n = NOk it c /\ it <> []) ->
      kept (steps F true rec all loop br k cur items canc).
  Proof.
    intros rec all loop br Hrec Hall. induction k as [|k IH]; intros cur items canc Hcur Hsrc.
    - destruct cur as [|st rest]; cbn [steps].
      + destruct Hsrc as [H|[st [rest [n [it [c [E _]]]]]]]; [|discriminate].
        destruct items; [contradiction|exact I].
      + destruct canc; exact I.
    - destruct cur as [|st rest]; cbn [steps].
      + destruct Hsrc as [H|[st [rest [n [it [c [E _]]]]]]]; [|discriminate].
        destruct items; [contradiction|exact I].
      + destruct canc; [exact I|].
        destruct (pre_fails true items st) as [|pf0 pfs];
          [|cbv beta iota; destruct (pre_panic true items); exact I].
        rewrite stage_fold_spec. cbn [orb app].
        set (rs := map (fun n => (node_key n, exec_node F true rec items false n)) st) in *.
        cbn [forallb] in Hcur. apply andb_true_iff in Hcur. destruct Hcur as [Hst Hrest].
        destruct (any_fuel rs) eqn:Efu; [exact I|].
        destruct (all_fails rs) as [|f0 fs] eqn:Ef; [|exact I].
        destruct (any_int rs) eqn:Ei.
        * destruct (first_lazy (all_items rs)); [exact I|].
          destruct (item_errors (all_items rs)); exact I.
        * assert (Hitems : all_items rs <> []).
          { destruct Hsrc as [Hit|[st0 [rest0 [n [it [c [E [Hn [_ [Hex Hne]]]]]]]]]].
            - apply stage_items_nonempty; auto.
              + unfold rs. destruct st; [discriminate|discriminate].
              + intros k0 r Hin. unfold rs in Hin. apply in_map_iff in Hin.
                destruct Hin as [n [Heq _]]. inversion Heq; subst. apply exec_node_keeps; auto.
            - inversion E; subst st0 rest0.
              intros Hnil. unfold all_items in Hnil.
              assert (Hin : In (node_key n, NOk it c) rs).
              { unfold rs. apply in_map_iff. exists n. split; [rewrite Hex; reflexivity|exact Hn]. }
              assert (X : forall x, In x it -> In x (flat_map (fun kr : string * nres => match snd kr with NOk it _ => it | _ => [] end) rs)).
              { intros x Hx. apply in_flat_map. exists (node_key n, NOk it c). split; [exact Hin|exact Hx]. }
              destruct it as [|x it']; [contradiction|]. specialize (X x (or_introl eq_refl)).
              rewrite Hnil in X. contradiction. }
          destruct rest as [|st' rest'].
          -- destruct (branch_eval true br (all_items rs)) as [|be|bi]; [|exact I|exact I].
             destruct loop.
             ++ apply IH; [exact Hall|]. left. apply fanin_nonempty, fanout_nonempty. exact Hitems.
             ++ pose proof (fanin_nonempty (List.length st) _ (fanout_nonempty 1 _ Hitems)) as Hout.
                cbn [kept]. destruct (fanin (List.length st) (fanout 1 (all_items rs))); [contradiction|exact I].
          -- apply IH; [exact Hrest|]. left. apply fanin_nonempty, fanout_nonempty. exact Hitems.
  Qed.

  (* a task that hands on a stream holding something: the run does not end cleanly *)
  Lemma produced_item_kept : forall rec all loop br k st rest items n it c, rec_keeps rec ->
    forallb nonempty_stage all = true -> forallb nonempty_stage (st :: rest) = true ->
    In n st -> exec_node F true rec items false n = NOk it c -> it <> [] ->
    kept (steps F true rec all loop br k (st :: rest) items false).
  Proof.
    intros rec all loop br k st rest items n it c Hrec Hall Hcur Hn Hex Hne.
    apply steps_keeps_from_stage; auto. right. exists st, rest, n, it, c. repeat split; auto.
  Qed.

  Lemma run_graph_keeps : forall d, rec_keeps (run_graph F true d).
  Proof.
    induction d as [|d IH]; intros g items canc Hg Hit; cbn [run_graph]; [exact I|].
    apply steps_keeps_from_stage; auto. left. apply fanout_nonempty. exact Hit.
  Qed.
End Keep.

(* an error item on the input stream of Collect / Transform is never swallowed: the call does not
   succeed cleanly, and it does have an answer *)
Lemma input_item_not_swallowed_lemma : forall F p cb e,
  (p = PCollect \/ p = PTransform) -> forallb nonempty_graph F = true ->
  ~ In AOk (answers F p cb (Some e)) /\ answers F p cb (Some e) <> [].
Proof.
  intros F p cb e Hp HF. unfold answers. destruct F as [|g F']; [split; [intros [H|[]]; discriminate|discriminate]|].
  assert (Hs : match p with PInvoke => false | _ => true end = true) by (destruct Hp as [-> | ->]; reflexivity).
  rewrite Hs.
  assert (Hi : match p, Some e with (PCollect | PTransform), Some e => [IErr e] | _, _ => [] end = [IErr e])
    by (destruct Hp as [-> | ->]; reflexivity).
  rewrite Hi.
  assert (Hg : nonempty_graph g = true) by (cbn [forallb] in HF; apply andb_true_iff in HF; tauto).
  pose proof (run_graph_keeps (g :: F') HF (S (List.length (g :: F'))) g [IErr e] cb Hg) as Hk.
  assert (Hne : [IErr e] <> []) by discriminate. specialize (Hk Hne).
  destruct (run_graph (g :: F') true (S (List.length (g :: F'))) g [IErr e] cb) as [[|i0 its] c|[|e0 es]| |i|];
    cbn in Hk; try contradiction.
  - split; [|discriminate]. intros Hin. apply in_map_iff in Hin. destruct Hin as [it [Heq _]].
    destruct it; destruct p; discriminate.
  - split; [|discriminate]. intros Hin. apply in_map_iff in Hin. destruct Hin as [x [Heq _]]. discriminate.
  - split; [intros [H|[]]; discriminate|discriminate].
  - split; [intros [H|[]]; discriminate|discriminate].
  - split; [intros [H|[]]; discriminate|discriminate].
Qed.
