(* Proofs/GenAgreeStateLock.v — C11, translator tie: what tools/go2v (extractor "statelock") reads
   from compose/state.go on every run (Gen/StateLockCode.v: the closures of convertPreHandler,
   convertPostHandler, streamConvertPreHandler, streamConvertPostHandler and the body of
   ProcessState as programs of the fragment of Model/StateLockCode.v; getState as a decision
   function over the context) behaves like the programs the model assumes — for every answer of
   getState and every behaviour of the user function (returns, returns an error, panics) — and
   therefore realises the protocol  acquire; user function with the state found; release  the
   transition system of Model/StateLockLTS.v is built on, with the mutex free on every exit.
   A wrapper that forgets the lock, takes it after the call, releases it before the call, releases
   it only on the normal path (no defer), or hands the user function another state than the one
   whose mutex it holds makes this file stop compiling, whether or not a generated case reaches it. *)
From Eino Require Import Base.Util Model.StateLock Model.StateLockLTS Model.StateLockCode.
From Eino Require Import Proofs.StateLockCode.
From Eino Require Gen.StateLockCode.

Theorem gen_wrappers_agree : forall w found h,
  run_prog found h (Gen.StateLockCode.cs_prog w) = run_prog found h (Model.StateLockCode.cs_prog w).
Proof. intros [| | | |] [|] [| |]; reflexivity. Qed.

(* the source realises the protocol *)
Theorem gen_wrappers_meet_protocol : forall w found h,
  run_prog found h (Gen.StateLockCode.cs_prog w) = cs_spec found h.
Proof. intros. rewrite gen_wrappers_agree. apply wrappers_meet_protocol. Qed.

(* the critical section of the transition system is the script of the source's trace *)
Theorem gen_do_cs_is_source_script :
  forall (S X : Type) gen hfun lout mrg f x0 w h (c : config S X) i n,
    do_cs S X gen hfun lout mrg f x0 c i n =
    run_steps S X (pstep S X gen hfun lout mrg f x0) c
              (script (o_trace (run_prog true h (Gen.StateLockCode.cs_prog w))) i n).
Proof.
  intros. rewrite gen_wrappers_agree. apply do_cs_is_wrapper_script.
Qed.

Theorem gen_get_state_agrees : forall (H V M : Type) ctx_value state_as mu_of,
  Gen.StateLockCode.get_state H V M ctx_value state_as mu_of =
  Model.StateLockCode.get_state H V M ctx_value state_as mu_of.
Proof. intros. reflexivity. Qed.

(* non-vacuity: the generated programs do call the user function under the lock, and the generated
   getState distinguishes its three answers *)
Example gen_wrapper_trace :
  o_trace (run_prog true HErrRet (Gen.StateLockCode.cs_prog WProcess)) = [AAcq; ACall true true; ARel]
  /\ o_held (run_prog true HPanic (Gen.StateLockCode.cs_prog WSPost)) = false
  /\ o_trace (run_prog false HRet (Gen.StateLockCode.cs_prog WPre)) = [].
Proof. repeat split; reflexivity. Qed.

Example gen_get_state_three_answers :
  let ctx := fun k => match k with KState => Some 7%nat | KOther _ => None end in
  Gen.StateLockCode.get_state nat nat nat ctx (fun h => Some (h + 1)%nat) (fun h => h) = GsOk 8%nat 7%nat
  /\ Gen.StateLockCode.get_state nat nat nat ctx (fun _ => None) (fun h => h) = GsErr EBadType
  /\ Gen.StateLockCode.get_state nat nat nat (fun _ => None) (fun h => Some h) (fun h => h) = GsErr ENoState.
Proof. repeat split; reflexivity. Qed.

Print Assumptions gen_wrappers_agree.
Print Assumptions gen_wrappers_meet_protocol.
Print Assumptions gen_do_cs_is_source_script.
Print Assumptions gen_get_state_agrees.
