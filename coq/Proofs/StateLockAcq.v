(* Proofs/StateLockAcq.v — C11: the log [hist] the no-lost-update theorem folds over (critical
   sections in the order their user functions completed) is, per object, the order in which
   the lock was acquired: the acquisition log of an object equals its completion log, plus
   the section in progress if its user function has not stored yet. *)
From Eino Require Import Base.Util Model.StateLock Model.StateLockLTS Proofs.StateLockLTS Proofs.StateLockVal.
From Coq Require Import Lia.

Section Acq.
  Variables (S X : Type).
  Variable gen : nat -> S.
  Variable hfun : kind -> N -> X -> S -> X * S.
  Variable lout : N -> X -> X.
  Variable mrg : list X -> X.
  Variable f : forest.
  Variable x0 : X.

  Notation config := (config S X).
  Notation inst := (inst S X).
  Notation pstep := (pstep S X gen hfun lout mrg f x0).
  Notation preach := (preach S X gen hfun lout mrg f x0).
  Notation new_inst := (new_inst S X gen).
  Notation acq_of := (acq_of S X).
  Notation done_of := (done_of S X).
  Notation hist := (hist S X).

  Ltac inv H := inversion H; subst; clear H.

  Definition acq_bound (c : config) : Prop :=
    forall e, In e (c_acq c) -> (a_obj e < List.length (c_objs c))%nat.

  (* the holder of object o, its phase, and what that means for the two logs *)
  Definition holder_ok (c : config) (o : nat) (i : nat) (n : N) : Prop :=
    exists J s ph, nth_error (c_insts c) i = Some J /\ get_ns S X J n = Some s /\ ns_cs s = Some ph /\
                   i_obj J = Some o /\
      match ph with
      | CsStored => acq_of c o = done_of c o
      | _ => exists G a k, nth_error f (i_graph J) = Some G /\ find_in_graph n (g_nodes G) = Some a /\
                           next_cs X a (ns_pos s) = Some k /\ acq_of c o = done_of c o ++ [(i, n, k)]
      end.

  Definition acq_inv (c : config) : Prop :=
    forall o r, nth_error (c_objs c) o = Some r ->
      match o_holder r with
      | None => acq_of c o = done_of c o
      | Some (i, n) => holder_ok c o i n
      end.

  Lemma acq_of_eq : forall (c1 c2 : config) o, c_acq c1 = c_acq c2 -> acq_of c1 o = acq_of c2 o.
  Proof. intros. unfold StateLockLTS.acq_of. rewrite H. reflexivity. Qed.
  Lemma done_of_eq : forall (c1 c2 : config) o, c_trace c1 = c_trace c2 -> done_of c1 o = done_of c2 o.
  Proof. intros. unfold StateLockLTS.done_of, StateLockLTS.hist. rewrite H. reflexivity. Qed.

  Lemma acq_of_app : forall c e o,
    StateLockLTS.acq_of S X (add_acq S X c e) o = acq_of c o ++ (if Nat.eqb (a_obj e) o then [akey e] else []).
  Proof.
    intros. unfold StateLockLTS.acq_of, add_acq; simpl. rewrite filter_app, map_app. simpl.
    destruct (Nat.eqb (a_obj e) o); reflexivity.
  Qed.

  Lemma done_of_app : forall c e o,
    StateLockLTS.done_of S X (add_trace S X c e) o = done_of c o ++ (if Nat.eqb (t_obj e) o then [tkey S X e] else []).
  Proof.
    intros. unfold StateLockLTS.done_of. rewrite hist_app, map_app.
    destruct (Nat.eqb (t_obj e) o); reflexivity.
  Qed.

  Lemma acq_of_fresh : forall c o, acq_bound c -> (List.length (c_objs c) <= o)%nat -> acq_of c o = [].
  Proof.
    intros c o Hb Hl. unfold StateLockLTS.acq_of. unfold acq_bound in Hb.
    induction (c_acq c) as [|e l IH]; simpl; auto.
    assert (a_obj e < List.length (c_objs c))%nat by (apply Hb; left; auto).
    destruct (Nat.eqb_spec (a_obj e) o); [lia|]. apply IH. intros e' He'. apply Hb. right; auto.
  Qed.

  Lemma done_of_fresh : forall c o, trace_bound S X c -> (List.length (c_objs c) <= o)%nat -> done_of c o = [].
  Proof. intros. unfold StateLockLTS.done_of. rewrite hist_fresh; auto. Qed.

  Lemma new_inst_acq : forall c r g G par inh x, c_acq (new_inst c r g G par inh x) = c_acq c.
  Proof. intros. unfold StateLockLTS.new_inst. destruct (g_state G); reflexivity. Qed.

  Lemma acq_bound_step : forall c ch c', acq_bound c -> pstep c ch = Some c' -> acq_bound c'.
  Proof.
    intros c ch c' Hb H. destruct ch as [r|i n|i n|i n|i n|i n|o m].
    - apply pstep_start_inv in H. destruct H as (G & _ & ->). intros e He.
      rewrite new_inst_acq in He. pose proof (new_inst_objs_len S X gen c r 0 G None None x0). apply Hb in He. lia.
    - apply pstep_acq_inv in H. destruct H as (J & a & p & k & x & o & r & El & Ek & Ex & Eo & Er & Eh & ->).
      intros e He. simpl in *. rewrite upd_length. apply in_app_or in He. destruct He as [He|[He|[]]]; auto.
      subst e; simpl. eapply nth_some_lt; eauto.
    - apply pstep_load_inv in H. destruct H as (J & a & p & o & r & El & Eo & Er & ->). exact Hb.
    - apply pstep_store_inv in H.
      destruct H as (J & a & p & l & k & x & o & r & x' & s' & El & Ek & Ex & Eo & Er & Eh & ->).
      intros e He. simpl in *. rewrite upd_length. auto.
    - apply pstep_rel_inv in H. destruct H as (J & a & p & o & r & q & El & Eo & Er & ->).
      intros e He. simpl in *. rewrite upd_length. auto.
    - apply pstep_adv_inv in H. destruct H as (J & a & p & El & En & [(p' & q & _ & ->)|(x & g & G & -> & Es & EG & ->)]).
      + exact Hb.
      + intros e He. simpl in *. rewrite new_inst_acq in He.
        pose proof (new_inst_objs_len S X gen c (i_run J) g G (Some i) (i_obj J) x). apply Hb in He. lia.
    - apply pstep_resume_inv in H. destruct H as (r & Er & Eh & ->).
      intros e He. unfold resumed in *; simpl in *. rewrite app_length; simpl. apply Hb in He. lia.
  Qed.

  (* [holder_ok] survives any step that keeps the holder's instance data and the two logs of
     its object *)
  Lemma holder_ok_frame : forall (c c' : config) o i n,
    (forall J, nth_error (c_insts c) i = Some J ->
       exists J', nth_error (c_insts c') i = Some J' /\ get_ns S X J' n = get_ns S X J n /\
                  i_obj J' = i_obj J /\ i_graph J' = i_graph J) ->
    acq_of c' o = acq_of c o -> done_of c' o = done_of c o ->
    holder_ok c o i n -> holder_ok c' o i n.
  Proof.
    intros c c' o i n Hfr Ha Hd (J & s & ph & H1 & H2 & H3 & H4 & H5).
    destruct (Hfr _ H1) as (J' & H1' & Hg & Ho & Hgr).
    exists J', s, ph. rewrite Ha, Hd, Hg, Ho, Hgr. repeat split; auto.
  Qed.

  Lemma holder_ok_other : forall (c c' : config) i J n s' q o2 i2 n2,
    nth_error (c_insts c) i = Some J ->
    c_insts c' = upd (c_insts c) i (set_doneq S X (set_ns S X J n s') q) ->
    (i2 <> i \/ n2 <> n) ->
    acq_of c' o2 = acq_of c o2 -> done_of c' o2 = done_of c o2 ->
    holder_ok c o2 i2 n2 -> holder_ok c' o2 i2 n2.
  Proof.
    intros c c' i J n s' q o2 i2 n2 Ei Hc Hne Ha Hd H. eapply (holder_ok_frame c c'); [|exact Ha|exact Hd|exact H].
    intros J2 H1. rewrite Hc. destruct (Nat.eq_dec i2 i).
    - subst i2. rewrite Ei in H1. inv H1. destruct Hne as [Hne|Hne]; [congruence|].
      exists (set_doneq S X (set_ns S X J2 n s') q). repeat split; auto.
      + apply nth_upd_eq. eapply nth_some_lt; eauto.
      + change (get_ns S X (set_ns S X J2 n s') n2 = get_ns S X J2 n2). rewrite get_set_ns.
        destruct (N.eqb_spec n2 n); [congruence|auto].
    - exists J2. repeat split; auto. rewrite nth_upd_neq; auto.
  Qed.

  Lemma new_inst_old : forall c r g G par inh x i J,
    nth_error (c_insts c) i = Some J -> nth_error (c_insts (new_inst c r g G par inh x)) i = Some J.
  Proof.
    intros. unfold StateLockLTS.new_inst. destruct (g_state G); simpl; rewrite nth_error_app1; auto; eapply nth_some_lt; eauto.
  Qed.

  Lemma holder_ok_new_inst : forall c r g G par inh x o i n,
    holder_ok c o i n -> holder_ok (new_inst c r g G par inh x) o i n.
  Proof.
    intros. eapply (holder_ok_frame c); [| | |exact H].
    - intros J HJ. exists J. repeat split; auto. apply new_inst_old; auto.
    - apply acq_of_eq. apply new_inst_acq.
    - apply done_of_eq. apply new_inst_trace.
  Qed.

  Lemma cs_of_some' : forall (c : config) i J n s ph o,
    nth_error (c_insts c) i = Some J -> get_ns S X J n = Some s -> ns_cs s = Some ph -> i_obj J = Some o ->
    cs_of S X c i n = Some o.
  Proof. intros. unfold cs_of. rewrite H, H0, H1. auto. Qed.

  Lemma holder_in_cs : forall (c : config) o i n, holder_ok c o i n -> cs_of S X c i n = Some o.
  Proof. intros c o i n (J & s & ph & H1 & H2 & H3 & H4 & _). eapply cs_of_some'; eauto. Qed.

  Lemma acq_step : forall c ch c',
    inv_lock S X c -> trace_bound S X c -> acq_bound c -> acq_inv c -> pstep c ch = Some c' -> acq_inv c'.
  Proof.
    intros c ch c' Hlock Htb Hab IH H. destruct ch as [r|i n|i n|i n|i n|i n|o m].
    - (* start *)
      apply pstep_start_inv in H. destruct H as (G & _ & ->).
      intros o r0 Hr.
      apply new_inst_objs in Hr. destruct Hr as [Hr|(_ & -> & ->)].
      + specialize (IH _ _ Hr). destruct (o_holder r0) as [[i n]|].
        * apply holder_ok_new_inst; auto.
        * rewrite (acq_of_eq _ c) by apply new_inst_acq.
          rewrite (done_of_eq _ c) by apply new_inst_trace. auto.
      + simpl. rewrite (acq_of_eq _ c) by apply new_inst_acq.
        rewrite (done_of_eq _ c) by apply new_inst_trace.
        rewrite acq_of_fresh, done_of_fresh by auto. reflexivity.
    - (* acquire *)
      apply pstep_acq_inv in H. destruct H as (J & a & p & k & x & o & r & El & Ek & Ex & Eo & Er & Eh & ->).
      apply lookup_inv in El. destruct El as (Ei & Eg & G1 & EG1 & Ef1).
      intros o2 r2 Hr. simpl in Hr.
      rewrite (acq_of_eq _ (add_acq S X c (mkA o i n k))) by reflexivity. rewrite acq_of_app. simpl.
      rewrite (done_of_eq _ c) by reflexivity.
      apply upd_cases in Hr. destruct Hr as [(-> & -> & _)|(Hne & Hr)].
      + unfold with_holder at 1. cbn [o_holder].
        specialize (IH _ _ Er). rewrite Eh in IH.
        exists (set_ns S X J n (mkNs p (Some CsAcq))), (mkNs p (Some CsAcq)), CsAcq. repeat split; auto.
        * simpl. apply nth_upd_eq. eapply nth_some_lt; eauto.
        * rewrite get_set_ns, N.eqb_refl. reflexivity.
        * exists G1, a, k. simpl. repeat split; auto.
          rewrite (acq_of_eq _ (add_acq S X c (mkA o i n k))) by reflexivity. rewrite acq_of_app. simpl.
          rewrite Nat.eqb_refl. rewrite (done_of_eq _ c) by reflexivity. rewrite IH. reflexivity.
      + destruct (Nat.eqb_spec o o2); [congruence|]. rewrite app_nil_r.
        specialize (IH _ _ Hr). destruct (o_holder r2) as [[i2 n2]|]; auto.
        eapply (holder_ok_other c _ i J n _ (i_doneq J)); eauto; try reflexivity.
        * apply holder_in_cs in IH. destruct (Nat.eq_dec i2 i); destruct (N.eq_dec n2 n); auto.
          subst. unfold cs_of in IH. rewrite Ei, Eg in IH. discriminate.
        * rewrite (acq_of_eq _ (add_acq S X c (mkA o i n k))) by reflexivity. rewrite acq_of_app. simpl.
          destruct (Nat.eqb_spec o o2); [congruence|]. apply app_nil_r.
    - (* load *)
      apply pstep_load_inv in H. destruct H as (J & a & p & o & r & El & Eo & Er & ->).
      apply lookup_inv in El. destruct El as (Ei & Eg & G1 & EG1 & Ef1).
      assert (Hme : holder S X c o = Some (i, n)) by (apply Hlock; eapply cs_of_some'; eauto; reflexivity).
      intros o2 r2 Hr. simpl in Hr.
      rewrite (acq_of_eq _ c) by reflexivity. rewrite (done_of_eq _ c) by reflexivity.
      pose proof (IH _ _ Hr) as IH2. destruct (o_holder r2) as [[i2 n2]|] eqn:Eh2; auto.
      destruct (Nat.eq_dec i2 i) as [->|]; [destruct (N.eq_dec n2 n) as [->|]|].
      + (* the loading node is the holder of o2, hence o2 = o *)
        pose proof (holder_in_cs _ _ _ _ IH2) as Hc. unfold cs_of in Hc. rewrite Ei, Eg in Hc. simpl in Hc.
        rewrite Eo in Hc. inv Hc.
        destruct IH2 as (J2 & s2 & ph & H1 & H2 & H3 & H4 & H5).
        rewrite Ei in H1. inv H1. rewrite Eg in H2. inv H2. simpl in H3. inv H3.
        exists (set_ns S X J2 n (mkNs p (Some (CsLoaded (o_val r))))), (mkNs p (Some (CsLoaded (o_val r)))), (CsLoaded (o_val r)).
        repeat split; auto.
        * simpl. apply nth_upd_eq. eapply nth_some_lt; eauto.
        * rewrite get_set_ns, N.eqb_refl. reflexivity.
      + eapply (holder_ok_other c _ i J n _ (i_doneq J)); eauto; reflexivity.
      + eapply (holder_ok_other c _ i J n _ (i_doneq J)); eauto; reflexivity.
    - (* store *)
      apply pstep_store_inv in H.
      destruct H as (J & a & p & l & k & x & o & r & x' & s' & El & Ek & Ex & Eo & Er & Eh & ->).
      apply lookup_inv in El. destruct El as (Ei & Eg & G1 & EG1 & Ef1).
      assert (Hme : holder S X c o = Some (i, n)) by (apply Hlock; eapply cs_of_some'; eauto; reflexivity).
      intros o2 r2 Hr. simpl in Hr.
      rewrite (acq_of_eq _ c) by reflexivity.
      rewrite (done_of_eq _ (add_trace S X c (mkT o i a k x l x'))) by reflexivity. rewrite done_of_app. simpl.
      apply upd_cases in Hr. destruct Hr as [(-> & -> & _)|(Hne & Hr)].
      + simpl. rewrite Nat.eqb_refl. unfold holder in Hme. rewrite Er in Hme. rewrite Hme.
        pose proof (IH _ _ Er) as IH2. rewrite Hme in IH2.
        destruct IH2 as (J2 & s2 & ph & H1 & H2 & H3 & H4 & H5).
        rewrite Ei in H1. inv H1. rewrite Eg in H2. inv H2. simpl in H3. inv H3. simpl in H5.
        destruct H5 as (G & a0 & k0 & HG & Hf0 & Hk0 & Hacq).
        rewrite EG1 in HG. inv HG. rewrite Ef1 in Hf0. inv Hf0. rewrite Ek in Hk0. inv Hk0.
        exists (set_ns S X J2 n (mkNs (set_x X p x') (Some CsStored))), (mkNs (set_x X p x') (Some CsStored)), CsStored.
        repeat split; auto.
        * simpl. apply nth_upd_eq. eapply nth_some_lt; eauto.
        * rewrite get_set_ns, N.eqb_refl. reflexivity.
        * rewrite (acq_of_eq _ c) by reflexivity.
          rewrite (done_of_eq _ (add_trace S X c (mkT o i a0 k0 x l x'))) by reflexivity. rewrite done_of_app. simpl.
          rewrite Nat.eqb_refl. unfold tkey. simpl. rewrite (find_in_graph_id _ _ _ Ef1). exact Hacq.
      + destruct (Nat.eqb_spec o o2); [congruence|]. rewrite app_nil_r.
        pose proof (IH _ _ Hr) as IH2. destruct (o_holder r2) as [[i2 n2]|] eqn:Eh2; auto.
        eapply (holder_ok_other c _ i J n _ (i_doneq J)); eauto; try reflexivity.
        * pose proof (holder_in_cs _ _ _ _ IH2) as Hc.
          destruct (Nat.eq_dec i2 i); destruct (N.eq_dec n2 n); auto. subst.
          unfold cs_of in Hc. rewrite Ei, Eg in Hc. simpl in Hc. congruence.
        * rewrite (done_of_eq _ (add_trace S X c (mkT o i a k x l x'))) by reflexivity. rewrite done_of_app. simpl.
          destruct (Nat.eqb_spec o o2); [congruence|]. apply app_nil_r.
    - (* release *)
      apply pstep_rel_inv in H. destruct H as (J & a & p & o & r & q & El & Eo & Er & ->).
      apply lookup_inv in El. destruct El as (Ei & Eg & G1 & EG1 & Ef1).
      assert (Hme : holder S X c o = Some (i, n)) by (apply Hlock; eapply cs_of_some'; eauto; reflexivity).
      intros o2 r2 Hr. simpl in Hr.
      rewrite (acq_of_eq _ c) by reflexivity. rewrite (done_of_eq _ c) by reflexivity.
      apply upd_cases in Hr. destruct Hr as [(-> & -> & _)|(Hne & Hr)].
      + simpl. unfold holder in Hme. rewrite Er in Hme.
        pose proof (IH _ _ Er) as IH2. rewrite Hme in IH2.
        destruct IH2 as (J2 & s2 & ph & H1 & H2 & H3 & H4 & H5).
        rewrite Ei in H1. inv H1. rewrite Eg in H2. inv H2. simpl in H3. inv H3. exact H5.
      + pose proof (IH _ _ Hr) as IH2. destruct (o_holder r2) as [[i2 n2]|] eqn:Eh2; auto.
        eapply (holder_ok_other c _ i J n _ q); eauto; try reflexivity.
        pose proof (holder_in_cs _ _ _ _ IH2) as Hc.
        destruct (Nat.eq_dec i2 i); destruct (N.eq_dec n2 n); auto. subst.
        unfold cs_of in Hc. rewrite Ei, Eg in Hc. simpl in Hc. congruence.
    - (* other moves *)
      apply pstep_adv_inv in H. destruct H as (J & a & p & El & En & [(p' & q & _ & ->)|(x & g & G2 & -> & Es & EG2 & ->)]).
      + apply lookup_inv in El. destruct El as (Ei & Eg & _).
        intros o2 r2 Hr. simpl in Hr.
        rewrite (acq_of_eq _ c) by reflexivity. rewrite (done_of_eq _ c) by reflexivity.
        pose proof (IH _ _ Hr) as IH2. destruct (o_holder r2) as [[i2 n2]|] eqn:Eh2; auto.
        eapply (holder_ok_other c _ i J n _ q); eauto; try reflexivity.
        pose proof (holder_in_cs _ _ _ _ IH2) as Hc.
        destruct (Nat.eq_dec i2 i); destruct (N.eq_dec n2 n); auto. subst.
        unfold cs_of in Hc. rewrite Ei, Eg in Hc. discriminate.
      + apply lookup_inv in El. destruct El as (Ei & Eg & _).
        set (c1 := new_inst c (i_run J) g G2 (Some i) (i_obj J) x).
        assert (Ei' : nth_error (c_insts c1) i = Some J).
        { unfold c1, StateLockLTS.new_inst. destruct (g_state G2); simpl; rewrite nth_error_app1; auto; eapply nth_some_lt; eauto. }
        intros o2 r2 Hr. simpl in Hr.
        rewrite (acq_of_eq _ c) by (simpl; apply new_inst_acq).
        rewrite (done_of_eq _ c) by (simpl; apply new_inst_trace).
        apply new_inst_objs in Hr. destruct Hr as [Hr|(_ & -> & ->)].
        * pose proof (IH _ _ Hr) as IH2. destruct (o_holder r2) as [[i2 n2]|] eqn:Eh2; auto.
          assert (H1 : holder_ok c1 o2 i2 n2).
          { destruct IH2 as (J2 & s2 & ph & H1 & H2 & H3 & H4 & H5).
            exists J2, s2, ph. repeat split; auto.
            - unfold c1, StateLockLTS.new_inst. destruct (g_state G2); simpl; rewrite nth_error_app1; auto; eapply nth_some_lt; eauto.
            - rewrite (acq_of_eq c1 c) by apply new_inst_acq. rewrite (done_of_eq c1 c) by apply new_inst_trace. exact H5. }
          eapply (holder_ok_other c1 _ i J n _ (i_doneq J)); eauto; try reflexivity.
          pose proof (holder_in_cs _ _ _ _ IH2) as Hc.
          destruct (Nat.eq_dec i2 i); destruct (N.eq_dec n2 n); auto. subst.
          unfold cs_of in Hc. rewrite Ei, Eg in Hc. discriminate.
        * simpl. rewrite acq_of_fresh, done_of_fresh by auto. reflexivity.
    - (* resume *)
      apply pstep_resume_inv in H. destruct H as (r & Er & Eh & ->).
      intros o2 r2 Hr. unfold resumed in Hr; simpl in Hr.
      rewrite (acq_of_eq _ c) by reflexivity. rewrite (done_of_eq _ c) by reflexivity.
      apply nth_app_cases in Hr. destruct Hr as [[Hr Hlt]|[-> ->]].
      + pose proof (IH _ _ Hr) as IH2. destruct (o_holder r2) as [[i2 n2]|] eqn:Eh2; auto.
        destruct IH2 as (J2 & s2 & ph & H1 & H2 & H3 & H4 & H5).
        assert (o2 <> o). { intro; subst o2. rewrite Er in Hr. inv Hr. congruence. }
        exists (remap S X o (List.length (c_objs c)) J2), s2, ph.
        destruct (remap_static S X o (List.length (c_objs c)) J2) as (_ & Hgr & _ & _ & Hns & _).
        repeat split; auto.
        * unfold resumed; simpl. apply map_nth_error. auto.
        * unfold get_ns. rewrite Hns. exact H2.
        * unfold remap. rewrite H4. destruct (Nat.eqb_spec o2 o); [congruence|auto].
        * rewrite Hgr. rewrite (acq_of_eq _ c) by reflexivity. rewrite (done_of_eq _ c) by reflexivity. exact H5.
      + simpl. rewrite acq_of_fresh, done_of_fresh by auto. reflexivity.
  Qed.

  Lemma acq_reach : forall c, preach c -> acq_bound c /\ acq_inv c.
  Proof.
    induction 1.
    - split; [intros e []|]. intros o r H. destruct o; discriminate.
    - destruct IHpreach as (Hb & Hi). split; [eapply acq_bound_step; eauto|].
      eapply acq_step; eauto.
      + eapply inv_lock_reach; eauto.
      + apply (inv_val_reach S X gen hfun lout mrg f x0 c H).
  Qed.

  (* per object, completion order = lock-acquisition order: while the lock is free the two
     logs are equal; while it is held they differ at most by the holder's own section *)
  Theorem acquisition_order_preach : forall c, preach c ->
    forall o r, nth_error (c_objs c) o = Some r ->
      match o_holder r with
      | None => acq_of c o = done_of c o
      | Some (i, n) => acq_of c o = done_of c o \/ exists k, acq_of c o = done_of c o ++ [(i, n, k)]
      end.
  Proof.
    intros c Hr o r Ho. destruct (acq_reach c Hr) as (_ & Hi). specialize (Hi _ _ Ho).
    destruct (o_holder r) as [[i n]|]; auto.
    destruct Hi as (J & s & ph & _ & _ & _ & _ & H5). destruct ph.
    - destruct H5 as (G & a & k & _ & _ & _ & H5). right. eauto.
    - destruct H5 as (G & a & k & _ & _ & _ & H5). right. eauto.
    - left. auto.
  Qed.
End Acq.
